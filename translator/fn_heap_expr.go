package main

// Heap backend: expressions, calls, closures (see fn_heap.go).

import (
	"go/ast"
	"go/constant"
	"go/token"
	"go/types"
	"sort"
	"strings"
)

// ---------------------------------------------------------------- summaries read off the body before it is translated

func (c *hctx) isRecvIdent(e ast.Expr) bool {
	id, ok := ast.Unparen(e).(*ast.Ident)
	return ok && c.recvObj != nil && c.g.info.Uses[id] == c.recvObj
}

// cellSel: v selects a field of a heap cell (through a pointer, or of an embedded cell)
func (c *hctx) cellSel(v *ast.SelectorExpr) *hstruct {
	sel := c.g.info.Selections[v]
	if sel == nil || sel.Kind() != types.FieldVal {
		return nil
	}
	n := namedOf(sel.Recv())
	if n == nil {
		return nil
	}
	if s := c.g.structOf(n); s != nil && s.cell {
		return s
	}
	return nil
}

// scanHeap: which heap the function touches, and whether it changes it
func (c *hctx) scanHeap() {
	fn, g := c.fn, c.g
	c.scanEptr()
	note := func(t types.Type) {
		if fn.cell != "" || t == nil {
			return
		}
		if ht := g.typeOf(t, nil); ht != nil && ht.k == "hptr" {
			fn.cell, fn.cellArgs = ht.name, ht.args
		}
	}
	touch := func(cs *hstruct, n *types.Named) {
		fn.readsHeap = true
		if fn.cell == "" {
			fn.cell, fn.cellArgs = cs.name, g.typeArgs(n, cs)
		}
	}
	sig := fn.obj.Type().(*types.Signature)
	if r := sig.Recv(); r != nil {
		note(r.Type())
	}
	for i := 0; i < sig.Params().Len(); i++ {
		note(sig.Params().At(i).Type())
	}
	for i := 0; i < sig.Results().Len(); i++ {
		note(sig.Results().At(i).Type())
	}
	if c.ctorNamed != nil {
		if st, ok := c.ctorNamed.Underlying().(*types.Struct); ok {
			for i := 0; i < st.NumFields(); i++ {
				if ht := g.typeOf(st.Field(i).Type(), nil); ht != nil && ht.k == "hptr" && ht.st != nil && ht.st.wrapper != "" {
					note(st.Field(i).Type())
					fn.readsHeap, fn.writesHeap = true, true
				}
			}
		}
	}
	lhs := map[ast.Expr]bool{}
	ast.Inspect(fn.decl.Body, func(n ast.Node) bool {
		switch v := n.(type) {
		case *ast.AssignStmt:
			for _, l := range v.Lhs {
				lhs[ast.Unparen(l)] = true
			}
		case *ast.IncDecStmt:
			lhs[ast.Unparen(v.X)] = true
		}
		return true
	})
	ast.Inspect(fn.decl.Body, func(n ast.Node) bool {
		switch v := n.(type) {
		case *ast.SelectorExpr:
			if cs := c.cellSel(v); cs != nil {
				touch(cs, namedOf(g.info.Selections[v].Recv()))
				if lhs[v] {
					fn.writesHeap = true
				}
			}
			if lhs[v] && c.eptrIdent(v.X) {
				fn.writesHeap = true // a store through a pointer into a slice field of a cell
			}
		case *ast.CompositeLit:
			if tv, ok := g.info.Types[v]; ok {
				if _, isPtr := types.Unalias(tv.Type).(*types.Pointer); isPtr { // an element {...} of a []*S literal: &S{...}
					note(tv.Type)
					if ht := g.typeOf(tv.Type, nil); ht != nil && ht.k == "hptr" {
						fn.readsHeap, fn.writesHeap = true, true
					}
				}
			}
		case *ast.CallExpr:
			if isBuiltin(v, "new", 1) {
				if tv, ok := g.info.Types[v]; ok {
					note(tv.Type)
					if ht := g.typeOf(tv.Type, nil); ht != nil && ht.k == "hptr" {
						fn.readsHeap, fn.writesHeap = true, true
					}
				}
			}
		case *ast.UnaryExpr:
			if v.Op == token.AND {
				if _, isLit := ast.Unparen(v.X).(*ast.CompositeLit); isLit {
					if tv, ok := g.info.Types[v]; ok {
						note(tv.Type)
						if ht := g.typeOf(tv.Type, nil); ht != nil && ht.k == "hptr" {
							fn.readsHeap, fn.writesHeap = true, true
						}
					}
				}
			}
		case ast.Expr:
			if tv, ok := g.info.Types[v]; ok {
				note(tv.Type)
			}
		}
		// translated functions used here (called, or taken as values)
		var o *types.Func
		switch v := n.(type) {
		case *ast.Ident:
			o, _ = g.info.Uses[v].(*types.Func)
		case *ast.SelectorExpr:
			o, _ = g.info.Uses[v.Sel].(*types.Func)
		}
		if o != nil {
			if cal := g.funcs[o.Origin()]; cal != nil && cal != fn {
				if cal.readsHeap {
					fn.readsHeap = true
				}
				if cal.writesHeap {
					fn.writesHeap = true
				}
				if fn.cell == "" && cal.cell != "" {
					fn.cell, fn.cellArgs = cal.cell, cal.cellArgs
				}
			}
		}
		return true
	})
	if fn.writesHeap {
		fn.readsHeap = true
	}
	if !fn.readsHeap {
		fn.cell = ""
	}
}

// scanFields: the fields of the receiver (a value struct) the body uses / assigns
func (c *hctx) scanFields(s *hstruct) (used, mut map[string]bool) {
	used, mut = map[string]bool{}, map[string]bool{}
	g := c.g
	rootField := func(e ast.Expr) string {
		for {
			switch v := ast.Unparen(e).(type) {
			case *ast.SelectorExpr:
				if c.isRecvIdent(v.X) {
					return v.Sel.Name
				}
				if c.cellSel(v) != nil {
					return "" // a store into the heap
				}
				e = v.X
				continue
			}
			return ""
		}
	}
	ast.Inspect(c.fn.decl.Body, func(n ast.Node) bool {
		switch v := n.(type) {
		case *ast.AssignStmt:
			for _, l := range v.Lhs {
				if f := rootField(l); f != "" {
					mut[f] = true
				}
			}
		case *ast.IncDecStmt:
			if f := rootField(v.X); f != "" {
				mut[f] = true
			}
		case *ast.SelectorExpr:
			if c.isRecvIdent(v.X) {
				if sel := g.info.Selections[v]; sel != nil && sel.Kind() == types.FieldVal {
					used[v.Sel.Name] = true
				}
			}
		}
		c.textScanFields(n, used, mut)
		// calls and method values: x.M with x the receiver, or a struct-valued field of it
		if sel, ok := n.(*ast.SelectorExpr); ok {
			if o, ok := g.info.Uses[sel.Sel].(*types.Func); ok {
				if cal := g.funcs[o.Origin()]; cal != nil && cal.recvFields {
					if c.isRecvIdent(sel.X) {
						fs, ms := cal.fields, cal.mutFields
						if cal == c.fn {
							fs, ms = nil, nil // found by this scan itself
						}
						for _, f := range fs {
							used[f] = true
						}
						for _, f := range ms {
							mut[f] = true
						}
					} else if in, ok := ast.Unparen(sel.X).(*ast.SelectorExpr); ok && c.isRecvIdent(in.X) && len(cal.mutFields) > 0 {
						mut[in.Sel.Name] = true
					}
				}
			}
		}
		return true
	})
	return
}

// typeSub: the type arguments of the translated callee named by fun, in terms of this function
func (c *hctx) typeSub(cal *hfunc, fun ast.Expr) map[string]*hty {
	sub := map[string]*hty{}
	g := c.g
	sig := cal.obj.Type().(*types.Signature)
	bind := func(tps *types.TypeParamList, args *types.TypeList) {
		if tps == nil || args == nil {
			return
		}
		for i := 0; i < tps.Len() && i < args.Len(); i++ {
			if t := g.typeOf(args.At(i), nil); t != nil {
				sub[tps.At(i).Obj().Name()] = t
			}
		}
	}
	fun = ast.Unparen(fun)
	switch v := fun.(type) {
	case *ast.IndexExpr:
		fun = ast.Unparen(v.X)
	case *ast.IndexListExpr:
		fun = ast.Unparen(v.X)
	}
	switch v := fun.(type) {
	case *ast.Ident:
		if inst, ok := g.info.Instances[v]; ok {
			bind(sig.TypeParams(), inst.TypeArgs)
		}
	case *ast.SelectorExpr:
		if sel := g.info.Selections[v]; sel != nil {
			if n := namedOf(sel.Recv()); n != nil {
				bind(sig.RecvTypeParams(), n.TypeArgs())
			}
		}
		if inst, ok := g.info.Instances[v.Sel]; ok {
			bind(sig.TypeParams(), inst.TypeArgs)
		}
	}
	return sub
}

// zeroNeeds: the type parameters whose zero values the zero value of t is built from
func (c *hctx) zeroNeeds(t *hty) []string {
	if t == nil {
		return nil
	}
	switch t.k {
	case "elem":
		return []string{t.name}
	case "struct":
		var ns []string
		for _, ft := range c.fieldTypes(t) {
			ns = append(ns, c.zeroNeeds(ft)...)
		}
		return ns
	}
	return nil
}

// cellZeroNeeds: ... of a fresh cell of the heap
func (c *hctx) cellRecordType(pt *hty) *hty {
	cs := c.g.structs[pt.name]
	return &hty{k: "struct", name: cs.name, st: cs, args: pt.args}
}

func (c *hctx) scanZeros() []string {
	g := c.g
	var zs []string
	add := func(ns ...string) {
		for _, n := range ns {
			dup := false
			for _, z := range zs {
				if z == n {
					dup = true
				}
			}
			if !dup {
				zs = append(zs, n)
			}
		}
	}
	litNeeds := func(lit *ast.CompositeLit, rt *hty) {
		if rt == nil || rt.st == nil {
			return
		}
		set := map[string]bool{}
		positional := false
		for _, el := range lit.Elts {
			if kv, ok := el.(*ast.KeyValueExpr); ok {
				if id, ok := kv.Key.(*ast.Ident); ok {
					set[id.Name] = true
				}
			} else {
				positional = true
			}
		}
		if positional {
			return
		}
		fts := c.fieldTypes(rt)
		for i, f := range rt.st.fnames {
			if !set[f] {
				add(c.zeroNeeds(fts[i])...)
			}
		}
	}
	ast.Inspect(c.fn.decl.Body, func(n ast.Node) bool {
		switch v := n.(type) {
		case *ast.ValueSpec:
			if v.Type != nil && len(v.Values) == 0 {
				if tv, ok := g.info.Types[v.Type]; ok {
					add(c.zeroNeeds(g.typeOf(tv.Type, nil))...)
				}
			}
		case *ast.CallExpr:
			if isBuiltin(v, "new", 1) {
				if tv, ok := g.info.Types[v]; ok {
					if ht := g.typeOf(tv.Type, nil); ht != nil && ht.k == "hptr" {
						add(c.zeroNeeds(c.cellRecordType(ht))...)
					}
				}
			}
		case *ast.CompositeLit:
			if tv, ok := g.info.Types[v]; ok {
				if n := namedOf(tv.Type); n != nil {
					if s := g.structOf(n); s != nil && s.wrapper == "" {
						litNeeds(v, &hty{k: "struct", name: s.name, st: s, args: g.typeArgs(n, s)})
					}
				}
				if g.tx != nil {
					if t := g.typeOf(tv.Type, nil); t != nil && t.k == "elem" {
						add(t.name) // T{} of an abstract value type (fn_heap_text.go)
					}
				}
			}
		}
		var o *types.Func
		var fun ast.Expr
		switch v := n.(type) {
		case *ast.Ident:
			o, _ = g.info.Uses[v].(*types.Func)
			fun = v
		case *ast.SelectorExpr:
			o, _ = g.info.Uses[v.Sel].(*types.Func)
			fun = v
		}
		if o != nil {
			if cal := g.funcs[o.Origin()]; cal != nil && cal != c.fn {
				sub := c.typeSub(cal, fun)
				for _, z := range cal.zeros {
					zt := hsubst(&hty{k: "elem", name: z}, sub)
					add(c.zeroNeeds(zt)...)
				}
			}
		}
		return true
	})
	if c.ctorNamed != nil {
		if st, ok := c.ctorNamed.Underlying().(*types.Struct); ok {
			for i := 0; i < st.NumFields(); i++ {
				ht := g.typeOf(st.Field(i).Type(), nil)
				if ht != nil && ht.k == "hptr" && ht.st != nil && ht.st.wrapper != "" {
					add(c.zeroNeeds(c.cellRecordType(&hty{k: "hptr", name: ht.name, args: ht.args}))...)
				} else {
					add(c.zeroNeeds(ht)...)
				}
			}
		}
	}
	// named results start at their zero values
	sig := c.fn.obj.Type().(*types.Signature)
	for i := 0; i < sig.Results().Len(); i++ {
		if rv := sig.Results().At(i); rv.Name() != "" {
			add(c.zeroNeeds(g.typeOf(rv.Type(), nil))...)
		}
	}
	return zs
}

// ---------------------------------------------------------------- expressions

func hbindRaw(pre *[]hbind, pat, s string) { *pre = append(*pre, hbind{pat: pat, m: tRaw{s}}) }

func (c *hctx) needHeap(at ast.Node) string {
	if c.heap == nil {
		c.lostAt(at, "heap access in a function without a heap")
	}
	return c.heap.name
}

// cellAddr: e denotes a cell of the heap (not a pointer to one): the embedded cell W.first of a
// wrapper, or *p.  Its address.
func (c *hctx) cellAddr(e ast.Expr, pre *[]hbind) (string, *hty) {
	switch v := ast.Unparen(e).(type) {
	case *ast.StarExpr:
		x, t := c.expr(v.X, pre)
		if t.k == "hptr" && t.st.cell {
			return x, t
		}
	case *ast.SelectorExpr:
		sel := c.g.info.Selections[v]
		if sel != nil && sel.Kind() == types.FieldVal {
			if n := namedOf(sel.Recv()); n != nil {
				if s := c.g.structOf(n); s != nil && s.wrapper == v.Sel.Name {
					x, t := c.expr(v.X, pre) // *Wrapper, or a wrapper by value: the address of its cell
					if t.k == "hptr" {
						cs := c.g.structs[t.name]
						return x, &hty{k: "hptr", name: cs.name, st: cs, args: t.args}
					}
				}
			}
		}
	}
	c.lostAt(e, "cell value %s (only the embedded cell of a wrapper struct, or *p)", src(e))
	return "", nil
}

// cellOf: the address and the record type of the cell whose field v selects
func (c *hctx) cellOf(v *ast.SelectorExpr, pre *[]hbind) (string, *hty) {
	tv := c.g.info.Types[v.X]
	if _, isPtr := tv.Type.(*types.Pointer); isPtr {
		x, t := c.expr(v.X, pre)
		if t.k != "hptr" || !t.st.cell {
			c.lostAt(v, "selector %s", src(v))
		}
		return x, t
	}
	return c.cellAddr(v.X, pre)
}

func (c *hctx) constOf(e ast.Expr) (string, *hty, bool) {
	tv, ok := c.g.info.Types[e]
	if !ok || tv.Value == nil {
		return "", nil, false
	}
	if s, t, ok := c.textConst(tv); ok {
		return s, t, true
	}
	switch tv.Value.Kind() {
	case constant.Int:
		if n, exact := constant.Int64Val(tv.Value); exact {
			t := c.g.typeOf(tv.Type, e)
			if t == nil || t.k != "int" {
				return "", nil, false
			}
			return zlit(n), t, true
		}
	case constant.Bool:
		if constant.BoolVal(tv.Value) {
			return "true", htBool, true
		}
		return "false", htBool, true
	}
	return "", nil, false
}

func (c *hctx) expr(e ast.Expr, pre *[]hbind) (string, *hty) {
	if s, t, ok := c.constOf(e); ok {
		return s, t
	}
	g := c.g
	switch v := e.(type) {
	case *ast.ParenExpr:
		return c.expr(v.X, pre)
	case *ast.BasicLit:
		c.lostAt(v, "literal %s", v.Value)
	case *ast.Ident:
		if v.Name == "nil" {
			if _, isNil := g.info.Uses[v].(*types.Nil); isNil {
				t := c.typeOfExpr(v) // typed by its context
				if t.k == "hptr" {
					return "None", t
				}
				if t.k == "slice" {
					return "[]", t
				}
				if s, ok := textNil(t); ok {
					return s, t
				}
				return "None", &hty{k: "nil"}
			}
		}
		if x := c.lookup(v); x != nil {
			if x.typ.k == "eptr" {
				c.lostAt(v, "element pointer %s used as a value (only p.f, p.f = e and re-binding)", x.name)
			}
			return x.name, x.typ
		}
		if c.isRecvIdent(v) {
			c.lostAt(v, "the receiver %s used as a value (its fields are arguments)", v.Name)
		}
		if s, t, ok := c.textIdent(v); ok {
			return s, t
		}
		c.lostAt(v, "identifier %s", v.Name)
	case *ast.SelectorExpr:
		sel := g.info.Selections[v]
		if sel == nil {
			if s, t, ok := c.textQualified(v); ok {
				return s, t
			}
			c.lostAt(v, "selector %s", src(v))
		}
		switch sel.Kind() {
		case types.FieldVal:
			if c.isRecvIdent(v.X) {
				if f, ok := c.fields[v.Sel.Name]; ok {
					c.recvCheck(pre)
					return f.name, f.typ
				}
				c.lostAt(v, "selector %s", src(v))
			}
			if cs := c.cellSel(v); cs != nil {
				addr, pt := c.cellOf(v, pre)
				tm := c.tmp()
				hbindRaw(pre, tm, "go_hget "+c.needHeap(v)+" "+paren(addr))
				rt := c.cellRecordType(pt)
				fts := c.fieldTypes(rt)
				i := fieldIdx(cs, v.Sel.Name)
				return "(" + cs.name + "_" + v.Sel.Name + " " + tm + ")", fts[i]
			}
			if ep := c.eptrVar(v.X); ep != nil {
				return c.eptrRead(ep, v, pre)
			}
			x, t := c.expr(v.X, pre)
			if t.k == "struct" {
				i := fieldIdx(t.st, v.Sel.Name)
				if i < 0 {
					c.lostAt(v, "selector %s", src(v))
				}
				return "(" + t.name + "_" + v.Sel.Name + " " + x + ")", c.fieldTypes(t)[i]
			}
			if s, ft, ok := c.textField(v, x, t, pre); ok {
				return s, ft
			}
			c.lostAt(v, "selector %s", src(v))
		case types.MethodExpr:
			return c.methodExpr(v)
		}
		c.lostAt(v, "method value %s (only called, ranged over, or as (*T).M)", src(v))
	case *ast.StarExpr:
		if s, t, ok := c.textStar(v, pre); ok {
			return s, t
		}
		if s, t, ok := c.recvDeref(v, pre); ok {
			return s, t
		}
		c.lostAt(v, "dereference %s", src(v))
	case *ast.UnaryExpr:
		switch v.Op {
		case token.AND:
			return c.addrOf(v, pre)
		case token.NOT:
			x, _ := c.expr(v.X, pre)
			return "(negb " + x + ")", htBool
		case token.SUB:
			x, t := c.expr(v.X, pre)
			return "(- " + x + ")", t
		case token.ADD:
			return c.expr(v.X, pre)
		}
		c.lostAt(v, "unary operator %s", v.Op)
	case *ast.BinaryExpr:
		return c.binary(v, pre)
	case *ast.IndexExpr:
		if tv, ok := g.info.Types[v.X]; ok {
			if _, isSlice := tv.Type.Underlying().(*types.Slice); isSlice {
				x, t := c.expr(v.X, pre)
				i, _ := c.expr(v.Index, pre)
				tm := c.tmp()
				hbindRaw(pre, tm, "go_get "+paren(x)+" "+paren(i))
				return tm, t.elem
			}
		}
		if s, t, ok := c.textIndex(v, pre); ok {
			return s, t
		}
		c.lostAt(v, "index expression %s", src(v))
	case *ast.CallExpr:
		vals, ts := c.call(v, pre, nil)
		if len(vals) != 1 {
			c.lostAt(v, "call %s used as one value", src(v.Fun))
		}
		return vals[0], ts[0]
	case *ast.CompositeLit:
		t := c.typeOfExpr(v)
		if s, ok := c.textCompositeLit(v, t); ok {
			return s, t
		}
		if t.k == "hptr" && t.st.cell {
			// an element {...} of a []*S literal: &S{...}, an allocation
			rt := c.cellRecordType(t)
			rec := c.structLit(v, rt, pre)
			return c.alloc(v, rec, pre), t
		}
		if t.k == "struct" {
			c.useStruct(t.st, v)
			return c.structLit(v, t, pre), t
		}
		if t.k == "unit" {
			return "tt", t
		}
		if t.k == "slice" {
			var xs []string
			for _, el := range v.Elts {
				if _, kv := el.(*ast.KeyValueExpr); kv {
					c.lostAt(v, "keyed slice literal")
				}
				x, _ := c.expr(el, pre)
				xs = append(xs, x)
			}
			return "[" + strings.Join(xs, "; ") + "]", t
		}
		c.lostAt(v, "composite literal %s", src(v.Type))
	case *ast.FuncLit:
		c.lostAt(v, "function literal (only as an argument for a callback parameter of a translated function)")
	}
	if s, t, ok := c.textExpr(e, pre); ok {
		return s, t
	}
	c.lostAt(e, "expression %s", src(e))
	return "", nil
}

func fieldIdx(s *hstruct, name string) int {
	for i, n := range s.fnames {
		if n == name {
			return i
		}
	}
	return -1
}

// structLit: T{f: e, ...} of a record type; values in source order, fields left out are zero
func (c *hctx) structLit(v *ast.CompositeLit, t *hty, pre *[]hbind) string {
	fts := c.fieldTypes(t)
	vals := make([]string, len(fts))
	for i, el := range v.Elts {
		k := i
		val := el
		if kv, ok := el.(*ast.KeyValueExpr); ok {
			id, ok := kv.Key.(*ast.Ident)
			if !ok {
				c.lostAt(v, "composite literal key")
			}
			k = fieldIdx(t.st, id.Name)
			val = kv.Value
		}
		if k < 0 || k >= len(fts) {
			c.lostAt(v, "composite literal field")
		}
		x, xt := c.expr(val, pre)
		if xt.k == "func" && !plainFuncValue(xt) {
			c.lostAt(val, "field value of type %s", xt.k)
		}
		vals[k] = paren(x)
	}
	s := "mk_" + t.name
	for i := range fts {
		if vals[i] == "" {
			vals[i] = paren(c.zeroOf(fts[i], v))
		}
		s += " " + vals[i]
	}
	return "(" + s + ")"
}

// addrOf: &T{...} of a cell (allocation), &W.first (the embedded cell of a wrapper), &x of a local
// value struct (the value: the pointer is the only reference to it from then on)
func (c *hctx) addrOf(v *ast.UnaryExpr, pre *[]hbind) (string, *hty) {
	if s, t, ok := c.textAddrOf(v, pre); ok {
		return s, t
	}
	switch x := ast.Unparen(v.X).(type) {
	case *ast.CompositeLit:
		pt := c.typeOfExpr(v)
		if pt.k == "hptr" && pt.st.cell {
			rt := c.cellRecordType(pt)
			rec := c.structLit(x, rt, pre)
			return c.alloc(v, rec, pre), pt
		}
		if pt.k == "struct" && pt.owned {
			return c.expr(x, pre)
		}
	case *ast.SelectorExpr:
		if tv, ok := c.g.info.Types[x]; ok {
			if n := namedOf(tv.Type); n != nil {
				if s := c.g.structOf(n); s != nil && s.cell {
					return c.cellAddr(x, pre)
				}
			}
		}
	case *ast.Ident:
		if z := c.lookup(x); z != nil && z.typ.k == "struct" && z.role == "local" {
			u := *z.typ
			u.owned = true
			return z.name, &u
		}
	}
	c.lostAt(v, "address-of %s (only &T{...} of a heap struct, the embedded cell of a wrapper, and a local value struct that is returned)", src(v.X))
	return "", nil
}

// alloc: a new cell with the given record; the heap grows by one
func (c *hctx) alloc(at ast.Node, rec string, pre *[]hbind) string {
	h := c.needHeap(at)
	tm := c.tmp()
	*pre = append(*pre, hbind{pat: tuple([]string{tm, h}), e: "go_hnew " + h + " " + rec, isLet: true, effect: true})
	return tm
}

func (c *hctx) binary(v *ast.BinaryExpr, pre *[]hbind) (string, *hty) {
	if v.Op == token.LAND || v.Op == token.LOR {
		x, _ := c.expr(v.X, pre)
		var preY []hbind
		y, _ := c.expr(v.Y, &preY)
		if len(preY) == 0 {
			if v.Op == token.LAND {
				return "(" + x + " && " + y + ")", htBool
			}
			return "(" + x + " || " + y + ")", htBool
		}
		// the right operand is evaluated only when the left one asks for it; the state it changes
		// is joined on both branches
		tm := c.tmp()
		var st []string
		if hasEffect(preY) {
			for _, w := range c.sortedVars(c.assigned(v.Y)) {
				st = append(st, w.name)
			}
		}
		res := func(val string) term { return tOk{tuple(append([]string{val}, st...))} }
		var m term
		if v.Op == token.LAND {
			m = tIf{x, wrap(preY, res(y)), res("false")}
		} else {
			m = tIf{x, res("true"), wrap(preY, res(y))}
		}
		*pre = append(*pre, hbind{pat: tuple(append([]string{tm}, st...)), m: m, effect: len(st) > 0})
		return tm, htBool
	}
	if (v.Op == token.EQL || v.Op == token.NEQ) && c.nilVar != nil &&
		(c.isRecvIdent(v.X) && isNilExpr(v.Y) || c.isRecvIdent(v.Y) && isNilExpr(v.X)) {
		if v.Op == token.EQL {
			return c.nilVar.name, htBool
		}
		return "(negb " + c.nilVar.name + ")", htBool
	}
	x, xt := c.expr(v.X, pre)
	y, yt := c.expr(v.Y, pre)
	if s, t, ok := c.textBinary(v, x, xt, y, yt); ok {
		return s, t
	}
	num := xt.k == "int" && yt.k == "int"
	rt := htInt
	if xt.untyped && yt.untyped {
		rt = htUnt
	}
	if num && (xt.name == "byte" || yt.name == "byte") {
		switch v.Op {
		case token.ADD, token.SUB, token.MUL, token.QUO, token.REM:
			c.lostAt(v, "arithmetic on byte values")
		}
	}
	switch v.Op {
	case token.ADD, token.SUB, token.MUL:
		if !num {
			c.lostAt(v, "operands of %s", v.Op)
		}
		return "(" + x + " " + v.Op.String() + " " + y + ")", rt
	case token.QUO, token.REM:
		if !num {
			c.lostAt(v, "operands of %s", v.Op)
		}
		f, gq := "Z.quot", "go_quot"
		if v.Op == token.REM {
			f, gq = "Z.rem", "go_rem"
		}
		if tv, ok := c.g.info.Types[v.Y]; ok && tv.Value != nil && constant.Sign(tv.Value) != 0 {
			return "(" + f + " " + x + " " + y + ")", rt
		}
		tm := c.tmp()
		hbindRaw(pre, tm, gq+" "+paren(x)+" "+paren(y))
		return tm, rt
	case token.LSS, token.LEQ, token.GTR, token.GEQ:
		if !num {
			c.lostAt(v, "comparison of %s values", xt.k)
		}
		op := map[token.Token]string{token.LSS: "<?", token.LEQ: "<=?", token.GTR: ">?", token.GEQ: ">=?"}[v.Op]
		return "(" + x + " " + op + " " + y + ")", htBool
	case token.EQL, token.NEQ:
		var s string
		switch {
		case xt.k == "hptr" && isNilExpr(v.Y):
			s = "(go_pnil " + x + ")"
		case yt.k == "hptr" && isNilExpr(v.X):
			s = "(go_pnil " + y + ")"
		case xt.k == "hptr" && yt.k == "hptr":
			s = "(go_peq " + x + " " + y + ")"
		case num:
			s = "(" + x + " =? " + y + ")"
		case xt.k == "bool" && yt.k == "bool":
			s = "(Bool.eqb " + x + " " + y + ")"
		default:
			c.lostAt(v, "equality of %s values", xt.k)
		}
		if v.Op == token.NEQ {
			s = "(negb " + s + ")"
		}
		return s, htBool
	}
	c.lostAt(v, "operator %s", v.Op)
	return "", nil
}

func isNilExpr(e ast.Expr) bool {
	id, ok := ast.Unparen(e).(*ast.Ident)
	return ok && id.Name == "nil"
}

func (c *hctx) sortedVars(m map[*hvar]bool) []*hvar {
	var vs []*hvar
	for v := range m {
		vs = append(vs, v)
	}
	sort.Slice(vs, func(i, j int) bool { return vs[i].idx < vs[j].idx })
	return vs
}

// ---------------------------------------------------------------- function values

// methodExpr: (*T).M as a value: a lambda over the receiver and the Go parameters, and over the
// heap when M reads it (the heap is handed in at every call: it may have changed since)
func (c *hctx) methodExpr(v *ast.SelectorExpr) (string, *hty) {
	cal := c.g.calleeOf(v)
	if cal == nil {
		c.lostAt(v, "method expression %s (not a translated method)", src(v))
	}
	if cal.recvFields || len(cal.mutFields) > 0 {
		c.lostAt(v, "method expression %s (the receiver is a value struct)", src(v))
	}
	t := &hty{k: "func", shape: &hshape{readsHeap: cal.readsHeap, writesHeap: cal.writesHeap, pure: cal.pure, cell: cal.cell}}
	s := cal.name
	var xs []string
	for i, p := range cal.params {
		if p.v == nil || p.st != nil || p.variadic || p.v.typ.k == "func" || p.v.typ.k == "slice" {
			c.lostAt(v, "method expression %s (parameter %s)", src(v), p.goName)
		}
		x := "a" + string(rune('0'+i))
		xs = append(xs, x)
		s += " " + x
		t.params = append(t.params, p.v.typ)
	}
	t.res = cal.results
	if cal.readsHeap {
		xs = append(xs, "h_")
		s += " h_"
	}
	sub := c.typeSub(cal, v)
	for _, z := range cal.zeros {
		s += " " + paren(c.zeroOf(hsubst(&hty{k: "elem", name: z}, sub), v))
	}
	if cal.fuel {
		s += " fuel"
		c.fuel = true
	}
	return "(fun " + strings.Join(xs, " ") + " => " + s + ")", t
}

func sameShape(a, b *hty) bool {
	if a.k != "func" || b.k != "func" || (a.shape == nil) != (b.shape == nil) || a.stateful != b.stateful {
		return false
	}
	if a.shape != nil && *a.shape != *b.shape {
		return false
	}
	return len(a.params) == len(b.params) && len(a.res) == len(b.res)
}

// ---------------------------------------------------------------- calls

func (c *hctx) call(v *ast.CallExpr, pre *[]hbind, want []string) ([]string, []*hty) {
	g := c.g
	one := func(s string, t *hty) ([]string, []*hty) { return []string{s}, []*hty{t} }
	// conversions
	if tv, ok := g.info.Types[v.Fun]; ok && tv.IsType() && len(v.Args) == 1 {
		to := g.typeOf(tv.Type, v)
		x, t := c.expr(v.Args[0], pre)
		if to != nil && to.k == "int" && t.k == "int" && to.name == t.name {
			return one(x, to)
		}
		c.lostAt(v, "conversion %s", src(v))
	}
	if vals, ts, ok := c.callPkgFn(v, pre); ok {
		return vals, ts
	}
	if cal := g.calleeOf(v.Fun); cal != nil {
		return c.callTranslated(cal, v.Fun, v.Args, v.Ellipsis.IsValid(), nil, v, pre, want)
	}
	if vals, ts, ok := c.callSliceFunc(v, pre); ok {
		return vals, ts
	}
	if vals, ts, ok := c.callPkg(v, pre); ok {
		return vals, ts
	}
	if vals, ts, ok := c.callText(v, pre); ok {
		return vals, ts
	}
	switch f := ast.Unparen(v.Fun).(type) {
	case *ast.Ident:
		if _, isBuiltin := g.info.Uses[f].(*types.Builtin); isBuiltin {
			switch f.Name {
			case "len":
				x, t := c.expr(v.Args[0], pre)
				if t.k == "slice" || t.k == "str" {
					return one("(zlen "+paren(x)+")", htInt)
				}
			case "new":
				pt := c.typeOfExpr(v)
				if pt.k == "hptr" {
					// new(S) of a heap struct, or of a wrapper around one: a fresh zero cell
					rt := c.cellRecordType(&hty{k: "hptr", name: pt.name, args: pt.args})
					return one(c.alloc(v, c.zeroOf(rt, v), pre), pt)
				}
			case "make":
				if vals, ts, ok := c.makeSlice(v, pre); ok {
					return vals, ts
				}
			case "min", "max":
				x, t := c.expr(v.Args[0], pre)
				for _, a := range v.Args[1:] {
					y, yt := c.expr(a, pre)
					if t.k != "int" || yt.k != "int" {
						c.lostAt(v, "%s of non-integers", f.Name)
					}
					x = "(Z." + f.Name + " " + x + " " + y + ")"
				}
				return one(x, htInt)
			}
			c.lostAt(v, "call of %s", f.Name)
		}
		if x := c.lookup(f); x != nil && x.typ.k == "func" {
			return c.callValue(x, v, pre)
		}
	case *ast.SelectorExpr:
		if c.isRecvIdent(f.X) {
			if x := c.fields[f.Sel.Name]; x != nil && x.typ.k == "func" {
				return c.callValue(x, v, pre) // t.compare(a, b): a function-typed field of the receiver
			}
		}
		if id, ok := f.X.(*ast.Ident); ok && id.Name == "slices" && f.Sel.Name == "Clone" && len(v.Args) == 1 {
			if _, isPkg := g.info.Uses[id].(*types.PkgName); isPkg {
				x, t := c.expr(v.Args[0], pre)
				if t.k == "slice" {
					return one(x, t) // a new slice with the same elements: the same list
				}
			}
		}
	}
	c.lostAt(v, "call of %s", src(v.Fun))
	return nil, nil
}

// callValue: a call of a function held in a variable
func (c *hctx) callValue(x *hvar, v *ast.CallExpr, pre *[]hbind) ([]string, []*hty) {
	t := x.typ
	if len(v.Args) != len(t.params) || v.Ellipsis.IsValid() {
		c.lostAt(v, "call of %s (arity)", x.name)
	}
	s := x.name
	if t.stateful {
		s += " " + c.cbState[x].name
	}
	var objPats []string
	for i, a := range v.Args {
		y, yt := c.expr(a, pre)
		if yt.k == "func" {
			c.lostAt(a, "function argument of a function value")
		}
		if len(t.objParamTypes()) > 0 && t.params[i].k == "obj" {
			ov := c.objVar(a)
			if ov == nil {
				c.lostAt(a, "object %s as an argument (it must be held in a variable or a field of the receiver)", src(a))
			}
			if ov.role == "field" {
				c.recvCheck(pre)
			}
			objPats = append(objPats, ov.name)
		}
		s += " " + paren(y)
	}
	if len(objPats) > 0 {
		// the callback is handed objects: monadic, the objects rebound from what it hands back
		var ts []string
		for range t.res {
			ts = append(ts, c.tmp())
		}
		*pre = append(*pre, hbind{pat: tuple(append(append([]string{}, ts...), objPats...)), m: tRaw{s}, effect: true})
		return ts, t.res
	}
	if !t.stateful && t.shape == nil && len(t.res) == 1 {
		return []string{"(" + s + ")"}, t.res // a pure function argument
	}
	var ts []string
	for range t.res {
		ts = append(ts, c.tmp())
	}
	switch {
	case t.stateful:
		*pre = append(*pre, hbind{pat: tuple(append(append([]string{}, ts...), c.cbState[x].name)), m: tRaw{s}, effect: true})
		return ts, t.res
	case t.shape != nil:
		if t.shape.readsHeap {
			s += " " + c.needHeap(v)
		}
		pat := append([]string{}, ts...)
		if t.shape.writesHeap {
			pat = append(pat, c.heap.name)
			c.epKillAll()
		}
		p := tuple(pat)
		if len(pat) == 0 {
			p = "_"
		}
		if t.shape.pure {
			*pre = append(*pre, hbind{pat: p, e: s, isLet: true, effect: t.shape.writesHeap})
		} else {
			*pre = append(*pre, hbind{pat: p, m: tRaw{s}, effect: t.shape.writesHeap})
		}
		return ts, t.res
	}
	*pre = append(*pre, hbind{pat: tuple(ts), e: s, isLet: true})
	return ts, t.res
}

// hclosure: a function literal, or the body of a range-over-func loop, handed to a stateful
// callback parameter
type hclosure struct {
	node    ast.Node
	params  []*ast.Ident // nil entries: unnamed
	body    *ast.BlockStmt
	ptypes  []*hty
	res     []*hty
	implicit bool // a loop body: falls off its end with `true`
}

// callTranslated: a call of the translated function cal.  fun is the callee expression (x.M, f,
// f[T]); clo, if given, is handed to the callee's first callback parameter (range over a function).
func (c *hctx) callTranslated(cal *hfunc, fun ast.Expr, args []ast.Expr, ellipsis bool, clo *hclosure, at ast.Node, pre *[]hbind, want []string) ([]string, []*hty) {
	if cal.state != 2 && cal != c.fn {
		c.lostAt(at, "call of %s (not translated)", cal.spec)
	}
	if cal.ctor {
		c.lostAt(at, "call of the constructor %s", cal.spec)
	}
	for _, rt := range cal.results {
		if rt.k == "struct" && rt.vres {
			c.lostAt(at, "call of %s, whose result may be nil or its receiver", cal.spec)
		}
	}
	selfInLoop := cal == c.fn && (len(c.loops) > 0 || c.lit != nil)
	if selfInLoop {
		if c.lit != nil {
			c.lostAt(at, "recursive call inside a function literal")
		}
		if c.selfVar == nil {
			c.selfVar = c.newVar("self_", &hty{k: "func", raw: c.selfType(), rawTps: c.selfTps()}, "param")
		}
	}
	s := cal.name
	if selfInLoop {
		s = c.selfVar.name
	}
	fun = ast.Unparen(fun)
	switch v := fun.(type) {
	case *ast.IndexExpr:
		fun = ast.Unparen(v.X)
	case *ast.IndexListExpr:
		fun = ast.Unparen(v.X)
	}
	// ---- the receiver
	var recvVar *hvar // a struct-valued variable / field whose fields the callee takes and returns
	var recvTmps []string
	params := cal.params
	sel, isSel := fun.(*ast.SelectorExpr)
	isMethod := cal.obj.Type().(*types.Signature).Recv() != nil
	if cal.recvParam && clo == nil && len(args) > 0 {
		// f(r, ...) with the first parameter playing the receiver: as r.f(...)
		sel, isSel, isMethod = &ast.SelectorExpr{X: args[0], Sel: cal.decl.Name}, true, true
		args = args[1:]
	}
	if isMethod {
		if !isSel {
			c.lostAt(at, "call of the method %s", cal.spec)
		}
		if cal.recvFields {
			if cal.recvNil || cal == c.fn && c.nilVar != nil {
				switch {
				case c.isRecvIdent(sel.X) && c.nilVar != nil:
					s += " " + c.nilVar.name
				case c.isRecvIdent(sel.X):
					c.lostAt(at, "call of %s, which compares its receiver with nil (internal: no nil flag here)", cal.name)
				default:
					s += " false" // the address of a variable
				}
			}
			switch {
			case c.isRecvIdent(sel.X):
				for _, f := range cal.fields {
					x := c.fields[f]
					if x == nil {
						c.lostAt(at, "call of %s (field %s)", cal.name, f)
					}
					s += " " + x.name
				}
			default:
				recvVar = c.structVar(sel.X)
				if recvVar == nil {
					c.lostAt(at, "call of %s on %s (the receiver must be this function's receiver, a struct-valued variable, or a struct-valued field of the receiver)", cal.name, src(sel.X))
				}
				for _, f := range cal.fields {
					s += " (" + recvVar.typ.name + "_" + f + " " + recvVar.name + ")"
				}
			}
		} else {
			// a pointer into the heap: the callee's first parameter
			x, t := c.expr(sel.X, pre)
			if t.k != "hptr" {
				c.lostAt(at, "call of %s on %s", cal.name, src(sel.X))
			}
			s += " " + paren(x)
			params = params[1:]
		}
	}
	// ---- the arguments
	nfix := len(params)
	variadic := nfix > 0 && params[nfix-1].variadic
	if variadic && !ellipsis {
		nfix--
		if len(args) < nfix {
			c.lostAt(at, "call of %s (arity)", cal.name)
		}
	} else if clo == nil && (len(args) != len(params) || (ellipsis && !variadic)) {
		c.lostAt(at, "call of %s (arity)", cal.name)
	}
	var statePats []string
	var objPats []string // the objects handed to the callee: it hands them back (fn_heap_textcall.go)
	litReadsHeap := false
	ai := 0
	for _, p := range params {
		if p.v == nil { // a blank parameter: no argument
			if clo == nil {
				if ai < len(args) {
					var dummy []hbind
					c.expr(args[ai], &dummy)
					if len(dummy) > 0 {
						c.lostAt(args[ai], "argument for a blank parameter")
					}
				}
				ai++
			}
			continue
		}
		if p.variadic && !ellipsis {
			var xs []string
			for _, a := range args[ai:] {
				y, yt := c.expr(a, pre)
				if yt.k == "slice" || yt.k == "func" {
					c.lostAt(a, "variadic argument %s", src(a))
				}
				xs = append(xs, y)
			}
			s += " [" + strings.Join(xs, "; ") + "]"
			ai = len(args)
			continue
		}
		if p.v.typ.k == "func" {
			var a ast.Expr
			if clo == nil {
				a = args[ai]
				ai++
			}
			if p.st != nil {
				lam, init, pat, rh := c.statefulArg(a, clo, p.v.typ, cal, at)
				litReadsHeap = litReadsHeap || rh
				s += " " + lam + " " + init
				statePats = append(statePats, pat)
				clo = nil
			} else {
				var x *hvar
				switch fa := ast.Unparen(a).(type) {
				case *ast.Ident:
					x = c.lookup(fa)
				case *ast.SelectorExpr:
					if c.isRecvIdent(fa.X) {
						x = c.fields[fa.Sel.Name] // t.compare: a function-typed field of the receiver
					}
				}
				if x == nil || x.typ.k != "func" || x.typ.stateful || x.typ.shape != nil {
					c.lostAt(a, "function value %s for the pure callback parameter %s of %s", src(a), p.goName, cal.name)
				}
				s += " " + x.name
			}
			continue
		}
		a := args[ai]
		ai++
		if se, isSl := ast.Unparen(a).(*ast.SliceExpr); isSl && p.v.typ.k == "slice" {
			// a window handed to a parameter the callee only reads: by value (fn_heap_slicearg.go)
			s += " " + c.sliceArg(se, cal, p, pre)
			continue
		}
		y, yt := c.expr(a, pre)
		if yt.k == "struct" && yt.owned {
			c.lostAt(a, "pointer %s to a value struct as an argument (aliasing)", src(a))
		}
		if p.v.typ.k == "obj" {
			ov := c.objVar(a)
			if ov == nil {
				c.lostAt(a, "object %s as an argument (it must be held in a variable or a field of the receiver)", src(a))
			}
			if ov.role == "field" {
				c.recvCheck(pre)
			}
			if cal.givenAway[p.goName] {
				c.textExternObjArg(a, at) // the callee gives it away: it must not be used here afterwards
			} else {
				objPats = append(objPats, ov.name)
			}
		}
		s += " " + paren(y)
	}
	if litReadsHeap && cal.writesHeap {
		c.lostAt(at, "function literal that reads the heap handed to %s, which changes the heap", cal.name)
	}
	for _, e := range cal.externs {
		if cal == c.fn {
			c.lostAt(at, "recursive call of a function that calls extern functions")
		}
		s += " " + c.externVar(e.key, e.v.typ, at).name
	}
	if cal.readsHeap {
		s += " " + c.needHeap(at)
	}
	sub := c.typeSub(cal, fun)
	for _, z := range cal.zeros {
		if selfInLoop {
			break // self_ has them already
		}
		s += " " + paren(c.zeroOf(hsubst(&hty{k: "elem", name: z}, sub), at))
	}
	isFuel := cal.fuel
	if cal == c.fn {
		isFuel = true
	}
	if selfInLoop {
		isFuel = false
		c.fuel = true
	}
	if isFuel {
		s += " fuel"
		c.fuel = true
	}
	// ---- the results
	var res []string
	var rts []*hty
	for i, t := range cal.results {
		if i < len(want) && want[i] != "" {
			res = append(res, want[i])
		} else {
			res = append(res, c.tmp())
		}
		rts = append(rts, hsubst(t, sub))
	}
	pat := append([]string{}, res...)
	effect := false
	for _, f := range cal.mutFields {
		effect = true
		if recvVar != nil {
			t := c.tmp()
			recvTmps = append(recvTmps, t)
			pat = append(pat, t)
		} else {
			pat = append(pat, c.fields[f].name)
		}
	}
	for _, op := range objPats {
		pat = append(pat, op)
		effect = true
	}
	for _, sp := range statePats {
		pat = append(pat, sp)
		effect = true
	}
	if cal.writesHeap {
		pat = append(pat, c.heap.name)
		effect = true
		c.epKillAll() // the callee may assign any cell's fields
	}
	p := tuple(pat)
	if len(pat) == 0 {
		p = "_"
	}
	if cal.pure && cal != c.fn {
		if len(pat) == 1 && len(want) == 0 && !effect {
			return []string{"(" + s + ")"}, rts
		}
		*pre = append(*pre, hbind{pat: p, e: s, isLet: true, effect: effect})
	} else {
		*pre = append(*pre, hbind{pat: p, m: tRaw{s}, effect: effect})
	}
	if recvVar != nil && len(cal.mutFields) > 0 {
		// the struct-valued variable is rebuilt from the fields the callee hands back
		rec := "mk_" + recvVar.typ.name
		for _, f := range recvVar.typ.st.fnames {
			val := "(" + recvVar.typ.name + "_" + f + " " + recvVar.name + ")"
			for i, mf := range cal.mutFields {
				if mf == f {
					val = recvTmps[i]
				}
			}
			rec += " " + val
		}
		*pre = append(*pre, hbind{pat: recvVar.name, e: rec, isLet: true, effect: true})
	}
	return res, rts
}

// structVar: e is a struct-valued variable (a local, also a *V held by value) or a struct-valued
// field of the receiver
func (c *hctx) structVar(e ast.Expr) *hvar {
	switch v := ast.Unparen(e).(type) {
	case *ast.Ident:
		if x := c.lookup(v); x != nil && x.typ.k == "struct" {
			return x
		}
	case *ast.SelectorExpr:
		if c.isRecvIdent(v.X) {
			if x := c.fields[v.Sel.Name]; x != nil && x.typ.k == "struct" {
				return x
			}
		}
	case *ast.UnaryExpr:
		if v.Op == token.AND {
			return c.structVar(v.X)
		}
	}
	return nil
}

// statefulArg: the argument for a stateful callback parameter of cal: the lambda, the initial
// state, the pattern that receives the final state, and whether the lambda reads the heap.
func (c *hctx) statefulArg(a ast.Expr, clo *hclosure, want *hty, cal *hfunc, at ast.Node) (lam, init, pat string, readsHeap bool) {
	if clo == nil {
		switch v := ast.Unparen(a).(type) {
		case *ast.FuncLit:
			ft := c.typeOfExpr(v)
			clo = &hclosure{node: v, body: v.Body, ptypes: ft.params, res: ft.res}
			if v.Type.Params != nil {
				for _, f := range v.Type.Params.List {
					if len(f.Names) == 0 {
						clo.params = append(clo.params, nil)
					}
					for _, n := range f.Names {
						clo.params = append(clo.params, n)
					}
				}
			}
		case *ast.Ident:
			x := c.lookup(v)
			if x == nil || x.typ.k != "func" || x.typ.shape != nil {
				c.lostAt(a, "function value %s", src(a))
			}
			if x.typ.stateful {
				st := c.cbState[x]
				return x.name, st.name, st.name, false
			}
			// a pure function: no state
			var xs []string
			for i := range x.typ.params {
				xs = append(xs, "a"+string(rune('0'+i)))
			}
			r := "(" + x.name + " " + strings.Join(xs, " ") + ")"
			if len(x.typ.res) == 0 {
				c.lostAt(a, "function value %s without results", src(a))
			}
			return "(fun (st_ : unit) " + strings.Join(xs, " ") + " => Ok (" + r + ", st_))", "tt", "_", false
		default:
			c.lostAt(a, "function value %s", src(a))
		}
	}
	return c.closure(clo)
}

// closure: a function literal as a state-passing lambda.  The variables it assigns and that are
// declared outside it (also the states of the stateful callbacks it calls) are its state.
func (c *hctx) closure(clo *hclosure) (lam, init, pat string, readsHeap bool) {
	ast.Inspect(clo.body, func(n ast.Node) bool {
		switch n.(type) {
		case *ast.ForStmt, *ast.RangeStmt:
			c.lostAt(n, "loop inside a function literal")
		case *ast.FuncLit:
			c.lostAt(n, "function literal inside a function literal")
		}
		return true
	})
	var state []*hvar
	for _, x := range c.sortedVars(c.assigned(clo.body)) {
		if x.role == "heap" {
			c.lostAt(clo.node, "function literal that changes the heap")
		}
		if c.outside(x, clo.node.Pos(), clo.node.End()) {
			state = append(state, x)
		}
	}
	var bs []string
	for i, id := range clo.params {
		name := "_"
		if id != nil && id.Name != "_" {
			name = c.declare(id, clo.ptypes[i]).name
		}
		bs = append(bs, "("+name+" : "+clo.ptypes[i].coq()+")")
	}
	for i := len(clo.params); i < len(clo.ptypes); i++ {
		bs = append(bs, "(_ : "+clo.ptypes[i].coq()+")")
	}
	savedLoops, savedLit := c.loops, c.lit
	c.loops, c.lit = nil, &hlit{res: clo.res, state: state}
	end := func() term {
		if clo.implicit {
			return c.litRet([]string{"true"})
		}
		if len(clo.res) == 0 {
			return c.litRet(nil)
		}
		return tRaw{"Panic (PMsg \"unreachable\")"}
	}
	body := simp(c.stmts(clo.body.List, end))
	c.loops, c.lit = savedLoops, savedLit
	names := hnames(state)
	stPat := "(st_ : unit)"
	init, pat = "tt", "_"
	switch len(state) {
	case 0:
	case 1:
		stPat, init, pat = names[0], names[0], names[0]
	default:
		stPat, init, pat = "'"+tuple(names), tuple(names), tuple(names)
	}
	text := render(body, 4, false)
	readsHeap = c.heap != nil && wordIn(text, c.heap.name)
	return "(fun " + stPat + " " + strings.Join(bs, " ") + " =>\n" + ind(4) + text + ")", init, pat, readsHeap
}

// litRet: the result of a function literal: its Go results and its state
func (c *hctx) litRet(vals []string) term {
	xs := append([]string{}, vals...)
	switch len(c.lit.state) {
	case 0:
		xs = append(xs, "st_")
	default:
		xs = append(xs, tuple(hnames(c.lit.state)))
	}
	return tOk{tuple(xs)}
}
