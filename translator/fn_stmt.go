package main

import (
	"go/ast"
	"go/token"
	"strconv"
	"strings"
)

// ---------------------------------------------------------------- calls

// call translates a call used for its value(s).  want, if given, names the variables that
// receive the results (used by `a, b := f(x)`).
func (c *fnCtx) call(v *ast.CallExpr, pre *[]fnBind, want []string) ([]string, []*fnType) {
	one := func(s string, t *fnType) ([]string, []*fnType) { return []string{s}, []*fnType{t} }
	if cal := c.g.calleeOf(c.fn, v); cal != nil {
		return c.callTranslated(cal, v, pre, want)
	}
	if fv, m := c.objCallOf(v); fv != nil {
		return c.objCall(fv, m, v, pre, want)
	}
	if key := c.externKey(v); key != "" {
		return c.externCall(key, v, pre)
	}
	switch f := v.Fun.(type) {
	case *ast.Ident:
		if f.Obj == nil { // builtin or conversion
			switch f.Name {
			case "len":
				if len(v.Args) == 1 {
					if id, ok := v.Args[0].(*ast.Ident); ok {
						if x := c.lookup(id); x != nil && x.typ.k == "slice" {
							return one(c.lenOf(x), tyInt)
						}
					}
					x, t := c.expr(v.Args[0], pre)
					if t.k == "slice" || t.k == "string" {
						return one("(zlen "+paren(x)+")", tyInt)
					}
					if t.k == "map" {
						return one("("+c.mapOp(t, "len")+" "+c.mapEqb(t, v)+" "+paren(x)+")", tyInt)
					}
					if t.k == "view" {
						return one("(vlen "+paren(x)+")", tyInt)
					}
				}
			case "cap":
				if len(v.Args) == 1 {
					if x := c.plainVar(v.Args[0]); x != nil && x.role == "field" && c.fat[x] != nil {
						return one("(zlen "+x.name+" + zlen "+c.fat[x].name+")", tyInt)
					}
					if id, ok := v.Args[0].(*ast.Ident); ok {
						if x := c.lookup(id); x != nil && x.view != nil {
							return one("(vcap "+x.view.name+")", tyInt)
						}
						if x := c.lookup(id); x != nil && c.fat[x] != nil {
							return one("(zlen "+x.name+" + zlen "+c.fat[x].name+")", tyInt)
						}
					}
				}
				c.lostAt(v, "cap of %s (capacity is known for re-sliced parameters only)", src(v.Args[0]))
			case "make":
				if t := c.makeMapType(v, pre); t != nil {
					return one("go_nmap_make", t)
				}
				if at, ok := v.Args[0].(*ast.ArrayType); ok && at.Len == nil && len(v.Args) >= 2 && len(v.Args) <= 3 {
					// make([]T, n[, c]) as a value (handed to a function or returned)
					t := c.goType(v.Args[0])
					n, _ := c.expr(v.Args[1], pre)
					cp := n
					if len(v.Args) == 3 {
						cp, _ = c.expr(v.Args[2], pre)
					}
					bindRaw(pre, "_", "go_make_check "+paren(n)+" "+paren(cp))
					if n == "0" {
						return one("[]", t)
					}
					if t.elem.k == "slice" {
						c.lostAt(v, "make of a non-empty slice of slices")
					}
					return one("(repeat "+c.zeroOf(t.elem, v)+" (Z.to_nat "+paren(n)+"))", t)
				}
			case "min", "max":
				if len(v.Args) >= 2 {
					fn := "Z." + f.Name
					x, t := c.expr(v.Args[0], pre)
					for _, a := range v.Args[1:] {
						y, yt := c.expr(a, pre)
						if !t.isNum() || !yt.isNum() {
							c.lostAt(v, "%s of non-integers", f.Name)
						}
						x, t = "("+fn+" "+x+" "+y+")", numResult(t, yt)
					}
					return one(x, t)
				}
			case "int", "int64", "uint":
				if len(v.Args) == 1 {
					x, t := c.expr(v.Args[0], pre)
					if t.isNum() {
						return one(x, tyInt)
					}
				}
			case "uint64":
				if len(v.Args) == 1 {
					x, t := c.expr(v.Args[0], pre)
					if t.k == "u64" {
						return one(x, tyU64)
					}
					if n, ok := c.constVal(v.Args[0]); ok && n >= 0 {
						return one(x, tyU64)
					}
					if t.isNum() {
						return one("(go_u64 "+x+")", tyU64)
					}
				}
			case "byte", "uint8":
				if len(v.Args) == 1 {
					x, t := c.expr(v.Args[0], pre)
					if t.k == "byte" {
						return one(x, tyByte)
					}
					if t.isNum() {
						return one("(go_byte "+x+")", tyByte)
					}
				}
			}
			c.lostAt(v, "call of %s", f.Name)
		}
		if x := c.lookup(f); x != nil && x.typ.k == "func" {
			return c.callValue(x, v, pre)
		}
	case *ast.SelectorExpr:
		if c.isRecv(f.X) {
			if x, ok := c.fields[f.Sel.Name]; ok && x.typ.k == "func" {
				return c.callValue(x, v, pre)
			}
		}
		if id, ok := f.X.(*ast.Ident); ok && id.Obj == nil {
			switch id.Name + "." + f.Sel.Name {
			case "bits.LeadingZeros64":
				if len(v.Args) == 1 {
					x, xt := c.expr(v.Args[0], pre)
					if xt.isNum() {
						return one("(go_lz64 "+x+")", tyInt)
					}
				}
			case "maps.Clone":
				// a new map with the same entries (nil for nil): the same value
				if len(v.Args) == 1 {
					x, xt := c.expr(v.Args[0], pre)
					if xt.k == "map" && xt.nilable {
						return one("(go_nmap_clone "+x+")", xt)
					}
				}
			case "cmp.Compare", "strings.Compare":
				if len(v.Args) == 2 {
					x, xt := c.expr(v.Args[0], pre)
					y, yt := c.expr(v.Args[1], pre)
					if xt.isNum() && yt.isNum() && id.Name == "cmp" {
						return one("(go_cmp_int "+x+" "+y+")", tyInt)
					}
					if xt.k == "string" && yt.k == "string" {
						return one("(go_cmp_str "+x+" "+y+")", tyInt)
					}
				}
			}
		}
	}
	if vals, ts := c.callExt(v, pre); vals != nil {
		return vals, ts // fn_err.go: strings.IndexByte
	}
	c.lostAt(v, "call of %s", src(v.Fun))
	return nil, nil
}

// a function value with results: a pure function argument
func (c *fnCtx) callValue(x *fnVar, v *ast.CallExpr, pre *[]fnBind) ([]string, []*fnType) {
	if len(v.Args) != len(x.typ.params) || v.Ellipsis.IsValid() {
		c.lostAt(v, "call of %s (arity)", x.name)
	}
	s := x.name
	for _, a := range v.Args {
		y, yt := c.expr(a, pre)
		c.noAlias(a, yt)
		s += " " + paren(y)
	}
	if x.typ.monadic {
		// a callback that can panic (it receives function literals): called through the res monad
		var ts []string
		for range x.typ.res {
			ts = append(ts, c.tmp())
		}
		*pre = append(*pre, fnBind{pat: tuple(ts), m: tRaw{s}})
		return ts, x.typ.res
	}
	if len(x.typ.res) == 1 {
		return []string{"(" + s + ")"}, x.typ.res
	}
	var ts []string
	for range x.typ.res {
		ts = append(ts, c.tmp())
	}
	*pre = append(*pre, fnBind{pat: tuple(ts), e: s, isLet: true})
	return ts, x.typ.res
}

func (c *fnCtx) callTranslated(cal *fnFunc, v *ast.CallExpr, pre *[]fnBind, want []string) ([]string, []*fnType) {
	args := callArgs(cal, v)
	nfix := len(cal.params)
	variadic := nfix > 0 && cal.params[nfix-1].variadic
	if variadic && !v.Ellipsis.IsValid() {
		nfix--
		if len(args) < nfix {
			c.lostAt(v, "call of %s (arity)", cal.name)
		}
	} else if len(args) != len(cal.params) || (v.Ellipsis.IsValid() && !variadic) {
		c.lostAt(v, "call of %s (arity)", cal.name)
	}
	if cal.nilParams {
		c.lostAt(v, "call of %s, which compares a function-typed parameter with nil", cal.name)
	}
	if cal.namedRecv {
		// the receiver must have the map type the method is declared on
		if x := c.plainVar(args[0]); x == nil || x.typ.k != "map" || x.typ.name != cal.recv {
			c.lostAt(v, "call of %s on %s (not a variable of type %s)", cal.name, src(args[0]), cal.recv)
		}
	}
	if len(c.loops) > 0 {
		for _, e := range cal.extras {
			if strings.HasPrefix(e.key, "ord:") {
				c.lostAt(v, "call of %s, which ranges over a map, inside a loop (one iteration order per execution would be needed)", cal.name)
			}
		}
	}
	var snaps []string
	var snapVars []*fnVar
	s := cal.name
	for _, f := range cal.fields {
		x, ok := c.fields[f]
		if !ok {
			c.lostAt(v, "call of %s (field %s)", cal.name, f)
		}
		s += " " + x.name
		if cal.fatFields[f] {
			if c.fat[x] == nil {
				c.lostAt(v, "call of %s (capacity of %s)", cal.name, f)
			}
			s += " " + c.fat[x].name
		} else if c.fat[x] != nil && cal.reshapes[f] {
			c.lostAt(v, "call of %s, which re-slices %s without tracking its capacity", cal.name, f)
		}
	}
	var mutArgs []*fnVar
	_ = snapVars
	for i, p := range cal.params {
		if p.ptrVars != nil {
			// a read-only pointer parameter: the scalar fields the callee reads, of the record the argument denotes
			x := c.plainVar(args[i])
			if x == nil || x.typ.k != "struct" || x.typ.decl != p.ptrStruct {
				c.lostAt(args[i], "pointer argument %s (must be a record variable of type %s)", src(args[i]), p.ptrStruct.Name.Name)
			}
			for _, f := range p.ptrFields {
				s += " (" + x.typ.name + "_" + f + " " + x.name + ")"
			}
			continue
		}
		if p.variadic && !v.Ellipsis.IsValid() {
			// items ...T: the remaining arguments as a list
			var xs []string
			for _, a := range args[i:] {
				y, yt := c.expr(a, pre)
				if yt.k == "slice" || yt.k == "view" || yt.k == "map" {
					c.lostAt(a, "variadic argument %s", src(a))
				}
				xs = append(xs, y)
			}
			s += " [" + strings.Join(xs, "; ") + "]"
			continue
		}
		a := args[i]
		if p.v != nil && p.v.typ.k == "map" {
			if p.mutated {
				x := c.plainVar(a)
				if x == nil || x.typ.k != "map" {
					c.lostAt(a, "map argument %s (must be a variable: the call changes it)", src(a))
				}
				if sn := c.rangedSnapshot(pre, x); sn != "" {
					snaps, snapVars = append(snaps, sn), append(snapVars, x)
				}
				s += " " + x.name
				mutArgs = append(mutArgs, x)
			} else {
				y, yt := c.expr(a, pre)
				if yt.k != "map" {
					c.lostAt(a, "map argument %s", src(a))
				}
				s += " " + paren(asNmapTo(p.v.typ, yt, y))
			}
			continue
		}
		if p.v == nil { // a logged callback: must be the same callback here
			if l := c.logs[src(a)]; l == nil {
				if sel, ok := a.(*ast.SelectorExpr); !ok || !c.isRecv(sel.X) || c.logs[sel.Sel.Name] == nil {
					c.lostAt(a, "callback argument %s", src(a))
				}
			}
			continue
		}
		if p.v.typ.k == "obj" {
			x := c.objArg(cal, p, a) // fn_stdobj.go: an object variable handed to an object parameter
			s += " " + x.name
			mutArgs = append(mutArgs, x)
			continue
		}
		if p.v.typ.k == "opaque" {
			s += " " + c.opaqueArg(a, p.v.typ, pre)
			continue
		}
		if p.v.typ.k == "slice" && (p.v.view != nil || p.mutated) {
			x := c.rootVar(a)
			if _, isIdx := a.(*ast.IndexExpr); x == nil || isIdx {
				c.lostAt(a, "slice argument %s (must be a variable)", src(a))
			}
			if !p.v.noElems {
				if x.noElems {
					c.lostAt(a, "slice argument %s (elements needed)", src(a))
				}
				s += " " + x.name
			}
			if p.v.view != nil {
				if x.view == nil {
					c.lostAt(a, "slice argument %s (capacity needed)", src(a))
				}
				s += " " + x.view.name
			}
			if p.mutated {
				mutArgs = append(mutArgs, x)
			}
			continue
		}
		if p.v.typ.k == "func" {
			s += " " + c.funcArg(a, p.v.typ, pre)
			continue
		}
		if se, isSl := a.(*ast.SliceExpr); isSl && p.v.typ.k == "slice" {
			// the callee neither stores into this parameter nor hands it back: by value
			y, _ := c.sliceByValue(se, pre)
			s += " " + y
			continue
		}
		y, yt := c.expr(a, pre)
		if yt.k == "view" {
			c.lostAt(a, "slice argument %s (elements needed)", src(a))
		}
		c.noAlias(a, yt)
		s += " " + paren(y)
	}
	sub := c.calleeSubst(cal, v)
	for _, e := range cal.extras {
		if strings.HasPrefix(e.key, "eqb:") {
			// the equality of the callee's key type, at the type it is called with
			kt := substT(&fnType{k: "elem", name: strings.TrimPrefix(e.key, "eqb:")}, sub)
			s += " " + c.mapEqb(&fnType{k: "map", key: kt}, v)
			continue
		}
		if strings.HasPrefix(e.key, "cmp:") {
			kt := substT(&fnType{k: "elem", name: strings.TrimPrefix(e.key, "cmp:"), ordered: true}, sub)
			switch {
			case kt.isNum():
				s += " go_cmp_int"
			case kt.k == "string":
				s += " go_cmp_str"
			case kt.k == "elem":
				s += " " + c.cmpVar(&fnType{k: "elem", name: kt.name, ordered: true}).name
			default:
				c.lostAt(v, "call of %s (cmp.Compare at type %s)", cal.name, kt.k)
			}
			continue
		}
		if strings.HasPrefix(e.key, "ord:") && len(sub) > 0 {
			c.lostAt(v, "call of %s, which ranges over a map, at other type arguments", cal.name)
		}
		x := c.extras[e.key]
		if x == nil {
			c.lostAt(v, "call of %s (%s)", cal.name, e.name)
		}
		if x.typ.name == "?" {
			x.typ = &fnType{k: "raw", name: e.typ}
			tset := map[string]bool{}
			for _, tp := range e.tps {
				x.typ.params = append(x.typ.params, &fnType{k: "elem", name: tp})
				tset[tp] = true
			}
			c.setExtraType(e.key, e.typ, tset) // for the callers of this function in turn
		}
		s += " " + x.name
	}
	for _, z := range cal.zeroTypes {
		zt := substT(&fnType{k: "elem", name: z}, sub)
		s += " " + paren(c.zeroOf(zt, v))
	}
	if cal.fuel {
		s += " fuel"
		c.fuel = true
	}
	var res []string
	for i := range cal.results {
		if i < len(want) && want[i] != "" {
			res = append(res, want[i])
		} else {
			res = append(res, c.tmp())
		}
	}
	pat := append([]string{}, res...)
	effect := false
	for _, f := range cal.mutFields {
		if c.fields[f] == nil {
			c.lostAt(v, "call of %s (field %s)", cal.name, f)
		}
		pat = append(pat, c.fields[f].name)
		if cal.fatFields[f] {
			pat = append(pat, c.fat[c.fields[f]].name)
		}
		effect = true
	}
	for _, x := range mutArgs {
		pat = append(pat, x.name)
		effect = true
	}
	var logTmps []string
	for range cal.logs {
		t := c.tmp()
		logTmps = append(logTmps, t)
		pat = append(pat, t)
		effect = true
	}
	if cal.pure {
		if len(pat) == 1 && len(want) == 0 {
			return []string{"(" + s + ")"}, cal.results
		}
		*pre = append(*pre, fnBind{pat: tuple(pat), e: s, isLet: true, effect: effect})
	} else {
		p := tuple(pat)
		if len(pat) == 0 {
			p = "_"
		}
		*pre = append(*pre, fnBind{pat: p, m: tRaw{s}, effect: effect})
	}
	for i, l := range cal.logs {
		lv := c.logs[l]
		*pre = append(*pre, fnBind{pat: lv.name, e: lv.name + " ++ " + logTmps[i], isLet: true, effect: true})
	}
	for _, sn := range snaps {
		c.nogrowCheck(pre, sn)
	}
	return res, cal.results
}

// ---------------------------------------------------------------- statements

func (c *fnCtx) stmts(list []ast.Stmt, k func() term) term {
	if len(list) == 0 {
		return k()
	}
	return c.stmt(list[0], func() term { return c.stmts(list[1:], k) })
}

func isPanicCall(s ast.Stmt) *ast.CallExpr {
	if es, ok := s.(*ast.ExprStmt); ok {
		if call, ok := es.X.(*ast.CallExpr); ok {
			if id, ok := call.Fun.(*ast.Ident); ok && id.Name == "panic" && id.Obj == nil {
				return call
			}
		}
	}
	return nil
}

func canFall(list []ast.Stmt) bool {
	if len(list) == 0 {
		return true
	}
	switch v := list[len(list)-1].(type) {
	case *ast.ReturnStmt, *ast.BranchStmt:
		return false
	case *ast.ExprStmt:
		return isPanicCall(v) == nil
	case *ast.BlockStmt:
		return canFall(v.List)
	case *ast.IfStmt:
		if v.Else == nil {
			return true
		}
		var el []ast.Stmt
		switch e := v.Else.(type) {
		case *ast.BlockStmt:
			el = e.List
		default:
			el = []ast.Stmt{e}
		}
		return canFall(v.Body.List) || canFall(el)
	}
	return true
}

// hasAbrupt: a return anywhere, or a break/continue that leaves this statement list.
func hasAbrupt(n ast.Node) bool {
	found := false
	var walk func(n ast.Node, inLoop bool)
	walk = func(n ast.Node, inLoop bool) {
		ast.Inspect(n, func(x ast.Node) bool {
			if found || x == nil {
				return false
			}
			switch v := x.(type) {
			case *ast.FuncLit:
				return false // its returns are its own
			case *ast.ReturnStmt:
				found = true
			case *ast.BranchStmt:
				if !inLoop {
					found = true
				}
			case *ast.ForStmt:
				if x != n {
					walk(v.Body, true)
					return false
				}
			case *ast.RangeStmt:
				if x != n {
					walk(v.Body, true)
					return false
				}
			}
			return true
		})
	}
	walk(n, false)
	return found
}

func hasReturn(n ast.Node) bool {
	found := false
	ast.Inspect(n, func(x ast.Node) bool {
		if _, ok := x.(*ast.FuncLit); ok {
			return false // its returns are its own
		}
		if _, ok := x.(*ast.ReturnStmt); ok {
			found = true
		}
		return !found
	})
	return found
}

func (c *fnCtx) stmt(s ast.Stmt, k func() term) term {
	switch v := s.(type) {
	case *ast.BlockStmt:
		return c.stmts(v.List, k)
	case *ast.EmptyStmt:
		return k()
	case *ast.ExprStmt:
		if call := isPanicCall(v); call != nil {
			if len(call.Args) == 1 {
				if lit, ok := call.Args[0].(*ast.BasicLit); ok && lit.Kind == token.STRING {
					m, err := strconv.Unquote(lit.Value)
					if err == nil && !strings.ContainsAny(m, "\"\\\n") {
						return tRaw{"Panic (PMsg \"" + m + "\")"}
					}
				}
			}
			if m, ok := c.sprintfPanic(call); ok {
				return tRaw{"Panic (PMsg \"" + m + "\")"}
			}
			c.lostAt(v, "panic argument %s (only a plain string literal, or fmt.Sprintf of a literal format and effect-free arguments)", src(call.Args[0]))
		}
		call, ok := v.X.(*ast.CallExpr)
		if !ok {
			c.lostAt(v, "expression statement")
		}
		var pre []fnBind
		if l := c.loggedCall(call); l != nil {
			var xs []string
			for _, a := range call.Args {
				x, xt := c.expr(a, &pre)
				c.noAlias(a, xt)
				xs = append(xs, x)
			}
			pre = append(pre, fnBind{pat: l.name, e: l.name + " ++ [" + tuple(xs) + "]", isLet: true})
			return wrap(pre, k())
		}
		if fv, m := c.objCallOf(call); fv != nil {
			// results are dropped
			c.objCall(fv, m, call, &pre, nil)
			return wrap(pre, k())
		}
		if isBuiltin(call, "copy", 2) {
			c.copyStmt(call, &pre)
			return wrap(pre, k())
		}
		if isBuiltin(call, "clear", 1) {
			x := c.plainVar(call.Args[0])
			if x == nil || x.typ.k != "map" {
				c.lostAt(v, "clear of %s (must be a map variable or field)", src(call.Args[0]))
			}
			pre = append(pre, fnBind{pat: x.name, e: c.mapOp(x.typ, "clear") + " " + x.name, isLet: true, effect: true})
			return wrap(pre, k())
		}
		if id, ok := call.Fun.(*ast.Ident); ok && id.Name == "delete" && id.Obj == nil && len(call.Args) == 2 {
			x := c.plainVar(call.Args[0])
			if x == nil || x.typ.k != "map" {
				c.lostAt(v, "delete from %s (must be a map variable or field)", src(call.Args[0]))
			}
			key, _ := c.expr(call.Args[1], &pre)
			pre = append(pre, fnBind{pat: x.name, e: c.mapOp(x.typ, "del") + " " + c.mapEqb(x.typ, v) + " " + x.name + " " + paren(key), isLet: true, effect: true})
			return wrap(pre, k())
		}
		if cal := c.g.calleeOf(c.fn, call); cal != nil {
			c.callTranslated(cal, call, &pre, nil)
			// results are dropped
			return wrap(pre, k())
		}
		if key := c.externKey(call); key != "" {
			// an external procedure: a function argument that returns the new elements of its slice arguments
			x := c.extras[key]
			s := x.name
			var ats, outs []string
			var outT []string
			var tset = map[string]bool{}
			for _, a := range call.Args {
				if xv := c.plainVar(a); xv != nil && xv.typ.k == "slice" {
					if xv.noElems || c.fat[xv] != nil {
						c.lostAt(a, "argument %s of %s", src(a), key)
					}
					s += " " + xv.name
					ats = append(ats, arrowArg(xv.typ.coq()))
					outs = append(outs, xv.name)
					outT = append(outT, xv.typ.coq())
					xv.typ.mentionsT(tset)
					continue
				}
				y, t := c.expr(a, &pre)
				if t.k == "view" || t.k == "slice" {
					c.lostAt(a, "argument %s of %s", src(a), key)
				}
				s += " " + paren(y)
				if t.k == "untyped" {
					t = tyInt
				}
				ats = append(ats, arrowArg(t.coq()))
				t.mentionsT(tset)
			}
			rt := "unit"
			if len(outT) > 0 {
				rt = strings.Join(outT, " * ")
			}
			typ := strings.Join(append(ats, "res "+paren(rt)), " -> ")
			if x.typ.name != "?" && x.typ.name != typ {
				c.lostAt(v, "second call of %s with different argument types", key)
			}
			x.typ = &fnType{k: "raw", name: typ}
			for tp := range tset {
				x.typ.params = append(x.typ.params, &fnType{k: "elem", name: tp})
			}
			c.setExtraType(key, typ, tset)
			pat := tuple(outs)
			if len(outs) == 0 {
				pat = "_"
			}
			pre = append(pre, fnBind{pat: pat, m: tRaw{s}, effect: true})
			return wrap(pre, k())
		}
		c.lostAt(v, "call statement %s", src(call.Fun))
	case *ast.IncDecStmt:
		one := &ast.BasicLit{Kind: token.INT, Value: "1", ValuePos: v.Pos()}
		tok := token.ADD_ASSIGN
		if v.Tok == token.DEC {
			tok = token.SUB_ASSIGN
		}
		return c.assign(&ast.AssignStmt{Lhs: []ast.Expr{v.X}, Tok: tok, Rhs: []ast.Expr{one}, TokPos: v.Pos()}, k)
	case *ast.AssignStmt:
		if lo := c.fn.localObj; lo != nil && v == lo.stmt {
			return c.localObjInit(lo, k)
		}
		return c.assign(v, k)
	case *ast.DeclStmt:
		gd, ok := v.Decl.(*ast.GenDecl)
		if ok && gd.Tok == token.TYPE {
			return k() // a struct type of the function: registered by localTypes
		}
		if ok && gd.Tok == token.CONST {
			c.localConstDecl(gd) // fn_err.go: constants of the function are inlined where they are used
			return k()
		}
		if !ok || gd.Tok != token.VAR {
			c.lostAt(v, "declaration")
		}
		var pre []fnBind
		for _, sp := range gd.Specs {
			vs := sp.(*ast.ValueSpec)
			for i, n := range vs.Names {
				if len(vs.Values) == 0 {
					t := c.goType(vs.Type)
					z := c.zeroOf(t, v)
					if x := c.declare(n, t); x != nil {
						pat := x.name
						if z == "[]" {
							pat += " : " + varType(x)
						}
						pre = append(pre, fnBind{pat: pat, e: z, isLet: true})
					}
				} else if len(vs.Values) == len(vs.Names) {
					e, t := c.expr(vs.Values[i], &pre)
					if vs.Type != nil {
						t = c.goType(vs.Type)
					} else if t.k == "untyped" {
						t = tyInt
					}
					if x := c.declare(n, t); x != nil {
						pre = append(pre, fnBind{pat: x.name, e: e, isLet: true})
					}
				} else {
					c.lostAt(v, "declaration with a multi-valued initialiser")
				}
			}
		}
		return wrap(pre, k())
	case *ast.ReturnStmt:
		if c.lit != nil {
			return c.litReturn(v)
		}
		c.retPos = v.Pos()
		var pre []fnBind
		var vals []string
		res := c.fn.results
		if c.fn.retRecv {
			if len(v.Results) != 1 || !c.isRecvSyntax(v.Results[0]) {
				c.lostAt(v, "return of something else than the receiver")
			}
			return c.retTerm(nil)
		}
		if len(v.Results) == 0 {
			if len(res) > 0 {
				if len(c.retNames) != len(res) {
					c.lostAt(v, "bare return")
				}
				for _, x := range c.retNames {
					vals = append(vals, x.name)
				}
			}
			return c.retTerm(vals)
		}
		if len(v.Results) == 1 && len(res) > 1 {
			call, ok := v.Results[0].(*ast.CallExpr)
			if !ok {
				c.lostAt(v, "return of a multi-valued expression")
			}
			vals, _ = c.call(call, &pre, nil)
			return wrap(pre, c.retTerm(vals))
		}
		if len(v.Results) != len(res) {
			c.lostAt(v, "return arity")
		}
		for i, r := range v.Results {
			if res[i].k == "view" {
				vals = append(vals, c.viewOf(r, &pre))
				continue
			}
			if res[i].k == "sres" {
				vals = append(vals, c.sresValue(r, &pre))
				continue
			}
			if res[i].k == "eptr" {
				vals = append(vals, c.elemPtrValue(r, &pre))
				continue
			}
			if s, ok := c.returnExt(i, res[i], r); ok {
				vals = append(vals, s) // fn_err.go / fn_stdobj.go: nil as an error, an object field as an interface value
				continue
			}
			x, t := c.expr(r, &pre)
			if t.k == "view" {
				c.lostAt(r, "returned slice %s", src(r))
			}
			vals = append(vals, x)
		}
		return wrap(pre, c.retTerm(vals))
	case *ast.BranchStmt:
		if v.Label != nil || len(c.loops) == 0 {
			c.lostAt(v, "%s", v.Tok)
		}
		lc := c.loops[len(c.loops)-1]
		switch v.Tok {
		case token.BREAK:
			return lc.brk()
		case token.CONTINUE:
			return lc.cont()
		}
		c.lostAt(v, "%s", v.Tok)
	case *ast.IfStmt:
		if v.Init != nil {
			return c.stmt(v.Init, func() term { return c.ifStmt(v, k) })
		}
		return c.ifStmt(v, k)
	case *ast.DeferStmt:
		if c.poolPutDefer(v) {
			return k() // fn_stdobj.go: what is put back into the pool is not represented
		}
	case *ast.ForStmt:
		return c.forStmt(v, k)
	case *ast.RangeStmt:
		return c.rangeStmt(v, k)
	}
	c.lostAt(s, "statement %T", s)
	return nil
}

func (c *fnCtx) ifStmt(v *ast.IfStmt, k func() term) term {
	var pre []fnBind
	cond, ct := c.expr(v.Cond, &pre)
	if ct.k != "bool" {
		c.lostAt(v.Cond, "condition")
	}
	var el []ast.Stmt
	switch e := v.Else.(type) {
	case nil:
	case *ast.BlockStmt:
		el = e.List
	default:
		el = []ast.Stmt{e}
	}
	fa, fb := canFall(v.Body.List), canFall(el)
	none := func() term { return tRaw{"Panic (PMsg \"unreachable\")"} }
	switch {
	case !fa && !fb:
		return wrap(pre, tIf{cond, c.stmts(v.Body.List, none), c.stmts(el, none)})
	case !fa:
		return wrap(pre, tIf{cond, c.stmts(v.Body.List, none), c.stmts(el, k)})
	case !fb:
		return wrap(pre, tIf{cond, c.stmts(v.Body.List, k), c.stmts(el, none)})
	}
	abrupt := hasAbrupt(v.Body)
	if v.Else != nil && hasAbrupt(v.Else) {
		abrupt = true
	}
	if abrupt {
		// a branch may leave early and may fall through: the continuation is written in both
		return wrap(pre, tIf{cond, c.stmts(v.Body.List, k), c.stmts(el, k)})
	}
	var nodes []ast.Node
	nodes = append(nodes, v.Body)
	if v.Else != nil {
		nodes = append(nodes, v.Else)
	}
	es := c.effects(nodes...)
	var m []*fnVar
	for _, x := range sortedVars(es.w) {
		if c.outside(x, v.Pos(), v.End()) {
			m = append(m, x)
		}
	}
	join := func() term { return tOk{tuple(names(m))} }
	pat := tuple(names(m))
	if len(m) == 0 {
		pat = "_"
	}
	a := c.stmts(v.Body.List, join)
	b := c.stmts(el, join)
	if len(m) == 0 && isPure(a) && isPure(b) {
		return wrap(pre, k())
	}
	return wrap(pre, tBind{pat, tIf{cond, a, b}, k()})
}

// ---------------------------------------------------------------- assignment

func (c *fnCtx) assign(v *ast.AssignStmt, k func() term) term {
	var pre []fnBind
	// op-assignment
	if v.Tok != token.ASSIGN && v.Tok != token.DEFINE {
		ops := map[token.Token]token.Token{token.ADD_ASSIGN: token.ADD, token.SUB_ASSIGN: token.SUB, token.MUL_ASSIGN: token.MUL,
			token.QUO_ASSIGN: token.QUO, token.REM_ASSIGN: token.REM, token.AND_ASSIGN: token.AND, token.OR_ASSIGN: token.OR,
			token.XOR_ASSIGN: token.XOR, token.SHL_ASSIGN: token.SHL, token.SHR_ASSIGN: token.SHR, token.AND_NOT_ASSIGN: token.AND_NOT}
		op, ok := ops[v.Tok]
		if !ok || len(v.Lhs) != 1 || len(v.Rhs) != 1 {
			c.lostAt(v, "assignment %s", v.Tok)
		}
		if _, isIdx := v.Lhs[0].(*ast.IndexExpr); isIdx {
			c.lostAt(v, "op-assignment to an element")
		}
		rhs := &ast.BinaryExpr{X: v.Lhs[0], Op: op, Y: &ast.ParenExpr{X: v.Rhs[0]}, OpPos: v.TokPos}
		return c.assign(&ast.AssignStmt{Lhs: v.Lhs, Tok: token.ASSIGN, Rhs: []ast.Expr{rhs}, TokPos: v.TokPos}, k)
	}
	// v, ok := m[k]
	if len(v.Rhs) == 1 && len(v.Lhs) == 2 {
		if ix, ok := v.Rhs[0].(*ast.IndexExpr); ok {
			m, mt := c.expr(ix.X, &pre)
			if mt.k != "map" {
				c.lostAt(v, "multi-valued right-hand side")
			}
			key, _ := c.expr(ix.Index, &pre)
			var pats []string
			for i, l := range v.Lhs {
				t := mt.elem
				if i == 1 {
					t = tyBool
				}
				if x := c.target(l, v, t); x != nil {
					pats = append(pats, x.name)
				} else {
					pats = append(pats, "_")
				}
			}
			pre = append(pre, fnBind{pat: tuple(pats), e: c.mapOp(mt, "get2") + " " + c.mapEqb(mt, v) + " " + paren(c.zeroOf(mt.elem, v)) + " " + paren(m) + " " + paren(key), isLet: true})
			return wrap(pre, k())
		}
	}
	// a, b := f(x)
	if len(v.Rhs) == 1 && len(v.Lhs) > 1 {
		call, ok := v.Rhs[0].(*ast.CallExpr)
		if !ok {
			c.lostAt(v, "multi-valued right-hand side")
		}
		if fv, m := c.objCallOf(call); fv != nil {
			ft := c.objMethodType(fv, m, call)
			if len(ft.res) != len(v.Lhs) {
				c.lostAt(v, "assignment arity")
			}
			var want []string
			for i, l := range v.Lhs {
				if x := c.target(l, v, ft.res[i]); x != nil {
					want = append(want, x.name)
				} else {
					want = append(want, "_")
				}
			}
			c.objCall(fv, m, call, &pre, want)
			return wrap(pre, k())
		}
		cal := c.g.calleeOf(c.fn, call)
		var want []string
		var targets []*fnVar
		if cal != nil && len(cal.results) == len(v.Lhs) {
			for i, l := range v.Lhs {
				x := c.target(l, v, cal.results[i])
				targets = append(targets, x)
				if x == nil {
					want = append(want, "_")
				} else {
					want = append(want, x.name)
				}
			}
			// the results are bound directly to the variables
			c.call(call, &pre, want)
			return wrap(pre, k())
		}
		vals, ts := c.call(call, &pre, nil)
		if len(vals) != len(v.Lhs) {
			c.lostAt(v, "assignment arity")
		}
		for i, l := range v.Lhs {
			if x := c.target(l, v, ts[i]); x != nil {
				pre = append(pre, fnBind{pat: x.name, e: vals[i], isLet: true})
			}
		}
		return wrap(pre, k())
	}
	if len(v.Lhs) != len(v.Rhs) {
		c.lostAt(v, "assignment arity")
	}
	// single assignment
	if len(v.Lhs) == 1 {
		return c.assign1(v, v.Lhs[0], v.Rhs[0], k)
	}
	// parallel assignment: right-hand sides (and index operands) first, then the stores left to right
	anyIdx := false
	for _, l := range v.Lhs {
		if _, ok := l.(*ast.IndexExpr); ok {
			anyIdx = true
		}
	}
	var vals []string
	var ts []*fnType
	for _, r := range v.Rhs {
		x, t := c.expr(r, &pre)
		if t.k == "map" {
			c.mapAssignCheck(v, r)
		}
		vals = append(vals, x)
		ts = append(ts, t)
	}
	for _, t := range ts {
		if t.k == "slice" || t.k == "view" || t.k == "sres" {
			c.slicePermutation(v)
			break
		}
	}
	if !anyIdx {
		var pats []string
		for i, l := range v.Lhs {
			x := c.target(l, v, ts[i])
			if x == nil {
				pats = append(pats, "_")
			} else {
				pats = append(pats, x.name)
			}
		}
		pre = append(pre, fnBind{pat: tuple(pats), e: tuple(vals), isLet: true})
		return wrap(pre, k())
	}
	// with element stores: values that are not already temporaries are frozen first
	assigned := map[string]bool{}
	for _, l := range v.Lhs {
		if x := c.rootVar(l); x != nil {
			assigned[x.name] = true
		}
	}
	freeze := func(s string) string {
		if _, err := strconv.Atoi(s); err == nil {
			return s
		}
		isId := !strings.ContainsAny(s, " ()[]")
		if isId && !assigned[s] {
			return s
		}
		t := c.tmp()
		pre = append(pre, fnBind{pat: t, e: s, isLet: true})
		return t
	}
	for i := range vals {
		vals[i] = freeze(vals[i])
	}
	type store struct {
		x   *fnVar
		idx string
	}
	var stores []store
	for _, l := range v.Lhs {
		if ix, ok := l.(*ast.IndexExpr); ok {
			x := c.rootVar(ix.X)
			if x == nil || x.typ.k != "slice" || x.noElems || c.rootVar(ix.X) != c.plainVar(ix.X) {
				c.lostAt(l, "store to %s", src(l))
			}
			i, _ := c.expr(ix.Index, &pre)
			stores = append(stores, store{x, freeze(i)})
		} else {
			stores = append(stores, store{})
		}
	}
	for i, l := range v.Lhs {
		if stores[i].x != nil {
			x := stores[i].x
			bindRaw(&pre, x.name, "go_set "+x.name+" "+paren(stores[i].idx)+" "+paren(vals[i]))
		} else if x := c.target(l, v, ts[i]); x != nil {
			pre = append(pre, fnBind{pat: x.name, e: vals[i], isLet: true})
		}
	}
	return wrap(pre, k())
}

// plainVar: e is a variable or receiver field itself (not an element of one)
func (c *fnCtx) plainVar(e ast.Expr) *fnVar {
	switch v := e.(type) {
	case *ast.ParenExpr:
		return c.plainVar(v.X)
	case *ast.StarExpr:
		if id, ok := v.X.(*ast.Ident); ok {
			if x := c.lookup(id); x != nil && x.ptr {
				return x
			}
		}
		return nil
	case *ast.Ident:
		if x := c.lookup(v); x != nil && x.ptr {
			return nil // the pointer itself
		}
		return c.lookup(v)
	case *ast.SelectorExpr:
		if c.isRecv(v.X) {
			return c.fields[v.Sel.Name]
		}
	}
	return nil
}

// target: the variable a plain left-hand side denotes (declaring it for :=); nil for _.
func (c *fnCtx) target(l ast.Expr, st *ast.AssignStmt, t *fnType) *fnVar {
	if id, ok := l.(*ast.Ident); ok {
		if id.Name == "_" {
			return nil
		}
		if x := c.lookup(id); x != nil {
			if x.rangeKey {
				c.lostAt(l, "assignment to the range variable %s", id.Name)
			}
			if x.noElems {
				c.lostAt(l, "assignment to the slice parameter %s", id.Name)
			}
			return x
		}
		if st.Tok == token.DEFINE && id.Obj != nil {
			if t.k == "untyped" {
				t = tyInt
			}
			if t.k == "nil" {
				c.lostAt(l, "declaration from nil")
			}
			return c.declare(id, t)
		}
	}
	if x := c.plainVar(l); x != nil {
		return x
	}
	c.lostAt(l, "assignment target %s", src(l))
	return nil
}

func (c *fnCtx) assign1(st *ast.AssignStmt, l, r ast.Expr, k func() term) term {
	var pre []fnBind
	if t, ok := c.poolGetAssign(st, l, r, k); ok {
		return t // fn_stdobj.go: x := pool.Get().(*pkg.T)
	}
	// v := (*uint64)(unsafe.Pointer(&data[i])): the address of a word inside a byte slice
	if id, ok := l.(*ast.Ident); ok && st.Tok == token.DEFINE && id.Obj != nil && c.wordPtrDecl[id.Obj] != nil && wordPtrExpr(r) != nil {
		ix := wordPtrExpr(r)
		x := c.plainVar(ix.X)
		if x == nil || x.typ.k != "slice" || x.typ.elem.k != "byte" || x.noElems {
			c.lostAt(st, "word pointer into %s (must be a list-represented []byte variable)", src(ix.X))
		}
		idx, _ := c.expr(ix.Index, &pre)
		t := c.tmp()
		pre = append(pre, fnBind{pat: t, e: idx, isLet: true})
		bindRaw(&pre, "_", "go_get "+x.name+" "+t) // &data[i] checks the index
		c.wordPtrIdx[id.Obj] = t
		return wrap(pre, k())
	}
	// *(*uint64)(unsafe.Pointer(&data[i])) = e   and   *v = e
	if ix := c.wordTarget(l); ix != nil && st.Tok == token.ASSIGN {
		x, idx := c.wordAccess(l, ix, &pre)
		e, et := c.expr(r, &pre)
		if !et.isNum() {
			c.lostAt(st, "word store of %s", src(r))
		}
		bindRaw(&pre, x.name, "go_store64 "+x.name+" "+paren(idx)+" "+paren(e))
		return wrap(pre, k())
	}
	// it.c = nil / it.c = it.m.Cursor(kv) on an object field
	if t, ok := c.objFieldStore(st, l, r, k); ok {
		return t
	}
	// q.move = u on a callback field whose calls are the log
	if c.logFieldStore(st, l, r) {
		return k()
	}
	// x.f = e on a struct-valued variable or field
	if sel, ok := l.(*ast.SelectorExpr); ok && !c.isRecv(sel.X) {
		return c.structStore(st, sel, r, k)
	}
	// m[k] = e
	if ix, ok := l.(*ast.IndexExpr); ok {
		if x := c.plainVar(ix.X); x != nil && x.typ.k == "map" {
			// Go evaluates the index operand and the right-hand side, then stores
			key, _ := c.expr(ix.Index, &pre)
			e, et := c.expr(r, &pre)
			c.noAlias(r, et)
			if x.typ.nilable {
				// a store into a nil map panics
				pre = append(pre, fnBind{pat: x.name, m: tRaw{"go_nmap_set " + c.mapEqb(x.typ, st) + " " + x.name + " " + paren(key) + " " + paren(e)}, effect: true})
			} else {
				pre = append(pre, fnBind{pat: x.name, e: "go_map_set " + c.mapEqb(x.typ, st) + " " + x.name + " " + paren(key) + " " + paren(e), isLet: true, effect: true})
			}
			return wrap(pre, k())
		}
	}
	// s[i] = e
	if ix, ok := l.(*ast.IndexExpr); ok {
		x := c.plainVar(ix.X)
		if x == nil || x.typ.k != "slice" || x.noElems {
			c.lostAt(l, "store to %s", src(l))
		}
		// Go evaluates the index operand and the right-hand side, then stores
		i, _ := c.expr(ix.Index, &pre)
		e, et := c.expr(r, &pre)
		if et.k == "view" || x.typ.elem.k == "slice" {
			c.lostAt(l, "store of a slice")
		}
		bindRaw(&pre, x.name, "go_set "+x.name+" "+paren(i)+" "+paren(e))
		return wrap(pre, k())
	}
	// w := append(x, e...) into another variable: the run time's choice (where the result lives, its
	// capacity, what the rest of its array holds) is the oracle function argument append_
	if call := oracleAppend(st); call != nil {
		xv := c.plainVar(call.Args[0])
		if xv == nil || xv.typ.k != "slice" || xv.noElems || xv.typ.elem.k == "slice" || call.Ellipsis.IsValid() || st.Tok != token.DEFINE {
			c.lostAt(st, "append into another variable (only w := append(x, e...) on a list-represented slice)")
		}
		var xs []string
		for _, a := range call.Args[1:] {
			y, t := c.expr(a, &pre)
			if t.k == "slice" || t.k == "view" {
				c.lostAt(a, "appended slice value")
			}
			xs = append(xs, y)
		}
		w := c.target(l, st, xv.typ)
		if w == nil {
			c.lostAt(st, "append to _")
		}
		sp := c.fat[w]
		if sp == nil {
			sp = c.newVar(w.name+"_spare", xv.typ, "local")
			sp.pos = w.pos
			c.fat[w] = sp
		}
		o := c.extras["append"]
		lt := xv.typ.coq()
		typ := arrowArg(lt) + " -> " + arrowArg(lt) + " -> res (" + lt + " * " + lt + ")"
		tset := map[string]bool{}
		xv.typ.mentionsT(tset)
		o.typ = &fnType{k: "raw", name: typ}
		for tp := range tset {
			o.typ.params = append(o.typ.params, &fnType{k: "elem", name: tp})
		}
		c.setExtraType("append", typ, tset)
		pre = append(pre, fnBind{pat: tuple([]string{w.name, sp.name}), m: tRaw{o.name + " " + xv.name + " [" + strings.Join(xs, "; ") + "]"}})
		return wrap(pre, k())
	}
	// z = w[lo:hi] where w came from an oracle append: exact up to cap(w); w must be dead afterwards
	if se, ok := r.(*ast.SliceExpr); ok && !se.Slice3 {
		if w := c.plainVar(se.X); w != nil && c.fat[w] != nil && w.role != "field" {
			z := c.plainVar(l)
			if z == nil || z.typ.k != "slice" || z.noElems || z.view != nil || c.fat[z] != nil {
				c.lostAt(st, "re-slice of %s into %s", w.name, src(l))
			}
			used := false
			ast.Inspect(c.fn.decl.Body, func(n ast.Node) bool {
				if id, ok := n.(*ast.Ident); ok && id.Pos() > st.End() && c.lookup(id) == w {
					used = true
				}
				return true
			})
			if used {
				c.lostAt(st, "re-slice of %s into %s while %s is still used (aliasing)", w.name, src(l), w.name)
			}
			lo, hi := "0", "(zlen "+w.name+")"
			if se.Low != nil {
				lo, _ = c.expr(se.Low, &pre)
			}
			if se.High != nil {
				hi, _ = c.expr(se.High, &pre)
			}
			bindRaw(&pre, z.name, "go_sub_cap "+w.name+" "+c.fat[w].name+" "+paren(lo)+" "+paren(hi))
			return wrap(pre, k())
		}
	}
	// x = append(x, e...)   x = x[lo:hi]   x = make(...)
	lv := c.plainVar(l)
	if call, ok := r.(*ast.CallExpr); ok {
		if id, ok := call.Fun.(*ast.Ident); ok && id.Obj == nil {
			switch id.Name {
			case "append":
				if lv == nil || c.plainVar(call.Args[0]) != lv || call.Ellipsis.IsValid() || lv.typ.k != "slice" {
					c.lostAt(st, "append (only x = append(x, e...) on a list-represented slice)")
				}
				if lv.role == "field" && c.fat[lv] != nil {
					c.lostAt(st, "append to %s, whose capacity is tracked", lv.name)
				}
				var xs []string
				for _, a := range call.Args[1:] {
					if lv.typ.elem.k == "slice" {
						xs = append(xs, c.viewOf(a, &pre))
					} else {
						x, t := c.expr(a, &pre)
						if t.k == "view" || t.k == "slice" {
							c.lostAt(a, "appended slice value")
						}
						xs = append(xs, x)
					}
				}
				pre = append(pre, fnBind{pat: lv.name, e: lv.name + " ++ [" + strings.Join(xs, "; ") + "]", isLet: true})
				return wrap(pre, k())
			case "make":
				if t := c.makeMapType(call, &pre); t != nil {
					// make(map[K]V[, hint]): the empty map
					if x := c.target(l, st, t); x != nil {
						val := "go_nmap_make"
						if !x.typ.nilable {
							val = "[]"
						}
						pre = append(pre, fnBind{pat: x.name + " : " + x.typ.coq(), e: val, isLet: true})
					}
					return wrap(pre, k())
				}
				if at, ok := call.Args[0].(*ast.ArrayType); (ok && at.Len != nil) || len(call.Args) < 2 || len(call.Args) > 3 {
					c.lostAt(st, "make")
				}
				t := c.goType(call.Args[0]) // []T, or a type parameter Slice ~[]T
				if t.k != "slice" {
					c.lostAt(st, "make of %s", src(call.Args[0]))
				}
				n, _ := c.expr(call.Args[1], &pre)
				cp := n
				if len(call.Args) == 3 {
					cp, _ = c.expr(call.Args[2], &pre)
				}
				bindRaw(&pre, "_", "go_make_check "+paren(n)+" "+paren(cp))
				val := "[]"
				if n != "0" {
					if t.elem.k == "slice" {
						c.lostAt(st, "make of a non-empty slice of slices")
					}
					val = "repeat " + c.zeroOf(t.elem, st) + " (Z.to_nat " + paren(n) + ")"
				}
				x := c.target(l, st, t)
				if x != nil {
					pre = append(pre, fnBind{pat: x.name, e: val, isLet: true})
					if sp := c.fat[x]; sp != nil && x.role == "field" {
						for f, fv := range c.fields {
							if fv == x {
								c.fn.remakes[f] = true
							}
						}
						// the rest of the fresh array, up to its capacity, is zero as well
						spv := "[]"
						if cp != n {
							spv = "repeat " + c.zeroOf(t.elem, st) + " (Z.to_nat (" + cp + " - " + n + "))"
						}
						pre = append(pre, fnBind{pat: sp.name + " : " + varType(sp), e: spv, isLet: true})
					}
				}
				return wrap(pre, k())
			}
		}
	}
	if se, ok := r.(*ast.SliceExpr); ok && lv != nil && c.plainVar(se.X) == lv && lv.role == "field" && c.fat[lv] != nil && !se.Slice3 {
		c.fatReslice(lv, se, &pre)
		return wrap(pre, k())
	}
	if lv != nil && lv.role == "field" && c.fat[lv] != nil {
		if call, ok := r.(*ast.CallExpr); !ok || !isBuiltin(call, "make", len(call.Args)) {
			c.lostAt(st, "assignment to %s, whose capacity is tracked (only make and a re-slice of itself)", lv.name)
		}
	}
	if se, ok := r.(*ast.SliceExpr); ok && lv != nil && c.plainVar(se.X) == lv && lv.typ.k == "slice" && !lv.noElems && !se.Slice3 {
		if lv.view != nil {
			c.lostAt(st, "re-slicing of %s, which is also handed on as a slice", lv.name)
		}
		lo, hi := "0", "(zlen "+lv.name+")"
		if se.Low != nil {
			lo, _ = c.expr(se.Low, &pre)
		}
		if se.High != nil {
			hi, _ = c.expr(se.High, &pre)
		}
		bindRaw(&pre, lv.name, "go_sub "+lv.name+" "+paren(lo)+" "+paren(hi))
		return wrap(pre, k())
	}
	e, t := c.expr(r, &pre)
	if t.k == "slice" || t.k == "view" || t.k == "sres" {
		fresh := false
		if call, isCall := r.(*ast.CallExpr); isCall && t.k == "slice" && st.Tok == token.DEFINE {
			// the result of a translated function that returns a slice of its own making (not a
			// window of an argument: that would be a view)
			fresh = c.g.calleeOf(c.fn, call) != nil
		}
		if _, isLit := r.(*ast.CompositeLit); !isLit && !fresh {
			c.lostAt(st, "assignment of a slice value %s (aliasing)", src(r))
		}
	}
	if t.k == "obj" {
		c.lostAt(st, "assignment of a %s value %s (aliasing)", t.k, src(r))
	}
	if t.k == "map" {
		c.mapAssignCheck(st, r)
	}
	x := c.target(l, st, t)
	if x == nil {
		return wrap(pre, k())
	}
	if t.k == "nil" {
		if x.typ.k == "err" {
			e = "ENil"
		} else if x.typ.k != "slice" {
			c.lostAt(st, "nil")
		}
	}
	if n := len(pre); n > 0 && !pre[n-1].isLet && pre[n-1].pat == e && c.isTmp(e) {
		pre[n-1].pat = x.name // the temporary just bound is the variable
		return wrap(pre, k())
	}
	pre = append(pre, fnBind{pat: x.name, e: e, isLet: true})
	return wrap(pre, k())
}

func arrowArg(s string) string {
	if strings.Contains(s, "->") || strings.Contains(s, " * ") {
		return "(" + s + ")"
	}
	return s
}

func (c *fnCtx) setExtraType(key, typ string, tset map[string]bool) {
	for _, e := range c.fn.extras {
		if e.key == key {
			e.typ = typ
			e.tps = nil
			for tp := range tset {
				e.tps = append(e.tps, tp)
			}
		}
	}
}

func (c *fnCtx) isTmp(s string) bool {
	if len(s) < 2 || s[0] != 't' {
		return false
	}
	n, err := strconv.Atoi(s[1:])
	return err == nil && n >= 1 && n <= c.ntmp
}

// ---------------------------------------------------------------- loops

type loopSpec struct {
	skip      string   // a condition under which the iteration is skipped (after bodyPre)
	afterSkip []fnBind // bound after the skip test
	ranged    *fnVar   // the map ranged over
	node      ast.Node
	body      *ast.BlockStmt
	cond      func(pre *[]fnBind) string // nil: true
	bodyPre   func() []fnBind            // bound at the start of every iteration
	post      func(k func() term) term   // the post statement, then k
	eff       []ast.Node                 // cond / post nodes for the effect analysis
	extraW    []*fnVar                   // written by the loop itself (range counter)
	extraR    []*fnVar
	iterLoc   []*fnVar // set per iteration by the loop itself: never loop state
}

func (c *fnCtx) forStmt(v *ast.ForStmt, k func() term) term {
	ls := &loopSpec{node: v, body: v.Body}
	if v.Cond != nil {
		ls.cond = func(pre *[]fnBind) string {
			s, t := c.expr(v.Cond, pre)
			if t.k != "bool" {
				c.lostAt(v.Cond, "loop condition")
			}
			return s
		}
		ls.eff = append(ls.eff, v.Cond)
	}
	if v.Post != nil {
		ls.post = func(k func() term) term { return c.stmt(v.Post, k) }
		ls.eff = append(ls.eff, v.Post)
	}
	if v.Init != nil {
		return c.stmt(v.Init, func() term { return c.loop(ls, k) })
	}
	return c.loop(ls, k)
}

func (c *fnCtx) rangeStmt(v *ast.RangeStmt, k func() term) term {
	if v.Tok == token.ASSIGN {
		c.lostAt(v, "range assigning to existing variables")
	}
	if xv := c.plainVar(v.X); xv != nil && xv.typ.k == "map" {
		return c.rangeMap(v, xv.typ, k)
	}
	{
		var spre []fnBind
		if rw := c.seqRange(v, &spre); rw != nil {
			return wrap(spre, c.rangeStmt(rw, k))
		}
		if rw := c.objSeqRange(v, &spre); rw != nil {
			return wrap(spre, c.rangeStmt(rw, k))
		}
	}
	var pre []fnBind
	ls := &loopSpec{node: v, body: v.Body}
	// the counter
	var key, userKey *fnVar
	if id, ok := v.Key.(*ast.Ident); ok && id.Name != "_" && id.Obj != nil && assignsObj(v.Body, id.Obj) {
		// the body assigns the range variable (i++): every iteration has its own copy, set from a
		// hidden counter the body cannot reach
		userKey = c.declare(id, tyInt)
		userKey.pos = v.Pos()
		ls.iterLoc = append(ls.iterLoc, userKey)
		key = c.rangeCounter(v)
	} else if id, ok := v.Key.(*ast.Ident); ok && id.Name != "_" {
		key = c.declare(id, tyInt)
	} else {
		if v.Key != nil {
			if id, ok := v.Key.(*ast.Ident); !ok || id.Name != "_" {
				c.lostAt(v, "range key %s", src(v.Key))
			}
		}
		key = c.rangeCounter(v)
	}
	key.rangeKey = true
	key.pos = v.Pos()
	sliced := c.rangeWindow(v, &pre)
	var x string
	var t *fnType
	if sliced != nil {
		x, t = sliced.name, sliced.typ
	} else {
		x, t = c.expr(v.X, &pre)
	}
	lim := c.rangeLimit(v)
	switch {
	case t.isNum():
		if v.Value != nil {
			c.lostAt(v, "range over an integer with two variables")
		}
		pre = append(pre, fnBind{pat: lim.name, e: x, isLet: true})
	case t.k == "slice" && t.elem.k != "slice" || t.k == "string" && v.Value == nil:
		xv := c.plainVar(v.X)
		if sliced != nil {
			xv = sliced
		}
		if xv == nil {
			c.lostAt(v, "range over %s (must be a variable)", src(v.X))
		}
		if id, ok := v.Value.(*ast.Ident); ok && t.k == "slice" && t.elem.k == "map" && id.Obj != nil && c.mapMut[id.Obj] {
			c.lostAt(v, "range variable %s holds the maps of %s and is changed (aliasing)", id.Name, xv.name)
		}
		ast.Inspect(v.Body, func(n ast.Node) bool {
			if as, ok := n.(*ast.AssignStmt); ok {
				for _, l := range as.Lhs {
					if c.plainVar(l) == xv {
						c.lostAt(as, "assignment to %s inside a range over it", xv.name)
					}
				}
			}
			return true
		})
		pre = append(pre, fnBind{pat: lim.name, e: "zlen " + xv.name, isLet: true})
		if id, ok := v.Value.(*ast.Ident); ok && id.Name != "_" {
			vt := t.elem
			if vt.k == "rslice" {
				vt = &fnType{k: "slice", elem: vt.elem} // an inner slice of a read-only slice of slices: a list of its own
			}
			val := c.declare(id, vt)
			if xv.distinctPtr {
				if userKey != nil {
					c.lostAt(v, "range over %s whose body assigns the index variable", xv.name)
				}
				val.aliasOf, val.aliasIdx = xv, key // stores through it are written back at once
			}
			ls.iterLoc = append(ls.iterLoc, val)
			ls.bodyPre = func() []fnBind {
				return []fnBind{{pat: val.name, m: tRaw{"go_get " + xv.name + " " + key.name}}}
			}
			if userKey != nil {
				c.lostAt(v, "range with a value variable whose body assigns the index variable")
			}
			ls.extraR = append(ls.extraR, xv)
		} else if v.Value != nil {
			if id, ok := v.Value.(*ast.Ident); !ok || id.Name != "_" {
				c.lostAt(v, "range value %s", src(v.Value))
			}
		}
	default:
		c.lostAt(v, "range over %s", src(v.X))
	}
	if userKey != nil {
		ls.bodyPre = func() []fnBind { return []fnBind{{pat: userKey.name, e: key.name, isLet: true}} }
	}
	pre = append(pre, fnBind{pat: key.name, e: "0", isLet: true})
	ls.cond = func(pre *[]fnBind) string { return "(" + key.name + " <? " + lim.name + ")" }
	ls.post = func(k func() term) term { return tLet{key.name, key.name + " + 1", k()} }
	ls.extraW = []*fnVar{key}
	ls.extraR = append(ls.extraR, lim, key)
	return wrap(pre, c.loop(ls, k))
}

func (c *fnCtx) rangeCounter(v *ast.RangeStmt) *fnVar {
	if x, ok := c.synth[v]; ok {
		return x
	}
	x := c.newVar("r", tyInt, "local")
	x.pos = v.Pos()
	if c.synth == nil {
		c.synth = map[ast.Node]*fnVar{}
	}
	c.synth[v] = x
	return x
}

func (c *fnCtx) rangeLimit(v *ast.RangeStmt) *fnVar {
	if x, ok := c.synthLim[v]; ok {
		return x
	}
	x := c.newVar("lim", tyInt, "local")
	x.pos = v.Pos()
	if c.synthLim == nil {
		c.synthLim = map[ast.Node]*fnVar{}
	}
	c.synthLim[v] = x
	return x
}

func (c *fnCtx) loop(ls *loopSpec, k func() term) term {
	c.fuel = true
	if name, ok := c.loopDone[ls.node]; ok {
		// the continuation is translated a second time: the Fixpoint exists already
		return c.loopCall(name, k)
	}
	c.nloop++
	name := c.fn.name + "_loop" + strconv.Itoa(c.nloop)
	nodes := append([]ast.Node{ls.body}, ls.eff...)
	es := c.effects(nodes...)
	for _, x := range ls.extraW {
		es.w[x] = true
	}
	for _, x := range ls.extraR {
		es.r[x] = true
		if x.view != nil {
			es.r[x.view] = true
		}
	}
	iterLoc := map[*fnVar]bool{}
	for _, x := range ls.iterLoc {
		iterLoc[x] = true
	}
	lo, hi := ls.body.Pos(), ls.body.End()
	var state, ro []*fnVar
	for _, x := range sortedVars(es.w) {
		if c.outside(x, lo, hi) && !iterLoc[x] {
			state = append(state, x)
		}
	}
	inState := map[*fnVar]bool{}
	for _, x := range state {
		inState[x] = true
	}
	for _, x := range sortedVars(es.r) {
		if c.outside(x, lo, hi) && !inState[x] && !iterLoc[x] {
			if x.noElems {
				continue // its view is listed separately
			}
			ro = append(ro, x)
		}
	}
	hasRet := hasReturn(ls.body)
	stTuple := tuple(names(state))
	exit := stTuple
	if hasRet {
		exit = "Next " + paren(stTuple)
	}
	rec := name + " fuel gas"
	for _, x := range ro {
		rec += " " + x.name
	}
	for _, x := range state {
		rec += " " + x.name
	}
	lc := &loopCtx{hasRet: hasRet, ranged: ls.ranged}
	lc.brk = func() term { return tOk{exit} }
	lc.cont = func() term {
		if ls.post != nil {
			return ls.post(func() term { return tRaw{rec} })
		}
		return tRaw{rec}
	}
	c.loops = append(c.loops, lc)
	var bodyPre []fnBind
	if ls.bodyPre != nil {
		bodyPre = ls.bodyPre()
	}
	var bodyT term
	if ls.skip != "" {
		bodyT = wrap(bodyPre, tIf{ls.skip, lc.cont(), wrap(ls.afterSkip, c.stmts(ls.body.List, lc.cont))})
	} else {
		bodyT = wrap(bodyPre, c.stmts(ls.body.List, lc.cont))
	}
	var fixBody term
	if ls.cond != nil {
		var cpre []fnBind
		cond := ls.cond(&cpre)
		fixBody = wrap(cpre, tIf{cond, bodyT, lc.brk()})
	} else {
		fixBody = bodyT
	}
	c.loops = c.loops[:len(c.loops)-1]

	fixBody = simp(fixBody)
	rendered := render(fixBody, 2, false)
	{
		probe := strings.ReplaceAll(rendered, rec, "")
		var ro2 []*fnVar
		for _, x := range ro {
			if x.role == "view" && !wordIn(probe, x.name) {
				rendered = strings.ReplaceAll(rendered, rec, strings.Replace(rec, " "+x.name, "", 1))
				rec = strings.Replace(rec, " "+x.name, "", 1)
				continue
			}
			ro2 = append(ro2, x)
		}
		ro = ro2
	}
	var stTypes []string
	for _, x := range state {
		stTypes = append(stTypes, prodType(x))
	}
	stType := "unit"
	if len(stTypes) > 0 {
		stType = strings.Join(stTypes, " * ")
	}
	rtype := "res " + paren(stType)
	var extra []*fnType
	if hasRet {
		rtype = "res (ctl " + paren(stType) + " " + paren(c.retType()) + ")"
		extra = append(extra, c.fn.results...)
		for _, x := range c.retVars() {
			extra = append(extra, x.typ)
		}
	}
	all := append(append([]*fnVar{}, ro...), state...)
	var b strings.Builder
	b.WriteString("Fixpoint " + name + c.tparamsOf(all, extra...) + " (fuel gas : nat)" + binders(ro) + binders(state) + " {struct gas} : " + rtype + " :=\n")
	b.WriteString("  match gas with\n  | O => OutOfFuel\n  | S gas =>\n    " + rendered + "\n  end.\n")
	c.fix = append(c.fix, b.String())
	if c.loopDone == nil {
		c.loopDone = map[ast.Node]string{}
		c.loopInfo = map[string]*loopInfo{}
	}
	c.loopDone[ls.node] = name
	call := name + " fuel fuel"
	for _, x := range ro {
		call += " " + x.name
	}
	for _, x := range state {
		call += " " + x.name
	}
	pat := stTuple
	if len(state) == 0 {
		pat = "_"
	}
	c.loopInfo[name] = &loopInfo{call: call, pat: pat, hasRet: hasRet}
	return c.loopCall(name, k)
}

func wordIn(text, w string) bool {
	for i := 0; ; {
		j := strings.Index(text[i:], w)
		if j < 0 {
			return false
		}
		j += i
		before := j == 0 || !isIdentChar(text[j-1])
		after := j+len(w) >= len(text) || !isIdentChar(text[j+len(w)])
		if before && after {
			// the recursive call itself does not count
			return true
		}
		i = j + len(w)
	}
}

func isIdentChar(b byte) bool {
	return b == '_' || b == '\'' || b >= '0' && b <= '9' || b >= 'a' && b <= 'z' || b >= 'A' && b <= 'Z'
}

type loopInfo struct {
	call, pat string
	hasRet    bool
}

func (c *fnCtx) loopCall(name string, k func() term) term {
	li := c.loopInfo[name]
	if !li.hasRet {
		return tBind{li.pat, tRaw{li.call}, k()}
	}
	r := c.tmp()
	var ret term
	if len(c.loops) > 0 {
		ret = tOk{"Ret " + r + "_"}
	} else {
		ret = tOk{r + "_"}
	}
	pat := li.pat
	if pat == "_" {
		pat = "_"
	}
	return tBind{r, tRaw{li.call}, tMatchCtl{scrut: r, retVar: r + "_", ret: ret, nextPat: pat, next: k()}}
}
