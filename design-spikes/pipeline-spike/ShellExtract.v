Require Import ShellTable ShellModel.
Require Extraction.
Require Import ExtrOcamlBasic.
Extraction "shell_model.ml" split quote join.
