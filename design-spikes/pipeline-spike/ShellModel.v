From Coq Require Import NArith List Bool.
Import ListNotations.
Require Import ShellTable.
Open Scope N_scope.

Definition bytes := list N.

Definition state_eqb (a b : state) : bool :=
  match a, b with
  | stNone, stNone | stBreak, stBreak | stBreakQ, stBreakQ | stWord, stWord
  | stWordQ, stWordQ | stSingle, stSingle | stDouble, stDouble | stDoubleQ, stDoubleQ => true
  | _, _ => false
  end.

(* result of one Scanner.Next call *)
Inductive next_res :=
| NPanic                                         (* table lookup out of range *)
| NEmit (tok : bytes) (rest : bytes) (s : state) (* returned true from the emit action *)
| NEof (has : bool) (tok : bytes) (s : state).   (* input exhausted; has = (st <> stBreak) *)

Fixpoint scan_next (inp : bytes) (s : state) (acc : bytes) : next_res :=
  match inp with
  | [] => NEof (negb (state_eqb s stBreak)) acc s
  | c :: rest =>
    match update s (class_of c) with
    | None => NPanic
    | Some (s', a) =>
      match a with
      | push => scan_next rest s' (acc ++ [c])
      | xpush => scan_next rest s' (acc ++ [92; c])
      | emit => NEmit acc rest s'
      | drop => scan_next rest s' acc
      end
    end
  end.

Definition complete (s : state) : bool := state_eqb s stBreak || state_eqb s stWord.

(* Split: repeat Next until it returns false. fuel = length inp + 1 is always enough. *)
Fixpoint split_loop (fuel : nat) (inp : bytes) (s : state) (toks : list bytes) : option (list bytes * bool) :=
  match fuel with
  | O => None
  | S f =>
    match scan_next inp s [] with
    | NPanic => None
    | NEmit tok rest s' => split_loop f rest s' (toks ++ [tok])
    | NEof true tok s' => Some (toks ++ [tok], complete s')
    | NEof false _ s' => Some (toks, complete s')
    end
  end.

Definition split (inp : bytes) : option (list bytes * bool) :=
  split_loop (S (length inp)) inp stBreak [].

(* Quote / Join *)
Definition mem (b : N) (l : list N) : bool := existsb (N.eqb b) l.
Definition allQuote := mustQuote ++ shouldQuote ++ spaces.
Definition has_q (s : bytes) : bool := existsb (N.eqb 39) s.
Definition has_other (s : bytes) : bool := existsb (fun b => negb (N.eqb b 39) && mem b allQuote) s.

Fixpoint quote_loop (s : bytes) (inq : bool) (hasOther : bool) : bytes :=
  match s with
  | [] => if inq then [39] else []
  | ch :: rest =>
    if N.eqb ch 39 then
      (if inq then [39] else []) ++ [92; ch] ++ quote_loop rest false hasOther
    else if negb inq && hasOther then
      [39; ch] ++ quote_loop rest true hasOther
    else ch :: quote_loop rest inq hasOther
  end.

Definition quote (s : bytes) : bytes :=
  match s with
  | [] => [39; 39]
  | _ => if negb (has_q s) && negb (has_other s) then s else quote_loop s false (has_other s)
  end.

Fixpoint join (ss : list bytes) : bytes :=
  match ss with
  | [] => []
  | [s] => quote s
  | s :: rest => quote s ++ [32] ++ join rest
  end.
