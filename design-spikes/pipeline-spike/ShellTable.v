(* GENERATED from /repo/shell/shell.go by the translator. Do not edit. *)
From Coq Require Import NArith List.
Import ListNotations.
Open Scope N_scope.

Inductive state : Set := stNone | stBreak | stBreakQ | stWord | stWordQ | stSingle | stDouble | stDoubleQ.
Inductive class : Set := clOther | clBreak | clNewline | clQuote | clSingle | clDouble.
Inductive action : Set := drop | push | xpush | emit.

Definition update (s : state) (c : class) : option (state * action) :=
  match s, c with
  | stBreak, clBreak => Some (stBreak, drop)
  | stBreak, clNewline => Some (stBreak, drop)
  | stBreak, clQuote => Some (stBreakQ, drop)
  | stBreak, clSingle => Some (stSingle, drop)
  | stBreak, clDouble => Some (stDouble, drop)
  | stBreak, clOther => Some (stWord, push)
  | stBreakQ, clBreak => Some (stWord, push)
  | stBreakQ, clNewline => Some (stBreak, drop)
  | stBreakQ, clQuote => Some (stWord, push)
  | stBreakQ, clSingle => Some (stWord, push)
  | stBreakQ, clDouble => Some (stWord, push)
  | stBreakQ, clOther => Some (stWord, push)
  | stWord, clBreak => Some (stBreak, emit)
  | stWord, clNewline => Some (stBreak, emit)
  | stWord, clQuote => Some (stWordQ, drop)
  | stWord, clSingle => Some (stSingle, drop)
  | stWord, clDouble => Some (stDouble, drop)
  | stWord, clOther => Some (stWord, push)
  | stWordQ, clBreak => Some (stWord, push)
  | stWordQ, clNewline => Some (stWord, drop)
  | stWordQ, clQuote => Some (stWord, push)
  | stWordQ, clSingle => Some (stWord, push)
  | stWordQ, clDouble => Some (stWord, push)
  | stWordQ, clOther => Some (stWord, push)
  | stSingle, clBreak => Some (stSingle, push)
  | stSingle, clNewline => Some (stSingle, push)
  | stSingle, clQuote => Some (stSingle, push)
  | stSingle, clSingle => Some (stWord, drop)
  | stSingle, clDouble => Some (stSingle, push)
  | stSingle, clOther => Some (stSingle, push)
  | stDouble, clBreak => Some (stDouble, push)
  | stDouble, clNewline => Some (stDouble, push)
  | stDouble, clQuote => Some (stDoubleQ, drop)
  | stDouble, clSingle => Some (stDouble, push)
  | stDouble, clDouble => Some (stWord, drop)
  | stDouble, clOther => Some (stDouble, push)
  | stDoubleQ, clBreak => Some (stDouble, xpush)
  | stDoubleQ, clNewline => Some (stDouble, drop)
  | stDoubleQ, clQuote => Some (stDouble, push)
  | stDoubleQ, clSingle => Some (stDouble, xpush)
  | stDoubleQ, clDouble => Some (stDouble, push)
  | stDoubleQ, clOther => Some (stDouble, xpush)
  | _, _ => None
  end.

Definition class_of (b : N) : class :=
  match b with
  | 9 => clBreak
  | 10 => clNewline
  | 32 => clBreak
  | 34 => clDouble
  | 39 => clSingle
  | 92 => clQuote
  | _ => clOther
  end.

Definition mustQuote : list N := [124; 38; 59; 60; 62; 40; 41; 36; 96; 92; 34; 9; 10].

Definition shouldQuote : list N := [42; 63; 91; 35; 126; 61; 37].

Definition spaces : list N := [32; 9; 10].

(* 42 table entries, 6 class entries *)
