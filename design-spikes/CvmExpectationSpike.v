(* DESIGN SPIKE (not part of the machinery): feasibility check for C19's expectation-monad proof.
   Compiles with coqc 8.16.1, no axioms. Superseded by the real development. *)
From Coq Require Import List ZArith QArith Lia Bool.
Import ListNotations.
Open Scope Q_scope.

(* state: buffer as duplicate-free list of Z, k = number of halvings *)
Record st := { buf : list Z; k : nat }.

Definition memb (x : Z) (l : list Z) : bool := existsb (Z.eqb x) l.
Definition rem (x : Z) (l : list Z) : list Z := filter (fun y => negb (Z.eqb x y)) l.
Definition ins (x : Z) (l : list Z) : list Z := if memb x l then l else x :: l.

Section Prog.
  Variable M : Type -> Type.
  Variable ret : forall A, A -> M A.
  Variable bind : forall A B, M A -> (A -> M B) -> M B.
  Variable coin : nat -> M bool.   (* true with probability 2^-k *)
  Variable flip : M bool.          (* fair bit *)
  Arguments ret {A}. Arguments bind {A B}.

  Fixpoint halve (elts : list Z) (b : list Z) : M (list Z) :=
    match elts with
    | [] => ret b
    | e :: rest => bind flip (fun keep => halve rest (if keep then b else rem e b))
    end.

  Definition add (cap : nat) (s : st) (v : Z) : M st :=
    bind (coin (k s)) (fun pass =>
      if pass then
        let b := ins v (buf s) in
        if (cap <=? length b)%nat
        then bind (halve b b) (fun b' => ret {| buf := b'; k := S (k s) |})
        else ret {| buf := b; k := k s |}
      else ret {| buf := rem v (buf s); k := k s |}).
End Prog.

(* expectation monad *)
Definition E (A : Type) := (A -> Q) -> Q.
Definition Eret A (a : A) : E A := fun f => f a.
Definition Ebind A B (m : E A) (g : A -> E B) : E B := fun f => m (fun a => g a f).
Definition pw (n : nat) : Q := inject_Z (2 ^ Z.of_nat n).
Definition Ecoin (n : nat) : E bool := fun f => (1 / pw n) * f true + (1 - 1 / pw n) * f false.
Definition Eflip : E bool := fun f => (1#2) * f true + (1#2) * f false.

Definition Ehalve := halve E Eret Ebind Eflip.
Definition Eadd := add E Eret Ebind Ecoin Eflip.

Definition ind (a : Z) (l : list Z) : Q := if memb a l then 1 else 0.

Lemma memb_rem_other a e l : a <> e -> memb a (rem e l) = memb a l.
Proof.
  intros Hne. unfold memb, rem. induction l as [|y l IH]; simpl; [reflexivity|].
  destruct (Z.eqb_spec e y) as [->|Hey]; simpl.
  - destruct (Z.eqb_spec a y); [congruence|]. simpl. exact IH.
  - rewrite IH. reflexivity.
Qed.

Lemma memb_rem_same a l : memb a (rem a l) = false.
Proof.
  unfold memb, rem. induction l as [|y l IH]; simpl; [reflexivity|].
  destruct (Z.eqb_spec a y) as [->|Hay]; simpl; [exact IH|].
  destruct (Z.eqb_spec a y); [congruence|]. simpl. exact IH.
Qed.

(* halving: each element of elts (NoDup) present in b survives w.p. 1/2; others untouched *)
Lemma Ehalve_ind a : forall elts b c, NoDup elts ->
  Ehalve elts b (fun b' => c * ind a b') ==
  c * (if memb a elts then (1#2) * ind a b else ind a b).
Proof.
  induction elts as [|e rest IH]; intros b c Hnd.
  - cbn [Ehalve halve memb existsb]. unfold Eret. ring.
  - inversion Hnd as [|? ? Hnin Hnd']; subst.
    cbn [Ehalve halve]. unfold Ebind, Eflip. fold (Ehalve rest).
    change (halve E Eret Ebind Eflip rest) with (Ehalve rest).
    rewrite !IH by assumption.
    cbn [memb existsb].
    destruct (Z.eqb_spec a e) as [->|Hae].
    + (* a = e : not in rest *)
      assert (Hr: memb e rest = false).
      { unfold memb. apply not_true_is_false. intro Hc. apply existsb_exists in Hc.
        destruct Hc as [y [Hy Hey]]. apply Z.eqb_eq in Hey. subst. contradiction. }
      rewrite Hr. cbn [orb]. unfold ind. rewrite memb_rem_same. destruct (memb e b). ring. ring.
    + cbn [orb]. unfold ind. rewrite memb_rem_other by assumption.
      change (existsb (Z.eqb a) rest) with (memb a rest).
      destruct (memb a rest); destruct (memb a b); ring.
Qed.

Print Assumptions Ehalve_ind.
