(* DESIGN SPIKE (not part of the machinery): feasibility check for C02's DSW balance lemma,
   stated on lists of left-subtree heights along the right spine. Compiles with coqc 8.16.1. *)
From Coq Require Import List Arith Lia PeanoNat.
Import ListNotations.

(* heights in "levels": Leaf = 0, Node = 1 + max *)
Fixpoint H (l : list nat) : nat :=
  match l with [] => 0 | h :: rest => 1 + Nat.max h (H rest) end.

Fixpoint compress (c : nat) (l : list nat) : list nat :=
  match c, l with
  | S c', a :: b :: rest => (1 + Nat.max a b) :: compress c' rest
  | _, _ => l
  end.

Fixpoint passes (fuel left : nat) (l : list nat) : list nat :=
  match fuel with
  | 0 => l
  | S f => if 1 <? left then passes f (left / 2) (compress (left / 2) l) else l
  end.

Inductive TailOK (d : nat) : nat -> list nat -> Prop :=
| TailNil : TailOK d 0 []
| TailCons j x t : x <= j + d -> TailOK d j t -> TailOK d (S j) (x :: t).

Lemma compress_app m : forall l1 l2, length l1 = 2 * m -> 
  compress m (l1 ++ l2) = compress m l1 ++ l2.
Proof.
  induction m as [|m IH]; intros l1 l2 Hl.
  - destruct l1; simpl in *; [reflexivity|lia].
  - destruct l1 as [|a [|b l1]]; simpl in Hl; try lia.
    simpl. f_equal. apply IH. lia.
Qed.

Lemma compress_len m : forall l, length l = 2 * m -> length (compress m l) = m.
Proof.
  induction m as [|m IH]; intros l Hl.
  - destruct l; simpl in *; [reflexivity|lia].
  - destruct l as [|a [|b l]]; simpl in Hl; try lia. simpl. f_equal. apply IH. lia.
Qed.

Lemma compress_bound m : forall l B, length l = 2 * m -> Forall (fun x => x <= B) l ->
  Forall (fun x => x <= S B) (compress m l).
Proof.
  induction m as [|m IH]; intros l B Hl HB.
  - destruct l; simpl in *; [constructor|lia].
  - destruct l as [|a [|b l]]; simpl in Hl; try lia.
    inversion HB as [|? ? Ha HB']; subst. inversion HB' as [|? ? Hb HB'']; subst.
    simpl. constructor; [lia|]. apply IH; [lia|assumption].
Qed.

Lemma H_tail d : forall j t, TailOK d j t -> H t <= j + d.
Proof.
  intros j t Ht. induction Ht as [|j x t Hx Ht IH]; simpl; lia.
Qed.

(* Main invariant: l = front ++ tail, |front| = 2^r - 1, front <= j + d, tail ok for j *)
Lemma passes_inv d : forall r fuel j front tail,
  r >= 1 -> fuel >= r ->
  length front = 2 ^ r - 1 ->
  Forall (fun x => x <= j + d) front ->
  TailOK d j tail ->
  H (passes fuel (2 ^ r - 1) (front ++ tail)) <= r + j + d.
Proof.
  induction r as [|r IH]; intros fuel j front tail Hr Hf Hlen Hfr Ht; [lia|].
  destruct fuel as [|fuel]; [lia|].
  destruct (Nat.eq_dec r 0) as [->|Hr0].
  - (* front has exactly 1 element; left = 1: loop ends *)
    simpl in Hlen. destruct front as [|f0 [|? ?]]; simpl in Hlen; try lia.
    cbn [passes]. replace (2 ^ 1 - 1) with 1 by reflexivity.
    change (1 <? 1) with false. cbv iota. change ([f0] ++ tail) with (f0 :: tail).
    change (H (f0 :: tail)) with (1 + Nat.max f0 (H tail)).
    inversion Hfr as [|? ? Hf0 ?]; subst. pose proof (H_tail _ _ _ Ht) as HT. simpl in Hf0. clear - Hf0 HT. lia.
  - assert (Hpow: 2 ^ S r - 1 = 2 * (2 ^ r - 1) + 1).
    { rewrite Nat.pow_succ_r'. assert (2 ^ r >= 1) by (apply Nat.neq_0_lt_0, Nat.pow_nonzero; lia). lia. }
    assert (Hgt: 1 <? 2 ^ S r - 1 = true).
    { apply Nat.ltb_lt. rewrite Hpow. assert (2 ^ r >= 2).
      { destruct r; [lia|]. rewrite Nat.pow_succ_r'. assert (2 ^ r >= 1) by (apply Nat.neq_0_lt_0, Nat.pow_nonzero; lia). lia. } lia. }
    cbn [passes]. rewrite Hgt.
    assert (Hdiv: (2 ^ S r - 1) / 2 = 2 ^ r - 1).
    { rewrite Hpow. rewrite Nat.add_comm, Nat.mul_comm, Nat.div_add by lia. reflexivity. }
    rewrite Hdiv. rewrite Hpow in Hlen.
    set (m := 2 ^ r - 1) in *.
    (* split front into first 2m elements and last *)
    assert (Hsplit: exists f1 x, front = f1 ++ [x] /\ length f1 = 2 * m).
    { destruct (exists_last (l:=front)) as [f1 [x Hx]].
      - intro; subst; cbn [length] in Hlen; lia.
      - exists f1, x. split; [assumption|]. subst front. rewrite app_length in Hlen. cbn [length] in Hlen. lia. }
    destruct Hsplit as [f1 [x [-> Hl1]]].
    rewrite <- app_assoc. rewrite compress_app by assumption.
    apply Forall_app in Hfr. destruct Hfr as [Hf1 Hx]. inversion Hx; subst.
    replace (S r + j + d) with (r + S j + d) by lia.
    apply IH.
    + lia.
    + lia.
    + apply compress_len; assumption.
    + replace (S j + d) with (S (j + d)) by lia. apply compress_bound; assumption.
    + simpl. constructor; [lia|assumption].
Qed.

Print Assumptions passes_inv.
