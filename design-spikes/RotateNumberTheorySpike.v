(* DESIGN SPIKE (not part of the machinery): the number theory behind slice.Rotate's gcd cycle chasing (C17):
   the step map is injective, preserves residues mod gcd, has a closed form, and every position is reached
   from the representative of its class (Bezout). Compiles with coqc 8.16.1, no axioms. *)
From Coq Require Import ZArith Znumtheory Lia List Arith.
Import ListNotations.
Open Scope Z_scope.

(* Number theory behind slice.Rotate's cycle chasing, in Z. *)
Section NT.
Variables n k : Z.
Hypothesis Hn : 0 < n.
Hypothesis Hk : 0 <= k.
Let g := Z.gcd k n.
Definition phi (i : Z) : Z := (i + k) mod n.

Lemma g_pos : 0 < g.
Proof.
  unfold g. pose proof (Z.gcd_nonneg k n) as H.
  assert (Z.gcd k n <> 0). { intro E. apply Z.gcd_eq_0_r in E. lia. } lia.
Qed.

Lemma phi_range i : 0 <= phi i < n.
Proof. unfold phi. apply Z.mod_pos_bound. exact Hn. Qed.

Lemma phi_inj i i' : 0 <= i < n -> 0 <= i' < n -> phi i = phi i' -> i = i'.
Proof.
  unfold phi. intros Hi Hi' E.
  assert (D: ((i + k) - (i' + k)) mod n = 0).
  { rewrite Zminus_mod, E, Z.sub_diag. apply Z.mod_0_l. lia. }
  replace (i + k - (i' + k)) with (i - i') in D by lia.
  apply Z.mod_divide in D; [|lia]. destruct D as [c Hc].
  assert (c = 0) by nia. subst c. lia.
Qed.

Lemma phi_class i : (phi i) mod g = i mod g.
Proof.
  unfold phi. pose proof g_pos as Hg.
  rewrite <- Zmod_div_mod; [| exact Hg | exact Hn | unfold g; apply Z.gcd_divide_r ].
  destruct (Z.gcd_divide_l k n) as [c Hc]. fold g in Hc.
  rewrite Hc at 1. rewrite Z.mod_add by lia. reflexivity.
Qed.

(* iterate *)
Fixpoint iter (m : nat) (i : Z) : Z := match m with O => i | S m' => phi (iter m' i) end.

Lemma iter_closed m i : 0 <= i < n -> (iter m i = (i + Z.of_nat m * k) mod n).
Proof.
  intros Hi. induction m as [|m IH].
  - simpl. rewrite Z.add_0_r. symmetry. apply Z.mod_small. exact Hi.
  - cbn [iter]. rewrite IH. unfold phi. rewrite Zplus_mod_idemp_l. f_equal. lia.
Qed.

(* coverage: every position is reached from the representative of its class *)
Lemma coverage q : 0 <= q < n -> exists m : nat, iter m (q mod g) = q.
Proof.
  intros Hq. pose proof g_pos as Hg.
  destruct (Z.gcd_bezout k n g eq_refl) as [u [v Huv]].
  set (t := q / g). set (r := q mod g).
  assert (Hqr: q = r + t * g) by (unfold r, t; rewrite (Z.div_mod q g) at 1 by lia; lia).
  set (m := (t * u) mod n).
  assert (Hm: 0 <= m < n) by (apply Z.mod_pos_bound; exact Hn).
  exists (Z.to_nat m).
  assert (Hr: 0 <= r < n).
  { unfold r. pose proof (Z.mod_pos_bound q g Hg). destruct (Z.gcd_divide_r k n) as [c Hc]. fold g in Hc.
    assert (g <= n). { assert (0 < c) by nia. nia. } lia. }
  rewrite iter_closed by exact Hr. rewrite Z2Nat.id by lia.
  unfold m. rewrite <- Zplus_mod_idemp_r. rewrite Zmult_mod_idemp_l. rewrite Zplus_mod_idemp_r.
  replace (r + t * u * k) with (q + (- (t * v)) * n) by (rewrite Hqr at 1; rewrite <- Huv; ring).
  rewrite Z.mod_add by lia. apply Z.mod_small. exact Hq.
Qed.
End NT.
Print Assumptions coverage.
