(* The naive definitions the mbits functions are compared with (C20).  Definitions only. *)
From Coq Require Import ZArith List Bool.
Import ListNotations.
Local Open Scope Z_scope.

(* the bytes of the slice mem[off : off+n] *)
Definition window (m : list Z) (off n : Z) : list Z :=
  firstn (Z.to_nat n) (skipn (Z.to_nat off) m).

(* number of leading zero bytes, byte by byte *)
Fixpoint count_leading (w : list Z) : Z :=
  match w with
  | b :: t => if b =? 0 then 1 + count_leading t else 0
  | [] => 0
  end.

(* number of trailing zero bytes: the leading zeros of the reversed slice *)
Definition count_trailing (w : list Z) : Z := count_leading (rev w).

(* memory after clearing exactly the window: everything before off and from off+n on is kept *)
Definition cleared (m : list Z) (off n : Z) : list Z :=
  firstn (Z.to_nat off) m ++ repeat 0 (Z.to_nat n) ++ skipn (Z.to_nat (off + n)) m.

(* a memory of bytes, and a slice that lies inside it *)
Definition bytes_ok (m : list Z) : Prop := Forall (fun b => 0 <= b < 256) m.
Definition slice_ok (m : list Z) (off n : Z) : Prop :=
  0 <= off /\ 0 <= n /\ off + n <= Z.of_nat (length m).
