(* Shared by the mbits and mstr models (C20): results with explicit failure modes, bounds-checked
   byte access, and the rendering of Go's short-circuit `guard && test(s[i])` conditions.
   Definitions only. *)
From Coq Require Import ZArith List Bool.
Import ListNotations.
Local Open Scope Z_scope.

(* PanicIndex : a Go bounds check failed (index or slice expression out of range).
   Fault      : an unsafe (unchecked) access touched memory outside the slice it was derived from.
   OutOfFuel  : a loop did not finish within its fuel (never a normal-looking default). *)
Inductive res (A : Type) : Type :=
| Ok (a : A)
| PanicIndex
| Fault
| OutOfFuel.
Arguments Ok {A} a.
Arguments PanicIndex {A}.
Arguments Fault {A}.
Arguments OutOfFuel {A}.

Definition bind {A B : Type} (r : res A) (k : A -> res B) : res B :=
  match r with
  | Ok a => k a
  | PanicIndex => PanicIndex
  | Fault => Fault
  | OutOfFuel => OutOfFuel
  end.

Definition zlen {A : Type} (l : list A) : Z := Z.of_nat (length l).

(* s[i] on a string / slice of length len s: bounds-checked *)
Definition str_at (s : list Z) (i : Z) : res Z :=
  if (0 <=? i) && (i <? zlen s) then
    match nth_error s (Z.to_nat i) with Some c => Ok c | None => PanicIndex end
  else PanicIndex.

(* s[:hi] and s[lo:] *)
Definition slice_to (s : list Z) (hi : Z) : res (list Z) :=
  if (0 <=? hi) && (hi <=? zlen s) then Ok (firstn (Z.to_nat hi) s) else PanicIndex.
Definition slice_from (s : list Z) (lo : Z) : res (list Z) :=
  if (0 <=? lo) && (lo <=? zlen s) then Ok (skipn (Z.to_nat lo) s) else PanicIndex.

(* A Go condition `guard && test(s[idx])` is extracted by the translator as one boolean function
   [f] of the byte read.  Go evaluates s[idx] only when the guard lets it; the model renders that
   as: if the read is in range, the condition is [f c]; if the read would be out of range, the
   byte is needed exactly when the condition could still be true for some byte ([could], the
   disjunction of [f] over one probe per class of bytes the test distinguishes) -- then Go
   panics -- and otherwise the condition is false without the read. *)
Definition cond_res (rd : res Z) (f : Z -> bool) (could : bool) : res bool :=
  match rd with
  | Ok c => Ok (f c)
  | PanicIndex => if could then PanicIndex else Ok false
  | Fault => Fault
  | OutOfFuel => OutOfFuel
  end.
