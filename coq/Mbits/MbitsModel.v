(* Model of mbits/mbits.go: Zero, LeadingZeroes, TrailingZeroes.
   Memory is a list of bytes; the slice handed to the function is the window [off, off+n) of it.
   data[i] is a bounds-checked byte access at window index i (Go panics outside 0 <= i < n);
   the uint64 access through unsafe.Pointer(&data[i]) is the bounds check of data[i] followed by an UNCHECKED
   8-byte access at off+i .. off+i+7: when it is not wholly inside the window the model returns
   the distinguished result [Fault].  Index arithmetic, loop conditions, strides and stored
   values all come from Gen/MbitsIdx.v (regenerated from the Go source on every run).
   Definitions only. *)
From Coq Require Import ZArith List Bool.
Import ListNotations.
From Mds Require Import Gen.MbitsIdx Mbits.BytesBase.
Local Open Scope Z_scope.

Definition mem := list Z.

Definition in_window (n i : Z) : bool := (0 <=? i) && (i <? n).

(* little-endian value of a list of bytes, and back *)
Fixpoint le_word (bs : list Z) : Z :=
  match bs with
  | [] => 0
  | b :: t => b + 256 * le_word t
  end.
Fixpoint le_bytes (cnt : nat) (v : Z) : list Z :=
  match cnt with
  | O => []
  | S c => (v mod 256) :: le_bytes c (v / 256)
  end.

(* data[i] (load) *)
Definition rd_byte (m : mem) (off n i : Z) : res Z :=
  if in_window n i then
    match nth_error m (Z.to_nat (off + i)) with Some b => Ok b | None => Fault end
  else PanicIndex.

(* data[i] = v *)
Definition wr_byte (m : mem) (off n i v : Z) : res mem :=
  if in_window n i then
    let k := Z.to_nat (off + i) in
    if (k <? length m)%nat then Ok (firstn k m ++ v :: skipn (S k) m) else Fault
  else PanicIndex.

(* does the 8-byte access at window index i stay inside the window? *)
Definition word_inside (n i : Z) : bool := (0 <=? i) && (i + 8 <=? n).

(* the uint64 access through unsafe.Pointer(&data[i]) (load) *)
Definition rd_word (m : mem) (off n i : Z) : res Z :=
  if in_window n i then
    if word_inside n i then
      let bs := firstn 8 (skipn (Z.to_nat (off + i)) m) in
      if (length bs =? 8)%nat then Ok (le_word bs) else Fault
    else Fault
  else PanicIndex.

(* the uint64 access through unsafe.Pointer(&data[i]) = v *)
Definition wr_word (m : mem) (off n i v : Z) : res mem :=
  if in_window n i then
    if word_inside n i then
      let k := Z.to_nat (off + i) in
      if (k + 8 <=? length m)%nat then Ok (firstn k m ++ le_bytes 8 v ++ skipn (k + 8) m) else Fault
    else Fault
  else PanicIndex.

(* ---------------------------------------------------------------- Zero *)

(* for ; i < m; i += 8 { store64(&data[i], 0) } *)
Fixpoint zero_words (fuel : nat) (mm : mem) (off n m i : Z) : res (mem * Z) :=
  match fuel with
  | O => OutOfFuel
  | S f =>
    if zero_for0 i m then
      bind (wr_word mm off n (zero_widx i) zero_wval) (fun mm' =>
      zero_words f mm' off n m (zero_step0 i))
    else Ok (mm, i)
  end.

(* for ; i < n; i++ { data[i] = 0 } *)
Fixpoint zero_bytes (fuel : nat) (mm : mem) (off n i : Z) : res (mem * Z) :=
  match fuel with
  | O => OutOfFuel
  | S f =>
    if zero_for1 i n then
      bind (wr_byte mm off n (zero_bidx i) zero_bval) (fun mm' =>
      zero_bytes f mm' off n (zero_step1 i))
    else Ok (mm, i)
  end.

Definition loop_fuel (n : Z) : nat := S (S (Z.to_nat n)).

(* Zero(data) with data = mem[off : off+n]; returns the new memory and the result *)
Definition zero (mm : mem) (off n : Z) : res (mem * Z) :=
  let m := zero_m n in
  bind (zero_words (loop_fuel n) mm off n m zero_i0) (fun '(mm1, i) =>
  bind (zero_bytes (loop_fuel n) mm1 off n i) (fun '(mm2, _) =>
  Ok (mm2, zero_ret n))).

(* ---------------------------------------------------------------- LeadingZeroes *)

(* for data[i] == 0 { i++ }; return i *)
Fixpoint lz_scan (fuel : nat) (mm : mem) (off n i : Z) : res Z :=
  match fuel with
  | O => OutOfFuel
  | S f =>
    bind (rd_byte mm off n (lz_scan_idx i)) (fun c =>
    if lz_scan_cond c then lz_scan f mm off n (lz_scan_step i) else Ok (lz_ret0 i))
  end.

(* the word loop: inl r = returned r from inside the loop; inr i = fell out of the loop at i *)
Fixpoint lz_words (fuel : nat) (mm : mem) (off n m i : Z) : res (Z + Z) :=
  match fuel with
  | O => OutOfFuel
  | S f =>
    if lz_for0 i m then
      bind (rd_word mm off n (lz_widx i)) (fun v =>
      if lz_nz v then bind (lz_scan (loop_fuel n) mm off n i) (fun r => Ok (inl r))
      else lz_words f mm off n m (lz_step0 i))
    else Ok (inr i)
  end.

(* for i < n && data[i] == 0 { i++ }; return i *)
Fixpoint lz_tail (fuel : nat) (mm : mem) (off n i : Z) : res Z :=
  match fuel with
  | O => OutOfFuel
  | S f =>
    bind (cond_res (rd_byte mm off n (lz_tail_idx i)) (lz_tail_cond i n)
                   (lz_tail_cond i n 0 || lz_tail_cond i n 1)) (fun b =>
    if b then lz_tail f mm off n (lz_tail_step i) else Ok (lz_ret1 i))
  end.

Definition leading_zeroes (mm : mem) (off n : Z) : res Z :=
  let m := lz_m n in
  bind (lz_words (loop_fuel n) mm off n m 0) (fun r =>
  match r with
  | inl x => Ok x
  | inr i => lz_tail (loop_fuel n) mm off n i
  end).

(* ---------------------------------------------------------------- TrailingZeroes *)

(* for data[i+7] == 0 { i--; nz++ }; return nz *)
Fixpoint tz_scan (fuel : nat) (mm : mem) (off n i nz : Z) : res Z :=
  match fuel with
  | O => OutOfFuel
  | S f =>
    bind (rd_byte mm off n (tz_scan_idx i)) (fun c =>
    if tz_scan_cond c then tz_scan f mm off n (tz_scan_i i) (tz_scan_nz nz) else Ok (tz_ret0 nz))
  end.

(* for ; i >= m; i -= 8 { ... }: inl r = returned r; inr nz = fell out with nz *)
Fixpoint tz_words (fuel : nat) (mm : mem) (off n m i nz : Z) : res (Z + Z) :=
  match fuel with
  | O => OutOfFuel
  | S f =>
    if tz_for0 i m then
      bind (rd_word mm off n (tz_widx i)) (fun v =>
      if tz_nzword v then bind (tz_scan (loop_fuel n) mm off n i nz) (fun r => Ok (inl r))
      else tz_words f mm off n m (tz_step0 i) (tz_word_nz nz))
    else Ok (inr nz)
  end.

(* for m--; m >= 0 && data[m] == 0; m-- { nz++ }; return nz   (entered after the initial m--) *)
Fixpoint tz_tail (fuel : nat) (mm : mem) (off n m nz : Z) : res Z :=
  match fuel with
  | O => OutOfFuel
  | S f =>
    bind (cond_res (rd_byte mm off n (tz_tail_idx m)) (tz_tail_cond m)
                   (tz_tail_cond m 0 || tz_tail_cond m 1)) (fun b =>
    if b then tz_tail f mm off n (tz_tail_post m) (tz_tail_nz nz) else Ok (tz_ret1 nz))
  end.

Definition trailing_zeroes (mm : mem) (off n : Z) : res Z :=
  let m := tz_m n in
  bind (tz_words (loop_fuel n) mm off n m (tz_i0 n) tz_nz0) (fun r =>
  match r with
  | inl x => Ok x
  | inr nz => tz_tail (loop_fuel n) mm off n (tz_tail_init m) nz
  end).
