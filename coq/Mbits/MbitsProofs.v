(* Proofs about the model of mbits (C20). *)
From Coq Require Import ZArith List Bool Lia.
Import ListNotations.
From Mds Require Import Gen.MbitsIdx Mbits.BytesBase Mbits.MbitsModel Mbits.MbitsSpec.
Local Open Scope Z_scope.

(* ---------------------------------------------------------------- arithmetic of n &^ 7 *)

Lemma ldiff7 : forall n, 0 <= n -> Z.ldiff n 7 = 8 * (n / 8).
Proof.
  intros n Hn. change 7 with (Z.ones 3).
  rewrite Z.ldiff_ones_r by lia.
  rewrite Z.shiftl_mul_pow2, Z.shiftr_div_pow2 by lia.
  change (2 ^ 3) with 8. lia.
Qed.

Lemma ldiff7_bounds : forall n, 0 <= n -> exists q, Z.ldiff n 7 = 8 * q /\ 0 <= q /\ 8 * q <= n < 8 * q + 8.
Proof.
  intros n Hn. exists (n / 8). rewrite ldiff7 by lia.
  pose proof (Z.div_mod n 8 ltac:(lia)). pose proof (Z.mod_pos_bound n 8 ltac:(lia)).
  split; [reflexivity|]. split; [apply Z.div_pos; lia|]. lia.
Qed.

(* ---------------------------------------------------------------- list helpers *)

Lemma firstn_app_exact : forall (A : Type) (a b : list A) k, length a = k -> firstn k (a ++ b) = a.
Proof.
  intros A a b k <-. rewrite firstn_app, Nat.sub_diag, firstn_all. cbn. apply app_nil_r.
Qed.

Lemma skipn_app_exact : forall (A : Type) (a b : list A) k, length a = k -> skipn k (a ++ b) = b.
Proof.
  intros A a b k <-. rewrite skipn_app, Nat.sub_diag, skipn_all. reflexivity.
Qed.

Lemma skipn_skipn : forall (A : Type) (x y : nat) (l : list A), skipn x (skipn y l) = skipn (x + y) l.
Proof.
  intros A x y. induction y as [|y IH]; intros l.
  - rewrite Nat.add_0_r. reflexivity.
  - rewrite Nat.add_succ_r. destruct l; [rewrite !skipn_nil; reflexivity|]. cbn [skipn]. apply IH.
Qed.

Lemma In_firstn : forall (A : Type) (x : A) k l, In x (firstn k l) -> In x l.
Proof.
  intros A x k. induction k as [|k IH]; intros l H; [destruct H|].
  destruct l as [|a l]; [destruct H|]. cbn [firstn] in H. destruct H as [->|H]; [left; reflexivity|right; apply IH, H].
Qed.

Lemma In_skipn : forall (A : Type) (x : A) k l, In x (skipn k l) -> In x l.
Proof.
  intros A x k l H. rewrite <- (firstn_skipn k l). apply in_or_app. right. exact H.
Qed.

Lemma skipn_nth_cons : forall (l : list Z) k, (k < length l)%nat -> skipn k l = nth k l 0 :: skipn (S k) l.
Proof.
  induction l as [|a l IH]; intros k Hk; cbn [length] in Hk; [lia|].
  destruct k; [reflexivity|]. cbn [skipn nth]. apply IH. lia.
Qed.

Lemma repeat_app_plus : forall (A : Type) (x : A) a b, repeat x a ++ repeat x b = repeat x (a + b).
Proof. intros. symmetry. apply repeat_app. Qed.

Lemma nth_error_app_exact : forall (A : Type) (a b : list A) k x, length a = k -> nth_error (a ++ x :: b) k = Some x.
Proof.
  intros A a b k x <-. rewrite nth_error_app2 by lia. rewrite Nat.sub_diag. reflexivity.
Qed.

(* ---------------------------------------------------------------- Zero *)

Section ZeroProof.
  Variables (pre post : list Z) (off n : Z).
  Hypothesis Hoff : Z.of_nat (length pre) = off.

  (* memory while clearing: i bytes done, [todo] still to do *)
  Definition zstate (i : Z) (todo : list Z) : list Z :=
    pre ++ repeat 0 (Z.to_nat i) ++ todo ++ post.

  Lemma zstate_length : forall i todo,
    length (zstate i todo) = (length pre + Z.to_nat i + length todo + length post)%nat.
  Proof. intros. unfold zstate. rewrite !app_length, repeat_length. lia. Qed.

  Lemma wr_word_step : forall i todo,
    0 <= i -> i + 8 <= n -> Z.of_nat (length todo) = n - i ->
    wr_word (zstate i todo) off n i 0 = Ok (zstate (i + 8) (skipn 8 todo)).
  Proof.
    intros i todo Hi Hin Hlen. unfold wr_word, in_window, word_inside.
    replace ((0 <=? i) && (i <? n)) with true by (symmetry; apply andb_true_intro; split; [apply Z.leb_le|apply Z.ltb_lt]; lia).
    replace ((0 <=? i) && (i + 8 <=? n)) with true by (symmetry; apply andb_true_intro; split; apply Z.leb_le; lia).
    assert (Hk : Z.to_nat (off + i) = (length pre + Z.to_nat i)%nat) by lia.
    rewrite Hk.
    assert (Hl8 : (8 <= length todo)%nat) by lia.
    assert (Hle : (length pre + Z.to_nat i + 8 <= length (zstate i todo))%nat) by (rewrite zstate_length; lia).
    apply Nat.leb_le in Hle. rewrite Hle. unfold zstate.
    f_equal.
    rewrite (app_assoc pre (repeat 0 (Z.to_nat i))).
    rewrite firstn_app_exact by (rewrite app_length, repeat_length; lia).
    replace (length pre + Z.to_nat i + 8)%nat with (8 + (length pre + Z.to_nat i))%nat by lia.
    rewrite <- skipn_skipn.
    rewrite skipn_app_exact by (rewrite app_length, repeat_length; lia).
    rewrite skipn_app. replace (8 - length todo)%nat with 0%nat by lia. cbn [skipn].
    change (le_bytes 8 0) with (repeat 0 8).
    rewrite <- app_assoc. f_equal.
    rewrite (app_assoc (repeat 0 (Z.to_nat i))). rewrite repeat_app_plus.
    replace (Z.to_nat (i + 8)) with (Z.to_nat i + 8)%nat by lia. reflexivity.
  Qed.

  Lemma wr_byte_step : forall i b todo,
    0 <= i -> Z.of_nat (length (b :: todo)) = n - i ->
    wr_byte (zstate i (b :: todo)) off n i 0 = Ok (zstate (i + 1) todo).
  Proof.
    intros i b todo Hi Hlen. cbn [length] in Hlen. unfold wr_byte, in_window.
    replace ((0 <=? i) && (i <? n)) with true by (symmetry; apply andb_true_intro; split; [apply Z.leb_le|apply Z.ltb_lt]; lia).
    assert (Hk : Z.to_nat (off + i) = (length pre + Z.to_nat i)%nat) by lia.
    rewrite Hk.
    assert (Hle : (length pre + Z.to_nat i < length (zstate i (b :: todo)))%nat) by (rewrite zstate_length; cbn [length]; lia).
    apply Nat.ltb_lt in Hle. rewrite Hle. unfold zstate.
    f_equal.
    rewrite (app_assoc pre (repeat 0 (Z.to_nat i))).
    rewrite firstn_app_exact by (rewrite app_length, repeat_length; lia).
    replace (S (length pre + Z.to_nat i)) with (1 + (length pre + Z.to_nat i))%nat by lia.
    rewrite <- skipn_skipn.
    rewrite skipn_app_exact by (rewrite app_length, repeat_length; lia).
    cbn [app skipn].
    rewrite <- app_assoc. f_equal.
    replace (Z.to_nat (i + 1)) with (Z.to_nat i + 1)%nat by lia.
    rewrite <- repeat_app_plus. rewrite <- app_assoc. reflexivity.
  Qed.

  (* the word loop, from a multiple of 8 up to m = 8 q <= n *)
  Lemma zero_words_run : forall fuel k q todo,
    0 <= k <= q -> 8 * q <= n -> Z.of_nat (length todo) = n - 8 * k ->
    (Z.to_nat (q - k) < fuel)%nat ->
    zero_words fuel (zstate (8 * k) todo) off n (8 * q) (8 * k)
    = Ok (zstate (8 * q) (skipn (Z.to_nat (8 * (q - k))) todo), 8 * q).
  Proof.
    induction fuel as [|f IH]; intros k q todo Hk Hq Hlen Hf; [lia|].
    cbn [zero_words]. unfold zero_for0, zero_widx, zero_wval, zero_step0.
    destruct (8 * k <? 8 * q) eqn:Hlt.
    - apply Z.ltb_lt in Hlt.
      rewrite wr_word_step by lia. cbn [bind].
      replace (8 * k + 8) with (8 * (k + 1)) by lia.
      rewrite IH; try lia.
      + rewrite skipn_skipn.
        replace (Z.to_nat (8 * (q - (k + 1))) + 8)%nat with (Z.to_nat (8 * (q - k))) by lia. reflexivity.
      + rewrite skipn_length. lia.
    - apply Z.ltb_ge in Hlt. assert (k = q) by lia. subst k.
      replace (8 * (q - q)) with 0 by lia. reflexivity.
  Qed.

  (* the byte loop *)
  Lemma zero_bytes_run : forall fuel i todo,
    0 <= i -> Z.of_nat (length todo) = n - i -> (length todo < fuel)%nat ->
    zero_bytes fuel (zstate i todo) off n i = Ok (zstate n [], n).
  Proof.
    induction fuel as [|f IH]; intros i todo Hi Hlen Hf; [lia|].
    cbn [zero_bytes]. unfold zero_for1, zero_bidx, zero_bval, zero_step1.
    destruct (i <? n) eqn:Hlt.
    - apply Z.ltb_lt in Hlt. destruct todo as [|b todo]; [cbn [length] in Hlen; lia|].
      rewrite wr_byte_step by assumption. cbn [bind].
      apply IH; cbn [length] in *; lia.
    - apply Z.ltb_ge in Hlt. destruct todo as [|b todo]; [|cbn [length] in Hlen; lia].
      cbn [length] in Hlen. replace i with n by lia. reflexivity.
  Qed.
End ZeroProof.

Lemma slice_split : forall m off n, slice_ok m off n ->
  exists pre win post, m = pre ++ win ++ post /\ Z.of_nat (length pre) = off /\ Z.of_nat (length win) = n
    /\ window m off n = win
    /\ cleared m off n = pre ++ repeat 0 (Z.to_nat n) ++ post.
Proof.
  intros m off n (Ho & Hn & Hl).
  exists (firstn (Z.to_nat off) m), (firstn (Z.to_nat n) (skipn (Z.to_nat off) m)),
         (skipn (Z.to_nat n) (skipn (Z.to_nat off) m)).
  split; [rewrite firstn_skipn, firstn_skipn; reflexivity|].
  split; [rewrite firstn_length; lia|].
  split; [rewrite firstn_length, skipn_length; lia|].
  split; [reflexivity|].
  unfold cleared. rewrite skipn_skipn. do 3 f_equal. lia.
Qed.

(* Zero clears exactly the window, keeps everything else, returns n; no access outside the
   window (the result is not Fault), no panic, for every memory, offset and length. *)
Theorem zero_correct : forall m off n, slice_ok m off n ->
  zero m off n = Ok (cleared m off n, n).
Proof.
  intros m off n Hs. destruct (slice_split m off n Hs) as (pre & win & post & Hm & Hpre & Hwin & _ & Hc).
  destruct Hs as (Ho & Hn & Hl).
  unfold zero, zero_m, zero_i0, zero_ret.
  destruct (ldiff7_bounds n Hn) as (q & Hq & Hq0 & Hqn). rewrite Hq.
  assert (Hst : m = zstate pre post (8 * 0) win) by (unfold zstate; cbn; exact Hm).
  rewrite Hst at 1. change 0 with (8 * 0) at 2.
  rewrite (zero_words_run pre post off n Hpre) by (unfold loop_fuel; lia).
  cbn [bind].
  rewrite (zero_bytes_run pre post off n Hpre); try lia.
  - cbn [bind]. rewrite Hc. unfold zstate. cbn [app]. reflexivity.
  - rewrite skipn_length. lia.
  - rewrite skipn_length. unfold loop_fuel. lia.
Qed.

(* ---------------------------------------------------------------- words and counts *)

Lemma le_word_nonneg : forall bs, Forall (fun b => 0 <= b) bs -> 0 <= le_word bs.
Proof. induction 1; cbn [le_word]; lia. Qed.

Lemma le_word_zero : forall bs, Forall (fun b => 0 <= b) bs -> (le_word bs = 0 <-> Forall (fun b => b = 0) bs).
Proof.
  induction 1 as [|b t Hb Ht IH]; cbn [le_word].
  - split; [constructor | reflexivity].
  - pose proof (le_word_nonneg t Ht). split.
    + intros H0. constructor; [lia|]. apply IH. lia.
    + intros Hz. inversion Hz; subst. apply IH in H3. lia.
Qed.

Lemma count_leading_nonneg : forall w, 0 <= count_leading w.
Proof. induction w as [|b t IH]; cbn [count_leading]; [lia|]. destruct (b =? 0); lia. Qed.

Lemma cl_app_zeros : forall x l, Forall (fun b => b = 0) x ->
  count_leading (x ++ l) = Z.of_nat (length x) + count_leading l.
Proof.
  induction 1 as [|b t Hb Ht IH]; [cbn; lia|]. subst b. cbn [app count_leading length].
  change (0 =? 0) with true. cbv iota. rewrite IH. lia.
Qed.

Lemma cl_app_nz : forall x l, ~ Forall (fun b => b = 0) x ->
  count_leading (x ++ l) < Z.of_nat (length x).
Proof.
  induction x as [|b t IH]; intros l Hn; [exfalso; apply Hn; constructor|].
  cbn [app count_leading length]. destruct (b =? 0) eqn:Hb; [|lia].
  apply Z.eqb_eq in Hb. assert (~ Forall (fun b => b = 0) t) by (intros Hf; apply Hn; constructor; assumption).
  specialize (IH l H). lia.
Qed.

Lemma cl_app_nz_eq : forall x l l', ~ Forall (fun b => b = 0) x ->
  count_leading (x ++ l) = count_leading (x ++ l').
Proof.
  induction x as [|b t IH]; intros l l' Hn; [exfalso; apply Hn; constructor|].
  cbn [app count_leading]. destruct (b =? 0) eqn:Hb; [|reflexivity].
  apply Z.eqb_eq in Hb. f_equal. apply IH. intros Hf; apply Hn; constructor; assumption.
Qed.

Lemma Forall_zero_rev : forall x, Forall (fun b : Z => b = 0) x <-> Forall (fun b => b = 0) (rev x).
Proof.
  intros x. rewrite !Forall_forall. split; intros H b Hb; apply H; [apply in_rev|apply in_rev in Hb]; assumption.
Qed.

(* ---------------------------------------------------------------- reads inside the window *)

Section Reads.
  Variables (m : list Z) (off n : Z).
  Hypothesis Hs : slice_ok m off n.
  Hypothesis Hb : bytes_ok m.
  Let w := window m off n.

  Definition sk (i : Z) : list Z := skipn (Z.to_nat i) w.
  Definition pf (j : Z) : list Z := firstn (Z.to_nat j) w.

  Lemma w_length : Z.of_nat (length w) = n.
  Proof. destruct (slice_split m off n Hs) as (pre & win & post & _ & _ & Hwin & Hw & _). subst w. rewrite Hw. exact Hwin. Qed.

  Lemma w_nonneg : Forall (fun b => 0 <= b) w.
  Proof.
    subst w. unfold window. apply Forall_forall. intros b Hin.
    apply In_firstn in Hin. assert (In b m) by (apply In_skipn in Hin; exact Hin).
    unfold bytes_ok in Hb. rewrite Forall_forall in Hb. apply Hb in H. lia.
  Qed.

  Lemma nth_error_w : forall i, 0 <= i < n ->
    nth_error m (Z.to_nat (off + i)) = Some (nth (Z.to_nat i) w 0).
  Proof.
    intros i Hi. destruct (slice_split m off n Hs) as (pre & win & post & Hm & Hpre & Hwin & Hw & _).
    subst w. rewrite Hw. rewrite Hm at 1.
    rewrite nth_error_app2 by lia.
    replace (Z.to_nat (off + i) - length pre)%nat with (Z.to_nat i) by lia.
    rewrite nth_error_app1 by lia.
    apply nth_error_nth'. lia.
  Qed.

  Lemma rd_byte_in : forall i, 0 <= i < n -> rd_byte m off n i = Ok (nth (Z.to_nat i) w 0).
  Proof.
    intros i Hi. unfold rd_byte, in_window.
    replace ((0 <=? i) && (i <? n)) with true by (symmetry; apply andb_true_intro; split; [apply Z.leb_le|apply Z.ltb_lt]; lia).
    rewrite nth_error_w by assumption. reflexivity.
  Qed.

  Lemma rd_byte_out : forall i, ~ (0 <= i < n) -> rd_byte m off n i = PanicIndex.
  Proof.
    intros i Hi. unfold rd_byte, in_window.
    destruct (0 <=? i) eqn:H1; destruct (i <? n) eqn:H2; cbn [andb]; try reflexivity.
    apply Z.leb_le in H1. apply Z.ltb_lt in H2. lia.
  Qed.

  Lemma rd_word_in : forall i, 0 <= i -> i + 8 <= n ->
    rd_word m off n i = Ok (le_word (firstn 8 (sk i))) /\ length (firstn 8 (sk i)) = 8%nat.
  Proof.
    intros i Hi Hin. unfold rd_word, in_window, word_inside.
    replace ((0 <=? i) && (i <? n)) with true by (symmetry; apply andb_true_intro; split; [apply Z.leb_le|apply Z.ltb_lt]; lia).
    replace ((0 <=? i) && (i + 8 <=? n)) with true by (symmetry; apply andb_true_intro; split; apply Z.leb_le; lia).
    destruct (slice_split m off n Hs) as (pre & win & post & Hm & Hpre & Hwin & Hw & _).
    assert (Heq : firstn 8 (skipn (Z.to_nat (off + i)) m) = firstn 8 (sk i)).
    { unfold sk. subst w. rewrite Hw. rewrite Hm.
      replace (Z.to_nat (off + i)) with (Z.to_nat i + length pre)%nat by lia.
      rewrite <- skipn_skipn. rewrite skipn_app_exact by reflexivity.
      rewrite skipn_app. rewrite firstn_app.
      rewrite skipn_length. replace (8 - (length win - Z.to_nat i))%nat with 0%nat by lia.
      cbn [firstn]. apply app_nil_r. }
    rewrite Heq.
    assert (Hl : length (firstn 8 (sk i)) = 8%nat).
    { rewrite firstn_length. unfold sk. rewrite skipn_length. pose proof w_length. lia. }
    rewrite Hl. cbn. split; reflexivity.
  Qed.

  Lemma sk_cons : forall i, 0 <= i < n -> sk i = nth (Z.to_nat i) w 0 :: sk (i + 1).
  Proof.
    intros i Hi. unfold sk. pose proof w_length as Hl.
    replace (Z.to_nat (i + 1)) with (S (Z.to_nat i)) by lia.
    apply skipn_nth_cons. lia.
  Qed.

  Lemma sk_end : forall i, n <= i -> sk i = [].
  Proof. intros i Hi. unfold sk. apply skipn_all2. pose proof w_length. lia. Qed.

  Lemma sk_word : forall i, 0 <= i -> sk i = firstn 8 (sk i) ++ sk (i + 8).
  Proof.
    intros i Hi. unfold sk. replace (Z.to_nat (i + 8)) with (8 + Z.to_nat i)%nat by lia.
    rewrite <- skipn_skipn. symmetry. apply firstn_skipn.
  Qed.

  Lemma sk_nonneg : forall i, Forall (fun b => 0 <= b) (firstn 8 (sk i)).
  Proof.
    intros i. apply Forall_forall. intros b Hin. apply In_firstn in Hin.
    unfold sk in Hin. pose proof w_nonneg as Hw. rewrite Forall_forall in Hw. apply Hw.
    apply In_skipn in Hin. exact Hin.
  Qed.

  (* ---- LeadingZeroes *)

  Lemma lz_scan_run : forall fuel i, 0 <= i -> i + count_leading (sk i) < n ->
    (Z.to_nat (count_leading (sk i)) < fuel)%nat ->
    lz_scan fuel m off n i = Ok (i + count_leading (sk i)).
  Proof.
    induction fuel as [|f IH]; intros i Hi Hc Hf; [lia|].
    pose proof (count_leading_nonneg (sk i)) as Hnn.
    cbn [lz_scan]. unfold lz_scan_idx, lz_scan_cond, lz_scan_step, lz_ret0.
    rewrite rd_byte_in by lia. cbn [bind].
    assert (Hin : 0 <= i < n) by lia.
    revert Hc Hf Hnn. rewrite (sk_cons i) by exact Hin. cbn [count_leading].
    destruct (nth (Z.to_nat i) w 0 =? 0) eqn:Hz; intros Hc Hf Hnn.
    - pose proof (count_leading_nonneg (sk (i + 1))).
      rewrite IH by lia. f_equal. lia.
    - f_equal. lia.
  Qed.

  Lemma lz_tail_run : forall fuel i, 0 <= i <= n -> (Z.to_nat (n - i) < fuel)%nat ->
    lz_tail fuel m off n i = Ok (i + count_leading (sk i)).
  Proof.
    induction fuel as [|f IH]; intros i Hi Hf; [lia|].
    cbn [lz_tail]. unfold lz_tail_idx, lz_tail_cond, lz_tail_step, lz_ret1.
    destruct (Z.eq_dec i n) as [->|Hne].
    - rewrite rd_byte_out by lia. rewrite Z.ltb_irrefl. cbn [andb orb cond_res bind].
      rewrite sk_end by lia. cbn [count_leading]. f_equal. lia.
    - rewrite rd_byte_in by lia. cbn [cond_res bind].
      replace (i <? n) with true by (symmetry; apply Z.ltb_lt; lia). cbn [andb].
      rewrite (sk_cons i) by lia. cbn [count_leading].
      destruct (nth (Z.to_nat i) w 0 =? 0) eqn:Hz.
      + rewrite IH by lia. f_equal. lia.
      + f_equal. lia.
  Qed.

  Lemma lz_words_run : forall fuel k q, 0 <= k <= q -> 8 * q <= n -> (Z.to_nat (q - k) < fuel)%nat ->
    exists r, lz_words fuel m off n (8 * q) (8 * k) = Ok r /\
      match r with
      | inl x => x = 8 * k + count_leading (sk (8 * k))
      | inr i => i = 8 * q /\ 8 * k + count_leading (sk (8 * k)) = 8 * q + count_leading (sk (8 * q))
      end.
  Proof.
    induction fuel as [|f IH]; intros k q Hk Hq Hf; [lia|].
    cbn [lz_words]. unfold lz_for0, lz_widx, lz_nz, lz_step0.
    destruct (8 * k <? 8 * q) eqn:Hlt.
    - apply Z.ltb_lt in Hlt.
      destruct (rd_word_in (8 * k)) as [Hrd Hl8]; [lia|lia|]. rewrite Hrd. cbn [bind].
      pose proof (le_word_zero _ (sk_nonneg (8 * k))) as Hz.
      destruct (le_word (firstn 8 (sk (8 * k))) =? 0) eqn:Hv; cbn [negb].
      + apply Z.eqb_eq in Hv. apply Hz in Hv.
        replace (8 * k + 8) with (8 * (k + 1)) by lia.
        destruct (IH (k + 1) q) as (r & Hr & Hm); try lia.
        exists r. split; [exact Hr|].
        assert (Hc : count_leading (sk (8 * k)) = 8 + count_leading (sk (8 * (k + 1)))).
        { rewrite (sk_word (8 * k)) by lia. rewrite cl_app_zeros by assumption. rewrite Hl8.
          replace (8 * k + 8) with (8 * (k + 1)) by lia. lia. }
        destruct r; lia.
      + apply Z.eqb_neq in Hv. assert (Hnz : ~ Forall (fun b => b = 0) (firstn 8 (sk (8 * k)))) by (intros Hf'; apply Hv, Hz, Hf').
        assert (Hc : count_leading (sk (8 * k)) < 8).
        { rewrite (sk_word (8 * k)) by lia. pose proof (cl_app_nz _ (sk (8 * k + 8)) Hnz). lia. }
        pose proof (count_leading_nonneg (sk (8 * k))).
        rewrite lz_scan_run; try lia; [|unfold loop_fuel; lia].
        cbn [bind]. eexists. split; [reflexivity|]. reflexivity.
    - apply Z.ltb_ge in Hlt. assert (k = q) by lia. subst k.
      eexists. split; [reflexivity|]. split; reflexivity.
  Qed.

  Lemma leading_zeroes_w : leading_zeroes m off n = Ok (count_leading w).
  Proof.
    destruct Hs as (Ho & Hn & Hl).
    unfold leading_zeroes, lz_m.
    destruct (ldiff7_bounds n Hn) as (q & Hq & Hq0 & Hqn). rewrite Hq.
    change 0 with (8 * 0) at 1.
    destruct (lz_words_run (loop_fuel n) 0 q) as (r & Hr & Hm); try lia; [unfold loop_fuel; lia|].
    rewrite Hr. cbn [bind].
    assert (Hsk0 : sk (8 * 0) = w) by reflexivity. rewrite Hsk0 in Hm.
    destruct r as [x|i].
    - f_equal. lia.
    - destruct Hm as [-> Hm]. rewrite lz_tail_run; [f_equal; lia | lia | unfold loop_fuel; lia].
  Qed.
  (* ---- TrailingZeroes *)

  Lemma pf_snoc : forall j, 0 < j <= n -> pf j = pf (j - 1) ++ [nth (Z.to_nat (j - 1)) w 0].
  Proof.
    intros j Hj. unfold pf. pose proof w_length as Hl.
    replace (Z.to_nat j) with (S (Z.to_nat (j - 1))) by lia.
    assert (Hk : (Z.to_nat (j - 1) < length w)%nat) by lia.
    revert Hk. generalize (Z.to_nat (j - 1)) as k. generalize w as l. clear.
    induction l as [|a l IH]; intros k Hk; cbn [length] in Hk; [lia|].
    destruct k; [reflexivity|]. cbn [firstn nth app]. f_equal. apply IH. lia.
  Qed.

  Lemma pf_word : forall i, 0 <= i -> i + 8 <= n -> pf (i + 8) = pf i ++ firstn 8 (sk i).
  Proof.
    intros i Hi Hin. unfold pf, sk.
    replace (Z.to_nat (i + 8)) with (Z.to_nat i + 8)%nat by lia.
    generalize (Z.to_nat i) as k. generalize w as l. clear.
    induction l as [|a l IH]; intros k.
    - rewrite skipn_nil, !firstn_nil. reflexivity.
    - destruct k; [cbn [firstn skipn app Nat.add]; reflexivity|].
      cbn [Nat.add firstn skipn app]. f_equal. apply IH.
  Qed.

  Lemma ct_snoc : forall l b, count_trailing (l ++ [b]) = if b =? 0 then 1 + count_trailing l else 0.
  Proof. intros. unfold count_trailing. rewrite rev_app_distr. reflexivity. Qed.

  Lemma ct_nonneg : forall l, 0 <= count_trailing l.
  Proof. intros. apply count_leading_nonneg. Qed.

  (* for data[i+7] == 0 { i--; nz++ }; return nz   with j = i + 8 *)
  Lemma tz_scan_run : forall fuel j nz, j <= n -> count_trailing (pf j) < j ->
    (Z.to_nat (count_trailing (pf j)) < fuel)%nat ->
    tz_scan fuel m off n (j - 8) nz = Ok (nz + count_trailing (pf j)).
  Proof.
    induction fuel as [|f IH]; intros j nz Hj Hc Hf; [lia|].
    pose proof (ct_nonneg (pf j)) as Hnn.
    cbn [tz_scan]. unfold tz_scan_idx, tz_scan_cond, tz_scan_i, tz_scan_nz, tz_ret0.
    replace (j - 8 + 7) with (j - 1) by lia.
    rewrite rd_byte_in by lia. cbn [bind].
    assert (Hin : 0 < j <= n) by lia.
    revert Hc Hf Hnn. rewrite (pf_snoc j) by exact Hin. rewrite ct_snoc.
    destruct (nth (Z.to_nat (j - 1)) w 0 =? 0) eqn:Hz; intros Hc Hf Hnn.
    - pose proof (ct_nonneg (pf (j - 1))).
      replace (j - 8 - 1) with (j - 1 - 8) by lia.
      rewrite IH by lia. f_equal. lia.
    - f_equal. lia.
  Qed.

  (* for m--; m >= 0 && data[m] == 0; m-- { nz++ }   with j = m + 1 *)
  Lemma tz_tail_run : forall fuel j nz, 0 <= j <= n -> (Z.to_nat j < fuel)%nat ->
    tz_tail fuel m off n (j - 1) nz = Ok (nz + count_trailing (pf j)).
  Proof.
    induction fuel as [|f IH]; intros j nz Hj Hf; [lia|].
    cbn [tz_tail]. unfold tz_tail_idx, tz_tail_cond, tz_tail_post, tz_tail_nz, tz_ret1.
    destruct (Z.eq_dec j 0) as [->|Hne].
    - rewrite rd_byte_out by lia. cbn [Z.sub Z.add Z.opp Z.geb Z.compare andb orb cond_res bind].
      unfold pf. cbn [Z.to_nat firstn]. unfold count_trailing. cbn. f_equal. lia.
    - rewrite rd_byte_in by lia. cbn [cond_res bind].
      replace (j - 1 >=? 0) with true by (symmetry; apply Z.geb_le; lia). cbn [andb].
      rewrite (pf_snoc j) by lia. rewrite ct_snoc.
      destruct (nth (Z.to_nat (j - 1)) w 0 =? 0) eqn:Hz.
      + rewrite IH by lia. f_equal. lia.
      + f_equal. lia.
  Qed.

  Lemma ct_word_zero : forall i, 0 <= i -> i + 8 <= n ->
    Forall (fun b => b = 0) (firstn 8 (sk i)) -> count_trailing (pf (i + 8)) = 8 + count_trailing (pf i).
  Proof.
    intros i Hi Hin Hz. destruct (rd_word_in i Hi Hin) as [_ Hl8].
    rewrite pf_word by assumption. unfold count_trailing. rewrite rev_app_distr.
    rewrite cl_app_zeros by (apply Forall_zero_rev in Hz; exact Hz).
    rewrite rev_length, Hl8. lia.
  Qed.

  Lemma ct_word_nz : forall i, 0 <= i -> i + 8 <= n ->
    ~ Forall (fun b => b = 0) (firstn 8 (sk i)) -> count_trailing (pf (i + 8)) < 8.
  Proof.
    intros i Hi Hin Hz. destruct (rd_word_in i Hi Hin) as [_ Hl8].
    rewrite pf_word by assumption. unfold count_trailing. rewrite rev_app_distr.
    assert (Hz' : ~ Forall (fun b => b = 0) (rev (firstn 8 (sk i)))) by (intros Hf; apply Hz, Forall_zero_rev, Hf).
    pose proof (cl_app_nz _ (rev (pf i)) Hz') as H. rewrite rev_length, Hl8 in H. lia.
  Qed.

  (* the word loop, walking down from j = m0 + 8 k (i = j - 8) to m0 *)
  Lemma tz_words_run : forall fuel m0 k nz, 0 <= m0 -> 0 <= k -> m0 + 8 * k <= n -> (Z.to_nat k < fuel)%nat ->
    exists r, tz_words fuel m off n m0 (m0 + 8 * k - 8) nz = Ok r /\
      match r with
      | inl x => x = nz + count_trailing (pf (m0 + 8 * k))
      | inr nz' => nz' + count_trailing (pf m0) = nz + count_trailing (pf (m0 + 8 * k))
      end.
  Proof.
    induction fuel as [|f IH]; intros m0 k nz Hm Hk Hn Hf; [lia|].
    cbn [tz_words]. unfold tz_for0, tz_widx, tz_nzword, tz_step0, tz_word_nz.
    destruct (m0 + 8 * k - 8 >=? m0) eqn:Hge.
    - apply Z.geb_le in Hge.
      destruct (rd_word_in (m0 + 8 * k - 8)) as [Hrd Hl8]; [lia|lia|]. rewrite Hrd. cbn [bind].
      pose proof (le_word_zero _ (sk_nonneg (m0 + 8 * k - 8))) as Hz.
      destruct (le_word (firstn 8 (sk (m0 + 8 * k - 8))) =? 0) eqn:Hv; cbn [negb].
      + apply Z.eqb_eq in Hv. apply Hz in Hv.
        replace (m0 + 8 * k - 8 - 8) with (m0 + 8 * (k - 1) - 8) by lia.
        destruct (IH m0 (k - 1) (nz + 8)) as (r & Hr & Hm'); try lia.
        exists r. split; [exact Hr|].
        pose proof (ct_word_zero (m0 + 8 * k - 8) ltac:(lia) ltac:(lia) Hv) as Hc.
        replace (m0 + 8 * k - 8 + 8) with (m0 + 8 * k) in Hc by lia.
        replace (m0 + 8 * k - 8) with (m0 + 8 * (k - 1)) in Hc by lia.
        destruct r; lia.
      + apply Z.eqb_neq in Hv.
        assert (Hnz : ~ Forall (fun b => b = 0) (firstn 8 (sk (m0 + 8 * k - 8)))) by (intros Hf'; apply Hv, Hz, Hf').
        pose proof (ct_word_nz (m0 + 8 * k - 8) ltac:(lia) ltac:(lia) Hnz) as Hc.
        replace (m0 + 8 * k - 8 + 8) with (m0 + 8 * k) in Hc by lia.
        pose proof (ct_nonneg (pf (m0 + 8 * k))).
        rewrite tz_scan_run; try lia; [|unfold loop_fuel; lia].
        cbn [bind]. eexists. split; [reflexivity|]. reflexivity.
    - rewrite Z.geb_leb in Hge. apply Z.leb_gt in Hge. assert (k = 0) by lia. subst k.
      eexists. split; [reflexivity|]. cbn beta iota. replace (m0 + 8 * 0) with m0 by lia. reflexivity.
  Qed.

  Lemma trailing_zeroes_w : trailing_zeroes m off n = Ok (count_trailing w).
  Proof.
    destruct Hs as (Ho & Hn & Hl).
    unfold trailing_zeroes, tz_m, tz_i0, tz_nz0, tz_tail_init.
    destruct (ldiff7_bounds n Hn) as (q & Hq & Hq0 & Hqn). rewrite Hq.
    replace (n - 8) with ((n - 8 * q) + 8 * q - 8) by lia.
    destruct (tz_words_run (loop_fuel n) (n - 8 * q) q 0) as (r & Hr & Hm); try lia; [unfold loop_fuel; lia|].
    rewrite Hr. cbn [bind].
    replace (n - 8 * q + 8 * q) with n in Hm by lia.
    assert (Hpfn : pf n = w) by (unfold pf; apply firstn_all2; pose proof w_length; lia).
    rewrite Hpfn in Hm.
    destruct r as [x|nz].
    - f_equal. lia.
    - rewrite tz_tail_run; [f_equal; lia | lia | unfold loop_fuel; lia].
  Qed.
End Reads.

(* LeadingZeroes / TrailingZeroes equal the byte-by-byte counts, with no panic and no access
   outside the slice, for every memory of bytes, offset and length *)
Theorem leading_zeroes_correct : forall m off n, slice_ok m off n -> bytes_ok m ->
  leading_zeroes m off n = Ok (count_leading (window m off n)).
Proof. intros. apply leading_zeroes_w; assumption. Qed.

Theorem trailing_zeroes_correct : forall m off n, slice_ok m off n -> bytes_ok m ->
  trailing_zeroes m off n = Ok (count_trailing (window m off n)).
Proof. intros. apply trailing_zeroes_w; assumption. Qed.

(* the statement skeletons (one hex digit per statement: loops, ifs, assignments, returns and the
   blocks they sit in) of the three functions the models were written against; an added guard, a
   dropped return or a reordered statement in the Go source changes the generated number *)
Lemma mbits_shapes :
  zero_shape = 264402497196482518863 /\ lz_shape = 4436240037567050939655688015 /\
  tz_shape = 290713620061365655674598819008335.
Proof. repeat split; reflexivity. Qed.
