(* Proofs about the model of mbits (C20). *)
From Coq Require Import ZArith List Bool Lia.
Import ListNotations.
From Mds Require Import Gen.MbitsIdx Mbits.BytesBase Mbits.MbitsModel Mbits.MbitsSpec.
Local Open Scope Z_scope.

(* ---------------------------------------------------------------- arithmetic of n &^ 7 *)

Lemma ldiff7 : forall n, 0 <= n -> Z.ldiff n 7 = 8 * (n / 8).
Proof.
  intros n Hn. change 7 with (Z.ones 3).
  rewrite Z.ldiff_ones_r by lia.
  rewrite Z.shiftl_mul_pow2, Z.shiftr_div_pow2 by lia.
  change (2 ^ 3) with 8. lia.
Qed.

Lemma ldiff7_bounds : forall n, 0 <= n -> exists q, Z.ldiff n 7 = 8 * q /\ 0 <= q /\ 8 * q <= n < 8 * q + 8.
Proof.
  intros n Hn. exists (n / 8). rewrite ldiff7 by lia.
  pose proof (Z.div_mod n 8 ltac:(lia)). pose proof (Z.mod_pos_bound n 8 ltac:(lia)).
  split; [reflexivity|]. split; [apply Z.div_pos; lia|]. lia.
Qed.

(* ---------------------------------------------------------------- list helpers *)

Lemma firstn_app_exact : forall (A : Type) (a b : list A) k, length a = k -> firstn k (a ++ b) = a.
Proof.
  intros A a b k <-. rewrite firstn_app, Nat.sub_diag, firstn_all. cbn. apply app_nil_r.
Qed.

Lemma skipn_app_exact : forall (A : Type) (a b : list A) k, length a = k -> skipn k (a ++ b) = b.
Proof.
  intros A a b k <-. rewrite skipn_app, Nat.sub_diag, skipn_all. reflexivity.
Qed.

Lemma skipn_skipn : forall (A : Type) (x y : nat) (l : list A), skipn x (skipn y l) = skipn (x + y) l.
Proof.
  intros A x y. induction y as [|y IH]; intros l.
  - rewrite Nat.add_0_r. reflexivity.
  - rewrite Nat.add_succ_r. destruct l; [rewrite !skipn_nil; reflexivity|]. cbn [skipn]. apply IH.
Qed.

Lemma repeat_app_plus : forall (A : Type) (x : A) a b, repeat x a ++ repeat x b = repeat x (a + b).
Proof. intros. symmetry. apply repeat_app. Qed.

Lemma nth_error_app_exact : forall (A : Type) (a b : list A) k x, length a = k -> nth_error (a ++ x :: b) k = Some x.
Proof.
  intros A a b k x <-. rewrite nth_error_app2 by lia. rewrite Nat.sub_diag. reflexivity.
Qed.

(* ---------------------------------------------------------------- Zero *)

Section ZeroProof.
  Variables (pre post : list Z) (off n : Z).
  Hypothesis Hoff : Z.of_nat (length pre) = off.

  (* memory while clearing: i bytes done, [todo] still to do *)
  Definition zstate (i : Z) (todo : list Z) : list Z :=
    pre ++ repeat 0 (Z.to_nat i) ++ todo ++ post.

  Lemma zstate_length : forall i todo,
    length (zstate i todo) = (length pre + Z.to_nat i + length todo + length post)%nat.
  Proof. intros. unfold zstate. rewrite !app_length, repeat_length. lia. Qed.

  Lemma wr_word_step : forall i todo,
    0 <= i -> i + 8 <= n -> Z.of_nat (length todo) = n - i ->
    wr_word (zstate i todo) off n i 0 = Ok (zstate (i + 8) (skipn 8 todo)).
  Proof.
    intros i todo Hi Hin Hlen. unfold wr_word, in_window, word_inside.
    replace ((0 <=? i) && (i <? n)) with true by (symmetry; apply andb_true_intro; split; [apply Z.leb_le|apply Z.ltb_lt]; lia).
    replace ((0 <=? i) && (i + 8 <=? n)) with true by (symmetry; apply andb_true_intro; split; apply Z.leb_le; lia).
    assert (Hk : Z.to_nat (off + i) = (length pre + Z.to_nat i)%nat) by lia.
    rewrite Hk.
    assert (Hl8 : (8 <= length todo)%nat) by lia.
    assert (Hle : (length pre + Z.to_nat i + 8 <= length (zstate i todo))%nat) by (rewrite zstate_length; lia).
    apply Nat.leb_le in Hle. rewrite Hle. unfold zstate.
    f_equal.
    rewrite (app_assoc pre (repeat 0 (Z.to_nat i))).
    rewrite firstn_app_exact by (rewrite app_length, repeat_length; lia).
    replace (length pre + Z.to_nat i + 8)%nat with (8 + (length pre + Z.to_nat i))%nat by lia.
    rewrite <- skipn_skipn.
    rewrite skipn_app_exact by (rewrite app_length, repeat_length; lia).
    rewrite skipn_app. replace (8 - length todo)%nat with 0%nat by lia. cbn [skipn].
    change (le_bytes 8 0) with (repeat 0 8).
    rewrite <- app_assoc. f_equal.
    rewrite (app_assoc (repeat 0 (Z.to_nat i))). rewrite repeat_app_plus.
    replace (Z.to_nat (i + 8)) with (Z.to_nat i + 8)%nat by lia. reflexivity.
  Qed.

  Lemma wr_byte_step : forall i b todo,
    0 <= i -> Z.of_nat (length (b :: todo)) = n - i ->
    wr_byte (zstate i (b :: todo)) off n i 0 = Ok (zstate (i + 1) todo).
  Proof.
    intros i b todo Hi Hlen. cbn [length] in Hlen. unfold wr_byte, in_window.
    replace ((0 <=? i) && (i <? n)) with true by (symmetry; apply andb_true_intro; split; [apply Z.leb_le|apply Z.ltb_lt]; lia).
    assert (Hk : Z.to_nat (off + i) = (length pre + Z.to_nat i)%nat) by lia.
    rewrite Hk.
    assert (Hle : (length pre + Z.to_nat i < length (zstate i (b :: todo)))%nat) by (rewrite zstate_length; cbn [length]; lia).
    apply Nat.ltb_lt in Hle. rewrite Hle. unfold zstate.
    f_equal.
    rewrite (app_assoc pre (repeat 0 (Z.to_nat i))).
    rewrite firstn_app_exact by (rewrite app_length, repeat_length; lia).
    replace (S (length pre + Z.to_nat i)) with (1 + (length pre + Z.to_nat i))%nat by lia.
    rewrite <- skipn_skipn.
    rewrite skipn_app_exact by (rewrite app_length, repeat_length; lia).
    cbn [app skipn].
    rewrite <- app_assoc. f_equal.
    replace (Z.to_nat (i + 1)) with (Z.to_nat i + 1)%nat by lia.
    rewrite <- repeat_app_plus. rewrite <- app_assoc. reflexivity.
  Qed.

  (* the word loop, from a multiple of 8 up to m = 8 q <= n *)
  Lemma zero_words_run : forall fuel k q todo,
    0 <= k <= q -> 8 * q <= n -> Z.of_nat (length todo) = n - 8 * k ->
    (Z.to_nat (q - k) < fuel)%nat ->
    zero_words fuel (zstate (8 * k) todo) off n (8 * q) (8 * k)
    = Ok (zstate (8 * q) (skipn (Z.to_nat (8 * (q - k))) todo), 8 * q).
  Proof.
    induction fuel as [|f IH]; intros k q todo Hk Hq Hlen Hf; [lia|].
    cbn [zero_words]. unfold zero_for0, zero_widx, zero_wval, zero_step0.
    destruct (8 * k <? 8 * q) eqn:Hlt.
    - apply Z.ltb_lt in Hlt.
      rewrite wr_word_step by lia. cbn [bind].
      replace (8 * k + 8) with (8 * (k + 1)) by lia.
      rewrite IH; try lia.
      + rewrite skipn_skipn.
        replace (Z.to_nat (8 * (q - (k + 1))) + 8)%nat with (Z.to_nat (8 * (q - k))) by lia. reflexivity.
      + rewrite skipn_length. lia.
    - apply Z.ltb_ge in Hlt. assert (k = q) by lia. subst k.
      replace (8 * (q - q)) with 0 by lia. reflexivity.
  Qed.

  (* the byte loop *)
  Lemma zero_bytes_run : forall fuel i todo,
    0 <= i -> Z.of_nat (length todo) = n - i -> (length todo < fuel)%nat ->
    zero_bytes fuel (zstate i todo) off n i = Ok (zstate n [], n).
  Proof.
    induction fuel as [|f IH]; intros i todo Hi Hlen Hf; [lia|].
    cbn [zero_bytes]. unfold zero_for1, zero_bidx, zero_bval, zero_step1.
    destruct (i <? n) eqn:Hlt.
    - apply Z.ltb_lt in Hlt. destruct todo as [|b todo]; [cbn [length] in Hlen; lia|].
      rewrite wr_byte_step by assumption. cbn [bind].
      apply IH; cbn [length] in *; lia.
    - apply Z.ltb_ge in Hlt. destruct todo as [|b todo]; [|cbn [length] in Hlen; lia].
      cbn [length] in Hlen. replace i with n by lia. reflexivity.
  Qed.
End ZeroProof.

Lemma slice_split : forall m off n, slice_ok m off n ->
  exists pre win post, m = pre ++ win ++ post /\ Z.of_nat (length pre) = off /\ Z.of_nat (length win) = n
    /\ window m off n = win
    /\ cleared m off n = pre ++ repeat 0 (Z.to_nat n) ++ post.
Proof.
  intros m off n (Ho & Hn & Hl).
  exists (firstn (Z.to_nat off) m), (firstn (Z.to_nat n) (skipn (Z.to_nat off) m)),
         (skipn (Z.to_nat n) (skipn (Z.to_nat off) m)).
  split; [rewrite firstn_skipn, firstn_skipn; reflexivity|].
  split; [rewrite firstn_length; lia|].
  split; [rewrite firstn_length, skipn_length; lia|].
  split; [reflexivity|].
  unfold cleared. rewrite skipn_skipn. do 3 f_equal. lia.
Qed.

(* Zero clears exactly the window, keeps everything else, returns n; no access outside the
   window (the result is not Fault), no panic, for every memory, offset and length. *)
Theorem zero_correct : forall m off n, slice_ok m off n ->
  zero m off n = Ok (cleared m off n, n).
Proof.
  intros m off n Hs. destruct (slice_split m off n Hs) as (pre & win & post & Hm & Hpre & Hwin & _ & Hc).
  destruct Hs as (Ho & Hn & Hl).
  unfold zero, zero_m, zero_i0, zero_ret.
  destruct (ldiff7_bounds n Hn) as (q & Hq & Hq0 & Hqn). rewrite Hq.
  assert (Hst : m = zstate pre post (8 * 0) win) by (unfold zstate; cbn; exact Hm).
  rewrite Hst at 1. change 0 with (8 * 0) at 2.
  rewrite (zero_words_run pre post off n Hpre) by (unfold loop_fuel; lia).
  cbn [bind].
  rewrite (zero_bytes_run pre post off n Hpre); try lia.
  - cbn [bind]. rewrite Hc. unfold zstate. cbn [app]. reflexivity.
  - rewrite skipn_length. lia.
  - rewrite skipn_length. unfold loop_fuel. lia.
Qed.
