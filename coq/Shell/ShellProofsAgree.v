(* C16, second clause: on inputs a POSIX shell reads as plain words the reference tokenizer of C16
   ([ref_split], which Split is proved equal to) produces exactly the shell's words.

   [posix_words] (ShellSpec.v, the transcription of XCU 2.2 used for C15) accepts a text exactly
   when it holds no unquoted special character -- in particular no unquoted newline --, no
   unclosed quote and no dangling backslash, and returns the words of the command fragment.  For
   every such text that contains neither dollar nor backquote (the two characters that stay
   special inside double quotes), [ref_split] returns the same words and reports the input
   complete.  Both sides are definitions of ShellSpec.v; nothing here mentions the model. *)
From Coq Require Import NArith List Bool Lia.
Import ListNotations.
From Mds Require Import Shell.ShellSpec.
Local Open Scope N_scope.

Definition no_dollar (b : N) : Prop := b <> 36 /\ b <> 96.

Lemma until_sq_clean : forall r b r', Forall no_dollar r -> until_sq r = (b, Some r') -> Forall no_dollar r'.
Proof.
  induction r as [|c r IH]; intros b r' Hc H; [discriminate|].
  inversion Hc as [|? ? Hh Ht]; subst. cbn [until_sq] in H. destruct (c =? SQ).
  - inversion H; subst. exact Ht.
  - destruct (until_sq r) as [b0 [k|]] eqn:E; inversion H; subst. eapply IH; eauto.
Qed.

Lemma memb_esc e : e <> 36 -> e <> 96 ->
  memb e [36; 96; DQ; BSL; NL] = (e =? NL) || ((e =? BSL) || (e =? DQ)).
Proof.
  intros H1 H2. unfold memb. cbn [existsb]. apply N.eqb_neq in H1, H2. rewrite H1, H2. cbn [orb].
  destruct (e =? DQ), (e =? BSL), (e =? NL); reflexivity.
Qed.

(* double quotes: without dollar and backquote the shell's reading and the tokenizer's coincide *)
Lemma pdq_dq : forall f s b r', Forall no_dollar s -> pdq_body f s = Some (b, r') ->
  dq_body f s = (b, Some r') /\ Forall no_dollar r'.
Proof.
  induction f as [|f IH]; intros s b r' Hc H; [discriminate|].
  destruct s as [|c r]; [discriminate|]. inversion Hc as [|? ? Hh Ht]; subst.
  cbn [pdq_body dq_body] in *. destruct (c =? DQ).
  - inversion H; subst. split; [reflexivity|exact Ht].
  - destruct Hh as [H36 H96]. apply N.eqb_neq in H36, H96. rewrite H36, H96 in H. cbn [orb] in H.
    destruct (N.eqb_spec c BSL) as [Ec|Ec].
    + subst c. destruct r as [|e r2]; [discriminate|]. inversion Ht as [|? ? [He1 He2] Ht2]; subst.
      rewrite (memb_esc e He1 He2) in H.
      destruct (e =? NL) eqn:Enl; cbn [orb] in H.
      * destruct (pdq_body f r2) as [[b0 k]|] eqn:E; [|discriminate]. inversion H; subst.
        destruct (IH _ _ _ Ht2 E) as [Hd Hcl]. rewrite Hd. split; [reflexivity|exact Hcl].
      * destruct ((e =? BSL) || (e =? DQ)) eqn:Eesc.
        -- destruct (pdq_body f r2) as [[b0 k]|] eqn:E; [|discriminate]. inversion H; subst.
           destruct (IH _ _ _ Ht2 E) as [Hd Hcl]. rewrite Hd. split; [reflexivity|exact Hcl].
        -- (* the backslash is literal: the shell's evaluator goes on at e, the tokenizer copies both *)
           destruct (pdq_body f (e :: r2)) as [[b0 k]|] eqn:E; [|discriminate]. inversion H; subst.
           destruct f as [|f']; [discriminate|].
           cbn [pdq_body] in E. apply orb_false_iff in Eesc. destruct Eesc as [Eb Ed].
           rewrite Ed in E. apply N.eqb_neq in He1, He2. rewrite He1, He2, Eb in E. cbn [orb] in E.
           destruct (pdq_body f' r2) as [[b1 k1]|] eqn:E1; [|discriminate]. inversion E; subst.
           assert (E1': pdq_body (S f') r2 = Some (b1, r')).
           { clear - E1. revert r2 b1 r' E1. induction f' as [|g IHg]; intros r2 b1 r' E1; [discriminate|].
             destruct r2 as [|c r]; [discriminate|]. cbn [pdq_body] in *.
             destruct (c =? DQ); [exact E1|]. destruct ((c =? 36) || (c =? 96)); [discriminate|].
             destruct (c =? BSL).
             - destruct r as [|e r3]; [discriminate|]. destruct (memb e [36; 96; DQ; BSL; NL]).
               + destruct (pdq_body g r3) as [[b0 k]|] eqn:E; [|discriminate]. rewrite (IHg _ _ _ E). exact E1.
               + destruct (pdq_body g (e :: r3)) as [[b0 k]|] eqn:E; [|discriminate]. rewrite (IHg _ _ _ E). exact E1.
             - destruct (pdq_body g r) as [[b0 k]|] eqn:E; [|discriminate]. rewrite (IHg _ _ _ E). exact E1. }
           destruct (IH _ _ _ Ht2 E1') as [Hd Hcl]. rewrite Hd. split; [reflexivity|exact Hcl].
    + destruct (pdq_body f r) as [[b0 k]|] eqn:E; [|discriminate]. inversion H; subst.
      destruct (IH _ _ _ Ht E) as [Hd Hcl]. rewrite Hd. split; [reflexivity|exact Hcl].
Qed.

Lemma special_break c : is_break c = true -> (c =? SP) || (c =? TAB) = false -> memb c posix_special = true.
Proof.
  unfold is_break, SP, TAB, NL. intros H1 H2. apply orb_false_iff in H2. destruct H2 as [E1 E2].
  rewrite E1, E2 in H1. cbn [orb] in H1. apply N.eqb_eq in H1. subst c. reflexivity.
Qed.

(* one word *)
Lemma pword_word : forall f s acc w r, Forall no_dollar s -> pword f s acc = Some (w, r) ->
  word f s acc = (w, true, r) /\ Forall no_dollar r.
Proof.
  induction f as [|f IH]; intros s acc w r Hc H; [discriminate|].
  destruct s as [|c s']; [inversion H; subst; split; [reflexivity|constructor]|].
  inversion Hc as [|? ? Hh Ht]; subst. cbn [pword word] in *.
  destruct ((c =? SP) || (c =? TAB)) eqn:Ebl.
  - inversion H; subst. unfold is_break. apply orb_true_iff in Ebl.
    destruct Ebl as [E|E]; rewrite E; cbn [orb]; rewrite ?orb_true_r; split; [reflexivity|exact Ht|reflexivity|exact Ht].
  - destruct (is_break c) eqn:Eb.
    { (* an unquoted newline: rejected by the shell's evaluator *)
      pose proof (special_break c Eb Ebl) as Hsp.
      assert (c = NL). { unfold is_break in Eb. apply orb_false_iff in Ebl. destruct Ebl as [E1 E2].
                         rewrite E1, E2 in Eb. cbn in Eb. apply N.eqb_eq in Eb. exact Eb. }
      subst c. cbn in H. discriminate. }
    destruct (c =? BSL).
    + destruct s' as [|e r2]; [discriminate|]. inversion Ht as [|? ? _ Ht2]; subst.
      destruct (e =? NL); eapply IH; eauto.
    + destruct (c =? SQ).
      * destruct (until_sq s') as [b [r2|]] eqn:E; [|discriminate].
        eapply IH; [eapply until_sq_clean; eauto|exact H].
      * destruct (c =? DQ).
        -- destruct (pdq_body (S (length s')) s') as [[b r2]|] eqn:E; [|discriminate].
           destruct (pdq_dq _ _ _ _ Ht E) as [Hd Hcl]. rewrite Hd. eapply IH; eauto.
        -- destruct (memb c posix_special); [discriminate|]. eapply IH; eauto.
Qed.

(* between words *)
Lemma skip_blank_clean : forall s, Forall no_dollar s -> Forall no_dollar (skip_blank s).
Proof.
  fix IH 1. intros s Hc. destruct s as [|c r]; [constructor|].
  inversion Hc as [|? ? _ Ht]; subst. cbn [skip_blank].
  destruct ((c =? SP) || (c =? TAB)); [apply IH; exact Ht|].
  destruct (c =? BSL); [|exact Hc]. destruct r as [|e r']; [exact Hc|].
  destruct (e =? NL); [|exact Hc]. inversion Ht; subst. apply IH. assumption.
Qed.

(* the text left by skip_blank does not start with a separator of the tokenizer unless it starts
   with a newline, which the shell's evaluator rejects *)
Lemma skip_sep_blank : forall n s, (length s <= n)%nat ->
  match skip_blank s with
  | [] => skip_sep n s = []
  | c :: r => c = NL \/ skip_sep n s = c :: r
  end.
Proof.
  induction n as [|n IH]; intros s Hn.
  - destruct s; [reflexivity|simpl in Hn; lia].
  - destruct s as [|c r]; [reflexivity|]. cbn [length] in Hn.
    cbn [skip_blank skip_sep]. unfold is_break.
    destruct ((c =? SP) || (c =? TAB)) eqn:Ebl; cbn [orb].
    + apply IH. lia.
    + destruct (c =? NL) eqn:Enl.
      * apply N.eqb_eq in Enl. subst c. cbn. left. reflexivity.
      * destruct (c =? BSL).
        -- destruct r as [|e r']; [right; reflexivity|].
           destruct (e =? NL); [apply IH; cbn [length] in Hn; lia|right; reflexivity].
        -- right. reflexivity.
Qed.

Lemma pwords_fields : forall f s ws, Forall no_dollar s -> pwords f s = Some ws -> fields f s = (ws, true).
Proof.
  induction f as [|f IH]; intros s ws Hc H; [discriminate|].
  cbn [pwords fields] in *.
  pose proof (skip_sep_blank (length s) s (le_n _)) as Hsk.
  pose proof (skip_blank_clean s Hc) as Hc'.
  destruct (skip_blank s) as [|c r] eqn:Es.
  - rewrite Hsk. inversion H; subst. reflexivity.
  - destruct (pword (S (length (c :: r))) (c :: r) []) as [[w r2]|] eqn:Ew; [|discriminate].
    destruct (pwords f r2) as [ws2|] eqn:Er; [|discriminate]. inversion H; subst.
    destruct Hsk as [->|Hsk].
    { (* starts with an unquoted newline: the evaluator would have rejected it *)
      cbn in Ew. discriminate. }
    rewrite Hsk. destruct (pword_word _ _ _ _ _ Hc' Ew) as [Hw Hcl]. rewrite Hw.
    rewrite (IH _ _ Hcl Er). reflexivity.
Qed.

Theorem posix_agree s ws : Forall no_dollar s -> posix_words s = Some ws -> ref_split s = (ws, true).
Proof. intros Hc H. unfold posix_words, ref_split in *. apply pwords_fields; assumption. Qed.
