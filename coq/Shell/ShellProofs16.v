(* C16: the table-driven scanner of the model (over the *generated* table) against the
   recursive-descent reference tokenizer of ShellSpec.v. *)
From Coq Require Import NArith List Bool Lia.
Import ListNotations.
From Mds Require Import Gen.ShellTable Shell.ShellModel Shell.ShellSpec Shell.ShellSession Shell.ShellSkel.
(* the proofs are about the hand transcription of the skeleton; ShellFinal.v transports them to the
   model assembled from the generated skeleton facts (ShellSkel.v: model = transcription) *)
Import ShellSkel.Hand.
Local Open Scope N_scope.
Arguments update !s !c /.

(* ---- bytes by class ---- *)

Lemma byte_cases c :
  c = 9 \/ c = 10 \/ c = 32 \/ c = 34 \/ c = 39 \/ c = 92 \/
  (class_of c = clOther /\ (c =? 9) = false /\ (c =? 10) = false /\ (c =? 32) = false /\
   (c =? 34) = false /\ (c =? 39) = false /\ (c =? 92) = false).
Proof.
  destruct (N.eqb_spec c 9); [tauto|]. destruct (N.eqb_spec c 10); [tauto|].
  destruct (N.eqb_spec c 32); [tauto|]. destruct (N.eqb_spec c 34); [tauto|].
  destruct (N.eqb_spec c 39); [tauto|]. destruct (N.eqb_spec c 92); [tauto|].
  do 6 right. repeat split; try reflexivity.
  unfold class_of. destruct c as [|p]; [reflexivity|].
  do 7 (destruct p as [p|p|]; try reflexivity; try congruence).
Qed.

Ltac byte_split c :=
  let Hcl := fresh "Hcl" in let E9 := fresh "E9" in let E10 := fresh "E10" in
  let E32 := fresh "E32" in let E34 := fresh "E34" in let E39 := fresh "E39" in let E92 := fresh "E92" in
  destruct (byte_cases c) as [->|[->|[->|[->|[->|[->|(Hcl & E9 & E10 & E32 & E34 & E39 & E92)]]]]]];
  [ | | | | | | rewrite ?E9, ?E10, ?E32, ?E34, ?E39, ?E92, ?Hcl ].

Lemma scan_step c r st acc :
  scan_next (c :: r) st acc =
  match update st (class_of c) with
  | None => NPanic
  | Some (s', a) =>
    match a with
    | push => scan_next r s' (acc ++ [c])
    | xpush => scan_next r s' (acc ++ [92; c])
    | emit => NEmit acc r s'
    | drop => scan_next r s' acc
    end
  end.
Proof. reflexivity. Qed.

Ltac scan_go :=
  repeat (rewrite scan_step;
          try match goal with H : class_of _ = clOther |- _ => rewrite H end;
          cbn [class_of update]).

Lemma until_sq_step c r :
  until_sq (c :: r) = if c =? 39 then ([], Some r) else let '(b, k) := until_sq r in (c :: b, k).
Proof. reflexivity. Qed.

(* ---- single quotes ---- *)

Lemma scan_single : forall r acc,
  scan_next r stSingle acc =
  match until_sq r with
  | (b, Some r') => scan_next r' stWord (acc ++ b)
  | (b, None) => NEof true (acc ++ b) stSingle
  end.
Proof.
  induction r as [|c r IH]; intros acc.
  - cbn. rewrite app_nil_r. reflexivity.
  - rewrite scan_step, until_sq_step.
    byte_split c; cbn [class_of update N.eqb Pos.eqb]; rewrite ?Hcl; cbn [update];
      try (rewrite IH; destruct (until_sq r) as [b [r'|]]; rewrite <- app_assoc; reflexivity).
    rewrite app_nil_r. reflexivity.
Qed.

Lemma until_sq_len : forall r b r', until_sq r = (b, Some r') -> (length r' < length r)%nat.
Proof.
  induction r as [|c r IH]; intros b r' H; [discriminate|].
  rewrite until_sq_step in H. destruct (c =? 39).
  - inversion H; subst. simpl. lia.
  - destruct (until_sq r) as [b0 [k|]] eqn:E; inversion H; subst.
    specialize (IH _ _ eq_refl). simpl. lia.
Qed.

(* ---- double quotes ---- *)

Lemma dq_step f c r :
  dq_body (S f) (c :: r) =
  if c =? 34 then ([], Some r)
  else if c =? 92 then
    match r with
    | [] => ([], None)
    | e :: r' =>
      let '(b, k) := dq_body f r' in
      if e =? 10 then (b, k)
      else if (e =? 92) || (e =? 34) then (e :: b, k)
      else (92 :: e :: b, k)
    end
  else let '(b, k) := dq_body f r in (c :: b, k).
Proof. reflexivity. Qed.

Definition dq_post (r acc : bytes) (res : bytes * option bytes) : Prop :=
  match res with
  | (b, Some r') => scan_next r stDouble acc = scan_next r' stWord (acc ++ b)
  | (b, None) => exists st', scan_next r stDouble acc = NEof true (acc ++ b) st' /\ complete_state st' = false
  end.

Lemma dq_post_pre r0 acc0 r pre b k :
  scan_next r0 stDouble acc0 = scan_next r stDouble (acc0 ++ pre) ->
  dq_post r (acc0 ++ pre) (b, k) -> dq_post r0 acc0 (pre ++ b, k).
Proof.
  intros E H. unfold dq_post in *. destruct k as [r'|].
  - rewrite E, H, app_assoc. reflexivity.
  - destruct H as (st' & H1 & H2). exists st'. rewrite E, H1, app_assoc. split; [reflexivity|exact H2].
Qed.

Lemma scan_double : forall f r acc, (length r < f)%nat -> dq_post r acc (dq_body f r).
Proof.
  induction f as [|f IH]; intros r acc Hf; [lia|].
  destruct r as [|c r].
  - cbn. exists stDouble. rewrite app_nil_r. split; reflexivity.
  - rewrite dq_step. cbn [length] in Hf.
    assert (Hpush: forall c, scan_next (c :: r) stDouble acc = scan_next r stDouble (acc ++ [c]) ->
              dq_post (c :: r) acc (let '(b, k) := dq_body f r in (c :: b, k))).
    { intros c0 E. destruct (dq_body f r) as [b k] eqn:Eb.
      apply (dq_post_pre _ _ r [c0] b k E). rewrite <- Eb. apply IH. lia. }
    byte_split c; cbn [N.eqb Pos.eqb].
    1-3, 5: (apply Hpush; reflexivity).
    3: (apply Hpush; rewrite scan_step, Hcl; reflexivity).
    + (* closing double quote *)
      unfold dq_post. rewrite scan_step. cbn. rewrite app_nil_r. reflexivity.
    + (* backslash *)
      destruct r as [|e r'].
      * unfold dq_post. exists stDoubleQ. cbn. rewrite app_nil_r. split; reflexivity.
      * cbn [length] in Hf.
        assert (Hesc: forall pre, scan_next (92 :: e :: r') stDouble acc = scan_next r' stDouble (acc ++ pre) ->
                  forall b k, dq_body f r' = (b, k) -> dq_post (92 :: e :: r') acc (pre ++ b, k)).
        { intros pre E b k Eb. apply (dq_post_pre _ _ r' pre b k E). rewrite <- Eb. apply IH. lia. }
        destruct (dq_body f r') as [b k] eqn:Eb.
        byte_split e; cbn [N.eqb Pos.eqb orb].
        2: { apply (Hesc [] ltac:(rewrite app_nil_r; reflexivity) b k eq_refl). }
        1-2: apply (Hesc [92; _] ltac:(reflexivity) b k eq_refl).
        1, 3: apply (Hesc [_] ltac:(reflexivity) b k eq_refl).
        -- apply (Hesc [92; _] ltac:(reflexivity) b k eq_refl).
        -- apply (Hesc [92; e]); [|reflexivity]. rewrite scan_step. change (class_of 92) with clQuote. cbn [update]. rewrite scan_step, Hcl. reflexivity.
Qed.

Lemma dq_body_len : forall f r b r', dq_body f r = (b, Some r') -> (length r' < length r)%nat.
Proof.
  induction f as [|f IH]; intros r b r' H; [discriminate|].
  destruct r as [|c r]; [discriminate|].
  rewrite dq_step in H. destruct (c =? 34).
  - inversion H; subst. simpl. lia.
  - destruct (c =? 92).
    + destruct r as [|e r2]; [discriminate|].
      destruct (dq_body f r2) as [b0 [k|]] eqn:E.
      * specialize (IH _ _ _ E).
        destruct (e =? 10); [|destruct ((e =? 92) || (e =? 34))]; inversion H; subst; simpl; lia.
      * destruct (e =? 10); [|destruct ((e =? 92) || (e =? 34))]; inversion H.
    + destruct (dq_body f r) as [b0 [k|]] eqn:E; inversion H; subst.
      specialize (IH _ _ _ E). simpl. lia.
Qed.

(* ---- one word ---- *)

Lemma word_step f c r acc :
  word (S f) (c :: r) acc =
  if is_break c then (acc, true, r)
  else if c =? 92 then
    match r with
    | [] => (acc, false, [])
    | e :: r' => if e =? 10 then word f r' acc else word f r' (acc ++ [e])
    end
  else if c =? 39 then
    match until_sq r with
    | (b, None) => (acc ++ b, false, [])
    | (b, Some r') => word f r' (acc ++ b)
    end
  else if c =? 34 then
    match dq_body (S (length r)) r with
    | (b, None) => (acc ++ b, false, [])
    | (b, Some r') => word f r' (acc ++ b)
    end
  else word f r (acc ++ [c]).
Proof. reflexivity. Qed.

(* what the scanner does on a word, given the reference's (text, closed?, remaining input) *)
Definition word_post (st : state) (s acc : bytes) (res : bytes * bool * bytes) : Prop :=
  let '(w, ok, r) := res in
  if ok then scan_next s st acc = NEmit w r stBreak \/ (r = [] /\ scan_next s st acc = NEof true w stWord)
  else r = [] /\ exists st', scan_next s st acc = NEof true w st' /\ complete_state st' = false.

(* a word may start in stWord, or in stBreak at a byte that is not a separator *)
Definition start_ok (st : state) (s : bytes) : Prop :=
  st = stWord \/
  (st = stBreak /\ match s with
                   | [] => False
                   | c :: r => is_break c = false /\ (c = 92 -> forall r', r <> 10 :: r')
                   end).

Lemma word_post_eq st st' s s' acc acc' res :
  scan_next s st acc = scan_next s' st' acc' -> word_post st' s' acc' res -> word_post st s acc res.
Proof. intros E. unfold word_post. destruct res as [[w ok] r]. rewrite E. tauto. Qed.

Lemma scan_word : forall f s st acc, (length s < f)%nat -> start_ok st s -> word_post st s acc (word f s acc).
Proof.
  induction f as [|f IH]; intros s st acc Hf Hst; [lia|].
  destruct s as [|c r].
  - destruct Hst as [->|[_ []]]. cbn. right. split; reflexivity.
  - cbn [length] in Hf. rewrite word_step. unfold is_break, SP, TAB, NL.
    assert (Hw: forall s' acc', (length s' <= length r)%nat -> word_post stWord s' acc' (word f s' acc')).
    { intros s' acc' Hl. apply IH; [lia|left; reflexivity]. }
    byte_split c; cbn [N.eqb Pos.eqb orb].
    + (* tab *) destruct Hst as [->|[-> [Hb _]]]; [|discriminate Hb].
      cbn. left. reflexivity.
    + (* newline *) destruct Hst as [->|[-> [Hb _]]]; [|discriminate Hb].
      cbn. left. reflexivity.
    + (* space *) destruct Hst as [->|[-> [Hb _]]]; [|discriminate Hb].
      cbn. left. reflexivity.
    + (* double quote *)
      assert (Hd := scan_double (S (length r)) r acc ltac:(lia)). unfold dq_post in Hd.
      assert (E: scan_next (34 :: r) st acc = scan_next r stDouble acc).
      { rewrite scan_step. destruct Hst as [->|[-> _]]; reflexivity. }
      destruct (dq_body (S (length r)) r) as [b [r'|]] eqn:Eb.
      * apply dq_body_len in Eb.
        eapply word_post_eq; [rewrite E; exact Hd|]. apply Hw. lia.
      * unfold word_post. rewrite E. destruct Hd as (st' & H1 & H2).
        split; [reflexivity|]. exists st'. split; assumption.
    + (* single quote *)
      assert (E: scan_next (39 :: r) st acc = scan_next r stSingle acc).
      { rewrite scan_step. destruct Hst as [->|[-> _]]; reflexivity. }
      rewrite scan_single in E.
      destruct (until_sq r) as [b [r'|]] eqn:Eb.
      * apply until_sq_len in Eb.
        eapply word_post_eq; [exact E|]. apply Hw. lia.
      * unfold word_post. rewrite E. split; [reflexivity|]. exists stSingle. split; reflexivity.
    + (* backslash *)
      destruct r as [|e r'].
      * unfold word_post. split; [reflexivity|].
        destruct Hst as [->|[-> _]]; [exists stWordQ|exists stBreakQ]; split; reflexivity.
      * cbn [length] in Hw.
        byte_split e; cbn [N.eqb Pos.eqb].
        2: { (* continuation: only inside a word *)
             destruct Hst as [->|[-> [_ Hn]]]; [|exfalso; exact (Hn eq_refl r' eq_refl)].
             eapply word_post_eq; [|apply Hw; lia]. reflexivity. }
        all: eapply word_post_eq; [|apply Hw; lia];
             destruct Hst as [->|[-> _]]; scan_go; reflexivity.
    + (* ordinary byte *)
      eapply word_post_eq; [|apply Hw; lia].
      rewrite scan_step, Hcl. destruct Hst as [->|[-> _]]; reflexivity.
Qed.

(* ---- separators ---- *)

Lemma skip_step f c r :
  skip_sep (S f) (c :: r) =
  if is_break c then skip_sep f r
  else if c =? 92 then
    match r with
    | e :: r' => if e =? 10 then skip_sep f r' else c :: r
    | [] => c :: r
    end
  else c :: r.
Proof. reflexivity. Qed.

Definition sep_free (s : bytes) : Prop :=
  match s with
  | [] => True
  | c :: r => is_break c = false /\ (c = 92 -> forall r', r <> 10 :: r')
  end.

Lemma scan_skip : forall f s acc, (length s <= f)%nat ->
  scan_next s stBreak acc = scan_next (skip_sep f s) stBreak acc /\
  (length (skip_sep f s) <= length s)%nat /\ sep_free (skip_sep f s).
Proof.
  induction f as [|f IH]; intros s acc Hf.
  - destruct s; [|simpl in Hf; lia]. cbn. auto.
  - destruct s as [|c r]; [cbn; auto|].
    cbn [length] in Hf. rewrite skip_step. unfold is_break, SP, TAB, NL.
    byte_split c; cbn [N.eqb Pos.eqb orb].
    1-3: (destruct (IH r acc ltac:(lia)) as (H1 & H2 & H3); rewrite scan_step; cbn [class_of update];
          rewrite H1; cbn [length]; repeat split; [lia|exact H3]).
    1-2: (cbn [length sep_free]; repeat split; try lia; try reflexivity; intros H; discriminate H).
    + destruct r as [|e r'].
      * cbn [length sep_free]. repeat split; try lia; try reflexivity. intros _ r2 H; discriminate H.
      * destruct (N.eqb_spec e 10) as [->|He].
        -- cbn [length] in Hf. destruct (IH r' acc ltac:(lia)) as (H1 & H2 & H3).
           scan_go. rewrite H1. cbn [length]. repeat split; [lia|exact H3].
        -- cbn [length sep_free]. repeat split; try lia; try reflexivity.
           intros _ r2 E. inversion E. congruence.
    + cbn [length sep_free]. unfold is_break, SP, TAB, NL. rewrite E9, E10, E32. repeat split; try lia.
      intros ->. discriminate.
Qed.

(* ---- one call of Next between tokens ---- *)

Definition between (sc : scanner) : Prop := eof sc = false /\ st sc = stBreak.

Lemma scan_emit_len : forall inp st acc t r s', scan_next inp st acc = NEmit t r s' -> (length r < length inp)%nat.
Proof.
  induction inp as [|c inp IH]; intros st acc t r s' H; [discriminate|].
  rewrite scan_step in H. destruct (update st (class_of c)) as [[s2 a]|]; [|discriminate].
  destruct a; try (apply IH in H; simpl; lia).
  inversion H; subst. simpl. lia.
Qed.

Inductive next_ref_res (sc : scanner) : Prop :=
| NR_none : skip_sep (length (inp sc)) (inp sc) = [] ->
            next sc = Some ({| inp := []; st := stBreak; cur := []; eof := true |}, false) -> next_ref_res sc
| NR_word : forall s' w ok r, s' = skip_sep (length (inp sc)) (inp sc) -> s' <> [] ->
            (0 < length (inp sc))%nat ->
            word (S (length s')) s' [] = (w, ok, r) ->
            (ok = true /\ (length r < length (inp sc))%nat /\
               next sc = Some ({| inp := r; st := stBreak; cur := w; eof := false |}, true)) \/
            (ok = true /\ r = [] /\ next sc = Some ({| inp := []; st := stWord; cur := w; eof := true |}, true)) \/
            (ok = false /\ r = [] /\ exists st', complete_state st' = false /\
               next sc = Some ({| inp := []; st := st'; cur := w; eof := true |}, true)) ->
            next_ref_res sc.

Lemma next_ref sc : between sc -> next_ref_res sc.
Proof.
  intros [He Hs]. destruct sc as [i s c e]. cbn in He, Hs. subst e s.
  destruct (scan_skip (length i) i [] (le_n _)) as (H1 & H2 & H3).
  destruct (skip_sep (length i) i) as [|c0 r0] eqn:Es.
  - apply NR_none; [exact Es|]. unfold next. cbn [eof inp st]. rewrite H1. reflexivity.
  - pose proof (scan_word (S (length (c0 :: r0))) (c0 :: r0) stBreak [] ltac:(lia)) as Hw.
    specialize (Hw (or_intror (conj eq_refl H3))).
    destruct (word (S (length (c0 :: r0))) (c0 :: r0) []) as [[w ok] r] eqn:Ew.
    eapply NR_word; [cbn [inp]; rewrite Es; reflexivity|discriminate|cbn [inp length] in *; lia|exact Ew|].
    unfold word_post in Hw. unfold next. cbn [eof inp st]. rewrite H1.
    destruct ok.
    + destruct Hw as [Hw|[-> Hw]].
      * left. split; [reflexivity|]. pose proof (scan_emit_len _ _ _ _ _ _ Hw). split; [lia|].
        rewrite Hw. reflexivity.
      * right. left. rewrite Hw. auto.
    + destruct Hw as [-> (st' & Hw & Hc)]. right. right. split; [reflexivity|]. split; [reflexivity|].
      exists st'. split; [exact Hc|]. rewrite Hw. reflexivity.
Qed.

Lemma next_at_eof sc : eof sc = true -> next sc = Some (sc, false).
Proof. intros H. unfold next. rewrite H. reflexivity. Qed.

(* ---- the chain of Next calls against [fields] ---- *)

Inductive tok_chain : scanner -> list bytes -> bool -> scanner -> Prop :=
| chain_end sc ok fin : next sc = Some (fin, false) -> eof fin = true -> complete fin = ok ->
                        tok_chain sc [] ok fin
| chain_step sc sc' f fs ok fin : next sc = Some (sc', true) -> text sc' = f ->
                        complete sc' = (match fs with [] => ok | _ => true end) ->
                        tok_chain sc' fs ok fin -> tok_chain sc (f :: fs) ok fin.

Lemma skip_sep_nil f : skip_sep f [] = [].
Proof. destruct f; reflexivity. Qed.

Lemma fields_nil f : fields (S f) [] = ([], true).
Proof. reflexivity. Qed.

Lemma fields_chain : forall n sc, (length (inp sc) < n)%nat -> between sc ->
  exists fin, tok_chain sc (fst (fields n (inp sc))) (snd (fields n (inp sc))) fin.
Proof.
  induction n as [|n IH]; intros sc Hn Hb; [lia|].
  cbn [fields].
  destruct (next_ref sc Hb) as [Es Hnx | s' w ok r Es Hne Hpos Ew Hcases].
  - rewrite Es. eexists. apply chain_end; [exact Hnx|reflexivity|reflexivity].
  - rewrite <- Es. destruct s' as [|c0 r0]; [contradiction|]. rewrite Ew.
    destruct Hcases as [(-> & Hl & Hnx)|[(-> & -> & Hnx)|(-> & -> & st' & Hc & Hnx)]].
    + specialize (IH {| inp := r; st := stBreak; cur := w; eof := false |}).
      cbn [inp] in IH. destruct (IH ltac:(lia) (conj eq_refl eq_refl)) as [fin Hch].
      destruct (fields n r) as [ws fl] eqn:Ef. cbn [fst snd] in *.
      exists fin. eapply chain_step; [exact Hnx|reflexivity| |exact Hch].
      cbn. destruct ws; [|reflexivity].
      (* no further field: the flag is that of an empty remainder, true *)
      inversion Hch; subst. destruct n; [lia|]. cbn [fields] in Ef.
      destruct (skip_sep (length r) r); [inversion Ef; reflexivity|].
      destruct (word _ _ _) as [[w1 ok1] r1]. destruct ok1; [destruct (fields n r1)|]; inversion Ef.
    + destruct n as [|n]; [lia|]. rewrite fields_nil. cbn [fst snd].
      eexists. eapply chain_step; [exact Hnx|reflexivity|reflexivity|].
      apply chain_end; [apply next_at_eof; reflexivity|reflexivity|reflexivity].
    + cbn [fst snd]. eexists. eapply chain_step; [exact Hnx|reflexivity|cbn; exact Hc|].
      apply chain_end; [apply next_at_eof; reflexivity|reflexivity|cbn; exact Hc].
Qed.

Lemma ref_chain s sc : inp sc = s -> between sc ->
  exists fin, tok_chain sc (fst (ref_split s)) (snd (ref_split s)) fin.
Proof.
  intros <- Hb. unfold ref_split. apply fields_chain; [lia|exact Hb].
Qed.

(* ---- Split ---- *)

Lemma chain_split_loop : forall sc fs ok fin, tok_chain sc fs ok fin ->
  forall fuel toks, (length fs < fuel)%nat -> split_loop fuel sc toks = Some (fin, toks ++ fs).
Proof.
  induction 1 as [sc ok fin Hn _ _|sc sc' f fs ok fin Hn Ht Hc _ IH]; intros fuel toks Hf.
  - destruct fuel; [lia|]. cbn [split_loop]. rewrite Hn, app_nil_r. reflexivity.
  - destruct fuel; [lia|]. cbn [split_loop]. rewrite Hn, Ht. cbn [length] in Hf.
    rewrite IH by lia. rewrite <- app_assoc. reflexivity.
Qed.

Lemma chain_complete : forall sc fs ok fin, tok_chain sc fs ok fin -> complete fin = ok.
Proof. induction 1; assumption. Qed.

(* every Next that returns true consumed at least one byte, or set the end-of-input latch *)
Lemma chain_len : forall sc fs ok fin, tok_chain sc fs ok fin -> eof sc = false ->
  (length fs <= S (length (inp sc)))%nat.
Proof.
  induction 1 as [|sc sc' f fs ok fin Hn Ht Hc Hch IH]; intros He; [simpl; lia|].
  unfold next in Hn. rewrite He in Hn.
  destruct (scan_next (inp sc) (st sc) []) as [|tok r s'|has tok s'] eqn:E; [discriminate| |].
  - inversion Hn; subst sc'. apply scan_emit_len in E. cbn [eof inp] in IH. specialize (IH eq_refl).
    cbn [length]. lia.
  - inversion Hn; subst. inversion Hch; subst.
    + simpl. lia.
    + match goal with H : next _ = Some (_, true) |- _ => unfold next in H; cbn [eof] in H; inversion H end.
Qed.

Theorem split_ref s : split s = Some (ref_split s).
Proof.
  assert (Hb: between (reset s)) by (split; reflexivity).
  destruct (ref_chain s (reset s) eq_refl Hb) as [fin Hch].
  unfold split, scanner_split.
  pose proof (chain_len _ _ _ _ Hch eq_refl) as Hl. cbn [reset inp] in Hl.
  rewrite (chain_split_loop _ _ _ _ Hch) by (cbn [reset inp]; lia).
  rewrite (chain_complete _ _ _ _ Hch). cbn [app]. destruct (ref_split s); reflexivity.
Qed.

(* ---- sessions ---- *)

(* Next after the end: permanently false, text and Complete unchanged *)
Theorem next_sticky sc sc' : next sc = Some (sc', false) ->
  forall n, run_ops sc' (repeat ONext n) = repeat (RNext false (text sc') (complete sc')) n.
Proof.
  intros H.
  assert (He: eof sc' = true).
  { unfold next in H. destruct (eof sc) eqn:E; [inversion H; subst; exact E|].
    destruct (scan_next (inp sc) (st sc) []); inversion H; subst; reflexivity. }
  induction n as [|n IH]; [reflexivity|].
  cbn [repeat run_ops]. rewrite (next_at_eof sc' He), IH. reflexivity.
Qed.

(* n successive Next calls *)
Lemma chain_run : forall sc fs ok fin, tok_chain sc fs ok fin ->
  forall m, run_ops sc (repeat ONext (length fs + S m)) =
            tok_outs fs ok ++ repeat (RNext false (text fin) ok) (S m).
Proof.
  induction 1 as [sc ok fin Hn He Hc|sc sc' f fs ok fin Hn Ht Hc Hch IH]; intros m.
  - cbn [length Nat.add tok_outs app]. cbn [repeat run_ops]. rewrite Hn.
    rewrite (next_sticky sc fin Hn m), Hc. reflexivity.
  - cbn [length Nat.add repeat run_ops]. rewrite Hn, Ht, Hc, IH.
    destruct fs; reflexivity.
Qed.

Lemma run_ops_firstn : forall ops sc k, run_ops sc (firstn k ops) = firstn k (run_ops sc ops).
Proof.
  induction ops as [|o ops IH]; intros sc k; [destruct k; reflexivity|].
  destruct k; [reflexivity|]. cbn [firstn run_ops]. destruct o.
  - destruct (next sc) as [[sc' ok]|]; [cbn [firstn]; rewrite IH; reflexivity|].
    destruct k; reflexivity.
  - destruct (rest sc) as [sc' r]. cbn [firstn]. rewrite IH. reflexivity.
Qed.

Lemma firstn_repeat {A} (x : A) : forall k n, (k <= n)%nat -> firstn k (repeat x n) = repeat x k.
Proof.
  induction k; intros n H; [reflexivity|]. destruct n; [lia|]. cbn. rewrite IHk by lia. reflexivity.
Qed.

Theorem next_tokens s : exists t, forall n,
  run_ops (new_scanner s) (repeat ONext n) =
  firstn n (tok_outs (fst (ref_split s)) (snd (ref_split s)) ++ repeat (RNext false t (snd (ref_split s))) n).
Proof.
  assert (Hb: between (new_scanner s)) by (split; reflexivity).
  destruct (ref_chain s (new_scanner s) eq_refl Hb) as [fin Hch].
  exists (text fin). intros n.
  set (fs := fst (ref_split s)) in *. set (ok := snd (ref_split s)) in *.
  pose proof (chain_run _ _ _ _ Hch n) as Hr.
  assert (E: repeat ONext n = firstn n (repeat ONext (length fs + S n))) by (rewrite firstn_repeat by lia; reflexivity).
  rewrite E, run_ops_firstn, Hr.
  assert (Hlen: length (tok_outs fs ok) = length fs).
  { clear. induction fs as [|f [|g fs] IH]; [reflexivity|reflexivity|]. cbn [tok_outs length] in *. rewrite IH. reflexivity. }
  rewrite !firstn_app, Hlen. f_equal.
  rewrite !firstn_repeat by lia. reflexivity.
Qed.

(* ---- Rest ---- *)

Definition dead (o : sc_op) : sc_out :=
  match o with ONext => RNext false [] false | ORest => RRest [] end.

Lemma run_dead : forall ops sc, eof sc = true -> inp sc = [] -> cur sc = [] -> complete sc = false ->
  run_ops sc ops = map dead ops.
Proof.
  induction ops as [|o ops IH]; intros sc He Hi Hc Hm; [reflexivity|].
  destruct o; cbn [run_ops map dead].
  - rewrite (next_at_eof sc He). unfold text. rewrite Hc, Hm, IH by assumption. reflexivity.
  - unfold rest. rewrite Hi. rewrite IH; reflexivity.
Qed.

Theorem rest_then_dead sc ops :
  run_ops sc (ORest :: ops) = RRest (inp sc) :: map dead ops.
Proof.
  cbn [run_ops rest]. f_equal. apply run_dead; reflexivity.
Qed.

(* invariant of a session: the scanner against the reference state *)
Definition sess_rel (q : ref_state) (sc : scanner) : Prop :=
  match q with
  | RActive rem c =>
    (between sc /\ inp sc = rem /\ c = true) \/
    (eof sc = true /\ inp sc = [] /\ rem = [] /\ complete sc = c)
  | REnded t c => eof sc = true /\ inp sc = [] /\ text sc = t /\ complete sc = c
  end.

Lemma bytes_eqb_refl : forall a, bytes_eqb a a = true.
Proof. induction a as [|x a IH]; [reflexivity|]. cbn. rewrite N.eqb_refl, IH. reflexivity. Qed.

Lemma session_from_run : forall ops q sc, sess_rel q sc -> session_from q ops (run_ops sc ops) = true.
Proof.
  induction ops as [|o ops IH]; intros q sc Hr; [reflexivity|].
  destruct o; cbn [run_ops].
  - (* Next *)
    destruct q as [rem c|t c]; cbn [sess_rel] in Hr.
    + destruct Hr as [(Hb & Hi & ->)|(He & Hi & -> & Hc)].
      * destruct (next_ref sc Hb) as [Es Hnx | s' w ok r Es Hne Hpos Ew Hcases].
        -- rewrite Hnx. cbn [session_from ref_step]. rewrite <- Hi, Es. cbn.
           apply IH. cbn. auto.
        -- subst rem.
           assert (Hgo: forall sc2, next sc = Some (sc2, true) -> text sc2 = w -> complete sc2 = ok ->
                        sess_rel (RActive r ok) sc2 ->
                        session_from (RActive (inp sc) true) (ONext :: ops)
                          (match next sc with Some (sc', ok0) => RNext ok0 (text sc') (complete sc') :: run_ops sc' ops
                           | None => [RPanic] end) = true).
           { intros sc2 Hn Ht Hc Hrel. rewrite Hn. cbn [session_from ref_step]. rewrite <- Es.
             destruct s' as [|c0 r0]; [contradiction|]. rewrite Ew, Ht, Hc, bytes_eqb_refl.
             destruct ok; cbn; apply IH; exact Hrel. }
           destruct Hcases as [(-> & Hl & Hnx)|[(-> & -> & Hnx)|(-> & -> & st' & Hc & Hnx)]].
           ++ eapply (Hgo _ Hnx); [reflexivity|reflexivity|]. left. cbn. repeat split.
           ++ eapply (Hgo _ Hnx); [reflexivity|reflexivity|]. right. cbn. repeat split.
           ++ eapply (Hgo _ Hnx); [reflexivity|cbn; exact Hc|]. right. cbn. repeat split. exact Hc.
      * rewrite (next_at_eof sc He). cbn [session_from ref_step length skip_sep]. rewrite Hc.
        rewrite eqb_reflx. cbn. apply IH. cbn. auto.
    + destruct Hr as (He & Hi & Ht & Hc). rewrite (next_at_eof sc He).
      cbn [session_from ref_step]. rewrite Ht, Hc, bytes_eqb_refl, eqb_reflx. cbn. apply IH. cbn. auto.
  - (* Rest *)
    cbn [rest]. destruct q as [rem c|t c]; cbn [sess_rel] in Hr; cbn [session_from ref_step].
    + assert (Hi: inp sc = rem) by (destruct Hr as [(_ & Hi & _)|(_ & Hi & -> & _)]; assumption).
      rewrite Hi, bytes_eqb_refl. apply IH. cbn. auto.
    + destruct Hr as (_ & Hi & _). rewrite Hi. cbn. apply IH. cbn. auto.
Qed.

Theorem session_ref s ops : session_ok s ops (run_ops (new_scanner s) ops) = true.
Proof.
  apply session_from_run. left. repeat split.
Qed.

Theorem session_no_panic s ops : ~ In RPanic (run_ops (new_scanner s) ops).
Proof.
  pose proof (session_ref s ops) as H. unfold session_ok in H.
  remember (RActive s true) as q. clear Heqq.
  remember (run_ops (new_scanner s) ops) as outs. clear Heqouts.
  revert q outs H. induction ops as [|o ops IH]; intros q outs H Hin.
  - destruct outs; [contradiction|discriminate].
  - destruct outs as [|x outs]; [contradiction|]. cbn [session_from] in H.
    destruct (ref_step q o x) as [q'|] eqn:E; [|discriminate].
    destruct Hin as [->|Hin]; [|exact (IH _ _ H Hin)].
    destruct q, o; discriminate.
Qed.

(* ---- Rest after k calls of Next ---- *)

Lemma run_ops_app : forall a sc b,
  run_ops sc (a ++ b) =
  run_ops sc a ++ match run_sc sc a with Some sc' => run_ops sc' b | None => [] end.
Proof.
  induction a as [|o a IH]; intros sc b; [reflexivity|].
  destruct o; cbn [app run_ops run_sc].
  - destruct (next sc) as [[sc' ok]|]; [|reflexivity]. rewrite IH. reflexivity.
  - cbn [rest fst]. rewrite IH. reflexivity.
Qed.

Lemma ref_rest_nil k : ref_rest k [] = [].
Proof. destruct k; reflexivity. Qed.

Lemma run_sc_rest : forall k rem c sc, sess_rel (RActive rem c) sc ->
  exists sc', run_sc sc (repeat ONext k) = Some sc' /\ inp sc' = ref_rest k rem.
Proof.
  induction k as [|k IH]; intros rem c sc Hr.
  - exists sc. split; [reflexivity|]. cbn in Hr. destruct Hr as [(_ & Hi & _)|(_ & Hi & -> & _)]; exact Hi.
  - cbn [repeat run_sc ref_rest].
    assert (Hnil: forall c1 sc1, sess_rel (RActive [] c1) sc1 ->
              exists sc', run_sc sc1 (repeat ONext k) = Some sc' /\ inp sc' = []).
    { intros c1 sc1 H1. destruct (IH [] c1 sc1 H1) as (sc' & Ha & Hb). exists sc'. split; [exact Ha|].
      rewrite Hb. apply ref_rest_nil. }
    cbn [sess_rel] in Hr.
    destruct Hr as [(Hb & Hi & ->)|(He & Hi & -> & Hc)].
    + subst rem. destruct (next_ref sc Hb) as [Es Hnx | s' w ok r Es Hne Hpos Ew Hcases].
      * rewrite Hnx, Es. apply (Hnil true). right. cbn. auto.
      * rewrite <- Es. destruct s' as [|c0 r0]; [contradiction|]. rewrite Ew.
        destruct Hcases as [(-> & Hl & Hnx)|[(-> & -> & Hnx)|(-> & -> & st' & Hc & Hnx)]]; rewrite Hnx.
        -- apply (IH r true). left. cbn. repeat split.
        -- rewrite ref_rest_nil. apply (Hnil true). right. cbn. auto.
        -- rewrite ref_rest_nil. apply (Hnil false). right. cbn. auto.
    + rewrite (next_at_eof sc He). cbn [length skip_sep].
      apply (Hnil c). right. auto.
Qed.

Theorem rest_after_k s k ops :
  run_ops (new_scanner s) (repeat ONext k ++ ORest :: ops) =
  run_ops (new_scanner s) (repeat ONext k) ++ RRest (ref_rest k s) :: map dead ops.
Proof.
  rewrite run_ops_app.
  destruct (run_sc_rest k s true (new_scanner s)) as (sc' & Hrun & Hi).
  { left. repeat split. }
  rewrite Hrun, rest_then_dead, Hi. reflexivity.
Qed.

(* what Next consumed and what remains make up the input *)
Lemma scan_suffix : forall i st acc t r s', scan_next i st acc = NEmit t r s' -> exists p, i = p ++ r.
Proof.
  induction i as [|c i IH]; intros st acc t r s' H; [discriminate|].
  rewrite scan_step in H. destruct (update st (class_of c)) as [[s2 a]|]; [|discriminate].
  destruct a; try (apply IH in H; destruct H as [p ->]; exists (c :: p); reflexivity).
  inversion H; subst. exists [c]. reflexivity.
Qed.

Lemma next_suffix sc sc' ok : next sc = Some (sc', ok) -> exists p, inp sc = p ++ inp sc'.
Proof.
  unfold next. destruct (eof sc).
  - intros H; inversion H; subst. exists []. reflexivity.
  - destruct (scan_next (inp sc) (st sc) []) as [|t r s'|has t s'] eqn:E; intros H; inversion H; subst.
    + cbn [inp]. eapply scan_suffix. exact E.
    + exists (inp sc). cbn [inp]. rewrite app_nil_r. reflexivity.
Qed.

Lemma run_sc_suffix : forall k sc sc', run_sc sc (repeat ONext k) = Some sc' -> exists p, inp sc = p ++ inp sc'.
Proof.
  induction k as [|k IH]; intros sc sc' H.
  - inversion H; subst. exists []. reflexivity.
  - cbn [repeat run_sc] in H. destruct (next sc) as [[sc1 ok]|] eqn:En; [|discriminate].
    destruct (next_suffix _ _ _ En) as [p1 E1]. destruct (IH _ _ H) as [p2 E2].
    exists (p1 ++ p2). rewrite E1, E2, app_assoc. reflexivity.
Qed.

Theorem ref_rest_suffix s k : exists p, s = p ++ ref_rest k s.
Proof.
  destruct (run_sc_rest k s true (new_scanner s)) as (sc' & Hrun & Hi).
  { left. repeat split. }
  destruct (run_sc_suffix _ _ _ Hrun) as [p Hp]. exists p. rewrite <- Hi. exact Hp.
Qed.

(* the three facts about Rest after k calls of Next, in terms of the model's scanner *)
Theorem rest_model s k : exists sc consumed,
  run_sc (new_scanner s) (repeat ONext k) = Some sc /\
  s = consumed ++ inp sc /\ inp sc = ref_rest k s /\
  forall ops, run_ops sc (ORest :: ops) = RRest (inp sc) :: map dead ops.
Proof.
  destruct (run_sc_rest k s true (new_scanner s)) as (sc' & Hrun & Hi).
  { left. repeat split. }
  destruct (run_sc_suffix _ _ _ Hrun) as [p Hp]. exists sc', p.
  split; [exact Hrun|]. split; [exact Hp|]. split; [exact Hi|]. intros ops. apply rest_then_dead.
Qed.

(* ---- what k calls of Next consumed determines their observations ---- *)

Definition with_inp (sc : scanner) (i : bytes) : scanner :=
  {| inp := i; st := st sc; cur := cur sc; eof := eof sc |}.

Lemma scan_emit_prefix : forall i st acc t r s', scan_next i st acc = NEmit t r s' ->
  exists p, i = p ++ r /\ forall r2, scan_next (p ++ r2) st acc = NEmit t r2 s'.
Proof.
  induction i as [|c i IH]; intros st acc t r s' H; [discriminate|].
  rewrite scan_step in H. destruct (update st (class_of c)) as [[s2 a]|] eqn:Eu; [|discriminate].
  destruct a.
  1-3: (apply IH in H; destruct H as (p & -> & Hp); exists (c :: p); split; [reflexivity|];
        intros r2; cbn [app]; rewrite scan_step, Eu; apply Hp).
  inversion H; subst. exists [c]. split; [reflexivity|]. intros r2. cbn [app]. rewrite scan_step, Eu. reflexivity.
Qed.

Lemma run_sc_eof : forall k sc sc', eof sc = true -> run_sc sc (repeat ONext k) = Some sc' -> sc' = sc.
Proof.
  induction k as [|k IH]; intros sc sc' He H; [inversion H; reflexivity|].
  cbn [repeat run_sc] in H. rewrite (next_at_eof sc He) in H. apply IH; assumption.
Qed.

Lemma consumed_prefix : forall k sc0 sc, run_sc sc0 (repeat ONext k) = Some sc ->
  exists p, inp sc0 = p ++ inp sc /\
            run_ops (with_inp sc0 p) (repeat ONext k) = run_ops sc0 (repeat ONext k).
Proof.
  induction k as [|k IH]; intros sc0 sc H.
  - inversion H; subst. exists []. split; reflexivity.
  - cbn [repeat run_sc run_ops] in *.
    destruct (eof sc0) eqn:He.
    + rewrite (next_at_eof sc0 He) in *. destruct (IH _ _ H) as (p & Hp & Hr).
      exists p. split; [exact Hp|].
      assert (Hn: next (with_inp sc0 p) = Some (with_inp sc0 p, false)) by (apply next_at_eof; exact He).
      rewrite Hn, Hr. reflexivity.
    + unfold next in *. cbn [with_inp eof inp st]. rewrite He in *.
      destruct (scan_next (inp sc0) (st sc0) []) as [|t r s'|has t s'] eqn:E; [discriminate| |].
      * destruct (scan_emit_prefix _ _ _ _ _ _ E) as (p1 & Hp1 & Hsc).
        destruct (IH _ _ H) as (p' & Hp' & Hr). cbn [inp] in Hp'.
        exists (p1 ++ p'). split; [rewrite Hp1, Hp', app_assoc; reflexivity|].
        rewrite Hsc. cbn [text complete cur st]. unfold with_inp in Hr. cbn [st cur eof] in Hr.
        rewrite Hr. reflexivity.
      * apply run_sc_eof in H; [|reflexivity]. subst sc. cbn [inp].
        exists (inp sc0). split; [rewrite app_nil_r; reflexivity|]. rewrite E. reflexivity.
Qed.

Theorem rest_consumed s k : exists consumed,
  s = consumed ++ ref_rest k s /\
  run_ops (new_scanner consumed) (repeat ONext k) = run_ops (new_scanner s) (repeat ONext k).
Proof.
  destruct (run_sc_rest k s true (new_scanner s)) as (sc' & Hrun & Hi).
  { left. repeat split. }
  destruct (consumed_prefix _ _ _ Hrun) as (p & Hp & Hr). exists p.
  split; [rewrite <- Hi; exact Hp|exact Hr].
Qed.
