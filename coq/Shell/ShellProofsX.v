(* C16: sessions over the whole Scanner API (Next, Rest, Err, Reset, Scanner.Split, Each) against
   the reference session checker [session_okx] of ShellSession.v.  Over the hand transcription
   (ShellSkel.Hand), like ShellProofs16.v whose invariant [sess_rel] and lemmas are reused;
   transported to the model in ShellFinal.v. *)
From Coq Require Import NArith List Bool Lia Arith.
Import ListNotations.
From Mds Require Import Gen.ShellTable Shell.ShellModel Shell.ShellSpec Shell.ShellSession Shell.ShellSkel Shell.ShellProofs16.
Import ShellSkel.Hand.
Local Open Scope N_scope.

Lemma list_bytes_eqb_refl : forall l, list_bytes_eqb l l = true.
Proof. induction l as [|x l IH]; [reflexivity|]. cbn. rewrite bytes_eqb_refl, IH. reflexivity. Qed.

(* ---- one call of Next / Rest keeps the invariant ---- *)

Lemma step_next q sc : sess_rel q sc ->
  exists sc' ok q', next sc = Some (sc', ok) /\
    ref_step q ONext (RNext ok (text sc') (complete sc')) = Some q' /\ sess_rel q' sc'.
Proof.
  intros Hr. destruct q as [rem c|t c]; cbn [sess_rel] in Hr.
  - destruct Hr as [(Hb & Hi & ->)|(He & Hi & -> & Hc)].
    + destruct (next_ref sc Hb) as [Es Hnx | s' w ok r Es Hne Hpos Ew Hcases].
      * eexists _, _, _. split; [exact Hnx|]. cbn [ref_step]. rewrite <- Hi, Es. cbn.
        split; [reflexivity|]. cbn. auto.
      * subst rem.
        assert (Hgo: forall sc2, next sc = Some (sc2, true) -> text sc2 = w -> complete sc2 = ok ->
                  sess_rel (RActive r ok) sc2 ->
                  exists sc' ok0 q', next sc = Some (sc', ok0) /\
                    ref_step (RActive (inp sc) true) ONext (RNext ok0 (text sc') (complete sc')) = Some q' /\ sess_rel q' sc').
        { intros sc2 Hn Ht Hc Hrel. exists sc2, true, (RActive r ok). split; [exact Hn|].
          cbn [ref_step]. rewrite <- Es. destruct s' as [|c0 r0]; [contradiction|].
          rewrite Ew, Ht, Hc, bytes_eqb_refl. destruct ok; cbn; split; auto. }
        destruct Hcases as [(-> & Hl & Hnx)|[(-> & -> & Hnx)|(-> & -> & st' & Hc & Hnx)]].
        -- eapply (Hgo _ Hnx); [reflexivity|reflexivity|]. left. cbn. repeat split.
        -- eapply (Hgo _ Hnx); [reflexivity|reflexivity|]. right. cbn. repeat split.
        -- eapply (Hgo _ Hnx); [reflexivity|cbn; exact Hc|]. right. cbn. repeat split. exact Hc.
    + exists sc, false, (REnded (text sc) c). rewrite (next_at_eof sc He). split; [reflexivity|].
      cbn [ref_step length skip_sep]. rewrite Hc, eqb_reflx. cbn. split; [reflexivity|]. cbn. auto.
  - destruct Hr as (He & Hi & Ht & Hc). exists sc, false, (REnded t c).
    rewrite (next_at_eof sc He). split; [reflexivity|].
    cbn [ref_step]. rewrite Ht, Hc, bytes_eqb_refl, eqb_reflx. cbn. split; [reflexivity|]. cbn. auto.
Qed.

Lemma step_rest q sc : sess_rel q sc ->
  ref_step q ORest (RRest (inp sc)) = Some (REnded [] false) /\ sess_rel (REnded [] false) (fst (rest sc)).
Proof.
  intros Hr. assert (Hd: sess_rel (REnded [] false) (fst (rest sc))) by (cbn; auto).
  split; [|exact Hd]. destruct q as [rem c|t c]; cbn [sess_rel] in Hr; cbn [ref_step].
  - assert (Hi: inp sc = rem) by (destruct Hr as [(_ & Hi & _)|(_ & Hi & -> & _)]; assumption).
    rewrite Hi, bytes_eqb_refl. reflexivity.
  - destruct Hr as (_ & Hi & _). rewrite Hi. reflexivity.
Qed.

(* ---- running to the end: Scanner.Split, and Each whose callback never stops it ---- *)

Lemma fields_nil_flag n s ok : fields (S n) s = ([], ok) -> ok = true.
Proof.
  cbn [fields]. destruct (skip_sep (length s) s) as [|c0 r0]; [intros H; inversion H; reflexivity|].
  destruct (word _ _ _) as [[w o] r]. destruct o; [destruct (fields n r)|]; intros H; inversion H.
Qed.

(* where a chain of Next calls ends: the error is latched and nothing is left unread *)
Lemma chain_fin : forall sc fs ok fin, tok_chain sc fs ok fin ->
  (eof sc = true -> inp sc = []) -> eof fin = true /\ inp fin = [].
Proof.
  induction 1 as [sc ok fin Hn He Hc|sc sc' f fs ok fin Hn Ht Hc Hch IH]; intros Hpre.
  - split; [exact He|]. unfold next in Hn. destruct (eof sc) eqn:E.
    + inversion Hn; subst. apply Hpre. reflexivity.
    + destruct (scan_next (inp sc) (st sc) []); inversion Hn; subst. reflexivity.
  - apply IH. unfold next in Hn. destruct (eof sc) eqn:E; [inversion Hn|].
    destruct (scan_next (inp sc) (st sc) []); inversion Hn; subst; cbn; [discriminate|reflexivity].
Qed.

Lemma chain_each_all : forall sc fs ok fin, tok_chain sc fs ok fin ->
  forall fuel stop toks, (length fs < fuel)%nat ->
  (stop <= length toks \/ length toks + length fs < stop)%nat ->
  each_loop fuel sc stop toks = Some (fin, toks ++ fs).
Proof.
  induction 1 as [sc ok fin Hn _ _|sc sc' f fs ok fin Hn Ht Hc _ IH]; intros fuel stop toks Hf Hs.
  - destruct fuel; [lia|]. cbn [each_loop]. rewrite Hn, app_nil_r. reflexivity.
  - destruct fuel; [lia|]. cbn [each_loop]. rewrite Hn, Ht. cbv zeta. cbn [length] in Hf, Hs.
    assert (E: Nat.eqb (length (toks ++ [f])) stop = false).
    { apply Nat.eqb_neq. rewrite app_length. cbn [length]. lia. }
    rewrite E, IH; [rewrite <- app_assoc; reflexivity|lia|rewrite app_length; cbn [length]; lia].
Qed.

(* what a run to the end reports from a scanner related to reference state q *)
Lemma to_end q sc : sess_rel q sc ->
  exists fin toks q',
    scanner_split sc = Some (fin, toks) /\
    (forall stop, (stop = 0 \/ length toks < stop)%nat -> scanner_each sc stop = Some (fin, toks)) /\
    ref_to_end q toks (text fin) (complete fin) = Some q' /\ sess_rel q' fin.
Proof.
  intros Hr.
  assert (Hat_end: eof sc = true -> inp sc = [] ->
            scanner_split sc = Some (sc, []) /\ forall stop, scanner_each sc stop = Some (sc, [])).
  { intros He Hi. unfold scanner_split, scanner_each. rewrite Hi. cbn [length split_loop each_loop].
    rewrite (next_at_eof sc He). split; [reflexivity|]. intros stop. reflexivity. }
  destruct q as [rem c|t c]; cbn [sess_rel] in Hr.
  - destruct Hr as [(Hb & Hi & ->)|(He & Hi & -> & Hc)].
    + destruct (fields_chain (S (length (inp sc))) sc (Nat.lt_succ_diag_r _) Hb) as [fin Hch].
      destruct (fields (S (length (inp sc))) (inp sc)) as [fs ok] eqn:Ef. cbn [fst snd] in Hch.
      pose proof (chain_len _ _ _ _ Hch (proj1 Hb)) as Hl.
      destruct (chain_fin _ _ _ _ Hch) as [Hfe Hfi]. { destruct Hb as [He _]. rewrite He. discriminate. }
      pose proof (chain_complete _ _ _ _ Hch) as Hcm.
      exists fin, fs, (REnded (text fin) (complete fin)). split; [|split; [|split]].
      * unfold scanner_split. rewrite (chain_split_loop _ _ _ _ Hch) by lia. reflexivity.
      * intros stop Hs. unfold scanner_each.
        rewrite (chain_each_all _ _ _ _ Hch (S (S (length (inp sc)))) stop []); [reflexivity|lia|cbn [length]; unfold ShellModel.bytes, ShellSpec.bytes in *; lia].
      * cbn [ref_to_end]. rewrite <- Hi, Ef, list_bytes_eqb_refl, Hcm.
        destruct fs as [|f0 fs0].
        -- rewrite (fields_nil_flag _ _ _ Ef). reflexivity.
        -- rewrite eqb_reflx. reflexivity.
      * cbn. auto.
    + destruct (Hat_end He Hi) as [H1 H2].
      exists sc, [], (REnded (text sc) c). split; [exact H1|]. split; [intros; apply H2|].
      split; [|cbn; auto]. cbn. rewrite Hc, eqb_reflx. reflexivity.
  - destruct Hr as (He & Hi & Ht & Hc). destruct (Hat_end He Hi) as [H1 H2].
    exists sc, [], (REnded t c). split; [exact H1|]. split; [intros; apply H2|].
    split; [|cbn; auto]. cbn. rewrite Ht, Hc, bytes_eqb_refl, eqb_reflx. reflexivity.
Qed.

(* ---- Each stopped by its callback at the k-th remaining word ---- *)

Lemma last_cons_ne {A} (x : A) l d : l <> [] -> last (x :: l) d = last l d.
Proof. destruct l; [contradiction|reflexivity]. Qed.

Lemma firstn_ne {A} k (l : list A) : (1 <= k)%nat -> l <> [] -> firstn k l <> [].
Proof. destruct k; [lia|]. destruct l; [contradiction|]. discriminate. Qed.

Lemma each_prefix : forall n k sc toks fuel stop,
  (length (inp sc) < n)%nat -> between sc ->
  (1 <= k <= length (fst (fields n (inp sc))))%nat -> stop = (length toks + k)%nat -> (k < fuel)%nat ->
  let fs := fst (fields n (inp sc)) in
  let okk := if Nat.eqb k (length fs) then snd (fields n (inp sc)) else true in
  exists sc', each_loop fuel sc stop toks = Some (sc', toks ++ firstn k fs) /\
              text sc' = last (firstn k fs) [] /\ complete sc' = okk /\
              sess_rel (RActive (ref_rest k (inp sc)) okk) sc'.
Proof.
  induction n as [|n IH]; intros k sc toks fuel stop Hn Hb Hk Hstop Hfuel; [lia|].
  destruct fuel as [|fuel]; [lia|]. destruct k as [|k]; [lia|].
  cbn [fields ref_rest] in *.
  destruct (next_ref sc Hb) as [Es Hnx | s' w ok r Es Hne Hpos Ew Hcases].
  - rewrite Es in Hk. cbn in Hk. lia.
  - rewrite <- Es in *. destruct s' as [|c0 r0]; [contradiction|]. rewrite Ew in *.
    assert (Hone: forall sc2 ws fl, next sc = Some (sc2, true) -> text sc2 = w ->
              (if ok then let '(ws0, fin) := fields n r in (w :: ws0, fin) else ([w], false)) = (w :: ws, fl) ->
              k = 0%nat ->
              each_loop (S fuel) sc stop toks = Some (sc2, toks ++ [w])).
    { intros sc2 ws fl Hn2 Ht _ ->. cbn [each_loop]. rewrite Hn2, Ht. cbv zeta.
      rewrite app_length. cbn [length]. rewrite Hstop, Nat.eqb_refl. reflexivity. }
    destruct Hcases as [(-> & Hl & Hnx)|[(-> & -> & Hnx)|(-> & -> & st' & Hc & Hnx)]].
    + (* the word was closed by a separator; more input may follow *)
      destruct (fields n r) as [ws fl] eqn:Ef. cbn [fst snd length] in *.
      destruct k as [|k].
      * eexists. split; [eapply Hone; [exact Hnx|reflexivity|reflexivity|reflexivity]|].
        cbn [firstn last]. split; [reflexivity|].
        assert (Hokk: (if Nat.eqb 1 (S (length ws)) then fl else true) = true).
        { destruct ws as [|w1 ws]; [|reflexivity]. cbn. destruct n; [lia|]. exact (fields_nil_flag _ _ _ Ef). }
        rewrite Hokk. split; [reflexivity|]. left. cbn. repeat split.
      * specialize (IH (S k) {| inp := r; st := stBreak; cur := w; eof := false |} (toks ++ [w]) fuel stop).
        cbn [inp] in IH. rewrite Ef in IH. cbn [fst snd] in IH.
        destruct IH as (sc' & He & Ht & Hc & Hrel);
          [lia|split; reflexivity|lia|rewrite app_length; cbn [length]; lia|lia|].
        exists sc'. cbn [each_loop]. rewrite Hnx. cbv zeta. cbn [text cur].
        match goal with |- context [Nat.eqb ?a stop] =>
          assert (E: Nat.eqb a stop = false) by (apply Nat.eqb_neq; rewrite app_length; cbn [length]; lia) end.
        rewrite E. split; [rewrite <- app_assoc in He; exact He|].
        change (firstn (S (S k)) (w :: ws)) with (w :: firstn (S k) ws).
        rewrite last_cons_ne by (apply firstn_ne; [lia|destruct ws; [cbn in Hk; lia|discriminate]]).
        split; [exact Ht|]. change (Nat.eqb (S (S k)) (S (length ws))) with (Nat.eqb (S k) (length ws)).
        split; [exact Hc|exact Hrel].
    + (* the word was closed by the end of the input *)
      destruct n as [|n]; [lia|]. rewrite fields_nil in *. cbn [fst snd length] in *.
      assert (k = 0%nat) by lia. subst k.
      eexists. split; [eapply Hone; [exact Hnx|reflexivity|reflexivity|reflexivity]|].
      cbn [firstn last Nat.eqb]. split; [reflexivity|]. split; [reflexivity|].
      rewrite ref_rest_nil. right. cbn. repeat split.
    + (* an unterminated word *)
      cbn [fst snd length] in *. assert (k = 0%nat) by lia. subst k.
      eexists. split; [eapply Hone; [exact Hnx|reflexivity|reflexivity|reflexivity]|].
      cbn [firstn last Nat.eqb]. split; [reflexivity|]. split; [cbn; exact Hc|].
      rewrite ref_rest_nil. right. cbn. repeat split. exact Hc.
Qed.

Lemma step_each s0 q sc stop : sess_rel q sc ->
  exists sc' toks q', scanner_each sc stop = Some (sc', toks) /\
    ref_stepx s0 q (XEach stop) (XREach toks (text sc') (complete sc')) = Some q' /\ sess_rel q' sc'.
Proof.
  intros Hr.
  destruct (to_end q sc Hr) as (fin & toks & q' & Hsp & Hea & Hre & Hrel).
  destruct q as [rem c|t c].
  - cbn [ref_stepx]. destruct (fields (S (length rem)) rem) as [fs ok] eqn:Ef.
    destruct (Nat.ltb 0 stop && Nat.leb stop (length fs)) eqn:Ecut.
    + (* stopped at word number stop *)
      apply andb_true_iff in Ecut. destruct Ecut as [E1 E2].
      apply Nat.ltb_lt in E1. apply Nat.leb_le in E2.
      cbn [sess_rel] in Hr. destruct Hr as [(Hb & Hi & ->)|(He & Hi & -> & Hc)].
      * subst rem.
        destruct (each_prefix (S (length (inp sc))) stop sc [] (S (S (length (inp sc)))) stop) as (sc' & He & Ht & Hc & Hrel');
          [lia|exact Hb|rewrite Ef; cbn [fst]; lia|reflexivity| |].
        { pose proof (fields_chain (S (length (inp sc))) sc (Nat.lt_succ_diag_r _) Hb) as [f2 Hch].
          rewrite Ef in Hch. cbn [fst snd] in Hch. pose proof (chain_len _ _ _ _ Hch (proj1 Hb)). lia. }
        rewrite Ef in *. cbn [fst snd app] in *.
        exists sc', (firstn stop fs), (RActive (ref_rest stop (inp sc)) (if Nat.eqb stop (length fs) then ok else true)).
        split; [exact He|]. rewrite list_bytes_eqb_refl, Ht, bytes_eqb_refl, Hc, eqb_reflx. cbn. split; [reflexivity|exact Hrel'].
      * cbn in Ef. inversion Ef; subst. cbn in E2. lia.
    + (* the callback never stops the iteration *)
      exists fin, toks, q'. cbn [ref_to_end] in Hre. rewrite Ef in Hre.
      assert (Ht: toks = fs).
      { destruct (list_bytes_eqb toks fs) eqn:E; [|discriminate Hre].
        clear - E. revert fs E. induction toks as [|x toks IH]; intros [|y fs] E; try discriminate; [reflexivity|].
        cbn in E. apply andb_true_iff in E. destruct E as [E1 E2]. f_equal; [|apply IH; exact E2].
        clear - E1. revert y E1. induction x as [|a x IHx]; intros [|b y] E; try discriminate; [reflexivity|].
        cbn in E. apply andb_true_iff in E. destruct E as [Ea Eb]. apply N.eqb_eq in Ea. f_equal; [exact Ea|apply IHx; exact Eb]. }
      split; [|split; [|exact Hrel]].
      * apply Hea. apply andb_false_iff in Ecut. destruct Ecut as [E|E].
        -- left. apply Nat.ltb_ge in E. lia.
        -- right. apply Nat.leb_gt in E. rewrite Ht. exact E.
      * cbn [ref_to_end]. rewrite Ef. exact Hre.
  - exists fin, toks, q'. cbn [ref_stepx]. split; [|split; [exact Hre|exact Hrel]].
    apply Hea. cbn [ref_to_end] in Hre. destruct toks; [|discriminate Hre].
    cbn [length]. destruct stop; [left; reflexivity|right; lia].
Qed.

(* ---- whole sessions ---- *)

Lemma session_fromx_run s0 : forall ops q sc, sess_rel q sc ->
  session_fromx s0 q ops (run_opsx s0 sc ops) = true.
Proof.
  induction ops as [|o ops IH]; intros q sc Hr; [reflexivity|].
  destruct o; cbn [run_opsx].
  - destruct (step_next q sc Hr) as (sc' & ok & q' & Hn & Hs & Hrel). rewrite Hn.
    cbn [session_fromx ref_stepx]. rewrite Hs. apply IH. exact Hrel.
  - destruct (step_rest q sc Hr) as [Hs Hrel]. cbn [rest] in *. cbn [session_fromx ref_stepx].
    rewrite Hs. apply IH. exact Hrel.
  - cbn [session_fromx ref_stepx].
    assert (E: match q with
               | RActive rem _ => if eof sc then (if is_nil rem then Some q else None) else Some q
               | REnded _ _ => if eof sc then Some q else None
               end = Some q).
    { destruct q as [rem c|t c]; cbn [sess_rel] in Hr.
      - destruct Hr as [((He & _) & _)|(He & _ & -> & _)]; rewrite He; reflexivity.
      - destruct Hr as (He & _). rewrite He. reflexivity. }
    rewrite E. apply IH. exact Hr.
  - cbn [session_fromx ref_stepx]. apply IH. left. repeat split.
  - destruct (to_end q sc Hr) as (fin & toks & q' & Hsp & _ & Hre & Hrel). rewrite Hsp.
    cbn [session_fromx ref_stepx]. rewrite Hre. apply IH. exact Hrel.
  - destruct (step_each s0 q sc stop Hr) as (sc' & toks & q' & He & Hs & Hrel). rewrite He.
    cbn [session_fromx]. rewrite Hs. apply IH. exact Hrel.
Qed.

Theorem sessionx_ref s ops : session_okx s ops (run_opsx s (new_scanner s) ops) = true.
Proof. apply session_fromx_run. left. repeat split. Qed.

Theorem sessionx_no_panic s ops : ~ In XRPanic (run_opsx s (new_scanner s) ops).
Proof.
  pose proof (sessionx_ref s ops) as H. unfold session_okx in H.
  remember (RActive s true) as q. clear Heqq.
  remember (run_opsx s (new_scanner s) ops) as outs. clear Heqouts.
  revert q outs H. induction ops as [|o ops IH]; intros q outs H Hin.
  - destruct outs; [contradiction|discriminate].
  - destruct outs as [|x outs]; [contradiction|]. cbn [session_fromx] in H.
    destruct (ref_stepx s q o x) as [q'|] eqn:E; [|discriminate].
    destruct Hin as [->|Hin]; [|exact (IH _ _ H Hin)].
    destruct o; discriminate.
Qed.

(* the sessions of Next/Rest calls are the sessions over the whole API that use only those two *)
Definition xop (o : sc_op) : sc_opx := match o with ONext => XNext | ORest => XRest end.
Definition xout (o : sc_out) : sc_outx :=
  match o with RNext ok t c => XRNext ok t c | RRest r => XRRest r | RPanic => XRPanic end.

Lemma run_opsx_basic s0 : forall ops sc, run_opsx s0 sc (map xop ops) = map xout (run_ops sc ops).
Proof.
  induction ops as [|o ops IH]; intros sc; [reflexivity|].
  destruct o; cbn [map xop run_opsx run_ops].
  - destruct (next sc) as [[sc' ok]|]; [cbn [map xout]; rewrite IH|]; reflexivity.
  - destruct (rest sc) as [sc' r]. cbn [map xout]. rewrite IH. reflexivity.
Qed.
