(* Reference semantics of a Scanner *session* (any sequence of Next / Rest calls), written with the
   reference tokenizer of ShellSpec.v only -- no table, no scanner state.  Definitions only.

   [session_ok s ops outs] decides whether [outs] is an acceptable list of observations for the
   calls [ops] on a scanner reading [s]:
     - while input remains, Next skips separators and returns the next reference word, its
       text, and Complete = "this word closed its quotes"; every word before the last is complete;
     - when no word remains Next returns false; Complete then still describes the final token
       (true when there was none); Text is not constrained at that first false, but
     - from then on every Next returns false with the *same* Text and Complete;
     - Rest returns exactly the input the reference has not consumed (the bytes after the
       separator that ended the last word), and afterwards Next is false, Text empty,
       Complete false, and a further Rest is empty.
   The same function is extracted and evaluated by the OCaml driver on the implementation's
   observations. *)
From Coq Require Import NArith List Bool.
Import ListNotations.
From Mds Require Import Shell.ShellModel Shell.ShellSpec.
Local Open Scope N_scope.

Inductive ref_state :=
| RActive (rem : ShellSpec.bytes) (c : bool)    (* unconsumed input; completeness of the last word *)
| REnded (t : ShellSpec.bytes) (c : bool).      (* a Next returned false, or Rest was called *)

Fixpoint bytes_eqb (a b : list N) : bool :=
  match a, b with
  | [], [] => true
  | x :: a', y :: b' => (x =? y) && bytes_eqb a' b'
  | _, _ => false
  end.

(* one call: Some next-state when the observation is acceptable *)
Definition ref_step (q : ref_state) (op : sc_op) (o : sc_out) : option ref_state :=
  match q, op, o with
  | RActive rem c, ONext, RNext ok t cm =>
    match skip_sep (length rem) rem with
    | [] => if negb ok && Bool.eqb cm c then Some (REnded t c) else None
    | s' => let '(w, okw, r) := word (S (length s')) s' [] in
            if ok && bytes_eqb t w && Bool.eqb cm okw then Some (RActive r okw) else None
    end
  | RActive rem c, ORest, RRest r => if bytes_eqb r rem then Some (REnded [] false) else None
  | REnded t c, ONext, RNext ok t' cm =>
    if negb ok && bytes_eqb t' t && Bool.eqb cm c then Some (REnded t c) else None
  | REnded t c, ORest, RRest r => if bytes_eqb r [] then Some (REnded [] false) else None
  | _, _, _ => None
  end.

Fixpoint session_from (q : ref_state) (ops : list sc_op) (outs : list sc_out) : bool :=
  match ops, outs with
  | [], [] => true
  | op :: ops', o :: outs' =>
    match ref_step q op o with
    | Some q' => session_from q' ops' outs'
    | None => false
    end
  | _, _ => false
  end.

Definition session_ok (s : ShellSpec.bytes) (ops : list sc_op) (outs : list sc_out) : bool :=
  session_from (RActive s true) ops outs.

(* The input the reference has not consumed after [k] words: the bytes after the separator that
   ended the k-th word (empty once the input is exhausted or a word was left open). *)
Fixpoint ref_rest (k : nat) (s : ShellSpec.bytes) : ShellSpec.bytes :=
  match k with
  | O => s
  | S k' =>
    match skip_sep (length s) s with
    | [] => []
    | s' => let '(_, _, r) := word (S (length s')) s' [] in ref_rest k' r
    end
  end.

(* The observations of [n] successive Next calls as the reference predicts them, given the
   fields and flag of [ref_split]: each field in turn (complete, except that the last carries the
   flag), then false forever with one unchanging text [t] and Complete = flag. *)
Fixpoint tok_outs (fs : list ShellSpec.bytes) (ok : bool) : list sc_out :=
  match fs with
  | [] => []
  | [f] => [RNext true f ok]
  | f :: fs' => RNext true f true :: tok_outs fs' ok
  end.

(* ---- sessions over the whole API: Next, Rest, Err, Reset, Scanner.Split, Each ----
   [s0] is the input a Reset goes back to (the harness resets to a fresh reader of the same
   input).  Reference readings:
     - Err: nil while unconsumed input remains; io.EOF once Next has returned false or Rest was
       called; either when the input is exhausted but no Next has reported false yet (the
       documentation does not say whether the call that returns the last token already reports
       io.EOF);
     - Reset: a new session on [s0];
     - Scanner.Split: all remaining reference words; afterwards the scanner is at its end, Complete
       is the flag of the last word (unchanged when there was none), Text is not constrained at that
       point (as after the first false Next) but stays what it is from then on;
     - Each with a callback returning false at its [stop]-th call: the first [stop] remaining words
       when there are that many -- then the scanner is exactly where [stop] calls of Next leave it,
       Text is the last word passed and Complete its flag -- and otherwise all of them, as for
       Scanner.Split. *)
Fixpoint list_bytes_eqb (a b : list (list N)) : bool :=
  match a, b with
  | [], [] => true
  | x :: a', y :: b' => bytes_eqb x y && list_bytes_eqb a' b'
  | _, _ => false
  end.

Definition is_nil {A} (l : list A) : bool := match l with [] => true | _ => false end.

(* what a run to the end must report from reference state [q] *)
Definition ref_to_end (q : ref_state) (toks : list (list N)) (t : list N) (cm : bool) : option ref_state :=
  match q with
  | RActive rem c =>
    let '(fs, ok) := fields (S (length rem)) rem in
    if list_bytes_eqb toks fs && Bool.eqb cm (match fs with [] => c | _ => ok end)
    then Some (REnded t cm) else None
  | REnded t0 c => if is_nil toks && bytes_eqb t t0 && Bool.eqb cm c then Some q else None
  end.

Definition ref_stepx (s0 : ShellSpec.bytes) (q : ref_state) (op : sc_opx) (o : sc_outx) : option ref_state :=
  match op, o with
  | XNext, XRNext ok t cm => ref_step q ONext (RNext ok t cm)
  | XRest, XRRest r => ref_step q ORest (RRest r)
  | XErr, XRErr e =>
    match q with
    | RActive rem _ => if e then (if is_nil rem then Some q else None) else Some q
    | REnded _ _ => if e then Some q else None
    end
  | XReset, XRReset => Some (RActive s0 true)
  | XSplit, XRSplit toks t cm => ref_to_end q toks t cm
  | XEach stop, XREach toks t cm =>
    match q with
    | RActive rem c =>
      let '(fs, ok) := fields (S (length rem)) rem in
      if Nat.ltb 0 stop && Nat.leb stop (length fs) then
        let okk := if Nat.eqb stop (length fs) then ok else true in
        if list_bytes_eqb toks (firstn stop fs) && bytes_eqb t (last toks []) && Bool.eqb cm okk
        then Some (RActive (ref_rest stop rem) okk) else None
      else ref_to_end q toks t cm
    | REnded _ _ => ref_to_end q toks t cm
    end
  | _, _ => None
  end.

Fixpoint session_fromx (s0 : ShellSpec.bytes) (q : ref_state) (ops : list sc_opx) (outs : list sc_outx) : bool :=
  match ops, outs with
  | [], [] => true
  | op :: ops', o :: outs' =>
    match ref_stepx s0 q op o with
    | Some q' => session_fromx s0 q' ops' outs'
    | None => false
    end
  | _, _ => false
  end.

Definition session_okx (s : ShellSpec.bytes) (ops : list sc_opx) (outs : list sc_outx) : bool :=
  session_fromx s (RActive s true) ops outs.
