(* Reference semantics of a Scanner *session* (any sequence of Next / Rest calls), written with the
   reference tokenizer of ShellSpec.v only -- no table, no scanner state.  Definitions only.

   [session_ok s ops outs] decides whether [outs] is an acceptable list of observations for the
   calls [ops] on a scanner reading [s]:
     - while input remains, Next skips separators and returns the next reference word, its
       text, and Complete = "this word closed its quotes"; every word before the last is complete;
     - when no word remains Next returns false; Complete then still describes the final token
       (true when there was none); Text is not constrained at that first false, but
     - from then on every Next returns false with the *same* Text and Complete;
     - Rest returns exactly the input the reference has not consumed (the bytes after the
       separator that ended the last word), and afterwards Next is false, Text empty,
       Complete false, and a further Rest is empty.
   The same function is extracted and evaluated by the OCaml driver on the implementation's
   observations. *)
From Coq Require Import NArith List Bool.
Import ListNotations.
From Mds Require Import Shell.ShellModel Shell.ShellSpec.
Local Open Scope N_scope.

Inductive ref_state :=
| RActive (rem : ShellSpec.bytes) (c : bool)    (* unconsumed input; completeness of the last word *)
| REnded (t : ShellSpec.bytes) (c : bool).      (* a Next returned false, or Rest was called *)

Fixpoint bytes_eqb (a b : list N) : bool :=
  match a, b with
  | [], [] => true
  | x :: a', y :: b' => (x =? y) && bytes_eqb a' b'
  | _, _ => false
  end.

(* one call: Some next-state when the observation is acceptable *)
Definition ref_step (q : ref_state) (op : sc_op) (o : sc_out) : option ref_state :=
  match q, op, o with
  | RActive rem c, ONext, RNext ok t cm =>
    match skip_sep (length rem) rem with
    | [] => if negb ok && Bool.eqb cm c then Some (REnded t c) else None
    | s' => let '(w, okw, r) := word (S (length s')) s' [] in
            if ok && bytes_eqb t w && Bool.eqb cm okw then Some (RActive r okw) else None
    end
  | RActive rem c, ORest, RRest r => if bytes_eqb r rem then Some (REnded [] false) else None
  | REnded t c, ONext, RNext ok t' cm =>
    if negb ok && bytes_eqb t' t && Bool.eqb cm c then Some (REnded t c) else None
  | REnded t c, ORest, RRest r => if bytes_eqb r [] then Some (REnded [] false) else None
  | _, _, _ => None
  end.

Fixpoint session_from (q : ref_state) (ops : list sc_op) (outs : list sc_out) : bool :=
  match ops, outs with
  | [], [] => true
  | op :: ops', o :: outs' =>
    match ref_step q op o with
    | Some q' => session_from q' ops' outs'
    | None => false
    end
  | _, _ => false
  end.

Definition session_ok (s : ShellSpec.bytes) (ops : list sc_op) (outs : list sc_out) : bool :=
  session_from (RActive s true) ops outs.

(* The input the reference has not consumed after [k] words: the bytes after the separator that
   ended the k-th word (empty once the input is exhausted or a word was left open). *)
Fixpoint ref_rest (k : nat) (s : ShellSpec.bytes) : ShellSpec.bytes :=
  match k with
  | O => s
  | S k' =>
    match skip_sep (length s) s with
    | [] => []
    | s' => let '(_, _, r) := word (S (length s')) s' [] in ref_rest k' r
    end
  end.

(* The observations of [n] successive Next calls as the reference predicts them, given the
   fields and flag of [ref_split]: each field in turn (complete, except that the last carries the
   flag), then false forever with one unchanging text [t] and Complete = flag. *)
Fixpoint tok_outs (fs : list ShellSpec.bytes) (ok : bool) : list sc_out :=
  match fs with
  | [] => []
  | [f] => [RNext true f ok]
  | f :: fs' => RNext true f true :: tok_outs fs' ok
  end.
