(* The control skeleton of shell/shell.go, transcribed by hand statement by statement ([Hand]), and
   the proof that the model of ShellModel.v -- which is assembled from the facts the translator
   reads from the function bodies (apply_action, next_*, rest_*, reset_*, split_resets,
   quotable_step, Quote_head, quote_head, quote_step, quote_end, quote_inq0, join_sep) -- computes
   exactly the same functions.  The proofs of ShellProofs*.v are carried out over [Hand] and
   transported to the model by these equations in ShellFinal.v.  When a statement of the Go source
   changes (an action appends something else, a guard of Quote moves, Rest stops latching the
   error, ...) the generated fact changes and the corresponding lemma here stops compiling. *)
From Coq Require Import NArith List Bool Lia.
Import ListNotations.
From Mds Require Import Gen.ShellTable Shell.ShellModel.
Local Open Scope N_scope.

Module Hand.

(* for {
     c, err := s.buf.ReadByte(); s.err = err
     if err == io.EOF { break } else if err != nil { return false }
     next := update[s.st][classOf[c]]; s.st = next.state
     switch next.action {
     case push:  s.cur.WriteByte(c)
     case xpush: s.cur.Write([]byte{'\\', c})
     case emit:  return true
     case drop:  continue
     default:    panic("unknown action") } }
   return s.st != stBreak *)
Fixpoint scan_next (inp : bytes) (s : state) (acc : bytes) : next_res :=
  match inp with
  | [] => NEof (eof_has_token s) acc s
  | c :: rest =>
    match update s (class_of c) with
    | None => NPanic
    | Some (s', a) =>
      match a with
      | push => scan_next rest s' (acc ++ [c])
      | xpush => scan_next rest s' (acc ++ [92; c])
      | emit => NEmit acc rest s'
      | drop => scan_next rest s' acc
      end
    end
  end.

(* Reset: s.buf.Reset(r); s.cur.Reset(); s.st = stBreak; s.err = nil -- nothing of the old state survives *)
Definition reset (i : bytes) : scanner := {| inp := i; st := reset_state; cur := []; eof := false |}.

(* if s.err != nil { return false }; s.cur.Reset(); the loop *)
Definition next (sc : scanner) : option (scanner * bool) :=
  if eof sc then Some (sc, false)
  else match scan_next (inp sc) (st sc) [] with
       | NPanic => None
       | NEmit tok rest s' => Some ({| inp := rest; st := s'; cur := tok; eof := false |}, true)
       | NEof has tok s' => Some ({| inp := []; st := s'; cur := tok; eof := true |}, has)
       end.

(* s.st = stNone; s.cur.Reset(); s.err = io.EOF; return s.buf (and the caller reads all of it) *)
Definition rest (sc : scanner) : scanner * bytes :=
  ({| inp := []; st := rest_state; cur := []; eof := true |}, inp sc).

Fixpoint split_loop (fuel : nat) (sc : scanner) (toks : list bytes) : option (scanner * list bytes) :=
  match fuel with
  | O => None
  | S f =>
    match next sc with
    | None => None
    | Some (sc', true) => split_loop f sc' (toks ++ [text sc'])
    | Some (sc', false) => Some (sc', toks)
    end
  end.

Definition scanner_split (sc : scanner) : option (scanner * list bytes) :=
  split_loop (S (S (length (inp sc)))) sc [].

Fixpoint each_loop (fuel : nat) (sc : scanner) (stop : nat) (toks : list bytes) : option (scanner * list bytes) :=
  match fuel with
  | O => None
  | S f =>
    match next sc with
    | None => None
    | Some (sc', true) =>
      let toks' := toks ++ [text sc'] in
      if Nat.eqb (length toks') stop then Some (sc', toks') else each_loop f sc' stop toks'
    | Some (sc', false) => Some (sc', toks)
    end
  end.

Definition scanner_each (sc : scanner) (stop : nat) : option (scanner * list bytes) :=
  each_loop (S (S (length (inp sc)))) sc stop [].

(* sc.Reset(strings.NewReader(s)); ss := sc.Split(); return ss, sc.Complete() *)
Definition split (s : bytes) : option (list bytes * bool) :=
  match scanner_split (reset s) with
  | None => None
  | Some (sc, toks) => Some (toks, complete sc)
  end.

(* quotable: if s[i] == '\'' { v |= quote } else if strings.IndexByte(allQuote, s[i]) >= 0 { v |= other } *)
Definition has_q (s : bytes) : bool := existsb (N.eqb 39) s.
Definition has_other (s : bytes) : bool := existsb (fun b => negb (N.eqb b 39) && mem b allQuote) s.

(* inq := false
   for i := range len(s) { ch := s[i]
     if ch == '\'' { if inq { buf.WriteByte('\''); inq = false }; buf.WriteByte('\\') }
     else if !inq && hasOther { buf.WriteByte('\''); inq = true }
     buf.WriteByte(ch) }
   if inq { buf.WriteByte('\'') } *)
Fixpoint quote_loop (s : bytes) (inq : bool) (hasOther : bool) : bytes :=
  match s with
  | [] => if inq then [39] else []
  | ch :: rest =>
    if N.eqb ch 39 then
      (if inq then [39] else []) ++ [92; ch] ++ quote_loop rest false hasOther
    else if negb inq && hasOther then
      [39; ch] ++ quote_loop rest true hasOther
    else ch :: quote_loop rest inq hasOther
  end.

(* Quote, and quote(s, buf) for what it appends: '' for the empty string; s itself when nothing
   needs quoting; the loop otherwise *)
Definition quote (s : bytes) : bytes :=
  match s with
  | [] => [39; 39]
  | _ => if negb (has_q s) && negb (has_other s) then s else quote_loop s false (has_other s)
  end.

Fixpoint join (ss : list bytes) : bytes :=
  match ss with
  | [] => []
  | [s] => quote s
  | s :: rest => quote s ++ [32] ++ join rest
  end.

Fixpoint run_ops (sc : scanner) (ops : list sc_op) : list sc_out :=
  match ops with
  | [] => []
  | ONext :: ops' =>
    match next sc with
    | None => [RPanic]
    | Some (sc', ok) => RNext ok (text sc') (complete sc') :: run_ops sc' ops'
    end
  | ORest :: ops' => let '(sc', r) := rest sc in RRest r :: run_ops sc' ops'
  end.

Fixpoint run_sc (sc : scanner) (ops : list sc_op) : option scanner :=
  match ops with
  | [] => Some sc
  | ONext :: ops' => match next sc with None => None | Some (sc', _) => run_sc sc' ops' end
  | ORest :: ops' => run_sc (fst (rest sc)) ops'
  end.

Fixpoint run_opsx (src : bytes) (sc : scanner) (ops : list sc_opx) : list sc_outx :=
  match ops with
  | [] => []
  | XNext :: ops' =>
    match next sc with
    | None => [XRPanic]
    | Some (sc', ok) => XRNext ok (text sc') (complete sc') :: run_opsx src sc' ops'
    end
  | XRest :: ops' => let '(sc', r) := rest sc in XRRest r :: run_opsx src sc' ops'
  | XErr :: ops' => XRErr (eof sc) :: run_opsx src sc ops'
  | XReset :: ops' => XRReset :: run_opsx src (reset src) ops'
  | XSplit :: ops' =>
    match scanner_split sc with
    | None => [XRPanic]
    | Some (sc', toks) => XRSplit toks (text sc') (complete sc') :: run_opsx src sc' ops'
    end
  | XEach stop :: ops' =>
    match scanner_each sc stop with
    | None => [XRPanic]
    | Some (sc', toks) => XREach toks (text sc') (complete sc') :: run_opsx src sc' ops'
    end
  end.

End Hand.

(* ---- the model assembled from the generated skeleton facts = the transcription ---- *)

(* breaks when a case of Next's action switch changes (what is appended, whether it returns) *)
Lemma scan_next_hand : forall i s acc, scan_next i s acc = Hand.scan_next i s acc.
Proof.
  induction i as [|c r IH]; intros s acc; [reflexivity|].
  cbn [scan_next Hand.scan_next].
  destruct (update s (class_of c)) as [[s' a]|]; [|reflexivity].
  destruct a; cbn [apply_action]; try apply IH; reflexivity.
Qed.

(* breaks when Next no longer tests the latch first, no longer clears the token, or no longer
   records the read error *)
Lemma next_hand sc : next sc = Hand.next sc.
Proof.
  unfold next, Hand.next.
  change next_checks_latch with true. change next_clears_cur with true. change next_latches_err with true.
  cbn [andb]. rewrite scan_next_hand. reflexivity.
Qed.

(* breaks when Rest no longer clears the token or no longer sets s.err = io.EOF *)
Lemma rest_hand sc : rest sc = Hand.rest sc.
Proof. reflexivity. Qed.

(* breaks when Reset leaves any field of the old scanner behind *)
Lemma reset_sc_hand sc i : reset_sc sc i = Hand.reset i.
Proof. reflexivity. Qed.

Lemma reset_hand i : reset i = Hand.reset i.
Proof. reflexivity. Qed.

Lemma split_loop_hand : forall fuel sc toks, split_loop fuel sc toks = Hand.split_loop fuel sc toks.
Proof.
  induction fuel as [|f IH]; intros sc toks; [reflexivity|].
  cbn [split_loop Hand.split_loop]. rewrite next_hand.
  destruct (Hand.next sc) as [[sc' [|]]|]; try reflexivity. apply IH.
Qed.

Lemma scanner_split_hand sc : scanner_split sc = Hand.scanner_split sc.
Proof. apply split_loop_hand. Qed.

Lemma each_loop_hand : forall fuel sc stop toks, each_loop fuel sc stop toks = Hand.each_loop fuel sc stop toks.
Proof.
  induction fuel as [|f IH]; intros sc stop toks; [reflexivity|].
  cbn [each_loop Hand.each_loop]. rewrite next_hand.
  destruct (Hand.next sc) as [[sc' [|]]|]; try reflexivity.
  cbv zeta. destruct (Nat.eqb _ stop); [reflexivity|apply IH].
Qed.

Lemma scanner_each_hand sc stop : scanner_each sc stop = Hand.scanner_each sc stop.
Proof. apply each_loop_hand. Qed.

(* breaks when Split stops resetting the pooled scanner: whatever state the pool hands out *)
Lemma split_from_hand sc s : split_from sc s = Hand.split s.
Proof.
  unfold split_from, Hand.split. change split_resets with true. cbv iota.
  rewrite reset_sc_hand, scanner_split_hand. reflexivity.
Qed.

Lemma split_hand s : split s = Hand.split s.
Proof. apply split_from_hand. Qed.

(* breaks when quotable's if-chain, the byte it compares with, or the set it searches changes *)
Lemma byte_flags_hand b : byte_flags b = (N.eqb b 39, negb (N.eqb b 39) && mem b allQuote).
Proof.
  unfold byte_flags. change quotable_char with 39. change quotable_set with allQuote.
  destruct (N.eqb b 39), (mem b allQuote); reflexivity.
Qed.

Lemma has_q_hand s : has_q s = Hand.has_q s.
Proof.
  unfold has_q, Hand.has_q. induction s as [|b s IH]; [reflexivity|].
  cbn [existsb]. rewrite IH, byte_flags_hand. cbn [fst]. rewrite (N.eqb_sym 39 b). reflexivity.
Qed.

Lemma has_other_hand s : has_other s = Hand.has_other s.
Proof.
  unfold has_other, Hand.has_other. induction s as [|b s IH]; [reflexivity|].
  cbn [existsb]. rewrite IH, byte_flags_hand. reflexivity.
Qed.

(* breaks when the body of quote's loop or its epilogue changes *)
Lemma quote_loop_hand : forall s inq h, quote_loop s inq h = Hand.quote_loop s inq h.
Proof.
  induction s as [|ch r IH]; intros inq h.
  - destruct inq, h; reflexivity.
  - cbn [quote_loop Hand.quote_loop]. unfold quote_step.
    destruct (N.eqb ch 39); destruct inq, h; cbn [negb andb app]; rewrite IH; reflexivity.
Qed.

(* breaks when a guard of quote changes, moves, or disappears, or inq starts out true *)
Lemma quote_buf_hand s : quote_buf s = Hand.quote s.
Proof.
  unfold quote_buf, Hand.quote. rewrite has_q_hand, has_other_hand, quote_loop_hand.
  change quote_inq0 with false.
  destruct s as [|c r]; [reflexivity|]. cbn [is_empty].
  destruct (Hand.has_q (c :: r)), (Hand.has_other (c :: r)); reflexivity.
Qed.

(* breaks when a guard of Quote changes, moves, or disappears *)
Lemma quote_hand s : quote s = Hand.quote s.
Proof.
  unfold quote. rewrite quote_buf_hand. unfold Hand.quote. rewrite has_q_hand, has_other_hand.
  destruct s as [|c r]; [reflexivity|]. cbn [is_empty].
  destruct (Hand.has_q (c :: r)), (Hand.has_other (c :: r)); reflexivity.
Qed.

(* breaks when Join writes another separator *)
Lemma join_hand ss : join ss = Hand.join ss.
Proof.
  destruct ss as [|s r]; [reflexivity|]. cbn [join].
  revert s. induction r as [|s2 r IH]; intros s.
  - cbn [join_tail Hand.join]. rewrite app_nil_r. apply quote_buf_hand.
  - cbn [join_tail]. change join_sep with [32].
    change (Hand.join (s :: s2 :: r)) with (Hand.quote s ++ [32] ++ Hand.join (s2 :: r)).
    rewrite <- IH, quote_buf_hand. reflexivity.
Qed.

Lemma run_ops_hand : forall ops sc, run_ops sc ops = Hand.run_ops sc ops.
Proof.
  induction ops as [|o ops IH]; intros sc; [reflexivity|].
  destruct o; cbn [run_ops Hand.run_ops].
  - rewrite next_hand. destruct (Hand.next sc) as [[sc' ok]|]; [rewrite IH|]; reflexivity.
  - rewrite rest_hand. destruct (Hand.rest sc) as [sc' r]. rewrite IH. reflexivity.
Qed.

Lemma run_sc_hand : forall ops sc, run_sc sc ops = Hand.run_sc sc ops.
Proof.
  induction ops as [|o ops IH]; intros sc; [reflexivity|].
  destruct o; cbn [run_sc Hand.run_sc].
  - rewrite next_hand. destruct (Hand.next sc) as [[sc' ok]|]; [apply IH|reflexivity].
  - rewrite rest_hand. apply IH.
Qed.

Lemma run_opsx_hand : forall ops src sc, run_opsx src sc ops = Hand.run_opsx src sc ops.
Proof.
  induction ops as [|o ops IH]; intros src sc; [reflexivity|].
  destruct o; cbn [run_opsx Hand.run_opsx].
  - rewrite next_hand. destruct (Hand.next sc) as [[sc' ok]|]; [rewrite IH|]; reflexivity.
  - rewrite rest_hand. destruct (Hand.rest sc) as [sc' r]. rewrite IH. reflexivity.
  - rewrite IH. reflexivity.
  - rewrite reset_sc_hand, IH. reflexivity.
  - rewrite scanner_split_hand. destruct (Hand.scanner_split sc) as [[sc' toks]|]; [rewrite IH|]; reflexivity.
  - rewrite scanner_each_hand. destruct (Hand.scanner_each sc stop) as [[sc' toks]|]; [rewrite IH|]; reflexivity.
Qed.
