(* C16: which observation lists does the extended reference [session_ok_ext] accept?

   The reference compares every observation with values computed from its own state, but NOT every
   field of every observation.  Read off [ShellSession.ref_step], [ref_to_end], [ref_stepx]:
     - Err while still scanning with input left: both answers are accepted (the known latitude);
     - the Text reported together with a Next that returns false when the input has just run out
       (reference state RActive): not compared; the reference REMEMBERS the reported text, so later
       Text / Next observations must repeat it;
     - the Text reported after Scanner.Split / Each that ran to the end of the input from RActive:
       not compared either (remembered likewise).
   [lat o m] is exactly that: o and m are the same observation up to the Err flag, or up to the Text
   field of a Next-false / Split / Each observation.  Everything else is pinned:
     [ref_step_ext_functional]  two observations the reference accepts for the same call in the same
                                state are equal (and lead to the same state), or related by [lat];
     [session_ext_unique]       an accepted observation list IS the model's, or the two have a common
                                prefix after which they differ by [lat] at one call;
     [session_ext_unique_strict] an accepted list with no Err, no Next-false, no Split, no Each
                                observation in it is the model's. *)
From Coq Require Import NArith List Bool Lia Arith.
Import ListNotations.
From Mds Require Import Gen.ShellTable Shell.ShellModel Shell.ShellSpec Shell.ShellSession Shell.ShellSkel
  Shell.ShellProofs16 Shell.ShellProofsX Shell.ShellSessionExt Shell.ShellProofsExt.
Local Open Scope N_scope.

Lemma bytes_eqb_eq : forall a b, bytes_eqb a b = true -> a = b.
Proof.
  induction a as [|x a IH]; destruct b as [|y b]; cbn; intros H; try discriminate; [reflexivity|].
  apply andb_true_iff in H. destruct H as [H1 H2]. apply N.eqb_eq in H1. subst y.
  rewrite (IH b H2). reflexivity.
Qed.

Lemma list_bytes_eqb_eq : forall a b, list_bytes_eqb a b = true -> a = b.
Proof.
  induction a as [|x a IH]; destruct b as [|y b]; cbn; intros H; try discriminate; [reflexivity|].
  apply andb_true_iff in H. destruct H as [H1 H2]. apply bytes_eqb_eq in H1. subst y.
  rewrite (IH b H2). reflexivity.
Qed.

(* the fields the reference does not compare *)
Inductive lat : sc_oute -> sc_oute -> Prop :=
| lat_err e e' : lat (EROut (XRErr e)) (EROut (XRErr e'))
| lat_next t t' c : lat (EROut (XRNext false t c)) (EROut (XRNext false t' c))
| lat_split toks t t' c : lat (EROut (XRSplit toks t c)) (EROut (XRSplit toks t' c))
| lat_each toks t t' c : lat (EROut (XREach toks t c)) (EROut (XREach toks t' c)).

Ltac crack :=
  repeat match goal with
  | H : match ?e with Some _ => Some _ | None => None end = Some _ |- _ =>
      let E := fresh "E" in destruct e eqn:E; [cbn [ref_step ref_to_end ref_stepx] in E|discriminate H]
  | H : (let '(_, _) := ?e in _) = Some _ |- _ => destruct e
  | H : (if ?c then _ else _) = Some _ |- _ => destruct c eqn:?; [|discriminate H]
  | H : _ && _ = true |- _ => apply andb_true_iff in H; destruct H
  | H : bytes_eqb _ _ = true |- _ => apply bytes_eqb_eq in H
  | H : list_bytes_eqb _ _ = true |- _ => apply list_bytes_eqb_eq in H
  | H : Bool.eqb _ _ = true |- _ => apply Bool.eqb_prop in H
  | H : negb ?b = true |- _ => apply negb_true_iff in H
  | H : is_nil ?l = true |- _ => destruct l; [clear H|discriminate H]
  | H : Some _ = Some _ |- _ => inversion H; clear H
  end; subst.

Ltac finish := first [ left; split; reflexivity | right; constructor ].

Lemma ref_step_ext_functional s0 r op o m r1 r2 :
  ref_step_ext s0 r op o = Some r1 -> ref_step_ext s0 r op m = Some r2 ->
  (o = m /\ r1 = r2) \/ lat o m.
Proof.
  destruct r as [q un tc].
  destruct op as [[| | | | |stop]|k|k|]; destruct o as [[]| | |]; try discriminate;
    destruct m as [[]| | |]; try discriminate;
    cbn [ref_step_ext ref_stepx ref_step ref_to_end rq runread rtc]; intros H1 H2.
  - (* Next *)
    destruct (ref_step q ONext (RNext ok txt cmpl)) as [q1|] eqn:E1; [|discriminate].
    destruct (ref_step q ONext (RNext ok0 txt0 cmpl0)) as [q2|] eqn:E2; [|discriminate].
    destruct q as [rem c|t0 c]; cbn [ref_step] in E1, E2.
    + destruct (skip_sep (length rem) rem) as [|a s'].
      * crack. finish.
      * destruct (word (S (length (a :: s'))) (a :: s') []) as [[w okw] rr]. crack. finish.
    + crack. finish.
  - (* Rest *)
    crack. finish.
  - (* Err *)
    right. constructor.
  - (* Reset *)
    crack. finish.
  - (* Split *)
    destruct q as [rem c|t0 c].
    + destruct (fields (S (length rem)) rem) as [fs ok]. crack. finish.
    + crack. finish.
  - (* Each *)
    destruct q as [rem c|t0 c].
    + cbn [ref_to_end] in *. destruct (fields (S (length rem)) rem) as [fs ok].
      destruct (Nat.ltb 0 stop && Nat.leb stop (length fs)).
      * crack. left. split; [|reflexivity]. congruence.
      * crack. finish.
    + crack. finish.
  - (* Rest, k bytes *)
    cbv zeta in *. crack. finish.
  - (* k more bytes *)
    destruct un as [u|]; crack; finish.
  - (* Text / Complete *)
    crack. finish.
Qed.

(* accepted observation lists: the model's, or a common prefix and then one call at which the two
   differ only in a field the reference does not compare *)
Definition differ_by_lat (outs run : list sc_oute) : Prop :=
  exists pre o m t1 t2, outs = pre ++ o :: t1 /\ run = pre ++ m :: t2 /\ lat o m /\ o <> m.

Lemma session_from_ext_unique s0 : forall ops r x outs, ext_rel r x ->
  session_from_ext s0 r ops outs = true ->
  outs = run_ext s0 x ops \/ differ_by_lat outs (run_ext s0 x ops).
Proof.
  induction ops as [|op ops IH]; intros r x outs Hrel H.
  - destruct outs; [left; reflexivity|discriminate].
  - destruct outs as [|o outs]; [discriminate|]. cbn [session_from_ext] in H.
    destruct (ref_step_ext s0 r op o) as [r1|] eqn:E1; [|discriminate].
    destruct (step_ext_ok s0 r x op Hrel) as (x' & m & r2 & Hs & Hr & Hrel').
    rewrite run_ext_cons, Hs.
    assert (D : {o = m} + {o <> m}).
    { repeat decide equality. }
    destruct D as [->|Hne].
    + rewrite Hr in E1. inversion E1; subst r1.
      destruct (IH r2 x' outs Hrel' H) as [->|(pre & o & m' & t1 & t2 & -> & E & L & N)].
      * left. reflexivity.
      * right. exists (m :: pre), o, m', t1, t2. rewrite E. repeat split; assumption.
    + destruct (ref_step_ext_functional s0 r op o m r1 r2 E1 Hr) as [[E _]|L]; [contradiction|].
      right. exists [], o, m, outs, (run_ext s0 x' ops). repeat split; assumption.
Qed.

Theorem session_ext_unique s ops outs :
  session_ok_ext s ops outs = true ->
  outs = run_ext s (new_ext s) ops \/ differ_by_lat outs (run_ext s (new_ext s) ops).
Proof. apply session_from_ext_unique. apply rel_new. Qed.

(* an observation none of whose fields is left open *)
Definition pinned_out (o : sc_oute) : bool :=
  match o with
  | EROut (XRErr _) | EROut (XRNext false _ _) | EROut (XRSplit _ _ _) | EROut (XREach _ _ _) => false
  | _ => true
  end.

Lemma lat_not_pinned o m : lat o m -> pinned_out o = false.
Proof. intros L. destruct L; reflexivity. Qed.

Theorem session_ext_unique_strict s ops outs :
  session_ok_ext s ops outs = true -> forallb pinned_out outs = true ->
  outs = run_ext s (new_ext s) ops.
Proof.
  intros H P. destruct (session_ext_unique s ops outs H) as [E|(pre & o & m & t1 & t2 & E & _ & L & _)];
    [exact E|].
  subst outs. rewrite forallb_app in P. apply andb_true_iff in P. destruct P as [_ P].
  cbn [forallb] in P. rewrite (lat_not_pinned o m L) in P. discriminate.
Qed.

(* the latitudes are real: accepted lists that are not the model's *)
Example lat_err_real :
  session_ok_ext [65] [EOp XErr] [EROut (XRErr false)] = true /\
  session_ok_ext [65] [EOp XErr] [EROut (XRErr true)] = false /\
  session_ok_ext [] [EOp XErr] [EROut (XRErr true)] = true /\
  session_ok_ext [] [EOp XErr] [EROut (XRErr false)] = true.
Proof. vm_compute. repeat split. Qed.
