(* The theorems of ShellProofs.v, ShellProofsPosix.v and ShellProofs16.v (proved over the hand
   transcription ShellSkel.Hand) restated for the model of ShellModel.v, which is assembled from the
   skeleton facts generated from the Go source; each is transported by the equations of
   ShellSkel.v.  Props/C15.v and Props/C16.v state these. *)
From Coq Require Import NArith List Bool.
Import ListNotations.
From Mds Require Import Gen.ShellTable Shell.ShellModel Shell.ShellSpec Shell.ShellSession Shell.ShellSkel.
From Mds Require Shell.ShellProofs Shell.ShellProofsPosix Shell.ShellProofs16 Shell.ShellProofsX Shell.ShellProofsAgree.
Local Open Scope N_scope.

Ltac to_hand :=
  repeat first [ rewrite run_opsx_hand | rewrite run_ops_hand | rewrite run_sc_hand | rewrite split_from_hand | rewrite split_hand
               | rewrite join_hand | rewrite quote_hand | rewrite next_hand | rewrite rest_hand ].

(* ---- C15 ---- *)
Theorem split_join ss : split (join ss) = Some (ss, true).
Proof. to_hand. apply ShellProofs.split_join. Qed.

Theorem split_quote s : split (quote s) = Some ([s], true).
Proof. to_hand. apply ShellProofs.split_quote. Qed.

(* the pooled scanner may be in any state when Split takes it *)
Theorem split_join_pooled sc ss : split_from sc (join ss) = Some (ss, true).
Proof. to_hand. apply ShellProofs.split_join. Qed.

Theorem quote_posix s : posix_words (quote s) = Some [s].
Proof. to_hand. apply ShellProofsPosix.quote_posix. Qed.

Theorem join_posix ss : posix_words (join ss) = Some ss.
Proof. to_hand. apply ShellProofsPosix.join_posix. Qed.

(* ---- C16 ---- *)
Theorem split_ref s : split s = Some (ref_split s).
Proof. to_hand. apply ShellProofs16.split_ref. Qed.

Theorem split_ref_pooled sc s : split_from sc s = Some (ref_split s).
Proof. to_hand. apply ShellProofs16.split_ref. Qed.

Theorem session_ref s ops : session_ok s ops (run_ops (new_scanner s) ops) = true.
Proof. to_hand. apply ShellProofs16.session_ref. Qed.

Theorem session_no_panic s ops : ~ In RPanic (run_ops (new_scanner s) ops).
Proof. to_hand. apply ShellProofs16.session_no_panic. Qed.

Theorem next_sticky sc sc' : next sc = Some (sc', false) ->
  forall n, run_ops sc' (repeat ONext n) = repeat (RNext false (text sc') (complete sc')) n.
Proof. rewrite next_hand. intros H n. rewrite run_ops_hand. exact (ShellProofs16.next_sticky sc sc' H n). Qed.

Definition dead := ShellProofs16.dead.

Theorem rest_after_k s k ops :
  run_ops (new_scanner s) (repeat ONext k ++ ORest :: ops) =
  run_ops (new_scanner s) (repeat ONext k) ++ RRest (ref_rest k s) :: map dead ops.
Proof. to_hand. apply ShellProofs16.rest_after_k. Qed.

Theorem rest_consumed s k : exists consumed,
  s = consumed ++ ref_rest k s /\
  run_ops (new_scanner consumed) (repeat ONext k) = run_ops (new_scanner s) (repeat ONext k).
Proof.
  destruct (ShellProofs16.rest_consumed s k) as (c & H1 & H2). exists c. split; [exact H1|].
  to_hand. exact H2.
Qed.

Theorem rest_model s k : exists sc consumed,
  run_sc (new_scanner s) (repeat ONext k) = Some sc /\
  s = consumed ++ inp sc /\ inp sc = ref_rest k s /\
  forall ops, run_ops sc (ORest :: ops) = RRest (inp sc) :: map dead ops.
Proof.
  destruct (ShellProofs16.rest_model s k) as (sc & c & H1 & H2 & H3 & H4). exists sc, c.
  split; [to_hand; exact H1|]. split; [exact H2|]. split; [exact H3|].
  intros ops. to_hand. apply H4.
Qed.

Theorem rest_then_dead sc ops : run_ops sc (ORest :: ops) = RRest (inp sc) :: map dead ops.
Proof. to_hand. apply ShellProofs16.rest_then_dead. Qed.

Theorem next_tokens s : exists t, forall n,
  run_ops (new_scanner s) (repeat ONext n) =
  firstn n (tok_outs (fst (ref_split s)) (snd (ref_split s)) ++ repeat (RNext false t (snd (ref_split s))) n).
Proof.
  destruct (ShellProofs16.next_tokens s) as [t H]. exists t. intros n. to_hand. apply H.
Qed.

(* ---- C16: sessions over the whole API (Next, Rest, Err, Reset, Scanner.Split, Each) ---- *)
Theorem sessionx_ref s ops : session_okx s ops (run_opsx s (new_scanner s) ops) = true.
Proof. to_hand. apply ShellProofsX.sessionx_ref. Qed.

Theorem sessionx_no_panic s ops : ~ In XRPanic (run_opsx s (new_scanner s) ops).
Proof. to_hand. apply ShellProofsX.sessionx_no_panic. Qed.

Definition xop := ShellProofsX.xop.
Definition xout := ShellProofsX.xout.

Theorem run_opsx_basic s0 ops sc : run_opsx s0 sc (map xop ops) = map xout (run_ops sc ops).
Proof. to_hand. apply ShellProofsX.run_opsx_basic. Qed.

(* ---- C16: agreement with the POSIX reading on inputs free of other metacharacters ---- *)
Definition no_dollar := ShellProofsAgree.no_dollar.

Theorem split_posix s ws : Forall no_dollar s -> posix_words s = Some ws -> split s = Some (ws, true).
Proof. intros Hc H. rewrite split_ref, (ShellProofsAgree.posix_agree s ws Hc H). reflexivity. Qed.
