(* C15, last clause: a POSIX shell reads Quote(s) back as the single word s, and Join(ss) as ss.
   [posix_words] (ShellSpec.v) is a transcription of XCU 2.2 whose set of special characters is
   written from the standard; the proofs reach the *generated* quoting sets of Gen/ShellTable.v
   through [special_quoted]: every character the standard calls special is the single quote or is
   in allQuote = mustQuote ++ shouldQuote ++ spaces of the Go source.  Deleting a character from
   those constants breaks that lemma at make.  The transducer table is not used here. *)
From Coq Require Import NArith List Bool Lia.
Import ListNotations.
From Mds Require Import Gen.ShellTable Shell.ShellModel Shell.ShellSpec Shell.ShellSkel.
(* the proofs are about the hand transcription of the skeleton; ShellFinal.v transports them to the
   model assembled from the generated skeleton facts (ShellSkel.v: model = transcription) *)
Import ShellSkel.Hand.
Local Open Scope N_scope.

(* ---- the tie between the standard's set and the source's constants ---- *)

Lemma special_quoted b : memb b posix_special = true -> b = 39 \/ mem b allQuote = true.
Proof.
  unfold memb, posix_special. cbn [existsb]. intros H.
  repeat (apply orb_true_iff in H; destruct H as [H|H]);
    try discriminate H;
    apply N.eqb_eq in H; subst b; try (left; reflexivity); right; vm_compute; reflexivity.
Qed.

Lemma plain_tests c : memb c posix_special = false ->
  (c =? 32) = false /\ (c =? 9) = false /\ (c =? 92) = false /\ (c =? 39) = false /\ (c =? 34) = false.
Proof.
  unfold memb, posix_special. cbn [existsb]. intros H.
  repeat (apply orb_false_iff in H; destruct H as [? H]). repeat split; assumption.
Qed.

(* ---- the evaluator: more fuel never changes a result ---- *)

Lemma pword_step f c r acc :
  pword (S f) (c :: r) acc =
  if (c =? 32) || (c =? 9) then Some (acc, r)
  else if c =? 92 then
    match r with
    | [] => None
    | e :: r' => if e =? 10 then pword f r' acc else pword f r' (acc ++ [e])
    end
  else if c =? 39 then
    match until_sq r with
    | (_, None) => None
    | (b, Some r') => pword f r' (acc ++ b)
    end
  else if c =? 34 then
    match pdq_body (S (length r)) r with
    | None => None
    | Some (b, r') => pword f r' (acc ++ b)
    end
  else if memb c posix_special then None
  else pword f r (acc ++ [c]).
Proof. reflexivity. Qed.

Lemma pword_mono : forall f s acc res, pword f s acc = Some res ->
  forall f', (f <= f')%nat -> pword f' s acc = Some res.
Proof.
  induction f as [|f IH]; intros s acc res H f' Hle; [discriminate|].
  destruct f' as [|f']; [lia|]. assert (Hle': (f <= f')%nat) by lia.
  destruct s as [|c r]; [exact H|]. rewrite pword_step in *.
  destruct ((c =? 32) || (c =? 9)); [exact H|].
  destruct (c =? 92).
  { destruct r as [|e r']; [discriminate|]. destruct (e =? 10); eapply IH; eauto. }
  destruct (c =? 39).
  { destruct (until_sq r) as [b [r'|]]; [|discriminate]. eapply IH; eauto. }
  destruct (c =? 34).
  { destruct (pdq_body (S (length r)) r) as [[b r']|]; [|discriminate]. eapply IH; eauto. }
  destruct (memb c posix_special); [discriminate|]. eapply IH; eauto.
Qed.

Lemma until_sq_app : forall pre r, Forall (fun b => b <> 39) pre -> until_sq (pre ++ 39 :: r) = (pre, Some r).
Proof.
  induction pre as [|c pre IH]; intros r H; [reflexivity|].
  inversion H as [|? ? Hc Hp]; subst. cbn [app until_sq].
  apply N.eqb_neq in Hc. unfold SQ. rewrite Hc, (IH r Hp). reflexivity.
Qed.

(* ---- the quoting loop read back by the evaluator, continuation-passing ---- *)

(* when nothing but single quotes needs quoting (hasOther = false) the other bytes are copied
   bare: they must not be special *)
Definition plainp (h : bool) (s : bytes) : Prop :=
  h = false -> Forall (fun b => b <> 39 -> memb b posix_special = false) s.

Lemma plainp_tl h c s : plainp h (c :: s) -> plainp h s.
Proof. intros H Hh. specialize (H Hh). inversion H; assumption. Qed.

Lemma pword_quote_loop h : forall s, plainp h s ->
  forall acc k f res, pword f k (acc ++ s) = Some res ->
  (forall F, (length (quote_loop s false h) + f <= F)%nat ->
     pword F (quote_loop s false h ++ k) acc = Some res) /\
  (forall pre acc0, acc = acc0 ++ pre -> Forall (fun b => b <> 39) pre ->
     forall F, (1 + length pre + length (quote_loop s true h) + f <= F)%nat ->
     pword F (39 :: pre ++ quote_loop s true h ++ k) acc0 = Some res).
Proof.
  induction s as [|ch rest IH]; intros Hpl acc k f res H.
  - rewrite app_nil_r in H. split.
    + intros F HF. cbn [quote_loop app]. eapply pword_mono; [exact H|simpl in HF; lia].
    + intros pre acc0 -> Hpre F HF. cbn [quote_loop app length] in *.
      destruct F as [|F]; [lia|]. rewrite pword_step. cbn [N.eqb Pos.eqb orb].
      rewrite (until_sq_app pre k Hpre). eapply pword_mono; [exact H|lia].
  - specialize (IH (plainp_tl _ _ _ Hpl)).
    cbn [quote_loop]. destruct (N.eqb_spec ch 39) as [->|Hch].
    + (* a single quote: close the quotes if open, write backslash-quote *)
      assert (H': pword f k ((acc ++ [39]) ++ rest) = Some res) by (rewrite <- app_assoc; exact H).
      destruct (IH _ _ _ _ H') as [IH1 _]. split.
      * intros F HF. cbn [app length] in *. destruct F as [|F]; [lia|].
        rewrite pword_step. cbn [N.eqb Pos.eqb orb]. apply IH1. lia.
      * intros pre acc0 -> Hpre F HF. cbn [app length] in *.
        destruct F as [|F]; [lia|]. rewrite pword_step. cbn [N.eqb Pos.eqb orb].
        rewrite (until_sq_app pre _ Hpre).
        destruct F as [|F]; [lia|]. rewrite pword_step. cbn [N.eqb Pos.eqb orb].
        apply IH1. lia.
    + assert (H': pword f k ((acc ++ [ch]) ++ rest) = Some res) by (rewrite <- app_assoc; exact H).
      destruct (IH _ _ _ _ H') as [IH1 IH2]. split.
      * intros F HF. destruct h; cbn [negb andb] in *.
        -- (* open the quotes *)
           cbn [app length] in *. apply (IH2 [ch] acc eq_refl).
           ++ constructor; [exact Hch|constructor].
           ++ cbn [length]. lia.
        -- (* copied bare: not special *)
           assert (Hp: memb ch posix_special = false).
           { specialize (Hpl eq_refl). inversion Hpl as [|? ? Hhd ?]; subst. apply Hhd. exact Hch. }
           destruct (plain_tests ch Hp) as (E32 & E9 & E92 & E39 & E34).
           cbn [app length] in *. destruct F as [|F]; [lia|].
           rewrite pword_step, E32, E9, E92, E39, E34, Hp. cbn [orb]. apply IH1. lia.
      * (* inside the quotes: copied *)
        intros pre acc0 -> Hpre F HF. cbn [andb negb app length] in *.
        replace (39 :: pre ++ ch :: quote_loop rest true h ++ k)
          with (39 :: (pre ++ [ch]) ++ quote_loop rest true h ++ k) by (rewrite <- app_assoc; reflexivity).
        apply IH2.
        -- rewrite app_assoc. reflexivity.
        -- apply Forall_app. split; [exact Hpre|constructor; [exact Hch|constructor]].
        -- rewrite app_length. cbn [length]. lia.
Qed.

(* ---- Quote ---- *)

Lemma quote_loop_plain : forall s, has_q s = false -> quote_loop s false false = s.
Proof.
  induction s as [|ch rest IH]; intros Hq; [reflexivity|].
  unfold has_q in Hq. cbn [existsb] in Hq. apply orb_false_iff in Hq. destruct Hq as [Hch Hrest].
  cbn [quote_loop]. rewrite N.eqb_sym, Hch. cbn [negb andb]. f_equal. apply IH. exact Hrest.
Qed.

Lemma plainp_has_other s : plainp (has_other s) s.
Proof.
  intros Hh. apply Forall_forall. intros b Hin Hb.
  destruct (memb b posix_special) eqn:Hm; [|reflexivity]. exfalso.
  destruct (special_quoted b Hm) as [->|Ha]; [congruence|].
  unfold has_other in Hh.
  assert (existsb (fun b => negb (b =? 39) && mem b allQuote) s = true).
  { apply existsb_exists. exists b. split; [exact Hin|]. rewrite Ha. apply N.eqb_neq in Hb. rewrite Hb. reflexivity. }
  congruence.
Qed.

(* for a non-empty s, Quote(s) is the loop's output with hasOther = has_other s *)
Lemma quote_as_loop s : s <> [] -> quote s = quote_loop s false (has_other s).
Proof.
  intros Hne. unfold quote. destruct s as [|c s']; [contradiction|].
  destruct (negb (has_q (c :: s')) && negb (has_other (c :: s'))) eqn:Hfast; [|reflexivity].
  apply andb_true_iff in Hfast. destruct Hfast as [Hq Ho].
  apply negb_true_iff in Hq. apply negb_true_iff in Ho. rewrite Ho.
  symmetry. apply quote_loop_plain. exact Hq.
Qed.

Lemma pword_quote s k f res : pword f k s = Some res ->
  forall F, (length (quote s) + f <= F)%nat -> pword F (quote s ++ k) [] = Some res.
Proof.
  intros H F HF. destruct s as [|c s'] eqn:Es.
  - cbn [quote app length] in *. destruct F as [|F]; [lia|].
    rewrite pword_step. cbn. eapply pword_mono; [exact H|lia].
  - rewrite <- Es in *. assert (Hne: s <> []) by (rewrite Es; discriminate).
    rewrite (quote_as_loop s Hne) in *.
    apply (pword_quote_loop (has_other s) s (plainp_has_other s) [] k f res H). exact HF.
Qed.

(* the first byte of Quote(s) is never a blank, and when it is a backslash a single quote follows
   (never a newline: no line continuation at the start of a quoted word) *)
Lemma quote_head s : exists c t, quote s = c :: t /\ (c =? 32) = false /\ (c =? 9) = false /\
  ((c =? 92) = false \/ exists t', t = 39 :: t').
Proof.
  destruct s as [|c s'] eqn:Es.
  - exists 39, [39]. repeat split. left. reflexivity.
  - rewrite <- Es. assert (Hne: s <> []) by (rewrite Es; discriminate).
    rewrite (quote_as_loop s Hne). pose proof (plainp_has_other s) as Hpl.
    rewrite Es in *. cbn [quote_loop]. destruct (N.eqb_spec c 39) as [->|Hc].
    + eexists _, _. cbn [app]. repeat split. right. eexists. reflexivity.
    + cbn [negb andb]. destruct (has_other (c :: s')).
      * eexists _, _. cbn [app]. repeat split. left. reflexivity.
      * specialize (Hpl eq_refl). inversion Hpl as [|? ? Hhd ?]; subst.
        destruct (plain_tests c (Hhd Hc)) as (E32 & E9 & E92 & _).
        eexists _, _. repeat split; try assumption. left. exact E92.
Qed.

Lemma skip_blank_head c t : (c =? 32) = false -> (c =? 9) = false ->
  ((c =? 92) = false \/ exists t', t = 39 :: t') -> skip_blank (c :: t) = c :: t.
Proof.
  intros E1 E2 E3. cbn [skip_blank]. unfold SP, TAB, BSL, NL. rewrite E1, E2. cbn [orb].
  destruct E3 as [E3|[t' ->]]; [rewrite E3; reflexivity|].
  destruct (c =? 92); reflexivity.
Qed.

Lemma pwords_nil n : pwords (S n) [] = Some [].
Proof. reflexivity. Qed.

(* ---- Join ---- *)

Lemma pwords_join : forall ss n, (length (join ss) < n)%nat -> pwords n (join ss) = Some ss.
Proof.
  induction ss as [|s rest IH]; intros n Hn.
  - destruct n; [lia|]. reflexivity.
  - destruct n as [|n]; [lia|].
    destruct (quote_head s) as (c & t & Eq & E32 & E9 & E92).
    destruct rest as [|s2 rest'].
    + cbn [join] in *. cbn [pwords]. rewrite Eq, (skip_blank_head c t E32 E9 E92), <- Eq.
      rewrite <- (app_nil_r (quote s)) at 2.
      rewrite (pword_quote s [] 1 (s, []) eq_refl) by (rewrite ?app_nil_r; lia).
      destruct n; [rewrite Eq in Hn; simpl in Hn; lia|]. reflexivity.
    + change (join (s :: s2 :: rest')) with (quote s ++ [32] ++ join (s2 :: rest')) in *.
      cbn [pwords]. rewrite Eq at 1. cbn [app].
      rewrite (skip_blank_head c _ E32 E9) by (destruct E92 as [E|[t' ->]]; [left; exact E|right; eexists; reflexivity]).
      change (c :: t ++ 32 :: join (s2 :: rest')) with ((c :: t) ++ [32] ++ join (s2 :: rest')).
      rewrite <- Eq.
      rewrite (pword_quote s ([32] ++ join (s2 :: rest')) 1 (s, join (s2 :: rest')) eq_refl).
      2: { rewrite !app_length. cbn [length]. lia. }
      rewrite IH; [reflexivity|]. rewrite !app_length in Hn. cbn [length] in Hn. lia.
Qed.

Theorem join_posix ss : posix_words (join ss) = Some ss.
Proof. unfold posix_words. apply pwords_join. lia. Qed.

Theorem quote_posix s : posix_words (quote s) = Some [s].
Proof. exact (join_posix [s]). Qed.
