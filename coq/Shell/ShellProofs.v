(* Proofs about the shell model over the *generated* table: C15 round trips. *)
From Coq Require Import NArith List Bool Lia.
Import ListNotations.
From Mds Require Import Gen.ShellTable Shell.ShellModel Shell.ShellSkel.
(* the proofs are about the hand transcription of the skeleton; ShellFinal.v transports them to the
   model assembled from the generated skeleton facts (ShellSkel.v: model = transcription) *)
Import ShellSkel.Hand.
Local Open Scope N_scope.
Arguments update !s !c /.

(* ---- facts about the generated class map and character sets ---- *)

Lemma class_other_or_listed b :
  class_of b = clOther \/ In b [9; 10; 32; 34; 39; 92].
Proof.
  unfold class_of.
  destruct b as [|p]; [left; reflexivity|].
  do 7 (destruct p as [p|p|]; try (left; reflexivity); try (right; simpl; tauto)).
Qed.

Lemma plain_is_other b : b <> 39 -> mem b allQuote = false -> class_of b = clOther.
Proof.
  intros Hq Hm. destruct (class_other_or_listed b) as [H|H]; [exact H|].
  exfalso. simpl in H.
  destruct H as [<-|[<-|[<-|[<-|[<-|[<-|[]]]]]]]; try (vm_compute in Hm; discriminate). congruence.
Qed.

Lemma class_39 : class_of 39 = clSingle. Proof. reflexivity. Qed.
Lemma class_92 : class_of 92 = clQuote. Proof. reflexivity. Qed.
Lemma class_not_single b : b <> 39 -> class_of b <> clSingle.
Proof.
  intros Hb. destruct (class_other_or_listed b) as [H|H]; [rewrite H; discriminate|].
  simpl in H. destruct H as [<-|[<-|[<-|[<-|[<-|[<-|[]]]]]]]; try (vm_compute; discriminate). congruence.
Qed.

(* inside single quotes every byte except the quote is pushed and the state stays *)
Lemma single_pushes b : b <> 39 -> update stSingle (class_of b) = Some (stSingle, push).
Proof.
  intros Hb. pose proof (class_not_single b Hb) as H.
  destruct (class_of b); try reflexivity. congruence.
Qed.

(* ---- the scanner run over the output of quote_loop, continuation-passing ---- *)

Definition ok_start (inq : bool) (st : state) : Prop :=
  if inq then st = stSingle else st = stWord \/ st = stBreak.

Definition plain_ok (h : bool) (s : bytes) : Prop :=
  h = false -> Forall (fun b => b <> 39 -> class_of b = clOther) s.

Ltac steps ch Hch Hc :=
  cbn [app scan_next];
  do 3 (rewrite ?class_39, ?class_92; try rewrite (single_pushes ch Hch); try rewrite Hc; cbn [update]).

Lemma scan_quote_loop h : forall s inq st acc k,
  ok_start inq st -> plain_ok h s ->
  (s = [] -> inq = false -> st = stWord) ->
  scan_next (quote_loop s inq h ++ k) st acc =
  scan_next k stWord (acc ++ s).
Proof.
  induction s as [|ch rest IH]; intros inq st acc k Hst Hplain Hne.
  - cbn [quote_loop]. destruct inq.
    + cbn in Hst. subst st. cbn. rewrite app_nil_r. reflexivity.
    + rewrite (Hne eq_refl eq_refl). cbn. rewrite app_nil_r. reflexivity.
  - cbn [quote_loop].
    assert (Hplain': plain_ok h rest).
    { intros Hh. specialize (Hplain Hh). inversion Hplain; assumption. }
    assert (Hdummy: True) by exact I.
    destruct (N.eqb_spec ch 39) as [->|Hch].
    + destruct inq.
      * cbn in Hst. subst st. steps 0 Hdummy Hdummy.
        rewrite IH; [| cbn; left; reflexivity | exact Hplain' | intros; reflexivity ].
        rewrite <- app_assoc. reflexivity.
      * destruct Hst as [-> | ->]; steps 0 Hdummy Hdummy;
        (rewrite IH; [| cbn; left; reflexivity | exact Hplain' | intros; reflexivity ]);
        rewrite <- app_assoc; reflexivity.
    + destruct inq.
      * cbn [negb andb]. cbn in Hst. subst st. steps ch Hch Hdummy.
        rewrite IH; [| cbn; reflexivity | exact Hplain' | intros; discriminate ].
        rewrite <- app_assoc. reflexivity.
      * cbn [negb andb]. destruct h.
        -- destruct Hst as [-> | ->]; steps ch Hch Hdummy;
           (rewrite IH; [| cbn; reflexivity | exact Hplain' | intros; discriminate ]);
           rewrite <- app_assoc; reflexivity.
        -- assert (Hc: class_of ch = clOther).
           { specialize (Hplain eq_refl). inversion Hplain as [|? ? Hhd ?]; subst. apply Hhd. exact Hch. }
           destruct Hst as [-> | ->]; steps 0 Hdummy Hc;
           (rewrite IH; [| cbn; left; reflexivity | exact Hplain' | intros; reflexivity ]);
           rewrite <- app_assoc; reflexivity.
Qed.

(* ---- Quote ---- *)

Lemma quote_loop_plain : forall s, has_q s = false -> quote_loop s false false = s.
Proof.
  induction s as [|ch rest IH]; intros Hq; [reflexivity|].
  unfold has_q in Hq. cbn [existsb] in Hq. apply orb_false_iff in Hq. destruct Hq as [Hch Hrest].
  cbn [quote_loop]. rewrite N.eqb_sym, Hch. cbn [negb andb]. f_equal. apply IH. exact Hrest.
Qed.

Lemma plain_ok_of_has_other s : plain_ok (has_other s) s.
Proof.
  intros Hh. apply Forall_forall. intros b Hin Hb.
  apply plain_is_other; [exact Hb|].
  unfold has_other in Hh. destruct (mem b allQuote) eqn:Hm; [|reflexivity].
  exfalso. assert (existsb (fun b => negb (b =? 39) && mem b allQuote) s = true).
  { apply existsb_exists. exists b. split; [exact Hin|]. rewrite Hm. apply N.eqb_neq in Hb. rewrite Hb. reflexivity. }
  congruence.
Qed.

Lemma scan_quote s k : scan_next (quote s ++ k) stBreak [] = scan_next k stWord s.
Proof.
  destruct s as [|c s'] eqn:Es.
  - reflexivity.
  - rewrite <- Es. assert (Hne: s <> []) by (rewrite Es; discriminate).
    unfold quote. rewrite Es. rewrite <- Es.
    destruct (negb (has_q s) && negb (has_other s)) eqn:Hfast.
    + apply andb_true_iff in Hfast. destruct Hfast as [Hq Ho].
      apply negb_true_iff in Hq. apply negb_true_iff in Ho.
      rewrite <- (quote_loop_plain s Hq) at 1.
      rewrite (scan_quote_loop false s false stBreak [] k).
      * reflexivity.
      * cbn. right. reflexivity.
      * rewrite <- Ho. apply plain_ok_of_has_other.
      * intros E. contradiction.
    + rewrite (scan_quote_loop (has_other s) s false stBreak [] k).
      * reflexivity.
      * cbn. right. reflexivity.
      * apply plain_ok_of_has_other.
      * intros E. contradiction.
Qed.

(* ---- Join ---- *)

Lemma quote_nonempty s : quote s <> [].
Proof.
  unfold quote. destruct s as [|c s']; [discriminate|].
  destruct (negb (has_q (c :: s')) && negb (has_other (c :: s'))); [discriminate|].
  cbn [quote_loop]. destruct (c =? 39).
  - cbn [app]. discriminate.
  - cbn [negb andb]. destruct (has_other (c :: s')); cbn [app]; discriminate.
Qed.

Lemma split_loop_join : forall ss fuel toks cur0, ss <> [] -> (S (length ss) < fuel)%nat ->
  split_loop fuel {| inp := join ss; st := stBreak; cur := cur0; eof := false |} toks
  = Some ({| inp := []; st := stWord; cur := last ss []; eof := true |}, toks ++ ss).
Proof.
  induction ss as [|s rest IH]; intros fuel toks cur0 Hne Hf; [contradiction|].
  destruct fuel as [|fuel]; [inversion Hf|].
  destruct rest as [|s2 rest'].
  - destruct fuel as [|fuel]; [simpl in Hf; lia|].
    cbn [join split_loop next eof inp st].
    rewrite <- (app_nil_r (quote s)). rewrite scan_quote. cbn [scan_next].
    change (eof_has_token stWord) with true. cbn [text cur next eof last]. reflexivity.
  - change (join (s :: s2 :: rest')) with (quote s ++ [32] ++ join (s2 :: rest')).
    cbn [split_loop next eof inp st]. rewrite scan_quote. cbn [app scan_next].
    change (class_of 32) with clBreak. cbn [update text cur].
    rewrite IH; [| discriminate | simpl in *; lia].
    rewrite <- app_assoc. reflexivity.
Qed.

Lemma join_length : forall ss, ss <> [] -> (length ss <= length (join ss))%nat.
Proof.
  induction ss as [|s rest IH]; intros Hne; [contradiction|].
  destruct rest as [|s2 rest'].
  - cbn [join length]. pose proof (quote_nonempty s). destruct (quote s); [contradiction|]. simpl. lia.
  - change (join (s :: s2 :: rest')) with (quote s ++ [32] ++ join (s2 :: rest')).
    rewrite !app_length. specialize (IH ltac:(discriminate)). simpl in *. lia.
Qed.

Theorem split_join ss : split (join ss) = Some (ss, true).
Proof.
  destruct ss as [|s rest] eqn:E; [reflexivity|]. rewrite <- E.
  assert (Hne: ss <> []) by (rewrite E; discriminate).
  unfold split, scanner_split, reset. change reset_state with stBreak. cbn [inp].
  rewrite (split_loop_join ss _ [] [] Hne); [reflexivity|].
  pose proof (join_length ss Hne). lia.
Qed.

Theorem split_quote s : split (quote s) = Some ([s], true).
Proof. exact (split_join [s]). Qed.
