(* Model of shell/shell.go: the Scanner (Next/Text/Complete/Err/Rest/Reset/Split/Each), Split,
   quotable, Quote, quote, Join.  Definitions only.

   Everything that is data (transducer table, byte classes, character sets, Complete's state set,
   Next's end-of-input rule, initial states) AND the control skeleton the translator can read from
   the function bodies (what each action of Next's switch does with the byte, whether Next tests
   the error latch / clears the token / latches the error, what Rest and Reset assign, that Split
   resets its pooled scanner, quotable's if-chain, the guards that open Quote and quote in source
   order, the body of quote's loop and its epilogue, Join's separator) comes from
   Gen/ShellTable.v, regenerated from the Go source on every run.  What remains hand-written here
   is the plumbing between those facts: the recursion over the input bytes, the record of scanner
   fields, the loops of Scanner.Split/Each.  Shell/ShellSkel.v proves that this model equals the
   readable statement-by-statement transcription [Hand] (those lemmas are the ones that break at
   make when a skeleton fact changes). *)
From Coq Require Import NArith List Bool.
Import ListNotations.
From Mds Require Import Gen.ShellTable.
Local Open Scope N_scope.

Definition bytes := list N.

Definition state_eqb (a b : state) : bool :=
  match a, b with
  | stNone, stNone | stBreak, stBreak | stBreakQ, stBreakQ | stWord, stWord
  | stWordQ, stWordQ | stSingle, stSingle | stDouble, stDouble | stDoubleQ, stDoubleQ => true
  | _, _ => false
  end.

(* The byte loop of Scanner.Next from state [s] with current token [acc]. *)
Inductive next_res :=
| NPanic                                         (* update[st][class] out of range, or panic("unknown action") *)
| NEmit (tok : bytes) (rest : bytes) (s : state) (* an action that returns true *)
| NEof (has : bool) (tok : bytes) (s : state).   (* io.EOF: return st != stBreak *)

Fixpoint scan_next (inp : bytes) (s : state) (acc : bytes) : next_res :=
  match inp with
  | [] => NEof (eof_has_token s) acc s
  | c :: rest =>
    match update s (class_of c) with
    | None => NPanic
    | Some (s', a) =>
      match apply_action a c acc with
      | (acc', AContinue) => scan_next rest s' acc'
      | (acc', AEmit) => NEmit acc' rest s'
      | (_, APanic) => NPanic
      end
    end
  end.

(* ---- the Scanner object: unread input, state, current token, the err latch (err = io.EOF) ---- *)
Record scanner := { inp : bytes; st : state; cur : bytes; eof : bool }.

Definition new_scanner (i : bytes) : scanner := {| inp := i; st := new_state; cur := []; eof := false |}.

(* Scanner.Reset(r) on a scanner in ANY state *)
Definition reset_sc (sc : scanner) (i : bytes) : scanner :=
  {| inp := if reset_rebinds then i else inp sc;
     st := reset_state;
     cur := if reset_clears_cur then [] else cur sc;
     eof := if reset_clears_err then false else eof sc |}.

(* the scanner the pool's New function makes: NewScanner(nil) *)
Definition pool_new : scanner := new_scanner [].
Definition reset (i : bytes) : scanner := reset_sc pool_new i.

(* None = panic *)
Definition next (sc : scanner) : option (scanner * bool) :=
  if next_checks_latch && eof sc then Some (sc, false)
  else match scan_next (inp sc) (st sc) (if next_clears_cur then [] else cur sc) with
       | NPanic => None
       | NEmit tok rest s' =>
         Some ({| inp := rest; st := s'; cur := tok; eof := if next_latches_err then false else eof sc |}, true)
       | NEof has tok s' =>
         Some ({| inp := []; st := s'; cur := tok; eof := if next_latches_err then true else eof sc |}, has)
       end.

Definition text (sc : scanner) : bytes := cur sc.
Definition complete (sc : scanner) : bool := complete_state (st sc).
Definition err_eof (sc : scanner) : bool := eof sc.          (* Err() == io.EOF; otherwise nil *)
(* Rest, and reading everything from the reader it returns *)
Definition rest (sc : scanner) : scanner * bytes :=
  ({| inp := []; st := rest_state;
      cur := if rest_clears_cur then [] else cur sc;
      eof := if rest_latches then true else eof sc |}, inp sc).

(* Scanner.Split: call Next until it reports false.  Every true Next with eof = false consumed at
   least one byte, so fuel = length + 2 is always enough; running out is reported as None. *)
Fixpoint split_loop (fuel : nat) (sc : scanner) (toks : list bytes) : option (scanner * list bytes) :=
  match fuel with
  | O => None
  | S f =>
    match next sc with
    | None => None
    | Some (sc', true) => split_loop f sc' (toks ++ [text sc'])
    | Some (sc', false) => Some (sc', toks)
    end
  end.

Definition scanner_split (sc : scanner) : option (scanner * list bytes) :=
  split_loop (S (S (length (inp sc)))) sc [].

(* Scanner.Each with a callback that returns false at its [stop]-th call (0: never) *)
Fixpoint each_loop (fuel : nat) (sc : scanner) (stop : nat) (toks : list bytes) : option (scanner * list bytes) :=
  match fuel with
  | O => None
  | S f =>
    match next sc with
    | None => None
    | Some (sc', true) =>
      let toks' := toks ++ [text sc'] in
      if Nat.eqb (length toks') stop then Some (sc', toks') else each_loop f sc' stop toks'
    | Some (sc', false) => Some (sc', toks)
    end
  end.

Definition scanner_each (sc : scanner) (stop : nat) : option (scanner * list bytes) :=
  each_loop (S (S (length (inp sc)))) sc stop [].

(* shell.Split with the pooled scanner in state [sc] *)
Definition split_from (sc : scanner) (s : bytes) : option (list bytes * bool) :=
  match scanner_split (if split_resets then reset_sc sc s else sc) with
  | None => None
  | Some (sc', toks) => Some (toks, complete sc')
  end.

(* shell.Split (first use of the pool) *)
Definition split (s : bytes) : option (list bytes * bool) := split_from pool_new s.

(* ---- quotable / Quote / quote / Join ---- *)
Definition mem (b : N) (l : list N) : bool := existsb (N.eqb b) l.

(* quotable: the flags are OR-ed over the bytes (the early exit v < all does not change the result) *)
Definition byte_flags (b : N) : bool * bool := quotable_step (N.eqb b quotable_char) (mem b quotable_set).
Definition has_q (s : bytes) : bool := existsb (fun b => fst (byte_flags b)) s.
Definition has_other (s : bytes) : bool := existsb (fun b => snd (byte_flags b)) s.

Definition is_empty (s : bytes) : bool := match s with [] => true | _ => false end.

Fixpoint quote_loop (s : bytes) (inq : bool) (hasOther : bool) : bytes :=
  match s with
  | [] => quote_end inq hasOther
  | ch :: rest => let '(out, inq') := quote_step ch inq hasOther in out ++ quote_loop rest inq' hasOther
  end.

(* quote(s, buf): what is appended to buf *)
Definition quote_buf (s : bytes) : bytes :=
  match quote_head (is_empty s) (has_q s) (has_other s) with
  | HLit l => l
  | HCopy => s
  | HLoop => quote_loop s quote_inq0 (has_other s)
  end.

(* Quote *)
Definition quote (s : bytes) : bytes :=
  match Quote_head (is_empty s) (has_q s) (has_other s) with
  | HLit l => l
  | HCopy => s
  | HLoop => quote_buf s
  end.

(* Join: empty list -> empty text; quote(ss[0], buf); for the others: separator, quote(s, buf) *)
Fixpoint join_tail (ss : list bytes) : bytes :=
  match ss with
  | [] => []
  | s :: rest => join_sep ++ quote_buf s ++ join_tail rest
  end.

Definition join (ss : list bytes) : bytes :=
  match ss with
  | [] => []
  | s :: rest => quote_buf s ++ join_tail rest
  end.

(* ---- a scripted Scanner session of Next/Rest calls, as the correspondence harness drives it ---- *)
Inductive sc_op := ONext | ORest.
Inductive sc_out :=
| RNext (ok : bool) (txt : bytes) (cmpl : bool)
| RRest (r : bytes)
| RPanic.

Fixpoint run_ops (sc : scanner) (ops : list sc_op) : list sc_out :=
  match ops with
  | [] => []
  | ONext :: ops' =>
    match next sc with
    | None => [RPanic]
    | Some (sc', ok) => RNext ok (text sc') (complete sc') :: run_ops sc' ops'
    end
  | ORest :: ops' => let '(sc', r) := rest sc in RRest r :: run_ops sc' ops'
  end.

(* the scanner after a session (None = panic) *)
Fixpoint run_sc (sc : scanner) (ops : list sc_op) : option scanner :=
  match ops with
  | [] => Some sc
  | ONext :: ops' => match next sc with None => None | Some (sc', _) => run_sc sc' ops' end
  | ORest :: ops' => run_sc (fst (rest sc)) ops'
  end.

(* ---- sessions over the whole API: also Err, Reset (to a fresh reader of the session's input
   [src]), Scanner.Split and Each ---- *)
Inductive sc_opx := XNext | XRest | XErr | XReset | XSplit | XEach (stop : nat).
Inductive sc_outx :=
| XRNext (ok : bool) (txt : bytes) (cmpl : bool)
| XRRest (r : bytes)
| XRErr (is_eof : bool)
| XRReset
| XRSplit (toks : list bytes) (txt : bytes) (cmpl : bool)   (* tokens; Text and Complete afterwards *)
| XREach (toks : list bytes) (txt : bytes) (cmpl : bool)    (* tokens passed to the callback; Text, Complete afterwards *)
| XRPanic.

Fixpoint run_opsx (src : bytes) (sc : scanner) (ops : list sc_opx) : list sc_outx :=
  match ops with
  | [] => []
  | XNext :: ops' =>
    match next sc with
    | None => [XRPanic]
    | Some (sc', ok) => XRNext ok (text sc') (complete sc') :: run_opsx src sc' ops'
    end
  | XRest :: ops' => let '(sc', r) := rest sc in XRRest r :: run_opsx src sc' ops'
  | XErr :: ops' => XRErr (err_eof sc) :: run_opsx src sc ops'
  | XReset :: ops' => XRReset :: run_opsx src (reset_sc sc src) ops'
  | XSplit :: ops' =>
    match scanner_split sc with
    | None => [XRPanic]
    | Some (sc', toks) => XRSplit toks (text sc') (complete sc') :: run_opsx src sc' ops'
    end
  | XEach stop :: ops' =>
    match scanner_each sc stop with
    | None => [XRPanic]
    | Some (sc', toks) => XREach toks (text sc') (complete sc') :: run_opsx src sc' ops'
    end
  end.
