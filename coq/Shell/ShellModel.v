(* Model of shell/shell.go: the Scanner (Next/Text/Complete/Rest/Split/Each), Split, Quote, Join.
   Definitions only; everything that is data (transducer table, byte classes, character sets,
   Complete's state set, Next's end-of-input rule, initial states) comes from Gen/ShellTable.v,
   regenerated from the Go source on every run. *)
From Coq Require Import NArith List Bool.
Import ListNotations.
From Mds Require Import Gen.ShellTable.
Local Open Scope N_scope.

Definition bytes := list N.

Definition state_eqb (a b : state) : bool :=
  match a, b with
  | stNone, stNone | stBreak, stBreak | stBreakQ, stBreakQ | stWord, stWord
  | stWordQ, stWordQ | stSingle, stSingle | stDouble, stDouble | stDoubleQ, stDoubleQ => true
  | _, _ => false
  end.

(* The byte loop of Scanner.Next from state [s] with current token [acc]. *)
Inductive next_res :=
| NPanic                                         (* update[st][class] out of range *)
| NEmit (tok : bytes) (rest : bytes) (s : state) (* the emit action: return true *)
| NEof (has : bool) (tok : bytes) (s : state).   (* io.EOF: return st != stBreak *)

Fixpoint scan_next (inp : bytes) (s : state) (acc : bytes) : next_res :=
  match inp with
  | [] => NEof (eof_has_token s) acc s
  | c :: rest =>
    match update s (class_of c) with
    | None => NPanic
    | Some (s', a) =>
      match a with
      | push => scan_next rest s' (acc ++ [c])
      | xpush => scan_next rest s' (acc ++ [92; c])
      | emit => NEmit acc rest s'
      | drop => scan_next rest s' acc
      end
    end
  end.

(* ---- the Scanner object ---- *)
Record scanner := { inp : bytes; st : state; cur : bytes; eof : bool }.

Definition new_scanner (i : bytes) : scanner := {| inp := i; st := new_state; cur := []; eof := false |}.
Definition reset (i : bytes) : scanner := {| inp := i; st := reset_state; cur := []; eof := false |}.

(* None = panic *)
Definition next (sc : scanner) : option (scanner * bool) :=
  if eof sc then Some (sc, false)
  else match scan_next (inp sc) (st sc) [] with
       | NPanic => None
       | NEmit tok rest s' => Some ({| inp := rest; st := s'; cur := tok; eof := false |}, true)
       | NEof has tok s' => Some ({| inp := []; st := s'; cur := tok; eof := true |}, has)
       end.

Definition text (sc : scanner) : bytes := cur sc.
Definition complete (sc : scanner) : bool := complete_state (st sc).
Definition rest (sc : scanner) : scanner * bytes :=
  ({| inp := []; st := rest_state; cur := []; eof := true |}, inp sc).

(* Scanner.Split: call Next until it reports false.  Every true Next with eof = false consumed at
   least one byte, so fuel = length + 2 is always enough; running out is reported as None. *)
Fixpoint split_loop (fuel : nat) (sc : scanner) (toks : list bytes) : option (scanner * list bytes) :=
  match fuel with
  | O => None
  | S f =>
    match next sc with
    | None => None
    | Some (sc', true) => split_loop f sc' (toks ++ [text sc'])
    | Some (sc', false) => Some (sc', toks)
    end
  end.

Definition scanner_split (sc : scanner) : option (scanner * list bytes) :=
  split_loop (S (S (length (inp sc)))) sc [].

(* shell.Split *)
Definition split (s : bytes) : option (list bytes * bool) :=
  match scanner_split (reset s) with
  | None => None
  | Some (sc, toks) => Some (toks, complete sc)
  end.

(* ---- Quote / Join ---- *)
Definition mem (b : N) (l : list N) : bool := existsb (N.eqb b) l.

(* quotable: the early exit (v < all) does not change the result *)
Definition has_q (s : bytes) : bool := existsb (N.eqb 39) s.
Definition has_other (s : bytes) : bool := existsb (fun b => negb (N.eqb b 39) && mem b allQuote) s.

Fixpoint quote_loop (s : bytes) (inq : bool) (hasOther : bool) : bytes :=
  match s with
  | [] => if inq then [39] else []
  | ch :: rest =>
    if N.eqb ch 39 then
      (if inq then [39] else []) ++ [92; ch] ++ quote_loop rest false hasOther
    else if negb inq && hasOther then
      [39; ch] ++ quote_loop rest true hasOther
    else ch :: quote_loop rest inq hasOther
  end.

Definition quote (s : bytes) : bytes :=
  match s with
  | [] => [39; 39]
  | _ => if negb (has_q s) && negb (has_other s) then s else quote_loop s false (has_other s)
  end.

Fixpoint join (ss : list bytes) : bytes :=
  match ss with
  | [] => []
  | [s] => quote s
  | s :: rest => quote s ++ [32] ++ join rest
  end.

(* ---- a scripted Scanner session, as the correspondence harness drives it ---- *)
Inductive sc_op := ONext | ORest.
Inductive sc_out :=
| RNext (ok : bool) (txt : bytes) (cmpl : bool)
| RRest (r : bytes)
| RPanic.

Fixpoint run_ops (sc : scanner) (ops : list sc_op) : list sc_out :=
  match ops with
  | [] => []
  | ONext :: ops' =>
    match next sc with
    | None => [RPanic]
    | Some (sc', ok) => RNext ok (text sc') (complete sc') :: run_ops sc' ops'
    end
  | ORest :: ops' => let '(sc', r) := rest sc in RRest r :: run_ops sc' ops'
  end.

(* the scanner after a session (None = panic) *)
Fixpoint run_sc (sc : scanner) (ops : list sc_op) : option scanner :=
  match ops with
  | [] => Some sc
  | ONext :: ops' => match next sc with None => None | Some (sc', _) => run_sc sc' ops' end
  | ORest :: ops' => run_sc (fst (rest sc)) ops'
  end.
