(* C16: sessions with a Rest reader read in part and Rest called again (ShellSessionExt.v) against
   the extended reference.  The calls of the old API are discharged by the one-call lemmas the
   session theorem of ShellProofsX.v is made of (step_next, to_end, step_each over [sess_rel]);
   new here: the states in which the session holds a reader with unread bytes (the scanner's
   error latch is set, its buffer is not empty). *)
From Coq Require Import NArith List Bool Lia Arith.
Import ListNotations.
From Mds Require Import Gen.ShellTable Shell.ShellModel Shell.ShellSpec Shell.ShellSession Shell.ShellSkel
  Shell.ShellProofs16 Shell.ShellProofsX Shell.ShellSessionExt.
Local Open Scope N_scope.

(* ---- run_opsx is the iteration of stepx ---- *)
Lemma stepx_run src sc op ops :
  run_opsx src sc (op :: ops) =
  match stepx src sc op with
  | None => [XRPanic]
  | Some (sc', o) => o :: run_opsx src sc' ops
  end.
Proof.
  destruct op; cbn [run_opsx stepx].
  - destruct (next sc) as [[sc' ok]|]; reflexivity.
  - destruct (rest sc) as [sc' r]. reflexivity.
  - reflexivity.
  - reflexivity.
  - destruct (scanner_split sc) as [[sc' toks]|]; reflexivity.
  - destruct (scanner_each sc stop) as [[sc' toks]|]; reflexivity.
Qed.

Lemma run_ext_cons src x op ops :
  run_ext src x (op :: ops) =
  match step_ext src x op with
  | None => [EROut XRPanic]
  | Some (x', o) => o :: run_ext src x' ops
  end.
Proof.
  unfold run_ext. cbn [run_ext_st]. destruct (step_ext src x op) as [[x' o]|]; [|reflexivity].
  destruct (run_ext_st src x' ops). reflexivity.
Qed.

(* the old sessions are the extended sessions that use only the old calls *)
Lemma run_ext_embeds src : forall ops sc h,
  run_ext src {| esc := sc; ehave := h |} (map eop ops) = map eout (run_opsx src sc ops).
Proof.
  induction ops as [|o ops IH]; intros sc h; [reflexivity|].
  cbn [map]. unfold eop at 1. rewrite run_ext_cons, stepx_run. cbn [step_ext esc ehave].
  destruct (stepx src sc o) as [[sc' out]|]; [|reflexivity].
  cbn [map]. rewrite IH. reflexivity.
Qed.

(* ---- a scanner whose error latch is set does nothing but report it, whatever its buffer holds ---- *)
Lemma split_latched sc : eof sc = true -> scanner_split sc = Some (sc, []).
Proof.
  intros He. rewrite scanner_split_hand. unfold Hand.scanner_split. cbn [Hand.split_loop].
  rewrite (next_at_eof sc He). reflexivity.
Qed.

Lemma each_latched sc stop : eof sc = true -> scanner_each sc stop = Some (sc, []).
Proof.
  intros He. rewrite scanner_each_hand. unfold Hand.scanner_each. cbn [Hand.each_loop].
  rewrite (next_at_eof sc He). reflexivity.
Qed.

Lemma next_latched sc : eof sc = true -> next sc = Some (sc, false).
Proof. intros He. rewrite next_hand. exact (next_at_eof sc He). Qed.

(* ---- the invariant ---- *)
Definition ext_rel (r : ref_ext) (x : ext) : Prop :=
  rtc r = (text (esc x), complete (esc x)) /\
  match runread r with
  | None => ehave x = false /\ sess_rel (rq r) (esc x)
  | Some u => ehave x = true /\ eof (esc x) = true /\ inp (esc x) = u /\
              rq r = REnded (text (esc x)) (complete (esc x))
  end.

Lemma rel_new s : ext_rel (new_ref_ext s) (new_ext s).
Proof. split; [reflexivity|]. cbn. split; [reflexivity|]. left. repeat split. Qed.

Lemma rel_reset s sc : ext_rel (new_ref_ext s) {| esc := reset_sc sc s; ehave := false |}.
Proof.
  rewrite reset_sc_hand. split; [reflexivity|]. cbn. split; [reflexivity|]. left. repeat split.
Qed.

Lemma eqb_refl_b b : Bool.eqb b b = true.
Proof. destruct b; reflexivity. Qed.

(* what Rest must hand out is what the scanner's buffer holds *)
Lemma hand_out_inp r x : ext_rel r x -> hand_out r = inp (esc x).
Proof.
  intros [_ H]. unfold hand_out. destruct (runread r) as [u|].
  - destruct H as (_ & _ & Hi & ->). cbn. symmetry. exact Hi.
  - destruct H as [_ H]. destruct (rq r) as [rem c|t c]; cbn [sess_rel] in H; cbn.
    + destruct H as [(_ & Hi & _)|(_ & Hi & -> & _)]; [symmetry; exact Hi|rewrite Hi; reflexivity].
    + destruct H as (_ & Hi & _). symmetry. exact Hi.
Qed.

(* the scanner is at its end for the reference exactly when ... (only the direction used) *)
Lemma rel_after_rest sc k :
  ext_rel (after_rest (skipn k (inp sc)))
          {| esc := set_inp (fst (rest sc)) (skipn k (inp sc)); ehave := true |}.
Proof. rewrite rest_hand. split; [reflexivity|]. cbn. repeat split. Qed.

Lemma rel_after_rest_all sc : ext_rel (after_rest []) {| esc := fst (rest sc); ehave := true |}.
Proof. rewrite rest_hand. split; [reflexivity|]. cbn. repeat split. Qed.

(* ---- one call keeps the invariant, and the reference accepts its observation ---- *)
Lemma step_ext_ok s0 r x op : ext_rel r x ->
  exists x' o r', step_ext s0 x op = Some (x', o) /\ ref_step_ext s0 r op o = Some r' /\ ext_rel r' x'.
Proof.
  intros Hrel. pose proof (hand_out_inp r x Hrel) as Hho.
  destruct op as [o|k|k|].
  - (* a call of the old API *)
    destruct o.
    + (* Next *)
      destruct r as [q un tc]; destruct x as [sc h]; destruct Hrel as [Htc H]; cbn [rq runread rtc esc ehave] in *.
      destruct un as [u|].
      * destruct H as (Hh & He & Hi & Hq). subst q.
        eexists _, _, _. cbn [step_ext stepx esc ehave]. rewrite (next_latched sc He).
        split; [reflexivity|]. cbn [ref_step_ext ref_stepx ref_step rq runread rtc].
        rewrite bytes_eqb_refl, eqb_refl_b. cbn. split; [reflexivity|].
        split; [reflexivity|]. cbn. repeat split; assumption.
      * destruct H as [Hh Hs]. destruct (step_next q sc Hs) as (sc' & ok & q' & Hn & Hst & Hrel').
        eexists _, _, _. cbn [step_ext stepx esc ehave]. rewrite next_hand, Hn.
        split; [reflexivity|]. cbn [ref_step_ext ref_stepx rq runread rtc]. rewrite Hst.
        split; [reflexivity|]. split; [reflexivity|]. cbn. split; assumption.
    + (* Rest, read to the end *)
      eexists _, _, _. cbn [step_ext stepx]. rewrite (surjective_pairing (rest (esc x))).
      split; [reflexivity|]. cbn [ref_step_ext]. rewrite Hho.
      replace (snd (rest (esc x))) with (inp (esc x)) by (rewrite rest_hand; reflexivity).
      rewrite bytes_eqb_refl. split; [reflexivity|]. apply rel_after_rest_all.
    + (* Err *)
      destruct r as [q un tc]; destruct x as [sc h]; destruct Hrel as [Htc H]; cbn [rq runread rtc esc ehave] in *.
      eexists _, _, _. cbn [step_ext stepx esc ehave]. split; [reflexivity|].
      cbn [ref_step_ext ref_stepx rq runread rtc]. unfold err_eof.
      assert (E: match q with
                 | RActive rem _ => if eof sc then (if is_nil rem then Some q else None) else Some q
                 | REnded _ _ => if eof sc then Some q else None
                 end = Some q).
      { destruct un as [u|].
        - destruct H as (_ & He & _ & ->). rewrite He. reflexivity.
        - destruct H as [_ Hs]. destruct q as [rem c|t c]; cbn [sess_rel] in Hs.
          + destruct Hs as [((He & _) & _)|(He & _ & -> & _)]; rewrite He; reflexivity.
          + destruct Hs as (He & _). rewrite He. reflexivity. }
      rewrite E. split; [reflexivity|]. split; [exact Htc|exact H].
    + (* Reset *)
      eexists _, _, _. cbn [step_ext stepx]. split; [reflexivity|]. cbn [ref_step_ext].
      split; [reflexivity|]. apply rel_reset.
    + (* Scanner.Split *)
      destruct r as [q un tc]; destruct x as [sc h]; destruct Hrel as [Htc H]; cbn [rq runread rtc esc ehave] in *.
      destruct un as [u|].
      * destruct H as (Hh & He & Hi & Hq). subst q.
        eexists _, _, _. cbn [step_ext stepx esc ehave]. rewrite (split_latched sc He).
        split; [reflexivity|]. cbn [ref_step_ext ref_stepx ref_to_end rq runread rtc is_nil].
        rewrite bytes_eqb_refl, eqb_refl_b. cbn. split; [reflexivity|].
        split; [reflexivity|]. cbn. repeat split; assumption.
      * destruct H as [Hh Hs]. destruct (to_end q sc Hs) as (fin & toks & q' & Hsp & _ & Hre & Hrel').
        eexists _, _, _. cbn [step_ext stepx esc ehave]. rewrite scanner_split_hand, Hsp.
        split; [reflexivity|]. cbn [ref_step_ext ref_stepx rq runread rtc]. rewrite Hre.
        split; [reflexivity|]. split; [reflexivity|]. cbn. split; assumption.
    + (* Each *)
      destruct r as [q un tc]; destruct x as [sc h]; destruct Hrel as [Htc H]; cbn [rq runread rtc esc ehave] in *.
      destruct un as [u|].
      * destruct H as (Hh & He & Hi & Hq). subst q.
        eexists _, _, _. cbn [step_ext stepx esc ehave]. rewrite (each_latched sc stop He).
        split; [reflexivity|]. cbn [ref_step_ext ref_stepx ref_to_end rq runread rtc is_nil].
        rewrite bytes_eqb_refl, eqb_refl_b. cbn. split; [reflexivity|].
        split; [reflexivity|]. cbn. repeat split; assumption.
      * destruct H as [Hh Hs]. destruct (step_each s0 q sc stop Hs) as (sc' & toks & q' & He & Hst & Hrel').
        eexists _, _, _. cbn [step_ext stepx esc ehave]. rewrite scanner_each_hand, He.
        split; [reflexivity|]. cbn [ref_step_ext rq runread rtc]. rewrite Hst.
        split; [reflexivity|]. split; [reflexivity|]. cbn. split; assumption.
  - (* Rest, k bytes read *)
    eexists _, _, _. cbn [step_ext]. rewrite (surjective_pairing (rest (esc x))).
    replace (snd (rest (esc x))) with (inp (esc x)) by (rewrite rest_hand; reflexivity).
    split; [reflexivity|]. cbn [ref_step_ext]. cbv zeta. rewrite Hho, bytes_eqb_refl.
    split; [reflexivity|]. apply rel_after_rest.
  - (* k more bytes *)
    destruct r as [q un tc]; destruct x as [sc h]; destruct Hrel as [Htc H]; cbn [rq runread rtc esc ehave] in *.
    destruct un as [u|].
    + destruct H as (Hh & He & Hi & Hq). subst h u.
      eexists _, _, _. cbn [step_ext esc ehave]. split; [reflexivity|].
      cbn [ref_step_ext rq runread rtc]. rewrite bytes_eqb_refl. split; [reflexivity|].
      split; [exact Htc|]. cbn. repeat split; assumption.
    + destruct H as [Hh Hs]. subst h.
      eexists _, _, _. cbn [step_ext esc ehave]. split; [reflexivity|].
      cbn [ref_step_ext rq runread rtc bytes_eqb]. split; [reflexivity|]. split; [exact Htc|]. cbn. split; [reflexivity|exact Hs].
  - (* Text / Complete *)
    eexists _, _, _. cbn [step_ext]. split; [reflexivity|]. cbn [ref_step_ext].
    destruct Hrel as [Htc H]. rewrite Htc. cbn [fst snd]. rewrite bytes_eqb_refl, eqb_refl_b.
    split; [reflexivity|]. split; assumption.
Qed.

(* ---- whole sessions ---- *)
Lemma session_from_ext_run s0 : forall ops r x, ext_rel r x ->
  session_from_ext s0 r ops (run_ext s0 x ops) = true.
Proof.
  induction ops as [|op ops IH]; intros r x Hrel; [reflexivity|].
  destruct (step_ext_ok s0 r x op Hrel) as (x' & o & r' & Hs & Hr & Hrel').
  rewrite run_ext_cons, Hs. cbn [session_from_ext]. rewrite Hr. apply IH. exact Hrel'.
Qed.

Theorem session_ext_ref s ops : session_ok_ext s ops (run_ext s (new_ext s) ops) = true.
Proof. apply session_from_ext_run. apply rel_new. Qed.

Theorem session_ext_no_panic s ops : ~ In (EROut XRPanic) (run_ext s (new_ext s) ops).
Proof.
  pose proof (session_ext_ref s ops) as H. unfold session_ok_ext in H.
  remember (new_ref_ext s) as r. clear Heqr.
  remember (run_ext s (new_ext s) ops) as outs. clear Heqouts.
  revert r outs H. induction ops as [|o ops IH]; intros r outs H Hin.
  - destruct outs; [contradiction|discriminate].
  - destruct outs as [|y outs]; [contradiction|]. cbn [session_from_ext] in H.
    destruct (ref_step_ext s r o y) as [r'|] eqn:E; [|discriminate].
    destruct Hin as [->|Hin]; [|exact (IH _ _ H Hin)].
    destruct o as [o| | |]; [destruct o|..]; discriminate.
Qed.

(* ---- Reset from ANY state (a reader handed out and read in part, or not; reachable or not): the
   session goes on as that of a new scanner on the input of the Reset ---- *)
Lemma reset_fresh src x ops :
  run_ext src x (EOp XReset :: ops) = EROut XRReset :: run_ext src (new_ext src) ops.
Proof. rewrite run_ext_cons. cbn [step_ext stepx]. rewrite reset_sc_hand. reflexivity. Qed.

Theorem session_ext_reuse s2 x ops :
  exists outs, run_ext s2 x (EOp XReset :: ops) = EROut XRReset :: outs /\
               session_ok_ext s2 ops outs = true /\ ~ In (EROut XRPanic) outs.
Proof.
  exists (run_ext s2 (new_ext s2) ops). split; [apply reset_fresh|].
  split; [apply session_ext_ref|apply session_ext_no_panic].
Qed.

(* the state a session leaves is the one its calls lead to: run_ext_st's second component is the
   iteration of step_ext (used by the driver for M lines: Reset onto a second input) *)
Lemma run_ext_st_cons src x op ops :
  snd (run_ext_st src x (op :: ops)) =
  match step_ext src x op with
  | None => None
  | Some (x', _) => snd (run_ext_st src x' ops)
  end.
Proof.
  cbn [run_ext_st]. destruct (step_ext src x op) as [[x' o]|]; [|reflexivity].
  destruct (run_ext_st src x' ops). reflexivity.
Qed.

(* ---- the extended reference on the old sessions is the old reference ----
   (every Rest read to its end: [runread] is None or Some [], and a Rest at the end must be empty) *)
Definition plain (r : ref_ext) : Prop :=
  match runread r with
  | None => True
  | Some u => u = [] /\ exists t c, rq r = REnded t c
  end.

Lemma ref_ext_embeds s0 : forall ops outs r, plain r ->
  session_from_ext s0 r (map eop ops) (map eout outs) = session_fromx s0 (rq r) ops outs.
Proof.
  induction ops as [|op ops IH]; intros [|o outs] r Hp; try reflexivity.
  cbn [map session_from_ext session_fromx]. unfold eop at 1, eout at 1.
  assert (Hgen: forall q', ref_stepx s0 (rq r) op o = Some q' -> op <> XRest -> op <> XReset ->
            plain {| rq := q'; runread := runread r;
                     rtc := match o with XRNext _ t c | XRSplit _ t c | XREach _ t c => (t, c) | _ => rtc r end |}).
  { intros q' Hq Hn1 Hn2. unfold plain in *. cbn [runread rq]. destruct (runread r) as [u|]; [|exact I].
    destruct Hp as [-> (t & c & Hr)]. split; [reflexivity|]. rewrite Hr in Hq.
    destruct op; try contradiction; destruct o; cbn in Hq; try discriminate.
    all: match type of Hq with (if ?b then _ else _) = _ => destruct b end; inversion Hq; eauto. }
  destruct op.
  - cbn [ref_step_ext]. destruct (ref_stepx s0 (rq r) XNext o) as [q'|] eqn:E; [|reflexivity].
    rewrite IH; [reflexivity|]. apply Hgen; [reflexivity|discriminate|discriminate].
  - destruct o; cbn [ref_step_ext ref_stepx]; try reflexivity;
      try (destruct (ref_stepx s0 (rq r) XRest _); reflexivity).
    assert (Hh: ref_step (rq r) ORest (RRest r0) = if bytes_eqb r0 (hand_out r) then Some (REnded [] false) else None).
    { unfold hand_out, plain in *. destruct (rq r) as [rem c|t c] eqn:Eq; cbn [ref_step]; [reflexivity|].
      destruct (runread r) as [u|]; [destruct Hp as [-> _]|]; reflexivity. }
    rewrite Hh. destruct (bytes_eqb r0 (hand_out r)); [|reflexivity].
    rewrite IH; [reflexivity|]. cbn. split; [reflexivity|]. eauto.
  - cbn [ref_step_ext]. destruct (ref_stepx s0 (rq r) XErr o) as [q'|] eqn:E; [|reflexivity].
    rewrite IH; [reflexivity|]. apply Hgen; [reflexivity|discriminate|discriminate].
  - destruct o; cbn [ref_step_ext ref_stepx]; try reflexivity.
    rewrite IH; [reflexivity|]. exact I.
  - cbn [ref_step_ext]. destruct (ref_stepx s0 (rq r) XSplit o) as [q'|] eqn:E; [|reflexivity].
    rewrite IH; [reflexivity|]. apply Hgen; [reflexivity|discriminate|discriminate].
  - cbn [ref_step_ext]. destruct (ref_stepx s0 (rq r) (XEach stop) o) as [q'|] eqn:E; [|reflexivity].
    rewrite IH; [reflexivity|]. apply Hgen; [reflexivity|discriminate|discriminate].
Qed.

Theorem session_ok_ext_embeds s ops outs :
  session_ok_ext s (map eop ops) (map eout outs) = session_okx s ops outs.
Proof. unfold session_ok_ext, session_okx. rewrite ref_ext_embeds; [reflexivity|exact I]. Qed.
