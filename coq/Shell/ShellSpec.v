(* Reference semantics for C15/C16, written from XCU section 2.2 (Quoting) and 2.6.5 (Field
   Splitting of literal text), not from the implementation's table.  Readable in minutes:
   [ref_split] is a recursive-descent tokenizer, [posix_word] a stricter evaluator that rejects
   any unquoted character with a special meaning to the shell. *)
From Coq Require Import NArith List Bool.
Import ListNotations.
Local Open Scope N_scope.

Definition bytes := list N.
Definition SP := 32. Definition TAB := 9. Definition NL := 10.
Definition BSL := 92. Definition SQ := 39. Definition DQ := 34.

Definition is_break (c : N) : bool := (c =? SP) || (c =? TAB) || (c =? NL).

(* single quotes: everything up to the next single quote, literally. *)
Fixpoint until_sq (s : bytes) : bytes * option bytes :=   (* body, Some rest-after-quote | None = unterminated *)
  match s with
  | [] => ([], None)
  | c :: r => if c =? SQ then ([], Some r)
              else let '(b, k) := until_sq r in (c :: b, k)
  end.

(* double quotes: backslash escapes only backslash and the double quote (backslash-newline is a
   continuation, removed); before any other byte the backslash is literal; a final lone
   backslash is dropped. *)
Fixpoint dq_body (fuel : nat) (s : bytes) : bytes * option bytes :=
  match fuel with
  | O => ([], None)
  | S f =>
    match s with
    | [] => ([], None)
    | c :: r =>
      if c =? DQ then ([], Some r)
      else if c =? BSL then
        match r with
        | [] => ([], None)
        | e :: r' =>
          let '(b, k) := dq_body f r' in
          if e =? NL then (b, k)
          else if (e =? BSL) || (e =? DQ) then (e :: b, k)
          else (BSL :: e :: b, k)
        end
      else let '(b, k) := dq_body f r in (c :: b, k)
    end
  end.

(* One word starting at [s] (not at a separator): text, closed?, remaining input. *)
Fixpoint word (fuel : nat) (s : bytes) (acc : bytes) : bytes * bool * bytes :=
  match fuel with
  | O => (acc, false, [])
  | S f =>
    match s with
    | [] => (acc, true, [])
    | c :: r =>
      if is_break c then (acc, true, r)
      else if c =? BSL then
        match r with
        | [] => (acc, false, [])                       (* dangling backslash: incomplete *)
        | e :: r' => if e =? NL then word f r' acc      (* line continuation *)
                     else word f r' (acc ++ [e])
        end
      else if c =? SQ then
        match until_sq r with
        | (b, None) => (acc ++ b, false, [])
        | (b, Some r') => word f r' (acc ++ b)
        end
      else if c =? DQ then
        match dq_body (S (length r)) r with
        | (b, None) => (acc ++ b, false, [])
        | (b, Some r') => word f r' (acc ++ b)
        end
      else word f r (acc ++ [c])
    end
  end.

(* Between words: blanks, newlines and backslash-newline pairs are skipped. *)
Fixpoint skip_sep (fuel : nat) (s : bytes) : bytes :=
  match fuel with
  | O => s
  | S f =>
    match s with
    | c :: r => if is_break c then skip_sep f r
                else if c =? BSL then
                  match r with
                  | e :: r' => if e =? NL then skip_sep f r' else s
                  | [] => s
                  end
                else s
    | [] => []
    end
  end.

Fixpoint fields (fuel : nat) (s : bytes) : list bytes * bool :=
  match fuel with
  | O => ([], false)
  | S f =>
    match skip_sep (length s) s with
    | [] => ([], true)
    | s' =>
      let '(w, ok, r) := word (S (length s')) s' [] in
      if ok then let '(ws, fin) := fields f r in (w :: ws, fin)
      else ([w], false)
    end
  end.

Definition ref_split (s : bytes) : list bytes * bool := fields (S (length s)) s.

(* ---- strict POSIX evaluation of a command fragment made of literal words ---- *)

(* XCU 2.2: the application shall quote the following characters if they are to represent
   themselves: | & ; < > ( ) $ ` backslash double-quote single-quote space tab newline, and these
   may need to be quoted under certain circumstances: * ? [ # ~ = %  *)
Definition posix_special : list N :=
  [124; 38; 59; 60; 62; 40; 41; 36; 96; 92; 34; 39; 32; 9; 10;  42; 63; 91; 35; 126; 61; 37].

Definition memb (b : N) (l : list N) : bool := existsb (N.eqb b) l.

(* inside double quotes: $ and ` keep their meaning (so: reject); backslash escapes $ ` double-quote
   backslash newline *)
Fixpoint pdq_body (fuel : nat) (s : bytes) : option (bytes * bytes) :=
  match fuel with
  | O => None
  | S f =>
    match s with
    | [] => None
    | c :: r =>
      if c =? DQ then Some ([], r)
      else if (c =? 36) || (c =? 96) then None
      else if c =? BSL then
        match r with
        | e :: r' =>
          if memb e [36; 96; DQ; BSL; NL] then
            match pdq_body f r' with
            | None => None
            | Some (b, k) => Some (if e =? NL then b else e :: b, k)
            end
          else match pdq_body f r with None => None | Some (b, k) => Some (c :: b, k) end
        | [] => None
        end
      else match pdq_body f r with None => None | Some (b, k) => Some (c :: b, k) end
    end
  end.

Fixpoint pword (fuel : nat) (s : bytes) (acc : bytes) : option (bytes * bytes) :=
  match fuel with
  | O => None
  | S f =>
    match s with
    | [] => Some (acc, [])
    | c :: r =>
      if (c =? SP) || (c =? TAB) then Some (acc, r)
      else if c =? BSL then
        match r with
        | [] => None
        | e :: r' => if e =? NL then pword f r' acc else pword f r' (acc ++ [e])
        end
      else if c =? SQ then
        match until_sq r with
        | (_, None) => None
        | (b, Some r') => pword f r' (acc ++ b)
        end
      else if c =? DQ then
        match pdq_body (S (length r)) r with
        | None => None
        | Some (b, r') => pword f r' (acc ++ b)
        end
      else if memb c posix_special then None
      else pword f r (acc ++ [c])
    end
  end.

(* between words: blanks, and backslash-newline pairs (XCU 2.2.1: "the backslash and newline shall
   be removed before splitting the input into tokens", so a continuation between two words
   neither starts nor is a word) *)
Fixpoint skip_blank (s : bytes) : bytes :=
  match s with
  | c :: r => if (c =? SP) || (c =? TAB) then skip_blank r
              else if c =? BSL then
                match r with
                | e :: r' => if e =? NL then skip_blank r' else s
                | [] => s
                end
              else s
  | [] => []
  end.

Fixpoint pwords (fuel : nat) (s : bytes) : option (list bytes) :=
  match fuel with
  | O => None
  | S f =>
    match skip_blank s with
    | [] => Some []
    | s' => match pword (S (length s')) s' [] with
            | None => None
            | Some (w, r) => match pwords f r with None => None | Some ws => Some (w :: ws) end
            end
    end
  end.

Definition posix_words (s : bytes) : option (list bytes) := pwords (S (length s)) s.
