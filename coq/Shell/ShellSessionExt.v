(* Scanner sessions in which the reader handed out by Rest is read only IN PART, and Rest is called
   again.  Definitions only: the extended session machine over the scanner of ShellModel.v, and the
   extended reference over the abstract input (reference tokenizer of ShellSpec.v through
   ShellSession.ref_stepx; no table, no scanner state).

   What the Go code does (shell/shell.go): Rest sets st = stNone, clears cur, latches err = io.EOF and
   returns s.buf -- the scanner's OWN *bufio.Reader, the same object at every call.  So
     - bytes read from the reader Rest returned are taken out of the scanner's buffer;
     - a second Rest returns the same reader again: it delivers what the caller has not read yet, and
       "the first reader" and "the second reader" are one object (reading from either is reading from
       both);
     - Next after Rest returns at its first statement (err is latched) and reads nothing;
     - Reset re-binds that very bufio.Reader to the new input (a caller that kept the old reader and
       read from it AFTER the Reset would take bytes of the NEW input away from the scanner: the
       session ops below do not include that -- a Reset makes the session forget its reader).
   In the model the scanner's [inp] is what its buffered reader still holds; [rest] is "Rest and read
   everything" ([inp] := []); reading only k bytes leaves the others in [inp].

   Extended ops (the trace letters of harness/cmd/shelltrace):
     EOp o         the calls of ShellModel.sc_opx; XRest = Rest and read the whole reader    n r e z s a b c
     ERestPart k   rd := Rest(); the first k bytes of rd are read (all of it when shorter)     p<k>
     EReadMore k   k more bytes from the reader of the last Rest; when no Rest came before or a
                   Reset came since, nothing is called and no byte is delivered (the trace
                   writes both "no reader" and "no byte" as q-: one observation here too)      q<k>
     EText         Text() and Complete() with no call in between                              t      *)
From Coq Require Import NArith List Bool.
Import ListNotations.
From Mds Require Import Shell.ShellModel Shell.ShellSpec Shell.ShellSession.
Local Open Scope N_scope.

Inductive sc_ope :=
| EOp (o : sc_opx)
| ERestPart (k : nat)
| EReadMore (k : nat)
| EText.

Inductive sc_oute :=
| EROut (o : sc_outx)
| ERPart (b : bytes)            (* the bytes read from the reader Rest returned *)
| ERMore (b : bytes)            (* the bytes read on from that reader (none when there is no reader) *)
| ERText (t : bytes) (c : bool).

(* ---- the model ---- *)

(* one call of the API of ShellModel.run_opsx: the scanner afterwards and the observation
   (None: the call panicked).  [stepx_run] (ShellProofsExt.v): run_opsx is the iteration of this. *)
Definition stepx (src : bytes) (sc : scanner) (op : sc_opx) : option (scanner * sc_outx) :=
  match op with
  | XNext => match next sc with
             | None => None
             | Some (sc', ok) => Some (sc', XRNext ok (text sc') (complete sc'))
             end
  | XRest => let '(sc', r) := rest sc in Some (sc', XRRest r)
  | XErr => Some (sc, XRErr (err_eof sc))
  | XReset => Some (reset_sc sc src, XRReset)
  | XSplit => match scanner_split sc with
              | None => None
              | Some (sc', toks) => Some (sc', XRSplit toks (text sc') (complete sc'))
              end
  | XEach stop => match scanner_each sc stop with
                  | None => None
                  | Some (sc', toks) => Some (sc', XREach toks (text sc') (complete sc'))
                  end
  end.

(* the scanner with its buffered reader holding [i] *)
Definition set_inp (sc : scanner) (i : bytes) : scanner :=
  {| inp := i; st := st sc; cur := cur sc; eof := eof sc |}.

(* the scanner, and whether the session holds a reader that Rest handed out (since the last Reset).
   That reader IS the scanner's buffer: what it has not delivered yet is [inp (esc x)]. *)
Record ext := { esc : scanner; ehave : bool }.

Definition new_ext (s : bytes) : ext := {| esc := new_scanner s; ehave := false |}.

Definition step_ext (src : bytes) (x : ext) (op : sc_ope) : option (ext * sc_oute) :=
  match op with
  | EOp o =>
    match stepx src (esc x) o with
    | None => None
    | Some (sc', out) =>
      Some ({| esc := sc';
               ehave := match o with XRest => true | XReset => false | _ => ehave x end |}, EROut out)
    end
  | ERestPart k =>
    (* Rest (the scanner's fields as [rest] leaves them), then k bytes are taken from the buffer *)
    let '(sc', b) := rest (esc x) in
    Some ({| esc := set_inp sc' (skipn k b); ehave := true |}, ERPart (firstn k b))
  | EReadMore k =>
    if ehave x
    then Some ({| esc := set_inp (esc x) (skipn k (inp (esc x))); ehave := true |},
               ERMore (firstn k (inp (esc x))))
    else Some (x, ERMore [])
  | EText => Some (x, ERText (text (esc x)) (complete (esc x)))
  end.

(* a session: the observations, and the state it leaves (None after a panic) *)
Fixpoint run_ext_st (src : bytes) (x : ext) (ops : list sc_ope) : list sc_oute * option ext :=
  match ops with
  | [] => ([], Some x)
  | op :: ops' =>
    match step_ext src x op with
    | None => ([EROut XRPanic], None)
    | Some (x', o) => let '(outs, fin) := run_ext_st src x' ops' in (o :: outs, fin)
    end
  end.

Definition run_ext (src : bytes) (x : ext) (ops : list sc_ope) : list sc_oute := fst (run_ext_st src x ops).

(* ---- the reference ----
   State: the reference state of ShellSession.v (unconsumed input while scanning; ended), plus
     [runread]  Some u when the session holds a reader from Rest: u = the bytes of the input that
                neither the scanner has consumed nor the caller has read.  Always a suffix of the
                input (of the input of the last Reset).
     [rtc]      Text and Complete as the last call left them: what the last Next / Split / Each
                observation reported; no token and complete after NewScanner and Reset; no token and
                not complete after Rest (that last pair is the code's behaviour: the documentation
                does not say what Text / Complete are after Rest -- as in ShellSession.ref_step).

   What the documentation and the property promise, and what is read into them here:
     - promised: "Rest returns an io.Reader for the remainder of the unconsumed input", "Rest returns
       exactly the bytes not yet consumed", "after calling this method, Next will always return
       false" (until a Reset), and so Scanner.Split / Each deliver nothing;
     - promised by consequence: Next / Split / Each / Err / Text / Complete after a Rest take nothing
       away from the reader that was handed out ([runread] changes only by reading and by Rest/Reset);
       reading k bytes delivers the first min(k, length) unread bytes, in order;
     - SILENT: what a SECOND Rest returns when the first reader was not read to its end.  The code
       returns the same buffered reader again, so the caller gets exactly the bytes it has not read
       yet.  [second_rest] below is that reading ("bytes not yet consumed" = consumed by the scanner
       OR read by the caller); it is stated as a definition of its own so that the choice is visible.
       Handing out the whole remainder a second time, or nothing, is rejected.
     - SILENT: that the two readers are one object.  The session ops read from "the reader of the
       last Rest"; in the model there is only the scanner's buffer, so reading through an older
       handle is the same op (EReadMore) -- the reference therefore accepts, for a read through ANY
       handle, the next unread bytes.  The harness reads through the latest handle only.
     - outside: a reader kept across Reset (see above). *)
Record ref_ext := { rq : ref_state; runread : option bytes; rtc : bytes * bool }.

Definition new_ref_ext (s : bytes) : ref_ext := {| rq := RActive s true; runread := None; rtc := ([], true) |}.

(* documentation silent: a Rest after an earlier Rest hands out what the earlier reader has not delivered *)
Definition second_rest (unread : option bytes) : bytes :=
  match unread with Some u => u | None => [] end.

(* the bytes a Rest must hand out *)
Definition hand_out (r : ref_ext) : bytes :=
  match rq r with
  | RActive rem _ => rem                      (* promised: exactly the unconsumed input *)
  | REnded _ _ => second_rest (runread r)     (* input exhausted (None), or see [second_rest] *)
  end.

Definition after_rest (unread : bytes) : ref_ext :=
  {| rq := REnded [] false; runread := Some unread; rtc := ([], false) |}.

Definition ref_step_ext (s0 : bytes) (r : ref_ext) (op : sc_ope) (o : sc_oute) : option ref_ext :=
  match op, o with
  | EOp XRest, EROut (XRRest b) =>
    if bytes_eqb b (hand_out r) then Some (after_rest []) else None
  | EOp XReset, EROut XRReset => Some (new_ref_ext s0)
  | EOp op', EROut o' =>
    (* Next, Err, Scanner.Split, Each: as ShellSession.ref_stepx; the handed-out reader is untouched *)
    match ref_stepx s0 (rq r) op' o' with
    | Some q' =>
      Some {| rq := q'; runread := runread r;
              rtc := match o' with
                     | XRNext _ t c | XRSplit _ t c | XREach _ t c => (t, c)
                     | _ => rtc r
                     end |}
    | None => None
    end
  | ERestPart k, ERPart b =>
    let all := hand_out r in
    if bytes_eqb b (firstn k all) then Some (after_rest (skipn k all)) else None
  | EReadMore k, ERMore b =>
    match runread r with
    | Some u => if bytes_eqb b (firstn k u)
                then Some {| rq := rq r; runread := Some (skipn k u); rtc := rtc r |} else None
    | None => if bytes_eqb b [] then Some r else None      (* no reader in hand: nothing is read *)
    end
  | EText, ERText t c => if bytes_eqb t (fst (rtc r)) && Bool.eqb c (snd (rtc r)) then Some r else None
  | _, _ => None
  end.

Fixpoint session_from_ext (s0 : bytes) (r : ref_ext) (ops : list sc_ope) (outs : list sc_oute) : bool :=
  match ops, outs with
  | [], [] => true
  | op :: ops', o :: outs' =>
    match ref_step_ext s0 r op o with
    | Some r' => session_from_ext s0 r' ops' outs'
    | None => false
    end
  | _, _ => false
  end.

Definition session_ok_ext (s : bytes) (ops : list sc_ope) (outs : list sc_oute) : bool :=
  session_from_ext s (new_ref_ext s) ops outs.

(* the sessions of ShellModel.run_opsx inside the extended ones *)
Definition eop (o : sc_opx) : sc_ope := EOp o.
Definition eout (o : sc_outx) : sc_oute := EROut o.
