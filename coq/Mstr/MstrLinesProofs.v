(* SUPPLEMENTARY -- not part of property C20: mstr.Lines and mstr.Split. *)
From Coq Require Import ZArith List Bool Lia.
Import ListNotations.
From Mds Require Import Gen.MstrMasks Mbits.BytesBase Mstr.MstrSpec Mstr.MstrLinesModel.
Local Open Scope Z_scope.

(* strings.Join *)
Fixpoint join (sep : list Z) (ps : list (list Z)) : list Z :=
  match ps with
  | [] => []
  | p :: rest => match rest with [] => p | _ :: _ => p ++ sep ++ join sep rest end
  end.

Lemma lines_shapes :
  lines_shape = 236867407 /\ split_shape = 236867407 /\
  lines_ncalls_split = 1 /\ lines_ncalls_trim = 1 /\ split_ncalls_split = 1.
Proof. repeat split; reflexivity. Qed.

Lemma starts_with_app : forall p s, starts_with p s = true -> s = p ++ skipn (length p) s.
Proof.
  induction p as [|x p IH]; intros s H; [reflexivity|].
  destruct s as [|y s]; cbn [starts_with] in H; [discriminate|].
  apply andb_prop in H. destruct H as [E H]. apply Z.eqb_eq in E. subst y.
  cbn [length skipn app]. f_equal. apply IH. exact H.
Qed.

Lemma join_cons : forall sep p r, r <> [] -> join sep (p :: r) = p ++ sep ++ join sep r.
Proof. intros sep p r H. destruct r; [congruence|reflexivity]. Qed.

Lemma split_ne_join : forall sep, sep <> [] -> forall fuel s cur, (length s < fuel)%nat ->
  exists ps, split_ne fuel sep s cur = Ok ps /\ ps <> [] /\ join sep ps = rev cur ++ s.
Proof.
  intros sep Hsep. induction fuel as [|f IH]; intros s cur Hf; [lia|].
  cbn [split_ne]. destruct s as [|c t].
  - exists [rev cur]. split; [reflexivity|]. split; [discriminate|]. cbn [join]. rewrite app_nil_r. reflexivity.
  - destruct (starts_with sep (c :: t)) eqn:Hs.
    + pose proof (starts_with_app sep (c :: t) Hs) as Happ.
      assert (Hl : (length (skipn (length sep) (c :: t)) < f)%nat).
      { rewrite skipn_length. destruct sep; [congruence|]. cbn [length] in *. lia. }
      destruct (IH (skipn (length sep) (c :: t)) [] Hl) as (r & Hr & Hne & Hj).
      rewrite Hr. cbn [bind]. exists (rev cur :: r). split; [reflexivity|]. split; [discriminate|].
      rewrite join_cons by exact Hne. rewrite Hj. cbn [rev app]. rewrite <- Happ. reflexivity.
    + cbn [length] in Hf. destruct (IH t (c :: cur) ltac:(lia)) as (r & Hr & Hne & Hj).
      exists r. split; [exact Hr|]. split; [exact Hne|]. rewrite Hj. cbn [rev]. rewrite <- app_assoc. reflexivity.
Qed.

(* a one-byte separator does not occur inside any piece *)
Lemma split_ne_byte_free : forall c fuel s cur ps, ~ In c cur ->
  split_ne fuel [c] s cur = Ok ps -> Forall (fun p => ~ In c p) ps.
Proof.
  intros c. induction fuel as [|f IH]; intros s cur ps Hc H; [discriminate|].
  cbn [split_ne] in H. destruct s as [|x t].
  - inversion H; subst. constructor; [|constructor]. intros Hin. apply in_rev in Hin. auto.
  - cbn [starts_with length skipn] in H. rewrite andb_true_r in H. destruct (c =? x) eqn:E.
    + destruct (split_ne f [c] t []) as [r| | |] eqn:Hr; cbn [bind] in H; try discriminate.
      inversion H; subst. constructor.
      * intros Hin. apply in_rev in Hin. auto.
      * apply (IH t [] r); [intros []|exact Hr].
    + apply (IH t (x :: cur) ps); [|exact H].
      intros [Hx|Hin]; [apply Z.eqb_neq in E; congruence|auto].
Qed.

Lemma first_len_bounds : forall s, s <> [] -> (1 <= first_len s <= 4)%nat /\ (first_len s <= length s)%nat.
Proof.
  intros s Hs. destruct s as [|a t]; [congruence|]. cbn [first_len length].
  destruct (between 0 127 a); [lia|].
  destruct t as [|b t2]; [lia|]. cbn [length].
  destruct (between 194 223 a); [destruct (is_tail b); lia|].
  destruct t2 as [|c t3]; [lia|]. cbn [length].
  match goal with |- context [if ?x then 3%nat else _] => destruct x end; [lia|].
  destruct t3 as [|d t4]; [lia|]. cbn [length].
  match goal with |- context [if ?x then 4%nat else _] => destruct x end; lia.
Qed.

Lemma explode_concat : forall fuel s, (length s < fuel)%nat ->
  exists ps, explode fuel s = Ok ps /\ concat ps = s /\ Forall (fun p => (1 <= length p <= 4)%nat) ps.
Proof.
  induction fuel as [|f IH]; intros s Hf; [lia|].
  cbn [explode]. destruct s as [|a t].
  - exists []. repeat split. constructor.
  - destruct (first_len_bounds (a :: t) ltac:(discriminate)) as [B1 B2].
    set (k := first_len (a :: t)) in *.
    assert (Hl : (length (skipn k (a :: t)) < f)%nat) by (rewrite skipn_length; cbn [length] in *; lia).
    destruct (IH _ Hl) as (r & Hr & Hc & Hall).
    rewrite Hr. cbn [bind]. exists (firstn k (a :: t) :: r). split; [reflexivity|]. split.
    + cbn [concat]. rewrite Hc. apply firstn_skipn.
    + constructor; [|exact Hall]. rewrite firstn_length. lia.
Qed.

(* ---------------------------------------------------------------- the theorems *)

Theorem lines_empty : lines [] = Ok Nil.
Proof. reflexivity. Qed.

Theorem split_empty : forall sep, split [] sep = Ok Nil.
Proof. reflexivity. Qed.

(* Lines(s), s <> "": a non-nil, non-empty list of newline-free strings which joined by newlines
   give s without one trailing newline *)
Theorem lines_join : forall s, s <> [] ->
  exists ls, lines s = Ok (Strs ls) /\ ls <> [] /\ join [10] ls = trim_suffix s [10] /\
    Forall (fun l => ~ In 10 l) ls.
Proof.
  intros s Hs. unfold lines, lines_if0. destruct s as [|c t]; [congruence|]. cbn [is_empty].
  unfold strings_split.
  destruct (split_ne_join [10] ltac:(discriminate) (S (length (trim_suffix (c :: t) [10]))) (trim_suffix (c :: t) [10]) [] ltac:(lia))
    as (ps & Hp & Hne & Hj).
  rewrite Hp. cbn [bind]. exists ps. split; [reflexivity|]. split; [exact Hne|]. split; [exact Hj|].
  eapply (split_ne_byte_free 10); [|exact Hp]. intros [].
Qed.

(* Split(s, sep), s <> "", sep <> "": a non-nil, non-empty list which joined by sep gives s; for a
   one-byte sep no piece contains it *)
Theorem split_join : forall s sep, s <> [] -> sep <> [] ->
  exists ps, split s sep = Ok (Strs ps) /\ ps <> [] /\ join sep ps = s /\
    (forall c, sep = [c] -> Forall (fun p => ~ In c p) ps).
Proof.
  intros s sep Hs Hsep. unfold split, split_if0. destruct s as [|c t]; [congruence|]. cbn [is_empty].
  unfold strings_split. destruct sep as [|x sep']; [congruence|].
  destruct (split_ne_join (x :: sep') Hsep (S (length (c :: t))) (c :: t) [] ltac:(lia)) as (ps & Hp & Hne & Hj).
  rewrite Hp. cbn [bind]. exists ps. split; [reflexivity|]. split; [exact Hne|]. split; [exact Hj|].
  intros c0 E. inversion E; subst. eapply (split_ne_byte_free c0); [|exact Hp]. intros [].
Qed.

(* Split(s, ""), s <> "": pieces of 1 to 4 bytes whose concatenation is s *)
Theorem split_chars : forall s, s <> [] ->
  exists ps, split s [] = Ok (Strs ps) /\ concat ps = s /\ Forall (fun p => (1 <= length p <= 4)%nat) ps.
Proof.
  intros s Hs. unfold split, split_if0. destruct s as [|c t]; [congruence|]. cbn [is_empty].
  unfold strings_split.
  destruct (explode_concat (S (length (c :: t))) (c :: t) ltac:(lia)) as (ps & Hp & Hc & Hall).
  rewrite Hp. cbn [bind]. exists ps. auto.
Qed.

Theorem lines_all : lines [] = Ok Nil /\ forall s : list Z, s <> [] ->
  exists ls, lines s = Ok (Strs ls) /\ ls <> [] /\ join [10] ls = trim_suffix s [10] /\
    Forall (fun l => ~ In 10 l) ls.
Proof. split; [exact lines_empty | exact lines_join]. Qed.

Theorem split_all : (forall sep, split [] sep = Ok Nil) /\
  (forall s sep : list Z, s <> [] -> sep <> [] ->
     exists ps, split s sep = Ok (Strs ps) /\ ps <> [] /\ join sep ps = s /\
       (forall c, sep = [c] -> Forall (fun p => ~ In c p) ps)) /\
  (forall s : list Z, s <> [] ->
     exists ps, split s [] = Ok (Strs ps) /\ concat ps = s /\ Forall (fun p => (1 <= length p <= 4)%nat) ps).
Proof. split; [exact split_empty | split; [exact split_join | exact split_chars]]. Qed.
