(* The reference definitions for mstr (C20): RFC 3629 validity of a byte string, and the token-key
   order CompareNatural is compared with (DESIGN.md Appendix C).  Definitions only; nothing here
   refers to the generated files or to the model. *)
From Coq Require Import ZArith List Bool.
Import ListNotations.
Local Open Scope Z_scope.

(* ---------------------------------------------------------------- UTF-8 (RFC 3629, section 4) *)

Definition between (lo hi b : Z) : bool := (lo <=? b) && (b <=? hi).
Definition is_tail (b : Z) : bool := between 128 191 b.        (* UTF8-tail = %x80-BF *)

(*  UTF8-1 = %x00-7F
    UTF8-2 = %xC2-DF UTF8-tail
    UTF8-3 = %xE0 %xA0-BF UTF8-tail / %xE1-EC 2( UTF8-tail ) / %xED %x80-9F UTF8-tail / %xEE-EF 2( UTF8-tail )
    UTF8-4 = %xF0 %x90-BF 2( UTF8-tail ) / %xF1-F3 3( UTF8-tail ) / %xF4 %x80-8F 2( UTF8-tail ) *)
Inductive utf8_char : list Z -> Prop :=
| U1 a : between 0 127 a = true -> utf8_char [a]
| U2 a b : between 194 223 a = true -> is_tail b = true -> utf8_char [a; b]
| U3a a b c : a = 224 -> between 160 191 b = true -> is_tail c = true -> utf8_char [a; b; c]
| U3b a b c : between 225 236 a = true -> is_tail b = true -> is_tail c = true -> utf8_char [a; b; c]
| U3c a b c : a = 237 -> between 128 159 b = true -> is_tail c = true -> utf8_char [a; b; c]
| U3d a b c : between 238 239 a = true -> is_tail b = true -> is_tail c = true -> utf8_char [a; b; c]
| U4a a b c d : a = 240 -> between 144 191 b = true -> is_tail c = true -> is_tail d = true -> utf8_char [a; b; c; d]
| U4b a b c d : between 241 243 a = true -> is_tail b = true -> is_tail c = true -> is_tail d = true -> utf8_char [a; b; c; d]
| U4c a b c d : a = 244 -> between 128 143 b = true -> is_tail c = true -> is_tail d = true -> utf8_char [a; b; c; d].

(* UTF8-octets = *( UTF8-char ) *)
Inductive valid_utf8 : list Z -> Prop :=
| V_nil : valid_utf8 []
| V_app c s : utf8_char c -> valid_utf8 s -> valid_utf8 (c ++ s).

(* the same as a decision procedure (used by the driver on the implementation's outputs; proved
   equivalent to [valid_utf8] in MstrProofs) *)
Fixpoint valid_utf8b (s : list Z) : bool :=
  match s with
  | [] => true
  | a :: t =>
    if between 0 127 a then valid_utf8b t else
    match t with
    | [] => false
    | b :: t2 =>
      if between 194 223 a then is_tail b && valid_utf8b t2 else
      match t2 with
      | [] => false
      | c :: t3 =>
        if (a =? 224) then between 160 191 b && is_tail c && valid_utf8b t3
        else if between 225 236 a || between 238 239 a then is_tail b && is_tail c && valid_utf8b t3
        else if (a =? 237) then between 128 159 b && is_tail c && valid_utf8b t3
        else
        match t3 with
        | [] => false
        | d :: t4 =>
          if (a =? 240) then between 144 191 b && is_tail c && is_tail d && valid_utf8b t4
          else if between 241 243 a then is_tail b && is_tail c && is_tail d && valid_utf8b t4
          else if (a =? 244) then between 128 143 b && is_tail c && is_tail d && valid_utf8b t4
          else false
        end
      end
    end
  end.

Definition is_prefix (p s : list Z) : Prop := exists r, s = p ++ r.

(* ---------------------------------------------------------------- the token key *)

Definition digit (c : Z) : bool := (48 <=? c) && (c <=? 57).

(* a maximal run of decimal digits, as its value; any other byte, as itself *)
Inductive tok := TNum (v : Z) | TByte (c : Z).

Definition flush (acc : option Z) : list tok :=
  match acc with Some v => [TNum v] | None => [] end.

(* [acc] = the value of the digit run being read, if any *)
Fixpoint key_aux (s : list Z) (acc : option Z) : list tok :=
  match s with
  | [] => flush acc
  | c :: t =>
    if digit c then
      key_aux t (Some (match acc with Some v => v * 10 + (c - 48) | None => c - 48 end))
    else flush acc ++ TByte c :: key_aux t None
  end.

Definition key (s : list Z) : list tok := key_aux s None.

Definition sgn_cmp (x y : Z) : Z := if x <? y then -1 else if y <? x then 1 else 0.

(* Order of two tokens.  Same kind: by value.  A number against a byte: at the first token of the
   strings the byte decides by its own value against the digits (below '0' it sorts before every
   number, otherwise after); at any later token a number sorts before every byte. *)
Definition tok_cmp (first : bool) (t u : tok) : Z :=
  match t, u with
  | TNum v, TNum w => sgn_cmp v w
  | TByte c, TByte d => sgn_cmp c d
  | TNum _, TByte d => if first && (d <? 48) then 1 else -1
  | TByte c, TNum _ => if first && (c <? 48) then -1 else 1
  end.

(* lexicographic, a proper prefix being smaller *)
Fixpoint lex_cmp (x y : list tok) : Z :=
  match x, y with
  | [], [] => 0
  | [], _ :: _ => -1
  | _ :: _, [] => 1
  | t :: x', u :: y' => let c := tok_cmp false t u in if c =? 0 then lex_cmp x' y' else c
  end.

Definition key_cmp (x y : list tok) : Z :=
  match x, y with
  | t :: x', u :: y' => let c := tok_cmp true t u in if c =? 0 then lex_cmp x' y' else c
  | _, _ => lex_cmp x y
  end.

(* every maximal digit run of s has at most [bound] digits ([k] = digits of the current run so far) *)
Fixpoint runs_within (bound : nat) (s : list Z) (k : nat) : bool :=
  match s with
  | [] => true
  | c :: t => if digit c then (k <? bound)%nat && runs_within bound t (S k) else runs_within bound t O
  end.
Definition short_runs (s : list Z) : Prop := runs_within 18 s 0 = true.

(* The exact domain on which a 64-bit int holds the value of every digit run: every maximal digit
   run of s spells a number below 2^63 (any number of leading zeros allowed).  [short_runs]
   (at most 18 digits) implies it. *)
Definition tok_fits (t : tok) : bool := match t with TNum v => v <? 2 ^ 63 | TByte _ => true end.
Definition runs_fit (s : list Z) : Prop := forallb tok_fits (key s) = true.

(* The key with every digit run read the way a 64-bit signed accumulator reads it: after each
   digit the value is reduced into [-2^63, 2^63).  Equal to [key] on [runs_fit] strings. *)
Definition int64 (z : Z) : Z := (z + 2 ^ 63) mod 2 ^ 64 - 2 ^ 63.

Fixpoint key_aux_w (f : Z -> Z) (s : list Z) (acc : option Z) : list tok :=
  match s with
  | [] => flush acc
  | c :: t =>
    if digit c then
      key_aux_w f t (Some (f (match acc with Some v => v * 10 + (c - 48) | None => c - 48 end)))
    else flush acc ++ TByte c :: key_aux_w f t None
  end.

Definition wkey (s : list Z) : list tok := key_aux_w int64 s None.

(* a string with the leading zeros of every digit run removed (a run of zeros becomes "0"):
   two strings are equal up to leading zeros of digit runs when these normal forms coincide.
   [st]: 0 = not in a digit run, 1 = in a run, only zeros so far (none emitted), 2 = in a run
   after its first non-zero digit. *)
Fixpoint strip_zeros (s : list Z) (st : nat) : list Z :=
  match s with
  | [] => match st with 1%nat => [48] | _ => [] end
  | c :: t =>
    if digit c then
      match st with
      | 2%nat => c :: strip_zeros t 2
      | _ => if c =? 48 then strip_zeros t 1 else c :: strip_zeros t 2
      end
    else (match st with 1%nat => [48] | _ => [] end) ++ c :: strip_zeros t 0
  end.
Definition normal_form (s : list Z) : list Z := strip_zeros s 0.
