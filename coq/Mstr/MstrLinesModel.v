(* SUPPLEMENTARY -- not part of property C20.  Model of the remaining exported functions of
   mstr/mstr.go, Lines and Split: two-line wrappers (`if s == "" { return nil }`) around
   strings.Split / strings.TrimSuffix of the standard library.  The standard-library functions are
   written here by hand from their documentation (tied to the real ones by the correspondence
   runs only); the wrappers' guards and skeletons come from Gen/MstrMasks.v.  Definitions only. *)
From Coq Require Import ZArith List Bool.
Import ListNotations.
From Mds Require Import Gen.MstrMasks Mbits.BytesBase Mstr.MstrSpec.
Local Open Scope Z_scope.

(* strings.HasPrefix *)
Fixpoint starts_with (p s : list Z) : bool :=
  match p, s with
  | [], _ => true
  | x :: p', y :: s' => (x =? y) && starts_with p' s'
  | _ :: _, [] => false
  end.

(* strings.TrimSuffix *)
Definition trim_suffix (s suf : list Z) : list Z :=
  if starts_with (rev suf) (rev s) then firstn (length s - length suf) s else s.

(* strings.Split(s, sep) for sep <> "": cut at every leftmost, non-overlapping occurrence of sep;
   [cur] = the bytes of the current piece, reversed *)
Fixpoint split_ne (fuel : nat) (sep s cur : list Z) : res (list (list Z)) :=
  match fuel with
  | O => OutOfFuel
  | S f =>
    match s with
    | [] => Ok [rev cur]
    | c :: t =>
      if starts_with sep s then
        bind (split_ne f sep (skipn (length sep) s) []) (fun r => Ok (rev cur :: r))
      else split_ne f sep t (c :: cur)
    end
  end.

(* utf8.DecodeRuneInString's size: the length of the RFC 3629 character s begins with, 1 when it
   begins with none (Go then yields RuneError and consumes one byte) *)
Definition first_len (s : list Z) : nat :=
  match s with
  | [] => 0%nat
  | a :: t =>
    if between 0 127 a then 1%nat else
    match t with
    | [] => 1%nat
    | b :: t2 =>
      if between 194 223 a then (if is_tail b then 2%nat else 1%nat) else
      match t2 with
      | [] => 1%nat
      | c :: t3 =>
        if ((a =? 224) && between 160 191 b && is_tail c)
           || ((between 225 236 a || between 238 239 a) && is_tail b && is_tail c)
           || ((a =? 237) && between 128 159 b && is_tail c) then 3%nat else
        match t3 with
        | [] => 1%nat
        | d :: _ =>
          if ((a =? 240) && between 144 191 b && is_tail c && is_tail d)
             || (between 241 243 a && is_tail b && is_tail c && is_tail d)
             || ((a =? 244) && between 128 143 b && is_tail c && is_tail d) then 4%nat else 1%nat
        end
      end
    end
  end.

(* strings.Split(s, ""): explode into UTF-8 sequences (an invalid byte is a piece of its own) *)
Fixpoint explode (fuel : nat) (s : list Z) : res (list (list Z)) :=
  match fuel with
  | O => OutOfFuel
  | S f =>
    match s with
    | [] => Ok []
    | _ :: _ => let k := first_len s in
                bind (explode f (skipn k s)) (fun r => Ok (firstn k s :: r))
    end
  end.

Definition strings_split (s sep : list Z) : res (list (list Z)) :=
  match sep with
  | [] => explode (S (length s)) s
  | _ :: _ => split_ne (S (length s)) sep s []
  end.

Definition is_empty (s : list Z) : bool := match s with [] => true | _ => false end.

(* A Go []string result: nil is distinguished from an empty, non-nil slice. *)
Inductive strs := Nil | Strs (l : list (list Z)).

(* func Lines(s string) []string { if s == "" { return nil }; return strings.Split(strings.TrimSuffix(s, "\n"), "\n") } *)
Definition lines (s : list Z) : res strs :=
  if lines_if0 (is_empty s) then Ok Nil
  else bind (strings_split (trim_suffix s [10]) [10]) (fun l => Ok (Strs l)).

(* func Split(s, sep string) []string { if s == "" { return nil }; return strings.Split(s, sep) } *)
Definition split (s sep : list Z) : res strs :=
  if split_if0 (is_empty s) then Ok Nil
  else bind (strings_split s sep) (fun l => Ok (Strs l)).
