(* Proofs about the model of mstr.CompareNatural (C20).
   Everything up to [cn_key_w] is for BOTH variants of the accumulator ([wrap] = true: 64-bit int as
   in Go; false: unbounded) and for ALL strings: the comparison is the key order on the keys read
   with that accumulator.  The order laws therefore hold with no hypothesis at all; the numeric
   reading and the "0 iff equal up to leading zeros" clause hold exactly where the two keys
   coincide ([runs_fit]: every digit run is below 2^63), and fail beyond (overflow_refuted). *)
From Coq Require Import ZArith List Bool Lia.
Import ListNotations.
From Mds Require Import Gen.MstrMasks Mbits.BytesBase Mbits.MbitsProofs Mstr.MstrModel Mstr.MstrSpec Mstr.MstrProofsTrunc.
Local Open Scope Z_scope.

(* ---------------------------------------------------------------- the order laws of the key order *)

Lemma tok_cmp_range : forall f t u, tok_cmp f t u = -1 \/ tok_cmp f t u = 0 \/ tok_cmp f t u = 1.
Proof.
  intros f t u. destruct f, t, u; unfold tok_cmp, sgn_cmp; cbn [andb];
    repeat match goal with |- context [?a <? ?b] => destruct (Z.ltb_spec a b) end; lia.
Qed.

Lemma tok_cmp_antisym : forall f t u, tok_cmp f u t = - tok_cmp f t u.
Proof.
  intros f t u. destruct f, t, u; unfold tok_cmp, sgn_cmp; cbn [andb];
    repeat match goal with |- context [?a <? ?b] => destruct (Z.ltb_spec a b) end; lia.
Qed.

Lemma tok_cmp_zero : forall f t u, tok_cmp f t u = 0 <-> t = u.
Proof.
  intros f t u. split.
  - destruct f, t, u; unfold tok_cmp, sgn_cmp; cbn [andb];
      repeat match goal with |- context [?a <? ?b] => destruct (Z.ltb_spec a b) end;
      intros Heq; try lia; f_equal; lia.
  - intros <-. destruct f, t; unfold tok_cmp, sgn_cmp; rewrite Z.ltb_irrefl; reflexivity.
Qed.

Lemma tok_cmp_trans : forall f t u w, tok_cmp f t u < 0 -> tok_cmp f u w < 0 -> tok_cmp f t w < 0.
Proof.
  intros f t u w. destruct f, t, u, w; unfold tok_cmp, sgn_cmp; cbn [andb];
    repeat match goal with |- context [?a <? ?b] => destruct (Z.ltb_spec a b) end; lia.
Qed.

Lemma lex_cmp_range : forall x y, lex_cmp x y = -1 \/ lex_cmp x y = 0 \/ lex_cmp x y = 1.
Proof.
  induction x as [|t x IH]; destruct y as [|u y]; cbn [lex_cmp]; try lia.
  destruct (tok_cmp false t u =? 0) eqn:H; [apply IH|]. apply Z.eqb_neq in H.
  pose proof (tok_cmp_range false t u). lia.
Qed.

Lemma lex_cmp_antisym : forall x y, lex_cmp y x = - lex_cmp x y.
Proof.
  induction x as [|t x IH]; destruct y as [|u y]; cbn [lex_cmp]; try lia.
  rewrite (tok_cmp_antisym false t u).
  destruct (tok_cmp false t u =? 0) eqn:H.
  - apply Z.eqb_eq in H. rewrite H. cbn. apply IH.
  - apply Z.eqb_neq in H. replace (- tok_cmp false t u =? 0) with false by (symmetry; apply Z.eqb_neq; lia). reflexivity.
Qed.

Lemma lex_cmp_zero : forall x y, lex_cmp x y = 0 <-> x = y.
Proof.
  induction x as [|t x IH]; destruct y as [|u y]; cbn [lex_cmp]; try (split; [lia|discriminate]); [split; reflexivity|].
  destruct (tok_cmp false t u =? 0) eqn:H.
  - apply Z.eqb_eq in H. apply tok_cmp_zero in H. subst u. rewrite IH. split; [intros ->; reflexivity | intros E; inversion E; reflexivity].
  - apply Z.eqb_neq in H. split; [lia|]. intros E. inversion E; subst. exfalso. apply H. apply tok_cmp_zero. reflexivity.
Qed.

(* one step of a lexicographic comparison is transitive when the rest is *)
Lemma step_trans : forall f t u w (rxy ryz rxz : Z),
  (rxy <= 0 -> ryz <= 0 -> rxz <= 0) ->
  (if tok_cmp f t u =? 0 then rxy else tok_cmp f t u) <= 0 ->
  (if tok_cmp f u w =? 0 then ryz else tok_cmp f u w) <= 0 ->
  (if tok_cmp f t w =? 0 then rxz else tok_cmp f t w) <= 0.
Proof.
  intros f t u w rxy ryz rxz Hr H1 H2.
  destruct (tok_cmp f t u =? 0) eqn:E1; destruct (tok_cmp f u w =? 0) eqn:E2.
  - apply Z.eqb_eq in E1, E2. apply tok_cmp_zero in E1, E2. subst u w.
    replace (tok_cmp f t t =? 0) with true by (symmetry; apply Z.eqb_eq, tok_cmp_zero; reflexivity). auto.
  - apply Z.eqb_eq in E1. apply tok_cmp_zero in E1. subst u. rewrite E2. exact H2.
  - apply Z.eqb_eq in E2. apply tok_cmp_zero in E2. subst w. rewrite E1. exact H1.
  - apply Z.eqb_neq in E1, E2.
    pose proof (tok_cmp_trans f t u w ltac:(lia) ltac:(lia)) as H3.
    replace (tok_cmp f t w =? 0) with false by (symmetry; apply Z.eqb_neq; lia). lia.
Qed.

Lemma lex_cmp_trans : forall x y z, lex_cmp x y <= 0 -> lex_cmp y z <= 0 -> lex_cmp x z <= 0.
Proof.
  induction x as [|t x IH]; destruct y as [|u y]; destruct z as [|w z]; cbn [lex_cmp]; try lia.
  intros H1 H2. apply (step_trans false t u w (lex_cmp x y) (lex_cmp y z) (lex_cmp x z)); [apply IH | exact H1 | exact H2].
Qed.

Lemma key_cmp_range : forall x y, key_cmp x y = -1 \/ key_cmp x y = 0 \/ key_cmp x y = 1.
Proof.
  intros x y. destruct x as [|t x], y as [|u y]; unfold key_cmp; try apply lex_cmp_range.
  destruct (tok_cmp true t u =? 0) eqn:H; [apply lex_cmp_range|]. apply Z.eqb_neq in H.
  pose proof (tok_cmp_range true t u). lia.
Qed.

Lemma key_cmp_antisym : forall x y, key_cmp y x = - key_cmp x y.
Proof.
  intros x y. destruct x as [|t x], y as [|u y]; unfold key_cmp; try apply lex_cmp_antisym.
  rewrite (tok_cmp_antisym true t u).
  destruct (tok_cmp true t u =? 0) eqn:H.
  - apply Z.eqb_eq in H. rewrite H. cbn. apply lex_cmp_antisym.
  - apply Z.eqb_neq in H. replace (- tok_cmp true t u =? 0) with false by (symmetry; apply Z.eqb_neq; lia). reflexivity.
Qed.

Lemma key_cmp_zero : forall x y, key_cmp x y = 0 <-> x = y.
Proof.
  intros x y. destruct x as [|t x], y as [|u y]; unfold key_cmp; try apply lex_cmp_zero.
  destruct (tok_cmp true t u =? 0) eqn:H.
  - apply Z.eqb_eq in H. apply tok_cmp_zero in H. subst u. rewrite lex_cmp_zero. split; [intros ->; reflexivity | intros E; inversion E; reflexivity].
  - apply Z.eqb_neq in H. split; [lia|]. intros E. inversion E; subst. exfalso. apply H. apply tok_cmp_zero. reflexivity.
Qed.

Lemma key_cmp_trans : forall x y z, key_cmp x y <= 0 -> key_cmp y z <= 0 -> key_cmp x z <= 0.
Proof.
  intros x y z. destruct x as [|t x], y as [|u y], z as [|w z]; unfold key_cmp; cbn [lex_cmp]; try lia.
  intros H1 H2. apply (step_trans true t u w (lex_cmp x y) (lex_cmp y z) (lex_cmp x z)); [apply lex_cmp_trans | exact H1 | exact H2].
Qed.

(* ---------------------------------------------------------------- the parsing loops as list functions *)

Fixpoint digits_val (wrap : bool) (s : list Z) (v : Z) : Z * list Z :=
  match s with
  | c :: t => if is_digit c then digits_val wrap t (int_of wrap (pi_acc v c)) else (v, s)
  | [] => (v, [])
  end.

Fixpoint drop_nd (s : list Z) : list Z :=
  match s with
  | c :: t => if is_digit c then s else drop_nd t
  | [] => []
  end.

Fixpoint take_nd (s : list Z) : list Z :=
  match s with
  | c :: t => if is_digit c then [] else c :: take_nd t
  | [] => []
  end.

Lemma is_digit_eq : forall c, is_digit c = digit c.
Proof. intros c. unfold is_digit, digit. rewrite Z.geb_leb. reflexivity. Qed.

Lemma zlen_skipn : forall (s : list Z) k, (k <= length s)%nat -> zlen (skipn k s) = zlen s - Z.of_nat k.
Proof. intros s k Hk. unfold zlen. rewrite skipn_length. lia. Qed.

Lemma skipn_step : forall (s : list Z) i, 0 <= i < zlen s ->
  skipn (Z.to_nat i) s = nth (Z.to_nat i) s 0 :: skipn (Z.to_nat (i + 1)) s.
Proof.
  intros s i Hi. unfold zlen in Hi. replace (Z.to_nat (i + 1)) with (S (Z.to_nat i)) by lia.
  apply skipn_nth_cons. lia.
Qed.

Lemma pi_loop_run : forall wrap s fuel i v, 0 <= i <= zlen s -> (Z.to_nat (zlen s - i) < fuel)%nat ->
  exists v' r, digits_val wrap (skipn (Z.to_nat i) s) v = (v', r) /\
    pi_loop wrap fuel s i v = Ok (zlen s - zlen r, v') /\
    skipn (Z.to_nat (zlen s - zlen r)) s = r /\ zlen r <= zlen s - i.
Proof.
  intros wrap s. induction fuel as [|f IH]; intros i v Hi Hf; [lia|].
  cbn [pi_loop]. unfold pi_for, pi_step.
  destruct (Z.eq_dec i (zlen s)) as [->|Hne].
  - assert (Hsk : skipn (Z.to_nat (zlen s)) s = []) by (unfold zlen; rewrite Nat2Z.id; apply skipn_all).
    rewrite str_at_out by lia. rewrite Z.ltb_irrefl. cbn [andb orb cond_res bind].
    rewrite Hsk. cbn [digits_val]. exists v, [].
    change (zlen (@nil Z)) with 0. rewrite Z.sub_0_r.
    split; [reflexivity|]. split; [reflexivity|]. split; [exact Hsk | lia].
  - rewrite str_at_in by lia. cbn [cond_res bind].
    replace (i <? zlen s) with true by (symmetry; apply Z.ltb_lt; lia). cbn [andb].
    rewrite (skipn_step s i) by lia. cbn [digits_val].
    destruct (is_digit (nth (Z.to_nat i) s 0)) eqn:Hd.
    + cbn [bind]. destruct (IH (i + 1) (int_of wrap (pi_acc v (nth (Z.to_nat i) s 0)))) as (v' & r & H1 & H2 & H3 & H4); [lia|lia|].
      exists v', r. rewrite H1, H2. repeat split; try assumption. lia.
    + exists v, (nth (Z.to_nat i) s 0 :: skipn (Z.to_nat (i + 1)) s).
      rewrite <- (skipn_step s i) by lia.
      rewrite zlen_skipn by (unfold zlen in *; lia).
      replace (zlen s - (zlen s - Z.of_nat (Z.to_nat i))) with i by lia.
      repeat split; try reflexivity. lia.
Qed.

Lemma slice_from_ok : forall s lo, 0 <= lo <= zlen s -> slice_from s lo = Ok (skipn (Z.to_nat lo) s).
Proof.
  intros s lo H. unfold slice_from.
  replace ((0 <=? lo) && (lo <=? zlen s)) with true by (symmetry; apply andb_true_intro; split; apply Z.leb_le; lia).
  reflexivity.
Qed.

Lemma slice_to_ok : forall s hi, 0 <= hi <= zlen s -> slice_to s hi = Ok (firstn (Z.to_nat hi) s).
Proof.
  intros s hi H. unfold slice_to.
  replace ((0 <=? hi) && (hi <=? zlen s)) with true by (symmetry; apply andb_true_intro; split; apply Z.leb_le; lia).
  reflexivity.
Qed.

Lemma zlen_nonneg : forall (s : list Z), 0 <= zlen s.
Proof. intros. unfold zlen. lia. Qed.

Lemma parse_int_run : forall wrap s, exists v r, digits_val wrap s 0 = (v, r) /\
  parse_int wrap s = Ok (v, r, zlen s - zlen r >? 0) /\ zlen r <= zlen s.
Proof.
  intros wrap s. unfold parse_int.
  destruct (pi_loop_run wrap s (S (length s)) 0 0) as (v & r & H1 & H2 & H3 & H4).
  - pose proof (zlen_nonneg s). lia.
  - unfold zlen. lia.
  - cbn [Z.to_nat skipn] in H1. exists v, r. split; [exact H1|].
    rewrite H2. cbn [bind]. unfold pi_lo, pi_val, pi_ok.
    pose proof (zlen_nonneg r).
    rewrite slice_from_ok by lia. cbn [bind]. rewrite H3. split; [reflexivity|lia].
Qed.

Lemma drop_nd_len : forall s, (length (drop_nd s) <= length s)%nat.
Proof. induction s as [|c t IH]; cbn [drop_nd length]; [lia|]. destruct (is_digit c); cbn [length]; lia. Qed.

Lemma take_drop : forall s, s = take_nd s ++ drop_nd s.
Proof. induction s as [|c t IH]; cbn [take_nd drop_nd]; [reflexivity|]. destruct (is_digit c); cbn [app]; [reflexivity|]. f_equal. exact IH. Qed.

Lemma ps_loop_run : forall s fuel i, 0 <= i <= zlen s -> (Z.to_nat (zlen s - i) < fuel)%nat ->
  ps_loop fuel s i = Ok (zlen s - zlen (drop_nd (skipn (Z.to_nat i) s))) /\
  skipn (Z.to_nat (zlen s - zlen (drop_nd (skipn (Z.to_nat i) s)))) s = drop_nd (skipn (Z.to_nat i) s).
Proof.
  intros s. induction fuel as [|f IH]; intros i Hi Hf; [lia|].
  cbn [ps_loop]. unfold ps_for, ps_step.
  destruct (Z.eq_dec i (zlen s)) as [->|Hne].
  - assert (Hsk : skipn (Z.to_nat (zlen s)) s = []) by (unfold zlen; rewrite Nat2Z.id; apply skipn_all).
    rewrite str_at_out by lia. rewrite Z.ltb_irrefl. cbn [andb orb cond_res bind].
    rewrite Hsk. cbn [drop_nd]. change (zlen (@nil Z)) with 0. rewrite Z.sub_0_r.
    split; [reflexivity|exact Hsk].
  - rewrite str_at_in by lia. cbn [cond_res bind].
    replace (i <? zlen s) with true by (symmetry; apply Z.ltb_lt; lia). cbn [andb].
    rewrite (skipn_step s i) by lia. cbn [drop_nd].
    destruct (is_digit (nth (Z.to_nat i) s 0)) eqn:Hd; cbn [negb].
    + rewrite <- (skipn_step s i) by lia.
      rewrite zlen_skipn by (unfold zlen in *; lia).
      replace (zlen s - (zlen s - Z.of_nat (Z.to_nat i))) with i by lia.
      split; reflexivity.
    + apply IH; lia.
Qed.

Lemma parse_str_run : forall s, parse_str s = Ok (take_nd s, drop_nd s).
Proof.
  intros s. unfold parse_str.
  destruct (ps_loop_run s (S (length s)) 0) as (H1 & H2).
  - pose proof (zlen_nonneg s). lia.
  - unfold zlen. lia.
  - cbn [Z.to_nat skipn] in H1, H2. rewrite H1. cbn [bind]. unfold ps_hi, ps_lo.
    pose proof (drop_nd_len s). pose proof (zlen_nonneg (drop_nd s)).
    rewrite slice_to_ok by (unfold zlen in *; lia). cbn [bind].
    rewrite slice_from_ok by (unfold zlen in *; lia). cbn [bind]. rewrite H2.
    do 3 f_equal. rewrite (take_drop s) at 3. apply firstn_app_exact.
    pose proof (f_equal (@length Z) (take_drop s)) as Hl. rewrite app_length in Hl. unfold zlen. lia.
Qed.

(* ---------------------------------------------------------------- keys of the parsed pieces *)

(* the key read with the model's accumulator *)
Definition gkey (wrap : bool) (s : list Z) : list tok := key_aux_w (int_of wrap) s None.

Definition head_nd (r : list Z) : Prop := match r with c :: _ => digit c = false | [] => True end.
Definition head_d (r : list Z) : Prop := match r with c :: _ => digit c = true | [] => True end.

Lemma dv_key_w : forall wrap s v,
  exists v' r, digits_val wrap s v = (v', r) /\
    key_aux_w (int_of wrap) s (Some v) = TNum v' :: key_aux_w (int_of wrap) r None /\
    head_nd r /\ (length r <= length s)%nat.
Proof.
  intros wrap. induction s as [|c t IH]; intros v.
  - exists v, []. cbn. repeat split; auto.
  - cbn [digits_val key_aux_w]. rewrite is_digit_eq.
    destruct (digit c) eqn:Hd.
    + destruct (IH (int_of wrap (pi_acc v c))) as (v' & r & H1 & H2 & H3 & H4).
      exists v', r. repeat split; auto. cbn [length]. lia.
    + exists v, (c :: t). cbn [flush app key_aux_w head_nd length]. rewrite Hd. repeat split; auto.
Qed.

Lemma digit_start_w : forall wrap x a, digit x = true ->
  exists va ra, digits_val wrap (x :: a) 0 = (va, ra) /\ gkey wrap (x :: a) = TNum va :: gkey wrap ra /\
    head_nd ra /\ (length ra <= length a)%nat.
Proof.
  intros wrap x a Hd. unfold gkey. cbn [digits_val key_aux_w]. rewrite is_digit_eq, Hd.
  replace (x - 48) with (pi_acc 0 x) by (unfold pi_acc; lia).
  destruct (dv_key_w wrap a (int_of wrap (pi_acc 0 x))) as (v' & r & H1 & H2 & H3 & H4).
  exists v', r. repeat split; auto.
Qed.

Lemma gkey_take_drop : forall wrap s, gkey wrap s = map TByte (take_nd s) ++ gkey wrap (drop_nd s).
Proof.
  intros wrap. unfold gkey. induction s as [|c t IH]; [reflexivity|].
  cbn [take_nd drop_nd]. destruct (is_digit c) eqn:Hd; [reflexivity|].
  cbn [key_aux_w map app]. rewrite <- is_digit_eq, Hd. cbn [flush app]. f_equal. exact IH.
Qed.

Lemma drop_head : forall s, head_d (drop_nd s).
Proof.
  induction s as [|c t IH]; [exact I|]. cbn [drop_nd]. destruct (is_digit c) eqn:Hd; [|exact IH].
  cbn [head_d]. rewrite <- is_digit_eq. exact Hd.
Qed.

Lemma key_aux_w_some_head : forall f t v, exists v' rest, key_aux_w f t (Some v) = TNum v' :: rest.
Proof.
  intros f. induction t as [|c t IH]; intros v; cbn [key_aux_w].
  - exists v, []. reflexivity.
  - destruct (digit c); [apply IH|]. exists v, (TByte c :: key_aux_w f t None). reflexivity.
Qed.

Definition num_or_nil (k : list tok) : Prop := match k with [] => True | TNum _ :: _ => True | TByte _ :: _ => False end.

Lemma gkey_head_d : forall wrap r, head_d r -> num_or_nil (gkey wrap r).
Proof.
  intros wrap r H. destruct r as [|c t]; [exact I|]. cbn [head_d] in H. unfold gkey. cbn [key_aux_w]. rewrite H.
  destruct (key_aux_w_some_head (int_of wrap) t (int_of wrap (c - 48))) as (v' & rest & ->). exact I.
Qed.

Lemma gkey_nonempty : forall wrap c t, gkey wrap (c :: t) <> [].
Proof.
  intros wrap c t. unfold gkey. cbn [key_aux_w]. destruct (digit c).
  - destruct (key_aux_w_some_head (int_of wrap) t (int_of wrap (c - 48))) as (v' & rest & ->). discriminate.
  - cbn. discriminate.
Qed.

Lemma lex_bytes : forall pa pb ka kb, num_or_nil ka -> num_or_nil kb ->
  lex_cmp (map TByte pa ++ ka) (map TByte pb ++ kb)
  = if cmp_bytes pa pb =? 0 then lex_cmp ka kb else cmp_bytes pa pb.
Proof.
  induction pa as [|x pa IH]; destruct pb as [|y pb]; intros ka kb Ha Hb; cbn [map app cmp_bytes].
  - reflexivity.
  - destruct ka as [|[v|c] ka]; cbn [lex_cmp tok_cmp andb]; [reflexivity|reflexivity|destruct Ha].
  - destruct kb as [|[v|c] kb]; cbn [lex_cmp tok_cmp andb]; [reflexivity|reflexivity|destruct Hb].
  - cbn [lex_cmp tok_cmp]. unfold sgn_cmp.
    destruct (x <? y); [reflexivity|]. destruct (y <? x); [reflexivity|].
    cbn. apply IH; assumption.
Qed.

(* ---------------------------------------------------------------- the comparison loop *)

(* one iteration with the generated selectors (which variable is passed / assigned / returned
   where) evaluated: this is the Go loop body as written.  A swapped argument or assignment in the
   source changes a selector and this lemma no longer holds by computation. *)
Lemma cn_loop_S : forall wrap f a b,
  cn_loop wrap (S f) a b =
    if nonempty a && nonempty b then
      bind (parse_int wrap a) (fun '(va, ra, aok) =>
      bind (parse_int wrap b) (fun '(vb, rb, bok) =>
      if aok && bok then
        let c := cmp_int va vb in
        if negb (c =? 0) then Ok c else cn_loop wrap f ra rb
      else if negb (Bool.eqb aok bok) then Ok (cmp_bytes a b)
      else
        bind (parse_str a) (fun '(pa, ra') =>
        bind (parse_str b) (fun '(pb, rb') =>
        let c := cmp_bytes pa pb in
        if negb (c =? 0) then Ok c else cn_loop wrap f ra' rb'))))
    else Ok (cmp_bytes a b).
Proof. reflexivity. Qed.

(* the statement skeletons of the functions the models were written against *)
Lemma mstr_shapes :
  trunc_shape = 1017337627220545359 /\ cn_shape_num = 18849763984918589742251530495430975311 /\
  pi_shape = 62594060111 /\ ps_shape = 3912142671 /\
  cn_ncalls_compare = 4 /\ cn_ncalls_parseint = 2 /\ cn_ncalls_parsestr = 2.
Proof. repeat split; reflexivity. Qed.

Definition same_head (a b : list Z) : Prop :=
  match a, b with x :: _, y :: _ => digit x = digit y | _, _ => True end.

Lemma parse_int_digit : forall wrap x a, digit x = true ->
  exists va ra, parse_int wrap (x :: a) = Ok (va, ra, true) /\ gkey wrap (x :: a) = TNum va :: gkey wrap ra /\
    head_nd ra /\ (length ra <= length a)%nat.
Proof.
  intros wrap x a Hd.
  destruct (digit_start_w wrap x a Hd) as (va & ra & H1 & H2 & H4 & H5).
  destruct (parse_int_run wrap (x :: a)) as (v & r & G1 & G2 & G3).
  rewrite H1 in G1. inversion G1; subst v r.
  exists va, ra. split; [|auto].
  rewrite G2. do 3 f_equal. unfold zlen. cbn [length]. apply Z.gtb_lt. lia.
Qed.

Lemma parse_int_nondigit : forall wrap x a, digit x = false -> parse_int wrap (x :: a) = Ok (0, x :: a, false).
Proof.
  intros wrap x a Hd. destruct (parse_int_run wrap (x :: a)) as (v & r & G1 & G2 & G3).
  cbn [digits_val] in G1. rewrite is_digit_eq, Hd in G1. inversion G1; subst v r.
  rewrite G2. rewrite Z.sub_diag. reflexivity.
Qed.

Lemma cn_main : forall wrap fuel a b, same_head a b ->
  (length a + length b < fuel)%nat ->
  cn_loop wrap fuel a b = Ok (lex_cmp (gkey wrap a) (gkey wrap b)).
Proof.
  intros wrap. induction fuel as [|f IH]; intros a b Hh Hf; [lia|].
  rewrite cn_loop_S.
  destruct a as [|x a]; [|destruct b as [|y b]].
  - cbn [nonempty andb]. destruct b as [|y b]; [reflexivity|].
    cbn [cmp_bytes]. change (gkey wrap []) with (@nil tok). pose proof (gkey_nonempty wrap y b).
    destruct (gkey wrap (y :: b)); [congruence|reflexivity].
  - cbn [nonempty andb cmp_bytes]. change (gkey wrap []) with (@nil tok). pose proof (gkey_nonempty wrap x a).
    destruct (gkey wrap (x :: a)); [congruence|reflexivity].
  - cbn [nonempty andb]. cbn [same_head] in Hh.
    destruct (digit x) eqn:Hx.
    + (* both start with digits *)
      destruct (parse_int_digit wrap x a Hx) as (va & ra & P1 & K1 & N1 & L1).
      destruct (parse_int_digit wrap y b (eq_sym Hh)) as (vb & rb & P2 & K2 & N2 & L2).
      rewrite P1, P2. cbn [bind andb]. cbv zeta.
      rewrite K1, K2. cbn [lex_cmp tok_cmp]. change (cmp_int va vb) with (sgn_cmp va vb).
      destruct (sgn_cmp va vb =? 0); cbn [negb]; [|reflexivity].
      apply IH; [|cbn [length] in Hf; lia].
      destruct ra, rb; cbn [same_head head_nd] in *; congruence.
    + (* both start with non-digits *)
      rewrite (parse_int_nondigit wrap x a Hx), (parse_int_nondigit wrap y b (eq_sym Hh)). cbn [bind].
      cbn [andb Bool.eqb negb].
      rewrite !parse_str_run. cbn [bind]. cbv zeta.
      rewrite (gkey_take_drop wrap (x :: a)), (gkey_take_drop wrap (y :: b)).
      rewrite lex_bytes by (apply gkey_head_d, drop_head).
      destruct (cmp_bytes (take_nd (x :: a)) (take_nd (y :: b)) =? 0); cbn [negb]; [|reflexivity].
      apply IH.
      * pose proof (drop_head (x :: a)) as D1. pose proof (drop_head (y :: b)) as D2.
        destruct (drop_nd (x :: a)), (drop_nd (y :: b)); cbn [same_head head_d] in *; congruence.
      * cbn [drop_nd]. rewrite !is_digit_eq, Hx, <- Hh.
        pose proof (drop_nd_len a). pose proof (drop_nd_len b). cbn [length] in Hf. lia.
Qed.

(* Both variants, ALL strings: the comparison is the key order on the keys read with the
   variant's accumulator. *)
Theorem cn_key_w : forall wrap a b,
  cn_loop wrap (S (length a + length b)) a b = Ok (key_cmp (gkey wrap a) (gkey wrap b)).
Proof.
  intros wrap a b.
  destruct a as [|x a]; [|destruct b as [|y b]].
  - rewrite cn_main; [|exact I|lia]. change (gkey wrap []) with (@nil tok). reflexivity.
  - rewrite cn_main; [|exact I|lia]. change (gkey wrap []) with (@nil tok).
    unfold key_cmp. destruct (gkey wrap (x :: a)); reflexivity.
  - destruct (digit x) eqn:Hx; destruct (digit y) eqn:Hy.
    + rewrite cn_main; [|cbn [same_head]; congruence|lia].
      destruct (parse_int_digit wrap x a Hx) as (va & ra & _ & K1 & _).
      destruct (parse_int_digit wrap y b Hy) as (vb & rb & _ & K2 & _).
      rewrite K1, K2. reflexivity.
    + (* digit against non-digit: decided by the first bytes *)
      rewrite cn_loop_S. cbn [nonempty andb].
      destruct (parse_int_digit wrap x a Hx) as (va & ra & P1 & K1 & _).
      rewrite P1, (parse_int_nondigit wrap y b Hy). cbn [bind]. cbn [andb Bool.eqb negb].
      rewrite K1. unfold gkey at 2. cbn [key_aux_w]. rewrite Hy. cbn [flush app key_cmp tok_cmp andb cmp_bytes].
      unfold digit in Hx, Hy. apply andb_prop in Hx. destruct Hx as [X1 X2]. apply Z.leb_le in X1, X2.
      f_equal. destruct (y <? 48) eqn:Y1.
      * apply Z.ltb_lt in Y1. cbn. replace (x <? y) with false by (symmetry; apply Z.ltb_ge; lia).
        replace (y <? x) with true by (symmetry; apply Z.ltb_lt; lia). reflexivity.
      * apply Z.ltb_ge in Y1. assert (57 < y).
        { destruct (48 <=? y) eqn:E1; destruct (y <=? 57) eqn:E2; cbn [andb] in Hy; try discriminate;
            [apply Z.leb_gt in E2; lia | apply Z.leb_gt in E1; lia | apply Z.leb_gt in E1; lia]. }
        cbn. replace (x <? y) with true by (symmetry; apply Z.ltb_lt; lia). reflexivity.
    + rewrite cn_loop_S. cbn [nonempty andb].
      destruct (parse_int_digit wrap y b Hy) as (vb & rb & P2 & K2 & _).
      rewrite P2, (parse_int_nondigit wrap x a Hx). cbn [bind]. cbn [andb Bool.eqb negb].
      rewrite K2. unfold gkey at 1. cbn [key_aux_w]. rewrite Hx. cbn [flush app key_cmp tok_cmp andb cmp_bytes].
      unfold digit in Hx, Hy. apply andb_prop in Hy. destruct Hy as [Y1 Y2]. apply Z.leb_le in Y1, Y2.
      f_equal. destruct (x <? 48) eqn:X1.
      * apply Z.ltb_lt in X1. cbn. replace (x <? y) with true by (symmetry; apply Z.ltb_lt; lia). reflexivity.
      * apply Z.ltb_ge in X1. assert (57 < x).
        { destruct (48 <=? x) eqn:E1; destruct (x <=? 57) eqn:E2; cbn [andb] in Hx; try discriminate;
            [apply Z.leb_gt in E2; lia | apply Z.leb_gt in E1; lia | apply Z.leb_gt in E1; lia]. }
        cbn. replace (x <? y) with false by (symmetry; apply Z.ltb_ge; lia).
        replace (y <? x) with true by (symmetry; apply Z.ltb_lt; lia). reflexivity.
    + rewrite cn_main; [|cbn [same_head]; congruence|lia].
      unfold gkey. cbn [key_aux_w]. rewrite Hx, Hy. cbn [flush app]. reflexivity.
Qed.

(* ---------------------------------------------------------------- the two accumulators *)

Lemma key_aux_w_id : forall f, (forall z, f z = z) -> forall s acc, key_aux_w f s acc = key_aux s acc.
Proof.
  intros f Hf. induction s as [|c t IH]; intros acc; cbn [key_aux_w key_aux]; [reflexivity|].
  destruct (digit c); [rewrite Hf; apply IH | rewrite IH; reflexivity].
Qed.

Lemma gkey_wide : forall s, gkey false s = key s.
Proof. intros s. unfold gkey, key. apply key_aux_w_id. reflexivity. Qed.

Lemma int_of_true : forall z, int_of true z = int64 z.
Proof. reflexivity. Qed.

Lemma gkey_wrap : forall s, gkey true s = wkey s.
Proof. reflexivity. Qed.

Lemma int64_small : forall z, - 2 ^ 63 <= z < 2 ^ 63 -> int64 z = z.
Proof. intros z Hz. unfold int64. rewrite Z.mod_small by lia. lia. Qed.

Lemma digit_range : forall c, digit c = true -> 0 <= c - 48 <= 9.
Proof. intros c H. unfold digit in H. apply andb_prop in H. destruct H as [H1 H2]. apply Z.leb_le in H1, H2. lia. Qed.

(* the first number of a key that continues a run is at least the value read so far *)
Lemma key_aux_some_ge : forall t v, 0 <= v -> exists v' rest, key_aux t (Some v) = TNum v' :: rest /\ v <= v'.
Proof.
  induction t as [|c t IH]; intros v Hv; cbn [key_aux].
  - exists v, []. split; [reflexivity|lia].
  - destruct (digit c) eqn:Hd.
    + pose proof (digit_range c Hd).
      destruct (IH (v * 10 + (c - 48)) ltac:(lia)) as (v' & rest & E & L). exists v', rest. split; [exact E|lia].
    + exists v, (TByte c :: key_aux t None). split; [reflexivity|lia].
Qed.

Definition acc_ok (acc : option Z) : Prop := match acc with Some v => 0 <= v | None => True end.

Lemma wkey_fit_aux : forall s acc, acc_ok acc -> forallb tok_fits (key_aux s acc) = true ->
  key_aux_w int64 s acc = key_aux s acc.
Proof.
  induction s as [|c t IH]; intros acc Ha Hf; cbn [key_aux_w key_aux] in *; [reflexivity|].
  destruct (digit c) eqn:Hd.
  - pose proof (digit_range c Hd) as Hc.
    set (u := match acc with Some v => v * 10 + (c - 48) | None => c - 48 end) in *.
    assert (Hu : 0 <= u) by (destruct acc as [v|]; cbn [acc_ok] in Ha; subst u; lia).
    destruct (key_aux_some_ge t u Hu) as (v' & rest & E & L).
    assert (Hlt : v' < 2 ^ 63).
    { rewrite E in Hf. cbn [forallb tok_fits] in Hf. apply andb_prop in Hf. destruct Hf as [Hf _]. apply Z.ltb_lt in Hf. exact Hf. }
    rewrite int64_small by lia. apply IH; [exact Hu | exact Hf].
  - rewrite forallb_app in Hf. apply andb_prop in Hf. destruct Hf as [_ Hf]. cbn [forallb tok_fits andb] in Hf.
    rewrite IH; [reflexivity | exact I | exact Hf].
Qed.

(* on the exact domain the 64-bit reading is the mathematical one *)
Lemma wkey_fit : forall s, runs_fit s -> wkey s = key s.
Proof. intros s H. unfold wkey, key. apply wkey_fit_aux; [exact I | exact H]. Qed.

Lemma pow10_18 : 10 ^ 18 < 2 ^ 63.
Proof. reflexivity. Qed.

(* at most 18 digits per run is inside the exact domain *)
Lemma short_fit_aux : forall s,
  (forall k v, runs_within 18 s k = true -> (k <= 18)%nat -> 0 <= v < 10 ^ Z.of_nat k ->
     forallb tok_fits (key_aux s (Some v)) = true) /\
  (runs_within 18 s 0 = true -> forallb tok_fits (key_aux s None) = true).
Proof.
  pose proof pow10_18 as P18.
  induction s as [|c t [IHs IHn]]; split.
  - intros k v _ Hk Hv. cbn [key_aux flush forallb tok_fits]. rewrite andb_true_r. apply Z.ltb_lt.
    assert (10 ^ Z.of_nat k <= 10 ^ 18) by (apply Z.pow_le_mono_r; lia). lia.
  - reflexivity.
  - intros k v Hr Hk Hv. cbn [key_aux runs_within] in *. destruct (digit c) eqn:Hd.
    + apply andb_prop in Hr. destruct Hr as [Hk' Hr]. apply Nat.ltb_lt in Hk'.
      pose proof (digit_range c Hd) as Hc.
      assert (Hp : 10 ^ Z.of_nat (S k) = 10 * 10 ^ Z.of_nat k) by (rewrite Nat2Z.inj_succ, Z.pow_succ_r by lia; reflexivity).
      apply (IHs (S k)); [exact Hr | lia | lia].
    + cbn [flush app forallb tok_fits]. apply andb_true_intro. split.
      * apply Z.ltb_lt. assert (10 ^ Z.of_nat k <= 10 ^ 18) by (apply Z.pow_le_mono_r; lia). lia.
      * cbn [andb]. apply IHn. exact Hr.
  - intros Hr. cbn [key_aux runs_within] in *. destruct (digit c) eqn:Hd.
    + apply andb_prop in Hr. destruct Hr as [_ Hr].
      pose proof (digit_range c Hd) as Hc.
      apply (IHs 1%nat); [exact Hr | lia | change (10 ^ Z.of_nat 1) with 10; lia].
    + cbn [flush app forallb tok_fits andb]. apply IHn. exact Hr.
Qed.

Theorem short_runs_fit : forall s, short_runs s -> runs_fit s.
Proof. intros s H. apply (proj2 (short_fit_aux s)). exact H. Qed.

(* ---------------------------------------------------------------- the theorems *)

(* the code as it stands, ALL strings: the key order on the 64-bit reading of the digit runs *)
Theorem compare_natural_wkey : forall a b, compare_natural a b = Ok (key_cmp (wkey a) (wkey b)).
Proof. intros a b. unfold compare_natural. rewrite cn_key_w. reflexivity. Qed.

(* the unbounded-accumulator variant, ALL strings: the key order *)
Theorem compare_natural_wide_key : forall a b, compare_natural_wide a b = Ok (key_cmp (key a) (key b)).
Proof. intros a b. unfold compare_natural_wide. rewrite cn_key_w, !gkey_wide. reflexivity. Qed.

(* the code as it stands on the exact domain *)
Theorem compare_natural_key : forall a b, runs_fit a -> runs_fit b ->
  compare_natural a b = Ok (key_cmp (key a) (key b)).
Proof. intros a b Ha Hb. rewrite compare_natural_wkey, !wkey_fit by assumption. reflexivity. Qed.

Theorem compare_natural_agrees_wide : forall a b, runs_fit a -> runs_fit b ->
  compare_natural a b = compare_natural_wide a b.
Proof. intros a b Ha Hb. rewrite compare_natural_key, compare_natural_wide_key by assumption. reflexivity. Qed.

Theorem compare_natural_wide_variant : forall a b : list Z,
  compare_natural_wide a b = Ok (key_cmp (key a) (key b)) /\
  (runs_fit a -> runs_fit b -> compare_natural a b = compare_natural_wide a b).
Proof. intros a b. split; [apply compare_natural_wide_key | apply compare_natural_agrees_wide]. Qed.

(* order laws: no hypothesis *)
Theorem compare_natural_range : forall a b,
  exists c, compare_natural a b = Ok c /\ (c = -1 \/ c = 0 \/ c = 1).
Proof.
  intros a b. rewrite compare_natural_wkey. eexists. split; [reflexivity|apply key_cmp_range].
Qed.

Theorem compare_natural_antisym : forall a b,
  exists c, compare_natural a b = Ok c /\ compare_natural b a = Ok (- c).
Proof.
  intros a b. rewrite !compare_natural_wkey. eexists. split; [reflexivity|].
  f_equal. apply key_cmp_antisym.
Qed.

Theorem compare_natural_trans : forall a b c,
  exists x y z, compare_natural a b = Ok x /\ compare_natural b c = Ok y /\ compare_natural a c = Ok z /\
    (x <= 0 -> y <= 0 -> z <= 0) /\ (x <= 0 -> y <= 0 -> z = 0 -> x = 0 /\ y = 0).
Proof.
  intros a b c. rewrite !compare_natural_wkey. do 3 eexists.
  split; [reflexivity|]. split; [reflexivity|]. split; [reflexivity|]. split.
  - apply key_cmp_trans.
  - intros Hx Hy Hz. apply key_cmp_zero in Hz. rewrite <- Hz in Hy. rewrite <- Hz.
    pose proof (key_cmp_antisym (wkey a) (wkey b)). lia.
Qed.

Theorem compare_natural_refl : forall a, compare_natural a a = Ok 0.
Proof. intros a. rewrite compare_natural_wkey. f_equal. apply key_cmp_zero. reflexivity. Qed.

Theorem compare_natural_zero : forall a b, runs_fit a -> runs_fit b ->
  (compare_natural a b = Ok 0 <-> key a = key b).
Proof.
  intros a b Ha Hb. rewrite compare_natural_key by assumption. split.
  - intros H. inversion H as [H0]. apply key_cmp_zero in H0. exact H0.
  - intros H. f_equal. apply key_cmp_zero. exact H.
Qed.

(* numeric on digit runs: two strings of digits compare as the numbers they spell *)
Definition dec_val (s : list Z) : Z := fold_left (fun v c => v * 10 + (c - 48)) s 0.

Lemma key_aux_digits : forall s v, forallb digit s = true ->
  key_aux s (Some v) = [TNum (fold_left (fun v c => v * 10 + (c - 48)) s v)].
Proof.
  induction s as [|c t IH]; intros v H; [reflexivity|].
  cbn [forallb] in H. apply andb_prop in H. destruct H as [Hc Ht].
  cbn [key_aux fold_left]. rewrite Hc. apply IH. exact Ht.
Qed.

Lemma key_digits : forall s, s <> [] -> forallb digit s = true -> key s = [TNum (dec_val s)].
Proof.
  intros s Hne H. destruct s as [|c t]; [congruence|].
  cbn [forallb] in H. apply andb_prop in H. destruct H as [Hc Ht].
  unfold key, dec_val. cbn [key_aux fold_left]. rewrite Hc. rewrite key_aux_digits by exact Ht.
  reflexivity.
Qed.

(* any two digit strings whose values fit an int (leading zeros do not count) *)
Theorem compare_natural_numeric : forall a b, a <> [] -> b <> [] ->
  forallb digit a = true -> forallb digit b = true -> dec_val a < 2 ^ 63 -> dec_val b < 2 ^ 63 ->
  compare_natural a b = Ok (sgn_cmp (dec_val a) (dec_val b)).
Proof.
  intros a b Na Nb Da Db La Lb.
  assert (Fa : runs_fit a).
  { unfold runs_fit. rewrite (key_digits a Na Da). cbn [forallb tok_fits]. rewrite andb_true_r. apply Z.ltb_lt. exact La. }
  assert (Fb : runs_fit b).
  { unfold runs_fit. rewrite (key_digits b Nb Db). cbn [forallb tok_fits]. rewrite andb_true_r. apply Z.ltb_lt. exact Lb. }
  rewrite compare_natural_key by assumption.
  rewrite (key_digits a Na Da), (key_digits b Nb Db).
  unfold key_cmp. cbn [tok_cmp lex_cmp]. destruct (sgn_cmp (dec_val a) (dec_val b) =? 0) eqn:E; [apply Z.eqb_eq in E; rewrite E|]; reflexivity.
Qed.

(* ---------------------------------------------------------------- beyond the domain *)

(* "18446744073709551616" (2^64) against "0": reported equal; "9223372036854775808" (2^63, the
   smallest run that does not fit, 19 digits) against "1": reported smaller.  The variant with
   the unbounded accumulator orders both correctly. *)
Definition two64 : list Z := [49;56;52;52;54;55;52;52;48;55;51;55;48;57;53;53;49;54;49;54].
Definition two63 : list Z := [57;50;50;51;51;55;50;48;51;54;56;53;52;55;55;53;56;48;56].

Theorem overflow_refuted :
  compare_natural two64 [48] = Ok 0 /\ normal_form two64 <> normal_form [48] /\ key two64 <> key [48] /\
  compare_natural_wide two64 [48] = Ok 1 /\
  compare_natural two63 [49] = Ok (-1) /\ dec_val two63 > dec_val [49] /\
  compare_natural_wide two63 [49] = Ok 1 /\
  ~ runs_fit two63 /\ ~ runs_fit two64.
Proof.
  unfold runs_fit.
  repeat split; try (vm_compute; reflexivity); intros H; vm_compute in H; discriminate.
Qed.
