(* Model of mstr/mstr.go: Trunc, CompareNatural, parseInt, parseStr, isDigit.
   Strings are lists of bytes (Z).  Loops are the loops of the Go code over an index into the
   string, with explicit fuel; every s[i] and s[lo:hi] is bounds-checked (PanicIndex).  The UTF-8
   mask tests, index expressions, decrements, digit bounds, the accumulation step of parseInt and
   every branch condition come from Gen/MstrMasks.v (regenerated from the Go source on every run).
   Go's int is 64 bits: parseInt's accumulation wraps ([wrap64]); the theorems are stated for digit
   runs short enough that it never does.  Definitions only. *)
From Coq Require Import ZArith List Bool.
Import ListNotations.
From Mds Require Import Gen.MstrMasks Mbits.BytesBase.
Local Open Scope Z_scope.

(* ---------------------------------------------------------------- Trunc *)

(* one byte of each class the tests s[n-1]&0xc0 == ... distinguish *)
Definition mask_probes : list Z := [0; 64; 128; 192].

(* for n > 0 && s[n-1]&0xc0 == 0x80 { n-- } *)
Fixpoint trunc_back (fuel : nat) (s : list Z) (n : Z) : res Z :=
  match fuel with
  | O => OutOfFuel
  | S f =>
    bind (cond_res (str_at s (trunc_idx0 n)) (trunc_for0 n) (existsb (trunc_for0 n) mask_probes)) (fun b =>
    if b then trunc_back f s (trunc_dec0 n) else Ok n)
  end.

Definition trunc (s : list Z) (n : Z) : res (list Z) :=
  if trunc_whole n (zlen s) then Ok s else
  bind (trunc_back (S (length s)) s n) (fun n1 =>
  bind (cond_res (str_at s (trunc_idx1 n1)) (trunc_if1 n1) (existsb (trunc_if1 n1) mask_probes)) (fun b =>
  let n2 := if b then trunc_dec1 n1 else n1 in
  slice_to s (trunc_hi n2))).

(* ---------------------------------------------------------------- parseInt / parseStr *)

Definition wrap64 (z : Z) : Z := (z + 2 ^ 63) mod 2 ^ 64 - 2 ^ 63.

(* for i < len(s) && isDigit(s[i]) { v = v*10 + int(s[i]-'0'); i++ } *)
Fixpoint pi_loop (fuel : nat) (s : list Z) (i v : Z) : res (Z * Z) :=
  match fuel with
  | O => OutOfFuel
  | S f =>
    bind (cond_res (str_at s i) (fun c => pi_for i (zlen s) (is_digit c))
                   (pi_for i (zlen s) true || pi_for i (zlen s) false)) (fun b =>
    if b then
      bind (str_at s i) (fun c => pi_loop f s (pi_step i) (wrap64 (pi_acc v c)))
    else Ok (i, v))
  end.

(* returns (value, rest, ok) *)
Definition parse_int (s : list Z) : res (Z * list Z * bool) :=
  bind (pi_loop (S (length s)) s 0 0) (fun '(i, v) =>
  bind (slice_from s (pi_lo i)) (fun r =>
  Ok (pi_val v, r, pi_ok i))).

(* for i < len(s) && !isDigit(s[i]) { i++ } *)
Fixpoint ps_loop (fuel : nat) (s : list Z) (i : Z) : res Z :=
  match fuel with
  | O => OutOfFuel
  | S f =>
    bind (cond_res (str_at s i) (fun c => ps_for i (zlen s) (is_digit c))
                   (ps_for i (zlen s) true || ps_for i (zlen s) false)) (fun b =>
    if b then ps_loop f s (ps_step i) else Ok i)
  end.

Definition parse_str (s : list Z) : res (list Z * list Z) :=
  bind (ps_loop (S (length s)) s 0) (fun i =>
  bind (slice_to s (ps_hi i)) (fun p =>
  bind (slice_from s (ps_lo i)) (fun r =>
  Ok (p, r)))).

(* ---------------------------------------------------------------- CompareNatural *)

(* cmp.Compare on ints *)
Definition cmp_int (x y : Z) : Z := if x <? y then -1 else if y <? x then 1 else 0.

(* cmp.Compare on strings: lexicographic by bytes, a proper prefix is smaller *)
Fixpoint cmp_bytes (a b : list Z) : Z :=
  match a, b with
  | [], [] => 0
  | [], _ :: _ => -1
  | _ :: _, [] => 1
  | x :: a', y :: b' => if x <? y then -1 else if y <? x then 1 else cmp_bytes a' b'
  end.

Definition nonempty (s : list Z) : bool := match s with [] => false | _ => true end.

Fixpoint cn_loop (fuel : nat) (a b : list Z) : res Z :=
  match fuel with
  | O => OutOfFuel
  | S f =>
    if cn_for (nonempty a) (nonempty b) then
      bind (parse_int a) (fun '(va, ra, aok) =>
      bind (parse_int b) (fun '(vb, rb, bok) =>
      if cn_both aok bok then
        let c := cmp_int va vb in
        if cn_num_ne c then Ok c else cn_loop f ra rb
      else if cn_mixed aok bok then Ok (cmp_bytes a b)
      else
        bind (parse_str a) (fun '(pa, ra') =>
        bind (parse_str b) (fun '(pb, rb') =>
        let c := cmp_bytes pa pb in
        if cn_str_ne c then Ok c else cn_loop f ra' rb'))))
    else Ok (cmp_bytes a b)
  end.

Definition compare_natural (a b : list Z) : res Z :=
  cn_loop (S (length a + length b)) a b.
