(* Model of mstr/mstr.go: Trunc, CompareNatural, parseInt, parseStr, isDigit.
   Strings are lists of bytes (Z).  Loops are the loops of the Go code over an index into the
   string, with explicit fuel; every s[i] and s[lo:hi] is bounds-checked (PanicIndex).  The UTF-8
   mask tests, index expressions, decrements, digit bounds, the accumulation step of parseInt,
   every branch condition, the argument order of every cmp.Compare / parseInt / parseStr call, the
   right-hand sides of both `a, b = ra, rb` and the returned expressions come from Gen/MstrMasks.v
   (regenerated from the Go source on every run).
   Go's int is 64 bits: parseInt's accumulation wraps ([wrap64]) when [wrap] = true, which is the
   code as it stands ([compare_natural]); [wrap] = false is the variant with an unbounded
   accumulator ([compare_natural_wide]), used only to say what the overflow costs.
   Definitions only. *)
From Coq Require Import ZArith List Bool.
Import ListNotations.
From Mds Require Import Gen.MstrMasks Mbits.BytesBase.
Local Open Scope Z_scope.

(* ---------------------------------------------------------------- Trunc *)

(* one byte of each class the tests s[n-1]&0xc0 == ... distinguish *)
Definition mask_probes : list Z := [0; 64; 128; 192].

(* for n > 0 && s[n-1]&0xc0 == 0x80 { n-- } *)
Fixpoint trunc_back (fuel : nat) (s : list Z) (n : Z) : res Z :=
  match fuel with
  | O => OutOfFuel
  | S f =>
    bind (cond_res (str_at s (trunc_idx0 n)) (trunc_for0 n) (existsb (trunc_for0 n) mask_probes)) (fun b =>
    if b then trunc_back f s (trunc_dec0 n) else Ok n)
  end.

Definition trunc (s : list Z) (n : Z) : res (list Z) :=
  if trunc_whole n (zlen s) then Ok s else
  bind (trunc_back (S (length s)) s n) (fun n1 =>
  bind (cond_res (str_at s (trunc_idx1 n1)) (trunc_if1 n1) (existsb (trunc_if1 n1) mask_probes)) (fun b =>
  let n2 := if b then trunc_dec1 n1 else n1 in
  slice_to s (trunc_hi n2))).

(* ---------------------------------------------------------------- parseInt / parseStr *)

Definition wrap64 (z : Z) : Z := (z + 2 ^ 63) mod 2 ^ 64 - 2 ^ 63.

(* the value an int variable holds after being assigned the mathematical value z *)
Definition int_of (wrap : bool) (z : Z) : Z := if wrap then wrap64 z else z.

(* for i < len(s) && isDigit(s[i]) { v = v*10 + int(s[i]-'0'); i++ } *)
Fixpoint pi_loop (wrap : bool) (fuel : nat) (s : list Z) (i v : Z) : res (Z * Z) :=
  match fuel with
  | O => OutOfFuel
  | S f =>
    bind (cond_res (str_at s i) (fun c => pi_for i (zlen s) (is_digit c))
                   (pi_for i (zlen s) true || pi_for i (zlen s) false)) (fun b =>
    if b then
      bind (str_at s i) (fun c => pi_loop wrap f s (pi_step i) (int_of wrap (pi_acc v c)))
    else Ok (i, v))
  end.

(* returns (value, rest, ok) *)
Definition parse_int (wrap : bool) (s : list Z) : res (Z * list Z * bool) :=
  bind (pi_loop wrap (S (length s)) s 0 0) (fun '(i, v) =>
  bind (slice_from s (pi_lo i)) (fun r =>
  Ok (pi_val v, r, pi_ok i))).

(* for i < len(s) && !isDigit(s[i]) { i++ } *)
Fixpoint ps_loop (fuel : nat) (s : list Z) (i : Z) : res Z :=
  match fuel with
  | O => OutOfFuel
  | S f =>
    bind (cond_res (str_at s i) (fun c => ps_for i (zlen s) (is_digit c))
                   (ps_for i (zlen s) true || ps_for i (zlen s) false)) (fun b =>
    if b then ps_loop f s (ps_step i) else Ok i)
  end.

Definition parse_str (s : list Z) : res (list Z * list Z) :=
  bind (ps_loop (S (length s)) s 0) (fun i =>
  bind (slice_to s (ps_hi i)) (fun p =>
  bind (slice_from s (ps_lo i)) (fun r =>
  Ok (p, r)))).

(* ---------------------------------------------------------------- CompareNatural *)

(* cmp.Compare on ints *)
Definition cmp_int (x y : Z) : Z := if x <? y then -1 else if y <? x then 1 else 0.

(* cmp.Compare on strings: lexicographic by bytes, a proper prefix is smaller *)
Fixpoint cmp_bytes (a b : list Z) : Z :=
  match a, b with
  | [], [] => 0
  | [], _ :: _ => -1
  | _ :: _, [] => 1
  | x :: a', y :: b' => if x <? y then -1 else if y <? x then 1 else cmp_bytes a' b'
  end.

Definition nonempty (s : list Z) : bool := match s with [] => false | _ => true end.

(* The translator renders "which variable stands here" as a function of the candidates; applied
   to 0 and 1 it yields the position of the variable the Go source names. *)
Definition pick2 {A : Type} (sel : Z) (x y : A) : A := if sel =? 0 then x else y.

Fixpoint cn_loop (wrap : bool) (fuel : nat) (a b : list Z) : res Z :=
  match fuel with
  | O => OutOfFuel
  | S f =>
    if cn_for (nonempty a) (nonempty b) then
      bind (parse_int wrap (pick2 (cn_pi0_arg 0 1) a b)) (fun '(va, ra, aok) =>
      bind (parse_int wrap (pick2 (cn_pi1_arg 0 1) a b)) (fun '(vb, rb, bok) =>
      if cn_both aok bok then
        let c := cmp_int (cn_cmp0_l va vb) (cn_cmp0_r va vb) in
        if cn_num_ne c then Ok (cn_ret0 c)
        else cn_loop wrap f (pick2 (cn_next0_a 0 1) ra rb) (pick2 (cn_next0_b 0 1) ra rb)
      else if cn_mixed aok bok then
        Ok (cmp_bytes (pick2 (cn_cmp1_l 0 1) a b) (pick2 (cn_cmp1_r 0 1) a b))
      else
        bind (parse_str (pick2 (cn_ps0_arg 0 1) a b)) (fun '(pa, ra') =>
        bind (parse_str (pick2 (cn_ps1_arg 0 1) a b)) (fun '(pb, rb') =>
        let c := cmp_bytes (pick2 (cn_cmp2_l 0 1) pa pb) (pick2 (cn_cmp2_r 0 1) pa pb) in
        if cn_str_ne c then Ok (cn_ret2 c)
        else cn_loop wrap f (pick2 (cn_next1_a 0 1) ra' rb') (pick2 (cn_next1_b 0 1) ra' rb')))))
    else Ok (cmp_bytes (pick2 (cn_cmp3_l 0 1) a b) (pick2 (cn_cmp3_r 0 1) a b))
  end.

(* the code as it stands: int is 64 bits *)
Definition compare_natural (a b : list Z) : res Z :=
  cn_loop true (S (length a + length b)) a b.

(* the same statements with an accumulator that cannot overflow *)
Definition compare_natural_wide (a b : list Z) : res Z :=
  cn_loop false (S (length a + length b)) a b.
