(* Proofs about the model of mstr.Trunc (C20). *)
From Coq Require Import ZArith List Bool Lia.
Import ListNotations.
From Mds Require Import Gen.MstrMasks Mbits.BytesBase Mstr.MstrModel Mstr.MstrSpec.
Local Open Scope Z_scope.

(* ---------------------------------------------------------------- byte classes *)

Definition is_cont (c : Z) : bool := Z.land c 192 =? 128.   (* 0b10...... *)
Definition is_lead (c : Z) : bool := Z.land c 192 =? 192.   (* 0b11...... *)

(* the extracted conditions are: guard n > 0, then the class test *)
Lemma for0_eq : forall n c, 0 < n -> trunc_for0 n c = is_cont c.
Proof. intros n c Hn. unfold trunc_for0, is_cont. rewrite Z.gtb_ltb. destruct (Z.ltb_spec 0 n); [reflexivity|lia]. Qed.
Lemma if1_eq : forall n c, 0 < n -> trunc_if1 n c = is_lead c.
Proof. intros n c Hn. unfold trunc_if1, is_lead. rewrite Z.gtb_ltb. destruct (Z.ltb_spec 0 n); [reflexivity|lia]. Qed.
Lemma for0_zero : forall n c, n <= 0 -> trunc_for0 n c = false.
Proof. intros n c Hn. unfold trunc_for0. rewrite Z.gtb_ltb. destruct (Z.ltb_spec 0 n); [lia|reflexivity]. Qed.
Lemma if1_zero : forall n c, n <= 0 -> trunc_if1 n c = false.
Proof. intros n c Hn. unfold trunc_if1. rewrite Z.gtb_ltb. destruct (Z.ltb_spec 0 n); [lia|reflexivity]. Qed.

(* a boolean property of all integers in a range, checked by enumeration *)
Lemma range_check : forall (P : Z -> bool) lo (cnt : nat),
  forallb P (map (fun k => lo + Z.of_nat k) (seq 0 cnt)) = true ->
  forall b, lo <= b < lo + Z.of_nat cnt -> P b = true.
Proof.
  intros P lo cnt H b Hb. rewrite forallb_forall in H. apply H.
  apply in_map_iff. exists (Z.to_nat (b - lo)). split; [lia|]. apply in_seq. lia.
Qed.

Lemma between_spec : forall lo hi b, between lo hi b = true -> lo <= b <= hi.
Proof. intros lo hi b H. unfold between in H. apply andb_prop in H. destruct H as [H1 H2]. apply Z.leb_le in H1, H2. lia. Qed.

Lemma tail_cont : forall b, 128 <= b <= 191 -> is_cont b = true.
Proof. intros b Hb. apply (range_check is_cont 128 64); [vm_compute; reflexivity | lia]. Qed.
Lemma lead_class : forall b, 192 <= b <= 255 -> is_cont b = false /\ is_lead b = true.
Proof.
  intros b Hb. pose proof (range_check (fun b => negb (is_cont b) && is_lead b) 192 64 ltac:(vm_compute; reflexivity) b ltac:(lia)) as H.
  cbv beta in H. apply andb_prop in H. destruct H as [H1 H2]. apply negb_true_iff in H1. split; assumption.
Qed.
Lemma single_class : forall b, 0 <= b <= 127 -> is_cont b = false /\ is_lead b = false.
Proof.
  intros b Hb. pose proof (range_check (fun b => negb (is_cont b) && negb (is_lead b)) 0 128 ltac:(vm_compute; reflexivity) b ltac:(lia)) as H.
  cbv beta in H. apply andb_prop in H. destruct H as [H1 H2]. apply negb_true_iff in H1, H2. split; assumption.
Qed.

(* the shape of one encoded character: a single byte, or a lead byte and 1-3 continuation bytes *)
Inductive shape : list Z -> Prop :=
| S1 a : is_cont a = false -> is_lead a = false -> shape [a]
| S2 a b : is_cont a = false -> is_lead a = true -> is_cont b = true -> shape [a; b]
| S3 a b c : is_cont a = false -> is_lead a = true -> is_cont b = true -> is_cont c = true -> shape [a; b; c]
| S4 a b c d : is_cont a = false -> is_lead a = true -> is_cont b = true -> is_cont c = true -> is_cont d = true -> shape [a; b; c; d].

Lemma utf8_char_shape : forall c, utf8_char c -> shape c.
Proof.
  intros c H.
  destruct H;
    repeat match goal with
    | H : between _ _ _ = true |- _ => apply between_spec in H
    | H : is_tail _ = true |- _ => apply between_spec in H
    end; subst;
    match goal with
    | |- shape [?a] => destruct (single_class a ltac:(lia)); apply S1; assumption
    | |- shape [?a; ?b] => destruct (lead_class a ltac:(lia)); apply S2; try assumption; apply tail_cont; lia
    | |- shape [?a; ?b; ?c] => destruct (lead_class a ltac:(lia)); apply S3; try assumption; apply tail_cont; lia
    | |- shape [?a; ?b; ?c; ?d] => destruct (lead_class a ltac:(lia)); apply S4; try assumption; apply tail_cont; lia
    end.
Qed.

(* ---------------------------------------------------------------- the loops as list functions *)

(* for n > 0 && cont(s[n-1]) { n-- } *)
Fixpoint back_spec (s : list Z) (k : nat) : nat :=
  match k with
  | O => O
  | S k' => if is_cont (nth k' s 0) then back_spec s k' else S k'
  end.

(* if n > 0 && lead(s[n-1]) { n-- } *)
Definition lead_spec (s : list Z) (k : nat) : nat :=
  match k with
  | O => O
  | S k' => if is_lead (nth k' s 0) then k' else S k'
  end.

Definition cut_spec (s : list Z) (k : nat) : nat := lead_spec s (back_spec s k).

Lemma back_spec_le : forall s k, (back_spec s k <= k)%nat.
Proof. induction k as [|k IH]; cbn [back_spec]; [lia|]. destruct (is_cont _); lia. Qed.
Lemma lead_spec_le : forall s k, (lead_spec s k <= k)%nat.
Proof. destruct k as [|k]; cbn [lead_spec]; [lia|]. destruct (is_lead _); lia. Qed.
Lemma cut_spec_le : forall s k, (cut_spec s k <= k)%nat.
Proof. intros. unfold cut_spec. pose proof (lead_spec_le s (back_spec s k)). pose proof (back_spec_le s k). lia. Qed.

Lemma str_at_in : forall s i, 0 <= i < zlen s -> str_at s i = Ok (nth (Z.to_nat i) s 0).
Proof.
  intros s i Hi. unfold str_at, zlen in *.
  replace ((0 <=? i) && (i <? Z.of_nat (length s))) with true by (symmetry; apply andb_true_intro; split; [apply Z.leb_le|apply Z.ltb_lt]; lia).
  rewrite (nth_error_nth' s 0) by lia. reflexivity.
Qed.

Lemma str_at_out : forall s i, ~ (0 <= i < zlen s) -> str_at s i = PanicIndex.
Proof.
  intros s i Hi. unfold str_at.
  destruct (0 <=? i) eqn:H1; destruct (i <? zlen s) eqn:H2; cbn [andb]; try reflexivity.
  apply Z.leb_le in H1. apply Z.ltb_lt in H2. lia.
Qed.

Lemma trunc_back_run : forall s fuel n, 0 <= n <= zlen s -> (Z.to_nat n < fuel)%nat ->
  trunc_back fuel s n = Ok (Z.of_nat (back_spec s (Z.to_nat n))).
Proof.
  intros s. induction fuel as [|f IH]; intros n Hn Hf; [lia|].
  cbn [trunc_back]. unfold trunc_idx0, trunc_dec0.
  destruct (Z.eq_dec n 0) as [->|Hne].
  - rewrite str_at_out by (unfold zlen; lia).
    unfold mask_probes. cbn [existsb]. rewrite !for0_zero by lia. cbn [orb cond_res bind]. reflexivity.
  - rewrite str_at_in by lia. cbn [cond_res bind]. rewrite for0_eq by lia.
    replace (Z.to_nat n) with (S (Z.to_nat (n - 1))) by lia. cbn [back_spec].
    destruct (is_cont (nth (Z.to_nat (n - 1)) s 0)).
    + apply IH; lia.
    + f_equal. lia.
Qed.

(* Trunc as a function on lists *)
Lemma trunc_eq : forall s n, 0 <= n ->
  trunc s n = Ok (if n >=? zlen s then s else firstn (cut_spec s (Z.to_nat n)) s).
Proof.
  intros s n Hn. unfold trunc, trunc_whole.
  destruct (n >=? zlen s) eqn:Hge; [reflexivity|].
  rewrite Z.geb_leb in Hge. apply Z.leb_gt in Hge.
  rewrite trunc_back_run by (unfold zlen in *; lia). cbn [bind].
  unfold trunc_idx1, trunc_dec1, trunc_hi, cut_spec.
  pose proof (back_spec_le s (Z.to_nat n)) as Hle.
  destruct (back_spec s (Z.to_nat n)) as [|k] eqn:Hb.
  - rewrite str_at_out by (unfold zlen; lia).
    unfold mask_probes. cbn [existsb]. rewrite !if1_zero by lia. cbn [orb cond_res bind lead_spec].
    unfold slice_to, zlen. cbn [Z.of_nat Z.leb Z.compare andb].
    replace (0 <=? Z.of_nat (length s)) with true by (symmetry; apply Z.leb_le; lia). reflexivity.
  - rewrite str_at_in by (unfold zlen in *; lia). cbn [cond_res bind]. rewrite if1_eq by lia.
    replace (Z.to_nat (Z.of_nat (S k) - 1)) with k by lia. cbn [lead_spec].
    unfold slice_to, zlen in *.
    destruct (is_lead (nth k s 0)).
    + replace ((0 <=? Z.of_nat (S k) - 1) && (Z.of_nat (S k) - 1 <=? Z.of_nat (length s))) with true
        by (symmetry; apply andb_true_intro; split; apply Z.leb_le; lia).
      do 2 f_equal. lia.
    + replace ((0 <=? Z.of_nat (S k)) && (Z.of_nat (S k) <=? Z.of_nat (length s))) with true
        by (symmetry; apply andb_true_intro; split; apply Z.leb_le; lia).
      do 2 f_equal. lia.
Qed.

(* ---------------------------------------------------------------- part 1: every string *)

Theorem trunc_prefix : forall s n, 0 <= n ->
  exists r, trunc s n = Ok r /\ is_prefix r s /\ zlen r <= n /\ (zlen s <= n -> r = s).
Proof.
  intros s n Hn. rewrite trunc_eq by assumption. eexists. split; [reflexivity|].
  destruct (n >=? zlen s) eqn:Hge.
  - apply Z.geb_le in Hge. split; [exists []; symmetry; apply app_nil_r|]. split; [lia|]. reflexivity.
  - rewrite Z.geb_leb in Hge. apply Z.leb_gt in Hge.
    split; [exists (skipn (cut_spec s (Z.to_nat n)) s); symmetry; apply firstn_skipn|].
    split; [|lia].
    unfold zlen. rewrite firstn_length. pose proof (cut_spec_le s (Z.to_nat n)). lia.
Qed.

(* ---------------------------------------------------------------- part 2: valid UTF-8 *)

Lemma valid_head : forall s, valid_utf8 s -> s = [] \/ is_cont (nth 0 s 0) = false.
Proof.
  intros s H. destruct H as [|c s Hc Hs]; [left; reflexivity|right].
  apply utf8_char_shape in Hc. destruct Hc; cbn; assumption.
Qed.

Lemma back_spec_shift : forall c s, is_cont (nth 0 s 0) = false -> forall k, (1 <= k)%nat ->
  back_spec (c ++ s) (length c + k) = (length c + back_spec s k)%nat /\ (1 <= back_spec s k)%nat.
Proof.
  intros c s H0 k Hk. induction k as [|k IH]; [lia|].
  replace (length c + S k)%nat with (S (length c + k)) by lia. cbn [back_spec].
  rewrite app_nth2_plus.
  destruct k as [|k].
  - rewrite H0. split; lia.
  - destruct (is_cont (nth (S k) s 0)); [apply IH; lia | split; lia].
Qed.

Lemma lead_spec_shift : forall c s k, (1 <= k)%nat ->
  lead_spec (c ++ s) (length c + k) = (length c + lead_spec s k)%nat.
Proof.
  intros c s k Hk. destruct k as [|k]; [lia|].
  replace (length c + S k)%nat with (S (length c + k)) by lia. cbn [lead_spec].
  rewrite app_nth2_plus. destruct (is_lead (nth k s 0)); lia.
Qed.

(* cutting inside or right behind the first character gives nothing or exactly that character *)
Lemma cut_first_char : forall c s, shape c -> forall k, (k <= length c)%nat ->
  (cut_spec (c ++ s) k = 0%nat) \/ (k = length c /\ cut_spec (c ++ s) k = length c).
Proof.
  intros c s Hc k Hk. unfold cut_spec.
  destruct Hc; cbn [length] in Hk;
    destruct k as [|[|[|[|[|k]]]]]; try lia; cbn [back_spec lead_spec app nth];
    repeat (match goal with
            | H : is_cont _ = _ |- _ => rewrite H
            | H : is_lead _ = _ |- _ => rewrite H
            end; cbn [back_spec lead_spec app nth length]);
    auto.
Qed.

Theorem trunc_utf8_cut : forall s, valid_utf8 s -> forall k, (k < length s)%nat ->
  valid_utf8 (firstn (cut_spec s k) s) /\ (k <= cut_spec s k + 4)%nat.
Proof.
  intros s H. induction H as [|c s Hc Hs IH]; intros k Hk; [cbn in Hk; lia|].
  pose proof (utf8_char_shape c Hc) as Hsh.
  assert (Hlen : (1 <= length c <= 4)%nat) by (destruct Hsh; cbn; lia).
  destruct (Nat.le_gt_cases k (length c)) as [Hle|Hgt].
  - destruct (cut_first_char c s Hsh k Hle) as [H0|[Hk' H1]].
    + rewrite H0. cbn [firstn]. split; [constructor|lia].
    + rewrite H1. rewrite firstn_app, Nat.sub_diag, firstn_all. cbn [firstn]. rewrite app_nil_r.
      split; [|lia]. rewrite <- (app_nil_r c). constructor; [assumption|constructor].
  - rewrite app_length in Hk.
    remember (k - length c)%nat as j. assert (Hkj : k = (length c + j)%nat) by lia.
    assert (Hj : (1 <= j < length s)%nat) by lia.
    destruct (valid_head s Hs) as [->|Hh]; [cbn in Hj; lia|].
    destruct (back_spec_shift c s Hh j ltac:(lia)) as [Hb Hb1].
    unfold cut_spec in *. rewrite Hkj, Hb. rewrite lead_spec_shift by lia.
    destruct (IH j ltac:(lia)) as [Hv Hbound].
    rewrite firstn_app. rewrite firstn_all2 by lia.
    replace (length c + lead_spec s (back_spec s j) - length c)%nat with (lead_spec s (back_spec s j)) by lia.
    split; [constructor; assumption | lia].
Qed.

Theorem trunc_utf8 : forall s n, valid_utf8 s -> 0 <= n ->
  exists r, trunc s n = Ok r /\ valid_utf8 r /\ (n < zlen s -> n - 4 <= zlen r).
Proof.
  intros s n Hv Hn. rewrite trunc_eq by assumption. eexists. split; [reflexivity|].
  destruct (n >=? zlen s) eqn:Hge.
  - apply Z.geb_le in Hge. split; [assumption|lia].
  - rewrite Z.geb_leb in Hge. apply Z.leb_gt in Hge. unfold zlen in *.
    destruct (trunc_utf8_cut s Hv (Z.to_nat n) ltac:(lia)) as [Hv' Hb].
    split; [assumption|]. intros _. rewrite firstn_length.
    pose proof (cut_spec_le s (Z.to_nat n)). lia.
Qed.

(* ---------------------------------------------------------------- the decision procedure *)

Lemma valid_utf8b_sound : forall s, valid_utf8b s = true -> valid_utf8 s.
Proof.
  assert (Hgen : forall k s, (length s <= k)%nat -> valid_utf8b s = true -> valid_utf8 s).
  { induction k as [|k IH]; intros s Hl H.
    - destruct s; [constructor|cbn in Hl; lia].
    - destruct s as [|a t]; [constructor|]. cbn [valid_utf8b] in H. cbn [length] in Hl.
      destruct (between 0 127 a) eqn:H1.
      { change (a :: t) with ([a] ++ t). constructor; [apply U1; assumption | apply IH; [lia|assumption]]. }
      destruct t as [|b t2]; [discriminate|]. cbn [length] in Hl.
      destruct (between 194 223 a) eqn:H2.
      { apply andb_prop in H. destruct H as [Hb Hr]. change (a :: b :: t2) with ([a; b] ++ t2).
        constructor; [apply U2; assumption | apply IH; [lia|assumption]]. }
      destruct t2 as [|c t3]; [discriminate|]. cbn [length] in Hl.
      destruct (a =? 224) eqn:H3.
      { apply Z.eqb_eq in H3. apply andb_prop in H. destruct H as [H Hr]. apply andb_prop in H. destruct H as [Hb Hc].
        change (a :: b :: c :: t3) with ([a; b; c] ++ t3). constructor; [apply U3a; assumption | apply IH; [lia|assumption]]. }
      destruct (between 225 236 a || between 238 239 a) eqn:H4.
      { apply andb_prop in H. destruct H as [H Hr]. apply andb_prop in H. destruct H as [Hb Hc].
        change (a :: b :: c :: t3) with ([a; b; c] ++ t3). apply orb_prop in H4.
        constructor; [destruct H4; [apply U3b | apply U3d]; assumption | apply IH; [lia|assumption]]. }
      destruct (a =? 237) eqn:H5.
      { apply Z.eqb_eq in H5. apply andb_prop in H. destruct H as [H Hr]. apply andb_prop in H. destruct H as [Hb Hc].
        change (a :: b :: c :: t3) with ([a; b; c] ++ t3). constructor; [apply U3c; assumption | apply IH; [lia|assumption]]. }
      destruct t3 as [|d t4]; [discriminate|]. cbn [length] in Hl.
      destruct (a =? 240) eqn:H6.
      { apply Z.eqb_eq in H6. apply andb_prop in H. destruct H as [H Hr]. apply andb_prop in H. destruct H as [H Hd].
        apply andb_prop in H. destruct H as [Hb Hc].
        change (a :: b :: c :: d :: t4) with ([a; b; c; d] ++ t4). constructor; [apply U4a; assumption | apply IH; [lia|assumption]]. }
      destruct (between 241 243 a) eqn:H7.
      { apply andb_prop in H. destruct H as [H Hr]. apply andb_prop in H. destruct H as [H Hd].
        apply andb_prop in H. destruct H as [Hb Hc].
        change (a :: b :: c :: d :: t4) with ([a; b; c; d] ++ t4). constructor; [apply U4b; assumption | apply IH; [lia|assumption]]. }
      destruct (a =? 244) eqn:H8; [|discriminate].
      apply Z.eqb_eq in H8. apply andb_prop in H. destruct H as [H Hr]. apply andb_prop in H. destruct H as [H Hd].
      apply andb_prop in H. destruct H as [Hb Hc].
      change (a :: b :: c :: d :: t4) with ([a; b; c; d] ++ t4). constructor; [apply U4c; assumption | apply IH; [lia|assumption]]. }
  intros s. apply (Hgen (length s)). lia.
Qed.

Lemma between_false : forall lo hi b, between lo hi b = false -> b < lo \/ hi < b.
Proof.
  intros lo hi b H. unfold between in H. destruct (lo <=? b) eqn:H1; destruct (b <=? hi) eqn:H2; cbn [andb] in H; try discriminate;
    try (apply Z.leb_gt in H1; lia); apply Z.leb_gt in H2; lia.
Qed.

Lemma between_true : forall lo hi b, lo <= b <= hi -> between lo hi b = true.
Proof. intros lo hi b H. unfold between. apply andb_true_intro. split; apply Z.leb_le; lia. Qed.

Lemma between_out : forall lo hi b, b < lo \/ hi < b -> between lo hi b = false.
Proof.
  intros lo hi b H. unfold between. destruct (lo <=? b) eqn:H1; destruct (b <=? hi) eqn:H2; cbn [andb]; try reflexivity.
  apply Z.leb_le in H1, H2. lia.
Qed.

(* decide every range / equality test in the goal from the ranges in the context, without case splits *)
Ltac settle_tests :=
  repeat match goal with
  | |- context [between ?lo ?hi ?x] =>
    first [rewrite (between_true lo hi x) by lia | rewrite (between_out lo hi x) by lia]
  | |- context [?x =? ?k] =>
    first [rewrite (proj2 (Z.eqb_eq x k)) by lia | rewrite (proj2 (Z.eqb_neq x k)) by lia]
  end.

Lemma valid_utf8b_complete : forall s, valid_utf8 s -> valid_utf8b s = true.
Proof.
  intros s H. induction H as [|c s Hc Hs IH]; [reflexivity|].
  destruct Hc; cbn [app valid_utf8b]; unfold is_tail in *;
    repeat match goal with
    | H : between _ _ _ = true |- _ => apply between_spec in H
    end;
    settle_tests; cbn [andb orb]; exact IH.
Qed.

Theorem valid_utf8b_iff : forall s, valid_utf8b s = true <-> valid_utf8 s.
Proof. intros s. split; [apply valid_utf8b_sound | apply valid_utf8b_complete]. Qed.
