(* "Equal up to leading zeros of digit runs" (C20): two strings have the same token key exactly
   when their normal forms (leading zeros of every digit run stripped) coincide.  This is the
   uniqueness of decimal notation, lifted to strings of runs. *)
From Coq Require Import ZArith List Bool Lia.
Import ListNotations.
From Mds Require Import Mbits.BytesBase Mstr.MstrModel Mstr.MstrSpec Mstr.MstrProofsNat.
Local Open Scope Z_scope.

(* ---------------------------------------------------------------- key of the normal form *)

Lemma key_strip : forall s,
  key_aux (strip_zeros s 0) None = key_aux s None /\
  key_aux (strip_zeros s 1) None = key_aux s (Some 0) /\
  (forall v, key_aux (strip_zeros s 2) (Some v) = key_aux s (Some v)).
Proof.
  induction s as [|c t (IH0 & IH1 & IH2)].
  - repeat split; reflexivity.
  - cbn [strip_zeros key_aux]. destruct (digit c) eqn:Hd.
    + destruct (c =? 48) eqn:Hc.
      * apply Z.eqb_eq in Hc. subst c. cbn [Z.sub Z.mul Z.add Z.opp Z.pos_sub Pos.compare Pos.compare_cont]. 
        repeat split.
        -- exact IH1.
        -- exact IH1.
        -- intros v. cbn [key_aux]. rewrite Hd. apply IH2.
      * repeat split.
        -- cbn [key_aux]. rewrite Hd. apply IH2.
        -- cbn [key_aux]. rewrite Hd. apply IH2.
        -- intros v. cbn [key_aux]. rewrite Hd. apply IH2.
    + repeat split.
      * cbn [app key_aux flush]. rewrite Hd. cbn [flush app]. f_equal. exact IH0.
      * cbn [app key_aux flush]. change (digit 48) with true. cbv iota. cbn [key_aux]. rewrite Hd.
        cbn [flush app]. do 2 f_equal. exact IH0.
      * intros v. cbn [app key_aux flush]. rewrite Hd. cbn [flush app]. do 2 f_equal. exact IH0.
Qed.

Lemma key_normal_form : forall s, key (normal_form s) = key s.
Proof. intros s. unfold key, normal_form. apply (key_strip s). Qed.

(* ---------------------------------------------------------------- decimal notation is unique *)

Definition dig (c : Z) : Prop := 48 <= c <= 57.
Definition valf (v : Z) (ds : list Z) : Z := fold_left (fun v c => v * 10 + (c - 48)) ds v.
Definition p10 (ds : list Z) : Z := 10 ^ Z.of_nat (length ds).

Lemma digit_dig : forall c, digit c = true -> dig c.
Proof. intros c H. unfold digit in H. apply andb_prop in H. destruct H as [H1 H2]. apply Z.leb_le in H1, H2. split; assumption. Qed.

Lemma p10_cons : forall c t, p10 (c :: t) = 10 * p10 t.
Proof. intros. unfold p10. cbn [length]. rewrite Nat2Z.inj_succ, Z.pow_succ_r by lia. reflexivity. Qed.

Lemma p10_pos : forall ds, 1 <= p10 ds.
Proof. intros. unfold p10. assert (0 < 10 ^ Z.of_nat (length ds)) by (apply Z.pow_pos_nonneg; lia). lia. Qed.

Lemma valf_split : forall ds v, Forall dig ds ->
  valf v ds = v * p10 ds + valf 0 ds /\ 0 <= valf 0 ds < p10 ds.
Proof.
  induction ds as [|c t IH]; intros v H.
  - unfold valf, p10. cbn. lia.
  - inversion H as [|? ? Hc Ht]; subst. unfold valf in *. cbn [fold_left].
    destruct (IH (v * 10 + (c - 48)) Ht) as [E1 _]. destruct (IH (0 * 10 + (c - 48)) Ht) as [E2 B].
    rewrite E1, E2. rewrite p10_cons. unfold dig in Hc. pose proof (p10_pos t).
    split; [ring|]. nia.
Qed.

Lemma valf_lower : forall c t, Forall dig (c :: t) -> c <> 48 -> p10 t <= valf 0 (c :: t).
Proof.
  intros c t H Hc. inversion H as [|? ? Hd Ht]; subst. unfold valf. cbn [fold_left].
  destruct (valf_split t (0 * 10 + (c - 48)) Ht) as [E B]. unfold valf in E, B. rewrite E.
  unfold dig in Hd. pose proof (p10_pos t). nia.
Qed.

Lemma same_len_inj : forall d1 d2, length d1 = length d2 -> Forall dig d1 -> Forall dig d2 ->
  valf 0 d1 = valf 0 d2 -> d1 = d2.
Proof.
  induction d1 as [|c1 t1 IH]; destruct d2 as [|c2 t2]; intros Hl H1 H2 Hv; try discriminate; [reflexivity|].
  inversion H1 as [|? ? Hc1 Ht1]; inversion H2 as [|? ? Hc2 Ht2]; subst.
  cbn [length] in Hl. injection Hl as Hl.
  unfold valf in Hv. cbn [fold_left] in Hv.
  destruct (valf_split t1 (0 * 10 + (c1 - 48)) Ht1) as [E1 B1].
  destruct (valf_split t2 (0 * 10 + (c2 - 48)) Ht2) as [E2 B2].
  unfold valf in E1, E2, B1, B2. rewrite E1, E2 in Hv.
  assert (Hp : p10 t1 = p10 t2) by (unfold p10; rewrite Hl; reflexivity).
  rewrite Hp in *. unfold dig in Hc1, Hc2. pose proof (p10_pos t2).
  assert (c1 = c2) by nia. subst c2.
  f_equal. apply IH; try assumption. unfold valf. lia.
Qed.

(* canonical digit strings: "0", or digits not starting with '0' *)
Definition canon_nz (ds : list Z) : Prop := exists c t, ds = c :: t /\ c <> 48 /\ Forall dig (c :: t).
Definition canon (ds : list Z) : Prop := ds = [48] \/ canon_nz ds.

Lemma p10_mono : forall d1 d2, (length d1 <= length d2)%nat -> p10 d1 <= p10 d2.
Proof. intros. unfold p10. apply Z.pow_le_mono_r; lia. Qed.

Lemma canon_inj : forall d1 d2, canon d1 -> canon d2 -> valf 0 d1 = valf 0 d2 -> d1 = d2.
Proof.
  assert (Hz : forall d, canon_nz d -> 1 <= valf 0 d).
  { intros d (c & t & -> & Hc & Hd). pose proof (valf_lower c t Hd Hc). pose proof (p10_pos t). lia. }
  assert (Hlen : forall d1 d2, canon_nz d1 -> canon_nz d2 -> valf 0 d1 = valf 0 d2 -> (length d1 <= length d2)%nat).
  { intros d1 d2 (c1 & t1 & -> & Hc1 & Hd1) (c2 & t2 & -> & Hc2 & Hd2) Hv.
    destruct (Nat.le_gt_cases (length (c1 :: t1)) (length (c2 :: t2))) as [|Hgt]; [assumption|exfalso].
    pose proof (valf_lower c1 t1 Hd1 Hc1) as L1.
    destruct (valf_split (c2 :: t2) 0 Hd2) as [_ B2].
    assert (p10 (c2 :: t2) <= p10 t1) by (apply p10_mono; cbn [length] in *; lia). lia. }
  intros d1 d2 [->|H1] [->|H2] Hv; [reflexivity| | |].
  - apply Hz in H2. unfold valf in *. cbn in Hv. lia.
  - apply Hz in H1. unfold valf in *. cbn in Hv. lia.
  - pose proof (Hlen d1 d2 H1 H2 Hv). pose proof (Hlen d2 d1 H2 H1 (eq_sym Hv)).
    destruct H1 as (c1 & t1 & -> & _ & Hd1). destruct H2 as (c2 & t2 & -> & _ & Hd2).
    apply same_len_inj; try assumption. lia.
Qed.

(* ---------------------------------------------------------------- string tokens *)

Inductive stok := SNum (ds : list Z) | SByte (c : Z).

Definition sflush (st : nat) (ds : list Z) : list stok :=
  match st with 0%nat => [] | 1%nat => [SNum [48]] | _ => [SNum ds] end.

(* the state machine of strip_zeros, collecting each stripped run instead of emitting it *)
Fixpoint skey_aux (s : list Z) (st : nat) (ds : list Z) : list stok :=
  match s with
  | [] => sflush st ds
  | c :: t =>
    if digit c then
      match st with
      | 2%nat => skey_aux t 2 (ds ++ [c])
      | _ => if c =? 48 then skey_aux t 1 [] else skey_aux t 2 [c]
      end
    else sflush st ds ++ SByte c :: skey_aux t 0 []
  end.

Definition flat (k : stok) : list Z := match k with SNum ds => ds | SByte c => [c] end.
Definition value (k : stok) : tok := match k with SNum ds => TNum (valf 0 ds) | SByte c => TByte c end.
Definition canon_tok (k : stok) : Prop := match k with SNum ds => canon ds | SByte _ => True end.

Lemma strip_flat : forall s,
  strip_zeros s 0 = flat_map flat (skey_aux s 0 []) /\
  strip_zeros s 1 = flat_map flat (skey_aux s 1 []) /\
  (forall ds, ds ++ strip_zeros s 2 = flat_map flat (skey_aux s 2 ds)).
Proof.
  induction s as [|c t (IH0 & IH1 & IH2)].
  - (split; [|split]); reflexivity.
  - cbn [strip_zeros skey_aux]. destruct (digit c) eqn:Hd.
    + destruct (c =? 48) eqn:Hc; (split; [|split]); try assumption.
      * intros ds. rewrite <- IH2. rewrite <- app_assoc. reflexivity.
      * rewrite <- IH2. reflexivity.
      * rewrite <- IH2. reflexivity.
      * intros ds. rewrite <- IH2. rewrite <- app_assoc. reflexivity.
    + split; [|split].
      * cbn [sflush app flat_map flat]. f_equal. exact IH0.
      * cbn [sflush app flat_map flat]. do 2 f_equal. exact IH0.
      * intros ds. cbn [sflush app flat_map flat]. rewrite <- IH0. reflexivity.
Qed.

Lemma valf_snoc : forall ds c, valf 0 (ds ++ [c]) = valf 0 ds * 10 + (c - 48).
Proof. intros. unfold valf. rewrite fold_left_app. reflexivity. Qed.

Lemma key_value : forall s,
  key_aux s None = map value (skey_aux s 0 []) /\
  key_aux s (Some 0) = map value (skey_aux s 1 []) /\
  (forall ds, key_aux s (Some (valf 0 ds)) = map value (skey_aux s 2 ds)).
Proof.
  induction s as [|c t (IH0 & IH1 & IH2)].
  - repeat split; reflexivity.
  - cbn [key_aux skey_aux]. destruct (digit c) eqn:Hd.
    + destruct (c =? 48) eqn:Hc.
      * apply Z.eqb_eq in Hc. subst c. split; [|split].
        -- exact IH1.
        -- exact IH1.
        -- intros ds. rewrite <- IH2. rewrite valf_snoc. reflexivity.
      * split; [|split].
        -- rewrite <- IH2. reflexivity.
        -- rewrite <- IH2. reflexivity.
        -- intros ds. rewrite <- IH2. rewrite valf_snoc. reflexivity.
    + split; [|split].
      * cbn [sflush flush app map value]. f_equal. exact IH0.
      * cbn [sflush flush app map value]. do 2 f_equal. exact IH0.
      * intros ds. cbn [sflush flush app map value]. do 2 f_equal. exact IH0.
Qed.

Lemma skey_canon : forall s,
  Forall canon_tok (skey_aux s 0 []) /\ Forall canon_tok (skey_aux s 1 []) /\
  (forall ds, canon_nz ds -> Forall canon_tok (skey_aux s 2 ds)).
Proof.
  assert (Hsn : forall ds c, canon_nz ds -> digit c = true -> canon_nz (ds ++ [c])).
  { intros ds c (c0 & t & -> & Hc & Hd) Hdc. exists c0, (t ++ [c]). split; [reflexivity|]. split; [assumption|].
    change (c0 :: t ++ [c]) with ((c0 :: t) ++ [c]). apply Forall_app. split; [assumption|].
    constructor; [apply digit_dig; assumption|constructor]. }
  induction s as [|c t (IH0 & IH1 & IH2)].
  - split; [|split].
    + constructor.
    + cbn. constructor; [left; reflexivity|constructor].
    + intros ds H. cbn. constructor; [right; exact H|constructor].
  - cbn [skey_aux]. destruct (digit c) eqn:Hd.
    + assert (Hone : c <> 48 -> canon_nz [c]).
      { intros Hc. exists c, []. split; [reflexivity|]. split; [assumption|]. constructor; [apply digit_dig; assumption|constructor]. }
      destruct (c =? 48) eqn:Hc.
      * (split; [|split]); try assumption. intros ds H. apply IH2. apply Hsn; assumption.
      * apply Z.eqb_neq in Hc. (split; [|split]); try (apply IH2; apply Hone; assumption).
        intros ds H. apply IH2. apply Hsn; assumption.
    + split; [|split].
      * cbn [sflush app]. constructor; [exact I|exact IH0].
      * cbn [sflush app]. constructor; [left; reflexivity|]. constructor; [exact I|exact IH0].
      * intros ds H. cbn [sflush app]. constructor; [right; exact H|]. constructor; [exact I|exact IH0].
Qed.

Lemma value_inj : forall l1 l2, Forall canon_tok l1 -> Forall canon_tok l2 ->
  map value l1 = map value l2 -> l1 = l2.
Proof.
  induction l1 as [|k1 l1 IH]; destruct l2 as [|k2 l2]; intros H1 H2 Hm; try discriminate; [reflexivity|].
  inversion H1; inversion H2; subst. cbn [map] in Hm. injection Hm as Hk Hl.
  f_equal; [|apply IH; assumption].
  destruct k1 as [d1|c1], k2 as [d2|c2]; cbn [value] in Hk; try discriminate.
  - injection Hk as Hk. f_equal. apply canon_inj; assumption.
  - injection Hk as Hk. f_equal. exact Hk.
Qed.

(* equal keys <-> equal after stripping the leading zeros of every digit run *)
Theorem key_eq_normal_form : forall a b, key a = key b <-> normal_form a = normal_form b.
Proof.
  intros a b. split.
  - intros H. unfold normal_form.
    destruct (strip_flat a) as [Fa _]. destruct (strip_flat b) as [Fb _]. rewrite Fa, Fb.
    f_equal. apply value_inj; [apply (skey_canon a) | apply (skey_canon b)|].
    destruct (key_value a) as [Ka _]. destruct (key_value b) as [Kb _].
    rewrite <- Ka, <- Kb. exact H.
  - intros H. rewrite <- (key_normal_form a), <- (key_normal_form b), H. reflexivity.
Qed.

(* CompareNatural is 0 exactly for strings equal up to leading zeros of digit runs *)
Theorem compare_natural_zero_nf : forall a b, runs_fit a -> runs_fit b ->
  (compare_natural a b = Ok 0 <-> normal_form a = normal_form b).
Proof.
  intros a b Ha Hb. rewrite (compare_natural_zero a b Ha Hb). apply key_eq_normal_form.
Qed.
