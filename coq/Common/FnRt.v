(* Run-time library of the function-level translator (translator/fn.go -> coq/Gen/Fn*.v).

   The generated files contain whole Go function bodies, regenerated from the Go source on every
   run, written against the few definitions below.  Conventions of the translation:

   - Go int / byte            -> Z (unbounded; byte arithmetic is reduced mod 256 by [go_byte])
   - Go bool                  -> bool
   - an abstract element T    -> a type argument T
   - []T                      -> list T  (the elements [0, len) of the slice; no capacity)
   - string                   -> list Z  (its bytes)
   - a slice that is only re-sliced and handed on (never indexed), and every slice stored inside
     another slice            -> [view] (offset, len, cap relative to the argument's array)
   - every Go function        -> a function into [res R]: [Ok r], [Panic kind] or [OutOfFuel]
   - every loop               -> a Fixpoint on [gas : nat]; [OutOfFuel] when it is exhausted

   Panics.  [PIndex], [PSlice], [PDiv], [PMake] are Go's run-time panics; [PMsg s] is an explicit
   panic("s") of the source.  [PSliceLen] is NOT a Go panic: it is the result of re-slicing a
   list-represented slice beyond its length, which Go allows up to the capacity; the list
   representation carries no capacity, so the translation stops with this distinguished result
   instead of inventing elements. *)
From Coq Require Import ZArith List Bool.
Require Coq.Strings.String.
Export Coq.Strings.String.StringSyntax.
Import ListNotations.
Local Open Scope Z_scope.

Inductive panic_kind :=
| PIndex                        (* runtime: index out of range *)
| PSlice                        (* runtime: slice bounds out of range *)
| PDiv                          (* runtime: integer divide by zero *)
| PMake                         (* runtime: makeslice: len/cap out of range *)
| PSliceLen                     (* outside the list representation: re-slice beyond len (see above) *)
| PMsg (m : String.string).     (* panic("m") in the source *)

Inductive res (A : Type) : Type :=
| Ok (a : A)
| Panic (k : panic_kind)
| OutOfFuel.
Delimit Scope string_scope with string.
Arguments PMsg m%string.
Arguments Ok {A} a.
Arguments Panic {A} k.
Arguments OutOfFuel {A}.

Definition bind {A B : Type} (r : res A) (f : A -> res B) : res B :=
  match r with
  | Ok a => f a
  | Panic k => Panic k
  | OutOfFuel => OutOfFuel
  end.

Notation "'do' x <- r ; k" := (bind r (fun x => k))
  (at level 200, x pattern, r at level 100, k at level 200, only parsing).

(* how a loop iteration / a loop ends when the loop body contains a return statement *)
Inductive ctl (S R : Type) : Type :=
| Next (s : S)      (* the loop ended (condition false or break) with loop variables s *)
| Ret (r : R).      (* a return statement inside the loop *)
Arguments Next {S R} s.
Arguments Ret {S R} r.

(* ---- integers ---- *)
(* Go's / and % truncate toward zero and panic on a zero divisor *)
Definition go_quot (a b : Z) : res Z := if b =? 0 then Panic PDiv else Ok (Z.quot a b).
Definition go_rem (a b : Z) : res Z := if b =? 0 then Panic PDiv else Ok (Z.rem a b).
(* uint8 arithmetic wraps *)
Definition go_byte (z : Z) : Z := z mod 256.
(* cmp.Compare on ints *)
Definition go_cmp_int (a b : Z) : Z := if a <? b then -1 else if b <? a then 1 else 0.

(* ---- slices as lists ---- *)
Definition zlen {A : Type} (l : list A) : Z := Z.of_nat (length l).

(* l[i] *)
Definition go_get {A : Type} (l : list A) (i : Z) : res A :=
  if (0 <=? i) && (i <? zlen l) then
    match nth_error l (Z.to_nat i) with
    | Some x => Ok x
    | None => Panic PIndex
    end
  else Panic PIndex.

Fixpoint upd {A : Type} (l : list A) (n : nat) (x : A) : list A :=
  match l, n with
  | [], _ => []
  | _ :: t, O => x :: t
  | h :: t, S m => h :: upd t m x
  end.

(* l[i] = x *)
Definition go_set {A : Type} (l : list A) (i : Z) (x : A) : res (list A) :=
  if (0 <=? i) && (i <? zlen l) then Ok (upd l (Z.to_nat i) x) else Panic PIndex.

(* l[lo:hi] of a list-represented slice: exact for 0 <= lo <= hi <= len(l) *)
Definition go_sub {A : Type} (l : list A) (lo hi : Z) : res (list A) :=
  if (0 <=? lo) && (lo <=? hi) then
    if hi <=? zlen l then Ok (firstn (Z.to_nat (hi - lo)) (skipn (Z.to_nat lo) l))
    else Panic PSliceLen
  else Panic PSlice.

(* s[lo:hi] of a string: strings have no capacity, so beyond len is Go's panic *)
Definition go_substr (s : list Z) (lo hi : Z) : res (list Z) :=
  if (0 <=? lo) && (lo <=? hi) && (hi <=? zlen s)
  then Ok (firstn (Z.to_nat (hi - lo)) (skipn (Z.to_nat lo) s))
  else Panic PSlice.

(* make([]T, len, cap): the checks only; the translator writes the value *)
Definition go_make_check (len cap : Z) : res unit :=
  if (0 <=? len) && (len <=? cap) then Ok tt else Panic PMake.

(* ---- strings (byte lists) ---- *)
Fixpoint str_eqb (a b : list Z) : bool :=
  match a, b with
  | [], [] => true
  | x :: a', y :: b' => (x =? y) && str_eqb a' b'
  | _, _ => false
  end.

(* cmp.Compare / strings.Compare on strings: bytewise lexicographic *)
Fixpoint go_cmp_str (a b : list Z) : Z :=
  match a, b with
  | [], [] => 0
  | [], _ :: _ => -1
  | _ :: _, [] => 1
  | x :: a', y :: b' => if x <? y then -1 else if y <? x then 1 else go_cmp_str a' b'
  end.

(* ---- views: a slice as (offset, len, cap) into the array of a function argument ---- *)
Record view := mkView { voff : Z; vlen : Z; vcap : Z }.

(* v[lo:hi:max] *)
Definition go_slice3 (v : view) (lo hi max : Z) : res view :=
  if (0 <=? lo) && (lo <=? hi) && (hi <=? max) && (max <=? vcap v)
  then Ok (mkView (voff v + lo) (hi - lo) (max - lo))
  else Panic PSlice.

(* v[lo:hi] *)
Definition go_slice2 (v : view) (lo hi : Z) : res view := go_slice3 v lo hi (vcap v).

(* w[lo:hi] of a slice whose backing array continues with [spare] up to its capacity (the result
   of an append through the oracle): exact for hi <= cap(w) *)
Definition go_sub_cap {A : Type} (l spare : list A) (lo hi : Z) : res (list A) :=
  if (0 <=? lo) && (lo <=? hi) && (hi <=? zlen l + zlen spare)
  then Ok (firstn (Z.to_nat (hi - lo)) (skipn (Z.to_nat lo) (l ++ spare)))
  else Panic PSlice.

(* ---- maps without iteration: map[K]V as an association list ----
   [eqb] is Go's == on the key type (a function argument [eqb_K] of the generated function for an
   abstract comparable key type).  A lookup answers the first entry whose key is equal; a store
   replaces that entry in place or appends a new one; delete removes every entry with an equal
   key -- so maps built from [] by these operations never hold two entries for one key, and the
   lemmas of [GoMapFacts] (under the correctness of [eqb]) are Go's map laws.  A map-typed
   receiver field is taken to be allocated (a store into a nil map would panic in Go). *)
Definition go_map (K V : Type) : Type := list (K * V).

Fixpoint go_map_get {K V : Type} (eqb : K -> K -> bool) (m : go_map K V) (k : K) : option V :=
  match m with
  | [] => None
  | (k', x) :: r => if eqb k' k then Some x else go_map_get eqb r k
  end.

(* v, ok := m[k] *)
Definition go_map_get2 {K V : Type} (eqb : K -> K -> bool) (zero : V) (m : go_map K V) (k : K) : V * bool :=
  match go_map_get eqb m k with
  | Some x => (x, true)
  | None => (zero, false)
  end.

(* m[k] as one value: the zero value for an absent key *)
Definition go_map_get1 {K V : Type} (eqb : K -> K -> bool) (zero : V) (m : go_map K V) (k : K) : V :=
  fst (go_map_get2 eqb zero m k).

(* m[k] = x *)
Fixpoint go_map_set {K V : Type} (eqb : K -> K -> bool) (m : go_map K V) (k : K) (x : V) : go_map K V :=
  match m with
  | [] => [(k, x)]
  | (k', y) :: r => if eqb k' k then (k', x) :: r else (k', y) :: go_map_set eqb r k x
  end.

(* delete(m, k) *)
Fixpoint go_map_del {K V : Type} (eqb : K -> K -> bool) (m : go_map K V) (k : K) : go_map K V :=
  match m with
  | [] => []
  | (k', y) :: r => if eqb k' k then go_map_del eqb r k else (k', y) :: go_map_del eqb r k
  end.

(* len(m): the number of distinct keys (an entry counts unless a later one has an equal key) *)
Fixpoint go_map_len {K V : Type} (eqb : K -> K -> bool) (m : go_map K V) : Z :=
  match m with
  | [] => 0
  | (k, _) :: r => (if existsb (fun e => eqb (fst e) k) r then 0 else 1) + go_map_len eqb r
  end.

Section GoMapFacts.
Context {K V : Type}.
Variable eqb : K -> K -> bool.
Hypothesis eqb_ok : forall a b, eqb a b = true <-> a = b.

Lemma go_map_eqb_refl k : eqb k k = true.
Proof. apply eqb_ok; reflexivity. Qed.

Lemma go_map_eqb_neq a b : a <> b -> eqb a b = false.
Proof. intros N. destruct (eqb a b) eqn:E; [apply eqb_ok in E; contradiction | reflexivity]. Qed.

Lemma go_map_get_empty (k : K) : go_map_get eqb ([] : go_map K V) k = None.
Proof. reflexivity. Qed.

Lemma go_map_get_set_same (m : go_map K V) k x : go_map_get eqb (go_map_set eqb m k x) k = Some x.
Proof.
  induction m as [|[k' y] r IH]; simpl.
  - rewrite go_map_eqb_refl; reflexivity.
  - destruct (eqb k' k) eqn:E; simpl; rewrite E; [reflexivity | exact IH].
Qed.

Lemma go_map_get_set_other (m : go_map K V) k k2 x : k <> k2 ->
  go_map_get eqb (go_map_set eqb m k x) k2 = go_map_get eqb m k2.
Proof.
  intros N. induction m as [|[k' y] r IH]; simpl.
  - rewrite (go_map_eqb_neq _ _ N); reflexivity.
  - destruct (eqb k' k) eqn:E; simpl.
    + apply eqb_ok in E; subst k'. rewrite (go_map_eqb_neq _ _ N); reflexivity.
    + destruct (eqb k' k2); [reflexivity | exact IH].
Qed.

Lemma go_map_get_del_same (m : go_map K V) k : go_map_get eqb (go_map_del eqb m k) k = None.
Proof.
  induction m as [|[k' y] r IH]; simpl; [reflexivity|].
  destruct (eqb k' k) eqn:E; simpl; [exact IH | rewrite E; exact IH].
Qed.

Lemma go_map_get_del_other (m : go_map K V) k k2 : k <> k2 ->
  go_map_get eqb (go_map_del eqb m k) k2 = go_map_get eqb m k2.
Proof.
  intros N. induction m as [|[k' y] r IH]; simpl; [reflexivity|].
  destruct (eqb k' k) eqn:E; simpl.
  - apply eqb_ok in E; subst k'. rewrite (go_map_eqb_neq _ _ N); exact IH.
  - destruct (eqb k' k2); [reflexivity | exact IH].
Qed.

Lemma go_map_get2_some zero (m : go_map K V) k x :
  go_map_get eqb m k = Some x -> go_map_get2 eqb zero m k = (x, true).
Proof. unfold go_map_get2; intros ->; reflexivity. Qed.

Lemma go_map_get2_none zero (m : go_map K V) k :
  go_map_get eqb m k = None -> go_map_get2 eqb zero m k = (zero, false).
Proof. unfold go_map_get2; intros ->; reflexivity. Qed.

Lemma go_map_len_empty : go_map_len eqb ([] : go_map K V) = 0%Z.
Proof. reflexivity. Qed.
End GoMapFacts.

(* ---- copy, and slices whose spare capacity is tracked ---- *)
(* copy(dst, src): the first min(len dst, len src) elements of dst replaced by those of src *)
Definition go_copy {A : Type} (dst src : list A) : list A :=
  firstn (length dst) src ++ skipn (length src) dst.

(* x = x[:hi] of a slice whose backing array continues with [spare] up to its capacity: exact for
   hi <= cap; the new slice and the new spare part (nothing of the array is forgotten) *)
Definition go_reslice_cap {A : Type} (l spare : list A) (hi : Z) : res (list A * list A) :=
  if (0 <=? hi) && (hi <=? zlen l + zlen spare)
  then Ok (firstn (Z.to_nat hi) (l ++ spare), skipn (Z.to_nat hi) (l ++ spare))
  else Panic PSlice.

Lemma go_copy_length {A : Type} (dst src : list A) : length (go_copy dst src) = length dst.
Proof.
  unfold go_copy. rewrite app_length, firstn_length, skipn_length.
  destruct (Nat.le_ge_cases (length dst) (length src)) as [H|H].
  - rewrite Nat.min_l by exact H. replace (length dst - length src)%nat with O; [apply Nat.add_0_r|].
    symmetry. apply Nat.sub_0_le. exact H.
  - rewrite Nat.min_r by exact H. rewrite Nat.add_comm. apply Nat.sub_add. exact H.
Qed.

Lemma go_copy_same_length {A : Type} (dst src : list A) : length dst = length src -> go_copy dst src = src.
Proof.
  intros E. unfold go_copy. rewrite E, firstn_all, <- E, skipn_all. apply app_nil_r.
Qed.

(* ---- maps whose nil-ness is represented, and iteration over a map ----
   [go_nmap K V] = option (go_map K V): None is the nil map (every map but an unnamed-map field of
   the receiver struct, which is taken to be allocated).  Reading a nil map is reading the empty
   map; storing into it panics.  A map VALUE is handed around by content: two variables that hold
   the same map object are outside the representation (as two slices sharing an array are), except
   that a map parameter a function changes is returned with its new content.

   Iteration.  Go leaves the order of `for k := range m` unspecified: the generated function takes
   the order as an ORACLE argument [ord] (a list of keys).  [go_nmap_order_check] accepts it iff it
   is a duplicate-free enumeration of exactly the keys present when the loop starts; otherwise the
   result is the distinguished [Panic PBadOrder] (not a Go panic).  During the loop a key whose entry
   has been deleted before the iteration reaches it is skipped ([go_nmap_has] on the current map),
   as the Go specification says; creating an entry in the map being ranged over (Go: it may or may
   not be visited) is refused by the translator for direct stores and checked after every call that
   may change the map ([go_nmap_nogrow_check], distinguished [Panic PMapGrew]). *)
Definition go_nmap (K V : Type) : Type := option (go_map K V).

Definition PNilMap : panic_kind := PMsg "assignment to entry in nil map".       (* Go's run-time panic *)
Definition PBadOrder : panic_kind := PMsg "<fnrt> the iteration order handed in is not an enumeration of the keys of the map".
Definition PMapGrew : panic_kind := PMsg "<fnrt> an entry was created in a map while it is ranged over".

Definition go_nmap_make {K V : Type} : go_nmap K V := Some [].
Definition go_nmap_isnil {K V : Type} (m : go_nmap K V) : bool := match m with None => true | Some _ => false end.
Definition go_nmap_entries {K V : Type} (m : go_nmap K V) : go_map K V := match m with None => [] | Some l => l end.
Definition go_nmap_get2 {K V : Type} (eqb : K -> K -> bool) (zero : V) (m : go_nmap K V) (k : K) : V * bool :=
  go_map_get2 eqb zero (go_nmap_entries m) k.
Definition go_nmap_get1 {K V : Type} (eqb : K -> K -> bool) (zero : V) (m : go_nmap K V) (k : K) : V :=
  go_map_get1 eqb zero (go_nmap_entries m) k.
Definition go_nmap_has {K V : Type} (eqb : K -> K -> bool) (m : go_nmap K V) (k : K) : bool :=
  match go_map_get eqb (go_nmap_entries m) k with Some _ => true | None => false end.
Definition go_nmap_set {K V : Type} (eqb : K -> K -> bool) (m : go_nmap K V) (k : K) (x : V) : res (go_nmap K V) :=
  match m with None => Panic PNilMap | Some l => Ok (Some (go_map_set eqb l k x)) end.
Definition go_nmap_del {K V : Type} (eqb : K -> K -> bool) (m : go_nmap K V) (k : K) : go_nmap K V :=
  match m with None => None | Some l => Some (go_map_del eqb l k) end.
Definition go_nmap_len {K V : Type} (eqb : K -> K -> bool) (m : go_nmap K V) : Z := go_map_len eqb (go_nmap_entries m).
(* clear(m) *)
Definition go_nmap_clear {K V : Type} (m : go_nmap K V) : go_nmap K V := match m with None => None | Some _ => Some [] end.
(* maps.Clone(m): a new map with the same entries, nil for nil -- the same value *)
Definition go_nmap_clone {K V : Type} (m : go_nmap K V) : go_nmap K V := m.

Fixpoint go_keys_nodup {K : Type} (eqb : K -> K -> bool) (l : list K) : bool :=
  match l with
  | [] => true
  | x :: r => negb (existsb (eqb x) r) && go_keys_nodup eqb r
  end.
Definition go_nmap_order_ok {K V : Type} (eqb : K -> K -> bool) (m : go_nmap K V) (ord : list K) : bool :=
  (zlen ord =? go_nmap_len eqb m) && go_keys_nodup eqb ord && forallb (go_nmap_has eqb m) ord.
Definition go_nmap_order_check {K V : Type} (eqb : K -> K -> bool) (m : go_nmap K V) (ord : list K) : res unit :=
  if go_nmap_order_ok eqb m ord then Ok tt else Panic PBadOrder.
(* every key of [after] was a key of [before] *)
Definition go_nmap_nogrow_check {K V : Type} (eqb : K -> K -> bool) (before after : go_nmap K V) : res unit :=
  if forallb (fun e => go_nmap_has eqb before (fst e)) (go_nmap_entries after) then Ok tt else Panic PMapGrew.

(* ---- uint64 ---- *)
(* uint64 arithmetic (+ - * << and conversions to uint64) wraps modulo 2^64 *)
Definition go_u64 (z : Z) : Z := z mod 18446744073709551616.
(* bits.LeadingZeros64 of a 64-bit word: 64 minus its bit length *)
Definition go_lz64 (p : Z) : Z := if p <=? 0 then 64 else 63 - Z.log2 p.

Lemma go_u64_small z : 0 <= z < 18446744073709551616 -> go_u64 z = z.
Proof. intros H. unfold go_u64. apply Z.mod_small. exact H. Qed.

(* ---- 64-bit words inside a byte slice: the uint64 read or written through unsafe.Pointer(&data[i]) ----
   Taking &data[i] is the bounds check of data[i] ([Panic PIndex]); the 8-byte access itself is
   UNCHECKED in Go: when it is not wholly inside the slice the result is the distinguished
   [Panic PFault] (not a Go panic: the program would touch memory outside the slice).  Inside, the
   value is the little-endian one of bytes i..i+7. *)
Definition PFault : panic_kind := PMsg "<fnrt> unsafe 8-byte access beyond the slice".
Fixpoint go_le_word (bs : list Z) : Z :=
  match bs with
  | [] => 0
  | b :: t => b + 256 * go_le_word t
  end.
Fixpoint go_le_bytes (cnt : nat) (v : Z) : list Z :=
  match cnt with
  | O => []
  | S c => (v mod 256) :: go_le_bytes c (v / 256)
  end.
Definition go_load64 (l : list Z) (i : Z) : res Z :=
  if (0 <=? i) && (i <? zlen l) then
    if i + 8 <=? zlen l then Ok (go_le_word (firstn 8 (skipn (Z.to_nat i) l))) else Panic PFault
  else Panic PIndex.
Definition go_store64 (l : list Z) (i v : Z) : res (list Z) :=
  if (0 <=? i) && (i <? zlen l) then
    if i + 8 <=? zlen l
    then Ok (firstn (Z.to_nat i) l ++ go_le_bytes 8 v ++ skipn (Z.to_nat i + 8) l)
    else Panic PFault
  else Panic PIndex.

(* ---- slice results that are an argument on one path and a new slice on another ----
   (LNDSFunc: `return vs` for an empty input, `return ret` otherwise).  [SlOf v]: the result is the
   window [v] of a slice argument (storage shared with the caller's slice); [SlNew l]: a slice the
   function allocated, with elements [l]. *)
Inductive go_sres (T : Type) : Type :=
| SlOf (v : view)
| SlNew (l : list T).
Arguments SlOf {T} v.
Arguments SlNew {T} l.

(* ---- pointers to immutable structs ----
   A pointer *S to a struct whose fields are assigned only in composite literals (checked by the
   translator) is the struct VALUE or nil: [option S].  Reading a field through nil is Go's
   run-time panic [PNil].  Pointer identity (p == q) is not represented. *)
Definition PNil : panic_kind := PMsg "invalid memory address or nil pointer dereference".
Definition go_deref {A : Type} (p : option A) : res A :=
  match p with Some a => Ok a | None => Panic PNil end.

(* ---- error values (translator/fn_err.go) ----
   Only what shell.go does with an error: the values nil, io.EOF and "another error, carried
   through" (its identity an integer code); the tests x == nil and x == y. *)
Inductive go_error : Type :=
| ENil                (* nil *)
| EEOF                (* io.EOF *)
| EOther (code : Z).  (* any other error value *)
Definition go_err_isnil (e : go_error) : bool :=
  match e with ENil => true | _ => false end.
Definition go_err_eqb (a b : go_error) : bool :=
  match a, b with
  | ENil, ENil => true
  | EEOF, EEOF => true
  | EOther x, EOther y => x =? y
  | _, _ => false
  end.

(* strings.IndexByte(s, b): the index of the first b in s, -1 if there is none *)
Fixpoint go_index_byte_from (s : list Z) (b : Z) (i : Z) : Z :=
  match s with
  | [] => -1
  | x :: r => if x =? b then i else go_index_byte_from r b (i + 1)
  end.
Definition go_index_byte (s : list Z) (b : Z) : Z := go_index_byte_from s b 0.

(* ---- an array handed to a local object and back (translator/fn_rest.go) ----
   A function hands its slice parameter vs to a constructor of the file that stores it in a field
   f of the object it builds (heapq.Sort: q := NewWithData(rcmp, vs)): from then on the object
   works on the caller's array.  The capacity of f is tracked from the handover on, starting with
   an empty spare part, so that at every moment  f ++ f_spare  is the content of the len(vs)
   slots the function was given (element stores keep the length, go_reslice_cap moves elements
   between the two parts and forgets none; a new array for f (make) or an append is refused by
   the translator).  What the caller sees in vs afterwards: *)
Definition go_handback {A : Type} (l spare : list A) : list A := l ++ spare.

(* ---- an iterator that is only ranged over (translator/fn_rest.go) ----
   A parameter of type iter.Seq[T] on which the function does nothing but `for v := range it` is
   represented by the SEQUENCE OF VALUES the iterator yields: option (list T); None = the nil
   function value, whose call is Go's nil-dereference panic.  (An iterator is code: what else it
   might do while it yields is outside the representation, as for every callback.)  The loop runs
   over the list; a break or return leaves the rest unconsumed. *)
Definition go_seq {A : Type} (it : option (list A)) : res (list A) :=
  match it with Some l => Ok l | None => Panic PNil end.
