(* Every Extract/*.v also extracts [base_types], so that each extracted module defines nat,
   positive, N and Z (the shared OCaml glue converts to and from all four). *)
From Coq Require Import NArith ZArith.
Definition base_types : nat * positive * N * Z := (O, xH, N0, Z0).
