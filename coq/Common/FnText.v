(* Run-time library of the function-level translator for Go code that produces and reads TEXT
   (translator/fn_heap_text*.go; entries of anchors.d/fn.json with a directive std:...):
   strings, decimal numerals, fmt's formatted output, error values, nil-able pointers to values
   that are never changed through the pointer.

   - string                     -> list Z (its bytes), as in FnRt.v; a literal is [go_str "..."]
   - strconv.Itoa(n), %d        -> [go_itoa n] (the decimal numeral; '-' for negative numbers)
   - fmt.Sprintf / Fprintf / Fprint / Fprintln with a LITERAL format: the translator splits the
     format at translation time into the pieces below (literal text, %d, %s, %v of ints and
     strings); [go_sprint] renders them.  Any other verb, flag or operand type is refused (lost).
   - error                      -> [go_xerr] = option go_xerrv; None is nil.  A value is
       XVar "pkg.name"   a package-level error variable (io.EOF, errUnexpectedPrefix): identity = name
       XNew "msg"        errors.New("msg") evaluated at a call site (a fresh value)
       XFmt "format" args w   fmt.Errorf("format", args...): the LITERAL format, the operands of
                         the verbs %d %c (FInt) and %s %q %v (FStr / FInt) in order, and the operand
                         of %w (None: no %w, or a nil operand)
       XExt code         an error made by a function outside the translated code (strconv.Atoi,
                         time.Parse, a reader): opaque
     `err == nil`, `err == io.EOF` (comparison with a package-level variable), errors.Is(err, v).
     The text of a message (Error()) is not modelled: nothing in the translated code reads it.
   - *T for T a string or a struct whose fields are never assigned through a pointer (directive
     optptr:T) -> option T, None = nil; *p and p.f through nil are Go's nil-dereference panic
     ([go_deref] of FnRt.v). *)
From Coq Require Import ZArith List Bool Ascii.
Require Coq.Strings.String.
From Mds Require Import Common.FnRt.
Import ListNotations.
Local Open Scope Z_scope.

(* ---- string literals ---- *)
Definition go_str (s : String.string) : list Z :=
  map (fun a => Z.of_N (N_of_ascii a)) (String.list_ascii_of_string s).
Arguments go_str s%string.

(* cmp.Or(a, b) on strings: the first operand that is not the zero value *)
Definition go_or_str (a b : list Z) : list Z := match a with [] => b | _ => a end.

(* ---- decimal numerals: strconv.Itoa, fmt's %d ----
   Most significant digit first, built from the least significant end; [fuel] steps are enough
   for n < 2^fuel. *)
Fixpoint go_itoa_loop (fuel : nat) (n : Z) (acc : list Z) : list Z :=
  match fuel with
  | O => acc
  | S f =>
    let acc' := (48 + n mod 10) :: acc in
    if n / 10 =? 0 then acc' else go_itoa_loop f (n / 10) acc'
  end.
Definition go_itoa_nat (n : Z) : list Z := go_itoa_loop (S (Z.to_nat (Z.log2 n))) n [].
Definition go_itoa (n : Z) : list Z := if n <? 0 then 45 :: go_itoa_nat (- n) else go_itoa_nat n.

(* ---- formatted output ---- *)
Inductive go_fval :=
| FInt (z : Z)            (* the operand of %d / %c / %v: an integer *)
| FStr (s : list Z).      (* literal text of the format, or the operand of %s / %q / %v: a string *)

Definition go_fval_text (v : go_fval) : list Z :=
  match v with FInt z => go_itoa z | FStr s => s end.

(* the text fmt.Sprintf / Fprintf / Fprint / Fprintln produce for the pieces (verbs %d %s %v only) *)
Definition go_sprint (vs : list go_fval) : list Z := flat_map go_fval_text vs.

(* ---- error values ---- *)
Inductive go_xerrv : Type :=
| XVar (name : String.string)
| XNew (msg : String.string)
| XFmt (format : String.string) (args : list go_fval) (w : option go_xerrv)
| XExt (code : Z).
Arguments XVar name%string.
Arguments XNew msg%string.
Arguments XFmt format%string args w.

Definition go_xerr : Type := option go_xerrv.

(* err == nil *)
Definition go_xerr_isnil (e : go_xerr) : bool := match e with None => true | Some _ => false end.

(* err == v for a package-level error variable v: the very value of that variable *)
Definition go_xerr_isvar (e : go_xerr) (name : String.string) : bool :=
  match e with Some (XVar n) => String.eqb n name | _ => false end.
Arguments go_xerr_isvar e name%string.

(* errors.Is(err, v) for a package-level error variable v: err or something it wraps (%w) is v *)
Fixpoint go_xerrv_is (e : go_xerrv) (name : String.string) : bool :=
  match e with
  | XVar n => String.eqb n name
  | XFmt _ _ (Some w) => go_xerrv_is w name
  | _ => false
  end.
Definition go_xerr_is (e : go_xerr) (name : String.string) : bool :=
  match e with Some v => go_xerrv_is v name | None => false end.
Arguments go_xerr_is e name%string.

(* ---- nil-able pointers to values ---- *)
Definition go_onil {A : Type} (p : option A) : bool := match p with None => true | Some _ => false end.
