(* Run-time library of the HEAP BACKEND of the function-level translator (translator/fn_heap*.go):
   Go code that builds and mutates pointer-linked structures.

   - a struct type S whose values are allocated with new(S) / &S{...} and changed through pointers
     (directive heap:S of the anchors entry) becomes a Record S generated from the type
     declaration; its values live in a heap [h : list S]: allocation appends, the address of a
     cell is its index, so addresses are never reused and never dangle in a heap that only grows;
   - *S is [option nat]: [None] is nil, [Some a] is address a;
   - p.f is [go_hget] followed by the projection, p.f = e is [go_hmod] with the rebuilt record;
     a nil pointer is Go's run-time panic [PNil]; an address outside the heap cannot occur in Go
     and is the distinguished result [Panic PDangling] (never a normal-looking default);
   - p == q is [go_peq] (address comparison), p == nil is [go_pnil];
   - the heap is an argument of every generated function that reads it and is returned (last
     component of the result) by every function that changes it. *)
From Coq Require Import ZArith List Bool Arith Lia.
From Mds Require Import Common.FnRt.
Import ListNotations.

Definition PDangling : panic_kind := PMsg "<fnrt> address outside the heap".

(* p.f (the whole cell; the generated code projects the field) *)
Definition go_hget {C : Type} (h : list C) (p : option nat) : res C :=
  match p with
  | None => Panic PNil
  | Some a => match nth_error h a with Some c => Ok c | None => Panic PDangling end
  end.

(* p.f = e: the cell at p replaced by f applied to it *)
Definition go_hmod {C : Type} (h : list C) (p : option nat) (f : C -> C) : res (list C) :=
  match p with
  | None => Panic PNil
  | Some a => match nth_error h a with Some c => Ok (upd h a (f c)) | None => Panic PDangling end
  end.

(* new(S), &S{...}: the new cell is appended; its address is the old size of the heap *)
Definition go_hnew {C : Type} (h : list C) (c : C) : option nat * list C :=
  (Some (length h), h ++ [c]).

Definition go_pnil (p : option nat) : bool :=
  match p with None => true | Some _ => false end.

Definition go_peq (p q : option nat) : bool :=
  match p, q with
  | None, None => true
  | Some a, Some b => Nat.eqb a b
  | _, _ => false
  end.

(* ---- facts ---- *)
Lemma go_peq_spec p q : go_peq p q = true <-> p = q.
Proof.
  destruct p as [a|], q as [b|]; simpl; split; intros H; try discriminate; try reflexivity.
  - apply Nat.eqb_eq in H. subst. reflexivity.
  - inversion H. apply Nat.eqb_refl.
Qed.

Lemma go_peq_refl p : go_peq p p = true.
Proof. apply go_peq_spec. reflexivity. Qed.

Lemma go_pnil_spec p : go_pnil p = true <-> p = None.
Proof. destruct p; simpl; split; intros H; try discriminate; reflexivity. Qed.

Lemma hupd_length {C} (l : list C) n x : length (upd l n x) = length l.
Proof. revert n; induction l; destruct n; simpl; auto. Qed.

Lemma go_hmod_length {C} (h h' : list C) p f : go_hmod h p f = Ok h' -> length h' = length h.
Proof.
  unfold go_hmod. destruct p as [a|]; [|discriminate].
  destruct (nth_error h a); [|discriminate]. intros H; inversion H. apply hupd_length.
Qed.

Lemma hupd_map {A B} (g : A -> B) (l : list A) n x : map g (upd l n x) = upd (map g l) n (g x).
Proof. revert n; induction l; destruct n; simpl; auto; f_equal; auto. Qed.

Lemma hupd_firstn_skipn {C} (l : list C) n x :
  n < length l -> upd l n x = firstn n l ++ x :: skipn (S n) l.
Proof.
  revert n; induction l; intros n H; simpl in H; [lia|].
  destruct n; simpl; [reflexivity|]. f_equal. apply IHl. lia.
Qed.

(* ---- methods whose receiver pointer may be nil ----
   A method on a VALUE struct (receiver-field convention) that compares its receiver with nil, or
   calls such a method on it, takes the flag "the receiver pointer is nil" as its first argument;
   every access to a field of the receiver is preceded by [go_rcv]: Go's nil-dereference panic. *)
Definition go_rcv (isnil : bool) : res unit := if isnil then Panic PNil else Ok tt.
