(* Run-time library of the HEAP BACKEND of the function-level translator (translator/fn_heap*.go):
   Go code that builds and mutates pointer-linked structures.

   - a struct type S whose values are allocated with new(S) / &S{...} and changed through pointers
     (directive heap:S of the anchors entry) becomes a Record S generated from the type
     declaration; its values live in a heap [h : list S]: allocation appends, the address of a
     cell is its index, so addresses are never reused and never dangle in a heap that only grows;
   - *S is [option nat]: [None] is nil, [Some a] is address a;
   - p.f is [go_hget] followed by the projection, p.f = e is [go_hmod] with the rebuilt record;
     a nil pointer is Go's run-time panic [PNil]; an address outside the heap cannot occur in Go
     and is the distinguished result [Panic PDangling] (never a normal-looking default);
   - p == q is [go_peq] (address comparison), p == nil is [go_pnil];
   - the heap is an argument of every generated function that reads it and is returned (last
     component of the result) by every function that changes it. *)
From Coq Require Import ZArith List Bool Arith Lia.
From Mds Require Import Common.FnRt.
Import ListNotations.

Definition PDangling : panic_kind := PMsg "<fnrt> address outside the heap".

(* p.f (the whole cell; the generated code projects the field) *)
Definition go_hget {C : Type} (h : list C) (p : option nat) : res C :=
  match p with
  | None => Panic PNil
  | Some a => match nth_error h a with Some c => Ok c | None => Panic PDangling end
  end.

(* p.f = e: the cell at p replaced by f applied to it *)
Definition go_hmod {C : Type} (h : list C) (p : option nat) (f : C -> C) : res (list C) :=
  match p with
  | None => Panic PNil
  | Some a => match nth_error h a with Some c => Ok (upd h a (f c)) | None => Panic PDangling end
  end.

(* new(S), &S{...}: the new cell is appended; its address is the old size of the heap *)
Definition go_hnew {C : Type} (h : list C) (c : C) : option nat * list C :=
  (Some (length h), h ++ [c]).

Definition go_pnil (p : option nat) : bool :=
  match p with None => true | Some _ => false end.

Definition go_peq (p q : option nat) : bool :=
  match p, q with
  | None, None => true
  | Some a, Some b => Nat.eqb a b
  | _, _ => false
  end.

(* ---- facts ---- *)
Lemma go_peq_spec p q : go_peq p q = true <-> p = q.
Proof.
  destruct p as [a|], q as [b|]; simpl; split; intros H; try discriminate; try reflexivity.
  - apply Nat.eqb_eq in H. subst. reflexivity.
  - inversion H. apply Nat.eqb_refl.
Qed.

Lemma go_peq_refl p : go_peq p p = true.
Proof. apply go_peq_spec. reflexivity. Qed.

Lemma go_pnil_spec p : go_pnil p = true <-> p = None.
Proof. destruct p; simpl; split; intros H; try discriminate; reflexivity. Qed.

Lemma hupd_length {C} (l : list C) n x : length (upd l n x) = length l.
Proof. revert n; induction l; destruct n; simpl; auto. Qed.

Lemma go_hmod_length {C} (h h' : list C) p f : go_hmod h p f = Ok h' -> length h' = length h.
Proof.
  unfold go_hmod. destruct p as [a|]; [|discriminate].
  destruct (nth_error h a); [|discriminate]. intros H; inversion H. apply hupd_length.
Qed.

Lemma hupd_map {A B} (g : A -> B) (l : list A) n x : map g (upd l n x) = upd (map g l) n (g x).
Proof. revert n; induction l; destruct n; simpl; auto; f_equal; auto. Qed.

Lemma hupd_firstn_skipn {C} (l : list C) n x :
  n < length l -> upd l n x = firstn n l ++ x :: skipn (S n) l.
Proof.
  revert n; induction l; intros n H; simpl in H; [lia|].
  destruct n; simpl; [reflexivity|]. f_equal. apply IHl. lia.
Qed.

(* ---- methods whose receiver pointer may be nil ----
   A method on a VALUE struct (receiver-field convention) that compares its receiver with nil, or
   calls such a method on it, takes the flag "the receiver pointer is nil" as its first argument;
   every access to a field of the receiver is preceded by [go_rcv]: Go's nil-dereference panic. *)
Definition go_rcv (isnil : bool) : res unit := if isnil then Panic PNil else Ok tt.

(* ---- cells with OWNED slice fields and pointers into their elements (fn_heap_eptr.go) ----
   slice.At / slice.PtrAt of the module's package slice are built in: [go_index_check] is
   slice.indexCheck (negative offsets count from the end; GenTie/MdiffTieBase.v proves it equal to
   the function generated from slice.go), [go_at] is slice.At with its panic message.
   p := slice.PtrAt(O.F, i) is the INDEX of the element in the current value of O.F ([None] = nil),
   tied statically to the owner variable O and the field F:
     p.g      = do c <- go_hget h O; do e <- go_eget (S_F c) p; ... (E_g e)
     p.g = v  = the same reads, then [go_eset] and [go_hmod].
   An index outside the list cannot occur while the translator's discipline holds (the field is
   not assigned while the pointer is attached); it is the distinguished [Panic PDangling].
   [go_esnap]: the element a pointer designates, taken just before its owner's field is assigned
   ([None] for nil): later reads through the detached pointer use it.
   [go_apart]: the owners of two live element pointers must be different cells; the same cell is
   outside the representation: the distinguished [Panic PAliased]. *)
Definition go_index_check (i n : Z) : Z * bool :=
  let i := (if (i <? 0)%Z then (i + n)%Z else i) in
  (i, ((i >=? 0)%Z && (i <? n)%Z)).

Definition go_at {A : Type} (l : list A) (i : Z) : res A :=
  let '(b, ok) := go_index_check i (zlen l) in
  if negb ok then Panic (PMsg "index out of range") else go_get l b.

Definition go_ptrat {A : Type} (l : list A) (i : Z) : option Z :=
  let '(b, ok) := go_index_check i (zlen l) in
  if ok then Some b else None.

Definition go_eget {A : Type} (l : list A) (p : option Z) : res A :=
  match p with
  | None => Panic PNil
  | Some i => match go_get l i with Ok x => Ok x | _ => Panic PDangling end
  end.

Definition go_eset {A : Type} (l : list A) (p : option Z) (x : A) : res (list A) :=
  match p with
  | None => Panic PNil
  | Some i => match go_set l i x with Ok l' => Ok l' | _ => Panic PDangling end
  end.

Definition go_esnap {A : Type} (l : list A) (p : option Z) : res (option A) :=
  match p with
  | None => Ok None
  | Some i => match go_get l i with Ok x => Ok (Some x) | _ => Panic PDangling end
  end.

Definition PAliased : panic_kind := PMsg "<fnrt> two cells that hold live element pointers are the same cell".

Definition go_apart (p q : option nat) : res unit :=
  if go_peq p q then Panic PAliased else Ok tt.

(* ---- a *V result that is not always a fresh struct (translator/fn_heap_rest.go) ----
   A pointer to a value struct V is held by value: the pointer is the only reference to a fresh
   struct.  A function whose result of type *V is nil on some path (Tree.Cursor, Tree.Root), or
   the receiver pointer itself on some path (Cursor.Clone: `if !c.Valid() { return c }`), returns
   which of the three it is: *)
Inductive go_vres (V : Type) : Type :=
| VRecv            (* the receiver pointer itself (nil if the receiver was nil): the SAME object *)
| VNil             (* nil *)
| VNew (v : V).    (* a pointer to a fresh struct with this value *)
Arguments VRecv {V}.
Arguments VNil {V}.
Arguments VNew {V} v.
