(* C03 — stree.Cursor navigation is consistent with key order and tree structure.
   Only statements, each closed by [exact] of a lemma proved in Stree/CursorProofs.v.

   Vocabulary: CursorModel (the cursor operations, mirrored from stree/cursor.go; [CNil] the nil
   cursor, [CEmpty] a cursor with an empty path, [CAt p] a path of directions from the root),
   CursorSpec (a valid cursor is three indices lo <= ix < hi into the ascending key list Ls of its
   tree: its subtree holds Ls[lo..hi), its key is Ls[ix]; [move_spec], [follows], [obs_spec]),
   CursorProofs.abs (the indices of a model cursor), CursorProofs.wf ("the path is inside the tree
   and ends at a node"; trivially true of CNil and CEmpty), StreeSpec.sorted / s_get / total_preorder
   (the vocabulary of C01: strictly ascending list, lookup of the equivalent element, lawful
   comparison).

   Clone: in the functional model a cursor is a value, so C03_clone_value can only say that the
   clone is at the same place.  That later moves of one do not affect the other is a fact about the
   STORE; C03_clone_independent states it on the store model of Stree/CursorHeap.v (paths as Go
   slices over backing arrays), and the correspondence runs re-read every cursor (its real path,
   off the node pointers) after every move of any other. *)
From Coq Require Import ZArith List Lia.
Import ListNotations.
From Mds Require Import Stree.StreeModel Stree.StreeSpec Stree.StreeProofsSet Stree.CursorModel Stree.CursorSpec
  Stree.CursorProofs Stree.CursorProofsOrder Stree.CursorHeap Stree.CursorHeapProofs.

(* Every history of Next/Prev/Left/Right/Up/Min/Max, from any cursor inside any tree (ordering is
   not needed: these are facts about positions), for any zero key: no panic, no fuel exhaustion,
   every path stays inside the tree (wf), the sequence of positions is one the reference allows —
   Next/Prev move the index by exactly one and become invalid exactly past the ends, Left/Right
   restrict the subtree's range to the part below/above the key (invalid iff that part is empty),
   Up reaches the key adjacent to the range, Min/Max its two ends, an invalid cursor stays as it
   is — and at the start and after every move Valid, Key, HasNext, HasPrev, HasLeft, HasRight,
   HasParent and Inorder answer what the reference position says (in particular Key = Ls[ix],
   HasNext/HasPrev predict Next/Prev, Inorder = Ls[lo..hi), and an invalid cursor reports the zero
   key, false everywhere and an empty Inorder). *)
Theorem C03_history : forall (T : Type) (zero : T) (t : tree T) (c : cursor) (ms : list move),
  wf T t c ->
  exists cs, run t c ms = Ok cs /\
             follows (length (inorder t)) (abs T t c) ms (map (abs T t) cs) /\
             Forall (observed T zero t) (c :: cs).
Proof. exact history_spec. Qed.
Print Assumptions C03_history.

(* the positions alone (the first registered form; kept as the statement without observers) *)
Theorem C03_moves : forall (T : Type) (t : tree T) (c : cursor) (ms : list move),
  wf T t c ->
  exists cs, run t c ms = Ok cs /\ Forall (wf T t) cs /\
             follows (length (inorder t)) (abs T t c) ms (map (abs T t) cs).
Proof. intros T t c ms. exact (run_spec T ms t c). Qed.
Print Assumptions C03_moves.

(* Inorder with a consumer that may stop (yield returning false), for any consumer: it is fed, in
   order, exactly the keys the full Inorder lists (C03_history: Ls[lo..hi)), until it stops
   ([list_until]: feed a list to a stateful consumer until it returns false). *)
Theorem C03_inorder_stop : forall (T S : Type) (f : S -> T -> S * bool) (s : S) (t : tree T) (c : cursor),
  wf T t c ->
  exists ys, cinorder_all t c = Ok ys /\ cinorder t c f s = Ok (fst (list_until T S f ys s)).
Proof. exact cinorder_stop. Qed.
Print Assumptions C03_inorder_stop.

(* Tree.Cursor(k), for every lawful comparison and every search tree: it is valid exactly when the
   tree holds a key equivalent to k, it then lies inside the tree and Key is that stored
   representative (the one Get returns); for an absent key it is the nil cursor. *)
Theorem C03_cursor_lookup : forall (T : Type) (zero : T) (cmp : T -> T -> Z),
  total_preorder cmp -> forall (k : T) (t : tree T), sorted cmp (inorder t) ->
  exists c, tree_cursor cmp t k = Ok c /\ wf T t c /\
    match s_get cmp k (inorder t) with
    | Some x => valid c = true /\ key zero t c = Ok x
    | None => c = CNil
    end.
Proof. exact tree_cursor_spec. Qed.
Print Assumptions C03_cursor_lookup.

(* Tree.Root(): nil for the empty tree, otherwise a cursor inside the tree whose subtree is all of Ls *)
Theorem C03_root : forall (T : Type) (t : tree T),
  wf T t (tree_root t) /\
  match inorder t with
  | [] => tree_root t = CNil
  | _ :: _ => exists b, abs T t (tree_root t) = Some b /\ lo b = 0%nat /\ hi b = length (inorder t)
  end.
Proof. exact root_spec. Qed.
Print Assumptions C03_root.

(* In a search tree, from a valid cursor with key x: Left and Right succeed without panic, stay
   inside the tree, and every key Inorder then lists is smaller (Left) resp. larger (Right) than x
   (an invalid result lists nothing). *)
Theorem C03_left_right_ordered : forall (T : Type) (zero : T) (cmp : T -> T -> Z),
  forall (t : tree T) (c : cursor) (x : T), sorted cmp (inorder t) -> wf T t c -> valid c = true ->
  key zero t c = Ok x ->
  exists cl cr ysl ysr,
    left t c = Ok cl /\ right t c = Ok cr /\ wf T t cl /\ wf T t cr /\
    cinorder_all t cl = Ok ysl /\ cinorder_all t cr = Ok ysr /\
    (forall y, In y ysl -> cmp y x < 0)%Z /\ (forall y, In y ysr -> cmp x y < 0)%Z.
Proof. exact left_right_ordered. Qed.
Print Assumptions C03_left_right_ordered.

(* Next in the words of the property text.  In a search tree under a lawful comparison, from a
   valid cursor with key x: Next does not fail and stays inside the tree; HasNext answers exactly
   whether the cursor is still valid after Next; if it is, its key y is a key of the tree, greater
   than x, and not above any other key greater than x (the next larger key of the set); if it is
   not, no key of the tree is greater than x. *)
Theorem C03_next_successor : forall (T : Type) (cmp : T -> T -> Z), total_preorder cmp ->
  forall (zero : T) (t : tree T) (c : cursor) (x : T),
  sorted cmp (inorder t) -> wf T t c -> valid c = true -> key zero t c = Ok x ->
  exists c', next t c = Ok c' /\ wf T t c' /\ has_next t c = Ok (valid c') /\
    if valid c'
    then exists y, key zero t c' = Ok y /\ In y (inorder t) /\ (cmp x y < 0)%Z /\
                   (forall z, In z (inorder t) -> (cmp x z < 0)%Z -> (cmp y z <= 0)%Z)
    else forall z, In z (inorder t) -> (cmp z x <= 0)%Z.
Proof. exact next_successor. Qed.
Print Assumptions C03_next_successor.

(* Prev: the next smaller key, HasPrev predicting it, invalid exactly at the least key *)
Theorem C03_prev_predecessor : forall (T : Type) (cmp : T -> T -> Z), total_preorder cmp ->
  forall (zero : T) (t : tree T) (c : cursor) (x : T),
  sorted cmp (inorder t) -> wf T t c -> valid c = true -> key zero t c = Ok x ->
  exists c', prev t c = Ok c' /\ wf T t c' /\ has_prev t c = Ok (valid c') /\
    if valid c'
    then exists y, key zero t c' = Ok y /\ In y (inorder t) /\ (cmp y x < 0)%Z /\
                   (forall z, In z (inorder t) -> (cmp z x < 0)%Z -> (cmp z y <= 0)%Z)
    else forall z, In z (inorder t) -> (cmp x z <= 0)%Z.
Proof. exact prev_predecessor. Qed.
Print Assumptions C03_prev_predecessor.

(* "All tree shapes reachable by operation histories": every tree of every state that any history
   of New (any balance factor, any initial keys) / Add / Replace / Remove / Clear / Clone of the
   C01 tree model reaches, under any depth-limit function, is a search tree — the hypothesis
   [sorted cmp (inorder t)] of the theorems above and below.  (The navigation theorems
   C03_history/C03_inorder_stop/C03_root/C03_invalid_identity need no hypothesis on the tree.) *)
Theorem C03_reachable_sorted : forall (T : Type) (cmp : T -> T -> Z), total_preorder cmp ->
  forall (limit : Z -> Z -> Z) (ops : list (StreeModel.op T)),
  Forall (fun tr => sorted cmp (inorder (root tr))) (exec_from cmp limit [] ops).
Proof. exact reachable_sorted. Qed.
Print Assumptions C03_reachable_sorted.

(* Operations on an invalid or nil cursor: every move returns the cursor unchanged, Clone returns
   it, Key is the zero key, every Has* is false, Inorder yields nothing — in any tree. *)
Theorem C03_invalid_identity : forall (T : Type) (zero : T) (t : tree T) (c : cursor) (m : move),
  valid c = false ->
  step t c m = Ok c /\ clone c = c /\
  observe zero t c = Ok (mkObs false zero false false false false false []).
Proof. exact invalid_identity. Qed.
Print Assumptions C03_invalid_identity.

(* Clone points to the same location (as a value the clone is the original's path) *)
Theorem C03_clone_value : forall c : cursor, clone c = c.
Proof. exact clone_same. Qed.
Print Assumptions C03_clone_value.

(* "A Clone moves independently" (and every other way two cursors could influence one another).
   CursorHeap.v models the STORE: cursors are heap objects, a path is a Go slice (backing array,
   length, capacity) of node addresses; append writes into the array while there is capacity and
   otherwise allocates one whose capacity an oracle [grow] chooses; Next/Prev/Left/Right/Min/Max
   append, Next/Prev/Up reslice, invalidation stores nil; Tree.Cursor appends to a nil slice, Root
   is a one-element literal; Clone returns the receiver itself when it is invalid and otherwise a
   new object whose path is slices.Clone of the original's (a new array) — [hrun_go] takes that from
   the source (Gen/CursorStore.v: Cursor.Clone calls slices.Clone once).  Registers hold *Cursor
   pointers.  After every operation every register is READ BACK from the arrays, every entry of
   its slice (a chain that is not root ... node reads as a failure).
   For every capacity oracle, tree, comparison, number of registers and history of
   Tree.Cursor(k) / Root / nil / new(Cursor) / Clone from one register into another / any of the
   seven moves on any register: what the store shows after every operation is exactly what the
   machine with cursors as VALUES shows ([vrun]: registers are independent by construction, Clone
   is the copy of a value) — failures included.  So moving a clone never changes its original,
   moving the original never changes the clone, whatever else was cloned or moved before. *)
Theorem C03_clone_independent : forall (grow : nat -> nat -> nat) (T : Type) (cmp : T -> T -> Z) (t : tree T)
  (n : nat) (ops : list (hop T)),
  hrun_go grow T cmp t n ops = vrun T cmp t (repeat CNil n) ops.
Proof. exact heap_independent. Qed.
Print Assumptions C03_clone_independent.

(* ---- the hypotheses are satisfiable by non-trivial states, and the model computes *)
Definition ex_tree : tree Z := Node (Node Leaf 1%Z (Node Leaf 2%Z Leaf)) 3%Z (Node Leaf 4%Z Leaf).

Example C03_history_example :
  wf Z ex_tree (CAt [L; R]) /\
  run ex_tree (CAt [L; R]) [MNext; MNext; MNext; MPrev; MUp; MMin; MRight; MLeft] =
    Ok [CAt []; CAt [R]; CEmpty; CEmpty; CEmpty; CEmpty; CEmpty; CEmpty] /\
  run ex_tree (CAt []) [MMin; MNext; MUp; MUp; MMax; MPrev; MLeft; MUp] =
    Ok [CAt [L]; CAt [L; R]; CAt [L]; CAt []; CAt [R]; CAt []; CAt [L]; CAt []] /\
  abs Z ex_tree (CAt [L; R]) = Some (mkPos 1 1 2) /\
  observe 0%Z ex_tree (CAt [L]) = Ok (mkObs true 1%Z true false false true true [1%Z; 2%Z]).
Proof. vm_compute. repeat split; reflexivity. Qed.

Example C03_moves_example : exists cs, run ex_tree (CAt [R]) [MPrev; MLeft; MRight] = Ok cs /\ length cs = 3%nat.
Proof. eexists. split; [vm_compute; reflexivity|reflexivity]. Qed.

Lemma zsub_preorder : total_preorder Z.sub.
Proof. split; intros; lia. Qed.

Lemma ex_tree_sorted : sorted Z.sub (inorder ex_tree).
Proof. cbn. repeat split; intros y Hy; cbn in Hy; intuition (subst; reflexivity). Qed.

Example C03_cursor_lookup_example :
  total_preorder Z.sub /\ sorted Z.sub (inorder ex_tree) /\
  tree_cursor Z.sub ex_tree 2%Z = Ok (CAt [L; R]) /\ s_get Z.sub 2%Z (inorder ex_tree) = Some 2%Z /\
  tree_cursor Z.sub ex_tree 5%Z = Ok CNil /\ s_get Z.sub 5%Z (inorder ex_tree) = None.
Proof. split; [exact zsub_preorder|]. split; [exact ex_tree_sorted|]. vm_compute. repeat split; reflexivity. Qed.

Example C03_root_example : tree_root ex_tree = CAt [] /\ abs Z ex_tree (tree_root ex_tree) = Some (mkPos 0 2 4).
Proof. vm_compute. split; reflexivity. Qed.

Example C03_left_right_ordered_example :
  valid (CAt [L]) = true /\ key 0%Z ex_tree (CAt [L]) = Ok 1%Z /\
  left ex_tree (CAt [L]) = Ok CEmpty /\ right ex_tree (CAt [L]) = Ok (CAt [L; R]) /\
  cinorder_all ex_tree (CAt [L; R]) = Ok [2%Z].
Proof. vm_compute. repeat split; reflexivity. Qed.

Example C03_invalid_identity_example :
  valid CNil = false /\ valid CEmpty = false /\ step ex_tree CEmpty MNext = Ok CEmpty /\
  up (CAt []) = Ok CEmpty /\ next ex_tree (CAt [R]) = Ok CEmpty.
Proof. vm_compute. repeat split; reflexivity. Qed.

Example C03_clone_value_example : clone (CAt [L; R]) = CAt [L; R] /\ clone CNil = CNil.
Proof. vm_compute. split; reflexivity. Qed.

Example C03_inorder_stop_example :
  cinorder ex_tree (CAt []) (fun (acc : list Z) x => (x :: acc, Nat.ltb (length acc) 1)) [] = Ok [2%Z; 1%Z].
Proof. vm_compute. reflexivity. Qed.

Example C03_next_successor_example :
  next ex_tree (CAt [L; R]) = Ok (CAt []) /\ has_next ex_tree (CAt [L; R]) = Ok true /\ key 0%Z ex_tree (CAt []) = Ok 3%Z /\
  next ex_tree (CAt [R]) = Ok CEmpty /\ has_next ex_tree (CAt [R]) = Ok false.
Proof. vm_compute. repeat split; reflexivity. Qed.

Example C03_prev_predecessor_example :
  prev ex_tree (CAt [R]) = Ok (CAt []) /\ has_prev ex_tree (CAt [R]) = Ok true /\
  prev ex_tree (CAt [L]) = Ok CEmpty /\ has_prev ex_tree (CAt [L]) = Ok false.
Proof. vm_compute. repeat split; reflexivity. Qed.

(* a history that builds a 5-key vine at beta = 1000 (no rebalancing), removes a key with two
   children and replaces one: the reached tree, and it is sorted *)
Example C03_reachable_sorted_example :
  map (fun tr => inorder (root tr))
      (exec_from Z.sub (fun _ n => n + 1)%Z []
         [ONew 1000 [] []; OAdd 0 1; OAdd 0 5; OAdd 0 3; OAdd 0 4; OAdd 0 2; ORemove 0 3; OReplace 0 5]%Z)
  = [[1; 2; 4; 5]%Z].
Proof. vm_compute. reflexivity. Qed.

(* clone, move the original up and down the other branch, then the clone by two Next; Root, Min,
   Up twice (invalid), clone of the invalid cursor, Next on it: the store shows the values *)
Definition ex_t3 : tree Z := Node (Node Leaf 10%Z Leaf) 20%Z (Node Leaf 30%Z Leaf).
Definition ex_hops : list (hop Z) :=
  [HK 0 10%Z; HC 0 1; HM 0 MUp; HM 0 MRight; HM 1 MNext; HM 1 MNext; HO 2; HM 2 MMin; HM 2 MUp; HM 2 MUp; HC 2 3; HM 3 MNext].

Example C03_clone_independent_example :
  hrun_go (fun _ n => n) Z Z.sub ex_t3 4 ex_hops =
  [Ok [CAt [L]; CNil; CNil; CNil]; Ok [CAt [L]; CAt [L]; CNil; CNil]; Ok [CAt []; CAt [L]; CNil; CNil];
   Ok [CAt [R]; CAt [L]; CNil; CNil]; Ok [CAt [R]; CAt []; CNil; CNil]; Ok [CAt [R]; CAt [R]; CNil; CNil];
   Ok [CAt [R]; CAt [R]; CAt []; CNil]; Ok [CAt [R]; CAt [R]; CAt [L]; CNil]; Ok [CAt [R]; CAt [R]; CAt []; CNil];
   Ok [CAt [R]; CAt [R]; CEmpty; CNil]; Ok [CAt [R]; CAt [R]; CEmpty; CEmpty]; Ok [CAt [R]; CAt [R]; CEmpty; CEmpty]].
Proof. vm_compute. reflexivity. Qed.

(* The store model tells the difference: were Clone to keep the original's array (slices.Clip, or the
   slice itself), the clone in register 1 reads [R] after the ORIGINAL went Up and Right. *)
Example C03_clone_sharing_shows :
  nth 3 (hrun (fun _ n => n) false Z Z.sub ex_t3 (empty_heap, repeat None 4) ex_hops) Panic
    = Ok [CAt [R]; CAt [R]; CNil; CNil] /\
  nth 3 (vrun Z Z.sub ex_t3 (repeat CNil 4) ex_hops) Panic = Ok [CAt [R]; CAt [L]; CNil; CNil].
Proof. vm_compute. split; reflexivity. Qed.
