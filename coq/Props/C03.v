(* C03 — stree.Cursor navigation is consistent with key order and tree structure.
   Only statements, each closed by [exact] of a lemma proved in Stree/CursorProofs.v.

   Vocabulary: CursorModel (the cursor operations, mirrored from stree/cursor.go), CursorSpec (a
   valid cursor is three indices lo <= ix < hi into the ascending key list of its tree: its subtree
   holds Ls[lo..hi), its key is Ls[ix]; [move_spec], [obs_spec]), CursorProofs.abs (the indices of
   a model cursor), CursorProofs.wf ("the path is inside the tree and ends at a node"). *)
From Coq Require Import ZArith List.
Import ListNotations.
From Mds Require Import Stree.StreeModel Stree.CursorModel Stree.CursorSpec Stree.CursorProofs.

(* Every history of Next/Prev/Left/Right/Up/Min/Max, from any cursor inside any tree (no ordering
   needed: these are facts about positions): no panic, no fuel exhaustion, the path stays inside
   the tree, and the sequence of positions is one the reference allows — Next/Prev move the index
   by exactly one and become invalid exactly past the ends, Left/Right restrict the subtree's range
   to the part below/above the key (invalid iff that part is empty), Up reaches the key adjacent to
   the range, Min/Max its two ends; an invalid cursor stays as it is. *)
Theorem C03_moves : forall (T : Type) (t : tree T) (c : cursor) (ms : list move),
  wf T t c ->
  exists cs, run t c ms = Ok cs /\ Forall (wf T t) cs /\
             follows (length (inorder t)) (abs T t c) ms (map (abs T t) cs).
Proof. intros T t c ms. exact (run_spec T ms t c). Qed.
Print Assumptions C03_moves.

Example C03_moves_example :
  let t := Node (Node Leaf 1%Z (Node Leaf 2%Z Leaf)) 3%Z (Node Leaf 4%Z Leaf) in
  wf Z t (CAt [L; R]) /\
  run t (CAt [L; R]) [MNext; MNext; MNext; MPrev; MUp; MMin; MRight; MLeft] =
    Ok [CAt []; CAt [R]; CEmpty; CEmpty; CEmpty; CEmpty; CEmpty; CEmpty] /\
  run t (CAt []) [MMin; MNext; MUp; MUp; MMax; MPrev; MLeft; MUp] =
    Ok [CAt [L]; CAt [L; R]; CAt [L]; CAt []; CAt [R]; CAt []; CAt [L]; CAt []].
Proof. vm_compute. repeat split; reflexivity. Qed.
