(* C07 at source level, second round: Props/C07_source.v extended by the functions tied in round 6
   (GenTie/QueueTieRest.v): Queue.Slice as an operation of histories, New / NewSize(k) as the
   GENERATED start states.  Only statements; proofs in GenTie/QueueSource2.v.

   [ginit zero i]        the start state: IZero -> the zero value `var q Queue[T]` (no constructor
                         runs); INew -> the fields the generated New returns; ISize k -> the fields
                         the generated NewSize k returns (make's panic for k < 0 = Panic PMake);
   [gstep2 zero R q o]   = [gstep] of Props/C07_source.v, except OSlice = the generated Slice on the
                         three fields with fuel n + 1, output RList;
   [grun2_init zero R i ops]   the outputs of a history from [ginit i] (a failing constructor is
                         the single output).
   COVERED: every constructor and every method of queue.go except Each as an operation: New,
   NewSize, Add, Push, Pop, PopLast, Peek, Clear, Len, IsEmpty, Front, Slice.
   NOT COVERED: OEach m (the generated Each takes a PURE callback and returns unit; Each is
   covered per reachable state by C07_each_peek_source); nil-ness of Slice's result (`return nil`
   and an empty make are both []); the 64-bit width; append's choice of capacity (oracle). *)
From Coq Require Import ZArith List Bool Lia.
Import ListNotations.
Set Warnings "-notation-overridden".
From Mds Require Import Common.FnRt Gen.FnQueue.
From Mds Require Import Queue.QueueModel Queue.QueueSpec.
From Mds Require Import GenTie.QueueSource GenTie.QueueSource2.
Local Open Scope Z_scope.

(* For every element type, every initial configuration (zero value, New(), NewSize(k) with
   k >= 0) built by the GENERATED constructor, every history of Add, Push, Pop, PopLast, Clear,
   Len, IsEmpty, Front, Peek k, Slice and every choice of growth capacities that respects append's
   contract: the constructor succeeds and every output of the generated functions equals the
   output of the plain-list reference; no call panics, no loop of the generated slice.Rotate or
   Slice runs out of fuel.  The hypotheses are those of C07_history, plus "no OEach". *)
Theorem C07_history_source_full : forall (T : Type) (zero : T) (i : init) (ops : list (op T)),
  init_ok i -> forallb src_op2 ops = true -> oracles_ok T (init_cap i) 0 ops ->
  grun2_init zero rot_src i ops = map Ok (spec_run T zero [] ops).
Proof. exact @history_source_full. Qed.
Print Assumptions C07_history_source_full.

(* the history of C07_history_ex from the generated NewSize(3), with its Slice (not its Each);
   from the generated New: Slice of the empty queue, growth 0 -> 1 -> 2 -> 4, Push in front *)
Example C07_history_source_full_ex :
  let ops := [OPush 1 0; OAdd 2 0; OAdd 3 0; OPush 4 7; OLen; OPeek (-1); OPeek (-5); OPopLast;
              OAdd 5 0; OPop; OFront; OSlice; OIsEmpty; OClear; OSlice] in
  (init_ok (ISize 3) /\ forallb src_op2 ops = true /\ oracles_ok Z (init_cap (ISize 3)) 0 ops) /\
  ginit 0 (ISize 3) = Ok {| vs := [0; 0; 0]; head := 0; n := 0 |} /\
  grun2_init 0 rot_src (ISize 3) ops =
    [Ok RUnit; Ok RUnit; Ok RUnit; Ok RUnit; Ok (RInt 4); Ok (RVal 3 true); Ok (RVal 0 false);
     Ok (RVal 3 true); Ok RUnit; Ok (RVal 4 true); Ok (RElem 1); Ok (RList [1; 2; 5]);
     Ok (RBool false); Ok RUnit; Ok (RList [])] /\
  grun2_init 0 rot_src INew [OSlice; OAdd 1 1; OAdd 2 2; OPush 3 4; OSlice] =
    [Ok (RList []); Ok RUnit; Ok RUnit; Ok RUnit; Ok (RList [3; 1; 2])].
Proof. cbv zeta. split; [split; [cbn; lia|split; [reflexivity|cbn; lia]]|]. repeat split; vm_compute; reflexivity. Qed.

(* NewSize with a negative size: the generated constructor answers make's panic (and nothing
   else happens), as C07_history's model does. *)
Theorem C07_newsize_negative_source : forall (T : Type) (zero : T) (k : Z) (ops : list (op T)), k < 0 ->
  grun2_init zero rot_src (ISize k) ops = [Panic PMake].
Proof. exact @newsize_negative_source. Qed.
Print Assumptions C07_newsize_negative_source.
Example C07_newsize_negative_source_ex : grun2_init 0 rot_src (ISize (-1)) [OSlice] = [Panic PMake].
Proof. vm_compute. reflexivity. Qed.

(* One step, for EVERY state and every verdict, now including Slice: with slice.Rotate
   instantiated by the model's rotate_go the generated step IS the model's step; and the
   generated constructors ARE the model's, panic included. *)
Theorem C07_step_is_source_full : forall (T : Type) (zero : T) (q : queue T) (o : op T), src_op2 o = true ->
  gstep2 zero QueueTieBase.rot q o = QueueTieBase.embf (fun x => x) (step idw T zero q o).
Proof. exact @gstep2_is_step. Qed.
Print Assumptions C07_step_is_source_full.
Example C07_step_is_source_full_ex :
  gstep2 0 QueueTieBase.rot {| vs := [7; 8; 9]; head := 2; n := 3 |} OSlice
    = Ok ({| vs := [7; 8; 9]; head := 2; n := 3 |}, RList [9; 7; 8]) /\
  gstep2 0 QueueTieBase.rot {| vs := [7; 8; 9]; head := 3; n := 2 |} OSlice = Panic FnRt.PIndex.
Proof. repeat split; vm_compute; reflexivity. Qed.

Theorem C07_init_is_source : forall (T : Type) (zero : T) (i : init),
  ginit zero i = QueueTieBase.embf (fun x => x) (mk_init T zero i).
Proof. exact @ginit_is_init. Qed.
Print Assumptions C07_init_is_source.
Example C07_init_is_source_ex :
  ginit 0 INew = Ok (zero_queue Z) /\ ginit 0 (ISize 2) = Ok {| vs := [0; 0]; head := 0; n := 0 |}.
Proof. repeat split; vm_compute; reflexivity. Qed.
