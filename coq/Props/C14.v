(* C14 — mdiff text formats round-trip and mean what GNU diff/patch say they mean.
   Only statements, each closed by [exact] of a lemma proved elsewhere.

   Vocabulary (all in coq/Mdiff): [normal]/[unified]/[context] are the models of the formatters
   (bytes), [read_normal]/[read_unified]/[read_git_patch] of the readers; [normal_normalise] and
   [unified_normalise] (FormatSpec.v) say what "the same changes at the same line ranges" means
   for each format; [patch_ok L R cs] says that the chunk list cs describes how L becomes R
   (ranges consistent with the edits, gaps unchanged); [apply_normal]/[apply_unified]/
   [apply_context] (ApplySpec.v) are the reference appliers written from the diffutils manual, in
   their strict reading: besides placing and checking the old lines they demand that the numbers
   describing the NEW file are exactly where the new lines land ([apply_*_gen false] is the reading
   that ignores those numbers, as GNU patch does).
   The END-TO-END theorems at the bottom quantify over the two input files only: the chunk lists
   are the ones the package computes, New(lhs, rhs) and New(lhs, rhs).AddContext(n).Unify()
   (C13's model composed with C11's model of slice.EditScript). *)
From Coq Require Import NArith ZArith List Lia.
Import ListNotations.
From Mds Require Import Mdiff.Decimal Mdiff.ReaderModel Mdiff.FormatSpec Mdiff.ApplySpec Mdiff.FormatInst
  Mdiff.ReaderNormalProofs Mdiff.ApplyNormalProofs Mdiff.ReaderUnifiedProofs Mdiff.ApplyUnifiedProofs Mdiff.ApplyContextProofs Mdiff.ReaderGitProofs Mdiff.FormatPatchOk
  Mdiff.FormatRefuted Mdiff.FormatSkel Mdiff.MdiffModel Mdiff.MdiffSpec Mdiff.MdiffHistModel Mdiff.FormatEndToEnd Mdiff.FormatEndToEndHist.
Local Open Scope Z_scope.

(* every number the formatters print is read back by the model of strconv.Atoi *)
Theorem C14_itoa_atoi : forall n : Z, atoi (itoa n) = Some n.
Proof. exact itoa_atoi. Qed.
Print Assumptions C14_itoa_atoi.
Example C14_itoa_atoi_ex : itoa 1204 = [49; 50; 48; 52]%N /\ itoa (-7) = [45; 55]%N /\ atoi [43; 48; 57]%N = Some 9%Z.
Proof. vm_compute. auto. Qed.

(* strconv.Atoi itself ([atoi64]: a value an int cannot hold is an error) reads back every number
   an int holds *)
Theorem C14_itoa_atoi64 : forall n : Z, in_int64 n = true -> atoi64 (itoa n) = Some n.
Proof. exact itoa_atoi64. Qed.
Print Assumptions C14_itoa_atoi64.
Example C14_itoa_atoi64_ex :
  atoi64 (itoa 9223372036854775807) = Some 9223372036854775807 /\ atoi64 (itoa 9223372036854775808) = None
  /\ atoi64 (itoa (-9223372036854775808)) = Some (-9223372036854775808) /\ wrap64 (9223372036854775807 + 1) = -9223372036854775808.
Proof. vm_compute. auto. Qed.

(* a concrete diff used by the examples: Left = [a; b; c], Right = [a; x; c; y] *)
Definition ex_L : list line := [[97]; [98]; [99]]%N.
Definition ex_R : list line := [[97]; [120]; [99]; [121]]%N.
Definition ex_cs : list (chunk line) :=
  [mkChunk [mkEdit Replace [[98]%N] [[120]%N]] 2 3 2 3; mkChunk [mkEdit Copy [] [[121]%N]] 4 4 4 5].
Example ex_patch_ok : patch_ok ex_L ex_R ex_cs /\ normal_ok ex_cs /\ lines_nf ex_cs.
Proof.
  split; [|split].
  - unfold patch_ok, ex_cs, ex_L, ex_R.
    apply (cf_cons _ 1 1 [[97]%N] (mkChunk [mkEdit Replace [[98]%N] [[120]%N]] 2 3 2 3)
             [mkChunk [mkEdit Copy [] [[121]%N]] 4 4 4 5] ([[99]%N]) ([[99]%N; [121]%N])); try reflexivity.
    apply (cf_cons _ 3 3 [[99]%N] (mkChunk [mkEdit Copy [] [[121]%N]] 4 4 4 5) [] [] []); try reflexivity.
    apply (cf_nil _ 4 5 []).
  - repeat constructor; unfold fits; cbn; try lia; discriminate.
  - unfold lines_nf, ex_cs, chunk_lines_nf.
    repeat (apply Forall_cons || apply Forall_nil); unfold edit_lines_nf; cbn [eop X Y edits];
      repeat (apply Forall_cons || apply Forall_nil || split); unfold newline_free; cbn;
      intuition discriminate.
Qed.

(* ---- normal format (holds on the code as it stands; no variant involved) ---- *)

(* Read(Normal(chunks)) returns one chunk per change command at the same line ranges, for every
   chunk list whose change commands have lines to show, whose line numbers are positive and at
   most 2^61 ([normal_ok]; the reader model has strconv.Atoi's range error and Go's wrap-around
   int arithmetic, and no number exceeds an int on these lists) and whose lines are newline-free
   (any content otherwise: empty lines, lines starting with < > - --- digits ...). *)
Theorem C14_normal_roundtrip : forall cs : list (chunk line),
  normal_ok cs -> lines_nf cs -> read_normal (normal cs) = ROk (normal_normalise cs).
Proof. exact read_normal_normal. Qed.
Print Assumptions C14_normal_roundtrip.
Example C14_normal_roundtrip_ex :
  read_normal (normal ex_cs) = ROk ex_cs /\ normal_normalise ex_cs = ex_cs.
Proof. vm_compute. auto. Qed.

(* re-formatting the parsed patch reproduces the text byte for byte (every chunk list) *)
Theorem C14_normal_reformat : forall cs : list (chunk line), normal (normal_normalise cs) = normal cs.
Proof. exact normal_reformat. Qed.
Print Assumptions C14_normal_reformat.

(* the normal rendering, read by the rules of the normal format, turns Left into Right; strict
   reading: "LaR" must add exactly lines R of the new file, "FcT" must produce exactly lines T,
   "RdL" must delete where new line L is the last line before the deletion *)
Theorem C14_normal_apply : forall (L R : list line) (cs : list (chunk line)),
  patch_ok L R cs -> normal_ok cs -> lines_nf cs ->
  apply_normal L (split_lines (normal cs)) = Some R.
Proof. exact apply_normal_text. Qed.
Print Assumptions C14_normal_apply.
Example C14_normal_apply_ex : apply_normal ex_L (split_lines (normal ex_cs)) = Some ex_R.
Proof. vm_compute. reflexivity. Qed.

(* ---- unified format ----
   The model carries the two known findings as switches of a [variant]: [pinned] is the code as it
   stands (range spellings and the omitted-count default taken from Gen/MdiffSpan.v and
   Gen/MdiffReadSpan.v), [repaired] reads an omitted count as 1 (F5) and names an empty range by
   the line before it (F6).  Timestamps are opaque tokens: all that is assumed of them is
   parse (format t) = Some t for non-zero t, that the text has no newline, and that zero is one
   value.  File names: no tab, no newline ([info_ok]); empty names come back as "a" / "b"
   ([expected_info]); a diff without chunks is the empty text and reads back as the empty patch. *)

(* the generated definitions are the pinned ones (checked on a grid; breaks when uspan or
   parseSpan's default change) *)
Theorem C14_code_is_pinned : gen_facts_pinned = true.
Proof. exact code_is_pinned. Qed.
Print Assumptions C14_code_is_pinned.

(* the control skeleton the models transcribe by hand is the one of the source: for all 22
   functions of format.go and reader.go the regenerated statement skeleton (one hex digit per
   statement) equals the number the model was transcribed from; every switch has the labels, every
   writeLines call the marker and side, every loop and guard of the readers the condition the
   model has ([formatters_as_modelled], [readers_as_modelled] in Mdiff/FormatSkel.v); and the
   model's body-line switch (read_uchunk_body) and command switch (split_cmd) are, as functions,
   the switches that the regenerated case labels, operators and letters build
   ([switches_as_generated]).  A guard added inside a case, an early return, a reordered or
   dropped statement, a changed label breaks this theorem. *)
Theorem C14_skeleton_pinned :
  skeleton_of_source = skeleton_of_model /\ formatters_as_modelled /\ readers_as_modelled /\ switches_as_generated.
Proof. exact skeleton_pinned. Qed.
Print Assumptions C14_skeleton_pinned.
(* the body-line switch on a line "-- " (the deletion of a line whose text is "- ") and on "\ x" *)
Example C14_skeleton_pinned_ex :
  length skeleton_of_source = 22%nat /\
  read_uchunk_body [[45; 45; 32]; [32; 120]; [92; 32; 120]]%N [] =
    (BodyUnexpected, [mkEdit Drop [[45; 32]%N] []; mkEdit Emit [[120]%N] []], [[92; 32; 120]%N]) /\
  split_cmd [49; 100; 48]%N = Some ([49]%N, CmdD, [48]%N).
Proof. vm_compute. auto. Qed.

(* FULL statement, under the repaired switches: for every chunk list (empty, one-line and
   empty-range hunks included) whose line numbers are at most 2^61 in magnitude ([ranges_fit]),
   every header: ReadUnified(Unified(chunks)) returns the chunks hunk for hunk at the same ranges
   (edits regrouped as a hunk body can express them) and the header. *)
Theorem C14_unified_roundtrip :
  forall (time : Type) (zero_time : time) (time_is_zero : time -> bool)
         (format_time : time -> bytes) (parse_time : bytes -> option time),
    (forall t, time_is_zero t = false -> parse_time (format_time t) = Some t) ->
    (forall t, newline_free (format_time t)) ->
    (forall t, time_is_zero t = true -> t = zero_time) ->
  forall (fi : option (file_info time)) (cs : list (chunk line)),
    ranges_fit cs -> lines_nf cs -> info_ok time fi ->
    read_unified time zero_time parse_time repaired (unified time_is_zero format_time repaired fi cs)
    = ROk (mkPatch (expected_info time fi cs) (unified_normalise cs)).
Proof.
  intros time z iz fmt prs H1 H2 H3 fi cs Hfit Hnf Hfi.
  apply (read_unified_unified time z iz fmt prs H1 H2 H3); [exact Hfit | left; reflexivity | exact Hnf | exact Hfi].
Qed.
Print Assumptions C14_unified_roundtrip.
Example C14_unified_roundtrip_ex :
  x_read_unified repaired (x_unified repaired (Some (mkFileInfo [120]%N [] [] []))
     (f5_cs ++ [mkChunk [mkEdit Copy [] [[121]%N]] 4 4 4 5]))
  = ROk (mkPatch (Some (mkFileInfo [120]%N [98]%N [] []))
     [mkChunk [mkEdit Drop [[98]%N] []; mkEdit Copy [] [[99]%N]] 2 3 2 3; mkChunk [mkEdit Copy [] [[121]%N]] 4 4 4 5]).
Proof. vm_compute. reflexivity. Qed.

(* the same statement on the code as it stands, restricted away from the trigger of F5: no hunk
   with a one-line side.  Missing for the full statement: one-line sides (see _refuted). *)
Theorem C14_unified_roundtrip_partial :
  forall (time : Type) (zero_time : time) (time_is_zero : time -> bool)
         (format_time : time -> bytes) (parse_time : bytes -> option time),
    (forall t, time_is_zero t = false -> parse_time (format_time t) = Some t) ->
    (forall t, newline_free (format_time t)) ->
    (forall t, time_is_zero t = true -> t = zero_time) ->
  forall (fi : option (file_info time)) (cs : list (chunk line)),
    ranges_fit cs -> Forall no_one_line_side cs -> lines_nf cs -> info_ok time fi ->
    read_unified time zero_time parse_time pinned (unified time_is_zero format_time pinned fi cs)
    = ROk (mkPatch (expected_info time fi cs) (unified_normalise cs)).
Proof.
  intros time z iz fmt prs H1 H2 H3 fi cs Hfit Hno Hnf Hfi.
  apply (read_unified_unified time z iz fmt prs H1 H2 H3); [exact Hfit | right; exact Hno | exact Hnf | exact Hfi].
Qed.
Print Assumptions C14_unified_roundtrip_partial.
Example C14_unified_roundtrip_partial_ex :
  Forall no_one_line_side [mkChunk [mkEdit Replace [[98]; [98]]%N [[99]; [100]; [101]]%N] 2 4 2 5]
  /\ ranges_fit [mkChunk [mkEdit Replace [[98]; [98]]%N [[99]; [100]; [101]]%N] 2 4 2 5].
Proof. split; repeat constructor; unfold fits; cbn; lia. Qed.

(* F5: on the code as it stands "@@ -2 +2 @@" comes back as two empty ranges and re-formats differently *)
Theorem C14_roundtrip_refuted :
  exists cs : list (chunk line), exists p,
    patch_ok [[97]; [98]]%N [[97]; [99]]%N cs /\
    x_read_unified pinned (x_unified pinned None cs) = ROk p /\
    p_chunks p <> unified_normalise cs /\
    p_chunks p = [mkChunk [mkEdit Drop [[98]%N] []; mkEdit Copy [] [[99]%N]] 2 2 2 2] /\
    x_unified pinned (p_info p) (p_chunks p) <> x_unified pinned None cs.
Proof. exact roundtrip_refuted. Qed.
Print Assumptions C14_roundtrip_refuted.

(* re-formatting the patch that was read reproduces the text byte for byte: every variant, every
   chunk list, every header *)
Theorem C14_unified_reformat :
  forall (time : Type) (time_is_zero : time -> bool) (format_time : time -> bytes)
         (v : variant) (fi : option (file_info time)) (cs : list (chunk line)),
    unified time_is_zero format_time v (expected_info time fi cs) (unified_normalise cs)
    = unified time_is_zero format_time v fi cs.
Proof. exact unified_reformat. Qed.
Print Assumptions C14_unified_reformat.

(* FULL statement, under the repaired switches: the unified rendering (with or without file
   header), read by the rules of the unified format, turns Left into Right *)
Theorem C14_unified_apply :
  forall (time : Type) (time_is_zero : time -> bool) (format_time : time -> bytes),
    (forall t, newline_free (format_time t)) ->
  forall (fi : option (file_info time)) (L R : list line) (cs : list (chunk line)),
    patch_ok L R cs -> lines_nf cs -> info_ok time fi ->
    apply_unified L (split_lines (unified time_is_zero format_time repaired fi cs)) = Some R.
Proof.
  intros time iz fmt H fi L R cs Hp Hnf Hfi.
  apply (apply_unified_text time iz fmt H); [left; reflexivity | exact Hp | exact Hnf | exact Hfi].
Qed.
Print Assumptions C14_unified_apply.
Example C14_unified_apply_ex :
  apply_unified ex_L (split_lines (x_unified repaired None ex_cs)) = Some ex_R
  /\ apply_unified [[97]%N] (split_lines (x_unified repaired None f6_cs)) = Some [[98]; [97]]%N.
Proof. vm_compute. auto. Qed.

(* on the code as it stands, restricted away from the trigger of F6: no hunk with an empty range
   (no pure insertion and no pure deletion without context).  Missing: those hunks (see _refuted). *)
Theorem C14_unified_apply_partial :
  forall (time : Type) (time_is_zero : time -> bool) (format_time : time -> bytes),
    (forall t, newline_free (format_time t)) ->
  forall (fi : option (file_info time)) (L R : list line) (cs : list (chunk line)),
    Forall (nonempty_sides true) cs -> patch_ok L R cs -> lines_nf cs -> info_ok time fi ->
    apply_unified L (split_lines (unified time_is_zero format_time pinned fi cs)) = Some R.
Proof.
  intros time iz fmt H fi L R cs Hne Hp Hnf Hfi.
  apply (apply_unified_text time iz fmt H); [right; exact Hne | exact Hp | exact Hnf | exact Hfi].
Qed.
Print Assumptions C14_unified_apply_partial.
Example C14_unified_apply_partial_ex :
  Forall (nonempty_sides true) f5_cs /\ apply_unified [[97]; [98]]%N (split_lines (x_unified pinned None f5_cs)) = Some [[97]; [99]]%N.
Proof.
  split; [constructor; [split; [|intros _]; unfold nonempty_left, nonempty_right; cbn; lia | constructor] | vm_compute; reflexivity].
Qed.

(* on the code as it stands, reading the hunks as GNU patch does (the new-file start is not
   used to place anything): only an empty LEFT range goes wrong; a pure deletion is written with
   the wrong new-file line ("+2,0" for "+1,0") but lands in the right place *)
Theorem C14_unified_apply_lenient_partial :
  forall (time : Type) (time_is_zero : time -> bool) (format_time : time -> bytes),
    (forall t, newline_free (format_time t)) ->
  forall (fi : option (file_info time)) (L R : list line) (cs : list (chunk line)),
    Forall nonempty_left cs -> patch_ok L R cs -> lines_nf cs -> info_ok time fi ->
    apply_unified_gen false L (split_lines (unified time_is_zero format_time pinned fi cs)) = Some R.
Proof.
  intros time iz fmt H fi L R cs Hne Hp Hnf Hfi.
  apply (apply_unified_text_lenient time iz fmt H); [right; exact Hne | exact Hp | exact Hnf | exact Hfi].
Qed.
Print Assumptions C14_unified_apply_lenient_partial.
Example C14_unified_apply_lenient_partial_ex :   (* [a b c] -> [a c]: "@@ -2 +2,0 @@" *)
  let cs := [mkChunk [mkEdit Drop [[98]%N] []] 2 3 2 2] in
  Forall nonempty_left cs /\ patch_okb [[97]; [98]; [99]]%N [[97]; [99]]%N cs = true /\
  apply_unified_gen false [[97]; [98]; [99]]%N (split_lines (x_unified pinned None cs)) = Some [[97]; [99]]%N /\
  apply_unified [[97]; [98]; [99]]%N (split_lines (x_unified pinned None cs)) = None /\
  apply_unified [[97]; [98]; [99]]%N (split_lines (x_unified repaired None cs)) = Some [[97]; [99]]%N.
Proof.
  cbn zeta. split; [constructor; [unfold nonempty_left; cbn; lia | constructor] | vm_compute; auto].
Qed.

(* F6: Left = [a], Right = [b; a]: the hunk "@@ -1,0 +1 @@ +b" inserts after line 1 when placed by
   its left range, and read strictly it contradicts itself *)
Theorem C14_apply_refuted :
  exists (L R : list line) (cs : list (chunk line)),
    patch_ok L R cs /\
    x_unified pinned None cs = [64;64;32;45;49;44;48;32;43;49;32;64;64;10; 43;98;10]%N /\
    apply_unified_gen false L (split_lines (x_unified pinned None cs)) = Some [[97]; [98]]%N /\
    apply_unified L (split_lines (x_unified pinned None cs)) = None /\
    apply_unified_gen false L (split_lines (x_unified pinned None cs)) <> Some R.
Proof. exact apply_refuted. Qed.
Print Assumptions C14_apply_refuted.

(* ---- context format (holds on the code as it stands) ----
   What Context writes - with or without the two-line file header "*** name", "--- name", whatever
   the names are (the applier skips a leading pair of lines with these prefixes; hunks start with
   the line of 15 stars) - read by the rules of the context format turns Left into Right: an
   omitted section is reconstructed from the context lines of the other, "s,s-1" is the empty
   range before line s; strict reading: both ranges must have the length of their sections and
   the new range must be where the new lines land.  For chunk lists whose commands have lines and
   whose chunks change something ([context_ok]). *)
Theorem C14_context_apply :
  forall (time : Type) (time_is_zero : time -> bool) (format_time : time -> bytes),
    (forall t, newline_free (format_time t)) ->
  forall (fi : option (file_info time)) (L R : list line) (cs : list (chunk line)),
    patch_ok L R cs -> context_ok cs -> lines_nf cs -> info_ok time fi ->
    apply_context L (split_lines (context time_is_zero format_time fi cs)) = Some R.
Proof. intros time iz fmt H fi L R cs. exact (apply_context_text time iz fmt H fi L R cs). Qed.
Print Assumptions C14_context_apply.
Example C14_context_apply_ex :
  context_ok ex_cs /\ apply_context ex_L (split_lines (x_context None ex_cs)) = Some ex_R
  /\ apply_context [[97]%N] (split_lines (x_context None f6_cs)) = Some [[98]; [97]]%N
  (* a header whose names look like range lines: "*** 1,2 ****" and "--- x ----" *)
  /\ apply_context ex_L (split_lines (x_context (Some (mkFileInfo [49;44;50;32;42;42;42;42]%N [120;32;45;45;45;45]%N [] [])) ex_cs)) = Some ex_R.
Proof.
  split; [|vm_compute; auto].
  repeat (apply Forall_cons || apply Forall_nil || split); cbn; try reflexivity; discriminate.
Qed.

(* ---- git-style wrappers ----
   A text made of a preamble (no line starts with "diff "), then for each file a "diff ..." line,
   further header lines (none starts with "--- ") and the Unified rendering with its file header
   ([item_lines]) is read by ReadGitPatch as one patch per file: header and normalised chunks;
   everything else is skipped.  Full statement under the repaired switches. *)
Theorem C14_git_wrappers :
  forall (time : Type) (zero_time : time) (time_is_zero : time -> bool)
         (format_time : time -> bytes) (parse_time : bytes -> option time),
    (forall t, time_is_zero t = false -> parse_time (format_time t) = Some t) ->
    (forall t, time_is_zero t = true -> t = zero_time) ->
  forall (pre : list line) (its : list (git_item time)),
    Forall (fun l => has_prefix s_diff l = false) pre ->
    Forall (item_ok time repaired) its -> its <> [] ->
    read_git_lines time zero_time parse_time repaired
      (pre ++ flat_map (item_lines time time_is_zero format_time repaired) its)
    = ROk (map (item_patch time) its).
Proof. intros time z iz fmt prs H1 H2. exact (read_git_lines_wrapped time z iz fmt prs H1 H2 repaired). Qed.
Print Assumptions C14_git_wrappers.

(* on the code as it stands: the same for files whose hunks have no one-line side (item_ok
   pinned demands [readable pinned], i.e. Forall no_one_line_side).  Missing: one-line sides (F5). *)
Theorem C14_git_wrappers_partial :
  forall (time : Type) (zero_time : time) (time_is_zero : time -> bool)
         (format_time : time -> bytes) (parse_time : bytes -> option time),
    (forall t, time_is_zero t = false -> parse_time (format_time t) = Some t) ->
    (forall t, time_is_zero t = true -> t = zero_time) ->
  forall (pre : list line) (its : list (git_item time)),
    Forall (fun l => has_prefix s_diff l = false) pre ->
    Forall (item_ok time pinned) its -> its <> [] ->
    read_git_lines time zero_time parse_time pinned
      (pre ++ flat_map (item_lines time time_is_zero format_time pinned) its)
    = ROk (map (item_patch time) its).
Proof. intros time z iz fmt prs H1 H2. exact (read_git_lines_wrapped time z iz fmt prs H1 H2 pinned). Qed.
Print Assumptions C14_git_wrappers_partial.
Example C14_git_wrappers_ex :
  x_read_git repaired
    (join_lines ([[99; 111; 109; 109; 105; 116]%N; [100; 105; 102; 102; 32; 120]%N; [105; 110; 100; 101; 120]%N]
                 ++ split_lines (x_unified repaired (Some (mkFileInfo [120]%N [121]%N [] [])) f5_cs)
                 ++ [[100; 105; 102; 102; 32; 122]%N]
                 ++ split_lines (x_unified repaired (Some (mkFileInfo [122]%N [122]%N [] [])) f6_cs)))
  = ROk [mkPatch (Some (mkFileInfo [120]%N [121]%N [] [])) (unified_normalise f5_cs);
         mkPatch (Some (mkFileInfo [122]%N [122]%N [] [])) f6_cs].
Proof. vm_compute. reflexivity. Qed.

(* the hypothesis [patch_ok] is decidable: the driver evaluates [patch_okb] on the chunks the
   implementation computed for every generated diff (New, and AddContext(n).Unify()) *)
Theorem C14_patch_okb_sound : forall (L R : list line) (cs : list (chunk line)),
  patch_okb L R cs = true -> patch_ok L R cs.
Proof. exact patch_okb_sound. Qed.
Print Assumptions C14_patch_okb_sound.
Example C14_patch_okb_ex : patch_okb ex_L ex_R ex_cs = true.
Proof. vm_compute. reflexivity. Qed.

(* ================================================================ END TO END
   From the two files alone.  [diff_new lhs rhs] is New(lhs, rhs) (C13's chunk model on the
   script computed by C11's model of slice.EditScript, lines compared with ==);
   [rendered_chunks lhs rhs n cs] says that cs is d.Chunks of New(lhs, rhs) or of
   New(lhs, rhs).AddContext(n).Unify().  Every n in Z (AddContext does nothing for n <= 0).
   [file_fits l]: l has at most 2^61 - 1 lines, so that every line number is a number an int holds
   (the models of the readers have strconv.Atoi's range error and Go's wrap-around arithmetic;
   no Go slice is that long). *)

(* the pipeline never fails *)
Theorem C14_pipeline_total : forall (lhs rhs : list line) (n : Z),
  exists d1 d2, diff_add_context bytes_eqb n (diff_new lhs rhs) = Ok d1 /\ diff_unify d1 = Ok d2.
Proof. exact pipeline_total. Qed.
Print Assumptions C14_pipeline_total.

(* the hypotheses of all the theorems above hold of the package's own chunk lists *)
Theorem C14_pipeline_well_formed : forall (lhs rhs : list line) (n : Z) (cs : list (chunk line)),
  Forall newline_free lhs -> Forall newline_free rhs -> file_fits lhs -> file_fits rhs ->
  rendered_chunks lhs rhs n cs ->
  patch_ok lhs rhs cs /\ normal_ok cs /\ context_ok cs /\ lines_nf cs /\ ranges_fit cs.
Proof. exact pipeline_well_formed. Qed.
Print Assumptions C14_pipeline_well_formed.
Example C14_pipeline_ex :   (* New([a b c], [a x c y]) and the same with one line of context *)
  file_fits ex_L /\ file_fits ex_R /\
  rendered_chunks ex_L ex_R 1 ex_cs /\
  rendered_chunks ex_L ex_R 1
    [mkChunk [mkEdit Emit [[97]%N] []; mkEdit Replace [[98]%N] [[120]%N]; mkEdit Emit [[99]%N] []; mkEdit Copy [] [[121]%N]] 1 4 1 5].
Proof.
  split; [unfold file_fits, fits; cbn; lia|]. split; [unfold file_fits, fits; cbn; lia|].
  split; [left; vm_compute; reflexivity|].
  right. eexists. eexists. split; [vm_compute; reflexivity|]. split; vm_compute; reflexivity.
Qed.

(* NORMAL, code as it stands: for all lhs rhs n, the rendering applied to lhs gives rhs, reads back
   as one chunk per change command, and re-formats to the same bytes *)
Theorem C14_end_to_end_normal : forall (lhs rhs : list line) (n : Z) (cs : list (chunk line)),
  Forall newline_free lhs -> Forall newline_free rhs -> file_fits lhs -> file_fits rhs ->
  rendered_chunks lhs rhs n cs ->
  apply_normal lhs (split_lines (normal cs)) = Some rhs /\
  read_normal (normal cs) = ROk (normal_normalise cs) /\
  normal (normal_normalise cs) = normal cs.
Proof. exact e2e_normal. Qed.
Print Assumptions C14_end_to_end_normal.

(* CONTEXT, code as it stands, with or without file header *)
Theorem C14_end_to_end_context :
  forall (time : Type) (time_is_zero : time -> bool) (format_time : time -> bytes),
    (forall t, newline_free (format_time t)) ->
  forall (lhs rhs : list line) (n : Z) (cs : list (chunk line)),
    Forall newline_free lhs -> Forall newline_free rhs -> file_fits lhs -> file_fits rhs ->
    rendered_chunks lhs rhs n cs ->
  forall fi : option (file_info time), info_ok time fi ->
    apply_context lhs (split_lines (context time_is_zero format_time fi cs)) = Some rhs.
Proof. exact e2e_context. Qed.
Print Assumptions C14_end_to_end_context.

(* UNIFIED, repaired switches, FULL: applies, reads back hunk for hunk with the header, re-formats *)
Theorem C14_end_to_end_unified :
  forall (time : Type) (zero_time : time) (time_is_zero : time -> bool)
         (format_time : time -> bytes) (parse_time : bytes -> option time),
    (forall t, time_is_zero t = false -> parse_time (format_time t) = Some t) ->
    (forall t, newline_free (format_time t)) ->
    (forall t, time_is_zero t = true -> t = zero_time) ->
  forall (lhs rhs : list line) (n : Z) (cs : list (chunk line)),
    Forall newline_free lhs -> Forall newline_free rhs -> file_fits lhs -> file_fits rhs ->
    rendered_chunks lhs rhs n cs ->
  forall fi : option (file_info time), info_ok time fi ->
    apply_unified lhs (split_lines (unified time_is_zero format_time repaired fi cs)) = Some rhs /\
    read_unified time zero_time parse_time repaired (unified time_is_zero format_time repaired fi cs)
      = ROk (mkPatch (expected_info time fi cs) (unified_normalise cs)) /\
    unified time_is_zero format_time repaired (expected_info time fi cs) (unified_normalise cs)
      = unified time_is_zero format_time repaired fi cs.
Proof.
  intros time z iz fmt prs H1 H2 H3 lhs rhs n cs Hl Hr Hfl Hfr Hcs fi Hfi.
  destruct (e2e_unified time z iz fmt prs H1 H2 H3 lhs rhs n cs Hl Hr Hfl Hfr Hcs repaired fi Hfi) as (Ha & Hb & Hc).
  split; [apply Ha; left; reflexivity|]. split; [apply Hb; left; reflexivity | exact Hc].
Qed.
Print Assumptions C14_end_to_end_unified.

(* UNIFIED, code as it stands (pinned), PARTIAL: application for diffs without an empty range,
   reading for diffs without a one-line side; re-formatting always.  Missing: F6 / F5. *)
Theorem C14_end_to_end_unified_partial :
  forall (time : Type) (zero_time : time) (time_is_zero : time -> bool)
         (format_time : time -> bytes) (parse_time : bytes -> option time),
    (forall t, time_is_zero t = false -> parse_time (format_time t) = Some t) ->
    (forall t, newline_free (format_time t)) ->
    (forall t, time_is_zero t = true -> t = zero_time) ->
  forall (lhs rhs : list line) (n : Z) (cs : list (chunk line)),
    Forall newline_free lhs -> Forall newline_free rhs -> file_fits lhs -> file_fits rhs ->
    rendered_chunks lhs rhs n cs ->
  forall fi : option (file_info time), info_ok time fi ->
    (Forall (nonempty_sides true) cs ->
       apply_unified lhs (split_lines (unified time_is_zero format_time pinned fi cs)) = Some rhs) /\
    (Forall no_one_line_side cs ->
       read_unified time zero_time parse_time pinned (unified time_is_zero format_time pinned fi cs)
       = ROk (mkPatch (expected_info time fi cs) (unified_normalise cs))) /\
    unified time_is_zero format_time pinned (expected_info time fi cs) (unified_normalise cs)
      = unified time_is_zero format_time pinned fi cs.
Proof.
  intros time z iz fmt prs H1 H2 H3 lhs rhs n cs Hl Hr Hfl Hfr Hcs fi Hfi.
  destruct (e2e_unified time z iz fmt prs H1 H2 H3 lhs rhs n cs Hl Hr Hfl Hfr Hcs pinned fi Hfi) as (Ha & Hb & Hc).
  split; [intros H; apply Ha; right; exact H|]. split; [intros H; apply Hb; right; exact H | exact Hc].
Qed.
Print Assumptions C14_end_to_end_unified_partial.

(* UNIFIED, code as it stands, REFUTED end to end: New([a b],[a c]) does not read back (F5);
   New([a],[b a]) does not apply, strictly or leniently (F6) *)
Theorem C14_end_to_end_refuted :
  (exists lhs rhs cs, Forall newline_free lhs /\ Forall newline_free rhs /\ rendered_chunks lhs rhs 0 cs /\
     x_read_unified pinned (x_unified pinned None cs) <> ROk (mkPatch None (unified_normalise cs))) /\
  (exists lhs rhs cs, Forall newline_free lhs /\ Forall newline_free rhs /\ rendered_chunks lhs rhs 0 cs /\
     apply_unified lhs (split_lines (x_unified pinned None cs)) <> Some rhs /\
     apply_unified_gen false lhs (split_lines (x_unified pinned None cs)) <> Some rhs).
Proof. exact e2e_refuted. Qed.
Print Assumptions C14_end_to_end_refuted.

(* ================================================================ END TO END, EVERY HISTORY
   After New(lhs, rhs) a caller may call AddContext(n) (any int n) and Unify() in any order, any
   number of times ([hop], [diff_run]: C13's Mdiff/MdiffHistModel.v).  [history_chunks lhs rhs ops cs]:
   cs is d.Chunks after the calls ops.  No history panics; whenever the last call was Unify (or
   there was none), or more generally the resulting chunks do not overlap, all three renderings
   applied to lhs give rhs and the normal and unified texts read back - normal and context on the
   code as it stands, unified under the repaired switches. *)
Theorem C14_history_total : forall (lhs rhs : list line) (ops : list hop),
  exists cs, history_chunks lhs rhs ops cs.
Proof. exact history_total. Qed.
Print Assumptions C14_history_total.

Theorem C14_end_to_end_history :
  forall (time : Type) (zero_time : time) (time_is_zero : time -> bool)
         (format_time : time -> bytes) (parse_time : bytes -> option time),
    (forall t, time_is_zero t = false -> parse_time (format_time t) = Some t) ->
    (forall t, newline_free (format_time t)) ->
    (forall t, time_is_zero t = true -> t = zero_time) ->
  forall (lhs rhs : list line) (ops : list hop) (cs : list (chunk line)) (fi : option (file_info time)),
    Forall newline_free lhs -> Forall newline_free rhs -> file_fits lhs -> file_fits rhs ->
    history_chunks lhs rhs ops cs -> ends_unified ops \/ separated 0 cs -> info_ok time fi ->
    apply_normal lhs (split_lines (normal cs)) = Some rhs /\
    read_normal (normal cs) = ROk (normal_normalise cs) /\
    apply_context lhs (split_lines (context time_is_zero format_time fi cs)) = Some rhs /\
    apply_unified lhs (split_lines (unified time_is_zero format_time repaired fi cs)) = Some rhs /\
    read_unified time zero_time parse_time repaired (unified time_is_zero format_time repaired fi cs)
      = ROk (mkPatch (expected_info time fi cs) (unified_normalise cs)).
Proof. exact e2e_history. Qed.
Print Assumptions C14_end_to_end_history.
Example C14_end_to_end_history_ex :
  exists cs, history_chunks ex_L ex_R [HAdd 1; HAdd 2; HUnify; HAdd 0; HUnify] cs /\
             ends_unified [HAdd 1; HAdd 2; HUnify; HAdd 0; HUnify] /\ length cs = 1%nat.
Proof. exact history_ex. Qed.
