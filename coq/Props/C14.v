(* C14 — mdiff text formats round-trip and mean what GNU diff/patch say they mean.
   Only statements, each closed by [exact] of a lemma proved elsewhere.

   Vocabulary (all in coq/Mdiff): [normal]/[unified]/[context] are the models of the formatters
   (bytes), [read_normal]/[read_unified]/[read_git_patch] of the readers; [normal_normalise] and
   [unified_normalise] (FormatSpec.v) say what "the same changes at the same line ranges" means
   for each format; [patch_ok L R cs] says that the chunk list cs describes how L becomes R
   (ranges consistent with the edits, gaps unchanged); [apply_normal]/[apply_unified]/
   [apply_context] (ApplySpec.v) are the reference appliers written from the diffutils manual. *)
From Coq Require Import NArith ZArith List Lia.
Import ListNotations.
From Mds Require Import Mdiff.Decimal Mdiff.ReaderModel Mdiff.FormatSpec Mdiff.ApplySpec
  Mdiff.ReaderNormalProofs Mdiff.ApplyNormalProofs.
Local Open Scope Z_scope.

(* every number the formatters print is read back by the model of strconv.Atoi *)
Theorem C14_itoa_atoi : forall n : Z, atoi (itoa n) = Some n.
Proof. exact itoa_atoi. Qed.
Print Assumptions C14_itoa_atoi.
Example C14_itoa_atoi_ex : itoa 1204 = [49; 50; 48; 52]%N /\ itoa (-7) = [45; 55]%N /\ atoi [43; 48; 57]%N = Some 9%Z.
Proof. vm_compute. auto. Qed.

(* a concrete diff used by the examples: Left = [a; b; c], Right = [a; x; c; y] *)
Definition ex_L : list line := [[97]; [98]; [99]]%N.
Definition ex_R : list line := [[97]; [120]; [99]; [121]]%N.
Definition ex_cs : list (chunk line) :=
  [mkChunk [mkEdit Replace [[98]%N] [[120]%N]] 2 3 2 3; mkChunk [mkEdit Copy [] [[121]%N]] 4 4 4 5].
Example ex_patch_ok : patch_ok ex_L ex_R ex_cs /\ normal_ok ex_cs /\ lines_nf ex_cs.
Proof.
  split; [|split].
  - unfold patch_ok, ex_cs, ex_L, ex_R.
    apply (cf_cons _ 1 1 [[97]%N] (mkChunk [mkEdit Replace [[98]%N] [[120]%N]] 2 3 2 3)
             [mkChunk [mkEdit Copy [] [[121]%N]] 4 4 4 5] ([[99]%N]) ([[99]%N; [121]%N])); try reflexivity.
    apply (cf_cons _ 3 3 [[99]%N] (mkChunk [mkEdit Copy [] [[121]%N]] 4 4 4 5) [] [] []); try reflexivity.
    apply (cf_nil _ 4 5 []).
  - repeat constructor; cbn; try lia; discriminate.
  - unfold lines_nf, ex_cs, chunk_lines_nf, edit_lines_nf.
    repeat (apply Forall_cons || apply Forall_nil || split); unfold newline_free; cbn;
      intuition discriminate.
Qed.

(* ---- normal format (holds on the code as it stands; no variant involved) ---- *)

(* Read(Normal(chunks)) returns one chunk per change command at the same line ranges, for every
   chunk list whose change commands have lines to show and whose lines are newline-free
   (any content otherwise: empty lines, lines starting with < > - --- digits ...). *)
Theorem C14_normal_roundtrip : forall cs : list (chunk line),
  normal_ok cs -> lines_nf cs -> read_normal (normal cs) = ROk (normal_normalise cs).
Proof. exact read_normal_normal. Qed.
Print Assumptions C14_normal_roundtrip.
Example C14_normal_roundtrip_ex :
  read_normal (normal ex_cs) = ROk ex_cs /\ normal_normalise ex_cs = ex_cs.
Proof. vm_compute. auto. Qed.

(* re-formatting the parsed patch reproduces the text byte for byte (every chunk list) *)
Theorem C14_normal_reformat : forall cs : list (chunk line), normal (normal_normalise cs) = normal cs.
Proof. exact normal_reformat. Qed.
Print Assumptions C14_normal_reformat.

(* the normal rendering, read by the rules of the normal format, turns Left into Right *)
Theorem C14_normal_apply : forall (L R : list line) (cs : list (chunk line)),
  patch_ok L R cs -> normal_ok cs -> lines_nf cs ->
  apply_normal L (split_lines (normal cs)) = Some R.
Proof. exact apply_normal_text. Qed.
Print Assumptions C14_normal_apply.
Example C14_normal_apply_ex : apply_normal ex_L (split_lines (normal ex_cs)) = Some ex_R.
Proof. vm_compute. reflexivity. Qed.
