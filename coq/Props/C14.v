(* C14 — mdiff text formats round-trip and mean what GNU diff/patch say they mean.
   Only statements, each closed by [exact] of a lemma proved elsewhere. *)
From Coq Require Import NArith ZArith List.
Import ListNotations.
From Mds Require Import Mdiff.Decimal.

(* every number the formatters print is read back by the model of strconv.Atoi *)
Theorem C14_itoa_atoi : forall n : Z, atoi (itoa n) = Some n.
Proof. exact itoa_atoi. Qed.
Print Assumptions C14_itoa_atoi.
Example C14_itoa_atoi_ex : itoa 1204 = [49; 50; 48; 52]%N /\ itoa (-7) = [45; 55]%N /\ atoi [43; 48; 57]%N = Some 9%Z.
Proof. vm_compute. auto. Qed.
