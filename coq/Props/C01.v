(* C01 — stree.Tree is a sorted set: results and contents match a reference set.
   Only statements, each closed by [exact] of a lemma proved in Stree/StreeProofs*.v.

   Vocabulary (Stree/StreeModel.v, Stree/StreeSpec.v):
   [run cmp limit ops]   all outputs of the history [ops] on the model of stree (several trees:
                         New and Clone create tree number 0, 1, ...; Add/Replace/Remove/Clear and
                         Len/IsEmpty/Get/Min/Max/Inorder/InorderAfter name a tree); [limit] is the
                         depth-limit function (beta, n), an arbitrary parameter;
   [spec_run cmp ops]    the same history on the reference: one strictly ascending list per tree,
                         insert-if-absent / replace / delete, filter for InorderAfter, prefix for a
                         consumer that stops;
   [total_preorder cmp]  cmp a b and cmp b a have opposite signs, <= is transitive. *)
From Coq Require Import ZArith List Lia.
Import ListNotations.
From Mds Require Import Stree.StreeModel Stree.StreeSpec Stree.StreeProofsBase Stree.StreeProofsSet
  Stree.StreeProofsHist Stree.StreeProofsAudit.
Local Open Scope Z_scope.

(* For every comparison function, every depth-limit function, every balance factor (it is an
   argument of New inside the history) and every history of New/Add/Replace/Remove/Clear/Clone and
   observations over any number of trees: every output of the tree equals the reference's.
   Outputs are the boolean results, Len, IsEmpty, Get (the stored representative), Min, Max, Inorder
   and InorderAfter with a consumer that stops after any number of elements.  Because Inorder is
   an output, the contents are compared element for element, including WHICH representative of a
   class is stored.  New with beta outside 0..1000 panics in both; an oracle (the representatives
   the unstable sort kept) that is not a strictly ascending choice of given keys covering every
   class is rejected by both. *)
Theorem C01_history : forall (T : Type) (cmp : T -> T -> Z), total_preorder cmp ->
  forall (limit : Z -> Z -> Z) (ops : list (op T)),
  run cmp limit ops = spec_run cmp ops.
Proof. exact run_refines. Qed.
Print Assumptions C01_history.

(* No run-time failure: with balance factors in range and acceptable oracles, no operation of any
   history panics (no nil dereference in rotateLeft or popMinRight, no index out of range in
   extract or inorderAfter) and no fuelled loop of the model runs out of fuel. *)
Theorem C01_no_failure : forall (T : Type) (cmp : T -> T -> Z), total_preorder cmp ->
  forall (limit : Z -> Z -> Z) (ops : list (op T)),
  Forall (ok_new T cmp) ops ->
  forall x, In x (run cmp limit ops) -> x <> RPanic /\ x <> RFuel /\ x <> RBadOracle.
Proof. exact run_no_failure. Qed.
Print Assumptions C01_no_failure.

(* Iteration is strictly ascending: every sequence any Inorder / InorderAfter call of any history
   delivers (whole or stopped early) is strictly ascending in the comparison. *)
Theorem C01_iteration_ascending : forall (T : Type) (cmp : T -> T -> Z), total_preorder cmp ->
  forall (limit : Z -> Z -> Z) (ops : list (op T)) (l : list T),
  In (RList l) (run cmp limit ops) -> sorted cmp l.
Proof. exact run_iteration_ascending. Qed.
Print Assumptions C01_iteration_ascending.

(* What must not change: an operation changes at most the tree it names (Add/Replace/Remove/Clear
   on tree i leave every other tree, in particular clones and originals, exactly as they were);
   New, Clone and all observations change no existing tree.  (In the Go code this is a statement
   about sharing of nodes; in the functional model it holds by construction, so for Clone the
   tie to the code is the correspondence run that mutates both copies.) *)
Theorem C01_frame : forall (T : Type) (cmp : T -> T -> Z) (limit : Z -> Z -> Z) (s : state T) (o : op T) (j : nat),
  (j < length s)%nat -> target T o <> Some j ->
  nth_error (fst (step cmp limit s o)) j = nth_error s j.
Proof. exact step_frame. Qed.
Print Assumptions C01_frame.

(* What New may keep: an accepted choice is strictly ascending, consists of keys that were given,
   and holds an equivalent of every given key. *)
Theorem C01_new_choice : forall (T : Type) (cmp : T -> T -> Z), total_preorder cmp ->
  forall keys picks kept, s_new cmp keys picks = Some kept ->
  sorted cmp kept /\ (forall x, In x kept -> In x keys)
  /\ (forall k, In k keys -> exists x, In x kept /\ cmp k x = 0).
Proof. exact s_new_choice. Qed.
Print Assumptions C01_new_choice.

(* The hypothesis of C01_no_failure excludes no New call: every key list has an acceptable
   oracle (for instance the choice the reference makes itself: the first given key of each class). *)
Theorem C01_new_oracle_exists : forall (T : Type) (cmp : T -> T -> Z), total_preorder cmp ->
  forall keys : list T, exists picks kept, s_new cmp keys picks = Some kept.
Proof. exact s_new_exists. Qed.
Print Assumptions C01_new_oracle_exists.

(* The in-place rebuild (treeToVine, then vineToTree with the exact node count) never runs out of
   chain, never runs out of fuel, and keeps the in-order sequence element for element. *)
Theorem C01_rewrite_keeps_order : forall (T : Type) (t : tree T) (sz : Z),
  sz = size t -> exists t', rewrite t sz = Ok t' /\ inorder t' = inorder t.
Proof. exact rewrite_ok. Qed.
Print Assumptions C01_rewrite_keeps_order.

(* A count that is too SMALL is harmless for the contents (the shape suffers: that is C02): the
   rebuild still succeeds and keeps the in-order sequence for every count up to the node count,
   negative ones included.  (This is why a delete-side rebuild with size-1 has no failing input
   for C01; a count that is too large can dereference nil, see corpus/C01.) *)
Theorem C01_rewrite_undercount_keeps_order : forall (T : Type) (t : tree T) (sz : Z),
  sz <= size t -> exists t', rewrite t sz = Ok t' /\ inorder t' = inorder t.
Proof. exact rewrite_ok_le. Qed.
Print Assumptions C01_rewrite_undercount_keeps_order.

(* Machine integers: for trees of fewer than 2^52 nodes and beta in 0..1000, every integer
   expression of stree.go/node.go that the model takes from Gen (sizes+1, limit-1, height+1,
   sibling+1+size, max*beta+1000 and its quotient, 2*step+1, count-step, the extract midpoint,
   the inorderAfter index) stays strictly inside int64, so the unbounded-Z reading is exact. *)
Theorem C01_int64_ranges : forall sz mx b lim ht sib step cnt n : Z,
  small sz -> small mx -> 0 <= b <= 1000 -> small sib -> small ht -> small cnt -> small n ->
  - 2 ^ 52 <= lim < 2 ^ 53 -> 0 <= step <= 2 * cnt + 1 ->
  i64 (Gen.StreeConst.add_limit_arg sz) /\ i64 (Gen.StreeConst.replace_limit_arg sz) /\ i64 (Gen.StreeConst.inc_size sz)
  /\ i64 (Gen.StreeConst.ins_left_limit lim) /\ i64 (Gen.StreeConst.ins_right_limit lim)
  /\ i64 (Gen.StreeConst.ins_left_height ht) /\ i64 (Gen.StreeConst.ins_right_height ht)
  /\ i64 (Gen.StreeConst.ins_root_size sib sz)
  /\ i64 (Gen.StreeConst.rem_size sz)
  /\ i64 (mx * b) /\ i64 (mx * b + Gen.StreeConst.maxBalance) /\ i64 (Gen.StreeConst.rem_threshold mx b)
  /\ i64 (Gen.StreeNode.node_size sib sz)
  /\ i64 (Gen.StreeNode.v2t_step_next step) /\ i64 (Gen.StreeNode.v2t_step_final step)
  /\ i64 (Gen.StreeNode.v2t_first_count cnt step) /\ i64 (Gen.StreeNode.v2t_left_next step)
  /\ i64 (Gen.StreeNode.ext_mid n) /\ i64 (Gen.StreeNode.ext_right_lo (Gen.StreeNode.ext_mid n))
  /\ i64 (Gen.StreeNode.after_start n) /\ i64 (Gen.StreeNode.after_next n).
Proof. exact int64_ranges. Qed.
Print Assumptions C01_int64_ranges.

(* The count Remove hands to the delete-side rebuild is exactly the number of nodes left. *)
Theorem C01_remove_rebuild_count : forall (T : Type) (cmp : T -> T -> Z) (t : Tree T) l k del,
  tsize t = Z.of_nat (length l) -> snd (s_remove cmp k l) = true ->
  inorder del = fst (s_remove cmp k l) ->
  Gen.StreeConst.rem_rewrite_size (Gen.StreeConst.rem_size (tsize t)) = size del.
Proof. exact Remove_rewrite_size_exact. Qed.
Print Assumptions C01_remove_rebuild_count.

(* New's balanced build from the sorted, compacted keys holds exactly those keys in that order. *)
Theorem C01_extract_keeps_order : forall (T : Type) (nodes : list T),
  exists t, extract nodes = Ok t /\ inorder t = nodes.
Proof. exact extract_ok. Qed.
Print Assumptions C01_extract_keeps_order.

(* ---- the hypotheses are satisfiable: pairs (key, payload) compared by key *)
Definition cmp_key (a b : Z * Z) : Z := fst a - fst b.
Definition lim_log (b n : Z) : Z := Z.log2 n.

Lemma cmp_key_preorder : total_preorder cmp_key.
Proof.
  constructor; unfold cmp_key; intros.
  - rewrite <- Z.sgn_opp. f_equal. lia.
  - lia.
Qed.

Definition ex_ops : list (op (Z * Z)) :=
  [ONew 0 [(5,1); (1,2); (5,3); (3,4)] [1; 3; 2]%nat;      (* keeps (5,3), not (5,1) *)
   OAdd 0%nat (6,5); OAdd 0%nat (7,6); OAdd 0%nat (8,7); OAdd 0%nat (9,8);   (* scapegoat rebuilds *)
   OAdd 0%nat (3,9);                                          (* present: refused, (3,4) stays *)
   OReplace 0%nat (1,10);                                     (* present: replaced *)
   OClone 0%nat;
   ORemove 0%nat (5,0); ORemove 0%nat (3,0); ORemove 0%nat (1,0); ORemove 0%nat (6,0);   (* delete-side rebuild *)
   OInorder 0%nat None; OInorder 1%nat (Some 1%nat); OInorderAfter 1%nat (4,0) None;
   OGet 1%nat (5,0); OMin 1%nat; OMax 0%nat; OLen 0%nat; OIsEmpty 1%nat].

Example C01_history_ex :
  total_preorder cmp_key /\
  run cmp_key lim_log ex_ops =
  [RUnit; RBool true; RBool true; RBool true; RBool true; RBool false; RBool false; RUnit;
   RBool true; RBool true; RBool true; RBool true;
   RList [(7,6); (8,7); (9,8)]; RList [(1,10); (3,4)]; RList [(5,3); (6,5); (7,6); (8,7); (9,8)];
   ROpt (Some (5,3)); ROpt (Some (1,10)); ROpt (Some (9,8)); RInt 3; RBool false].
Proof. split; [exact cmp_key_preorder|vm_compute; reflexivity]. Qed.

Example C01_no_failure_ex : Forall (ok_new (Z * Z) cmp_key) ex_ops.
Proof. repeat constructor; try (right; vm_compute; discriminate); vm_compute; discriminate. Qed.

Example C01_iteration_ascending_ex : In (RList [(1,10); (3,4)]) (run cmp_key lim_log ex_ops).
Proof. vm_compute. tauto. Qed.

Example C01_frame_ex :
  let s := exec_from cmp_key lim_log [] [ONew 0 [(1,1)] [0%nat]; OClone 0%nat] in
  (1 < length s)%nat /\ target _ (ORemove 0%nat (1,0)) <> Some 1%nat
  /\ nth_error (fst (step cmp_key lim_log s (ORemove 0%nat (1,0)))) 0 <> nth_error s 0.
Proof. vm_compute. repeat split; try lia; discriminate. Qed.

Example C01_new_choice_ex : s_new cmp_key [(5,1); (1,2); (5,3); (3,4)] [1; 3; 2]%nat = Some [(1,2); (3,4); (5,3)].
Proof. vm_compute. reflexivity. Qed.

Example C01_new_oracle_exists_ex :
  s_new cmp_key [(5,1); (1,2); (5,3); (3,4)] [1; 3; 0]%nat = Some [(1,2); (3,4); (5,1)]
  /\ s_new cmp_key [(5,1); (1,2); (5,3); (3,4)] [1; 3; 0; 2]%nat = None.    (* two of one class: rejected *)
Proof. vm_compute. split; reflexivity. Qed.

Example C01_rewrite_undercount_keeps_order_ex :
  (* the right spine 1..5 rebuilt with count 4 and with count -1: all five keys stay, in order *)
  let v := Node Leaf 1 (Node Leaf 2 (Node Leaf 3 (Node Leaf 4 (Node Leaf 5 Leaf)))) in
  4 <= size v /\
  rewrite v 4 = Ok (Node (Node (Node Leaf 1 Leaf) 2 Leaf) 3 (Node Leaf 4 (Node Leaf 5 Leaf)))
  /\ rewrite v (-1) = Ok v.
Proof. vm_compute. repeat split; discriminate. Qed.

Example C01_int64_ranges_ex :
  small 1000000 /\ small (2 ^ 52 - 1) /\ 0 <= 1000 <= 1000 /\ - 2 ^ 52 <= 2 ^ 52 < 2 ^ 53 /\ 0 <= 15 <= 2 * 7 + 1
  /\ Gen.StreeConst.rem_threshold (2 ^ 52 - 1) 1000 = 2251799813685248.
Proof. vm_compute. repeat split; discriminate. Qed.

Example C01_rewrite_keeps_order_ex :
  rewrite (Node (Node (Node (Node Leaf 1 Leaf) 2 Leaf) 3 Leaf) 4 (Node Leaf 5 (Node Leaf 6 (Node Leaf 7 Leaf)))) 7
  = Ok (Node (Node (Node Leaf 1 Leaf) 2 (Node Leaf 3 Leaf)) 4 (Node (Node Leaf 5 Leaf) 6 (Node Leaf 7 Leaf))).
Proof. vm_compute. reflexivity. Qed.

Example C01_remove_rebuild_count_ex :
  let t := mkTree (Node (Node Leaf 1 Leaf) 2 (Node Leaf 3 Leaf)) 500 3 9 in
  tsize t = Z.of_nat (length [1; 2; 3]) /\ snd (s_remove Z.sub 2 [1; 2; 3]) = true
  /\ inorder (Node (Node Leaf 1 Leaf) 3 Leaf) = fst (s_remove Z.sub 2 [1; 2; 3]).
Proof. vm_compute. repeat split. Qed.

Example C01_extract_keeps_order_ex :
  match extract [1; 2; 3; 4; 5; 6] with
  | Ok t => inorder t = [1; 2; 3; 4; 5; 6] /\ height t = 2
  | _ => False
  end.
Proof. vm_compute. split; reflexivity. Qed.
