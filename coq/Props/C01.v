(* C01 — stree.Tree is a sorted set.  Only statements, each closed by [exact] of a lemma proved in
   Stree/StreeProofs*.v. *)
From Coq Require Import ZArith List.
Import ListNotations.
From Mds Require Import Stree.StreeModel Stree.StreeSpec Stree.StreeProofsBase.
Local Open Scope Z_scope.

(* The in-place rebuild (treeToVine, then vineToTree with the exact node count) never runs out of
   chain (no nil dereference in rotateLeft), never runs out of fuel, and keeps the in-order
   sequence element for element. *)
Theorem C01_rewrite_keeps_order : forall (T : Type) (t : tree T) (sz : Z),
  sz = size t -> exists t', rewrite t sz = Ok t' /\ inorder t' = inorder t.
Proof. exact rewrite_ok. Qed.
Print Assumptions C01_rewrite_keeps_order.

Example C01_rewrite_keeps_order_ex :
  rewrite (Node (Node (Node (Node Leaf 1 Leaf) 2 Leaf) 3 Leaf) 4 (Node Leaf 5 (Node Leaf 6 (Node Leaf 7 Leaf)))) 7
  = Ok (Node (Node (Node Leaf 1 Leaf) 2 (Node Leaf 3 Leaf)) 4 (Node (Node Leaf 5 Leaf) 6 (Node Leaf 7 Leaf))).
Proof. vm_compute. reflexivity. Qed.

(* New's balanced build from the sorted, compacted keys holds exactly those keys in that order. *)
Theorem C01_extract_keeps_order : forall (T : Type) (nodes : list T),
  exists t, extract nodes = Ok t /\ inorder t = nodes.
Proof. exact extract_ok. Qed.
Print Assumptions C01_extract_keeps_order.

Example C01_extract_keeps_order_ex :
  extract [1; 2; 3; 4; 5; 6] = Ok (Node (Node Leaf 1 (Node Leaf 2 Leaf)) 3 (Node (Node Leaf 4 Leaf) 5 (Node Leaf 6 Leaf))).
Proof. vm_compute. reflexivity. Qed.
