(* C08 at source level -- the history statements of Props/C08.v re-stated for the functions
   GENERATED from cache/cache.go and cache/lru.go (Gen/FnCache.v, Gen/FnLru.v, regenerated on every
   run).  Only statements; the proofs (GenTie/CacheSource.v) lift C08_step_is_source (one call of the
   model = the function generated from cache.go over the functions generated from lru.go over the
   heapq model) to histories and compose it with the model-level theorems.

   Reading guide.  [grun keqb kzero vzero sizeOf hv g ops] (GenTie/CacheSource.v): state [g] =
   ((c.present, c.access, c.clock), c.size, c.count, c.limit); every operation calls the generated
   Cache method (Put/Get/Has/Remove/Clear/Len/Size of Gen/FnCache.v) whose store methods are the
   generated lruStore methods (Check/Access/Store/Remove/Evict of Gen/FnLru.v) whose heap methods are
   the heapq MODEL's Peek/Remove/Add/Pop at variant [hv] with the move log replayed on c.present
   (LruTieBase.hp_*; the function generated from LRU()'s Update literal is tied to that replay by
   C08_lru_update_is_source).  Fuel of Put's and Clear's loops: 1 + the number of heap entries.
   The result of a call is Ok (answer, callback log in call order); a failing call ends the list.
   [ginit lim] = (empty present, heapq.New(comparePrio), clock 0, size 0, count 0, limit lim).

   COVERED: Cache.Put, Get, Has, Remove, Clear, Len, Size with lruStore.Check, Access, Store, Remove,
   Evict, comparePrio and the Update literal (all through ties).
   NOT COVERED (they stay with the model-level theorems + correspondence): cache.New and LRU() (not
   translated: [ginit] is the state the MODEL says they produce; New's panic for limit <= 0 is
   C08_new_bad_limit), the heap itself (the heapq model, tied to heapq.go by the C05/C06 ties for the
   current variant), Go's int width (C08_int64_all_limits), locking (Gen/CacheLocks.v, C09). *)
From Coq Require Import ZArith List Bool.
Import ListNotations.
Set Warnings "-notation-overridden".
From Mds Require Import Common.FnRt.
From Mds Require Import Heapq.HeapqModel Cache.CacheSpec Cache.CacheModel.
From Mds Require Import GenTie.CacheTieCompose GenTie.CacheSource.
Local Open Scope Z_scope.

(* For every heap variant, key type with decidable equality, size function >= 0, limit > 0 and
   history of Put/Get/Has/Remove/Clear/Len/Size run through the GENERATED functions: no call panics
   or runs out of fuel, and the results and callback logs are accepted by S1 (see
   C08_refines_S1_partial: presence and stored values, Len, Size, refused oversize Put, only needed
   present victims, every departing entry reported exactly once).  Hypotheses unchanged.
   Missing w.r.t. the full property, as at model level: that the victims are the least recently
   used entries (C08_lru_source below for the histories on which the code as it is does that). *)
Theorem C08_refines_S1_source :
  forall (K V : Type) (keqb : K -> K -> bool),
    (forall a b, keqb a b = true <-> a = b) ->
  forall (kzero : K) (vzero : V) (sizeOf : V -> Z),
    (forall v, 0 <= sizeOf v) ->
  forall (hv : variant) (lim : Z) (ops : list (op K V)),
    0 < lim ->
    exists obs,
      grun keqb kzero vzero sizeOf hv (ginit lim) ops = map FnRt.Ok obs /\
      s1_accepts K V keqb vzero sizeOf lim [] ops obs.
Proof. exact refines_S1_source. Qed.
Print Assumptions C08_refines_S1_source.

Example C08_refines_S1_source_ex :
  grun Z.eqb 0 0 (fun _ : Z => 1) pinned (ginit 2) [OPut 1 10; OPut 2 20; OGet 1; OPut 3 30; OHas 2; ORemove 1; OSize; OClear; OLen]
  = map FnRt.Ok [(RBool true, []); (RBool true, []); (RGet 10 true, []); (RBool true, [(2, 20)]); (RBool false, []);
                 (RBool true, [(1, 10)]); (RNum 1, []); (RUnit, [(3, 30)]); (RNum 0, [])].
Proof. vm_compute. reflexivity. Qed.

(* THE CODE AS IT IS (any heap whose pop never sifts up, in particular the pinned one): for every
   history on which the F2 trigger never fires (run_new_safe, see C08_lru_partial), every size
   function, every limit > 0: the generated functions answer exactly like the reference LRU S2 --
   eviction order included -- and no call panics.  Hypotheses of C08_lru_partial unchanged. *)
Theorem C08_lru_source :
  forall (K V : Type) (keqb : K -> K -> bool),
    (forall a b, keqb a b = true <-> a = b) ->
  forall (kzero : K) (vzero : V) (sizeOf : V -> Z),
  forall (hv : variant), pop_no_siftup hv = true ->
  forall (lim : Z) (ops : list (op K V)),
    0 < lim ->
    run_new_safe K V keqb kzero vzero sizeOf hv lim ops = true ->
    grun keqb kzero vzero sizeOf hv (ginit lim) ops = map FnRt.Ok (s2_run K V keqb vzero sizeOf lim [] ops).
Proof. exact lru_source. Qed.
Print Assumptions C08_lru_source.

(* the 20-call history of C08_lru_partial_ex (Get/Remove of interior heap slots, six evictions) *)
Example C08_lru_source_ex :
  let h := [OPut 0 10; OPut 1 11; OPut 2 12; OPut 3 13; OPut 4 14; OPut 5 15; OPut 6 16; OPut 7 17;
            OGet 4; ORemove 3; OPut 3 23; OGet 4; OPut 2 22; ORemove 5; OHas 1; OPut 8 18; OPut 1 21; OPut 9 19; OGet 0; OPut 10 20] in
  run_new_safe Z Z Z.eqb 0 0 (fun _ => 1) pinned 7 h = true /\
  grun Z.eqb 0 0 (fun _ : Z => 1) pinned (ginit 7) h = map FnRt.Ok (s2_run Z Z Z.eqb 0 (fun _ => 1) 7 [] h) /\
  nth 17 (grun Z.eqb 0 0 (fun _ : Z => 1) pinned (ginit 7) h) FnRt.OutOfFuel = FnRt.Ok (RBool true, [(6, 16)]).
Proof. cbv zeta. repeat split; vm_compute; reflexivity. Qed.

(* ... in particular for every SETTLED history (a condition on the history alone: CacheSpec.settled,
   see C08_lru_settled_partial). *)
Theorem C08_lru_settled_source :
  forall (K V : Type) (keqb : K -> K -> bool),
    (forall a b, keqb a b = true <-> a = b) ->
  forall (kzero : K) (vzero : V) (sizeOf : V -> Z),
  forall (hv : variant), pop_no_siftup hv = true ->
  forall (lim : Z) (ops : list (op K V)),
    0 < lim ->
    settled K V keqb vzero sizeOf lim true [] ops = true ->
    grun keqb kzero vzero sizeOf hv (ginit lim) ops = map FnRt.Ok (s2_run K V keqb vzero sizeOf lim [] ops).
Proof. exact lru_settled_source. Qed.
Print Assumptions C08_lru_settled_source.
Example C08_lru_settled_source_ex :
  settled Z Z Z.eqb 0 (fun _ => 1) 2 true [] [OPut 1 10; OPut 2 20; OGet 1; OPut 3 30; OGet 2] = true /\
  grun Z.eqb 0 0 (fun _ : Z => 1) pinned (ginit 2) [OPut 1 10; OPut 2 20; OGet 1; OPut 3 30; OGet 2]
  = map FnRt.Ok [(RBool true, []); (RBool true, []); (RGet 10 true, []); (RBool true, [(2, 20)]); (RGet 0 false, [])].
Proof. split; vm_compute; reflexivity. Qed.

(* cache.go and lru.go as generated are a correct LRU over a correct heap: with the heap model's two
   findings repaired, EVERY history, every size function (zero and negative included): exactly the
   reference S2.  (The heap of the code as it is is the pinned one: C08_victim_refuted.) *)
Theorem C08_refines_S2_over_repaired_heap_source :
  forall (K V : Type) (keqb : K -> K -> bool),
    (forall a b, keqb a b = true <-> a = b) ->
  forall (kzero : K) (vzero : V) (sizeOf : V -> Z),
  forall (lim : Z) (ops : list (op K V)),
    0 < lim ->
    grun keqb kzero vzero sizeOf repaired (ginit lim) ops = map FnRt.Ok (s2_run K V keqb vzero sizeOf lim [] ops).
Proof. exact refines_S2_repaired_source. Qed.
Print Assumptions C08_refines_S2_over_repaired_heap_source.
Example C08_refines_S2_over_repaired_heap_source_ex :
  nth 14 (grun Z.eqb 0 0 (fun _ : Z => 1) repaired (ginit 7) CacheWitness.f2_history) FnRt.OutOfFuel = FnRt.Ok (RBool true, [(5, 15)]) /\
  nth 14 (grun Z.eqb 0 0 (fun _ : Z => 1) pinned (ginit 7) CacheWitness.f2_history) FnRt.OutOfFuel = FnRt.Ok (RBool true, [(6, 16)]).
Proof. split; vm_compute; reflexivity. Qed.

(* The verdict of every call, failures included: from every cache state the run of the generated
   functions is the model's run (panics through their messages), unless the model's own loop fuel
   ran out (which the theorems above exclude on reachable states). *)
Theorem C08_run_is_source :
  forall (K V : Type) (keqb : K -> K -> bool) (kzero : K) (vzero : V) (sizeOf : V -> Z) (hv : variant)
         (ops : list (op K V)) (c : cache K V),
    ~ In EFuel (run K V keqb kzero vzero sizeOf hv c ops) ->
    grun keqb kzero vzero sizeOf hv (grep c) ops = map emb_event (run K V keqb kzero vzero sizeOf hv c ops).
Proof. exact @grun_le. Qed.
Print Assumptions C08_run_is_source.
(* an ill-formed state: present says key 1 is stored, the heap is empty, count says 1: Clear's Evict panics *)
Example C08_run_is_source_ex :
  let c := {| store := {| present := [(1, 0)]; access := New (prio Z Z) (compare_prio Z Z); clock := 0 |}; csize := 1; count := 1; limit := 2 |} in
  grun Z.eqb 0 0 (fun _ : Z => 1) pinned (grep c) [OLen; OClear; OLen]
  = [FnRt.Ok (RNum 1, []); FnRt.Panic (FnRt.PMsg "lru evict: no entries left")].
Proof. vm_compute. reflexivity. Qed.
