(* C05 at source level -- statements of Props/C05.v re-stated for a state machine whose
   operations call the FUNCTIONS GENERATED from heapq/heapq.go (Gen/FnHeapq.v, regenerated on
   every run).  Only statements; the proofs (GenTie/HeapqSource.v) compose the per-function ties
   C05_*_is_source / C06_Remove_is_source with the model-level theorems.

   Reading guide.  [gstep zero sp q o] (GenTie/HeapqSource.v): the model's state {data; qcmp} and
   the model's op/out types; every operation calls the generated function of that name on
   (q.data, q.cmp) with fuel 2 + len (above every bound of the ties) and returns its results and
   the calls of q.move it made, in order, as the step's move log.  [ghist G P q ops] is
   HeapqSpec.hist with [gstep] in the place of the model's [step]: as long as the guard G lets through
   the next op, the generated step answers Ok (no panic, no fuel exhaustion) and satisfies P.
   Conventions (spelled out in HeapqSource.v): Front's zero value is told from an element by the
   generated IsEmpty; the panic("index out of range") of Remove/Peek for n < 0 is recorded as
   the output RPanic with the state unchanged, as the model does (the generated functions return no
   state at a panic: that part is read off the generated code, not derived from the ties);
   [sp] is the spare capacity handed to the generated Set: arbitrary, every statement is for all sp.

   COVERED: New, NewWithData, Add, Pop, Remove, Set, Reorder, Clear, Len, IsEmpty, Front, Peek.
   The statements are about the code AS IT IS ([current_variant], findings F1/F2 included): the
   model-level theorems hold for every variant, the ties for the current one.
   NOT COVERED (they stay with the model-level theorems + correspondence): Sort and Update (not
   translated: C05_sort, the installation of the callback), Each as an operation of histories (the
   generated Each takes a pure callback and returns unit; C05_Each_is_source ties its control flow
   for every state), Go's int width (C05_index_arithmetic_in_range), slice aliasing of Set /
   NewWithData's argument. *)
From Coq Require Import ZArith List Bool Permutation.
Set Warnings "-notation-overridden".
From Mds Require Import Common.FnRt.
Import ListNotations.
From Mds Require Import Heapq.HeapqModel Heapq.HeapqSpec Heapq.HeapqOrder Heapq.HeapqTriggerSpec Heapq.HeapqInst.
From Mds Require Import GenTie.HeapqSource.
Local Open Scope Z_scope.

(* Contents, for the code as it is: every element type, every comparison function (no contract),
   every spare capacity, every history of the covered operations from every state: no generated
   call fails; after Add the contents are a permutation of the new element plus the old contents and
   Add's result is the offset of the new element; Pop/Remove(i) return what was at offset 0/i and
   the old contents are a permutation of that element plus the new contents; ... exactly the
   postcondition of C05_conservation (HeapqSpec.conserved, cmp_kept). *)
Theorem C05_conservation_source : forall (T : Type) (zero : T) (sp : queue T -> list T)
    (ops : list (op T)) (q : queue T),
  forallb src_op ops = true ->
  ghist zero sp (fun _ _ => True) (fun q o r m q' => conserved T q o r m q' /\ cmp_kept T q o q') q ops.
Proof. exact conservation_source. Qed.
Print Assumptions C05_conservation_source.

(* the history of C05_conservation_example, run through the generated functions: same outputs,
   same move logs; Remove(-1) is the panic statement; Each is not an operation here *)
Example C05_conservation_source_example :
  let zc := fun a b : Z => a - b in
  grun 0 (fun _ => []) (New Z zc) [OAdd 5; OAdd 3; OAdd 3; OPop; ORemove 1; OLen; ORemove (-1); OFront; OSet [4; 2; 9]; OPeek 0]
  = [FnRt.Ok (RIdx 0, [(5, 0)]); FnRt.Ok (RIdx 0, [(3, 1); (5, 1); (3, 0)]); FnRt.Ok (RIdx 1, [(3, 2); (5, 2); (3, 1)]);
     FnRt.Ok (RVal (Some 3), [(5, 0); (3, 0); (5, 1)]); FnRt.Ok (RVal (Some 5), [(5, 1)]); FnRt.Ok (RNum 1, []);
     FnRt.Ok (RPanic, []); FnRt.Ok (RVal (Some 3), []);
     FnRt.Ok (RUnit, [(9, 2); (2, 1); (4, 0); (2, 0); (4, 1)]); FnRt.Ok (RVal (Some 2), [])] /\
  grun 0 (fun _ => []) (New Z zc) [OAdd 5; OEach 0] = [FnRt.Ok (RIdx 0, [(5, 0)]); FnRt.Panic (FnRt.PMsg "not translated"%string)] /\
  FnHeapq.Remove [5; 7] zc (-1) 0 4 = FnRt.Panic (FnRt.PMsg "index out of range"%string).
Proof. cbv zeta. repeat split; vm_compute; reflexivity. Qed.

(* Order, for the code as it is (findings F1/F2 present): every history of covered operations all of
   which are OUTSIDE THE TRIGGERS of the two findings (HeapqTriggerSpec.v; see C05_min_partial),
   with comparison functions keeping New's contract, started from a valid heap: no generated call
   fails and Front and Pop answer with an element minimal among those held. *)
Theorem C05_min_partial_source : forall (T : Type) (zero : T) (sp : queue T -> list T)
    (ops : list (op T)) (q : queue T),
  forallb src_op ops = true -> inv T q ->
  ghist zero sp (fun q o => op_wf T o /\ outside_triggers T current_variant q o) (min_answer T) q ops.
Proof. exact min_partial_source. Qed.
Print Assumptions C05_min_partial_source.
Example C05_min_partial_source_example :
  map (fun r => match r with FnRt.Ok (RVal (Some y), _) => y | _ => -1 end)
      (grun 0 (fun _ => []) (New Z zcmp) [OAdd 5; OAdd 3; OAdd 2; OAdd 1; OAdd 9; ORemove 3; OPop; OPop; OPop; OPop])
  = [-1; -1; -1; -1; -1; 3; 1; 2; 5; 9].
Proof. vm_compute. reflexivity. Qed.

(* The transfer itself: EVERY statement of the form HeapqSpec.hist G P about the model at the
   current variant holds of the generated state machine, on histories of covered operations. *)
Theorem C05_hist_is_source : forall (T : Type) (zero : T) (sp : queue T -> list T)
    (G : queue T -> op T -> Prop) (P : queue T -> op T -> out T -> moves T -> queue T -> Prop)
    (ops : list (op T)) (q : queue T),
  forallb src_op ops = true -> hist T G P current_variant q ops -> ghist zero sp G P q ops.
Proof. exact @ghist_of_hist. Qed.
Print Assumptions C05_hist_is_source.
Example C05_hist_is_source_example :
  current_variant = pinned /\
  gstep 0 (fun _ => [7; 7; 7]) {| data := [1; 2]; qcmp := zcmp |} (OSet [6; 4; 5])
  = FnRt.Ok ({| data := [4; 6; 5]; qcmp := zcmp |}, (RUnit, [(5, 2); (4, 1); (6, 0); (4, 0); (6, 1)])).
Proof. split; vm_compute; reflexivity. Qed.

(* One step: for every state, every covered operation, every spare capacity, the generated step
   returns the model's verdict (result, new state, move log; an index panic inside the package as
   Panic PIndex) whenever that verdict is not the model's own OutOfFuel. *)
Theorem C05_step_is_source : forall (T : Type) (zero : T) (sp : queue T -> list T) (q : queue T) (o : op T),
  src_op o = true ->
  TieLib.res_le (HeapqTieBase.embf (fun x => x) (step T current_variant q o)) (gstep zero sp q o).
Proof. exact @gstep_le. Qed.
Print Assumptions C05_step_is_source.
Example C05_step_is_source_example :
  gstep 0 (fun _ => []) {| data := [1; 2]; qcmp := zcmp |} (OPeek (-3)) = FnRt.Ok ({| data := [1; 2]; qcmp := zcmp |}, (RPanic, [])) /\
  gstep 0 (fun _ => []) {| data := []; qcmp := zcmp |} OFront = FnRt.Ok ({| data := []; qcmp := zcmp |}, (RVal None, [])) /\
  gstep 0 (fun _ => []) {| data := [0]; qcmp := zcmp |} OFront = FnRt.Ok ({| data := [0]; qcmp := zcmp |}, (RVal (Some 0), [])).
Proof. repeat split; vm_compute; reflexivity. Qed.
