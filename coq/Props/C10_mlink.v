(* C10 (stack and mlink parts) -- stack.Stack, mlink.List edited through cursors, mlink.Queue
   preserve their abstract sequence.  Only statements, each closed by [exact] of a lemma proved
   elsewhere.  The models (Stack/StackModel.v, Mlink/MlinkModel.v) are transcriptions of the Go
   code whose conditions, pointer assignments, index arithmetic and call counts are regenerated
   from the source (Gen/StackIdx.v, Gen/MlinkFacts.v, Gen/MlinkList.v, Gen/MlinkQueue.v); the
   references are Mlink/MlinkSpec.v (list + cursor positions At i | Stale; FIFO list) and the
   [sastep] part of Stack/StackModel.v (LIFO list).  Elements are any type T with its Go zero
   value; Find/Each callbacks are any pure function T -> bool. *)
From Coq Require Import ZArith List.
Import ListNotations.
From Mds Require Import Mlink.MlinkModel Mlink.MlinkSpec Mlink.MlinkBasics Mlink.MlinkChain
  Mlink.MlinkProofs Mlink.MlinkQueueProofs Mlink.MlinkSpecFacts Stack.StackModel Stack.StackProofs.

(* ---- stack.Stack ---- *)

(* For every history of Push/Add/IsEmpty/Clear/Top/Peek/Pop/Each/Len/Slice the slice model
   returns exactly the outputs of the LIFO reference (newest first): same values, same ok flags,
   the only panic is Peek of a negative offset, no loop runs out of fuel. *)
Theorem C10_stack_lifo : forall (T : Type) (zero : T) (ops : list (sop T)),
  srun T zero [] ops = sarun T zero [] ops.
Proof. exact stack_lifo. Qed.
Print Assumptions C10_stack_lifo.

Example C10_stack_lifo_ex :
  srun Z 0%Z [] [SPush Z 1%Z; SPush Z 2%Z; SPeek Z 1%Z; SPop Z; SEach Z (fun _ => true); SPeek Z (-1)%Z; SSlice Z]
  = [TUnit Z; TUnit Z; TValBool Z 1%Z true; TValBool Z 2%Z true; TList Z [1%Z]; TPanic Z; TList Z [1%Z]].
Proof. vm_compute. reflexivity. Qed.

(* ---- mlink.List through any number of cursors ---- *)

(* Refinement over whole histories: every output (values, flags, Each sequences, Len, panics) of
   the heap model equals the output of the abstract semantics, in which contents are a list and
   a cursor is At i or Stale, edited by the documented before/after pictures. *)
Theorem C10_list_refinement : forall (T : Type) (zero : T) (ops : list (op T)),
  run T zero (init T zero) ops = arun T zero (ainit T) ops.
Proof. exact list_refinement. Qed.
Print Assumptions C10_list_refinement.

Example C10_list_refinement_ex :
  run Z 0%Z (init Z 0%Z)
    [OEnd; OAdd 0 [1;2;3]%Z; OAt 1; OAt 2; ORemove 1; OGet 1; OGet 2; OTruncate 1; OEnd; OAdd 3 [7]%Z; OEach (fun _ => true); OLen]
  = [RUnit; RUnit; RUnit; RUnit; RVal 2%Z; RVal 3%Z; RPanic InvalidCursor; RUnit; RUnit; RUnit; RList [1;7]%Z; RInt 2%Z].
Proof. vm_compute. reflexivity. Qed.

(* The reference's Add ("a shorthand for Push followed by Next", folded over the values) has the
   closed form of the documentation picture: through a cursor at index i <= len the values appear
   at i.. in order, the rest keeps its order, and the cursor ends just after them. *)
Theorem C10_add_picture : forall (T : Type) (vs l : list T) (ps : list cpos) (k i : nat),
  nth_error ps k = Some (At i) -> i <= length l ->
  fst (fst (aadd T k vs (l, ps))) = firstn i l ++ vs ++ skipn i l /\
  nth_error (snd (fst (aadd T k vs (l, ps)))) k = Some (At (i + length vs)) /\
  snd (aadd T k vs (l, ps)) = RUnit.
Proof. exact aadd_picture. Qed.
Print Assumptions C10_add_picture.

Example C10_add_picture_ex : nth_error [At 0; At 1] 1 = Some (At 1) /\ 1 <= length [1;2;3]%Z.
Proof. split; [reflexivity|cbn; auto]. Qed.

(* Invariant of every reachable state, tied to the reference state [R (heap, preds) (list, positions)]:
   there is a duplicate-free chain ch = 0 :: c from the sentinel to nil such that every cell of
   the heap is on ch or self-linked (wf), the values along c are exactly the reference list, and
   every cursor handed out has its pred inside the heap -- the chain cell number i when the
   reference says At i, a self-linked cell when it says Stale. *)
Theorem C10_list_invariant : forall (T : Type) (zero : T) (ops : list (op T)),
  R T zero (run_state T zero (init T zero) ops) (arun_state T zero (ainit T) ops).
Proof. exact reachable_R. Qed.
Print Assumptions C10_list_invariant.

(* No operation of any history hangs (OutOfFuel in a fuelled Go loop) or touches a dangling address. *)
Theorem C10_list_never_hangs : forall (T : Type) (zero : T) (ops : list (op T)),
  ~ In RHang (run T zero (init T zero) ops) /\ ~ In RBad (run T zero (init T zero) ops).
Proof. exact never_hangs. Qed.
Print Assumptions C10_list_never_hangs.

(* After any history, every use (Get, Set, AtEnd, Next, Push, Add of at least one value, Remove,
   Truncate) of a cursor the reference calls Stale panics "invalid cursor" and leaves the heap and
   all cursors unchanged. *)
Theorem C10_stale_cursor_panics : forall (T : Type) (zero : T) (ops : list (op T)) (k : nat) (o : op T),
  nth_error (snd (arun_state T zero (ainit T) ops)) k = Some Stale -> uses_cursor T o k ->
  step T zero (run_state T zero (init T zero) ops) o = (run_state T zero (init T zero) ops, RPanic InvalidCursor).
Proof. exact stale_cursor_panics. Qed.
Print Assumptions C10_stale_cursor_panics.

Example C10_stale_cursor_panics_ex :
  nth_error (snd (arun_state Z 0%Z (ainit Z) [OEnd; OAdd 0 [1;2]%Z; OAt 1; OAt 0; ORemove 2])) 1 = Some Stale
  /\ uses_cursor Z (OTruncate 1) 1.
Proof. split; vm_compute; reflexivity. Qed.

(* The same at heap level, without any invariant: whenever a cursor's pred is self-linked. *)
Theorem C10_stale_refuses : forall (T : Type) (zero : T) (h : heap T) (cs : list nat) (k a : nat) (o : op T),
  nth_error cs k = Some a -> a < length h -> lnk T h a = Ptr a -> uses_cursor T o k ->
  step T zero (h, cs) o = ((h, cs), RPanic InvalidCursor).
Proof. exact stale_refuses. Qed.
Print Assumptions C10_stale_refuses.

Example C10_stale_refuses_ex :
  let h := [(0, Ptr 2); (1, Ptr 1); (2, Nil)]%Z in
  nth_error [1] 0 = Some 1 /\ 1 < length h /\ lnk Z h 1 = Ptr 1 /\ uses_cursor Z (OPush 0 5%Z) 0.
Proof. vm_compute. repeat split; auto. Qed.

(* F7, for the record: with Truncate as it was before repair e389bb4 (no checkValid), Truncate
   through a cursor whose pred is self-linked never returns, whatever the fuel ... *)
Theorem C10_F7_pinned_truncate_hangs : forall (T : Type) (zero : T) (h : heap T) (cs : list nat) (k a : nat),
  nth_error cs k = Some a -> a < length h -> lnk T h a = Ptr a ->
  step_pinned T zero (h, cs) (OTruncate k) = ((h, cs), RHang).
Proof. exact pinned_truncate_hangs. Qed.
Print Assumptions C10_F7_pinned_truncate_hangs.

Theorem C10_F7_invalidate_spins : forall (T : Type) (zero : T) (h : heap T) (a : nat),
  a < length h -> lnk T h a = Ptr a -> forall fuel p, invalidate T fuel (Ptr a) (h, p) = OutOfFuel.
Proof. exact invalidate_self_spins. Qed.
Print Assumptions C10_F7_invalidate_spins.

(* ... and on the pre-fix witness (corpus/C10_mlink/f7_truncate_stale.in, line 1) the old code
   hangs where the repaired code panics. *)
Definition f7_witness : list (op Z) := [OEnd; OAdd 0 [1;2]%Z; OAt 1; OAt 0; ORemove 2; OTruncate 1].
Theorem C10_F7_witness :
  run_pinned Z 0%Z (init Z 0%Z) f7_witness = [RUnit; RUnit; RUnit; RUnit; RVal 1%Z; RHang] /\
  run Z 0%Z (init Z 0%Z) f7_witness = [RUnit; RUnit; RUnit; RUnit; RVal 1%Z; RPanic InvalidCursor].
Proof. split; vm_compute; reflexivity. Qed.
Print Assumptions C10_F7_witness.

(* ---- mlink.Queue ---- *)

(* For every history of Add/Pop/Front/Peek/Each/Clear/Len/IsEmpty, from NewQueue() and from a
   zero Queue, the outputs are those of the FIFO reference -- including Add after the queue was
   emptied by Pop or Clear (the cached tail cursor is reset; M23). *)
Theorem C10_queue_fifo : forall (T : Type) (zero : T) (ops : list (qop T)),
  qrun T zero (new_queue T zero) ops = aqrun T zero [] ops /\
  qrun T zero (zero_queue T zero) ops = aqrun T zero [] ops.
Proof. exact queue_fifo. Qed.
Print Assumptions C10_queue_fifo.

Example C10_queue_fifo_ex :
  qrun Z 0%Z (zero_queue Z 0%Z) [QAdd 1%Z; QPop; QAdd 2%Z; QAdd 3%Z; QPop; QPop; QPop; QAdd 4%Z; QFront; QLen]
  = [RUnit; RValBool 1%Z true; RUnit; RUnit; RValBool 2%Z true; RValBool 3%Z true; RValBool 0%Z false; RUnit; RVal 4%Z; RInt 1%Z].
Proof. vm_compute. reflexivity. Qed.
