(* C10 (stack and mlink parts).  Only statements, each closed by [exact] of a lemma proved elsewhere. *)
From Coq Require Import ZArith List.
Import ListNotations.
From Mds Require Import Mlink.MlinkModel Mlink.MlinkSpec Stack.StackModel.
