(* C10 (stack and mlink parts) -- stack.Stack, mlink.List edited through cursors, mlink.Queue
   preserve their abstract sequence.  Only statements, each closed by [exact] of a lemma proved
   elsewhere.  The models (Stack/StackModel.v, Mlink/MlinkModel.v) are transcriptions of the Go
   code whose conditions, pointer assignments, index arithmetic and call counts are regenerated
   from the source (Gen/StackIdx.v, Gen/MlinkFacts.v, Gen/MlinkList.v, Gen/MlinkQueue.v); the
   references are Mlink/MlinkSpec.v (list + cursor positions At i | Stale; FIFO list) and the
   [sastep] part of Stack/StackModel.v (LIFO list).  Elements are any type T with its Go zero
   value; Find/Each callbacks are any pure function T -> bool.  Cursor is a value type: histories
   include struct copies (OCopy), struct assignment (OAssign) and cursors that were never
   positioned (ONilCursor: a nil pointer or the zero Cursor). *)
From Coq Require Import ZArith List.
Import ListNotations.
From Mds Require Import Mlink.MlinkModel Mlink.MlinkSpec Mlink.MlinkBasics Mlink.MlinkChain
  Mlink.MlinkProofs Mlink.MlinkQueueProofs Mlink.MlinkSpecFacts Mlink.MlinkProofsInt
  Stack.StackModel Stack.StackProofs Stack.StackProofsInt Gen.StackIdx Gen.MlinkList.

(* ---- stack.Stack ---- *)

(* For every history of Push/Add/IsEmpty/Clear/Top/Peek/Pop/Each/Len/Slice the slice model
   returns exactly the outputs of the LIFO reference (newest first): same values, same ok flags,
   the only panic is Peek of a negative offset, no loop runs out of fuel. *)
Theorem C10_stack_lifo : forall (T : Type) (zero : T) (ops : list (sop T)),
  srun T zero [] ops = sarun T zero [] ops.
Proof. exact stack_lifo. Qed.
Print Assumptions C10_stack_lifo.

Example C10_stack_lifo_ex :
  srun Z 0%Z [] [SPush Z 1%Z; SPush Z 2%Z; SPeek Z 1%Z; SPop Z; SEach Z (fun _ => true); SPeek Z (-1)%Z; SSlice Z]
  = [TUnit Z; TUnit Z; TValBool Z 1%Z true; TValBool Z 2%Z true; TList Z [1%Z]; TPanic Z; TList Z [1%Z]].
Proof. vm_compute. reflexivity. Qed.

(* Machine ints.  Peek's index len-1-n is the only arithmetic on a caller's int.  Evaluated with
   64-bit wrap-around (peek_w wrap64) it gives, for EVERY 64-bit n -- the minimum int, whose
   negation overflows, included -- and every slice length below 2^63, exactly the result of the
   unbounded-Z model used above: same value, same flag, same index panic. *)
Theorem C10_stack_peek_int64 : forall (T : Type) (zero : T) (l : list T) (n : Z),
  StackProofsInt.int64 n -> (zlen T l < 2 ^ 63)%Z ->
  peek_w T zero StackProofsInt.wrap64 n l = peek T zero n l.
Proof. exact peek_int64. Qed.
Print Assumptions C10_stack_peek_int64.

Example C10_stack_peek_int64_ex :
  StackProofsInt.int64 (- 2 ^ 63)%Z /\ (zlen Z [1;2;3]%Z < 2 ^ 63)%Z /\
  peek_w Z 0%Z StackProofsInt.wrap64 (- 2 ^ 63)%Z [1;2;3]%Z = SPanic /\
  StackProofsInt.wrap64 (peek_idx (- 2 ^ 63) 3)%Z = (-9223372036854775806)%Z.
Proof. vm_compute. repeat split; intros; discriminate. Qed.

(* ---- mlink.List through any number of cursors ---- *)

(* Refinement over whole histories: every output (values, flags, Each sequences, Len, panics) of
   the heap model equals the output of the abstract semantics, in which contents are a list and
   a cursor is At i or Stale, edited by the documented before/after pictures. *)
Theorem C10_list_refinement : forall (T : Type) (zero : T) (ops : list (op T)),
  run T zero (init T zero) ops = arun T zero (ainit T) ops.
Proof. exact list_refinement. Qed.
Print Assumptions C10_list_refinement.

Example C10_list_refinement_ex :
  run Z 0%Z (init Z 0%Z)
    [OEnd; OAdd 0 [1;2;3]%Z; OAt 1; OAt 2; ORemove 1; OGet 1; OGet 2; OTruncate 1; OEnd; OAdd 3 [7]%Z; OEach (fun _ => true); OLen]
  = [RUnit; RUnit; RUnit; RUnit; RVal 2%Z; RVal 3%Z; RPanic InvalidCursor; RUnit; RUnit; RUnit; RList [1;7]%Z; RInt 2%Z].
Proof. vm_compute. reflexivity. Qed.

(* copies are independent values: #1 is a copy of #0 taken at index 0; advancing #0 leaves #1
   where it was; removing through #1 makes #0 (now just after the removed element) stale and a
   copy of it (#2) equally stale; assigning #1 to #0 repositions #0; #3 was never positioned *)
Example C10_list_refinement_copies_ex :
  run Z 0%Z (init Z 0%Z)
    [OAt 0; OAdd 0 [1;2;3]%Z; OAt 0; OCopy 1; ONext 1; OGet 1; OGet 2; ORemove 2; OCopy 1; OGet 1; OGet 3;
     OAssign 1 2; OGet 1; ONilCursor; OGet 4; OAdd 4 []; OAdd 4 [5]%Z; OCopy 4; OAtEnd 5; OEach (fun _ => true)]
  = [RUnit; RUnit; RUnit; RUnit; RBool true; RVal 2%Z; RVal 1%Z; RVal 1%Z; RUnit; RPanic InvalidCursor; RPanic InvalidCursor;
     RUnit; RVal 2%Z; RUnit; RPanic NilDeref; RUnit; RPanic NilDeref; RUnit; RPanic NilDeref; RList [2;3]%Z].
Proof. vm_compute. reflexivity. Qed.

(* The documentation's own before/after pictures (mlink/list.go), run on the heap model. *)
Theorem C10_doc_pictures :
  (* Set:      [1,2,3], c at 1, c.Set(9)      -> [1,9,3], c at 1 *)
  run Z 0%Z (init Z 0%Z) [OEnd; OAdd 0 [1;2;3]%Z; OAt 1; OSet 1 9%Z; OEach (fun _ => true); OGet 1]
    = [RUnit; RUnit; RUnit; RUnit; RList [1;9;3]%Z; RVal 9%Z] /\
  (* Push:     [1,2,3], c at 0, c.Push(4)     -> [4,1,2,3], c at 0 (the new item), old value at c.Next() *)
  run Z 0%Z (init Z 0%Z) [OEnd; OAdd 0 [1;2;3]%Z; OAt 0; OPush 1 4%Z; OEach (fun _ => true); OGet 1; ONext 1; OGet 1]
    = [RUnit; RUnit; RUnit; RUnit; RList [4;1;2;3]%Z; RVal 4%Z; RBool true; RVal 1%Z] /\
  (* Add:      [1,2,3], c at 0, c.Add(4)      -> [4,1,2,3], c at 1 (the original item) *)
  run Z 0%Z (init Z 0%Z) [OEnd; OAdd 0 [1;2;3]%Z; OAt 0; OAdd 1 [4]%Z; OEach (fun _ => true); OGet 1]
    = [RUnit; RUnit; RUnit; RUnit; RList [4;1;2;3]%Z; RVal 1%Z] /\
  (* Remove:   [1,2,3,4], c at 1, c.Remove()  -> 2, [1,3,4], c at 1 (the element after) *)
  run Z 0%Z (init Z 0%Z) [OEnd; OAdd 0 [1;2;3;4]%Z; OAt 1; ORemove 1; OEach (fun _ => true); OGet 1]
    = [RUnit; RUnit; RUnit; RVal 2%Z; RList [1;3;4]%Z; RVal 3%Z] /\
  (* Truncate: [1,2,3,4], c at 2, c.Truncate() -> [1,2], c.AtEnd() *)
  run Z 0%Z (init Z 0%Z) [OEnd; OAdd 0 [1;2;3;4]%Z; OAt 2; OTruncate 1; OEach (fun _ => true); OAtEnd 1]
    = [RUnit; RUnit; RUnit; RUnit; RList [1;2]%Z; RBool true].
Proof. vm_compute. repeat split; reflexivity. Qed.
Print Assumptions C10_doc_pictures.

(* The reference's Add ("a shorthand for Push followed by Next", folded over the values) has the
   closed form of the documentation picture: through a cursor at index i <= len the values appear
   at i.. in order, the rest keeps its order, and the cursor ends just after them. *)
Theorem C10_add_picture : forall (T : Type) (vs l : list T) (ps : list cpos) (k i : nat),
  nth_error ps k = Some (At i) -> i <= length l ->
  fst (fst (aadd T k vs (l, ps))) = firstn i l ++ vs ++ skipn i l /\
  nth_error (snd (fst (aadd T k vs (l, ps)))) k = Some (At (i + length vs)) /\
  snd (aadd T k vs (l, ps)) = RUnit.
Proof. exact aadd_picture. Qed.
Print Assumptions C10_add_picture.

Example C10_add_picture_ex : nth_error [At 0; At 1] 1 = Some (At 1) /\ 1 <= length [1;2;3]%Z.
Proof. split; [reflexivity|cbn; auto]. Qed.

(* Machine ints in At / Peek (list and queue): a negative offset panics before any arithmetic; a
   non-negative counter is only decremented while non-zero, so it stays within [0, n] -- in
   range for every 64-bit argument. *)
Theorem C10_at_counter_in_range : forall n : Z, MlinkProofsInt.int64 n -> at_neg n = false -> at_found n = false ->
  MlinkProofsInt.int64 (at_dec n) /\ at_neg (at_dec n) = false /\ (at_dec n < n)%Z.
Proof. exact at_counter_in_range. Qed.
Print Assumptions C10_at_counter_in_range.

Example C10_at_counter_in_range_ex :
  MlinkProofsInt.int64 (2 ^ 63 - 1)%Z /\ at_neg (2 ^ 63 - 1)%Z = false /\ at_found (2 ^ 63 - 1)%Z = false.
Proof. vm_compute. repeat split; intros; discriminate. Qed.

(* Invariant of every reachable state, tied to the reference state [R (heap, preds) (list, positions)]:
   there is a duplicate-free chain ch = 0 :: c from the sentinel to nil such that every cell of
   the heap is on ch or self-linked (wf), the values along c are exactly the reference list, and
   every cursor handed out has its pred inside the heap -- the chain cell number i when the
   reference says At i, a self-linked cell when it says Stale. *)
Theorem C10_list_invariant : forall (T : Type) (zero : T) (ops : list (op T)),
  R T zero (run_state T zero (init T zero) ops) (arun_state T zero (ainit T) ops).
Proof. exact reachable_R. Qed.
Print Assumptions C10_list_invariant.

(* No operation of any history hangs (OutOfFuel in a fuelled Go loop) or touches a dangling address. *)
Theorem C10_list_never_hangs : forall (T : Type) (zero : T) (ops : list (op T)),
  ~ In RHang (run T zero (init T zero) ops) /\ ~ In RBad (run T zero (init T zero) ops).
Proof. exact never_hangs. Qed.
Print Assumptions C10_list_never_hangs.

(* After any history, every use (Get, Set, AtEnd, Next, Push, Add of at least one value, Remove,
   Truncate) of a cursor the reference calls Stale panics "invalid cursor" and leaves the heap and
   all cursors unchanged. *)
Theorem C10_stale_cursor_panics : forall (T : Type) (zero : T) (ops : list (op T)) (k : nat) (o : op T),
  nth_error (snd (arun_state T zero (ainit T) ops)) k = Some Stale -> uses_cursor T o k ->
  step T zero (run_state T zero (init T zero) ops) o = (run_state T zero (init T zero) ops, RPanic InvalidCursor).
Proof. exact stale_cursor_panics. Qed.
Print Assumptions C10_stale_cursor_panics.

Example C10_stale_cursor_panics_ex :
  nth_error (snd (arun_state Z 0%Z (ainit Z) [OEnd; OAdd 0 [1;2]%Z; OAt 1; OAt 0; ORemove 2])) 1 = Some Stale
  /\ uses_cursor Z (OTruncate 1) 1.
Proof. split; vm_compute; reflexivity. Qed.

(* The same at heap level, without any invariant: whenever a cursor's pred is self-linked. *)
Theorem C10_stale_refuses : forall (T : Type) (zero : T) (h : heap T) (cs : list link) (k a : nat) (o : op T),
  nth_error cs k = Some (Ptr a) -> a < length h -> lnk T h a = Ptr a -> uses_cursor T o k ->
  step T zero (h, cs) o = ((h, cs), RPanic InvalidCursor).
Proof. exact stale_refuses. Qed.
Print Assumptions C10_stale_refuses.

Example C10_stale_refuses_ex :
  let h := [(0, Ptr 2); (1, Ptr 1); (2, Nil)]%Z in
  nth_error [Ptr 1] 0 = Some (Ptr 1) /\ 1 < length h /\ lnk Z h 1 = Ptr 1 /\ uses_cursor Z (OPush 0 5%Z) 0.
Proof. vm_compute. repeat split; auto. Qed.

(* The property's own wording, instantiated.  (1) After any history in which cursor kr designates
   an existing element (index i) and cursor k designates the next one: once kr.Remove() has run,
   EVERY use of k panics invalid-cursor and leaves heap and all cursors as they were. *)
Theorem C10_removed_neighbour_panics : forall (T : Type) (zero : T) (ops : list (op T)) (kr k i : nat) (o : op T),
  let a := arun_state T zero (ainit T) ops in
  nth_error (snd a) kr = Some (At i) -> i < length (fst a) ->
  nth_error (snd a) k = Some (At (S i)) -> uses_cursor T o k ->
  let m' := run_state T zero (init T zero) (ops ++ [ORemove kr]) in
  step T zero m' o = (m', RPanic InvalidCursor).
Proof. exact removed_neighbour_panics. Qed.
Print Assumptions C10_removed_neighbour_panics.

Example C10_removed_neighbour_panics_ex :
  let a := arun_state Z 0%Z (ainit Z) [OEnd; OAdd 0 [1;2;3]%Z; OAt 1; OAt 2] in
  nth_error (snd a) 1 = Some (At 1) /\ 1 < length (fst a) /\ nth_error (snd a) 2 = Some (At 2) /\ uses_cursor Z (OGet 2) 2.
Proof. vm_compute. repeat split; auto. Qed.

(* (2) kt.Truncate() at index i: every cursor at an index j > i (the end position included). *)
Theorem C10_truncated_tail_panics : forall (T : Type) (zero : T) (ops : list (op T)) (kt k i j : nat) (o : op T),
  let a := arun_state T zero (ainit T) ops in
  nth_error (snd a) kt = Some (At i) -> nth_error (snd a) k = Some (At j) -> i < j -> uses_cursor T o k ->
  let m' := run_state T zero (init T zero) (ops ++ [OTruncate kt]) in
  step T zero m' o = (m', RPanic InvalidCursor).
Proof. exact truncated_tail_panics. Qed.
Print Assumptions C10_truncated_tail_panics.

Example C10_truncated_tail_panics_ex :
  let a := arun_state Z 0%Z (ainit Z) [OEnd; OAdd 0 [1;2;3]%Z; OAt 1] in
  nth_error (snd a) 1 = Some (At 1) /\ nth_error (snd a) 0 = Some (At 3) /\ 1 < 3 /\ uses_cursor Z (OAdd 0 [7]%Z) 0.
Proof. vm_compute. repeat split; auto. Qed.

(* (3) List.Clear(): every cursor at an index j > 0.  (A cursor at index 0 holds the list's own
   sentinel as pred; it is not after any discarded element and stays valid, at the end of the
   now empty list -- C10_list_refinement, after_truncate 0.) *)
Theorem C10_cleared_panics : forall (T : Type) (zero : T) (ops : list (op T)) (k j : nat) (o : op T),
  let a := arun_state T zero (ainit T) ops in
  nth_error (snd a) k = Some (At j) -> 0 < j -> uses_cursor T o k ->
  let m' := run_state T zero (init T zero) (ops ++ [OClear]) in
  step T zero m' o = (m', RPanic InvalidCursor).
Proof. exact cleared_panics. Qed.
Print Assumptions C10_cleared_panics.

Example C10_cleared_panics_ex :
  let a := arun_state Z 0%Z (ainit Z) [OEnd; OAdd 0 [1;2]%Z] in
  nth_error (snd a) 0 = Some (At 2) /\ 0 < 2 /\ uses_cursor Z (ORemove 0) 0.
Proof. vm_compute. repeat split; auto. Qed.

(* A Cursor that was never positioned (nil pointer / zero value, pred == nil; also every copy of
   one): after any history every use panics with a nil dereference and changes nothing. *)
Theorem C10_nil_cursor_panics : forall (T : Type) (zero : T) (ops : list (op T)) (k : nat) (o : op T),
  nth_error (snd (arun_state T zero (ainit T) ops)) k = Some NoPred -> uses_cursor T o k ->
  step T zero (run_state T zero (init T zero) ops) o = (run_state T zero (init T zero) ops, RPanic NilDeref).
Proof. exact nil_cursor_panics. Qed.
Print Assumptions C10_nil_cursor_panics.

Example C10_nil_cursor_panics_ex :
  nth_error (snd (arun_state Z 0%Z (ainit Z) [OEnd; OAdd 0 [1;2]%Z; ONilCursor; OCopy 1])) 2 = Some NoPred
  /\ uses_cursor Z (OTruncate 2) 2.
Proof. split; vm_compute; reflexivity. Qed.

(* Statement order.  The model executes the statements of invalidate's loop body, of Remove, of
   Truncate, of List.Clear and of Queue.Pop in the order of their ordinals in the Go source
   (Gen: ord:assign / ord:call); this is that order, read back.  All closed forms -- and through
   them every theorem above -- are proved for this order; swapping two of the statements in the
   source changes the left-hand sides and breaks this theorem and those proofs. *)
Theorem C10_statement_order : forall (T : Type) (zero : T),
  inv_body T = [inv_next T; inv_self T; inv_adv T] /\
  rm_body T = [rm_val T; rm_next T; rm_self T; rm_new T] /\
  (forall n, tr_body T n = [tr_inval T n; tr_nil T]) /\
  cl_body T = [cl_inval T; cl_nil T] /\
  pop_body T zero = [pop_remove T zero; pop_size T; pop_reset T].
Proof. intros. repeat split. Qed.
Print Assumptions C10_statement_order.

(* the same interpreter puts swapped ordinals in swapped order *)
Example C10_statement_order_ex :
  in_order [(8, 1); (7, 2); (5, 3); (6, 4)]%Z = [3; 4; 2; 1]%Z.
Proof. reflexivity. Qed.

(* F7, for the record: with Truncate as it was before repair e389bb4 (no checkValid), Truncate
   through a cursor whose pred is self-linked never returns, whatever the fuel ... *)
Theorem C10_F7_pinned_truncate_hangs : forall (T : Type) (zero : T) (h : heap T) (cs : list link) (k a : nat),
  nth_error cs k = Some (Ptr a) -> a < length h -> lnk T h a = Ptr a ->
  step_pinned T zero (h, cs) (OTruncate k) = ((h, cs), RHang).
Proof. exact pinned_truncate_hangs. Qed.
Print Assumptions C10_F7_pinned_truncate_hangs.

Theorem C10_F7_invalidate_spins : forall (T : Type) (zero : T) (h : heap T) (a : nat),
  a < length h -> lnk T h a = Ptr a -> forall fuel p, invalidate T fuel (Ptr a) (h, p) = OutOfFuel.
Proof. exact invalidate_self_spins. Qed.
Print Assumptions C10_F7_invalidate_spins.

(* ... and on the pre-fix witness (corpus/C10_mlink/f7_truncate_stale.in, line 1) the old code
   hangs where the repaired code panics. *)
Definition f7_witness : list (op Z) := [OEnd; OAdd 0 [1;2]%Z; OAt 1; OAt 0; ORemove 2; OTruncate 1].
Theorem C10_F7_witness :
  run_pinned Z 0%Z (init Z 0%Z) f7_witness = [RUnit; RUnit; RUnit; RUnit; RVal 1%Z; RHang] /\
  run Z 0%Z (init Z 0%Z) f7_witness = [RUnit; RUnit; RUnit; RUnit; RVal 1%Z; RPanic InvalidCursor].
Proof. split; vm_compute; reflexivity. Qed.
Print Assumptions C10_F7_witness.

(* ---- mlink.Queue ---- *)

(* For every history of Add/Pop/Front/Peek/Each/Clear/Len/IsEmpty, from NewQueue() and from a
   zero Queue, the outputs are those of the FIFO reference -- including Add after the queue was
   emptied by Pop or Clear (the cached tail cursor is reset; M23). *)
Theorem C10_queue_fifo : forall (T : Type) (zero : T) (ops : list (qop T)),
  qrun T zero (new_queue T zero) ops = aqrun T zero [] ops /\
  qrun T zero (zero_queue T zero) ops = aqrun T zero [] ops.
Proof. exact queue_fifo. Qed.
Print Assumptions C10_queue_fifo.

Example C10_queue_fifo_ex :
  qrun Z 0%Z (zero_queue Z 0%Z) [QAdd 1%Z; QPop; QAdd 2%Z; QAdd 3%Z; QPop; QPop; QPop; QAdd 4%Z; QFront; QLen]
  = [RUnit; RValBool 1%Z true; RUnit; RUnit; RValBool 2%Z true; RValBool 3%Z true; RValBool 0%Z false; RUnit; RVal 4%Z; RInt 1%Z].
Proof. vm_compute. reflexivity. Qed.
