(* C13 — mdiff chunks always describe a correct patch from Left to Right.
   Only statements, each closed by [exact] of a lemma proved in Mdiff/MdiffProofs*.v.

   Reading guide (Mdiff/MdiffSpec.v):
     script_ok L R es     executing es consumes exactly L and produces exactly R (or es = [] and
                          L = R: what slice.EditScript returns for equal inputs)
     chunk_ok L R c       c's edits consume exactly Left[LStart,LEnd) and produce exactly
                          Right[RStart,REnd), 1-based half-open ranges inside the inputs
     separated 1 cs       consecutive chunks ascending, disjoint and not adjacent (>= 1 line apart)
     apply_chunks L cs    replace each chunk's left range by what its edits produce
     ctx_of n c0 c1       c1 is c0 with pre/post context Emit edits of at most n lines, ranges
                          extended by exactly those lines, nothing else changed
     changes es           the non-Emit edits of es, in order
   The model functions new_chunks / add_context / unify_chunks (Mdiff/MdiffModel.v) follow
   mdiff.go statement by statement; Ok = no panic.  The edit script is an input: the theorems hold
   for EVERY script that transforms Left into Right (C13_composed plugs in slice.EditScript). *)
From Coq Require Import ZArith List Bool.
Import ListNotations.
From Mds Require Import Slice.EditModel.
From Mds Require Import Mdiff.MdiffModel Mdiff.MdiffSpec Mdiff.MdiffProofs Mdiff.MdiffProofsRefuted Mdiff.MdiffCompose.
From Mds Require Import Mdiff.MdiffHistModel Mdiff.FormatSpec Mdiff.MdiffPatchOk Mdiff.MdiffHistory Mdiff.MdiffProofsSpans.
Local Open Scope Z_scope.

(* After New: every chunk is right; the chunks are ascending, disjoint, not adjacent; substituting
   them turns Left into Right; they contain no context; they hold exactly the changing edits of
   the script (when none of those is empty, as in every canonical script); Edits is the script. *)
Theorem C13_new : forall (T : Type) (L R : list T) (es : list (edit T)),
    script_ok L R es ->
    let cn := new_chunks es in
    Forall (chunk_ok L R) cn /\ separated 1 cn /\ apply_chunks L cn = R /\
    Forall (fun c => Forall (fun e => is_emit e = false) (edits c)) cn /\
    (Forall (fun e => is_emit e = false -> edit_consume e <> [] \/ edit_produce e <> []) es ->
     flat_map edits cn = changes es) /\
    Edits (new_diff L R es) = es /\ Left (new_diff L R es) = L /\ Right (new_diff L R es) = R.
Proof. exact new_correct. Qed.
Print Assumptions C13_new.

(* After AddContext n (n >= 0): no panic; every chunk is still right (chunks may now overlap);
   chunk i is New's chunk i plus at most n context lines before and after. *)
Theorem C13_add_context : forall (T : Type) (eqb : T -> T -> bool),
    (forall a, eqb a a = true) ->
    forall (L R : list T) (es : list (edit T)) (n : Z),
    script_ok L R es -> 0 <= n ->
    exists ca,
      add_context eqb L R n (new_chunks es) = Ok ca /\
      Forall (chunk_ok L R) ca /\
      Forall2 (ctx_of n) (new_chunks es) ca.
Proof. exact add_context_correct. Qed.
Print Assumptions C13_add_context.

(* n <= 0: AddContext returns the chunks unchanged (any chunks). *)
Theorem C13_add_context_nonpositive : forall (T : Type) (eqb : T -> T -> bool) (L R : list T) (n : Z) (cs : list (chunk T)),
    n <= 0 -> add_context eqb L R n cs = Ok cs.
Proof. exact add_context_nonpositive. Qed.
Print Assumptions C13_add_context_nonpositive.

(* After AddContext n and Unify: no panic; every chunk is right; ascending, disjoint, not
   adjacent; substituting the chunks turns Left into Right; every chunk is a context-free chunk
   (of a list [base] that is itself a correct, separated patch from Left to Right) plus at most n
   context lines before and after; and the non-Emit edits of the chunks are still exactly those
   of New's chunks, in order (context is only ever added as Emit edits). *)
Theorem C13_unify : forall (T : Type) (eqb : T -> T -> bool),
    (forall a, eqb a a = true) ->
    forall (L R : list T) (es : list (edit T)) (n : Z),
    script_ok L R es -> 0 <= n ->
    exists ca cu base,
      add_context eqb L R n (new_chunks es) = Ok ca /\
      unify_chunks ca = Ok cu /\
      Forall (chunk_ok L R) cu /\ separated 1 cu /\ apply_chunks L cu = R /\
      Forall2 (ctx_of n) base cu /\
      Forall (chunk_ok L R) base /\ separated 1 base /\ apply_chunks L base = R /\
      changes (flat_map edits base) = flat_map edits (new_chunks es) /\
      changes (flat_map edits cu) = flat_map edits (new_chunks es).
Proof. exact unify_correct. Qed.
Print Assumptions C13_unify.

(* The Diff methods AddContext and Unify return a Diff with the same Edits, Left and Right (in the
   model; "not disturbed" through shared slices is an aliasing fact: correspondence only). *)
Theorem C13_edits_kept : forall (T : Type) (eqb : T -> T -> bool) (n : Z) (d d' : diff T),
    (diff_add_context eqb n d = Ok d' \/ diff_unify d = Ok d') ->
    Edits d' = Edits d /\ Left d' = Left d /\ Right d' = Right d.
Proof. exact diff_methods_keep. Qed.
Print Assumptions C13_edits_kept.

(* Composed with C11: mdiff_new lhs rhs = new_diff lhs rhs (edit_script_func eqb lhs rhs), the model
   of slice.EditScript (Slice/EditModel.v) plugged in; == on lines is a decidable equality.  For
   all inputs and all n >= 0, New(lhs, rhs).AddContext(n).Unify() does not panic (neither does
   EditScript), after each stage every chunk consumes/produces exactly its ranges, AddContext
   adds at most n context lines each side, the chunks are ascending, disjoint and not adjacent
   after New and after Unify and turn Left into Right, the chunks hold exactly the non-Emit edits
   of Edits, and Edits, Left, Right stay what New stored. *)
Theorem C13_composed : forall (T : Type) (eqb : T -> T -> bool),
    (forall a b, eqb a b = true <-> a = b) ->
    forall (lhs rhs : list T) (n : Z),
    0 <= n ->
    let d0 := mdiff_new T eqb lhs rhs in
    edit_script_run eqb lhs rhs = EOk (Edits d0) /\
    exists d1 d2,
      diff_add_context eqb n d0 = Ok d1 /\ diff_unify d1 = Ok d2 /\
      Forall (chunk_ok lhs rhs) (Chunks d0) /\ Forall (chunk_ok lhs rhs) (Chunks d1) /\
      Forall (chunk_ok lhs rhs) (Chunks d2) /\
      Forall2 (ctx_of n) (Chunks d0) (Chunks d1) /\
      separated 1 (Chunks d0) /\ separated 1 (Chunks d2) /\
      apply_chunks lhs (Chunks d0) = rhs /\ apply_chunks lhs (Chunks d2) = rhs /\
      flat_map edits (Chunks d0) = changes (Edits d0) /\
      changes (flat_map edits (Chunks d2)) = changes (Edits d0) /\
      Edits d1 = Edits d0 /\ Edits d2 = Edits d0 /\
      Left d2 = lhs /\ Right d2 = rhs.
Proof. exact composed_correct. Qed.
Print Assumptions C13_composed.

(* ---------------------------------------------------------------- every history of calls
   Nothing forces a caller to follow New -> AddContext -> Unify: AddContext may be called twice,
   after Unify, with n <= 0, Unify without AddContext or twice.  Mdiff/MdiffHistModel.v:
     hop = HAdd n | HUnify,   run_ops eqb L R cs ops = d.Chunks after the calls ops (Ok = no panic).
   The next theorems hold for EVERY list of calls ops, every n in Z (no sign or size restriction:
   n enters the code only through n <= 0 and min(n, .), see C13_n_only_through_min).
     has_change c      c contains an edit that is not context
     patch_ok L R cs   (Mdiff/FormatSpec.v, the hypothesis of the C14 application theorems) the
                       chunks sit at exactly their ranges, ascending and disjoint, equal gaps. *)

(* After any history: no panic; every chunk consumes/produces exactly its ranges; the non-context
   edits are still exactly New's, in order; every chunk has one; and whenever the chunks do not
   overlap they are a patch and substituting them turns Left into Right. *)
Theorem C13_history : forall (T : Type) (eqb : T -> T -> bool),
    (forall a, eqb a a = true) ->
    forall (L R : list T) (es : list (edit T)) (ops : list hop),
    script_ok L R es ->
    exists cs,
      run_ops eqb L R (new_chunks es) ops = Ok cs /\
      Forall (chunk_ok L R) cs /\
      changes (flat_map edits cs) = flat_map edits (new_chunks es) /\
      Forall has_change cs /\
      (separated 0 cs -> patch_ok L R cs /\ apply_chunks L cs = R).
Proof. exact history_correct. Qed.
Print Assumptions C13_history.

(* After any history that ends with Unify: moreover ascending, disjoint, not adjacent; a patch;
   substituting gives Right; and that last Unify changed nothing if the chunks were already
   ascending, disjoint and not adjacent. *)
Theorem C13_history_unify : forall (T : Type) (eqb : T -> T -> bool),
    (forall a, eqb a a = true) ->
    forall (L R : list T) (es : list (edit T)) (ops : list hop),
    script_ok L R es ->
    exists cs cu,
      run_ops eqb L R (new_chunks es) ops = Ok cs /\
      run_ops eqb L R (new_chunks es) (ops ++ [HUnify]) = Ok cu /\
      Forall (chunk_ok L R) cu /\ separated 1 cu /\ apply_chunks L cu = R /\ patch_ok L R cu /\
      changes (flat_map edits cu) = flat_map edits (new_chunks es) /\
      Forall has_change cu /\
      (separated 1 cs -> cu = cs).
Proof. exact history_unify_correct. Qed.
Print Assumptions C13_history_unify.

(* Any history followed by AddContext n (any n): chunk i afterwards is chunk i before plus at most
   max(n, 0) context lines before and after (one Emit edit each, ranges extended by exactly those
   lines), nothing else changed. *)
Theorem C13_history_add_context : forall (T : Type) (eqb : T -> T -> bool),
    (forall a, eqb a a = true) ->
    forall (L R : list T) (es : list (edit T)) (ops : list hop) (n : Z),
    script_ok L R es ->
    exists cs ca,
      run_ops eqb L R (new_chunks es) ops = Ok cs /\
      run_ops eqb L R (new_chunks es) (ops ++ [HAdd n]) = Ok ca /\
      Forall2 (ctx_of (Z.max 0 n)) cs ca.
Proof. exact history_add_correct. Qed.
Print Assumptions C13_history_add_context.

(* Unify directly after New is a no-op (doc comment of Unify). *)
Theorem C13_unify_after_new : forall (T : Type) (L R : list T) (es : list (edit T)),
    script_ok L R es -> unify_chunks (new_chunks es) = Ok (new_chunks es).
Proof. exact unify_after_new_noop. Qed.
Print Assumptions C13_unify_after_new.

(* UnifyChunks on ANY chunk list (it is exported; no assumption on the chunks): if it does not
   panic, the ranges of the result are [unified_spans cs] (Mdiff/MdiffSpec.v): every maximal run of
   chunks each of which starts at or before the end of the one before becomes one chunk from the
   start of the run's first chunk to the end of its last, on both sides; nothing else moves.
   Together with C13_history this pins down Unify on a Diff: no panic, these ranges, every chunk
   right, same non-context edits. *)
Theorem C13_unify_spans : forall (T : Type) (cs cu : list (chunk T)),
    unify_chunks cs = Ok cu -> map span_of cu = unified_spans cs.
Proof. exact unify_chunks_spans. Qed.
Print Assumptions C13_unify_spans.

(* From the inputs alone (C11 model of slice.EditScript plugged in), on the Diff value: any
   history of calls on New(lhs, rhs) does not panic, keeps Edits/Left/Right, and the chunks satisfy
   all of the above; after New itself and after a history ending with Unify they are ascending,
   disjoint, not adjacent, a patch, and apply. *)
Theorem C13_history_composed : forall (T : Type) (eqb : T -> T -> bool),
    (forall a b, eqb a b = true <-> a = b) ->
    forall (lhs rhs : list T) (ops : list hop),
    let d0 := mdiff_new T eqb lhs rhs in
    edit_script_run eqb lhs rhs = EOk (Edits d0) /\
    exists d,
      diff_run eqb d0 ops = Ok d /\
      Edits d = Edits d0 /\ Left d = lhs /\ Right d = rhs /\
      Forall (chunk_ok lhs rhs) (Chunks d) /\
      changes (flat_map edits (Chunks d)) = changes (Edits d0) /\
      Forall has_change (Chunks d) /\
      (separated 0 (Chunks d) -> patch_ok lhs rhs (Chunks d) /\ apply_chunks lhs (Chunks d) = rhs) /\
      ((ops = [] \/ exists ops', ops = ops' ++ [HUnify]) ->
       separated 1 (Chunks d) /\ patch_ok lhs rhs (Chunks d) /\ apply_chunks lhs (Chunks d) = rhs).
Proof. exact history_composed. Qed.
Print Assumptions C13_history_composed.

(* The interface C14 composes with: the chunks of New, of AddContext n (when they do not overlap;
   overlapping chunks are not a patch) and of AddContext n + Unify are patches, for every n. *)
Theorem C13_pipeline_patch_ok : forall (T : Type) (eqb : T -> T -> bool),
    (forall a b, eqb a b = true <-> a = b) ->
    forall (lhs rhs : list T) (n : Z),
    let d0 := mdiff_new T eqb lhs rhs in
    exists d1 d2,
      diff_add_context eqb n d0 = Ok d1 /\ diff_unify d1 = Ok d2 /\
      patch_ok lhs rhs (Chunks d0) /\ Forall has_change (Chunks d0) /\
      (separated 0 (Chunks d1) -> patch_ok lhs rhs (Chunks d1)) /\ Forall has_change (Chunks d1) /\
      patch_ok lhs rhs (Chunks d2) /\ Forall has_change (Chunks d2).
Proof. exact composed_patch_ok. Qed.
Print Assumptions C13_pipeline_patch_ok.

(* Machine integers: the caller's n is never negated, added to or multiplied; it enters the
   generated arithmetic only through the test n <= 0 and through min(n, gap) (both gaps are
   differences of line numbers), and the loop counts are those minima.  So the unbounded-Z model is
   faithful for every int n, including MinInt64 and MaxInt64. *)
Theorem C13_n_only_through_min : forall n a b nchunks,
    Gen.MdiffIdx.ac_skip n nchunks = ((n <=? 0) || (nchunks =? 0))%bool /\
    Gen.MdiffIdx.ac_npre n a b = Z.min n (a - b) /\ Gen.MdiffIdx.ac_npost n a b = Z.min n (a - b) /\
    Gen.MdiffIdx.fc_pre_count a b = a /\ Gen.MdiffIdx.fc_post_count a b = b.
Proof. intros. repeat split. Qed.
Print Assumptions C13_n_only_through_min.

(* Example for the history theorems: Left=[1 9 9 9 2] Right=[3 9 9 9 4] (a gap of 3 lines between
   two chunks), calls AddContext(1), AddContext(1), Unify: the second call's contexts overlap in
   the middle line, Unify removes the whole latest post-context and fuses with the earlier layer;
   one chunk [3 lines of context between the two Replace edits] results.  Also n = 2^63-1. *)
Definition h_left : list nat := [1; 9; 9; 9; 2]%nat.
Definition h_right : list nat := [3; 9; 9; 9; 4]%nat.
Definition h_script : list (edit nat) :=
  [mkEdit Replace [1%nat] [3%nat]; mkEdit Emit [9; 9; 9]%nat []; mkEdit Replace [2%nat] [4%nat]].
Example C13_history_example :
  script_ok h_left h_right h_script /\ length (new_chunks h_script) = 2%nat /\
  exists ca cu, run_ops Nat.eqb h_left h_right (new_chunks h_script) [HAdd 1; HAdd 1] = Ok ca /\
                separatedb 0 ca = false /\
                run_ops Nat.eqb h_left h_right (new_chunks h_script) [HAdd 1; HAdd 1; HUnify] = Ok cu /\
                length cu = 1%nat /\ applies Nat.eqb h_left h_right cu = true.
Proof.
  split; [left; split; reflexivity|]. split; [reflexivity|].
  eexists. eexists. split; [vm_compute; reflexivity|]. split; [reflexivity|].
  split; [vm_compute; reflexivity|]. split; reflexivity.
Qed.
Example C13_history_unify_example :
  exists cu, run_ops Nat.eqb h_left h_right (new_chunks h_script) ([HAdd 1; HUnify; HAdd 9223372036854775807] ++ [HUnify]) = Ok cu /\
             length cu = 1%nat.
Proof. eexists. split; [vm_compute; reflexivity|reflexivity]. Qed.
Example C13_history_add_context_example :
  exists ca, run_ops Nat.eqb h_left h_right (new_chunks h_script) ([HUnify; HAdd 1] ++ [HAdd (-3)]) = Ok ca /\
             length ca = 2%nat.
Proof. eexists. split; [vm_compute; reflexivity|reflexivity]. Qed.
Example C13_unify_spans_example :
  exists ca cu, run_ops Nat.eqb h_left h_right (new_chunks h_script) [HAdd 2] = Ok ca /\
                unify_chunks ca = Ok cu /\ length ca = 2%nat /\ unified_spans ca = [(1, 6, 1, 6)].
Proof. eexists. eexists. split; [vm_compute; reflexivity|]. split; [vm_compute; reflexivity|]. split; reflexivity. Qed.
Example C13_unify_after_new_example : script_ok h_left h_right h_script /\ length (new_chunks h_script) = 2%nat.
Proof. split; [left; split; reflexivity|reflexivity]. Qed.
Example C13_history_composed_example :
  (forall a b, Nat.eqb a b = true <-> a = b) /\
  exists d, diff_run Nat.eqb (mdiff_new nat Nat.eqb h_left h_right) [HAdd 2; HAdd 2; HUnify] = Ok d /\
            length (Chunks d) = 1%nat.
Proof. split; [exact PeanoNat.Nat.eqb_eq|]. eexists. split; [vm_compute; reflexivity|reflexivity]. Qed.
Example C13_pipeline_patch_ok_example :
  (forall a b, Nat.eqb a b = true <-> a = b) /\ length (Chunks (mdiff_new nat Nat.eqb h_left h_right)) = 2%nat.
Proof. split; [exact PeanoNat.Nat.eqb_eq|vm_compute; reflexivity]. Qed.
Example C13_n_only_through_min_example : Gen.MdiffIdx.ac_npre 9223372036854775807 7 3 = 4.
Proof. reflexivity. Qed.

(* Control skeleton, as far as the translator sees it: in New, AddContext, findContext and
   UnifyChunks every if/for statement is an if (3, 4, 2 and 9 of them; the loops are range loops,
   anchored by their range expressions), and the switch of New lists OpDrop, OpCopy, OpReplace,
   OpEmit in this order.  An inserted loop, a dropped or added condition shifts these. *)
Theorem C13_skeleton :
  (Gen.MdiffIdx.new_isfor0, Gen.MdiffIdx.new_isfor1, Gen.MdiffIdx.new_isfor2) = (false, false, false) /\
  (Gen.MdiffIdx.ac_isfor0, Gen.MdiffIdx.ac_isfor1, Gen.MdiffIdx.ac_isfor2, Gen.MdiffIdx.ac_isfor3) = (false, false, false, false) /\
  (Gen.MdiffIdx.fc_isfor0, Gen.MdiffIdx.fc_isfor1) = (false, false) /\
  (Gen.MdiffIdx.uc_isfor0, Gen.MdiffIdx.uc_isfor1, Gen.MdiffIdx.uc_isfor2, Gen.MdiffIdx.uc_isfor3, Gen.MdiffIdx.uc_isfor4,
   Gen.MdiffIdx.uc_isfor5, Gen.MdiffIdx.uc_isfor6, Gen.MdiffIdx.uc_isfor7, Gen.MdiffIdx.uc_isfor8)
  = (false, false, false, false, false, false, false, false, false) /\
  new_switch_cases = [0; 1; 2; 3] /\
  (forall b, Gen.MdiffIdx.uc_end_emit b = b) /\ (forall b, Gen.MdiffIdx.uc_start_emit b = b).
Proof. repeat split. Qed.
Print Assumptions C13_skeleton.
Example C13_skeleton_example : Gen.MdiffIdx.uc_fuse true true = true.
Proof. reflexivity. Qed.

(* The hypotheses are satisfiable by a non-trivial input: Left=[a a b] Right=[a b b] with the
   script slice.EditScript returns for it; two chunks after New, merged by Unify at n = 2. *)
Example C13_new_example :
  script_ok f4_left f4_right f4_script /\ length (new_chunks f4_script) = 2%nat.
Proof. split; [exact f4_script_ok|reflexivity]. Qed.
Example C13_add_context_example :
  script_ok f4_left f4_right f4_script /\ (forall a, Nat.eqb a a = true) /\ 0 <= 2 /\
  exists ca, add_context Nat.eqb f4_left f4_right 2 (new_chunks f4_script) = Ok ca /\ length ca = 2%nat.
Proof.
  split; [exact f4_script_ok|]. split; [exact PeanoNat.Nat.eqb_refl|]. split; [discriminate|].
  eexists. split; [vm_compute; reflexivity|reflexivity].
Qed.
Example C13_add_context_nonpositive_example : (-1) <= 0.
Proof. discriminate. Qed.
Example C13_unify_example :
  exists cu, bind (add_context Nat.eqb f4_left f4_right 2 (new_chunks f4_script)) unify_chunks = Ok cu /\
             length cu = 1%nat.
Proof. eexists. split; [vm_compute; reflexivity|reflexivity]. Qed.
Example C13_edits_kept_example :
  exists d', diff_add_context Nat.eqb 2 (new_diff f4_left f4_right f4_script) = Ok d' /\ Edits d' = f4_script.
Proof. eexists. split; [vm_compute; reflexivity|reflexivity]. Qed.

Example C13_composed_example :
  (forall a b, Nat.eqb a b = true <-> a = b) /\ 0 <= 2 /\
  Edits (mdiff_new nat Nat.eqb f4_left f4_right) = f4_script.
Proof. split; [exact PeanoNat.Nat.eqb_eq|]. split; [discriminate|vm_compute; reflexivity]. Qed.

(* For the record: the code before repair 82c6b7a (findContext not bounded by the gaps to the
   neighbouring chunks) violated the property: Left=[a a b] Right=[a b b] n=2 yields, after
   Unify, a chunk whose edits do not consume its left range, and the chunks do not apply. *)
Theorem C13_unify_refuted_prefix :
  exists (L R : list nat) (es : list (edit nat)) (n : Z) (cs : list (chunk nat)) (c : chunk nat),
    script_ok L R es /\ 0 <= n /\
    bind (add_context_prefix Nat.eqb L R n (new_chunks es)) unify_chunks = Ok cs /\
    In c cs /\ chunk_okb Nat.eqb L R c = false /\ applies Nat.eqb L R cs = false.
Proof. exact unify_refuted_prefix. Qed.
Print Assumptions C13_unify_refuted_prefix.
