(* C13 — mdiff chunks always describe a correct patch from Left to Right.
   Only statements, each closed by [exact] of a lemma proved in Mdiff/MdiffProofs*.v. *)
From Coq Require Import ZArith List Bool.
Import ListNotations.
From Mds Require Import Mdiff.MdiffModel Mdiff.MdiffSpec Mdiff.MdiffProofsRefuted.
Local Open Scope Z_scope.

(* For the record: the code before repair 82c6b7a (findContext not bounded by the gaps to the
   neighbouring chunks) violated the property: Left=[a a b] Right=[a b b] n=2 yields, after
   Unify, a chunk whose edits do not consume its left range, and the chunks do not apply. *)
Theorem C13_unify_refuted_prefix :
  exists (L R : list nat) (es : list (edit nat)) (n : Z) (cs : list (chunk nat)) (c : chunk nat),
    script_ok L R es /\ 0 <= n /\
    bind (add_context_prefix Nat.eqb L R n (new_chunks es)) unify_chunks = Ok cs /\
    In c cs /\ chunk_okb Nat.eqb L R c = false /\ applies Nat.eqb L R cs = false.
Proof. exact unify_refuted_prefix. Qed.
Print Assumptions C13_unify_refuted_prefix.
