(* C03 at the level of the GENERATED code: sequences of the functions the translator produces from
   stree/cursor.go on every run (Gen/FnStree.v), on the Tree states that histories of the
   generated Tree methods reach (Props/C01_source.v).  Only statements, each closed by [exact] of
   a lemma proved in GenTie/StreeSourceCursor.v.

   Vocabulary (GenTie/StreeSourceCursor.v, GenTie/StreeTieCursor.v, Stree/CursorSpec.v):
   a cursor as the generated methods see it = the flag n "the receiver pointer is nil" and the
   field c.path, a list of node ADDRESSES;
   [cstep h n ps m fuel]   the function generated from Next | Prev | Left | Right | Up | Min | Max
                           (all seven moves) applied to (n, ps) on the node heap h: the new c.path;
   [crun]                  the paths after each move of a sequence;
   [cobserve]              Valid, Key, HasNext, HasPrev, HasLeft, HasRight, HasParent, Inorder
                           (through the stateful callback) as one record [CM.obs];
   [groot_cursor root]     what Tree.Root builds, written out by hand (Root is not translated):
                           the nil cursor for root = nil, else the path [root];
   [crepr h root c n ps]   (n, ps) stands for the model cursor c (CNil <-> n = true; CEmpty <-> [];
                           CAt p <-> the addresses met from root along the directions p);
   the reference: a valid cursor is three indices lo <= ix < hi into the ascending key list Ls;
   [follows] = the positions a sequence of moves may go through, [obs_spec] = what every observer
   must answer at a position (CursorSpec.v, the vocabulary of C03_history).

   NOT covered (not translated): Tree.Cursor(key), Tree.Root, Cursor.Clone.
   Assumed: the comparator laws (through C01_history: they make the Tree histories succeed).
   The condition [sibdist] of the successor ties is NOT assumed: it is proved of the cells on the
   cursor's path, which lie in the tree-shaped region; the garbage cells a history leaves on the
   heap (sentinels of rebuilds, detached nodes, foreign cells) are unconstrained. *)
From Coq Require Import ZArith List Lia.
Import ListNotations.
From Mds Require Import Common.FnRt GenTie.StreeTieBase GenTie.StreeSep GenTie.StreeTieCursor
  GenTie.StreeSource GenTie.StreeSourceCursor.
From Mds Require Import Stree.StreeSpec Stree.CursorSpec.
From Mds Require Stree.CursorProofs Stree.HeightModel Props.C01_source.
Local Open Scope Z_scope.

(* On ANY heap whose root address represents a tree t on a tree-shaped region, from any
   represented cursor inside t, with fuel > 2*depth t + 1: every sequence of moves of the generated
   Cursor methods runs without panic or fuel exhaustion, and at the start and after every move the
   generated observers report exactly what the reference positions say -- positions that follow
   the moves as C03_history demands (Next/Prev: index +1/-1, invalid past the ends; Left/Right:
   the part of the range below/above the key; Up, Min, Max; an invalid cursor stays invalid and
   reports the zero key, false everywhere, an empty Inorder). *)
Theorem C03_history_cursor_source : forall (T : Type) (zero : T) (h : list (G.node T)) (root : option nat)
  (t : SM.tree T) (F : list nat) (c : CM.cursor) (n : bool) (ps : list (option nat)) (ms : list CM.move) (fuel : nat),
  trepr h root t F -> crepr h root c n ps -> cwf t c -> (fuel > 2 * depth t + 1)%nat ->
  exists pss bs,
    crun h n ps ms fuel = Ok pss /\
    follows (length (SM.inorder t)) (CursorProofs.abs T t c) ms bs /\
    Forall2 (fun ps' p => exists o, cobserve zero h n ps' fuel = Ok o /\ obs_spec zero (SM.inorder t) p o)
            (ps :: pss) (CursorProofs.abs T t c :: bs).
Proof. exact @cursor_history. Qed.
Print Assumptions C03_history_cursor_source.

(* The same on the Tree states reached by the generated Tree methods: after every history of
   Add/Replace/Remove/Clear/... from the empty tree (β field b arbitrary, any limit function, any
   initial heap), with Ls the reference's list and the fuel [fuel_for t.size]: the heap represents
   a tree t with in-order Ls, and from any cursor represented on it every move sequence of the
   generated Cursor methods answers like the reference positions over Ls. *)
Theorem C03_history_source : forall (T : Type) (cmp : T -> T -> Z), total_preorder cmp ->
  forall (limit : Z -> Z -> Z) (zero : T) (b : Z) (h0 : list (G.node T)) (ops : list (sop T)),
  let st := gexec cmp limit zero b (ginit h0) ops in
  let Ls := ref_exec cmp zero [] ops in
  exists t F, trepr (g_heap st) (g_root st) t F /\ SM.inorder t = Ls /\
  forall c n ps (ms : list CM.move),
    crepr (g_heap st) (g_root st) c n ps -> CursorProofs.wf T t c ->
    exists pss bs,
      crun (g_heap st) n ps ms (fuel_for (g_size st)) = Ok pss /\
      follows (length Ls) (CursorProofs.abs T t c) ms bs /\
      Forall2 (fun ps' p => exists o, cobserve zero (g_heap st) n ps' (fuel_for (g_size st)) = Ok o /\
                                      obs_spec zero Ls p o)
              (ps :: pss) (CursorProofs.abs T t c :: bs).
Proof. exact @cursor_history_source. Qed.
Print Assumptions C03_history_source.

(* Entirely in terms of the generated code and the reference: from the ROOT cursor of any reached
   Tree state, every sequence of moves runs (no panic, no fuel exhaustion); the start position is
   invalid for the empty set and spans all of Ls otherwise; the positions follow the moves; the
   generated observers report what the positions say. *)
Theorem C03_moves_source : forall (T : Type) (cmp : T -> T -> Z), total_preorder cmp ->
  forall (limit : Z -> Z -> Z) (zero : T) (b : Z) (h0 : list (G.node T)) (ops : list (sop T)) (ms : list CM.move),
  let st := gexec cmp limit zero b (ginit h0) ops in
  let Ls := ref_exec cmp zero [] ops in
  let n := fst (groot_cursor (g_root st)) in
  let ps := snd (groot_cursor (g_root st)) in
  let fuel := fuel_for (g_size st) in
  exists pss p0 bs,
    crun (g_heap st) n ps ms fuel = Ok pss /\
    match Ls with
    | [] => p0 = None
    | _ :: _ => exists q, p0 = Some q /\ lo q = O /\ hi q = length Ls
    end /\
    follows (length Ls) p0 ms bs /\
    Forall2 (fun ps' p => exists o, cobserve zero (g_heap st) n ps' fuel = Ok o /\ obs_spec zero Ls p o)
            (ps :: pss) (p0 :: bs).
Proof. exact @cursor_moves_from_root_source. Qed.
Print Assumptions C03_moves_source.

(* ---- the machine runs: the tree of Props/C01_source.v after its first 15 calls (keys 0..8 of
        src_ops on cells 13,1,2,3,4,7,8,9,10), from the root cursor ---- *)
Definition src_st : gst (Z * Z) :=
  gexec C01_source.src_cmp HeightModel.limit_exact (0,0) 250 (ginit [C01_source.src_junk]) (firstn 15 C01_source.src_ops).
Definition src_moves : list CM.move :=
  [CM.MMin; CM.MNext; CM.MNext; CM.MUp; CM.MRight; CM.MMax; CM.MNext; CM.MPrev].

Example C03_moves_source_ex :
  groot_cursor (g_root src_st) = (false, [Some 3%nat]) /\
  crun (g_heap src_st) false [Some 3%nat] src_moves (fuel_for (g_size src_st)) =
  Ok [[Some 3; Some 2; Some 1; Some 13]; [Some 3; Some 2; Some 1]; [Some 3; Some 2]; [Some 3];
      [Some 3; Some 4]; [Some 3; Some 4; Some 9; Some 10]; []; []]%nat /\
  cobserve (0,0) (g_heap src_st) false [Some 3; Some 2; Some 1; Some 13]%nat (fuel_for (g_size src_st)) =
  Ok (CM.mkObs true (0,11) true false false false true [(0,11)]) /\
  cobserve (0,0) (g_heap src_st) false [Some 3; Some 4]%nat (fuel_for (g_size src_st)) =
  Ok (CM.mkObs true (4,4) true true false true true [(4,4); (5,5); (6,6); (7,7); (8,8)]) /\
  cobserve (0,0) (g_heap src_st) false [] (fuel_for (g_size src_st)) =
  Ok (CM.mkObs false (0,0) false false false false false []).
Proof. vm_compute. repeat split. Qed.

Example C03_history_cursor_source_ex :
  (* a represented cursor that Tree.Root does not build: the path to key 1, two steps left of the root *)
  crepr (g_heap src_st) (g_root src_st) (CM.CAt [CM.L; CM.L]) false [Some 3; Some 2; Some 1]%nat /\
  (fuel_for (g_size src_st) > 2 * 9 + 1)%nat.
Proof.
  split; [|vm_compute; lia].
  vm_compute. apply cr_at. eapply pp_cons; [reflexivity|]. eapply pp_cons; [reflexivity|]. apply pp_nil.
Qed.

Example C03_history_source_ex : total_preorder C01_source.src_cmp /\ g_size src_st = 9.
Proof. split; [exact C01_source.src_cmp_preorder|vm_compute; reflexivity]. Qed.
