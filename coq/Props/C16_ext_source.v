(* C16 at source level -- the statements of Props/C16_ext.v (a Rest reader read in part, Rest called
   again) re-stated for the FUNCTIONS GENERATED from shell/shell.go (Gen/FnShell.v; regenerated on
   every run).  Only statements; proofs in GenTie/ShellSourceExt.v from the per-function ties of
   GenTie/ShellTie{Next,Split}.v and the session theorem of Shell/ShellProofsExt.v.

   Objects as in Props/C16_source.v: the *bufio.Reader is its unread input (a byte list), the token
   buffer a byte list, io.Reader values byte lists -- the ASSUMED reading of the standard library;
   inputs are bytes below 256.  [grun_ext] (GenTie/ShellSourceExt.v) drives the session through the
   generated Next, Text, Complete, Err, Rest, Reset and Scanner.Split from the four scanner fields the
   generated NewScanner returns; the generated Rest returns the buf field itself, of which the caller
   takes k bytes.  PARTIAL: sessions without Each; readers that fail or fragment, a reader kept
   across Reset and Go's int width are not covered. *)
From Coq Require Import ZArith NArith List Bool.
Import ListNotations.
Set Warnings "-notation-overridden".
From Mds Require Import Common.FnRt Gen.FnShell.
From Mds Require Import Shell.ShellModel Shell.ShellSpec Shell.ShellSession Shell.ShellSessionExt
  GenTie.ShellTieBase GenTie.ShellSource GenTie.ShellSourceExt.

(* every extended session without Each on a new Scanner, through the generated methods, is accepted
   by the extended reference [session_ok_ext] and never panics *)
Theorem C16_sessions_ext_source : forall (s : list N) (ops : list sc_ope), bytes_ok s -> forallb no_each_e ops = true ->
  exists b c st e outs,
    FnShell.NewScanner (zs s) new_reader [] = Ok (b, c, st, e) /\
    grun_ext (length s + 2) (zs s) b c st e false ops = map enc_oute outs /\
    session_ok_ext s ops outs = true /\ ~ In (EROut XRPanic) outs.
Proof. exact C16_sessions_ext_source_proof. Qed.
Print Assumptions C16_sessions_ext_source.

(* a b c  with  Next, Rest+1 byte, Text, Next, 1 more byte, Rest+0 bytes, Rest (all), Reset, 1 more byte, Next *)
Example C16_sessions_ext_source_ex :
  grun_ext 7 [97; 32; 98; 32; 99]%Z [97; 32; 98; 32; 99]%Z [] 1 ENil false
    [EOp XNext; ERestPart 1; EText; EOp XNext; EReadMore 1; ERestPart 0; EOp XRest; EOp XReset; EReadMore 1; EOp XNext]
  = [GEOut (GXNext true [97]%Z true); GEPart [98]%Z; GEText [] false; GEOut (GXNext false [] false); GEMore [32]%Z;
     GEPart []; GEOut (GXRest [99]%Z); GEOut GXReset; GEMore []; GEOut (GXNext true [97]%Z true)].
Proof. vm_compute. reflexivity. Qed.

(* ... from any scanner state = the model's extended session *)
Theorem C16_run_ext_source : forall (ops : list sc_ope) (src : list N) (sc : scanner) (h : bool) (n fuel : nat),
  forallb no_each_e ops = true -> bytes_ok src -> bytes_ok (inp sc) ->
  (length src <= n)%nat -> (length (inp sc) <= n)%nat -> (n + 2 <= fuel)%nat ->
  grun_ext fuel (zs src) (zs (inp sc)) (zs (cur sc)) (st_z (st sc)) (err_z (eof sc)) h ops
  = map enc_oute (run_ext src {| esc := sc; ehave := h |} ops).
Proof. exact C16_run_ext_is_source. Qed.
Print Assumptions C16_run_ext_source.
