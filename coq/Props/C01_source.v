(* C01 / C02 at the level of the GENERATED code: whole histories of the functions the translator
   produces from stree/stree.go and stree/node.go on every run (Gen/FnStree.v), composed from the
   per-function ties (GenTie/StreeTie*.v) and the model's history theorems (Props/C01.v, C02.v).
   Only statements, each closed by [exact] of a lemma proved in GenTie/StreeSource{Sim,Height}.v.

   Vocabulary (GenTie/StreeSource.v, definitions only):
   [gst T]           one Tree object as the generated methods see it: the node heap (cells
                     [G.node T] = {X; left; right}, *node = option nat), t.root, t.size, t.max;
   [ginit h0]        the empty tree (root nil, size 0, max 0: what New(β, cmp) builds without keys)
                     on an ARBITRARY heap h0;
   [gstep], [grun], [gexec]   one call / all outputs / the final object of a history of
                     Add | Replace | Remove | Clear | Get | Min | Max | Len | IsEmpty |
                     Inorder (consumer stops on call stop+1; None: never) | InorderAfter k (the
                     body of the iterator Tree.InorderAfter returns: t.root.inorderAfter(k,
                     t.compare, yield)); the generated functions are called with
                     t.compare = cmp, t.limit = limit b, t.β = b and [fuel_for t.size] = 2*size+7
                     units of fuel; outputs in Go's conventions ([gout]: Get = (key, ok) with the
                     zero key when absent, Min/Max the zero key on the empty tree; a panic or an
                     exhausted fuel would be the outputs GPanic / GFuel);
   [ref_run]         the same history on ONE strictly ascending list with the functions of the
                     reference Stree/StreeSpec.v (s_insert, s_remove, s_get, s_min, s_max, s_after,
                     s_upto);
   [hreach h p x d]  following left/right fields of the cells from pointer p for d steps arrives at
                     cell x;  [hkeys h n p] the keys of the cells below p, left to right.

   API subset: every Tree method that is translated.  NOT covered here (not translated, they stay
   with the model's theorems and the correspondence run): New with keys, Tree.Clone,
   Tree.Cursor/Root, String; so histories are single-tree and start from the empty tree.
   Assumed: the comparator laws of C01_history ([total_preorder]); machine ints unbounded
   (C01_int64_ranges). *)
From Coq Require Import ZArith List Lia.
Import ListNotations.
From Mds Require Import Common.FnRt GenTie.StreeTieBase GenTie.StreeSep GenTie.StreeSource
  GenTie.StreeSourceSim GenTie.StreeSourceHeight.
From Mds Require Import Stree.StreeSpec.
From Mds Require Stree.HeightModel.
Local Open Scope Z_scope.

(* The simulation: for every total-preorder comparator, every depth-limit function, β in 0..1000,
   every initial heap and every history of the covered methods, the outputs of the generated code
   from the empty tree are the outputs of the MODEL's [run] on the history New(β); the same calls
   on tree 0 -- read in Go's return conventions ([views]). *)
Theorem C01_source_simulates_model : forall (T : Type) (cmp : T -> T -> Z), total_preorder cmp ->
  forall (limit : Z -> Z -> Z) (zero : T) (b : Z) (h0 : list (G.node T)), 0 <= b <= 1000 ->
  forall ops : list (sop T),
  grun cmp limit zero b (ginit h0) ops =
  views zero ops (tl (SM.run cmp limit (SM.ONew b [] [] :: map to_op ops))).
Proof. exact @source_simulates_model. Qed.
Print Assumptions C01_source_simulates_model.

(* C01 for the generated code: for every total-preorder comparator, every depth-limit function
   handed in as t.limit, every β in 0..1000, every initial heap and every history of
   Add/Replace/Remove/Clear/Get/Min/Max/Len/IsEmpty/Inorder/InorderAfter on the tree that starts
   empty: the outputs of the generated functions equal the sorted-list reference's, element for
   element (iteration outputs included, so WHICH representative is stored is compared), and no
   step panics or runs out of fuel. *)
Theorem C01_history_source : forall (T : Type) (cmp : T -> T -> Z), total_preorder cmp ->
  forall (limit : Z -> Z -> Z) (zero : T) (b : Z) (h0 : list (G.node T)), 0 <= b <= 1000 ->
  forall ops : list (sop T),
  grun cmp limit zero b (ginit h0) ops = ref_run cmp zero [] ops /\
  Forall (fun x => (forall k, x <> GPanic k) /\ x <> GFuel) (grun cmp limit zero b (ginit h0) ops).
Proof. exact @history_source. Qed.
Print Assumptions C01_history_source.

(* The state a history ends in, on the heap: the cells reachable from t.root hold, left to right,
   exactly the reference's list; t.size is its length; the region is tree-shaped (trepr: no cell
   shared or visited twice) and consists of cells allocated by the history (addresses beyond h0);
   what must NOT change: every cell of the initial heap h0 still holds its record (frame h0 _ []).
   (Proved for every value of the β field: the range 0..1000 only matters to New.) *)
Theorem C01_final_state_source : forall (T : Type) (cmp : T -> T -> Z), total_preorder cmp ->
  forall (limit : Z -> Z -> Z) (zero : T) (b : Z) (h0 : list (G.node T)) (ops : list (sop T)),
  let st := gexec cmp limit zero b (ginit h0) ops in
  let l := ref_exec cmp zero [] ops in
  hkeys (g_heap st) (length (g_heap st)) (g_root st) = Some l /\
  g_size st = Z.of_nat (length l) /\
  frame h0 (g_heap st) [] /\
  exists t F, trepr (g_heap st) (g_root st) t F /\ SM.inorder t = l /\
              forall k, In k F -> (length h0 <= k < length (g_heap st))%nat.
Proof. exact @final_state_source. Qed.
Print Assumptions C01_final_state_source.

(* C02 for the generated code, stated on the heap: for every total-preorder comparator, every
   depth-limit function with H1 and H2 handed in as t.limit, every β in 0..999 and every history
   (hence after every prefix): t.size <= P, the cells reachable from t.root by left/right fields
   are exactly a tree-shaped region, and every one of them lies at a depth d with
   d <= 1 or 2000^(d-1) <= P*(1000+β)^(d-1), where P is the peak of t.size since the start, the
   last Clear or the last time the tree was empty ([gpeak]: read off the generated object).
   (C02_history needs no comparator law; here the law is what makes the model's operations
   succeed, which the simulation relies on.) *)
Theorem C02_history_source : forall (T : Type) (cmp : T -> T -> Z), total_preorder cmp ->
  forall limit : Z -> Z -> Z, HeightModel.limit_H1 limit -> HeightModel.limit_H2 limit ->
  forall (zero : T) (b : Z), 0 <= b < 1000 ->
  forall (h0 : list (G.node T)) (ops : list (sop T)),
  let st := gexec cmp limit zero b (ginit h0) ops in
  let P := gpeak cmp limit zero b (ginit h0) 0 ops in
  g_size st <= P /\
  (exists t F, trepr (g_heap st) (g_root st) t F /\
     (forall x, In x F <-> exists d, hreach (g_heap st) (g_root st) x d)) /\
  forall x d, hreach (g_heap st) (g_root st) x d ->
    (d <= 1)%nat \/ 2000 ^ (Z.of_nat d - 1) <= P * (1000 + b) ^ (Z.of_nat d - 1).
Proof. exact @height_source. Qed.
Print Assumptions C02_history_source.

(* the same with t.limit = the exact depth limit (what limitFunc computes in floating point) *)
Theorem C02_history_source_exact : forall (T : Type) (cmp : T -> T -> Z), total_preorder cmp ->
  forall (zero : T) (b : Z), 0 <= b < 1000 ->
  forall (h0 : list (G.node T)) (ops : list (sop T)),
  let st := gexec cmp HeightModel.limit_exact zero b (ginit h0) ops in
  let P := gpeak cmp HeightModel.limit_exact zero b (ginit h0) 0 ops in
  g_size st <= P /\
  (exists t F, trepr (g_heap st) (g_root st) t F /\
     (forall x, In x F <-> exists d, hreach (g_heap st) (g_root st) x d)) /\
  forall x d, hreach (g_heap st) (g_root st) x d ->
    (d <= 1)%nat \/ 2000 ^ (Z.of_nat d - 1) <= P * (1000 + b) ^ (Z.of_nat d - 1).
Proof. exact @height_source_exact. Qed.
Print Assumptions C02_history_source_exact.

(* ---- the hypotheses are satisfiable, the machine runs: pairs (key, payload) compared by key,
        β = 250, the exact limit, a heap that already holds a foreign (cyclic) cell ---- *)
Definition src_cmp (a b : Z * Z) : Z := fst a - fst b.
Definition src_junk : G.node (Z * Z) := G.mk_node (99, 99) (Some 0%nat) None.

Lemma src_cmp_preorder : total_preorder src_cmp.
Proof.
  constructor; unfold src_cmp; intros.
  - rewrite <- Z.sgn_opp. f_equal. lia.
  - lia.
Qed.

Definition src_ops : list (sop (Z * Z)) :=
  [SIsEmpty; SMin; SGet (1,0);
   SAdd (1,1); SAdd (2,2); SAdd (3,3); SAdd (4,4); SAdd (5,5); SAdd (6,6); SAdd (7,7); SAdd (8,8);   (* scapegoat rebuilds *)
   SAdd (3,9);                                   (* present: refused, (3,3) stays *)
   SReplace (1,10); SReplace (0,11);             (* present: replaced; absent: inserted *)
   SInorder None; SInorder (Some 1%nat); SInorderAfter (4,0) None; SInorderAfter (4,0) (Some 0%nat);
   SGet (5,0); SGet (9,0); SMin; SMax; SLen;
   SRemove (5,0); SRemove (5,0); SRemove (3,0); SRemove (1,0); SRemove (6,0); SRemove (0,0);   (* delete-side rebuild *)
   SInorder None; SLen; SClear; SLen; SMax; SInorder None].

Example C01_history_source_ex :
  total_preorder src_cmp /\ 0 <= 250 <= 1000 /\
  grun src_cmp HeightModel.limit_exact (0,0) 250 (ginit [src_junk]) src_ops =
  [GBool true; GKey (0,0); GGet (0,0) false;
   GBool true; GBool true; GBool true; GBool true; GBool true; GBool true; GBool true; GBool true;
   GBool false; GBool false; GBool true;
   GList [(0,11); (1,10); (2,2); (3,3); (4,4); (5,5); (6,6); (7,7); (8,8)]; GList [(0,11); (1,10)];
   GList [(4,4); (5,5); (6,6); (7,7); (8,8)]; GList [(4,4)];
   GGet (5,5) true; GGet (0,0) false; GKey (0,11); GKey (8,8); GInt 9;
   GBool true; GBool false; GBool true; GBool true; GBool true; GBool true;
   GList [(2,2); (4,4); (7,7); (8,8)]; GInt 4; GUnit; GInt 0; GKey (0,0); GList []].
Proof. split; [exact src_cmp_preorder|]. split; [lia|]. vm_compute. reflexivity. Qed.

Example C01_source_simulates_model_ex :
  views (0,0) src_ops (tl (SM.run src_cmp HeightModel.limit_exact (SM.ONew 250 [] [] :: map to_op src_ops))) =
  ref_run src_cmp (0,0) [] src_ops.
Proof. vm_compute. reflexivity. Qed.

(* after the 29 calls up to the last Remove: four keys on cells 3, 2, 9, 10 of a heap of 14 cells
   (the foreign cell 0 untouched; sentinels of the rebuilds and the detached cells are garbage) *)
Example C01_final_state_source_ex :
  let st := gexec src_cmp HeightModel.limit_exact (0,0) 250 (ginit [src_junk]) (firstn 29 src_ops) in
  hkeys (g_heap st) (length (g_heap st)) (g_root st) = Some [(2,2); (4,4); (7,7); (8,8)] /\
  g_root st = Some 3%nat /\ length (g_heap st) = 14%nat /\ nth_error (g_heap st) 0 = Some src_junk /\
  g_size st = 4 /\ g_max st = 9.
Proof. vm_compute. repeat split. Qed.

Example C02_history_source_ex :
  let ops := firstn 11 src_ops in       (* 1..8 added in ascending order *)
  let st := gexec src_cmp HeightModel.limit_exact (0,0) 250 (ginit [src_junk]) ops in
  gpeak src_cmp HeightModel.limit_exact (0,0) 250 (ginit [src_junk]) 0 ops = 8 /\
  hreach (g_heap st) (g_root st) 1%nat 2 /\     (* the cell of key 1 lies two steps below the root *)
  2000 ^ (2 - 1) <= 8 * (1000 + 250) ^ (2 - 1).
Proof.
  vm_compute. split; [reflexivity|]. split; [|discriminate].
  eapply hreach_left; [reflexivity|]. eapply hreach_left; [reflexivity|]. eapply hreach_here. reflexivity.
Qed.

Example C02_history_source_exact_ex :
  HeightModel.limit_exact 250 8 = 4 /\ 0 <= 250 < 1000.
Proof. vm_compute. repeat split; discriminate. Qed.
