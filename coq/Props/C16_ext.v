(* C16 -- Scanner sessions in which the reader returned by Rest is read only in part and Rest is
   called again ("Rest returns exactly the bytes not yet consumed", at every point, also the second
   time).  Only statements; definitions in Shell/ShellSessionExt.v, proofs in Shell/ShellProofsExt.v.

   [run_ext s (new_ext s) ops]: the observations of the calls [ops] on NewScanner over [s]; the ops are
   those of ShellModel.sc_opx (EOp: Next, Rest-and-read-all, Err, Reset, Scanner.Split, Each) and
   ERestPart k (Rest, k bytes read), EReadMore k (k more bytes from that reader), EText (Text and
   Complete).  The scanner functions are those of Shell/ShellModel.v (assembled from Gen/ShellTable.v);
   the reader Rest hands out is the scanner's own buffer, as in the code (Rest returns s.buf).
   [session_ok_ext]: the reference -- ShellSession.ref_stepx (reference tokenizer only) for the old
   calls, plus the unread part of the handed-out reader and the last Text / Complete.
   Where the documentation is silent (what a second Rest returns after a partial read; that all
   readers of one scanner are one object) the reference says so and takes the code's reading:
   ShellSessionExt.second_rest.  Not covered: a reader kept across Reset; reader fragmentation. *)
From Coq Require Import NArith List.
Import ListNotations.
From Mds Require Import Gen.ShellTable Shell.ShellModel Shell.ShellSpec Shell.ShellSession Shell.ShellSessionExt Shell.ShellProofsExt.
Local Open Scope N_scope.

(* every extended session on every input is accepted by the extended reference *)
Theorem C16_sessions_ext : forall (s : list N) (ops : list sc_ope),
  session_ok_ext s ops (run_ext s (new_ext s) ops) = true.
Proof. exact session_ext_ref. Qed.
Print Assumptions C16_sessions_ext.

Theorem C16_sessions_ext_no_panic : forall (s : list N) (ops : list sc_ope),
  ~ In (EROut XRPanic) (run_ext s (new_ext s) ops).
Proof. exact session_ext_no_panic. Qed.
Print Assumptions C16_sessions_ext_no_panic.

(* the sessions of C16_sessionx are the extended sessions that use only the old calls: same
   observations from any scanner state, and the extended reference judges them as session_okx does *)
Theorem C16_ext_embeds_model : forall (src : list N) (ops : list sc_opx) (sc : scanner) (h : bool),
  run_ext src {| esc := sc; ehave := h |} (map eop ops) = map eout (run_opsx src sc ops).
Proof. exact run_ext_embeds. Qed.
Print Assumptions C16_ext_embeds_model.

Theorem C16_ext_embeds_ref : forall (s : list N) (ops : list sc_opx) (outs : list sc_outx),
  session_ok_ext s (map eop ops) (map eout outs) = session_okx s ops outs.
Proof. exact session_ok_ext_embeds. Qed.
Print Assumptions C16_ext_embeds_ref.

(* one scanner, two inputs (the M lines of the harness): Reset onto [s2] from ANY extended state [x] --
   whatever the first session did, a reader handed out and read in part included -- is followed by
   the session of a new scanner on [s2] *)
Theorem C16_sessions_ext_reuse : forall (s2 : list N) (x : ext) (ops : list sc_ope),
  exists outs, run_ext s2 x (EOp XReset :: ops) = EROut XRReset :: outs /\
               session_ok_ext s2 ops outs = true /\ ~ In (EROut XRPanic) outs.
Proof. exact session_ext_reuse. Qed.
Print Assumptions C16_sessions_ext_reuse.

Example C16_sessions_ext_reuse_ex :   (* a b: Next, Rest+0 bytes; Reset onto  c d: 1 more byte (no reader), Next, Rest+1, Rest *)
  let x := match snd (run_ext_st [97; 32; 98] (new_ext [97; 32; 98]) [EOp XNext; ERestPart 0]) with Some x => x | None => new_ext [] end in
  inp (esc x) = [98] /\ ehave x = true /\
  run_ext [99; 32; 100] x [EOp XReset; EReadMore 1; EOp XNext; ERestPart 1; EOp XRest]
  = [EROut XRReset; ERMore []; EROut (XRNext true [99] true); ERPart [100]; EROut (XRRest [])].
Proof. vm_compute. repeat split. Qed.

(* a b c  with  Next, Rest+1 byte, Text, Next, 1 more byte, Rest+0 bytes, Err, Split, Rest (all), Rest,
   Reset, 1 more byte (no reader any more), Next *)
Example C16_sessions_ext_ex :
  run_ext [97; 32; 98; 32; 99] (new_ext [97; 32; 98; 32; 99])
    [EOp XNext; ERestPart 1; EText; EOp XNext; EReadMore 1; ERestPart 0; EOp XErr; EOp XSplit; EOp XRest; EOp XRest;
     EOp XReset; EReadMore 1; EOp XNext]
  = [EROut (XRNext true [97] true); ERPart [98]; ERText [] false; EROut (XRNext false [] false); ERMore [32];
     ERPart []; EROut (XRErr true); EROut (XRSplit [] [] false); EROut (XRRest [99]); EROut (XRRest []);
     EROut XRReset; ERMore []; EROut (XRNext true [97] true)]
  (* rejected: the second Rest delivers nothing although b c was not read (seed S-C16-g6-2: p- r-) *)
  /\ session_ok_ext [97; 32; 98; 32; 99] [ERestPart 0; EOp XRest] [ERPart []; EROut (XRRest [])] = false
  (* rejected: the second Rest delivers the whole remainder again *)
  /\ session_ok_ext [97; 32; 98] [ERestPart 1; EOp XRest] [ERPart [97]; EROut (XRRest [97; 32; 98])] = false
  /\ session_ok_ext [97; 32; 98] [ERestPart 1; EOp XRest] [ERPart [97]; EROut (XRRest [32; 98])] = true
  (* rejected: a Next after Rest took a byte of the reader (own mutant S3) *)
  /\ session_ok_ext [97; 32; 98] [ERestPart 0; EOp XNext; EOp XRest]
       [ERPart []; EROut (XRNext false [] false); EROut (XRRest [32; 98])] = false
  (* rejected: a read after Reset with no new Rest delivers something *)
  /\ session_ok_ext [97] [ERestPart 0; EOp XReset; EReadMore 1] [ERPart []; EROut XRReset; ERMore [97]] = false.
Proof. vm_compute. repeat split. Qed.
