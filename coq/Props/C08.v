(* C08 — cache.Cache with the LRU store, sequential behaviour.
   Only statements, each closed by [exact] of a lemma proved in Cache/.

   Model: Cache/CacheModel.v (Cache + lruStore over the heapq model of Heapq/HeapqModel.v, whose
   [variant] carries the known findings F1/F2 as switches).  References: Cache/CacheSpec.v —
   S2 = reference LRU (recency list), S1 = policy-agnostic cache (victims taken from the observed
   callback log and checked: present key, eviction only while the value does not fit, stop only
   when it fits).

   FULL PROPERTY (text of C08): for every history, size function >= 0 and limit > 0, the answers and
   callback logs equal those of the reference LRU:  run_new hv lim ops = map ok_event (s2_run [] ops).
   - for the heap variant [repaired] this is C08_refines_S2_repaired;
   - for the heap variant [pinned] (the code as it is: known finding F2) it is FALSE of the
     faithful model: C08_victim_refuted;
   - everything in it except WHICH present entry is evicted first holds for EVERY variant:
     C08_refines_S1_partial and C08_consistent. *)
From Coq Require Import ZArith List Bool.
Import ListNotations.
From Mds Require Import Heapq.HeapqModel Cache.CacheSpec Cache.CacheModel Cache.CacheWitness
  Cache.CacheLruProofs Cache.CacheTheorems Cache.CacheTheoremsS2.
Local Open Scope Z_scope.

(* For every heap variant, key type with decidable equality, size function >= 0, limit > 0 and
   history of Put/Get/Has/Remove/Clear/Len/Size: no call panics or runs out of fuel, and the
   results and callback logs are accepted by S1: Has/Get answer presence and the stored value (the
   zero value when absent), Len is the number of present keys, Size the sum of their sizes, a Put
   larger than the limit is refused and changes nothing, a fitting Put reports the replaced entry
   then only needed victims that are present and ends within the limit, Remove/Clear report each
   departing entry exactly once with its key and value, nothing else is reported.
   Missing w.r.t. the full property: the victims are the least recently used entries, in order. *)
Theorem C08_refines_S1_partial :
  forall (K V : Type) (keqb : K -> K -> bool),
    (forall a b, keqb a b = true <-> a = b) ->
  forall (kzero : K) (vzero : V) (sizeOf : V -> Z),
    (forall v, 0 <= sizeOf v) ->
  forall (hv : variant) (lim : Z) (ops : list (op K V)),
    0 < lim ->
    exists obs,
      run_new K V keqb kzero vzero sizeOf hv lim ops = map ok_event obs /\
      s1_accepts K V keqb vzero sizeOf lim [] ops obs.
Proof. exact refines_S1. Qed.
Print Assumptions C08_refines_S1_partial.

Example C08_refines_S1_partial_ex :
  run_new Z Z Z.eqb 0 0 unit_size pinned 2 [OPut 1 10; OPut 2 20; OGet 1; OPut 3 30; OHas 2; ORemove 1; OSize; OClear; OLen]
  = map ok_event [(RBool true, []); (RBool true, []); (RGet 10 true, []); (RBool true, [(2, 20)]); (RBool false, []);
                  (RBool true, [(1, 10)]); (RNum 1, []); (RUnit, [(3, 30)]); (RNum 0, [])].
Proof. vm_compute. reflexivity. Qed.

(* In every reachable state, for every variant: the keys in the heap are distinct, [present] maps
   every heap element's key to its offset and holds no other key, Size() is the sum of the sizes of
   the present values, lies in [0, limit], and Len() is their number. *)
Theorem C08_consistent :
  forall (K V : Type) (keqb : K -> K -> bool),
    (forall a b, keqb a b = true <-> a = b) ->
  forall (kzero : K) (vzero : V) (sizeOf : V -> Z),
    (forall v, 0 <= sizeOf v) ->
  forall (hv : variant) (lim : Z) (ops : list (op K V)) (c : cache K V),
    0 < lim ->
    exec K V keqb kzero vzero sizeOf hv {| store := lru_new K V; csize := 0; count := 0; limit := lim |} ops = Some c ->
    let d := data (access (store c)) in
    NoDup (pkeys d) /\
    (forall i e, get d i = Some e -> map_get K keqb (present (store c)) (key e) = Some i) /\
    (forall k, map_get K keqb (present (store c)) k <> None -> In k (pkeys d)) /\
    cache_size K V c = total sizeOf (ents d) /\
    cache_len K V c = len d /\
    0 <= cache_size K V c <= lim /\
    limit c = lim.
Proof. exact reachable_consistent. Qed.
Print Assumptions C08_consistent.

Example C08_consistent_ex :
  exists c, exec Z Z Z.eqb 0 0 unit_size pinned {| store := lru_new Z Z; csize := 0; count := 0; limit := 3 |}
                 [OPut 1 10; OPut 2 20; OPut 3 30; OGet 1; OPut 4 40] = Some c /\
            map (fun e => (lastAccess e, key e)) (data (access (store c))) = [(3, 3); (4, 1); (5, 4)] /\
            present (store c) = [(1, 1); (3, 0); (4, 2)].
Proof. eexists. split; [vm_compute; reflexivity|]. split; vm_compute; reflexivity. Qed.

(* THE FULL PROPERTY, under the repaired heap (parent (i-1)/2, pop sifts up as well): for every key
   type with decidable equality, size function >= 0, limit > 0 and history, the results and the
   callback logs of the model are exactly those of the reference LRU S2 (recency list; Put and
   successful Get are uses, Has is not; a fitting Put reports the replaced entry, then evicts the
   least recently used entries, in that order, exactly as long as needed; a Put larger than the
   limit is refused and changes nothing; Len/Size are the number and total size of the present
   entries; Remove and Clear report every departing entry once) — and no call panics. *)
Theorem C08_refines_S2_repaired :
  forall (K V : Type) (keqb : K -> K -> bool),
    (forall a b, keqb a b = true <-> a = b) ->
  forall (kzero : K) (vzero : V) (sizeOf : V -> Z),
    (forall v, 0 <= sizeOf v) ->
  forall (lim : Z) (ops : list (op K V)),
    0 < lim ->
    run_new K V keqb kzero vzero sizeOf repaired lim ops = map ok_event (s2_run K V keqb vzero sizeOf lim [] ops).
Proof. exact refines_S2_repaired. Qed.
Print Assumptions C08_refines_S2_repaired.

Example C08_refines_S2_repaired_ex :
  s2_run Z Z Z.eqb 0 unit_size 2 [] [OPut 1 10; OPut 2 20; OGet 1; OPut 3 30; OHas 2; OGet 9]
  = [(RBool true, []); (RBool true, []); (RGet 10 true, []); (RBool true, [(2, 20)]); (RBool false, []); (RGet 0 false, [])].
Proof. vm_compute. reflexivity. Qed.

(* Under the pinned heap (known finding F2) the full property is false of the faithful model: there
   is a history (15 calls, limit 7, unit sizes, corpus/C08) whose answers differ from the reference
   LRU's: its last Put evicts key 6 although key 5 is the least recently used entry. *)
Theorem C08_victim_refuted :
  exists (lim : Z) (ops : list (op Z Z)),
    0 < lim /\ runZ pinned unit_size lim ops <> refZ unit_size lim ops.
Proof. exact victim_refuted. Qed.
Print Assumptions C08_victim_refuted.

Example C08_victim_refuted_witness :
  nth 14 (runZ pinned unit_size 7 f2_history) EFuel = EOk (RBool true) [(6, 16)] /\
  nth 14 (refZ unit_size 7 f2_history) EFuel = EOk (RBool true) [(5, 15)] /\
  runZ repaired unit_size 7 f2_history = refZ unit_size 7 f2_history.
Proof. split; [|split]; vm_compute; reflexivity. Qed.
