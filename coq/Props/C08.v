(* C08 — cache.Cache with the LRU store, sequential behaviour.
   Only statements, each closed by [exact] of a lemma proved in Cache/.

   Model: Cache/CacheModel.v (Cache + lruStore over the heapq model of Heapq/HeapqModel.v, whose
   [variant] carries the known findings F1/F2 as switches).  References: Cache/CacheSpec.v —
   S2 = reference LRU (recency list), S1 = policy-agnostic cache (victims taken from the observed
   callback log and checked: present key, eviction only while the value does not fit, stop only
   when it fits).

   FULL PROPERTY (text of C08): for every history, size function and limit > 0, the answers and
   callback logs equal those of the reference LRU:  run_new hv lim ops = map ok_event (s2_run [] ops),
   Size is the sum of the sizes of the present values and never exceeds the limit, Len is the number
   of present keys.
   - for the heap variant [repaired] the equality is C08_refines_S2_repaired (every size function,
     negative ones included); Size <= limit is C08_consistent (sizes >= 0: with negative sizes no
     cache can keep Size <= limit, see notes/C08-audit.md);
   - for the heap variant [pinned] (the code as it is: known finding F2) the equality is FALSE of the
     faithful model: C08_victim_refuted.  What holds of the pinned code, clause by clause:
       answers of Get/Has, refusal of an oversized Put, Len, Size (= sum, <= limit), callback exactly
       once per departing entry with its key and value, victims needed and present
                                         EVERY history:   C08_refines_S1_partial, C08_consistent
       victims are the least recently used entries, in order
                                         every history on which the F2 trigger never fires:
                                         C08_lru_partial (condition on the heap array before each
                                         call, exact for "the call keeps the heap a heap":
                                         C08_trigger_exact), in particular every [settled] history
                                         (condition on the history alone): C08_lru_settled_partial.
   Machine integers (after the repair of F12, /repo 3977891): C08_int64_all_limits — the model with
   64-bit wrap-around size arithmetic equals the Z model for EVERY limit 0 < limit < 2^63 and every
   size function with values in [0, 2^63); C08_old_newsize_wraps is the defect the repair removed;
   C08_negative_size_room_wraps is what remains outside (negative sizes). *)
From Coq Require Import ZArith List Bool.
Import ListNotations.
From Mds Require Import Gen.CacheIdx Heapq.HeapqModel Heapq.HeapqSpec Cache.CacheSpec Cache.CacheModel Cache.CacheWitness
  Cache.CacheLruProofs Cache.CacheTheorems Cache.CacheTheoremsS2 Cache.CacheModel64 Cache.CacheInt.
Local Open Scope Z_scope.

(* For every heap variant, key type with decidable equality, size function >= 0, limit > 0 and
   history of Put/Get/Has/Remove/Clear/Len/Size: no call panics or runs out of fuel, and the
   results and callback logs are accepted by S1: Has/Get answer presence and the stored value (the
   zero value when absent), Len is the number of present keys, Size the sum of their sizes, a Put
   larger than the limit is refused and changes nothing, a fitting Put reports the replaced entry
   then only needed victims that are present and ends within the limit, Remove/Clear report each
   departing entry exactly once with its key and value, nothing else is reported.
   Missing w.r.t. the full property: the victims are the least recently used entries, in order
   (see C08_lru_partial for the histories on which the pinned code does that too). *)
Theorem C08_refines_S1_partial :
  forall (K V : Type) (keqb : K -> K -> bool),
    (forall a b, keqb a b = true <-> a = b) ->
  forall (kzero : K) (vzero : V) (sizeOf : V -> Z),
    (forall v, 0 <= sizeOf v) ->
  forall (hv : variant) (lim : Z) (ops : list (op K V)),
    0 < lim ->
    exists obs,
      run_new K V keqb kzero vzero sizeOf hv lim ops = map ok_event obs /\
      s1_accepts K V keqb vzero sizeOf lim [] ops obs.
Proof. exact refines_S1. Qed.
Print Assumptions C08_refines_S1_partial.

Example C08_refines_S1_partial_ex :
  run_new Z Z Z.eqb 0 0 unit_size pinned 2 [OPut 1 10; OPut 2 20; OGet 1; OPut 3 30; OHas 2; ORemove 1; OSize; OClear; OLen]
  = map ok_event [(RBool true, []); (RBool true, []); (RGet 10 true, []); (RBool true, [(2, 20)]); (RBool false, []);
                  (RBool true, [(1, 10)]); (RNum 1, []); (RUnit, [(3, 30)]); (RNum 0, [])].
Proof. vm_compute. reflexivity. Qed.

(* In every reachable state, for every variant: the keys in the heap are distinct, [present] maps
   every heap element's key to its offset and holds no other key, Size() is the sum of the sizes of
   the present values, lies in [0, limit], and Len() is their number. *)
Theorem C08_consistent :
  forall (K V : Type) (keqb : K -> K -> bool),
    (forall a b, keqb a b = true <-> a = b) ->
  forall (kzero : K) (vzero : V) (sizeOf : V -> Z),
    (forall v, 0 <= sizeOf v) ->
  forall (hv : variant) (lim : Z) (ops : list (op K V)) (c : cache K V),
    0 < lim ->
    exec K V keqb kzero vzero sizeOf hv {| store := lru_new K V; csize := 0; count := 0; limit := lim |} ops = Some c ->
    let d := data (access (store c)) in
    NoDup (pkeys d) /\
    (forall i e, get d i = Some e -> map_get K keqb (present (store c)) (key e) = Some i) /\
    (forall k, map_get K keqb (present (store c)) k <> None -> In k (pkeys d)) /\
    cache_size K V c = total sizeOf (ents d) /\
    cache_len K V c = len d /\
    0 <= cache_size K V c <= lim /\
    limit c = lim.
Proof. exact reachable_consistent. Qed.
Print Assumptions C08_consistent.

Example C08_consistent_ex :
  exists c, exec Z Z Z.eqb 0 0 unit_size pinned {| store := lru_new Z Z; csize := 0; count := 0; limit := 3 |}
                 [OPut 1 10; OPut 2 20; OPut 3 30; OGet 1; OPut 4 40] = Some c /\
            map (fun e => (lastAccess e, key e)) (data (access (store c))) = [(3, 3); (4, 1); (5, 4)] /\
            present (store c) = [(1, 1); (3, 0); (4, 2)].
Proof. eexists. split; [vm_compute; reflexivity|]. split; vm_compute; reflexivity. Qed.

(* THE FULL PROPERTY's equality, under the repaired heap (parent (i-1)/2, pop sifts up as well): for
   every key type with decidable equality, EVERY size function (zero and negative sizes included),
   limit > 0 and history, the results and the callback logs of the model are exactly those of the
   reference LRU S2 (recency list; Put and successful Get are uses, Has is not; a fitting Put
   reports the replaced entry, then evicts the least recently used entries, in that order, exactly
   as long as needed; a Put larger than the limit is refused and changes nothing; Len/Size are the
   number and total size of the present entries; Remove and Clear report every departing entry
   once) — and no call panics. *)
Theorem C08_refines_S2_repaired :
  forall (K V : Type) (keqb : K -> K -> bool),
    (forall a b, keqb a b = true <-> a = b) ->
  forall (kzero : K) (vzero : V) (sizeOf : V -> Z),
  forall (lim : Z) (ops : list (op K V)),
    0 < lim ->
    run_new K V keqb kzero vzero sizeOf repaired lim ops = map ok_event (s2_run K V keqb vzero sizeOf lim [] ops).
Proof. exact refines_S2_repaired. Qed.
Print Assumptions C08_refines_S2_repaired.

Example C08_refines_S2_repaired_ex :
  s2_run Z Z Z.eqb 0 unit_size 2 [] [OPut 1 10; OPut 2 20; OGet 1; OPut 3 30; OHas 2; OGet 9]
  = [(RBool true, []); (RBool true, []); (RGet 10 true, []); (RBool true, [(2, 20)]); (RBool false, []); (RGet 0 false, [])].
Proof. vm_compute. reflexivity. Qed.

(* the model itself, with zero and negative sizes (sizeOf v = v mod 3 - 1), against the reference *)
Example C08_refines_S2_repaired_neg_ex :
  run_new Z Z Z.eqb 0 0 (size_mode (-3)) repaired 2 [OPut 0 0; OPut 1 1; OPut 2 2; OSize; ORemove 0; OSize; OLen; OPut 3 5; OSize; OClear; OSize]
  = map ok_event [(RBool true, []); (RBool true, []); (RBool true, []); (RNum 0, []); (RBool true, [(0, 0)]); (RNum 1, []);
                  (RNum 2, []); (RBool true, []); (RNum 2, []); (RUnit, [(1, 1); (2, 2); (3, 5)]); (RNum 0, [])] /\
  run_new Z Z Z.eqb 0 0 (size_mode (-3)) repaired 2 [OPut 0 0; OPut 1 1; OPut 2 2; OSize; ORemove 0; OSize; OLen; OPut 3 5; OSize; OClear; OSize]
  = map ok_event (s2_run Z Z Z.eqb 0 (size_mode (-3)) 2 [] [OPut 0 0; OPut 1 1; OPut 2 2; OSize; ORemove 0; OSize; OLen; OPut 3 5; OSize; OClear; OSize]).
Proof. split; vm_compute; reflexivity. Qed.

(* THE CODE AS IT IS (any heap whose pop never sifts up, in particular [pinned]): the same equality
   with the reference LRU — eviction order included — for every history on which the F2 trigger
   never fires.  [run_new_safe] (CacheModel.v) tests, before each call, the heapq.Remove(pos) that
   call is about to make (Get, Remove, replacing Put: pos = the recorded offset of the key):
   pos = 0, or pos is the last slot, or lastAccess(array[(pos-1)/2]) <= lastAccess(array[last]).
   Every size function, every limit > 0; no panic.  Known finding F1 (pushUp's parent index) plays
   no part: the store only ever adds an element younger than all others, so pushUp never moves
   anything (CacheS2Proofs.hok_add). *)
Theorem C08_lru_partial :
  forall (K V : Type) (keqb : K -> K -> bool),
    (forall a b, keqb a b = true <-> a = b) ->
  forall (kzero : K) (vzero : V) (sizeOf : V -> Z),
  forall (hv : variant), pop_no_siftup hv = true ->
  forall (lim : Z) (ops : list (op K V)),
    0 < lim ->
    run_new_safe K V keqb kzero vzero sizeOf hv lim ops = true ->
    run_new K V keqb kzero vzero sizeOf hv lim ops = map ok_event (s2_run K V keqb vzero sizeOf lim [] ops).
Proof. exact refines_S2_no_trigger. Qed.
Print Assumptions C08_lru_partial.

(* non-vacuous: 20 calls at limit 7 with Get/Remove of interior heap slots after a Remove, six
   evictions, on which the trigger never fires; and the trigger does fire on the F2 witness *)
Definition safe_history : list (op Z Z) :=
  [OPut 0 10; OPut 1 11; OPut 2 12; OPut 3 13; OPut 4 14; OPut 5 15; OPut 6 16; OPut 7 17;
   OGet 4; ORemove 3; OPut 3 23; OGet 4; OPut 2 22; ORemove 5; OHas 1; OPut 8 18; OPut 1 21; OPut 9 19; OGet 0; OPut 10 20].
Example C08_lru_partial_ex :
  pop_no_siftup pinned = true /\
  run_new_safe Z Z Z.eqb 0 0 unit_size pinned 7 safe_history = true /\
  runZ pinned unit_size 7 safe_history = refZ unit_size 7 safe_history /\
  nth 17 (runZ pinned unit_size 7 safe_history) EFuel = EOk (RBool true) [(6, 16)] /\
  run_new_safe Z Z Z.eqb 0 0 unit_size pinned 7 f2_history = false.
Proof. repeat split; vm_compute; reflexivity. Qed.

(* ... in particular for every SETTLED history — a condition on the history alone, evaluated on the
   reference (CacheSpec.settled): every call that finds its key present (Get, Remove, replacing
   Put) either comes while at most 5 entries are present, or the last state-changing call before it
   was an accepted Put, a successful Get or a Clear (not a successful Remove).  Histories without
   Remove, and caches that never hold more than 5 entries, are settled. *)
Theorem C08_lru_settled_partial :
  forall (K V : Type) (keqb : K -> K -> bool),
    (forall a b, keqb a b = true <-> a = b) ->
  forall (kzero : K) (vzero : V) (sizeOf : V -> Z),
  forall (hv : variant), pop_no_siftup hv = true ->
  forall (lim : Z) (ops : list (op K V)),
    0 < lim ->
    settled K V keqb vzero sizeOf lim true [] ops = true ->
    run_new K V keqb kzero vzero sizeOf hv lim ops = map ok_event (s2_run K V keqb vzero sizeOf lim [] ops).
Proof. exact refines_S2_settled_history. Qed.
Print Assumptions C08_lru_settled_partial.

Example C08_lru_settled_partial_ex :
  settled Z Z Z.eqb 0 unit_size 7 true [] safe_history = true /\
  settled Z Z Z.eqb 0 unit_size 7 true [] f2_history = false /\
  (* two successful Removes in a row with 7 entries: not settled, yet the trigger does not fire *)
  settled Z Z Z.eqb 0 unit_size 7 true []
    [OPut 0 10; OPut 1 11; OPut 2 12; OPut 3 13; OPut 4 14; OPut 5 15; OPut 6 16; ORemove 6; ORemove 2; OGet 1] = false /\
  run_new_safe Z Z Z.eqb 0 0 unit_size pinned 7
    [OPut 0 10; OPut 1 11; OPut 2 12; OPut 3 13; OPut 4 14; OPut 5 15; OPut 6 16; ORemove 6; ORemove 2; OGet 1] = true.
Proof. repeat split; vm_compute; reflexivity. Qed.

(* The trigger condition is exact for heap order: on a valid heap of LRU entries, when [rm_safe] is
   false the removal (with a pop that never sifts up) leaves the moved entry at pos strictly older
   than its parent — the array is no longer a heap.  (When it is true the heap stays a heap:
   CacheS2Proofs.hok_pop_at, used by C08_lru_partial.) *)
Theorem C08_trigger_exact :
  forall (K V : Type) (hv : variant), pop_no_siftup hv = true ->
  forall (d d' : list (prio K V)) (pos : Z) (m : moves (prio K V)) (out : prio K V),
    heap_ok (prio K V) (compare_prio K V) d -> 0 <= pos < len d -> rm_safe K V d pos = false ->
    pop (prio K V) hv (compare_prio K V) d pos = Ok (d', m, out) ->
    exists moved par, get d' ((pos - 1) / 2) = Some par /\ get d' pos = Some moved /\
                      lastAccess moved < lastAccess par /\ child ((pos - 1) / 2) pos.
Proof. exact trigger_breaks_heap. Qed.
Print Assumptions C08_trigger_exact.

Definition pz (t k : Z) : prio Z Z := {| lastAccess := t; key := k; value := 0 |}.
Example C08_trigger_exact_ex :
  let d := [pz 1 1; pz 5 5; pz 2 2; pz 6 6; pz 7 7; pz 3 3] in
  rm_safe Z Z d 3 = false /\
  pop (prio Z Z) pinned (compare_prio Z Z) d 3 = Ok ([pz 1 1; pz 5 5; pz 2 2; pz 3 3; pz 7 7], [(pz 3 3, 3)], pz 6 6).
Proof. split; vm_compute; reflexivity. Qed.

(* Under the pinned heap (known finding F2) the full property is false of the faithful model: there
   is a history (15 calls, limit 7, unit sizes, corpus/C08) whose answers differ from the reference
   LRU's: its last Put evicts key 6 although key 5 is the least recently used entry. *)
Theorem C08_victim_refuted :
  exists (lim : Z) (ops : list (op Z Z)),
    0 < lim /\ runZ pinned unit_size lim ops <> refZ unit_size lim ops.
Proof. exact victim_refuted. Qed.
Print Assumptions C08_victim_refuted.

Example C08_victim_refuted_witness :
  nth 14 (runZ pinned unit_size 7 f2_history) EFuel = EOk (RBool true) [(6, 16)] /\
  nth 14 (refZ unit_size 7 f2_history) EFuel = EOk (RBool true) [(5, 15)] /\
  runZ repaired unit_size 7 f2_history = refZ unit_size 7 f2_history.
Proof. split; [|split]; vm_compute; reflexivity. Qed.

(* cache.New panics for limit <= 0 ("cache: limit must be positive"), whatever follows *)
Theorem C08_new_bad_limit :
  forall (K V : Type) (keqb : K -> K -> bool) (kzero : K) (vzero : V) (sizeOf : V -> Z) (hv : variant)
         (lim : Z) (ops : list (op K V)),
    lim <= 0 -> run_new K V keqb kzero vzero sizeOf hv lim ops = [EPanic PBadLimit].
Proof. exact new_bad_limit_panics. Qed.
Print Assumptions C08_new_bad_limit.

Example C08_new_bad_limit_ex : runZ pinned unit_size 0 [OLen] = [EPanic PBadLimit].
Proof. vm_compute. reflexivity. Qed.

(* The control skeleton of the model is hand-written; this pins the part of it that can be counted in
   the source: per Go function, the number of call sites of every store and heap method and of the
   callback (Put: Check, Remove, Evict, Store once each, no Access, two onEvict sites, three sizeOf;
   Get: Access only; Has: Check only; Remove: Check + Remove; Clear: Evict; lruStore.Access: one
   heap Remove and one Add, no Peek/Len/Pop; Store: one Add; Remove: one heap Remove + one delete;
   Evict: one Pop + one delete; Check: one Peek); the ORDER of those statements (Put: Check, store.Remove,
   callback, size -=, count--, then in the loop Evict, callback, count--, size -=, then Store, size +=,
   count++; Remove: Check before store.Remove; lruStore.Access: clock++, heap Remove, stamp, Add;
   Store: clock++ before Add; Remove: heap Remove before delete; Evict: Pop before delete); and the
   statement skeleton (kind and nesting of every statement) of each of these functions.  Recomputed
   from cache.go/lru.go on every run: a shortcut, a dropped, added, redirected or moved statement
   makes this false. *)
Theorem C08_store_shape : store_shape = true.
Proof. exact store_shape_ok. Qed.
Print Assumptions C08_store_shape.

(* Machine integers.  [run_new_w ... wrap] (CacheModel64.v) is the model with every int64 result of the
   size arithmetic (c.size - sizeOf(x), c.limit - valSize, c.size + valSize) passed through [wrap].
   With the identity it is the model of CacheModel.v: *)
Theorem C08_model64_is_model :
  forall (K V : Type) (keqb : K -> K -> bool) (kzero : K) (vzero : V) (sizeOf : V -> Z) (hv : variant)
         (c : cache K V) (ops : list (op K V)),
    run_w K V keqb kzero vzero sizeOf hv (fun z => z) c ops = run K V keqb kzero vzero sizeOf hv c ops.
Proof. exact model_w_id_is_model. Qed.
Print Assumptions C08_model64_is_model.

(* ... and with 64-bit two's-complement wrap-around it gives the same run as the Z model — so all the
   theorems above are theorems about 64-bit arithmetic — for EVERY limit that is a positive int64, every
   size function with non-negative int64 values (values above the limit are refused before any
   arithmetic), every heap variant and every history.  Not wrapped (assumptions): count (bounded by
   the number of entries) and the logical clock (one increment per Put / successful Get). *)
Theorem C08_int64_all_limits :
  forall (K V : Type) (keqb : K -> K -> bool),
    (forall a b, keqb a b = true <-> a = b) ->
  forall (kzero : K) (vzero : V) (sizeOf : V -> Z),
    (forall v, 0 <= sizeOf v < 2 ^ 63) ->
  forall (lim : Z), 0 < lim < 2 ^ 63 ->
  forall (hv : variant) (ops : list (op K V)),
    run_new_w K V keqb kzero vzero sizeOf hv wrap64 lim ops = run_new K V keqb kzero vzero sizeOf hv lim ops.
Proof. exact model64_eq_model. Qed.
Print Assumptions C08_int64_all_limits.

(* the regression input of F12 (corpus/C08/int64-overflow.in): limit 2^63-1, two values of size 127*2^56 *)
Example C08_int64_all_limits_ex :
  let lim := 2 ^ 63 - 1 in
  let ops := [OPut 0 127; OPut 1 127; OSize; OLen; OPut 2 1; OSize; OLen] in
  run_new_w Z Z Z.eqb 0 0 (size_mode 1056) pinned wrap64 lim ops
  = map ok_event [(RBool true, []); (RBool true, [(0, 127)]); (RNum (127 * 2 ^ 56), []); (RNum 1, []);
                  (RBool true, [(1, 127)]); (RNum (2 ^ 56), []); (RNum 1, [])].
Proof. vm_compute. reflexivity. Qed.

(* The defect the repair removed (F12): newSize := c.size + valSize; for newSize > c.limit.  With
   limit = size = valSize = 2^63-1 the int64 sum is -2 and the old test is false (no eviction) although
   the Z sum exceeds the limit; the repaired test evicts, in Z and in 64 bits alike. *)
Theorem C08_old_newsize_wraps :
  let lim := 2 ^ 63 - 1 in
  wrap64 (lim + lim) = -2 /\ (wrap64 (lim + lim) >? lim) = false /\ (lim + lim >? lim) = true /\
  put_evict_continue lim lim lim = true /\ put_evict_cmp lim (wrap64 (lim - lim)) = true.
Proof. exact old_newsize_wraps. Qed.
Print Assumptions C08_old_newsize_wraps.

(* What remains outside C08_int64_all_limits: negative sizes (outside the property as well).  The
   repaired test's subtraction can wrap with them: limit = 2^63-1, valSize = -1, empty cache: in Z there
   is room; in 64 bits c.limit - valSize = -2^63 and the loop runs on the empty store (Evict panics —
   observed on the real code, notes/C08-audit.md). *)
Theorem C08_negative_size_room_wraps :
  let lim := 2 ^ 63 - 1 in
  put_refuse (-1) lim = false /\ wrap64 (lim - (-1)) = - 2 ^ 63 /\
  put_evict_continue 0 lim (-1) = false /\ put_evict_cmp 0 (wrap64 (lim - (-1))) = true.
Proof. exact negative_size_room_wraps. Qed.
Print Assumptions C08_negative_size_room_wraps.
