(* C08 — cache.Cache with the LRU store, sequential behaviour.
   Only statements, each closed by [exact] of a lemma proved in Cache/. *)
From Coq Require Import ZArith List Bool.
Import ListNotations.
From Mds Require Import Heapq.HeapqModel Cache.CacheSpec Cache.CacheModel Cache.CacheWitness.
Local Open Scope Z_scope.

(* Under the pinned heap (known finding F2) the full property is false of the faithful model: there
   is a history (15 calls, limit 7, unit sizes, corpus/C08) whose answers differ from the reference
   LRU's: its last Put evicts key 6 although key 5 is the least recently used entry. *)
Theorem C08_victim_refuted :
  exists (lim : Z) (ops : list (op Z Z)),
    0 < lim /\ runZ pinned unit_size lim ops <> refZ unit_size lim ops.
Proof. exact victim_refuted. Qed.
Print Assumptions C08_victim_refuted.

Example C08_victim_refuted_witness :
  nth 14 (runZ pinned unit_size 7 f2_history) EFuel = EOk (RBool true) [(6, 16)] /\
  nth 14 (refZ unit_size 7 f2_history) EFuel = EOk (RBool true) [(5, 15)] /\
  runZ repaired unit_size 7 f2_history = refZ unit_size 7 f2_history.
Proof. split; [|split]; vm_compute; reflexivity. Qed.
