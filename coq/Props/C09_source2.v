(* C09, the constructors at source level.  The concurrent workloads of C09 start from
   cache.New(limit, cache.LRU()...) and from cache.New(limit, Config.WithStore(harness store)...).
   Both constructors are regenerated into Gen/FnCacheNew.v on every run (configuration backend of
   the function translator); proofs in GenTie/CacheTieNew.v, reading guide in Props/C08_source2.v.

   What this gives C09: the state the lock protects (store, size, count; limit and the two function
   fields are read-only after construction) starts as the sequential model says -- size 0, count 0,
   the given limit, exactly the store handed in -- for BOTH configurations.
   STILL OUTSIDE: the sync.Mutex field itself (skipped by the translation: its zero value is an
   unlocked mutex by the sync package's contract), publication of the new cache to other goroutines
   (Go memory model), the lock discipline of the methods (Gen/CacheLocks.v, C09_lock_shape). *)
From Coq Require Import ZArith List Bool.
Import ListNotations.
Set Warnings "-notation-overridden".
From Mds Require Import Common.FnRt.
From Mds Require Import Heapq.HeapqModel Cache.CacheSpec Cache.CacheModel.
From Mds Require Import Gen.CacheIdx GenTie.LruTieBase GenTie.CacheTieCompose GenTie.CacheSource GenTie.CacheTieNew.
Local Open Scope Z_scope.

(* A caller-supplied store (any type St, any value s -- the gated store of the C09 harness is one):
   for every limit > 0 and every base configuration, New(lim, cfg.WithStore(s)) returns the cache
   whose store is exactly s, with size 0, count 0, limit lim and cfg's size function and callback
   (or the defaults). *)
Theorem C09_new_withstore_source :
  forall (K V Ev St : Type) (lim : Z) (cfg : N.Config K V St Ev) (s : St),
    0 < lim ->
    N.New lim (N.WithStore cfg (Some s))
    = FnRt.Ok (N.mk_Cache (Some s) 0 lim 0 (Some (size_or_one (N.Config_sizeOf cfg))) (Some (cb_or_nop (N.Config_onEvict cfg)))).
Proof. intros K V Ev St lim cfg s Hl. exact (new_withstore_source St lim cfg s Hl). Qed.
Print Assumptions C09_new_withstore_source.
Example C09_new_withstore_source_ex :
  match N.New 300 (N.WithStore (N.OnEvict (N.mk_Config (@None nat) (@None (Z -> Z)) None) (Some (fun k v : Z => [k + v]))) (Some 42%nat)) with
  | FnRt.Ok c => N.Cache_store c = Some 42%nat /\ (N.Cache_size c, N.Cache_count c, N.Cache_limit c) = (0, 0, 300) /\
                 option_map (fun f => f 3 4) (N.Cache_onEvict c) = Some [7]
  | _ => False
  end.
Proof. repeat split; reflexivity. Qed.

(* The LRU configuration: New(lim, LRU().WithSize(sz).OnEvict(cb)) for lim > 0 returns a cache whose
   protected state is the sequential model's initial state (CacheSource.ginit lim: empty present
   map, new heap, clock 0, size 0, count 0) -- the state C09's linearizability reference starts from. *)
Theorem C09_new_lru_source :
  forall (K V Ev : Type) (lim : Z) (sz : option (V -> Z)) (cb : option (K -> V -> list Ev)),
    0 < lim ->
    exists c0, gen_new lim sz cb = FnRt.Ok c0 /\ gstate_of c0 = Some (ginit lim) /\
               N.Cache_sizeOf c0 = Some (size_or_one sz) /\ N.Cache_onEvict c0 = Some (cb_or_nop cb).
Proof. exact @init_ok. Qed.
Print Assumptions C09_new_lru_source.
Example C09_new_lru_source_ex :
  match @gen_new Z Z unit 65 (Some (fun v => v)) None with
  | FnRt.Ok c0 => gstate_of c0 = Some (ginit 65) /\ option_map (fun f => f 9) (N.Cache_sizeOf c0) = Some 9
  | _ => False
  end.
Proof. split; reflexivity. Qed.
