(* C15 — shell.Quote/Join protect every string; Split inverts Join.
   Only statements, each closed by [exact] of a lemma proved elsewhere.  The functions are those of
   Shell/ShellModel.v, assembled from the table, character sets AND control skeleton (the guards
   that open Quote and quote in source order, quotable's if-chain, the body of quote's loop, Join's
   separator, the actions of Next's switch, Split resetting its pooled scanner) that the translator
   regenerates from shell/shell.go into Gen/ShellTable.v.  Shell/ShellSkel.v proves that model equal
   to a readable statement-by-statement transcription, over which Shell/ShellProofs.v (round trips,
   generated transducer table) and Shell/ShellProofsPosix.v (POSIX clause, generated quoting sets)
   are carried out; Shell/ShellFinal.v transports the results. *)
From Coq Require Import NArith List.
Import ListNotations.
From Mds Require Import Gen.ShellTable Shell.ShellModel Shell.ShellSpec Shell.ShellFinal.
Local Open Scope N_scope.

(* Split(Join(ss)) = (ss, true) for every list of byte strings; no panic (Some). *)
Theorem C15_split_join : forall ss : list (list N), split (join ss) = Some (ss, true).
Proof. exact split_join. Qed.
Print Assumptions C15_split_join.

(* [ <empty> ; it<sq>s ; a<space>b;c ] *)
Example C15_split_join_ex :
  join [[]; [105; 116; 39; 115]; [97; 32; 98; 59; 99]]
  = [39; 39; 32; 105; 116; 92; 39; 115; 32; 39; 97; 32; 98; 59; 99; 39]
  /\ split (join [[]; [105; 116; 39; 115]; [97; 32; 98; 59; 99]])
     = Some ([[]; [105; 116; 39; 115]; [97; 32; 98; 59; 99]], true).
Proof. vm_compute. auto. Qed.

(* ... and whatever state the scanner that Split takes from its pool was left in by earlier
   calls (any token, any tokenizer state, error latched or not, input left unread): Split resets
   it completely.  [split] above is [split_from] on the pool's fresh scanner. *)
Theorem C15_split_join_pooled : forall (sc : scanner) (ss : list (list N)), split_from sc (join ss) = Some (ss, true).
Proof. exact split_join_pooled. Qed.
Print Assumptions C15_split_join_pooled.

Example C15_split_join_pooled_ex :   (* a scanner abandoned inside a double-quoted token, unread input left, error latched *)
  split_from {| inp := [120; 34; 121]; st := stDoubleQ; cur := [122; 122]; eof := true |} (join [[97; 32; 98]; []])
  = Some ([[97; 32; 98]; []], true).
Proof. vm_compute. reflexivity. Qed.

(* Split(Quote(s)) = ([s], true) for every byte string. *)
Theorem C15_split_quote : forall s : list N, split (quote s) = Some ([s], true).
Proof. exact split_quote. Qed.
Print Assumptions C15_split_quote.

Example C15_split_quote_ex :   (* a;<sq>~  ->  <sq>a;<sq><backslash><sq><sq>~<sq> *)
  quote [97; 59; 39; 126] = [39; 97; 59; 39; 92; 39; 39; 126; 39]
  /\ split (quote [97; 59; 39; 126]) = Some ([[97; 59; 39; 126]], true).
Proof. vm_compute. auto. Qed.

(* A POSIX shell evaluating Quote(s) as a command fragment obtains exactly the one word s and
   meets no unquoted character with a special meaning: [posix_words] is the transcription of
   XCU 2.2 (special set written from the standard: | & ; < > ( ) $ ` backslash dq sq space tab
   newline * ? [ # ~ = %; inside double quotes $ and ` stay special; an unquoted special or an
   open quote gives None).  The property text restricts s to NUL-free strings because a real
   shell cannot carry NUL in a word; the transcription has no such limit and the statement is
   proved for EVERY byte string, which includes the NUL-free ones. *)
Theorem C15_posix : forall s : list N, posix_words (quote s) = Some [s].
Proof. exact quote_posix. Qed.
Print Assumptions C15_posix.

Example C15_posix_ex :
  posix_words (quote [97; 59; 39; 126]) = Some [[97; 59; 39; 126]]
  /\ posix_words [97; 59; 98] = None            (* a;b unquoted: rejected *)
  /\ posix_words [126; 120] = None              (* ~x unquoted: rejected *)
  /\ posix_words [34; 36; 120; 34] = None.      (* $ inside double quotes: rejected *)
Proof. vm_compute. auto. Qed.

(* Where the line is drawn.  [posix_special] is the list of XCU 2.2 (IEEE Std 1003.1-2008/2013/2018, the
   edition the package documentation cites): | & ; < > ( ) $ ` backslash dq sq space tab newline, and
   "under certain circumstances" * ? [ # ~ = %.  Not in it, and left bare by Quote: ! { } ^ , ] - and
   every non-ASCII byte.  In a POSIX shell these are special only as a whole unquoted word in command
   position (the reserved words ! { } -- like if or while, which Quote leaves bare too) or inside a
   bracket expression, which needs an unquoted [ first (^ ! - ]); history expansion (!) and brace
   expansion ({ , }) are extensions of interactive bash/csh, not POSIX (POSIX.1-2024 added
   ] ^ - ! { , } to the "certain circumstances" list for exactly these contexts).  So Quote(s) is a
   safe *argument* word; it is not claimed safe as a command name. *)
Example C15_posix_boundary :
  quote [33] = [33] /\ quote [123] = [123] /\ quote [125] = [125] /\ quote [94] = [94] /\ quote [44; 93; 45] = [44; 93; 45]
  /\ posix_words [33; 32; 123; 125; 32; 94] = Some [[33]; [123; 125]; [94]]
  /\ quote [91; 33; 97; 93] = [39; 91; 33; 97; 93; 39].      (* the bracket that would make them special is quoted *)
Proof. vm_compute. auto 10. Qed.

(* The Join analogue, for every list of byte strings (the empty list gives the empty text, an
   empty string is written as two single quotes): a POSIX shell reads Join(ss) as exactly the
   words ss. *)
Theorem C15_posix_join : forall ss : list (list N), posix_words (join ss) = Some ss.
Proof. exact join_posix. Qed.
Print Assumptions C15_posix_join.

Example C15_posix_join_ex :
  posix_words (join [[]; [105; 116; 39; 115]; [97; 32; 98; 59; 99]])
  = Some [[]; [105; 116; 39; 115]; [97; 32; 98; 59; 99]]
  /\ posix_words (join []) = Some [].
Proof. vm_compute. auto. Qed.
