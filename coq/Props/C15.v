(* C15 — shell.Quote/Join protect every string; Split inverts Join.
   Only statements, each closed by [exact] of a lemma proved elsewhere
   (Shell/ShellProofs.v over the generated transducer table; Shell/ShellProofsPosix.v over the
   generated quoting sets mustQuote/shouldQuote/spaces/allQuote of Gen/ShellTable.v). *)
From Coq Require Import NArith List.
Import ListNotations.
From Mds Require Import Shell.ShellModel Shell.ShellSpec Shell.ShellProofs Shell.ShellProofsPosix.
Local Open Scope N_scope.

(* Split(Join(ss)) = (ss, true) for every list of byte strings; no panic (Some). *)
Theorem C15_split_join : forall ss : list (list N), split (join ss) = Some (ss, true).
Proof. exact split_join. Qed.
Print Assumptions C15_split_join.

(* [ <empty> ; it<sq>s ; a<space>b;c ] *)
Example C15_split_join_ex :
  join [[]; [105; 116; 39; 115]; [97; 32; 98; 59; 99]]
  = [39; 39; 32; 105; 116; 92; 39; 115; 32; 39; 97; 32; 98; 59; 99; 39]
  /\ split (join [[]; [105; 116; 39; 115]; [97; 32; 98; 59; 99]])
     = Some ([[]; [105; 116; 39; 115]; [97; 32; 98; 59; 99]], true).
Proof. vm_compute. auto. Qed.

(* Split(Quote(s)) = ([s], true) for every byte string. *)
Theorem C15_split_quote : forall s : list N, split (quote s) = Some ([s], true).
Proof. exact split_quote. Qed.
Print Assumptions C15_split_quote.

Example C15_split_quote_ex :   (* a;<sq>~  ->  <sq>a;<sq><backslash><sq><sq>~<sq> *)
  quote [97; 59; 39; 126] = [39; 97; 59; 39; 92; 39; 39; 126; 39]
  /\ split (quote [97; 59; 39; 126]) = Some ([[97; 59; 39; 126]], true).
Proof. vm_compute. auto. Qed.

(* A POSIX shell evaluating Quote(s) as a command fragment obtains exactly the one word s and
   meets no unquoted character with a special meaning: [posix_words] is the transcription of
   XCU 2.2 (special set written from the standard: | & ; < > ( ) $ ` backslash dq sq space tab
   newline * ? [ # ~ = %; inside double quotes $ and ` stay special; an unquoted special or an
   open quote gives None).  The property text restricts s to NUL-free strings because a real
   shell cannot carry NUL in a word; the transcription has no such limit and the statement is
   proved for EVERY byte string, which includes the NUL-free ones. *)
Theorem C15_posix : forall s : list N, posix_words (quote s) = Some [s].
Proof. exact quote_posix. Qed.
Print Assumptions C15_posix.

Example C15_posix_ex :
  posix_words (quote [97; 59; 39; 126]) = Some [[97; 59; 39; 126]]
  /\ posix_words [97; 59; 98] = None            (* a;b unquoted: rejected *)
  /\ posix_words [126; 120] = None              (* ~x unquoted: rejected *)
  /\ posix_words [34; 36; 120; 34] = None.      (* $ inside double quotes: rejected *)
Proof. vm_compute. auto. Qed.

(* The Join analogue, for every list of byte strings (the empty list gives the empty text, an
   empty string is written as two single quotes): a POSIX shell reads Join(ss) as exactly the
   words ss. *)
Theorem C15_posix_join : forall ss : list (list N), posix_words (join ss) = Some ss.
Proof. exact join_posix. Qed.
Print Assumptions C15_posix_join.

Example C15_posix_join_ex :
  posix_words (join [[]; [105; 116; 39; 115]; [97; 32; 98; 59; 99]])
  = Some [[]; [105; 116; 39; 115]; [97; 32; 98; 59; 99]]
  /\ posix_words (join []) = Some [].
Proof. vm_compute. auto. Qed.
