(* C15 — shell.Quote/Join protect every string; Split inverts Join.
   Only statements, each closed by [exact] of a lemma proved elsewhere. *)
From Coq Require Import NArith List.
Import ListNotations.
From Mds Require Import Shell.ShellModel Shell.ShellProofs.

(* Split(Join(ss)) = (ss, true) for every list of byte strings; no panic (Some). *)
Theorem C15_split_join : forall ss : list bytes, split (join ss) = Some (ss, true).
Proof. exact split_join. Qed.
Print Assumptions C15_split_join.

(* Split(Quote(s)) = ([s], true) for every byte string. *)
Theorem C15_split_quote : forall s : bytes, split (quote s) = Some ([s], true).
Proof. exact split_quote. Qed.
Print Assumptions C15_split_quote.
