(* C04 at the level of the GENERATED code, starting from the GENERATED constructors: omap.NewFunc and
   omap.New as the configuration backend of the function translator regenerates them on every run
   (Gen/FnOmapNew.v), over stree.New as the heap backend regenerates it (Gen/FnStree.v).  Only
   statements, each closed by [exact] of a lemma of GenTie/OmapTieNew.v.

   [newfunc_g limitFunc srt cpt h0 cf]   the generated NewFunc(cf) with stree.New instantiated by the
        generated New (no keys) on the heap h0 and KV{}.Compare(cf) by the hand-written reading
        "compare the keys" (OM.kvcmp; KV.Compare is not translated); limitFunc, srt, cpt stand for
        stree's limitFunc and the two functions of package slices (not called without keys: no
        contract is assumed here).
   Not covered: cf = nil; Map values copied (aliasing); String. *)
From Coq Require Import ZArith List Lia.
Import ListNotations.
From Mds Require Import Common.FnRt GenTie.StreeTieBase GenTie.StreeSource GenTie.StreeTieNew GenTie.StreeSourceNew
  GenTie.OmapTieBase GenTie.OmapSource GenTie.OmapTieNew.
From Mds Require Import Stree.StreeSpec.
From Mds Require Gen.FnOmapNew Gen.OmapConst Omap.OmapSpec Stree.HeightModel.
Local Open Scope Z_scope.

(* NewFunc(cf): the Map's field m is the empty Tree object with β = 250 (= the anchor omap_beta),
   compare = the key comparison lifted to KV, limit = limitFunc(250), size = max = 0, root nil, and
   the heap is left as it was. *)
Theorem C04_newfunc_is_source : forall (K V : Type) (limitFunc : Z -> Z -> Z)
  (srt : list (option nat) -> (unit -> option nat -> option nat -> res (Z * unit)) -> res (list (option nat)))
  (cpt : list (option nat) -> (unit -> option nat -> option nat -> res (bool * unit)) -> res (list (option nat)))
  (h0 : list (G.node (K * V))) (kcmp : K -> K -> Z),
  FnOmapNew.Map_m (newfunc_g limitFunc srt cpt h0 (Some kcmp)) =
  Ok (G.mk_Tree None OmapConst.omap_beta (OM.kvcmp K V kcmp) (limitFunc OmapConst.omap_beta) 0 0, h0).
Proof. exact @newfunc_is_source. Qed.
Print Assumptions C04_newfunc_is_source.

(* New[T cmp.Ordered, U]() is NewFunc(cmp.Compare): cmp.Compare is a function argument *)
Theorem C04_new_is_newfunc : forall (K V : Type) (limitFunc : Z -> Z -> Z)
  (srt : list (option nat) -> (unit -> option nat -> option nat -> res (Z * unit)) -> res (list (option nat)))
  (cpt : list (option nat) -> (unit -> option nat -> option nat -> res (bool * unit)) -> res (list (option nat)))
  (h0 : list (G.node (K * V))) (cmp_Compare : option (K -> K -> Z)),
  FnOmapNew.New (stree_New_g limitFunc srt cpt h0) (@kv_Compare_g K V) cmp_Compare =
  newfunc_g limitFunc srt cpt h0 cmp_Compare.
Proof. exact @new_is_newfunc. Qed.
Print Assumptions C04_new_is_newfunc.

(* C04_history_source from the generated constructor: the object NewFunc(kcmp) returns exists, its
   heap is h0, and every history of the generated omap functions over the generated stree functions
   on that object - called with the β and the limit closure READ OFF its record - answers like the
   key-sorted association list started empty. *)
Theorem C04_history_source_new : forall (K V : Type) (limitFunc : Z -> Z -> Z)
  (srt : list (option nat) -> (unit -> option nat -> option nat -> res (Z * unit)) -> res (list (option nat)))
  (cpt : list (option nat) -> (unit -> option nat -> option nat -> res (bool * unit)) -> res (list (option nat)))
  (h0 : list (G.node (K * V))) (kcmp : K -> K -> Z), total_preorder kcmp ->
  forall (zk : K) (zv : V) (ops : list (gop K V)),
  exists (tr : G.Tree (K * V)) (h : list (G.node (K * V))),
    FnOmapNew.Map_m (newfunc_g limitFunc srt cpt h0 (Some kcmp)) = Ok (tr, h) /\ h = h0 /\
    G.Tree_compare tr = OM.kvcmp K V kcmp /\ G.Tree_β tr = OmapConst.omap_beta /\
    orun kcmp (fun _ => G.Tree_limit tr) zk zv (G.Tree_β tr) (gst_of tr h) ops =
    oviews ops (OmapSpec.spec_run_from K V kcmp zk zv (Some []) (map to_mop ops)).
Proof. exact @history_source_newfunc. Qed.
Print Assumptions C04_history_source_new.

(* non-vacuity: the generated constructor runs (a heap that already holds a foreign cell) *)
Example C04_newfunc_is_source_ex :
  match FnOmapNew.Map_m (newfunc_g HeightModel.limit_exact sort_cb compact_cb
          [G.mk_node (9, 9) None None] (Some Z.sub)) with
  | Ok (tr, h) => G.Tree_root tr = None /\ G.Tree_β tr = 250 /\ G.Tree_size tr = 0 /\ length h = 1%nat /\
                  G.Tree_compare tr (1, 5) (3, 0) = -2 /\ G.Tree_limit tr 8 = 4
  | _ => False
  end.
Proof. vm_compute. repeat split. Qed.
