(* C04 — omap.Map is an ordered map: lookups, updates and iterators match a reference.
   Only statements, each closed by [exact] of a lemma proved in Omap/OmapProofs.v.

   Vocabulary: OmapModel (the model of omap/omap.go on top of the tree model of C01 and the cursor
   model of C03; [run_from] = all outputs of a history of Set/Delete/Clear/GetOK/Len/Keys/String
   and of iterator sessions "First|Last|Seek k, then any sequence of Next/Prev/Iter.Seek", observed
   (IsValid, Key, Value) after every step), OmapSpec (the reference: association list ascending by
   key, iterators are indices; state None = the zero Map), StreeSpec.total_preorder (lawful
   comparison: cmp a b and cmp b a have opposite signs, <= is transitive).

   Not here: "copies of a Map share the same contents" is an aliasing fact (a Map value is one
   pointer; in the model a copy IS the same state); the correspondence runs drive a fifth of all
   operations through a copy of the Map value. *)
From Coq Require Import ZArith List Lia.
Import ListNotations.
From Mds Require Import Gen.OmapConst Stree.StreeModel Stree.StreeSpec Omap.OmapModel Omap.OmapSpec Omap.OmapProofs
  Omap.OmapSpecFacts Omap.OmapTrace Omap.OmapTraceSpec Omap.OmapTraceProofs.

(* For every key and value type, every lawful comparison of keys, every depth-limit function of
   the underlying tree (so: whatever rebalancing happens), every zero key/value and every history:
   (1) a Map made by New/NewFunc exists (no panic) and every output of the history on it — the
   booleans of Set/Delete, Get/GetOK, Len, Keys (nil when empty), the entries String prints, and
   IsValid/Key/Value after every step of every iterator session — equals the reference's, with no
   panic and no fuel exhaustion anywhere (the reference never fails on such a map);
   (2) the same on the zero Map, where the reference answers every read like the empty map, Delete
   and Clear do nothing, and Set panics. *)
Theorem C04_history : forall (K V : Type) (kcmp : K -> K -> Z), total_preorder kcmp ->
  forall (limit : Z -> Z -> Z) (zk : K) (zv : V) (ops : list (op K V)),
  (exists m0, new_func K V kcmp = Ok m0 /\
              run_from K V kcmp limit zk zv m0 ops = spec_run_from K V kcmp zk zv (Some []) ops) /\
  run_from K V kcmp limit zk zv (zero_map K V) ops = spec_run_from K V kcmp zk zv None ops.
Proof. exact omap_history. Qed.
Print Assumptions C04_history.

(* Sessions with PERSISTENT iterators (the form the correspondence traces have, OmapTrace.v): up to
   four iterators are kept in registers across the other operations of the history.  An iterator
   positioned before an edit is stale (the package: "you will need to re-synchronize any iterators
   after the edits") and is not moved or read until Iter.Seek re-synchronizes it, which any
   register may do at any time, also after arbitrary edits.  Ops: Set/Delete/Clear, Get AND GetOK,
   Len, Keys, String, First/Last/Seek into a register, Iter.Seek/Next/Prev on a register, and the
   loops "for ; it.IsValid(); it.Next()" / "...Prev()" bounded by Len+2 steps; after every
   iterator op the (IsValid, Key, Value) of every non-stale register is observed.
   For every lawful comparison, depth-limit function and list of such ops, on a Map from
   New/NewFunc (zero = false) and on the zero Map (zero = true): every output of the model equals
   the reference machine's (OmapTraceSpec.v: indices into the sorted association list; the loops in
   closed form: from index j Next visits exactly l[j..] and Prev exactly l[j], ..., l[0], ending
   invalid — so the Len+2 bound is never what stops them; Set on the zero Map panics and ends the
   case). *)
Theorem C04_sessions : forall (K V : Type) (kcmp : K -> K -> Z), total_preorder kcmp ->
  forall (limit : Z -> Z -> Z) (zk : K) (zv : V) (zero : bool) (ops : list (top K V)),
  run_trace K V kcmp limit zk zv zero ops = spec_trace K V kcmp zk zv zero ops.
Proof. exact trace_refines. Qed.
Print Assumptions C04_sessions.

(* ---- The reference says what the property text says.  These are statements about OmapSpec only
   (an association list [l] ascending by key, [sorted (kvcmp K V kcmp) l]); by C04_history they
   hold of the implementation's model output for output. *)

(* Set reports true exactly for new keys, always leaves the latest value, touches no other key, and
   keeps the list ascending *)
Theorem C04_ref_set : forall (K V : Type) (kcmp : K -> K -> Z), total_preorder kcmp -> forall (zv : V) k v l,
  sorted (kvcmp K V kcmp) l ->
  snd (a_set K V kcmp k v l) = negb (snd (a_get K V kcmp zv k l)) /\
  a_get K V kcmp zv k (fst (a_set K V kcmp k v l)) = (v, true) /\
  (forall k', kcmp k' k <> 0%Z -> a_get K V kcmp zv k' (fst (a_set K V kcmp k v l)) = a_get K V kcmp zv k' l) /\
  sorted (kvcmp K V kcmp) (fst (a_set K V kcmp k v l)).
Proof. intros K V kcmp HK zv. exact (ref_set K V kcmp HK zv). Qed.
Print Assumptions C04_ref_set.

(* Delete reports whether the key was present, removes it, touches no other key *)
Theorem C04_ref_delete : forall (K V : Type) (kcmp : K -> K -> Z), total_preorder kcmp -> forall (zv : V) k l,
  sorted (kvcmp K V kcmp) l ->
  snd (a_delete K V kcmp k l) = snd (a_get K V kcmp zv k l) /\
  a_get K V kcmp zv k (fst (a_delete K V kcmp k l)) = (zv, false) /\
  (forall k', kcmp k' k <> 0%Z -> a_get K V kcmp zv k' (fst (a_delete K V kcmp k l)) = a_get K V kcmp zv k' l).
Proof. intros K V kcmp HK zv. exact (ref_delete K V kcmp HK zv). Qed.
Print Assumptions C04_ref_delete.

(* Seek(k) is the first entry whose key is not less than k: every earlier entry is less than k;
   no position when every key is less than k *)
Theorem C04_ref_seek_least : forall (K V : Type) (kcmp : K -> K -> Z) k (l : list (kv K V)),
  match a_seek K V kcmp k l with
  | Some j => (exists e, nth_error l j = Some e /\ ~ (kcmp (fst e) k < 0)%Z) /\
              (forall n e, (n < j)%nat -> nth_error l n = Some e -> (kcmp (fst e) k < 0)%Z)
  | None => forall e, In e l -> (kcmp (fst e) k < 0)%Z
  end.
Proof. exact a_seek_least. Qed.
Print Assumptions C04_ref_seek_least.

(* First then Next^n shows exactly the entries in ascending order and then becomes invalid; Last
   then Prev^n the entries in descending order and then invalid ([ent e] = (true, key, value),
   [inval] = (false, zero key, zero value)) *)
Theorem C04_ref_enumerate : forall (K V : Type) (kcmp : K -> K -> Z) (zk : K) (zv : V) (l : list (kv K V)),
  a_iter K V kcmp zk zv l IFirst (repeat INext (length l)) = map (ent K V) l ++ [inval K V zk zv] /\
  a_iter K V kcmp zk zv l ILast (repeat IPrev (length l)) = map (ent K V) (rev l) ++ [inval K V zk zv].
Proof. exact ref_enumerate. Qed.
Print Assumptions C04_ref_enumerate.

(* from Seek(k) at index j: Next to the end shows l[j..] then invalid, Prev shows l[j], ..., l[0]
   then invalid; when there is no entry >= k the iterator is invalid at once *)
Theorem C04_ref_from_seek : forall (K V : Type) (kcmp : K -> K -> Z) (zk : K) (zv : V) k (l : list (kv K V)),
  match a_seek K V kcmp k l with
  | Some j =>
    (j < length l)%nat /\
    a_iter K V kcmp zk zv l (ISeek k) (repeat INext (length l - j)) = map (ent K V) (skipn j l) ++ [inval K V zk zv] /\
    a_iter K V kcmp zk zv l (ISeek k) (repeat IPrev (S j)) = map (ent K V) (rev (firstn (S j) l)) ++ [inval K V zk zv]
  | None => a_iter K V kcmp zk zv l (ISeek k) [] = [inval K V zk zv]
  end.
Proof. exact iter_from_seek. Qed.
Print Assumptions C04_ref_from_seek.

(* ---- the hypotheses are satisfiable, the model computes, and the reference says what the text says *)
Lemma zsub_preorder : total_preorder Z.sub.
Proof. split; intros; lia. Qed.

Definition ex_ops : list (op Z Z) :=
  [OSet 5 50; OSet 1 10; OSet 9 90; OSet 5 55; ODelete 1; ODelete 7; OGetOK 5; OGetOK 1; OLen; OKeys; OString;
   OIter (ISeek 6) [IPrev; IPrev; INext]; OIter IFirst [INext; INext]; OIter (ISeek 10) [IReseek 0];
   OClear; OKeys; OIter ILast [INext]]%Z.

Example C04_history_example :
  run_from Z Z Z.sub (fun _ n => n + 1)%Z 0%Z 0%Z (Some (mkTree Leaf omap_beta 0 0)) ex_ops =
  [RBool true; RBool true; RBool true; RBool false; RBool true; RBool false; RGet 55 true; RGet 0 false;
   RInt 2; RKeys (Some [5; 9]); RString (Some [(5, 55); (9, 90)]);
   RIter [(true, 9, 90); (true, 5, 55); (false, 0, 0); (false, 0, 0)];
   RIter [(true, 5, 55); (true, 9, 90); (false, 0, 0)];
   RIter [(false, 0, 0); (true, 5, 55)];
   RUnit; RKeys None; RIter [(false, 0, 0); (false, 0, 0)]]%Z /\
  run_from Z Z Z.sub (fun _ n => n + 1)%Z 0%Z 0%Z None [OLen; OSet 1 1; OKeys; OIter IFirst [INext]]%Z =
  [RInt 0; RFail Panic; RKeys None; RIter [(false, 0, 0); (false, 0, 0)]]%Z.
Proof. vm_compute. split; reflexivity. Qed.

Definition ex_l : list (kv Z Z) := [(1, 10); (5, 50); (9, 90)]%Z.

Example C04_ref_set_example :
  sorted (kvcmp Z Z Z.sub) ex_l /\ a_set Z Z Z.sub 5%Z 7%Z ex_l = ([(1, 10); (5, 7); (9, 90)]%Z, false) /\
  a_set Z Z Z.sub 6%Z 7%Z ex_l = ([(1, 10); (5, 50); (6, 7); (9, 90)]%Z, true).
Proof. split; [cbn; repeat split; intros y Hy; cbn in Hy; intuition (subst; reflexivity)|]. vm_compute. split; reflexivity. Qed.

Example C04_ref_delete_example :
  a_delete Z Z Z.sub 5%Z ex_l = ([(1, 10); (9, 90)]%Z, true) /\ a_delete Z Z Z.sub 6%Z ex_l = (ex_l, false).
Proof. vm_compute. split; reflexivity. Qed.

Example C04_ref_seek_least_example :
  a_seek Z Z Z.sub 5%Z ex_l = Some 1%nat /\ a_seek Z Z Z.sub 6%Z ex_l = Some 2%nat /\
  a_seek Z Z Z.sub 0%Z ex_l = Some 0%nat /\ a_seek Z Z Z.sub 10%Z ex_l = None.
Proof. vm_compute. repeat split; reflexivity. Qed.

Example C04_ref_enumerate_example :
  a_iter Z Z Z.sub 0%Z 0%Z ex_l IFirst [INext; INext; INext] = [(true, 1, 10); (true, 5, 50); (true, 9, 90); (false, 0, 0)]%Z.
Proof. vm_compute. reflexivity. Qed.

Example C04_ref_from_seek_example :
  a_iter Z Z Z.sub 0%Z 0%Z ex_l (ISeek 4%Z) [IPrev; IPrev] = [(true, 5, 50); (true, 1, 10); (false, 0, 0)]%Z.
Proof. vm_compute. reflexivity. Qed.

(* an iterator kept across a Delete is stale until Iter.Seek; sweeps from re-synchronized positions;
   a register never assigned cannot be re-synchronized; the zero Map *)
Example C04_sessions_example :
  run_trace_int Z.sub false
    [TSet 5 50; TSet 1 10; TSet 9 90; TFirst 0; TNext 0; TDelete 5; TNext 0; TReseek 0 5; TSweepNext 0;
     TLast 1; TSweepPrev 1; TGet 9; TString; TReseek 2 1]%Z =
  [XBool true; XBool true; XBool true; XRegs [Some (true, 1, 10)]; XRegs [Some (true, 5, 50)]; XBool true; XStale;
   XRegs [Some (true, 9, 90)]; XSweep [(9, 90)] false; XRegs [Some (false, 0, 0); Some (true, 9, 90)];
   XSweep [(9, 90); (1, 10)] false; XGet 90 90 true; XString [(1, 10); (9, 90)]; XStale]%Z /\
  run_trace_int Z.sub true [TLen; TFirst 0; TNext 0; TSweepPrev 0; TSet 1 1; TLen]%Z =
  [XLen 0; XRegs [Some (false, 0, 0)]; XRegs [Some (false, 0, 0)]; XSweep [] false; XPanic]%Z.
Proof. vm_compute. split; reflexivity. Qed.
