(* C04 — omap.Map is an ordered map: lookups, updates and iterators match a reference.
   Only statements, each closed by [exact] of a lemma proved in Omap/OmapProofs.v.

   Vocabulary: OmapModel (the model of omap/omap.go on top of the tree model of C01 and the cursor
   model of C03; [run_from] = all outputs of a history of Set/Delete/Clear/GetOK/Len/Keys/String
   and of iterator sessions "First|Last|Seek k, then any sequence of Next/Prev/Iter.Seek", observed
   (IsValid, Key, Value) after every step), OmapSpec (the reference: association list ascending by
   key, iterators are indices; state None = the zero Map), StreeSpec.total_preorder (lawful
   comparison: cmp a b and cmp b a have opposite signs, <= is transitive).

   Not here: "copies of a Map share the same contents" is an aliasing fact (a Map value is one
   pointer; in the model a copy IS the same state); the correspondence runs drive a fifth of all
   operations through a copy of the Map value. *)
From Coq Require Import ZArith List Lia.
Import ListNotations.
From Mds Require Import Gen.OmapConst Stree.StreeModel Stree.StreeSpec Omap.OmapModel Omap.OmapSpec Omap.OmapProofs.

(* For every key and value type, every lawful comparison of keys, every depth-limit function of
   the underlying tree (so: whatever rebalancing happens), every zero key/value and every history:
   (1) a Map made by New/NewFunc exists (no panic) and every output of the history on it — the
   booleans of Set/Delete, Get/GetOK, Len, Keys (nil when empty), the entries String prints, and
   IsValid/Key/Value after every step of every iterator session — equals the reference's, with no
   panic and no fuel exhaustion anywhere (the reference never fails on such a map);
   (2) the same on the zero Map, where the reference answers every read like the empty map, Delete
   and Clear do nothing, and Set panics. *)
Theorem C04_history : forall (K V : Type) (kcmp : K -> K -> Z), total_preorder kcmp ->
  forall (limit : Z -> Z -> Z) (zk : K) (zv : V) (ops : list (op K V)),
  (exists m0, new_func K V kcmp = Ok m0 /\
              run_from K V kcmp limit zk zv m0 ops = spec_run_from K V kcmp zk zv (Some []) ops) /\
  run_from K V kcmp limit zk zv (zero_map K V) ops = spec_run_from K V kcmp zk zv None ops.
Proof. exact omap_history. Qed.
Print Assumptions C04_history.

(* ---- the hypotheses are satisfiable, the model computes, and the reference says what the text says *)
Lemma zsub_preorder : total_preorder Z.sub.
Proof. split; intros; lia. Qed.

Definition ex_ops : list (op Z Z) :=
  [OSet 5 50; OSet 1 10; OSet 9 90; OSet 5 55; ODelete 1; ODelete 7; OGetOK 5; OGetOK 1; OLen; OKeys; OString;
   OIter (ISeek 6) [IPrev; IPrev; INext]; OIter IFirst [INext; INext]; OIter (ISeek 10) [IReseek 0];
   OClear; OKeys; OIter ILast [INext]]%Z.

Example C04_history_example :
  run_from Z Z Z.sub (fun _ n => n + 1)%Z 0%Z 0%Z (Some (mkTree Leaf omap_beta 0 0)) ex_ops =
  [RBool true; RBool true; RBool true; RBool false; RBool true; RBool false; RGet 55 true; RGet 0 false;
   RInt 2; RKeys (Some [5; 9]); RString (Some [(5, 55); (9, 90)]);
   RIter [(true, 9, 90); (true, 5, 55); (false, 0, 0); (false, 0, 0)];
   RIter [(true, 5, 55); (true, 9, 90); (false, 0, 0)];
   RIter [(false, 0, 0); (true, 5, 55)];
   RUnit; RKeys None; RIter [(false, 0, 0); (false, 0, 0)]]%Z /\
  run_from Z Z Z.sub (fun _ n => n + 1)%Z 0%Z 0%Z None [OLen; OSet 1 1; OKeys; OIter IFirst [INext]]%Z =
  [RInt 0; RFail Panic; RKeys None; RIter [(false, 0, 0); (false, 0, 0)]]%Z.
Proof. vm_compute. split; reflexivity. Qed.
