(* C09 — cache.Cache under concurrent use: the locking discipline is proved, the runtime is exercised.
   Only statements, each closed by [exact] of a lemma proved in Cache/.

   Model: Cache/Conc.v — threads calling methods in small steps call / acquire / read / write /
   release / return, where the two micro-steps of a method need the mutex iff the method is
   lock-wrapped according to Gen/CacheLocks.v (regenerated from cache/cache.go on every run); the
   sequential object is the C08 model (Cache/CacheModel.v, any heap variant).

   PARTIAL by nature.  Proved: with every method lock-wrapped (C09_all_methods_locked, the
   obligation that breaks when a Lock is dropped or narrowed), for every schedule and every prefix
   the history is linearizable w.r.t. the C08 sequential model with the order of critical sections
   as the witness (each linearization point lies between its call's invocation and response, so
   real-time order is respected), the linearized run is a behaviour of the C08 reference S1 (no
   panic, each departing entry reported exactly once), and every observed Size is within the
   limit.  NOT proved (no Gallina model exhibits them; exercised by the -race runs of
   harness/cmd/cacheconc): data-race freedom in the Go memory model, sync.Mutex itself,
   re-entrant callbacks.  The known finding F2 carries over unchanged: the sequential object is
   C08's, and with the pinned heap its eviction order is not LRU. *)
From Coq Require Import ZArith List Bool String.
Import ListNotations.
From Mds Require Import Gen.CacheLocks Heapq.HeapqModel Cache.CacheSpec Cache.CacheModel Cache.CacheWitness
  Cache.Conc Cache.ConcCache Cache.ConcLocks.
Local Open Scope Z_scope.

(* Put, Get, Has, Remove, Clear, Len, Size all start with c.μ.Lock(); defer c.μ.Unlock() *)
Theorem C09_all_methods_locked : all_locked = true.
Proof. exact all_locked_now. Qed.
Print Assumptions C09_all_methods_locked.

Example C09_all_methods_locked_ex :
  cache_methods = [("Clear", true); ("Get", true); ("Has", true); ("Len", true); ("Put", true); ("Remove", true); ("Size", true)]%string.
Proof. reflexivity. Qed.

(* For every key/value type, size function, heap variant, limit, set of thread programs, schedule
   and prefix: the history of invocations and responses is linearizable w.r.t. the C08 model. *)
Theorem C09_linearizable_partial :
  forall (K V : Type) (keqb : K -> K -> bool) (kzero : K) (vzero : V) (sizeOf : V -> Z)
         (hv : variant) (lim : Z) (progs : nat -> list (op K V))
         (c : config (cache K V) (op K V) (option (out V * evlog K V))),
    reach _ _ _ (cache_seq K V keqb kzero vzero sizeOf hv) method_locked (cache_init K V lim) progs c ->
    linearizable _ _ _ (cache_seq K V keqb kzero vzero sizeOf hv) (cache_init K V lim)
                 (history _ _ (trace _ _ _ c)).
Proof. intros. eapply cache_linearizable; [exact all_locked_now|eassumption]. Qed.
Print Assumptions C09_linearizable_partial.

(* ... the calls in linearization order, with the results and callback logs the threads saw, are
   accepted by the policy-agnostic reference of C08: no call panics, answers and accounting are a
   cache's, every departing entry is reported exactly once. *)
Theorem C09_linearization_is_cache_behaviour :
  forall (K V : Type) (keqb : K -> K -> bool),
    (forall a b, keqb a b = true <-> a = b) ->
  forall (kzero : K) (vzero : V) (sizeOf : V -> Z),
    (forall v, 0 <= sizeOf v) ->
  forall (hv : variant) (lim : Z),
    0 < lim ->
  forall (progs : nat -> list (op K V)) (c : config (cache K V) (op K V) (option (out V * evlog K V))),
    reach _ _ _ (cache_seq K V keqb kzero vzero sizeOf hv) method_locked (cache_init K V lim) progs c ->
    exists obs, map snd (lins _ _ (trace _ _ _ c)) = map Some obs /\
                s1_accepts K V keqb vzero sizeOf lim [] (map fst (lins _ _ (trace _ _ _ c))) obs.
Proof. intros. eapply cache_linearization_s1; try eassumption. exact all_locked_now. Qed.
Print Assumptions C09_linearization_is_cache_behaviour.

(* ... and every Size() any thread observes is within the limit. *)
Theorem C09_size_le_limit :
  forall (K V : Type) (keqb : K -> K -> bool),
    (forall a b, keqb a b = true <-> a = b) ->
  forall (kzero : K) (vzero : V) (sizeOf : V -> Z),
    (forall v, 0 <= sizeOf v) ->
  forall (hv : variant) (lim : Z),
    0 < lim ->
  forall (progs : nat -> list (op K V)) (c : config (cache K V) (op K V) (option (out V * evlog K V))) r,
    reach _ _ _ (cache_seq K V keqb kzero vzero sizeOf hv) method_locked (cache_init K V lim) progs c ->
    In (OSize, r) (lins _ _ (trace _ _ _ c)) ->
    exists n, r = Some (RNum n, []) /\ 0 <= n <= lim.
Proof. intros. eapply cache_conc_size_le_limit; try eassumption. exact all_locked_now. Qed.
Print Assumptions C09_size_le_limit.

(* the hypotheses are satisfiable by a non-trivial schedule: thread 0 runs Put(1,10) up to its
   linearization point while thread 1 has invoked Size() and waits for the mutex *)
Example C09_reach_ex :
  let progs := fun t : nat => match t with O => [OPut 1 10] | S O => [OSize] | _ => [] end in
  exists c, reach _ _ _ (cache_seq Z Z Z.eqb 0 0 unit_size pinned) method_locked (cache_init Z Z 2) progs c /\
            lock _ _ _ c = Some O /\
            trace _ _ _ c = [EInv _ _ O (OPut 1 10); EInv _ _ 1%nat OSize; ELin _ _ O (OPut 1 10) (Some (RBool true, []))] /\
            ph _ _ _ c 1%nat = Invoked _ _ _ OSize.
Proof.
  intro progs.
  pose (sq := cache_seq Z Z Z.eqb 0 0 unit_size pinned).
  pose (lk := @method_locked Z Z).
  assert (R0 := reach_start _ _ _ sq lk (cache_init Z Z 2) progs).
  match type of R0 with reach _ _ _ _ _ _ _ ?c =>
    pose proof (reach_step _ _ _ sq lk _ progs _ _ R0 (s_call _ _ _ sq lk O (OPut 1 10) [] c eq_refl eq_refl)) as R1 end.
  match type of R1 with reach _ _ _ _ _ _ _ ?c =>
    pose proof (reach_step _ _ _ sq lk _ progs _ _ R1 (s_call _ _ _ sq lk 1%nat OSize [] c eq_refl eq_refl)) as R2 end.
  match type of R2 with reach _ _ _ _ _ _ _ ?c =>
    pose proof (reach_step _ _ _ sq lk _ progs _ _ R2 (s_acquire _ _ _ sq lk O (OPut 1 10) c eq_refl eq_refl eq_refl)) as R3 end.
  match type of R3 with reach _ _ _ _ _ _ _ ?c =>
    pose proof (reach_step _ _ _ sq lk _ progs _ _ R3 (s_read _ _ _ sq lk O (OPut 1 10) c eq_refl (or_intror eq_refl))) as R4 end.
  match type of R4 with reach _ _ _ _ _ _ _ ?c =>
    pose proof (reach_step _ _ _ sq lk _ progs _ _ R4 (s_write _ _ _ sq lk O (OPut 1 10) (cache_init Z Z 2) c eq_refl (or_intror eq_refl))) as R5 end.
  eexists. split; [exact R5|]. split; [reflexivity|]. split; [vm_compute; reflexivity|reflexivity].
Qed.
