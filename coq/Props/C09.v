(* C09 — cache.Cache under concurrent use: the locking discipline is proved, the runtime is exercised.
   Only statements, each closed by [exact] of a lemma proved in Cache/.

   Model: Cache/Conc.v — threads calling methods in small steps call / enter / read / write / leave /
   return; a call makes the critical sections its method's shape lists, each in its mode (Excl =
   Lock, Shar = RLock, Unl = no lock); between any two small steps of one thread the others may run.
   The shape of every method comes from Gen/CacheLocks.v, rebuilt from cache/cache.go on every run
   by the translator (translator/cachelocks.go): the parts of the method body in source order.  A
   method is one critical section iff its parts are exactly [Body Excl] (or [Body Shar]): Lock
   first, Unlock deferred, every statement touching the receiver in between, no call of another
   method of the cache anywhere.  The sequential object is the C08 model (Cache/CacheModel.v, any
   heap variant).

   PARTIAL by nature.  Proved: the current source has every method atomic
   (C09_all_methods_atomic — the obligation that breaks when a Lock is dropped, narrowed, split by
   a call of another locking method, or weakened to RLock in a method that changes the state);
   therefore, for every schedule and every prefix, the history of invocations and responses is
   linearizable in Herlihy and Wing's sense w.r.t. the C08 model (C09_linearizable_partial: a
   sequence of the completed calls with the results they returned, plus possibly pending ones,
   each call once, legal for the C08 model, respecting real-time order); every legal sequential run
   — so every linearization — is a behaviour of the C08 reference S1 (no panic, each departing
   entry reported exactly once) and, for a heap without the defects F1/F2, of the reference LRU;
   every observed Size is within [0, limit] and every observed Len is >= 0.
   The atomicity hypothesis is necessary: C09_check_then_act_refuted runs a Remove made of two
   exclusive sections (check, then act) to a history that is not linearizable.
   NOT proved (no Gallina model exhibits them; exercised by the -race runs of harness/cmd/cacheconc):
   data-race freedom in the Go memory model, sync.Mutex / sync.RWMutex themselves, re-entrant
   callbacks, and that the statements inside one critical section behave as the C08 step (that is
   C08's correspondence).  The known finding F2 carries over unchanged: the sequential object is
   C08's, and with the pinned heap its eviction order is not LRU. *)
From Coq Require Import ZArith List Bool String.
Import ListNotations.
From Mds Require Import Gen.CacheLocks Heapq.HeapqModel Cache.CacheSpec Cache.CacheModel Cache.CacheWitness
  Cache.ConcShape Cache.Conc Cache.ConcCache Cache.ConcLocks Cache.ConcRefute.
Local Open Scope Z_scope.

(* The mutex is a sync.Mutex or sync.RWMutex; Put, Get, Has, Remove, Clear, Len, Size and every
   other method of Cache that touches the receiver are one critical section each: exclusive, or
   shared for Has/Len/Size only. *)
Theorem C09_all_methods_atomic : all_atomic = true.
Proof. exact all_atomic_now. Qed.
Print Assumptions C09_all_methods_atomic.

(* the seven modelled methods are all found in the source, each as exactly one critical section (this
   does not pin the mode: a read-only method under RLock of a sync.RWMutex is accepted) *)
Example C09_all_methods_atomic_ex :
  forallb (fun n => match one_section (lookup n cache_methods) with Some _ => true | None => false end)
          ["Put"; "Get"; "Has"; "Remove"; "Clear"; "Len"; "Size"]%string = true /\
  one_section (lookup "Peek" cache_methods) = None.
Proof. split; reflexivity. Qed.

(* the shapes that the check rejects: the lock taken after a call of Has (two critical sections), a
   method under RLock that is not read-only, no lock, an explicit Unlock in the middle *)
Example C09_rejected_shapes_ex :
  method_ok "Remove" [CallSelf Unl "Has"; Body Excl] = false /\
  method_ok "Remove" [Body Excl; CallSelf Excl "Has"] = false /\
  method_ok "Get" [Body Shar] = false /\
  method_ok "Has" [Body Shar] = true /\
  method_ok "Len" [Body Unl] = false /\
  method_ok "Put" [Body Excl; Odd "explicit Unlock although the release is deferred"; Body Excl] = false /\
  method_ok "Peek" [Body Shar] = false.
Proof. repeat split; reflexivity. Qed.

(* For every key/value type, size function, heap variant, limit, set of thread programs, schedule
   and prefix: there is a sequence Sq of calls — no call twice; every completed call with the
   result it returned; otherwise only invoked (pending) calls — that is a legal sequential run of
   the C08 model from the empty cache and in which a call that returned before another was invoked
   comes first. *)
Theorem C09_linearizable_partial :
  forall (K V : Type) (keqb : K -> K -> bool) (kzero : K) (vzero : V) (sizeOf : V -> Z)
         (hv : variant) (lim : Z) (progs : nat -> list (op K V))
         (c : config (cache K V) (op K V) (cres_t K V) (cres_t K V)),
    reach _ _ _ _ method_shape (csec K V keqb kzero vzero sizeOf hv) None (cfin K V) (cache_init K V lim) progs c ->
    let H := history (op K V) (cres_t K V) (trace _ _ _ _ c) in
    exists Sq : list (call (op K V) (cres_t K V)),
      NoDup (map (c_id _ _) Sq) /\
      (forall t n o r, In (ERes _ _ t n o r) H -> In (mk_call _ _ t n o r) Sq) /\
      (forall t n o r, In (mk_call _ _ t n o r) Sq -> In (EInv _ _ t n o) H) /\
      legal _ _ _ _ method_shape (csec K V keqb kzero vzero sizeOf hv) None (cfin K V) (cache_init K V lim)
            (map (op_res _ _) Sq) /\
      (forall t1 n1 o1 r1 t2 n2 o2 r2,
          before (ERes _ _ t1 n1 o1 r1) (EInv _ _ t2 n2 o2) H -> In (mk_call _ _ t2 n2 o2 r2) Sq ->
          before (mk_call _ _ t1 n1 o1 r1) (mk_call _ _ t2 n2 o2 r2) Sq).
Proof. intros. eapply cache_linearizable; [exact all_atomic_now|eassumption]. Qed.
Print Assumptions C09_linearizable_partial.

(* the identifiers used above name calls: no identifier is invoked twice in a history *)
Theorem C09_call_ids_unique :
  forall (K V : Type) (keqb : K -> K -> bool) (kzero : K) (vzero : V) (sizeOf : V -> Z)
         (hv : variant) (lim : Z) (progs : nat -> list (op K V))
         (c : config (cache K V) (op K V) (cres_t K V) (cres_t K V)),
    reach _ _ _ _ method_shape (csec K V keqb kzero vzero sizeOf hv) None (cfin K V) (cache_init K V lim) progs c ->
    NoDup (flat_map (inv_id _ _) (history (op K V) (cres_t K V) (trace _ _ _ _ c))).
Proof. intros. eapply cache_ids_unique; [exact all_atomic_now|eassumption]. Qed.
Print Assumptions C09_call_ids_unique.

(* "legal for the small-step model's sequential object" means: call by call, the result is the
   C08 model's ([cache_seq] = CacheModel.step, None for a panic) and the next state is its state *)
Theorem C09_legal_is_c08_run :
  forall (K V : Type) (keqb : K -> K -> bool) (kzero : K) (vzero : V) (sizeOf : V -> Z)
         (hv : variant) (L : list (op K V * cres_t K V)) (c : cache K V),
    legal _ _ _ _ method_shape (csec K V keqb kzero vzero sizeOf hv) None (cfin K V) c L <->
    (fix lg (c : cache K V) (L : list (op K V * cres_t K V)) : Prop :=
       match L with
       | [] => True
       | (o, r) :: L' => snd (cache_seq K V keqb kzero vzero sizeOf hv c o) = r /\
                         lg (fst (cache_seq K V keqb kzero vzero sizeOf hv c o)) L'
       end) c L.
Proof. intros. apply cache_legal_is_c08. exact all_atomic_now. Qed.
Print Assumptions C09_legal_is_c08_run.

(* ... every legal sequential run from the empty cache — hence every linearization — with the
   results and callback logs the threads saw, is accepted by the policy-agnostic reference of
   C08: no call panics, answers and accounting are a cache's, every departing entry is reported
   exactly once. *)
Theorem C09_linearization_is_cache_behaviour :
  forall (K V : Type) (keqb : K -> K -> bool),
    (forall a b, keqb a b = true <-> a = b) ->
  forall (kzero : K) (vzero : V) (sizeOf : V -> Z) (hv : variant) (lim : Z),
    0 < lim ->
    (forall v, 0 <= sizeOf v) ->
  forall L : list (op K V * cres_t K V),
    legal _ _ _ _ method_shape (csec K V keqb kzero vzero sizeOf hv) None (cfin K V) (cache_init K V lim) L ->
    exists obs, map snd L = map Some obs /\ s1_accepts K V keqb vzero sizeOf lim [] (map fst L) obs.
Proof. intros. eapply cache_legal_s1; try eassumption. exact all_atomic_now. Qed.
Print Assumptions C09_linearization_is_cache_behaviour.

(* ... and for a heap without the two known defects (the repaired variant) its results and
   callback logs are exactly the reference LRU's: the victims are the least recently used. *)
Theorem C09_linearization_is_lru_repaired :
  forall (K V : Type) (keqb : K -> K -> bool),
    (forall a b, keqb a b = true <-> a = b) ->
  forall (kzero : K) (vzero : V) (sizeOf : V -> Z) (lim : Z),
    0 < lim ->
  forall L : list (op K V * cres_t K V),
    legal _ _ _ _ method_shape (csec K V keqb kzero vzero sizeOf repaired) None (cfin K V) (cache_init K V lim) L ->
    map snd L = map Some (s2_run K V keqb vzero sizeOf lim [] (map fst L)).
Proof. intros. eapply cache_legal_s2_sound_heap; try eassumption; reflexivity. Qed.
Print Assumptions C09_linearization_is_lru_repaired.

(* Every Size() any thread observes is within the limit. *)
Theorem C09_size_le_limit :
  forall (K V : Type) (keqb : K -> K -> bool),
    (forall a b, keqb a b = true <-> a = b) ->
  forall (kzero : K) (vzero : V) (sizeOf : V -> Z) (hv : variant) (lim : Z),
    0 < lim ->
    (forall v, 0 <= sizeOf v) ->
  forall (progs : nat -> list (op K V)) (c : config (cache K V) (op K V) (cres_t K V) (cres_t K V)) t n r,
    reach _ _ _ _ method_shape (csec K V keqb kzero vzero sizeOf hv) None (cfin K V) (cache_init K V lim) progs c ->
    In (ERes _ _ t n OSize r) (trace _ _ _ _ c) ->
    exists z, r = Some (RNum z, []) /\ 0 <= z <= lim.
Proof. intros. eapply cache_conc_size_le_limit; try eassumption. exact all_atomic_now. Qed.
Print Assumptions C09_size_le_limit.

(* Every Len() any thread observes is >= 0. *)
Theorem C09_len_nonneg :
  forall (K V : Type) (keqb : K -> K -> bool),
    (forall a b, keqb a b = true <-> a = b) ->
  forall (kzero : K) (vzero : V) (sizeOf : V -> Z) (hv : variant) (lim : Z),
    0 < lim ->
    (forall v, 0 <= sizeOf v) ->
  forall (progs : nat -> list (op K V)) (c : config (cache K V) (op K V) (cres_t K V) (cres_t K V)) t n r,
    reach _ _ _ _ method_shape (csec K V keqb kzero vzero sizeOf hv) None (cfin K V) (cache_init K V lim) progs c ->
    In (ERes _ _ t n OLen r) (trace _ _ _ _ c) ->
    exists z, r = Some (RNum z, []) /\ 0 <= z.
Proof. intros. eapply cache_conc_len_nonneg; try eassumption. exact all_atomic_now. Qed.
Print Assumptions C09_len_nonneg.

(* The hypotheses are satisfiable by a non-trivial schedule (computed with [run_sched]): thread 0
   has completed Put(1,10); thread 1's Remove(1) has made its effect but not returned; thread 2 has
   invoked Size() and waits for the mutex, which thread 1 still holds. *)
Example C09_reach_ex :
  let progs := fun t : nat => match t with O => [OPut 1 10] | 1%nat => [ORemove 1] | 2%nat => [OSize] | _ => [] end in
  exists c, reach _ _ _ _ method_shape (csec Z Z Z.eqb 0 0 unit_size pinned) None (cfin Z Z) (cache_init Z Z 2) progs c /\
            wr _ _ _ _ c = Some 1%nat /\
            trace _ _ _ _ c =
              [EInv _ _ O O (OPut 1 10); EEff _ _ O O (OPut 1 10) (Some (RBool true, [])); EInv _ _ 1%nat 1%nat (ORemove 1);
               ERes _ _ O O (OPut 1 10) (Some (RBool true, [])); EInv _ _ 2%nat 2%nat OSize;
               EEff _ _ 1%nat 1%nat (ORemove 1) (Some (RBool true, [(1, 10)]))] /\
            ph _ _ _ _ c 2%nat = Between _ _ _ 2%nat OSize O None.
Proof. exact conc_reach_example. Qed.

(* The atomicity hypothesis is necessary.  Take the same cache (int keys and values, unit sizes,
   limit 2) but let Remove be what seeded change S-C09-2 made it: a first exclusive section that
   only checks presence (Has), then a second exclusive section that removes without looking again.
   There is a schedule of two threads — Put(1,10); Remove(1); Len() against Remove(1) — whose
   history is not linearizable w.r.t. the C08 model: both Removes return true, the callback is told
   about key 1 twice, and Len() returns -1. *)
Theorem C09_check_then_act_refuted :
  exists (progs : nat -> list (op Z Z)) (c : config (cache Z Z) (op Z Z) (cres_t Z Z) (cres_t Z Z)),
    reach _ _ _ _ shape2 sec2 None (cfin Z Z) (cache_init Z Z 2) progs c /\
    In (ERes _ _ O 3%nat OLen (Some (RNum (-1), []))) (trace _ _ _ _ c) /\
    ~ exists Sq : list (call (op Z Z) (cres_t Z Z)),
        (forall t n o r, In (ERes _ _ t n o r) (history _ _ (trace _ _ _ _ c)) -> In (mk_call _ _ t n o r) Sq) /\
        legal _ _ _ _ method_shape (csec Z Z Z.eqb 0 0 unit_size pinned) None (cfin Z Z) (cache_init Z Z 2)
              (map (op_res _ _) Sq).
Proof. exact check_then_act_refuted. Qed.
Print Assumptions C09_check_then_act_refuted.
