(* C02 — stree.Tree stays height-balanced within the scapegoat bound.
   Only statements, each closed by [exact] of a lemma proved in Stree/Height*.v. *)
From Coq Require Import ZArith List.
Import ListNotations.
From Mds Require Import Stree.StreeModel Stree.HeightModel Stree.HeightLimit Stree.HeightBasics
  Stree.HeightRewrite Stree.HeightProofs Stree.HeightCapped Stree.HeightTie Gen.StreeHeightConst.
Local Open Scope Z_scope.

(* (c) The exact depth limit (largest k with 2000^k <= n*(1000+b)^k, which is what limitFunc
   computes in floating point) satisfies the two hypotheses H1, H2 the height proof needs. *)
Theorem C02_limit_exact : limit_H1 limit_exact /\ limit_H2 limit_exact.
Proof. exact (conj limit_exact_H1 limit_exact_H2). Qed.
Print Assumptions C02_limit_exact.
Example C02_limit_exact_ex : limit_exact 250 1000 = 14 /\ limit_exact 0 1024 = 10 /\ limit_exact 900 7 = 37.
Proof. vm_compute. auto. Qed.

(* (d) Tree.Get calls the comparator at most height+1 times (and returns what get returns). *)
Theorem C02_get_cost : forall (T : Type) (cmp : T -> T -> Z) (t : tree T) (k : T),
  fst (get_count cmp k t) = get cmp k t /\ 0 <= snd (get_count cmp k t) <= height t + 1.
Proof. intros T cmp t k. exact (conj (get_count_get cmp k t) (get_count_cost cmp k t)). Qed.
Print Assumptions C02_get_cost.
Example C02_get_cost_ex :
  get_count zcmp 4 (Node (Node Leaf 1 Leaf) 2 (Node (Node Leaf 3 Leaf) 5 Leaf)) = (None, 3).
Proof. reflexivity. Qed.

(* (e) stree.New: extract builds, from n >= 1 nodes, a tree with exactly those keys in order and
   of height exactly floor(log2 n), the minimum possible; no panic, no fuel exhaustion. *)
Theorem C02_new_minimal : forall (T : Type) (l : list T), l <> [] ->
  exists t, extract l = Ok t /\ height t = Z.log2 (Z.of_nat (length l)) /\
            size t = Z.of_nat (length l) /\ inorder t = l.
Proof. exact @extract_height. Qed.
Print Assumptions C02_new_minimal.
Example C02_new_minimal_ex : exists t, extract [1;2;3;4;5;6] = Ok t /\ height t = 2.
Proof. eexists. split; reflexivity. Qed.

(* (a) The rebuild used for the scapegoat subtree and on the delete side: rewrite (treeToVine, then
   vineToTree = Day-Stout-Warren), called with the true size of a non-empty tree, never panics or
   runs out of fuel, keeps the keys in order and returns a tree of height exactly floor(log2 n),
   the minimum possible. *)
Theorem C02_rewrite_balanced : forall (T : Type) (t : tree T), t <> Leaf ->
  exists t', rewrite t (size t) = Ok t' /\ inorder t' = inorder t /\ height t' = Z.log2 (size t).
Proof. exact @rewrite_balanced. Qed.
Print Assumptions C02_rewrite_balanced.
Example C02_rewrite_balanced_ex :
  rewrite (Node Leaf 1 (Node Leaf 2 (Node Leaf 3 (Node Leaf 4 (Node Leaf 5 Leaf))))) 5
  = Ok (Node (Node (Node Leaf 1 Leaf) 2 (Node Leaf 3 Leaf)) 4 (Node Leaf 5 Leaf)).
Proof. reflexivity. Qed.

(* (b) The height bound over whole histories.  [run_with_peak] runs StreeModel.step (New, Clone,
   Add, Replace, Remove, Clear and the observers, over any number of trees) and keeps, per tree,
   P = the largest Len the tree has had since it was created, cleared or last empty (a clone
   inherits the peak of its original).  For EVERY comparator (no law is needed), every depth-limit
   function with H1 and H2, every history and every tree in it with balance factor b < 1000:
   Len <= P and  Bound b P root, i.e.  height <= 1  or  2000^(h-1) <= P*(1000+b)^(h-1), which is
   "no key lies deeper than log_{2000/(1000+b)} P + 1" without real numbers.  Checked after every
   single operation because the statement holds for every prefix (every op list).
   (The proof establishes the bound one level tighter: 2000^h <= P*(1000+b)^h.) *)
Theorem C02_history : forall (T : Type) (cmp : T -> T -> Z) (limit : Z -> Z -> Z),
  limit_H1 limit -> limit_H2 limit ->
  forall ops : list (op T),
  Forall2 (fun t P => 0 <= beta t < 1000 -> Len t <= P /\ Bound (beta t) P (root t))
          (fst (run_with_peak cmp limit ops)) (snd (run_with_peak cmp limit ops)).
Proof. exact @history_bound. Qed.
Print Assumptions C02_history.

(* the same for the limit the model of the tree uses, with nothing left to assume *)
Theorem C02_history_exact : forall (T : Type) (cmp : T -> T -> Z) (ops : list (op T)),
  Forall2 (fun t P => 0 <= beta t < 1000 -> Len t <= P /\ Bound (beta t) P (root t))
          (fst (run_with_peak cmp limit_exact ops)) (snd (run_with_peak cmp limit_exact ops)).
Proof. intros T cmp. exact (history_bound cmp limit_exact limit_exact_H1 limit_exact_H2). Qed.
Print Assumptions C02_history_exact.

Example C02_history_ex :
  let r := run_with_peak zcmp limit_capped
             ([ONew 0 [] []] ++ map (OAdd 0%nat) [1;2;3;4;5;6;7;8;9;10;11;12] ++ map (ORemove 0%nat) [1;2;3]) in
  map (fun t => (Len t, height (root t))) (fst r) = [(9, 3)] /\ snd r = [12].
Proof. vm_compute. auto. Qed.

(* the same for the capped limit min(limit_exact b n, n) that the replay driver uses *)
Theorem C02_history_capped : forall (T : Type) (cmp : T -> T -> Z) (ops : list (op T)),
  Forall2 (fun t P => 0 <= beta t < 1000 -> Len t <= P /\ Bound (beta t) P (root t))
          (fst (run_with_peak cmp limit_capped ops)) (snd (run_with_peak cmp limit_capped ops)).
Proof. intros T cmp. exact (history_bound cmp limit_capped limit_capped_H1 limit_capped_H2). Qed.
Print Assumptions C02_history_capped.

(* Tie: the depth limit reaches insert unchanged (the model writes [limit b (size+1)] there by
   hand), and insert calls rewrite and t.limit once each. *)
Theorem C02_tie_add_limit : forall lim,
  add_insert_limit lim = lim /\ replace_insert_limit lim = lim /\
  insert_ncalls_rewrite = 1 /\ insert_ncalls_limit = 1.
Proof.
  intros lim. exact (conj (add_insert_limit_plain lim) (conj (replace_insert_limit_plain lim) insert_calls)).
Qed.
Print Assumptions C02_tie_add_limit.

(* "consequently a lookup never needs more than that many comparisons plus one": in every tree
   of every history the number c of comparator calls of Tree.Get satisfies c - 1 <= bound + 1,
   i.e.  c <= 2  or  2000^(c-2) <= P*(1000+b)^(c-2). *)
Theorem C02_lookup : forall (T : Type) (cmp : T -> T -> Z) (limit : Z -> Z -> Z),
  limit_H1 limit -> limit_H2 limit ->
  forall ops : list (op T),
  Forall2 (fun t P => 0 <= beta t < 1000 -> forall k,
             let c := snd (get_count cmp k (root t)) in
             c <= 2 \/ 2000 ^ (c - 2) <= P * (1000 + beta t) ^ (c - 2))
          (fst (run_with_peak cmp limit ops)) (snd (run_with_peak cmp limit ops)).
Proof. exact @history_lookup. Qed.
Print Assumptions C02_lookup.

(* The capped limit the replay driver computes and the exact limit drive the tree identically:
   same outputs, same states (shapes included), for every comparator and every history. *)
Theorem C02_capped_same : forall (T : Type) (cmp : T -> T -> Z) (ops : list (op T)),
  run cmp limit_capped ops = run cmp limit_exact ops /\
  exec_from cmp limit_capped [] ops = exec_from cmp limit_exact [] ops.
Proof. exact capped_same_histories. Qed.
Print Assumptions C02_capped_same.
