(* C18 — mapset.Set operations agree with mathematical sets, including nil and empty sets.
   Only statements, each closed by [exact] of a lemma proved in Mapset/MapsetProofs.v.
   T is any type with a decidable equality [eqb]; a map value is [option (list T)] (None = nil);
   [wf m] = its keys are distinct; [has m x] = x is a key of m; [ord] is the iteration order
   chosen by the runtime (any value: a wrong one yields BadOrder, a legal one never does). *)
From Coq Require Import ZArith List Bool Permutation.
Import ListNotations.
From Mds Require Import Mapset.MapsetModel Mapset.MapsetProofs.
Local Open Scope Z_scope.

Definition Zspec : forall x y, Z.eqb x y = true <-> x = y := Z.eqb_eq.

(* Intersects returns the set-theoretic answer for every pair of operands and every order. *)
Theorem C18_intersects : forall (T : Type) (eqb : T -> T -> bool), (forall x y, eqb x y = true <-> x = y) ->
  forall (s t : gomap T) (ord : list T), wf T s -> wf T t ->
  match Intersects T eqb s t ord with
  | Ok b => b = true <-> exists x, has T s x /\ has T t x
  | BadOrder => valid_order T eqb ord (fst (intersects_operands T s t)) = false
  | _ => False
  end.
Proof. exact Intersects_spec. Qed.
Print Assumptions C18_intersects.
Example C18_intersects_ex :
  Intersects Z Z.eqb (Some [1;2;3]) (Some [5;3]) [3;5] = Ok true /\ Intersects Z Z.eqb None (Some [5;3]) [] = Ok false
  /\ Intersects Z Z.eqb (Some [1;2;3]) (Some [5;3]) [1;2;3] = BadOrder.
Proof. vm_compute. auto. Qed.

Theorem C18_issubset : forall (T : Type) (eqb : T -> T -> bool), (forall x y, eqb x y = true <-> x = y) ->
  forall (s t : gomap T) (ord : list T), wf T s -> wf T t ->
  match IsSubset T eqb s t ord with
  | Ok b => b = true <-> forall x, has T s x -> has T t x
  | BadOrder => valid_order T eqb ord s = false
  | _ => False
  end.
Proof. exact IsSubset_spec. Qed.
Print Assumptions C18_issubset.
Example C18_issubset_ex :
  IsSubset Z Z.eqb (Some [3;1]) (Some [1;2;3]) [1;3] = Ok true /\ IsSubset Z Z.eqb (Some [3;4]) (Some [1;2;3]) [4;3] = Ok false
  /\ IsSubset Z Z.eqb None None [] = Ok true /\ IsSubset Z Z.eqb (Some [1;2]) (Some [2;1]) [2;1] = Ok true.
Proof. vm_compute. auto. Qed.

Theorem C18_equals : forall (T : Type) (eqb : T -> T -> bool), (forall x y, eqb x y = true <-> x = y) ->
  forall (s t : gomap T) (ord : list T), wf T s -> wf T t ->
  match Equals T eqb s t ord with
  | Ok b => b = true <-> forall x, has T s x <-> has T t x
  | BadOrder => valid_order T eqb ord s = false
  | _ => False
  end.
Proof. exact Equals_spec. Qed.
Print Assumptions C18_equals.
Example C18_equals_ex :
  Equals Z Z.eqb (Some [3;1]) (Some [1;3]) [1;3] = Ok true /\ Equals Z Z.eqb (Some []) None [] = Ok true
  /\ Equals Z Z.eqb (Some [1;2]) (Some [1;3]) [2;1] = Ok false.
Proof. vm_compute. auto. Qed.

Theorem C18_hasall : forall (T : Type) (eqb : T -> T -> bool), (forall x y, eqb x y = true <-> x = y) ->
  forall (s : gomap T) (ts : list T), HasAll T eqb s ts = true <-> forall x, In x ts -> has T s x.
Proof. exact HasAll_spec. Qed.
Print Assumptions C18_hasall.
Example C18_hasall_ex :
  HasAll Z Z.eqb None [] = true /\ HasAll Z Z.eqb None [1] = false /\ HasAll Z Z.eqb (Some [1;2]) [2;2;1] = true.
Proof. vm_compute. auto. Qed.

Theorem C18_hasany : forall (T : Type) (eqb : T -> T -> bool), (forall x y, eqb x y = true <-> x = y) ->
  forall (s : gomap T) (ts : list T), HasAny T eqb s ts = true <-> exists x, In x ts /\ has T s x.
Proof. exact HasAny_spec. Qed.
Print Assumptions C18_hasany.
Example C18_hasany_ex :
  HasAny Z Z.eqb None [1] = false /\ HasAny Z Z.eqb (Some [1;2]) [] = false /\ HasAny Z Z.eqb (Some [1;2]) [3;2] = true.
Proof. vm_compute. auto. Qed.
