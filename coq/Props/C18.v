(* C18 — mapset.Set operations agree with mathematical sets, including nil and empty sets.
   Only statements, each closed by [exact] of a lemma proved in Mapset/MapsetProofs*.v.

   Reading guide.  T is any type with a decidable equality [eqb] (hypothesis: eqb x y = true <->
   x = y; so no NaN-like keys), [zero] the zero value of T.  A map value is [gomap T] =
   option (positive * list T): None is the nil map, Some (p, l) the map allocated at address p
   with keys l; two values alias iff they have the same address.  [wf m] = the keys are distinct;
   [has m x] = x is a key.  [fresh]/[next] is the allocator's frontier.  [ord] arguments are the
   iteration orders chosen by the Go runtime: ANY list may be handed in; the model answers
   BadOrder iff the list is not a duplicate-free enumeration of the keys of the map being ranged
   over (C18_valid_order_iff), so every statement below holds for every legal order.  Results
   are [res]: Ok, a panic, BadOrder, or Unmodelled (the statement skeleton of the Go source is not
   the one the model was written for); the theorems exclude everything but Ok/BadOrder.
   [run] executes a history over named set variables (all nil at first); [srun] is the reference
   on mathematical sets (Mapset/MapsetSpec.v, meaning in C18_spec_meaning).  [R st sst] = every
   variable has distinct keys which are exactly the members of its reference set.  [out_ok] = same
   booleans/ints/elements; a returned set has exactly the reference members; a returned slice is
   the given prefix followed by each member exactly once.
   The Examples compute iteration orders with the model itself and compare sorted summaries, so
   that they show non-vacuity without pinning choices the source may make differently. *)
From Coq Require Import ZArith List Bool Permutation.
Import ListNotations.
From Mds Require Import Mapset.MapsetModel Mapset.MapsetSpec Mapset.MapsetProofs Mapset.MapsetProofsMut Mapset.MapsetProofsHist
  Mapset.MapsetProofsId Mapset.MapsetExamples.
Local Open Scope Z_scope.

(* ---- histories *)

(* FULL STATEMENT: after any sequence of operations (Add, AddAll, Remove, RemoveAll, Pop, Clear,
   and also New, NewSize, Clone, Intersect, Range, Keys, Values, nil assignment, and all the
   reads) on any number of variables, started in any state related to the reference, under any
   legal iteration orders: no panic (except Range of the nil function, where the reference says
   so too), every output is the reference's, and every variable still holds exactly its
   reference set. *)
Theorem C18_history : forall (T : Type) (eqb : T -> T -> bool) (zero : T), (forall x y, eqb x y = true <-> x = y) ->
  forall (ops : list (op T)) (st : store T) (next : positive) (sst : sstore T), R T st sst ->
  ~ In (RBadOrder T) (snd (run T eqb zero st next ops)) ->
  R T (fst (run T eqb zero st next ops)) (fst (srun T eqb zero sst ops)) /\
  Forall2 (out_ok T) (snd (run T eqb zero st next ops)) (snd (srun T eqb zero sst ops)).
Proof. exact history_refines. Qed.
Print Assumptions C18_history.

(* orders are filled in by [canon_ops]; Pops are on sets of at most one element so that no choice is pinned *)
Definition ex_ops0 : list (op Z) :=
  [OAdd Z 0 [3;1;3]; ONew Z 1 [1;2]; OAddAll Z 2 1 []; OAddAll Z 0 1 []; ORemoveAll Z 0 1 []; OPop Z 0 []; OPop Z 0 []; OAdd Z 0 [3;4;4];
   OIsSubset Z 0 1 []; OIntersects Z 1 0 []; OEquals Z 2 1 []; OIntersect Z 3 [0%nat;1%nat;2%nat] []; OSlice Z 1 []; OClear Z 1;
   OHasAll Z 1 []; OHasAny Z 1 [1]; OLen Z 0; OAppend Z 0 (Some [9]) []; ORemoveAll Z 0 0 []; OAddAll Z 2 2 []; OClone Z 4 2; ORemove Z 4 [1;1;7];
   ORange Z 5 None; ORange Z 5 (Some [2;2]); ONewSize Z 6 (-1)].
Definition ex_ops : list (op Z) := canon_ops Z Z.eqb 0 (store0 Z) next0 ex_ops0.
Example C18_history_ex :
  map out_summary (snd (run Z Z.eqb 0 (store0 Z) next0 ex_ops)) =
  [[1;1;3]; [1;1;2]; [1;1;2]; [1;1;2;3]; [1;3]; [4;3]; [4;0]; [1;3;4];
   [2;0]; [2;0]; [2;1]; [1]; [6;1;2]; [1];
   [2;1]; [2;0]; [3;2]; [6;3;4;9]; [1]; [1;1;2]; [1;1;2]; [1;2];
   [7]; [1;2]; [1]]
  /\ existsb is_badorder (snd (run Z Z.eqb 0 (store0 Z) next0 ex_ops)) = false.
Proof. vm_compute. split; reflexivity. Qed.

(* the same from the initial state: all variables nil, all reference sets empty *)
Theorem C18_history_from_nil : forall (T : Type) (eqb : T -> T -> bool) (zero : T), (forall x y, eqb x y = true <-> x = y) ->
  forall ops : list (op T),
  ~ In (RBadOrder T) (snd (run T eqb zero (store0 T) next0 ops)) ->
  R T (fst (run T eqb zero (store0 T) next0 ops)) (fst (srun T eqb zero (sstore0 T) ops)) /\
  Forall2 (out_ok T) (snd (run T eqb zero (store0 T) next0 ops)) (snd (srun T eqb zero (sstore0 T) ops)).
Proof. exact history_from_nil. Qed.
Print Assumptions C18_history_from_nil.
(* the reference's side of the same history (no orders, no nil, no addresses) *)
Example C18_history_from_nil_ex :
  map (fun so => match so with SSet _ A => 1 :: zsort A | SBool _ b => [2; b2z b] | SInt _ z => [3; z] | SElem _ x => [4; x]
                               | SList _ p A => 6 :: zsort (p ++ A) | SBadChoice _ => [-1] | SPanicNilFunc _ => [7] end)
      (snd (srun Z Z.eqb 0 (sstore0 Z) ex_ops)) =
  [[1;1;3]; [1;1;2]; [1;1;2]; [1;1;2;3]; [1;3]; [4;3]; [4;0]; [1;3;4];
   [2;0]; [2;0]; [2;1]; [1]; [6;1;2]; [1];
   [2;1]; [2;0]; [3;2]; [6;3;4;9]; [1]; [1;1;2]; [1;1;2]; [1;2];
   [7]; [1;2]; [1]].
Proof. vm_compute. reflexivity. Qed.

(* membership, Len and IsEmpty of a related variable are those of its reference set *)
Theorem C18_reads : forall (T : Type) (eqb : T -> T -> bool), (forall x y, eqb x y = true <-> x = y) ->
  forall (st : store T) (sst : sstore T), R T st sst -> forall i,
  (forall x, Has T eqb (st i) x = Ok (s_mem T eqb x (sst i))) /\
  Len T (st i) = Ok (s_card T (sst i)) /\
  IsEmpty T (st i) = Ok (Z.eqb (s_card T (sst i)) 0) /\
  NoDup (m_keys T (st i)) /\ Permutation (m_keys T (st i)) (sst i).
Proof. exact R_reads. Qed.
Print Assumptions C18_reads.
Example C18_reads_ex : Has Z Z.eqb (Some (5%positive, [3;1])) 1 = Ok true /\ Len Z (Some (5%positive, [3;1])) = Ok 2 /\ IsEmpty Z None = Ok true /\ Len Z None = Ok 0
  /\ Has Z Z.eqb None 0 = Ok false.
Proof. vm_compute. auto 6. Qed.

(* the hypothesis on orders is not a restriction on histories: in every reachable state every
   operation has a legal order (the keys themselves), and it is not rejected *)
Theorem C18_legal_order_exists : forall (T : Type) (eqb : T -> T -> bool) (zero : T), (forall x y, eqb x y = true <-> x = y) ->
  forall (st : store T) (next : positive) (sst : sstore T) (o : op T), R T st sst ->
  snd (step T eqb zero st next (canonical_order T st o)) <> RBadOrder T.
Proof. exact legal_order_exists. Qed.
Print Assumptions C18_legal_order_exists.
Example C18_legal_order_exists_ex :
  canonical_order Z (upd Z (store0 Z) 1 (Some (1%positive, [4;2]))) (OPop Z 1 []) = OPop Z 1 [4;2].
Proof. reflexivity. Qed.

(* an order is accepted iff it is a permutation of the keys *)
Theorem C18_valid_order_iff : forall (T : Type) (eqb : T -> T -> bool), (forall x y, eqb x y = true <-> x = y) ->
  forall (ord : list T) (m : gomap T), wf T m -> (valid_order T eqb ord m = true <-> Permutation ord (m_keys T m)).
Proof. exact valid_order_iff. Qed.
Print Assumptions C18_valid_order_iff.
Example C18_valid_order_iff_ex :
  valid_order Z Z.eqb [2;3;1] (Some (1%positive, [1;2;3])) = true /\ valid_order Z Z.eqb [2;2;1] (Some (1%positive, [1;2;3])) = false
  /\ valid_order Z Z.eqb [] None = true /\ valid_order Z Z.eqb [1;2] (Some (1%positive, [1;2;3])) = false.
Proof. vm_compute. auto. Qed.

(* the reference operations are the set-theoretic ones *)
Theorem C18_spec_meaning : forall (T : Type) (eqb : T -> T -> bool), (forall x y, eqb x y = true <-> x = y) ->
  forall (A B : rset T) (items : list T) (x : T),
  (s_mem T eqb x A = true <-> In x A) /\
  (In x (s_adds T eqb A items) <-> In x A \/ In x items) /\
  (In x (s_dels T eqb A items) <-> In x A /\ ~ In x items) /\
  (In x (s_inter T eqb A B) <-> In x A /\ In x B) /\
  (s_subset T eqb A B = true <-> forall y, In y A -> In y B) /\
  (s_equal T eqb A B = true <-> forall y, In y A <-> In y B) /\
  (s_meets T eqb A B = true <-> exists y, In y A /\ In y B) /\
  (NoDup A -> NoDup (s_adds T eqb A items) /\ NoDup (s_dels T eqb A items) /\ NoDup (s_inter T eqb A B)).
Proof. exact spec_meaning. Qed.
Print Assumptions C18_spec_meaning.
Example C18_spec_meaning_ex :
  s_adds Z Z.eqb [1;2] [2;3] = [3;1;2] /\ s_dels Z Z.eqb [1;2;3] [2;5] = [1;3] /\ s_inter Z Z.eqb [1;2;3] [3;1] = [1;3].
Proof. vm_compute. auto. Qed.

Theorem C18_spec_inter_all_meaning : forall (T : Type) (eqb : T -> T -> bool), (forall x y, eqb x y = true <-> x = y) ->
  forall (As : list (rset T)) (x : T), Forall (@NoDup T) As ->
  (In x (s_inter_all T eqb As) <-> As <> [] /\ forall B, In B As -> In x B) /\ NoDup (s_inter_all T eqb As).
Proof. exact spec_inter_all_meaning. Qed.
Print Assumptions C18_spec_inter_all_meaning.
Example C18_spec_inter_all_meaning_ex :
  s_inter_all Z Z.eqb [[1;2;3];[3;1];[1;5]] = [1] /\ s_inter_all Z Z.eqb [] = [].
Proof. vm_compute. auto. Qed.

(* ---- the predicates, directly in terms of membership: every pair of operands, every order *)

Theorem C18_intersects : forall (T : Type) (eqb : T -> T -> bool), (forall x y, eqb x y = true <-> x = y) ->
  forall (s t : gomap T) (ord : list T), wf T s -> wf T t ->
  match Intersects T eqb s t ord with
  | Ok b => b = true <-> exists x, has T s x /\ has T t x
  | BadOrder => valid_order T eqb ord (fst (intersects_operands T s t)) = false
  | _ => False
  end.
Proof. exact Intersects_spec. Qed.
Print Assumptions C18_intersects.
Example C18_intersects_ex :
  let s := Some (1%positive, [1;2;3]) in let t := Some (2%positive, [5;3]) in
  Intersects Z Z.eqb s t (intersects_order Z s t) = Ok true /\ Intersects Z Z.eqb None t (intersects_order Z None t) = Ok false
  /\ Intersects Z Z.eqb s t [9] = BadOrder /\ Intersects Z Z.eqb s s (intersects_order Z s s) = Ok true.
Proof. vm_compute. auto. Qed.

Theorem C18_issubset : forall (T : Type) (eqb : T -> T -> bool), (forall x y, eqb x y = true <-> x = y) ->
  forall (s t : gomap T) (ord : list T), wf T s -> wf T t ->
  match IsSubset T eqb s t ord with
  | Ok b => b = true <-> forall x, has T s x -> has T t x
  | BadOrder => valid_order T eqb ord s = false
  | _ => False
  end.
Proof. exact IsSubset_spec. Qed.
Print Assumptions C18_issubset.
Example C18_issubset_ex :
  IsSubset Z Z.eqb (Some (1%positive, [3;1])) (Some (2%positive, [1;2;3])) [1;3] = Ok true
  /\ IsSubset Z Z.eqb (Some (1%positive, [3;4])) (Some (2%positive, [1;2;3])) [4;3] = Ok false
  /\ IsSubset Z Z.eqb None None [] = Ok true /\ IsSubset Z Z.eqb (Some (1%positive, [1;2])) (Some (2%positive, [2;1])) [2;1] = Ok true
  /\ IsSubset Z Z.eqb (Some (1%positive, [1;2])) (Some (1%positive, [1;2])) [2;1] = Ok true.
Proof. vm_compute. auto 6. Qed.

Theorem C18_equals : forall (T : Type) (eqb : T -> T -> bool), (forall x y, eqb x y = true <-> x = y) ->
  forall (s t : gomap T) (ord : list T), wf T s -> wf T t ->
  match Equals T eqb s t ord with
  | Ok b => b = true <-> forall x, has T s x <-> has T t x
  | BadOrder => valid_order T eqb ord s = false
  | _ => False
  end.
Proof. exact Equals_spec. Qed.
Print Assumptions C18_equals.
Example C18_equals_ex :
  Equals Z Z.eqb (Some (1%positive, [3;1])) (Some (2%positive, [1;3])) [1;3] = Ok true /\ Equals Z Z.eqb (Some (1%positive, [])) None [] = Ok true
  /\ Equals Z Z.eqb (Some (1%positive, [1;2])) (Some (2%positive, [1;3])) [2;1] = Ok false
  /\ Equals Z Z.eqb (Some (1%positive, [1;2])) (Some (1%positive, [1;2])) [2;1] = Ok true.
Proof. vm_compute. auto. Qed.

(* HasAll/HasAny take argument LISTS: repeats and the empty list included *)
Theorem C18_hasall : forall (T : Type) (eqb : T -> T -> bool), (forall x y, eqb x y = true <-> x = y) ->
  forall (s : gomap T) (ts : list T), exists b, HasAll T eqb s ts = Ok b /\ (b = true <-> forall x, In x ts -> has T s x).
Proof. exact HasAll_spec. Qed.
Print Assumptions C18_hasall.
Example C18_hasall_ex :
  HasAll Z Z.eqb None [] = Ok true /\ HasAll Z Z.eqb None [1] = Ok false /\ HasAll Z Z.eqb (Some (1%positive, [1;2])) [2;2;1] = Ok true
  /\ HasAll Z Z.eqb (Some (1%positive, [1])) [1;1] = Ok true /\ HasAll Z Z.eqb (Some (1%positive, [1])) [] = Ok true.
Proof. vm_compute. auto 6. Qed.

Theorem C18_hasany : forall (T : Type) (eqb : T -> T -> bool), (forall x y, eqb x y = true <-> x = y) ->
  forall (s : gomap T) (ts : list T), exists b, HasAny T eqb s ts = Ok b /\ (b = true <-> exists x, In x ts /\ has T s x).
Proof. exact HasAny_spec. Qed.
Print Assumptions C18_hasany.
Example C18_hasany_ex :
  HasAny Z Z.eqb None [1] = Ok false /\ HasAny Z Z.eqb (Some (1%positive, [1;2])) [] = Ok false /\ HasAny Z Z.eqb (Some (1%positive, [1;2])) [3;2] = Ok true.
Proof. vm_compute. auto. Qed.

(* Intersect of any number of operands: a non-nil set, at the fresh address, of exactly the common elements *)
Theorem C18_intersect : forall (T : Type) (eqb : T -> T -> bool), (forall x y, eqb x y = true <-> x = y) ->
  forall (ss : list (gomap T)) (fresh : positive) (ord : list T), Forall (wf T) ss ->
  match Intersect T eqb ss fresh ord with
  | Ok r => exists l, r = Some (fresh, l) /\ NoDup l /\ forall y, In y l <-> (ss <> [] /\ forall s, In s ss -> has T s y)
  | BadOrder => exists min, intersect_operand T ss = Ok min /\ valid_order T eqb ord min = false
  | _ => False
  end.
Proof. exact Intersect_spec. Qed.
Print Assumptions C18_intersect.
Example C18_intersect_ex :
  let ss := [Some (1%positive, [1;2;3]); Some (2%positive, [3;1]); Some (3%positive, [4;1;3])] in
  match Intersect Z Z.eqb ss 9%positive (intersect_order Z ss) with Ok r => m_ptr Z r = 9 /\ keys_sorted r = [1;3] | _ => False end
  /\ Intersect Z Z.eqb [] 9%positive [] = Ok (Some (9%positive, []))
  /\ Intersect Z Z.eqb [Some (1%positive, [1;2]); None] 9%positive (intersect_order Z [Some (1%positive, [1;2]); None]) = Ok (Some (9%positive, []))
  /\ match Intersect Z Z.eqb [Some (1%positive, [1;2]); Some (1%positive, [1;2])] 9%positive [2;1] with Ok r => m_ptr Z r = 9 /\ keys_sorted r = [1;2] | _ => False end.
Proof. vm_compute. auto. Qed.

(* ---- nil-ness, Pop, Slice/Append, frame *)

(* New, NewSize, Clone, Intersect, Range (of a non-nil iterator), Keys, Values (and Add, AddAll) yield a non-nil set *)
Theorem C18_constructors_nonnil : forall (T : Type) (eqb : T -> T -> bool) (zero : T), (forall x y, eqb x y = true <-> x = y) ->
  forall (st : store T) (next : positive) (sst : sstore T) (o : op T), R T st sst -> constructs T o = true ->
  match snd (step T eqb zero st next o) with
  | RSet _ m => m <> None
  | RBadOrder _ => True
  | _ => False
  end.
Proof. exact constructors_nonnil. Qed.
Print Assumptions C18_constructors_nonnil.
Example C18_constructors_nonnil_ex :
  snd (step Z Z.eqb 0 (store0 Z) 1%positive (OClone Z 1 0)) = RSet Z (Some (1%positive, [])) /\ snd (step Z Z.eqb 0 (store0 Z) 1%positive (OAddAll Z 1 0 [])) = RSet Z (Some (1%positive, []))
  /\ snd (step Z Z.eqb 0 (store0 Z) 1%positive (OIntersect Z 1 [0%nat;0%nat] [])) = RSet Z (Some (1%positive, [])) /\ snd (step Z Z.eqb 0 (store0 Z) 1%positive (OKeys Z 1 [])) = RSet Z (Some (1%positive, []))
  /\ snd (step Z Z.eqb 0 (store0 Z) 1%positive (OAdd Z 1 [])) = RSet Z (Some (1%positive, [])) /\ snd (step Z Z.eqb 0 (store0 Z) 1%positive (ONewSize Z 1 (-5))) = RSet Z (Some (1%positive, [])).
Proof. vm_compute. auto 7. Qed.

(* the one panic of the package: Range applied to the nil iterator function *)
Theorem C18_range_nil_panics : forall (T : Type) (eqb : T -> T -> bool) (fresh : positive), Range T eqb None fresh = PanicNilFunc.
Proof. exact Range_nil. Qed.
Print Assumptions C18_range_nil_panics.
Example C18_range_nil_panics_ex : snd (step Z Z.eqb 0 (store0 Z) 1%positive (ORange Z 0 None)) = RPanicNilFunc Z /\ Range Z Z.eqb (Some []) 1%positive = Ok (Some (1%positive, [])).
Proof. vm_compute. auto. Qed.

(* Pop: nothing changes and the zero value comes back on an empty or nil set; otherwise exactly
   one member is removed, and it is the one returned; the set keeps its address *)
Theorem C18_pop : forall (T : Type) (eqb : T -> T -> bool) (zero : T), (forall x y, eqb x y = true <-> x = y) ->
  forall (s : gomap T) (ord : list T), wf T s ->
  match Pop T eqb zero s ord with
  | Ok (s', x) =>
      ((m_keys T s = [] /\ s' = s /\ x = zero /\ ord = []) \/
       (has T s x /\ (forall y, has T s' y <-> has T s y /\ y <> x) /\ m_len T s' = m_len T s - 1 /\ exists r, ord = x :: r))
      /\ wf T s' /\ (s' = None <-> s = None) /\ m_ptr T s' = m_ptr T s
  | BadOrder => valid_order T eqb ord s = false
  | _ => False
  end.
Proof. exact Pop_spec. Qed.
Print Assumptions C18_pop.
Example C18_pop_ex :
  Pop Z Z.eqb 0 (Some (1%positive, [1;2;3])) [2;3;1] = Ok (Some (1%positive, [1;3]), 2) /\ Pop Z Z.eqb 0 None [] = Ok (None, 0)
  /\ Pop Z Z.eqb 0 (Some (1%positive, [])) [] = Ok (Some (1%positive, []), 0) /\ Pop Z Z.eqb 0 (Some (1%positive, [0])) [0] = Ok (Some (1%positive, []), 0).
Proof. vm_compute. auto. Qed.

Theorem C18_slice : forall (T : Type) (eqb : T -> T -> bool) (zero : T), (forall x y, eqb x y = true <-> x = y) ->
  forall (s : gomap T) (ord : list T), wf T s ->
  match Slice T eqb zero s ord with
  | Ok r => Permutation (sl_elems T r) (m_keys T s) /\ NoDup (sl_elems T r) /\ (r = None <-> m_keys T s = [])
  | BadOrder => valid_order T eqb ord s = false
  | _ => False
  end.
Proof. exact Slice_spec. Qed.
Print Assumptions C18_slice.
Example C18_slice_ex : Slice Z Z.eqb 0 (Some (1%positive, [1;2;3])) [3;1;2] = Ok (Some [3;1;2]) /\ Slice Z Z.eqb 0 (Some (1%positive, [])) [] = Ok None
  /\ Slice Z Z.eqb 0 None [] = Ok None.
Proof. vm_compute. auto. Qed.

Theorem C18_append : forall (T : Type) (eqb : T -> T -> bool), (forall x y, eqb x y = true <-> x = y) ->
  forall (s : gomap T) (vs : goslice T) (ord : list T), wf T s ->
  match Append T eqb s vs ord with
  | Ok r => exists l, sl_elems T r = sl_elems T vs ++ l /\ Permutation l (m_keys T s) /\ (m_keys T s = [] -> r = vs)
  | BadOrder => valid_order T eqb ord s = false
  | _ => False
  end.
Proof. exact Append_spec. Qed.
Print Assumptions C18_append.
Example C18_append_ex : Append Z Z.eqb (Some (1%positive, [1;2])) (Some [7;7]) [2;1] = Ok (Some [7;7;2;1]) /\ Append Z Z.eqb None None [] = Ok None
  /\ Append Z Z.eqb (Some (1%positive, [])) (Some []) [] = Ok (Some []).
Proof. vm_compute. auto. Qed.

(* ---- storage identity: aliasing = same address *)

(* FULL STATEMENT over histories: from any state in which no two variables share a map, after
   every operation of every history (1) New/NewSize/Clone/Intersect/Range/Keys/Values, and
   Add/AddAll on a nil receiver, have returned a map at an address handed out by that very call;
   Add/AddAll on a non-nil receiver, Remove, RemoveAll and Clear have returned their receiver; Pop
   has kept its receiver's address; reads changed nothing; and (2) still no two variables share a
   map and every address in use is below the allocator's frontier. *)
Theorem C18_identity_history : forall (T : Type) (eqb : T -> T -> bool) (zero : T), (forall x y, eqb x y = true <-> x = y) ->
  forall (ops : list (op T)) (st : store T) (next : positive) (sst : sstore T), R T st sst -> ids_ok T st next ->
  hist_ids T eqb zero st next ops.
Proof. exact identity_history. Qed.
Print Assumptions C18_identity_history.
Example C18_identity_history_ex :
  let st := fst (run Z Z.eqb 0 (store0 Z) next0 ex_ops) in
  map (fun i => m_ptr Z (st i)) [0%nat;1%nat;2%nat;3%nat;4%nat;5%nat;6%nat;7%nat] = [1; 3; 5; 23; 41; 47; 49; 0].
Proof. vm_compute. reflexivity. Qed.

Theorem C18_identity_history_from_nil : forall (T : Type) (eqb : T -> T -> bool) (zero : T), (forall x y, eqb x y = true <-> x = y) ->
  forall ops : list (op T), hist_ids T eqb zero (store0 T) next0 ops.
Proof. exact identity_history_from_nil. Qed.
Print Assumptions C18_identity_history_from_nil.
Example C18_identity_history_from_nil_ex : ids_ok Z (store0 Z) next0 /\ R Z (store0 Z) (sstore0 Z).
Proof. split; [apply ids_ok0 | apply R0]. Qed.

(* the property's wording: what New, NewSize, Clone, Intersect, Range, Keys, Values return is not
   nil and aliases no variable of the state they were called in (their arguments in particular) *)
Theorem C18_constructor_result_fresh : forall (T : Type) (eqb : T -> T -> bool) (zero : T), (forall x y, eqb x y = true <-> x = y) ->
  forall (st : store T) (next : positive) (sst : sstore T) (o : op T), R T st sst -> ids_ok T st next -> constructor T o = true ->
  match snd (step T eqb zero st next o) with
  | RSet _ m => m <> None /\ (forall k, m_ptr T m <> m_ptr T (st k)) /\ Zpos next <= m_ptr T m
  | RBadOrder _ => True
  | _ => False
  end.
Proof. exact constructor_result_fresh. Qed.
Print Assumptions C18_constructor_result_fresh.
Example C18_constructor_result_fresh_ex :
  let st := upd Z (upd Z (store0 Z) 0 (Some (1%positive, [1;2]))) 1 (Some (2%positive, [2;3])) in
  match snd (step Z Z.eqb 0 st 3%positive (OIntersect Z 0 [0%nat;1%nat] (intersect_order Z [st 0%nat; st 1%nat]))) with
  | RSet _ m => m_ptr Z m = 3 /\ keys_sorted m = [2] | _ => False end
  /\ match snd (step Z Z.eqb 0 st 3%positive (OClone Z 1 1)) with RSet _ m => m_ptr Z m = 3 /\ keys_sorted m = [2;3] | _ => False end.
Proof. vm_compute. auto. Qed.

Theorem C18_nil_receiver_result_fresh : forall (T : Type) (eqb : T -> T -> bool) (zero : T), (forall x y, eqb x y = true <-> x = y) ->
  forall (st : store T) (next : positive) (sst : sstore T) (o : op T) (i : nat), R T st sst -> ids_ok T st next ->
  (exists items, o = OAdd T i items) \/ (exists j ord, o = OAddAll T i j ord) -> st i = None ->
  match snd (step T eqb zero st next o) with
  | RSet _ m => m <> None /\ (forall k, m_ptr T m <> m_ptr T (st k)) /\ Zpos next <= m_ptr T m
  | RBadOrder _ => True
  | _ => False
  end.
Proof. exact nil_receiver_result_fresh. Qed.
Print Assumptions C18_nil_receiver_result_fresh.
Example C18_nil_receiver_result_fresh_ex :
  let st := upd Z (store0 Z) 1 (Some (2%positive, [2;3])) in
  match snd (step Z Z.eqb 0 st 3%positive (OAddAll Z 0 1 [3;2])) with RSet _ m => m_ptr Z m = 3 /\ keys_sorted m = [2;3] | _ => False end.
Proof. vm_compute. auto. Qed.

Theorem C18_mutator_returns_receiver : forall (T : Type) (eqb : T -> T -> bool) (zero : T), (forall x y, eqb x y = true <-> x = y) ->
  forall (st : store T) (next : positive) (sst : sstore T) (o : op T) (i : nat), R T st sst ->
  ((exists items, o = OAdd T i items) \/ (exists j ord, o = OAddAll T i j ord)) /\ st i <> None \/
  (exists items, o = ORemove T i items) \/ (exists j ord, o = ORemoveAll T i j ord) \/ o = OClear T i ->
  match snd (step T eqb zero st next o) with
  | RSet _ m => m_ptr T m = m_ptr T (st i) /\ fst (step T eqb zero st next o) i = m
  | RBadOrder _ => True
  | _ => False
  end.
Proof. exact mutator_returns_receiver. Qed.
Print Assumptions C18_mutator_returns_receiver.
Example C18_mutator_returns_receiver_ex :
  let st := upd Z (upd Z (store0 Z) 0 (Some (1%positive, [1;2]))) 1 (Some (2%positive, [2;3])) in
  match snd (step Z Z.eqb 0 st 3%positive (OAddAll Z 0 1 [3;2])) with RSet _ m => m_ptr Z m = 1 /\ keys_sorted m = [1;2;3] | _ => False end
  /\ snd (step Z Z.eqb 0 st 3%positive (OClear Z 7)) = RSet Z None.
Proof. vm_compute. auto. Qed.

(* self-application: RemoveAll of a set from itself (deleting from the map being ranged over)
   empties it and returns it; AddAll of a set to itself changes nothing *)
Theorem C18_removeall_self : forall (T : Type) (eqb : T -> T -> bool), (forall x y, eqb x y = true <-> x = y) ->
  forall (s : gomap T) (ord : list T), wf T s ->
  match RemoveAll T eqb s s ord with
  | Ok r => m_keys T r = [] /\ m_ptr T r = m_ptr T s
  | BadOrder => valid_order T eqb ord s = false
  | _ => False
  end.
Proof. exact removeall_self. Qed.
Print Assumptions C18_removeall_self.
Example C18_removeall_self_ex :
  RemoveAll Z Z.eqb (Some (1%positive, [1;2;3])) (Some (1%positive, [1;2;3])) [2;3;1] = Ok (Some (1%positive, []))
  /\ same_map Z (Some (1%positive, [1;2;3])) (Some (1%positive, [1;2;3])) = true /\ RemoveAll Z Z.eqb None None [] = Ok None.
Proof. vm_compute. auto. Qed.

Theorem C18_addall_self : forall (T : Type) (eqb : T -> T -> bool), (forall x y, eqb x y = true <-> x = y) ->
  forall (s : gomap T) (fresh : positive) (ord : list T), wf T s -> s <> None ->
  match AddAll T eqb s s fresh ord with
  | Ok r => m_ptr T r = m_ptr T s /\ (forall y, has T r y <-> has T s y) /\ m_len T r = m_len T s
  | BadOrder => valid_order T eqb ord s = false
  | _ => False
  end.
Proof. exact addall_self. Qed.
Print Assumptions C18_addall_self.
Example C18_addall_self_ex :
  AddAll Z Z.eqb (Some (1%positive, [1;2;3])) (Some (1%positive, [1;2;3])) 5%positive [2;3;1] = Ok (Some (1%positive, [1;2;3])).
Proof. vm_compute. auto. Qed.

(* what must not change: an operation leaves every variable other than its receiver/destination
   alone (its arguments included), and the reads leave all of them alone.  In a model with value
   semantics this alone would be true by construction; it carries weight together with
   C18_identity_history: no two variables ever share a map, so no write can reach another one. *)
Theorem C18_frame : forall (T : Type) (eqb : T -> T -> bool) (zero : T) (st : store T) (next : positive) (o : op T) (k : nat),
  (k <> target T o \/ observer T o = true) -> fst (step T eqb zero st next o) k = st k.
Proof. exact step_frame. Qed.
Print Assumptions C18_frame.
Example C18_frame_ex :
  let st := upd Z (upd Z (store0 Z) 0 (Some (1%positive, [1;2]))) 1 (Some (2%positive, [2;3])) in
  fst (step Z Z.eqb 0 st 3%positive (ORemoveAll Z 0 1 [3;2])) 1%nat = Some (2%positive, [2;3])
  /\ fst (step Z Z.eqb 0 st 3%positive (ORemoveAll Z 0 1 [3;2])) 0%nat = Some (1%positive, [1]).
Proof. vm_compute. auto. Qed.

(* an illegal order is reported without touching any variable *)
Theorem C18_badorder_no_effect : forall (T : Type) (eqb : T -> T -> bool) (zero : T) (st : store T) (next : positive) (o : op T),
  snd (step T eqb zero st next o) = RBadOrder T -> fst (step T eqb zero st next o) = st.
Proof. exact step_badorder_state. Qed.
Print Assumptions C18_badorder_no_effect.
Example C18_badorder_no_effect_ex :
  snd (step Z Z.eqb 0 (upd Z (store0 Z) 0 (Some (1%positive, [1;2]))) 3%positive (OPop Z 0 [5;1])) = RBadOrder Z.
Proof. vm_compute. reflexivity. Qed.

(* the statement skeletons of mapset.go are the ones the model was written for: every tripwire
   (what each loop ranges over, what is deleted from what, which key is looked up or stored, which
   helper gets which argument, that Pop / add / AddAll consult no length) reads from the source of
   this run the value the model assumes *)
Theorem C18_skeleton : intact all_tripwires = true /\ (0 < length all_tripwires)%nat.
Proof. exact skeleton_intact. Qed.
Print Assumptions C18_skeleton.
Example C18_skeleton_ex : guarded all_tripwires (Ok 5) = Ok 5 /\ guarded ((1, 2) :: all_tripwires) (Ok 5) = Unmodelled.
Proof. vm_compute. auto. Qed.
