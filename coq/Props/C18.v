(* C18 — mapset.Set operations agree with mathematical sets, including nil and empty sets.
   Only statements, each closed by [exact] of a lemma proved in Mapset/MapsetProofs*.v.

   Reading guide.  T is any type with a decidable equality [eqb] (hypothesis: eqb x y = true <->
   x = y), [zero] the zero value of T.  A map value is [gomap T] = option (list T): None is the nil
   map, Some l an allocated map with keys l; [wf m] = the keys are distinct; [has m x] = x is a
   key.  [ord] arguments are the iteration orders chosen by the Go runtime: ANY list may be handed
   in; the model answers BadOrder iff the list is not a duplicate-free enumeration of the keys of
   the map being ranged over (C18_valid_order_iff), so every statement below holds for every legal
   order.  [run] executes a history over named set variables (all nil at first); [srun] is the
   reference on mathematical sets (Mapset/MapsetSpec.v, meaning in C18_spec_meaning).  [R st sst]
   = every variable has distinct keys which are exactly the members of its reference set.
   [out_ok] = same booleans/ints/elements; a returned set has exactly the reference members; a
   returned slice is the given prefix followed by each member exactly once. *)
From Coq Require Import ZArith List Bool Permutation.
Import ListNotations.
From Mds Require Import Mapset.MapsetModel Mapset.MapsetSpec Mapset.MapsetProofs Mapset.MapsetProofsMut Mapset.MapsetProofsHist.
Local Open Scope Z_scope.

(* ---- histories *)

(* FULL STATEMENT: after any sequence of operations (Add, AddAll, Remove, RemoveAll, Pop, Clear,
   and also New, NewSize, Clone, Intersect, Range, Keys, Values, nil assignment, and all the
   reads) on any number of variables, started in any state related to the reference, under any
   legal iteration orders: no panic, every output is the reference's, and every variable still
   holds exactly its reference set. *)
Theorem C18_history : forall (T : Type) (eqb : T -> T -> bool) (zero : T), (forall x y, eqb x y = true <-> x = y) ->
  forall (ops : list (op T)) (st : store T) (sst : sstore T), R T st sst ->
  ~ In (RBadOrder T) (snd (run T eqb zero st ops)) ->
  R T (fst (run T eqb zero st ops)) (fst (srun T eqb zero sst ops)) /\
  Forall2 (out_ok T) (snd (run T eqb zero st ops)) (snd (srun T eqb zero sst ops)).
Proof. exact history_refines. Qed.
Print Assumptions C18_history.

Definition ex_ops : list (op Z) :=
  [OAdd Z 0 [3;1;3]; ONew Z 1 [1;2]; OAddAll Z 2 1 [2;1]; OAddAll Z 0 1 [1;2]; OPop Z 0 [1;3;2]; ORemoveAll Z 0 1 [2;1];
   OIsSubset Z 0 1 [3]; OIntersects Z 1 0 [3]; OEquals Z 2 1 [1;2]; OIntersect Z 3 [0%nat;1%nat;2%nat] [3]; OSlice Z 1 [2;1]; OClear Z 1;
   OHasAll Z 1 []; OHasAny Z 1 [1]; OPop Z 1 []; OLen Z 0; OAppend Z 0 (Some [9]) [3]].
Example C18_history_ex :
  snd (run Z Z.eqb 0 (store0 Z) ex_ops) =
  [RSet Z (Some [3;1]); RSet Z (Some [1;2]); RSet Z (Some [1;2]); RSet Z (Some [3;1;2]); RElem Z 1; RSet Z (Some [3]);
   RBool Z false; RBool Z false; RBool Z true; RSet Z (Some []); RSlice Z (Some [2;1]); RSet Z (Some []);
   RBool Z true; RBool Z false; RElem Z 0; RInt Z 1; RSlice Z (Some [9;3])]
  /\ ~ In (RBadOrder Z) (snd (run Z Z.eqb 0 (store0 Z) ex_ops)).
Proof. vm_compute. split; [reflexivity|]. intuition discriminate. Qed.

(* the same from the initial state: all variables nil, all reference sets empty *)
Theorem C18_history_from_nil : forall (T : Type) (eqb : T -> T -> bool) (zero : T), (forall x y, eqb x y = true <-> x = y) ->
  forall ops : list (op T),
  ~ In (RBadOrder T) (snd (run T eqb zero (store0 T) ops)) ->
  R T (fst (run T eqb zero (store0 T) ops)) (fst (srun T eqb zero (sstore0 T) ops)) /\
  Forall2 (out_ok T) (snd (run T eqb zero (store0 T) ops)) (snd (srun T eqb zero (sstore0 T) ops)).
Proof. exact history_from_nil. Qed.
Print Assumptions C18_history_from_nil.
Example C18_history_from_nil_ex :
  snd (srun Z Z.eqb 0 (sstore0 Z) ex_ops) =
  [SSet Z [1;3]; SSet Z [2;1]; SSet Z [1;2]; SSet Z [2;1;3]; SElem Z 1; SSet Z [3];
   SBool Z false; SBool Z false; SBool Z true; SSet Z []; SList Z [] [2;1]; SSet Z [];
   SBool Z true; SBool Z false; SElem Z 0; SInt Z 1; SList Z [9] [3]].
Proof. vm_compute. reflexivity. Qed.

(* membership, Len and IsEmpty of a related variable are those of its reference set *)
Theorem C18_reads : forall (T : Type) (eqb : T -> T -> bool), (forall x y, eqb x y = true <-> x = y) ->
  forall (st : store T) (sst : sstore T), R T st sst -> forall i,
  (forall x, Has T eqb (st i) x = s_mem T eqb x (sst i)) /\
  Len T (st i) = s_card T (sst i) /\
  IsEmpty T (st i) = Z.eqb (s_card T (sst i)) 0 /\
  NoDup (m_keys T (st i)) /\ Permutation (m_keys T (st i)) (sst i).
Proof. exact R_reads. Qed.
Print Assumptions C18_reads.
Example C18_reads_ex : Has Z Z.eqb (Some [3;1]) 1 = true /\ Len Z (Some [3;1]) = 2 /\ IsEmpty Z None = true /\ Len Z None = 0.
Proof. vm_compute. auto. Qed.

(* the hypothesis on orders is not a restriction on histories: in every reachable state every
   operation has a legal order (the keys themselves), and it is not rejected *)
Theorem C18_legal_order_exists : forall (T : Type) (eqb : T -> T -> bool) (zero : T), (forall x y, eqb x y = true <-> x = y) ->
  forall (st : store T) (sst : sstore T) (o : op T), R T st sst ->
  snd (step T eqb zero st (canonical_order T st o)) <> RBadOrder T.
Proof. exact legal_order_exists. Qed.
Print Assumptions C18_legal_order_exists.
Example C18_legal_order_exists_ex :
  canonical_order Z (upd Z (store0 Z) 1 (Some [4;2])) (OPop Z 1 []) = OPop Z 1 [4;2].
Proof. reflexivity. Qed.

(* an order is accepted iff it is a permutation of the keys *)
Theorem C18_valid_order_iff : forall (T : Type) (eqb : T -> T -> bool), (forall x y, eqb x y = true <-> x = y) ->
  forall (ord : list T) (m : gomap T), wf T m -> (valid_order T eqb ord m = true <-> Permutation ord (m_keys T m)).
Proof. exact valid_order_iff. Qed.
Print Assumptions C18_valid_order_iff.
Example C18_valid_order_iff_ex :
  valid_order Z Z.eqb [2;3;1] (Some [1;2;3]) = true /\ valid_order Z Z.eqb [2;2;1] (Some [1;2;3]) = false
  /\ valid_order Z Z.eqb [] None = true.
Proof. vm_compute. auto. Qed.

(* the reference operations are the set-theoretic ones *)
Theorem C18_spec_meaning : forall (T : Type) (eqb : T -> T -> bool), (forall x y, eqb x y = true <-> x = y) ->
  forall (A B : rset T) (items : list T) (x : T),
  (s_mem T eqb x A = true <-> In x A) /\
  (In x (s_adds T eqb A items) <-> In x A \/ In x items) /\
  (In x (s_dels T eqb A items) <-> In x A /\ ~ In x items) /\
  (In x (s_inter T eqb A B) <-> In x A /\ In x B) /\
  (s_subset T eqb A B = true <-> forall y, In y A -> In y B) /\
  (s_equal T eqb A B = true <-> forall y, In y A <-> In y B) /\
  (s_meets T eqb A B = true <-> exists y, In y A /\ In y B) /\
  (NoDup A -> NoDup (s_adds T eqb A items) /\ NoDup (s_dels T eqb A items) /\ NoDup (s_inter T eqb A B)).
Proof. exact spec_meaning. Qed.
Print Assumptions C18_spec_meaning.
Example C18_spec_meaning_ex :
  s_adds Z Z.eqb [1;2] [2;3] = [3;1;2] /\ s_dels Z Z.eqb [1;2;3] [2;5] = [1;3] /\ s_inter Z Z.eqb [1;2;3] [3;1] = [1;3].
Proof. vm_compute. auto. Qed.

Theorem C18_spec_inter_all_meaning : forall (T : Type) (eqb : T -> T -> bool), (forall x y, eqb x y = true <-> x = y) ->
  forall (As : list (rset T)) (x : T), Forall (@NoDup T) As ->
  (In x (s_inter_all T eqb As) <-> As <> [] /\ forall B, In B As -> In x B) /\ NoDup (s_inter_all T eqb As).
Proof. exact spec_inter_all_meaning. Qed.
Print Assumptions C18_spec_inter_all_meaning.
Example C18_spec_inter_all_meaning_ex :
  s_inter_all Z Z.eqb [[1;2;3];[3;1];[1;5]] = [1] /\ s_inter_all Z Z.eqb [] = [].
Proof. vm_compute. auto. Qed.

(* ---- the predicates, directly in terms of membership: every pair of operands, every order *)

Theorem C18_intersects : forall (T : Type) (eqb : T -> T -> bool), (forall x y, eqb x y = true <-> x = y) ->
  forall (s t : gomap T) (ord : list T), wf T s -> wf T t ->
  match Intersects T eqb s t ord with
  | Ok b => b = true <-> exists x, has T s x /\ has T t x
  | BadOrder => valid_order T eqb ord (fst (intersects_operands T s t)) = false
  | _ => False
  end.
Proof. exact Intersects_spec. Qed.
Print Assumptions C18_intersects.
Example C18_intersects_ex :
  Intersects Z Z.eqb (Some [1;2;3]) (Some [5;3]) [3;5] = Ok true /\ Intersects Z Z.eqb None (Some [5;3]) [] = Ok false
  /\ Intersects Z Z.eqb (Some [1;2;3]) (Some [5;3]) [1;2;3] = BadOrder.
Proof. vm_compute. auto. Qed.

Theorem C18_issubset : forall (T : Type) (eqb : T -> T -> bool), (forall x y, eqb x y = true <-> x = y) ->
  forall (s t : gomap T) (ord : list T), wf T s -> wf T t ->
  match IsSubset T eqb s t ord with
  | Ok b => b = true <-> forall x, has T s x -> has T t x
  | BadOrder => valid_order T eqb ord s = false
  | _ => False
  end.
Proof. exact IsSubset_spec. Qed.
Print Assumptions C18_issubset.
Example C18_issubset_ex :
  IsSubset Z Z.eqb (Some [3;1]) (Some [1;2;3]) [1;3] = Ok true /\ IsSubset Z Z.eqb (Some [3;4]) (Some [1;2;3]) [4;3] = Ok false
  /\ IsSubset Z Z.eqb None None [] = Ok true /\ IsSubset Z Z.eqb (Some [1;2]) (Some [2;1]) [2;1] = Ok true.
Proof. vm_compute. auto. Qed.

Theorem C18_equals : forall (T : Type) (eqb : T -> T -> bool), (forall x y, eqb x y = true <-> x = y) ->
  forall (s t : gomap T) (ord : list T), wf T s -> wf T t ->
  match Equals T eqb s t ord with
  | Ok b => b = true <-> forall x, has T s x <-> has T t x
  | BadOrder => valid_order T eqb ord s = false
  | _ => False
  end.
Proof. exact Equals_spec. Qed.
Print Assumptions C18_equals.
Example C18_equals_ex :
  Equals Z Z.eqb (Some [3;1]) (Some [1;3]) [1;3] = Ok true /\ Equals Z Z.eqb (Some []) None [] = Ok true
  /\ Equals Z Z.eqb (Some [1;2]) (Some [1;3]) [2;1] = Ok false.
Proof. vm_compute. auto. Qed.

Theorem C18_hasall : forall (T : Type) (eqb : T -> T -> bool), (forall x y, eqb x y = true <-> x = y) ->
  forall (s : gomap T) (ts : list T), HasAll T eqb s ts = true <-> forall x, In x ts -> has T s x.
Proof. exact HasAll_spec. Qed.
Print Assumptions C18_hasall.
Example C18_hasall_ex :
  HasAll Z Z.eqb None [] = true /\ HasAll Z Z.eqb None [1] = false /\ HasAll Z Z.eqb (Some [1;2]) [2;2;1] = true.
Proof. vm_compute. auto. Qed.

Theorem C18_hasany : forall (T : Type) (eqb : T -> T -> bool), (forall x y, eqb x y = true <-> x = y) ->
  forall (s : gomap T) (ts : list T), HasAny T eqb s ts = true <-> exists x, In x ts /\ has T s x.
Proof. exact HasAny_spec. Qed.
Print Assumptions C18_hasany.
Example C18_hasany_ex :
  HasAny Z Z.eqb None [1] = false /\ HasAny Z Z.eqb (Some [1;2]) [] = false /\ HasAny Z Z.eqb (Some [1;2]) [3;2] = true.
Proof. vm_compute. auto. Qed.

(* Intersect of any number of operands: a non-nil set of exactly the common elements *)
Theorem C18_intersect : forall (T : Type) (eqb : T -> T -> bool), (forall x y, eqb x y = true <-> x = y) ->
  forall (ss : list (gomap T)) (ord : list T), Forall (wf T) ss ->
  match Intersect T eqb ss ord with
  | Ok r => exists l, r = Some l /\ NoDup l /\ forall y, In y l <-> (ss <> [] /\ forall s, In s ss -> has T s y)
  | BadOrder => exists min, intersect_operand T ss = Ok min /\ valid_order T eqb ord min = false
  | _ => False
  end.
Proof. exact Intersect_spec. Qed.
Print Assumptions C18_intersect.
Example C18_intersect_ex :
  Intersect Z Z.eqb [Some [1;2;3]; Some [3;1]; Some [4;1;3]] [1;3] = Ok (Some [1;3]) /\ Intersect Z Z.eqb [] [] = Ok (Some [])
  /\ Intersect Z Z.eqb [Some [1;2]; None] [] = Ok (Some []).
Proof. vm_compute. auto. Qed.

(* ---- nil-ness, Pop, Slice/Append, frame *)

(* New, NewSize, Clone, Intersect, Range, Keys, Values (and Add, AddAll) yield a non-nil set *)
Theorem C18_constructors_nonnil : forall (T : Type) (eqb : T -> T -> bool) (zero : T), (forall x y, eqb x y = true <-> x = y) ->
  forall (st : store T) (sst : sstore T) (o : op T), R T st sst -> constructs T o = true ->
  match snd (step T eqb zero st o) with
  | RSet _ m => m <> None
  | RBadOrder _ => True
  | _ => False
  end.
Proof. exact constructors_nonnil. Qed.
Print Assumptions C18_constructors_nonnil.
Example C18_constructors_nonnil_ex :
  snd (step Z Z.eqb 0 (store0 Z) (OClone Z 1 0)) = RSet Z (Some []) /\ snd (step Z Z.eqb 0 (store0 Z) (OAddAll Z 1 0 [])) = RSet Z (Some [])
  /\ snd (step Z Z.eqb 0 (store0 Z) (OIntersect Z 1 [0%nat;0%nat] [])) = RSet Z (Some []) /\ snd (step Z Z.eqb 0 (store0 Z) (OKeys Z 1 [])) = RSet Z (Some []).
Proof. vm_compute. auto. Qed.

(* Pop: nothing changes and the zero value comes back on an empty or nil set; otherwise exactly
   one member is removed, and it is the one returned *)
Theorem C18_pop : forall (T : Type) (eqb : T -> T -> bool) (zero : T), (forall x y, eqb x y = true <-> x = y) ->
  forall (s : gomap T) (ord : list T), wf T s ->
  match Pop T eqb zero s ord with
  | Ok (s', x) =>
      ((m_keys T s = [] /\ s' = s /\ x = zero /\ ord = []) \/
       (has T s x /\ (forall y, has T s' y <-> has T s y /\ y <> x) /\ Len T s' = Len T s - 1 /\ exists r, ord = x :: r))
      /\ wf T s' /\ (s' = None <-> s = None)
  | BadOrder => valid_order T eqb ord s = false
  | _ => False
  end.
Proof. exact Pop_spec. Qed.
Print Assumptions C18_pop.
Example C18_pop_ex :
  Pop Z Z.eqb 0 (Some [1;2;3]) [2;3;1] = Ok (Some [1;3], 2) /\ Pop Z Z.eqb 0 None [] = Ok (None, 0) /\ Pop Z Z.eqb 0 (Some []) [] = Ok (Some [], 0).
Proof. vm_compute. auto. Qed.

Theorem C18_slice : forall (T : Type) (eqb : T -> T -> bool) (zero : T), (forall x y, eqb x y = true <-> x = y) ->
  forall (s : gomap T) (ord : list T), wf T s ->
  match Slice T eqb zero s ord with
  | Ok r => Permutation (sl_elems T r) (m_keys T s) /\ NoDup (sl_elems T r) /\ (r = None <-> m_keys T s = [])
  | BadOrder => valid_order T eqb ord s = false
  | _ => False
  end.
Proof. exact Slice_spec. Qed.
Print Assumptions C18_slice.
Example C18_slice_ex : Slice Z Z.eqb 0 (Some [1;2;3]) [3;1;2] = Ok (Some [3;1;2]) /\ Slice Z Z.eqb 0 (Some []) [] = Ok None.
Proof. vm_compute. auto. Qed.

Theorem C18_append : forall (T : Type) (eqb : T -> T -> bool), (forall x y, eqb x y = true <-> x = y) ->
  forall (s : gomap T) (vs : goslice T) (ord : list T), wf T s ->
  match Append T eqb s vs ord with
  | Ok r => exists l, sl_elems T r = sl_elems T vs ++ l /\ Permutation l (m_keys T s) /\ (m_keys T s = [] -> r = vs)
  | BadOrder => valid_order T eqb ord s = false
  | _ => False
  end.
Proof. exact Append_spec. Qed.
Print Assumptions C18_append.
Example C18_append_ex : Append Z Z.eqb (Some [1;2]) (Some [7;7]) [2;1] = Ok (Some [7;7;2;1]) /\ Append Z Z.eqb None None [] = Ok None.
Proof. vm_compute. auto. Qed.

(* what must not change: an operation leaves every variable other than its receiver/destination
   alone (its arguments included), and the reads leave all of them alone *)
Theorem C18_frame : forall (T : Type) (eqb : T -> T -> bool) (zero : T) (st : store T) (o : op T) (k : nat),
  (k <> target T o \/ observer T o = true) -> fst (step T eqb zero st o) k = st k.
Proof. exact step_frame. Qed.
Print Assumptions C18_frame.
Example C18_frame_ex :
  let st := upd Z (upd Z (store0 Z) 0 (Some [1;2])) 1 (Some [2;3]) in
  fst (step Z Z.eqb 0 st (ORemoveAll Z 0 1 [3;2])) 1%nat = Some [2;3] /\ fst (step Z Z.eqb 0 st (ORemoveAll Z 0 1 [3;2])) 0%nat = Some [1].
Proof. vm_compute. auto. Qed.

(* an illegal order is reported without touching any variable *)
Theorem C18_badorder_no_effect : forall (T : Type) (eqb : T -> T -> bool) (zero : T) (st : store T) (o : op T),
  snd (step T eqb zero st o) = RBadOrder T -> fst (step T eqb zero st o) = st.
Proof. exact step_badorder_state. Qed.
Print Assumptions C18_badorder_no_effect.
Example C18_badorder_no_effect_ex :
  snd (step Z Z.eqb 0 (upd Z (store0 Z) 0 (Some [1;2])) (OPop Z 0 [5;1])) = RBadOrder Z.
Proof. vm_compute. reflexivity. Qed.
