(* C07 at source level -- the statements of Props/C07.v re-stated for a state machine whose
   operations call the FUNCTIONS GENERATED from the Go source (Gen/FnQueue.v from queue/queue.go,
   Gen/FnSlice.Rotate from slice/slice.go; both regenerated on every run).  Only statements; the
   proofs (GenTie/QueueSource.v) compose the per-function ties C07_*_is_source and
   C17_rotate_is_source with the model-level theorems C07_history / C07_each_peek_any.

   Reading guide.  [gstep zero R q o] (GenTie/QueueSource.v) works on the model's state record
   {vs; head; n} and the model's op/out types:
     OAdd v c / OPush v c  = FnQueue.Add / Push on the three fields, with slice_Rotate := R and
                             append_ := the capacity oracle c (cap(w) as reported by the runtime;
                             c <= len gives the distinguished Panic (PMsg "bad oracle"));
     OPop OPopLast OPeek OFront OLen OIsEmpty OClear = the generated function of that name;
     OEach m, OSlice       = Panic (PMsg "not translated"): excluded by [src_op].
   [rot_src l k] = FnSlice.Rotate l k (length l + 3): the generated slice.Rotate with the fuel of
   its tie.  [grun] collects outputs like the model's [run].

   COVERED: the methods Add, Push, Pop, PopLast, Peek, Clear, Len, IsEmpty, Front as operations
   of histories; Each for every pure callback in every reachable state (C07_each_peek_source:
   the generated Each returns unit, so what is shown is that it ends without panic -- the visited
   sequence stays with the model-level C07_each_peek_any).
   NOT COVERED (they stay with C07_history + the correspondence run): Slice, New, NewSize (not
   translated; histories here start from the state the MODEL's constructor gives, for the zero
   value that is the all-zero struct), the recording callback of OEach, the 64-bit width
   (generated code is over unbounded Z: C07_history64 / C07_width are model-level), which array
   the buffer lives in (lists), append's choice of capacity (oracle). *)
From Coq Require Import ZArith List Bool Lia.
Import ListNotations.
Set Warnings "-notation-overridden".
From Mds Require Import Common.FnRt Gen.FnQueue.
From Mds Require Import Queue.QueueModel Queue.QueueSpec.
From Mds Require Import GenTie.QueueSource.
Local Open Scope Z_scope.

(* For every element type, from the zero value `var q Queue[T]`: every history of Add, Push, Pop,
   PopLast, Clear, Len, IsEmpty, Front, Peek k (any k) and every choice of growth capacities that
   respects append's contract: every output of the GENERATED functions equals the output of the
   plain-list reference; no call panics and no loop of the generated slice.Rotate runs out of the
   fuel len + 3.  Same hypotheses as C07_history at i = IZero, plus the restriction to the
   translated operations. *)
Theorem C07_history_source : forall (T : Type) (zero : T) (ops : list (op T)),
  forallb src_op ops = true -> oracles_ok T 0 0 ops ->
  grun zero rot_src (zero_queue T) ops = map Ok (spec_run T zero [] ops).
Proof. exact @history_source. Qed.
Print Assumptions C07_history_source.
(* Four Adds grow the buffer 0 -> 1 -> 2 -> 4 (oracles 1, 2, 4); Pop moves head to 1; Add 4 and
   Add 5 fill the ring (head = 1, wrapped); Push 6 finds it full: the generated Rotate runs its
   cycle-chasing loop on [5;2;3;4] by -1, regrows to 9 (append puts 6 behind the old elements), stores 6 at slot 8 = the new head. *)
Example C07_history_source_ex :
  let ops := [OAdd 1 1; OAdd 2 2; OAdd 3 4; OPop; OAdd 4 0; OAdd 5 0; OPush 6 9;
              OLen; OPeek (-1); OPeek 0; OPeek 7; OPopLast; OFront; OIsEmpty; OClear; OPop] in
  (forallb src_op ops = true /\ oracles_ok Z 0 0 ops) /\
  grun 0 rot_src (zero_queue Z) ops =
    [Ok RUnit; Ok RUnit; Ok RUnit; Ok (RVal 1 true); Ok RUnit; Ok RUnit; Ok RUnit;
     Ok (RInt 5); Ok (RVal 5 true); Ok (RVal 6 true); Ok (RVal 0 false); Ok (RVal 5 true);
     Ok (RElem 6); Ok (RBool false); Ok RUnit; Ok (RVal 0 false)] /\
  gexec 0 rot_src (zero_queue Z) (firstn 7 ops) = Ok {| vs := [2; 3; 4; 5; 6; 0; 0; 0; 6]; head := 8; n := 5 |} /\
  rot_src [5; 2; 3; 4] (-1) = Ok [2; 3; 4; 5] /\
  grun 0 rot_src (zero_queue Z) [OAdd 1 1; OSlice] = [Ok RUnit; Panic (PMsg "not translated")].
Proof. cbv zeta. split; [split; [reflexivity|cbn; lia]|]. repeat split; vm_compute; reflexivity. Qed.

(* The same from any initial configuration, given the state q0 the model's constructor produces
   (New / NewSize are not translated): all hypotheses of C07_history unchanged. *)
Theorem C07_history_source_init : forall (T : Type) (zero : T) (i : init) (q0 : queue T) (ops : list (op T)),
  init_ok i -> mk_init T zero i = QOk q0 ->
  forallb src_op ops = true -> oracles_ok T (init_cap i) 0 ops ->
  grun zero rot_src q0 ops = map Ok (spec_run T zero [] ops).
Proof. exact @history_source_init. Qed.
Print Assumptions C07_history_source_init.
(* the history of C07_history_ex (NewSize(3): wrap below 0, exactly full with head = 2, rotate and
   regrow) without its Each and Slice *)
Example C07_history_source_init_ex :
  let ops := [OPush 1 0; OAdd 2 0; OAdd 3 0; OPush 4 7; OLen; OPeek (-1); OPeek (-5); OPopLast;
              OAdd 5 0; OPop; OFront; OIsEmpty] in
  mk_init Z 0 (ISize 3) = QOk {| vs := [0; 0; 0]; head := 0; n := 0 |} /\
  grun 0 rot_src {| vs := [0; 0; 0]; head := 0; n := 0 |} ops =
    [Ok RUnit; Ok RUnit; Ok RUnit; Ok RUnit; Ok (RInt 4); Ok (RVal 3 true); Ok (RVal 0 false);
     Ok (RVal 3 true); Ok RUnit; Ok (RVal 4 true); Ok (RElem 1); Ok (RBool false)] /\
  gexec 0 rot_src {| vs := [0; 0; 0]; head := 0; n := 0 |} (firstn 4 ops)
    = Ok {| vs := [1; 2; 3; 4; 0; 0; 4]; head := 6; n := 4 |}.
Proof. cbv zeta. repeat split; vm_compute; reflexivity. Qed.

(* In every state such a history leads to: the generated Each, run with ANY pure callback and any
   fuel above q.n, ends without panic (its loop's index and remainder checks never fire), and the
   generated Peek at every offset answers like the reference. *)
Theorem C07_each_peek_source : forall (T : Type) (zero : T) (i : init) (q0 : queue T) (ops : list (op T)),
  init_ok i -> mk_init T zero i = QOk q0 ->
  forallb src_op ops = true -> oracles_ok T (init_cap i) 0 ops ->
  exists q, gexec zero rot_src q0 ops = Ok q /\
    (forall (f : T -> bool) (fuel : nat), (Z.to_nat (n q) < fuel)%nat ->
       Each (vs q) (head q) (n q) f fuel = Ok tt) /\
    (forall k, Peek (vs q) (head q) (n q) k zero = Ok (spec_peek T zero (spec_exec T zero [] ops) k)).
Proof. exact @each_peek_source. Qed.
Print Assumptions C07_each_peek_source.
(* a wrapped ring; and what the fuel bound is for *)
Example C07_each_peek_source_ex :
  Each [7; 8; 9] 2 3 (fun x => negb (x =? 8)) 4 = Ok tt /\
  Each [7; 8; 9] 2 3 (fun _ => true) 3 = OutOfFuel /\
  Each [7; 8; 9] 2 4 (fun _ => true) 5 = Ok tt /\
  Each [7; 8; 9] 3 2 (fun _ => true) 5 = Panic FnRt.PIndex.
Proof. repeat split; vm_compute; reflexivity. Qed.

(* One step, for EVERY state (ring invariant or not) and every verdict: with slice.Rotate
   instantiated by the model's rotate_go (as in the ties of Add and Push) the generated step IS the
   model's step -- panics, bad oracle and all. *)
Theorem C07_step_is_source : forall (T : Type) (zero : T) (q : queue T) (o : op T), src_op o = true ->
  gstep zero QueueTieBase.rot q o = QueueTieBase.embf (fun x => x) (step idw T zero q o).
Proof. exact @gstep_is_step. Qed.
Print Assumptions C07_step_is_source.
Example C07_step_is_source_ex :
  gstep 0 QueueTieBase.rot {| vs := [1; 2]; head := 3; n := 5 |} (OAdd 9 0) = Panic (PMsg "offset out of range") /\
  gstep 0 QueueTieBase.rot {| vs := [1; 2]; head := 1; n := 2 |} (OAdd 9 2) = Panic (PMsg "bad oracle") /\
  gstep 0 QueueTieBase.rot {| vs := [1; 2]; head := 1; n := 2 |} (OAdd 9 3)
    = Ok ({| vs := [2; 1; 9]; head := 0; n := 3 |}, RUnit).
Proof. repeat split; vm_compute; reflexivity. Qed.
