(* C02, constructor side, at the level of the GENERATED code (Gen/FnStreeNew.v, configuration
   backend of the function translator; ties in GenTie/StreeTieNew*.v).  Only statements, each
   closed by [exact] of a lemma proved there.

   limitFunc / toFraction.  float64 is an abstract type; the float operations of the source are
   arguments of the generated functions.  The theorems are CONDITIONAL on the contract
   [flt_exact] (GenTie/StreeTieNewLimit.v): int -> float64, +, / and == are exact on values that
   stand for rationals, and int(math.Log(float64(n)) / math.Log(x)) for x = 2000/(1000+β) is the
   exact floor of the logarithm quotient (the k >= 0 with 2000^k <= n*(1000+β)^k < ... failing
   at k+1).  Nothing is proved about IEEE rounding: whether the machine's float64 meets the last
   clause is what the harness sweep (`limit` lines of streeheighttrace) tests empirically against
   [limit_exact]. *)
From Coq Require Import ZArith List Lia.
Import ListNotations.
From Mds Require Import Common.FnRt GenTie.StreeTieNewLimit.
From Mds Require Gen.FnStreeNew Stree.HeightModel Stree.HeightLimit.
Local Open Scope Z_scope.

(* Under the contract, for every β the constructor accepts: limitFunc(β) returns a function (never
   nil) that equals the model's exact depth limit at every size n >= 1 (the only arguments
   Add/Replace/insert hand to t.limit are sizes >= 1). *)
Theorem C02_limitFunc_is_source : forall (Flt : Type) (Flt_of_Z : Z -> Flt)
  (Flt_add Flt_div : Flt -> Flt -> Flt) (Flt_eqb : Flt -> Flt -> bool) (math_Log : Flt -> Flt)
  (Flt_to_Z : Flt -> Z) (den : Flt -> Z * Z -> Prop),
  flt_exact Flt Flt_of_Z Flt_add Flt_div Flt_eqb math_Log Flt_to_Z den ->
  forall b : Z, 0 <= b <= 1000 ->
  exists f, FnStreeNew.limitFunc Flt_of_Z Flt_add Flt_div Flt_eqb math_Log Flt_to_Z b = Some f /\
            forall n, 1 <= n -> f n = HeightModel.limit_exact b n.
Proof. exact limitFunc_is_source. Qed.
Print Assumptions C02_limitFunc_is_source.

(* The special case of the source (`inv == 1`, "int(+Inf) is undefined"): under the contract it is
   taken at β = 1000 and the function returned is n + 1 for EVERY n, with no float operation on n. *)
Theorem C02_limitFunc_loosest_source : forall (Flt : Type) (Flt_of_Z : Z -> Flt)
  (Flt_add Flt_div : Flt -> Flt -> Flt) (Flt_eqb : Flt -> Flt -> bool) (math_Log : Flt -> Flt)
  (Flt_to_Z : Flt -> Z) (den : Flt -> Z * Z -> Prop),
  flt_exact Flt Flt_of_Z Flt_add Flt_div Flt_eqb math_Log Flt_to_Z den ->
  exists f, FnStreeNew.limitFunc Flt_of_Z Flt_add Flt_div Flt_eqb math_Log Flt_to_Z 1000 = Some f /\
            forall n, f n = n + 1.
Proof. exact limitFunc_loosest. Qed.
Print Assumptions C02_limitFunc_loosest_source.

(* ... and at no β below 1000: there the closure is the logarithm quotient, literally
   int(math.Log(float64(n)) / math.Log(1 / toFraction(β))). *)
Theorem C02_limitFunc_general_source : forall (Flt : Type) (Flt_of_Z : Z -> Flt)
  (Flt_add Flt_div : Flt -> Flt -> Flt) (Flt_eqb : Flt -> Flt -> bool) (math_Log : Flt -> Flt)
  (Flt_to_Z : Flt -> Z) (den : Flt -> Z * Z -> Prop),
  flt_exact Flt Flt_of_Z Flt_add Flt_div Flt_eqb math_Log Flt_to_Z den ->
  forall b : Z, 0 <= b < 1000 ->
  FnStreeNew.limitFunc Flt_of_Z Flt_add Flt_div Flt_eqb math_Log Flt_to_Z b =
  Some (fun n => Flt_to_Z (Flt_div (math_Log (Flt_of_Z n))
     (math_Log (Flt_div (Flt_of_Z 1) (FnStreeNew.toFraction Flt_of_Z Flt_add Flt_div b))))).
Proof. exact limitFunc_general. Qed.
Print Assumptions C02_limitFunc_general_source.

(* toFraction(β) stands for (β + 1000)/2000 (written unreduced, as the operations produce it) *)
Theorem C02_toFraction_is_source : forall (Flt : Type) (Flt_of_Z : Z -> Flt)
  (Flt_add Flt_div : Flt -> Flt -> Flt) (Flt_eqb : Flt -> Flt -> bool) (math_Log : Flt -> Flt)
  (Flt_to_Z : Flt -> Z) (den : Flt -> Z * Z -> Prop),
  flt_exact Flt Flt_of_Z Flt_add Flt_div Flt_eqb math_Log Flt_to_Z den ->
  forall b : Z, den (FnStreeNew.toFraction Flt_of_Z Flt_add Flt_div b) ((b * 1 + 1000 * 1) * 1, 1 * 1 * 2000).
Proof. exact toFraction_den. Qed.
Print Assumptions C02_toFraction_is_source.

(* ---- the contract is satisfiable (symbolic fractions / logarithm quotients, GenTie/StreeTieNewLimit.v),
        and the generated limitFunc runs on that instance ---- *)
Example C02_limitFunc_is_source_ex :
  flt_exact sflt s_of_Z s_add s_div s_eqb s_log s_to_Z s_den /\
  (match FnStreeNew.limitFunc s_of_Z s_add s_div s_eqb s_log s_to_Z 250 with
   | Some f => map f [1; 2; 8; 1000] | None => [] end) = [0; 1; 4; 14] /\
  (match FnStreeNew.limitFunc s_of_Z s_add s_div s_eqb s_log s_to_Z 1000 with
   | Some f => map f [1; 2; 8; 1000] | None => [] end) = [2; 3; 9; 1001] /\
  FnStreeNew.toFraction s_of_Z s_add s_div 250 = SQ 1250 2000.
Proof. split; [exact sflt_exact|]. vm_compute. repeat split. Qed.
