(* C02, constructor side, at the level of the GENERATED code (Gen/FnStreeNew.v, configuration
   backend of the function translator; ties in GenTie/StreeTieNew*.v).  Only statements, each
   closed by [exact] of a lemma proved there.

   limitFunc / toFraction.  float64 is an abstract type; the float operations of the source are
   arguments of the generated functions.  The theorems are CONDITIONAL on the contract
   [flt_exact] (GenTie/StreeTieNewLimit.v): int -> float64, +, / and == are exact on values that
   stand for rationals, and int(math.Log(float64(n)) / math.Log(x)) for x = 2000/(1000+β) is the
   exact floor of the logarithm quotient (the k >= 0 with 2000^k <= n*(1000+β)^k < ... failing
   at k+1).  Nothing is proved about IEEE rounding: whether the machine's float64 meets the last
   clause is what the harness sweep (`limit` lines of streeheighttrace) tests empirically against
   [limit_exact].

   New (second half of the file): the clause "a tree built by New from n keys has the minimum
   height" on the heap the GENERATED New leaves (Gen/FnStree.v; contracts of slices.SortFunc /
   slices.CompactFunc and vocabulary: Props/C01_source3.v). *)
From Coq Require Import ZArith List Lia.
Import ListNotations.
From Mds Require Import Common.FnRt GenTie.StreeTieNewLimit.
From Mds Require Import GenTie.StreeTieBase GenTie.StreeSep GenTie.StreeSource GenTie.StreeTieNew GenTie.StreeSourceNew
  GenTie.StreeSourceNewHeight.
From Mds Require Import Stree.StreeSpec.
From Mds Require Gen.FnStreeNew Stree.HeightModel Stree.HeightLimit.
Local Open Scope Z_scope.

(* Under the contract, for every β the constructor accepts: limitFunc(β) returns a function (never
   nil) that equals the model's exact depth limit at every size n >= 1 (the only arguments
   Add/Replace/insert hand to t.limit are sizes >= 1). *)
Theorem C02_limitFunc_is_source : forall (Flt : Type) (Flt_of_Z : Z -> Flt)
  (Flt_add Flt_div : Flt -> Flt -> Flt) (Flt_eqb : Flt -> Flt -> bool) (math_Log : Flt -> Flt)
  (Flt_to_Z : Flt -> Z) (den : Flt -> Z * Z -> Prop),
  flt_exact Flt Flt_of_Z Flt_add Flt_div Flt_eqb math_Log Flt_to_Z den ->
  forall b : Z, 0 <= b <= 1000 ->
  exists f, FnStreeNew.limitFunc Flt_of_Z Flt_add Flt_div Flt_eqb math_Log Flt_to_Z b = Some f /\
            forall n, 1 <= n -> f n = HeightModel.limit_exact b n.
Proof. exact limitFunc_is_source. Qed.
Print Assumptions C02_limitFunc_is_source.

(* The special case of the source (`inv == 1`, "int(+Inf) is undefined"): under the contract it is
   taken at β = 1000 and the function returned is n + 1 for EVERY n, with no float operation on n. *)
Theorem C02_limitFunc_loosest_source : forall (Flt : Type) (Flt_of_Z : Z -> Flt)
  (Flt_add Flt_div : Flt -> Flt -> Flt) (Flt_eqb : Flt -> Flt -> bool) (math_Log : Flt -> Flt)
  (Flt_to_Z : Flt -> Z) (den : Flt -> Z * Z -> Prop),
  flt_exact Flt Flt_of_Z Flt_add Flt_div Flt_eqb math_Log Flt_to_Z den ->
  exists f, FnStreeNew.limitFunc Flt_of_Z Flt_add Flt_div Flt_eqb math_Log Flt_to_Z 1000 = Some f /\
            forall n, f n = n + 1.
Proof. exact limitFunc_loosest. Qed.
Print Assumptions C02_limitFunc_loosest_source.

(* ... and at no β below 1000: there the closure is the logarithm quotient, literally
   int(math.Log(float64(n)) / math.Log(1 / toFraction(β))). *)
Theorem C02_limitFunc_general_source : forall (Flt : Type) (Flt_of_Z : Z -> Flt)
  (Flt_add Flt_div : Flt -> Flt -> Flt) (Flt_eqb : Flt -> Flt -> bool) (math_Log : Flt -> Flt)
  (Flt_to_Z : Flt -> Z) (den : Flt -> Z * Z -> Prop),
  flt_exact Flt Flt_of_Z Flt_add Flt_div Flt_eqb math_Log Flt_to_Z den ->
  forall b : Z, 0 <= b < 1000 ->
  FnStreeNew.limitFunc Flt_of_Z Flt_add Flt_div Flt_eqb math_Log Flt_to_Z b =
  Some (fun n => Flt_to_Z (Flt_div (math_Log (Flt_of_Z n))
     (math_Log (Flt_div (Flt_of_Z 1) (FnStreeNew.toFraction Flt_of_Z Flt_add Flt_div b))))).
Proof. exact limitFunc_general. Qed.
Print Assumptions C02_limitFunc_general_source.

(* toFraction(β) stands for (β + 1000)/2000 (written unreduced, as the operations produce it) *)
Theorem C02_toFraction_is_source : forall (Flt : Type) (Flt_of_Z : Z -> Flt)
  (Flt_add Flt_div : Flt -> Flt -> Flt) (Flt_eqb : Flt -> Flt -> bool) (math_Log : Flt -> Flt)
  (Flt_to_Z : Flt -> Z) (den : Flt -> Z * Z -> Prop),
  flt_exact Flt Flt_of_Z Flt_add Flt_div Flt_eqb math_Log Flt_to_Z den ->
  forall b : Z, den (FnStreeNew.toFraction Flt_of_Z Flt_add Flt_div b) ((b * 1 + 1000 * 1) * 1, 1 * 1 * 2000).
Proof. exact toFraction_den. Qed.
Print Assumptions C02_toFraction_is_source.

(* ---- the contract is satisfiable (symbolic fractions / logarithm quotients, GenTie/StreeTieNewLimit.v),
        and the generated limitFunc runs on that instance ---- *)
Example C02_limitFunc_is_source_ex :
  flt_exact sflt s_of_Z s_add s_div s_eqb s_log s_to_Z s_den /\
  (match FnStreeNew.limitFunc s_of_Z s_add s_div s_eqb s_log s_to_Z 250 with
   | Some f => map f [1; 2; 8; 1000] | None => [] end) = [0; 1; 4; 14] /\
  (match FnStreeNew.limitFunc s_of_Z s_add s_div s_eqb s_log s_to_Z 1000 with
   | Some f => map f [1; 2; 8; 1000] | None => [] end) = [2; 3; 9; 1001] /\
  FnStreeNew.toFraction s_of_Z s_add s_div 250 = SQ 1250 2000.
Proof. split; [exact sflt_exact|]. vm_compute. repeat split. Qed.

(* C02, constructor clause, on the generated heap: New(β, cmp, keys...) with at least one key returns
   an object with 1 <= size <= len(keys) (size = the number of equivalence classes of the keys: the
   reference list of C01_history_source_new); the cells reachable from its root by left/right
   fields are exactly a tree-shaped region of size cells, every one lies at depth
   d <= floor(log2 size), and one lies at exactly that depth: the height is floor(log2 size), the
   minimum for that many nodes.  For pairwise inequivalent keys size = n (C01_history_source_new:
   size = length of the sorted de-duplication). *)
Theorem C02_new_height_source : forall (T : Type) (cmp : T -> T -> Z), total_preorder cmp ->
  forall (limitFunc : Z -> Z -> Z)
    (srt : list (option nat) -> (unit -> option nat -> option nat -> res (Z * unit)) -> res (list (option nat)))
    (cpt : list (option nat) -> (unit -> option nat -> option nat -> res (bool * unit)) -> res (list (option nat))),
  @sort_contract T srt -> compact_contract cpt ->
  forall (b : Z) (keys : list T) (h0 : list (G.node T)), 0 <= b <= 1000 -> keys <> [] ->
  exists (tr : G.Tree T) (h : list (G.node T)),
    gnew cmp limitFunc srt cpt b keys h0 = Ok (tr, h) /\ 1 <= G.Tree_size tr <= Z.of_nat (length keys) /\
    (exists t F, trepr h (G.Tree_root tr) t F /\ Z.of_nat (length F) = G.Tree_size tr /\
       (forall x, In x F <-> exists d, hreach h (G.Tree_root tr) x d)) /\
    (forall x d, hreach h (G.Tree_root tr) x d -> Z.of_nat d <= Z.log2 (G.Tree_size tr)) /\
    (exists x, hreach h (G.Tree_root tr) x (Z.to_nat (Z.log2 (G.Tree_size tr)))).
Proof. exact @new_height_source. Qed.
Print Assumptions C02_new_height_source.

(* seven keys, two of them duplicates by key: five cells, height floor(log2 5) = 2; the cell of key
   3 (address 2) lies two steps below the root *)
Definition s3h_cmp (a b : Z * Z) : Z := fst a - fst b.
Definition s3h_keys : list (Z * Z) := [(5,0); (3,1); (8,2); (3,3); (1,4); (5,5); (9,6)].
Example C02_new_height_source_ex :
  match gnew s3h_cmp HeightModel.limit_exact sort_cb compact_cb 250 s3h_keys [] with
  | Ok (tr, h) => G.Tree_size tr = 5 /\ Z.log2 5 = 2 /\ hreach h (G.Tree_root tr) 1%nat 2
  | _ => False
  end.
Proof.
  vm_compute. split; [reflexivity|]. split; [reflexivity|].
  eapply hreach_left; [reflexivity|]. eapply hreach_right; [reflexivity|]. eapply hreach_here. reflexivity.
Qed.

(* C02 over histories from the generated constructor: C02_history_source with the start state
   replaced by the object the generated New(β, cmp, keys...) returns.  [limit] is the function handed
   to New as limitFunc (the record's limit field is limit β) and must satisfy H1 and H2; the peak P
   starts at the size New recorded.  After every history (hence every prefix): size <= P, the
   reachable cells are exactly a tree-shaped region, each at a depth d with d <= 1 or
   2000^(d-1) <= P*(1000+β)^(d-1). *)
Theorem C02_history_source_new : forall (T : Type) (cmp : T -> T -> Z), total_preorder cmp ->
  forall limit : Z -> Z -> Z, HeightModel.limit_H1 limit -> HeightModel.limit_H2 limit ->
  forall (srt : list (option nat) -> (unit -> option nat -> option nat -> res (Z * unit)) -> res (list (option nat)))
    (cpt : list (option nat) -> (unit -> option nat -> option nat -> res (bool * unit)) -> res (list (option nat))),
  @sort_contract T srt -> compact_contract cpt ->
  forall (zero : T) (b : Z) (keys : list T) (h0 : list (G.node T)) (ops : list (sop T)), 0 <= b < 1000 ->
  exists (tr : G.Tree T) (h : list (G.node T)),
    gnew cmp limit srt cpt b keys h0 = Ok (tr, h) /\
    G.Tree_compare tr = cmp /\ G.Tree_β tr = b /\ G.Tree_limit tr = limit b /\
    let st := gexec cmp limit zero b (gst_of tr h) ops in
    let P := gpeak cmp limit zero b (gst_of tr h) (G.Tree_size tr) ops in
    g_size st <= P /\
    (exists t F, trepr (g_heap st) (g_root st) t F /\
       (forall x, In x F <-> exists d, hreach (g_heap st) (g_root st) x d)) /\
    forall x d, hreach (g_heap st) (g_root st) x d ->
      (d <= 1)%nat \/ 2000 ^ (Z.of_nat d - 1) <= P * (1000 + b) ^ (Z.of_nat d - 1).
Proof. exact @height_source_new. Qed.
Print Assumptions C02_history_source_new.

(* The whole constructor side generated: t.limit is [gen_limit], the function the GENERATED limitFunc
   returns (float64 abstract).  Under the float contract flt_exact it satisfies H1 and H2, so nothing
   is left to assume of the depth limit except that contract (and the two contracts of package
   slices).  Nothing is proved about IEEE rounding. *)
Theorem C02_history_source_new_gen : forall (Flt : Type) (Flt_of_Z : Z -> Flt)
  (Flt_add Flt_div : Flt -> Flt -> Flt) (Flt_eqb : Flt -> Flt -> bool) (math_Log : Flt -> Flt)
  (Flt_to_Z : Flt -> Z) (den : Flt -> Z * Z -> Prop),
  flt_exact Flt Flt_of_Z Flt_add Flt_div Flt_eqb math_Log Flt_to_Z den ->
  forall (T : Type) (cmp : T -> T -> Z), total_preorder cmp ->
  forall (srt : list (option nat) -> (unit -> option nat -> option nat -> res (Z * unit)) -> res (list (option nat)))
    (cpt : list (option nat) -> (unit -> option nat -> option nat -> res (bool * unit)) -> res (list (option nat))),
  @sort_contract T srt -> compact_contract cpt ->
  forall (zero : T) (b : Z) (keys : list T) (h0 : list (G.node T)) (ops : list (sop T)), 0 <= b < 1000 ->
  let limit := gen_limit Flt Flt_of_Z Flt_add Flt_div Flt_eqb math_Log Flt_to_Z in
  exists (tr : G.Tree T) (h : list (G.node T)),
    gnew cmp limit srt cpt b keys h0 = Ok (tr, h) /\
    G.Tree_compare tr = cmp /\ G.Tree_β tr = b /\ G.Tree_limit tr = limit b /\
    let st := gexec cmp limit zero b (gst_of tr h) ops in
    let P := gpeak cmp limit zero b (gst_of tr h) (G.Tree_size tr) ops in
    g_size st <= P /\
    (exists t F, trepr (g_heap st) (g_root st) t F /\
       (forall x, In x F <-> exists d, hreach (g_heap st) (g_root st) x d)) /\
    forall x d, hreach (g_heap st) (g_root st) x d ->
      (d <= 1)%nat \/ 2000 ^ (Z.of_nat d - 1) <= P * (1000 + b) ^ (Z.of_nat d - 1).
Proof. exact height_source_new_gen. Qed.
Print Assumptions C02_history_source_new_gen.

(* the whole chain runs: symbolic floats (the contract's witness), insertion sort, the generated
   limitFunc as t.limit; seven keys (two duplicates), then 6, 7 and 2 added: peak 8, the cell of key
   2 (address 9) ends three steps below the root *)
Example C02_history_source_new_gen_ex :
  let limit := gen_limit sflt s_of_Z s_add s_div s_eqb s_log s_to_Z in
  match gnew s3h_cmp limit sort_cb compact_cb 250 s3h_keys [] with
  | Ok (tr, h) =>
    let ops := [SAdd (6,7); SAdd (7,8); SAdd (2,9)] in
    let st := gexec s3h_cmp limit (0,0) 250 (gst_of tr h) ops in
    G.Tree_limit tr 8 = 4 /\ gpeak s3h_cmp limit (0,0) 250 (gst_of tr h) (G.Tree_size tr) ops = 8 /\
    g_size st = 8 /\ hreach (g_heap st) (g_root st) 9%nat 3 /\
    2000 ^ (3 - 1) <= 8 * (1000 + 250) ^ (3 - 1)
  | _ => False
  end.
Proof.
  vm_compute. split; [reflexivity|]. split; [reflexivity|]. split; [reflexivity|]. split; [|discriminate].
  eapply hreach_left; [reflexivity|]. eapply hreach_right; [reflexivity|]. eapply hreach_left; [reflexivity|].
  eapply hreach_here. reflexivity.
Qed.
