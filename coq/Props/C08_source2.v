(* C08 at source level, second part: the CONSTRUCTORS.  cache.New, cache.LRU() and the Config methods
   (WithStore, WithSize, OnEvict, sizeFunc, onEvictFunc) as generated into Gen/FnCacheNew.v by the
   configuration backend of the function translator on every run; the history theorems of
   Props/C08_source.v re-stated with the start state the GENERATED New(lim, LRU().WithSize(sz).OnEvict(cb))
   returns instead of the model's.  Only statements; proofs in GenTie/CacheTieNew.v.

   Reading guide (GenTie/CacheTieNew.v).  N = Gen/FnCacheNew.v.  Records N.Config, N.Cache,
   N.lruStore hold every field of the Go structs but the mutex; store : option St (None = nil
   interface), sizeOf : option (V -> Z) and onEvict : option (K -> V -> list Ev) (None = nil
   function; a callback is the function into the list of events a call emits, func(K, V) {} emits []).
   [gen_LRU] = the generated LRU() with heapq.New := the function generated from heapq.go,
   comparePrio := the model's compare_prio (pointwise equal to the generated one:
   C08_comparePrio_is_source), access.Update(literal 0) := the generated heapq Update (the callback is
   the heap model's move log, replayed by the function generated from that literal:
   C08_lru_update_is_source).  [gen_new lim sz cb] = N.New lim (N.OnEvict (N.WithSize gen_LRU sz) cb).
   [size_or_one sz] / [cb_or_nop cb]: sz resp. cb if given, else fun _ => 1 resp. fun _ _ => [].
   [gstate_of c] = the fields the generated methods work on (None for a nil store);
   [grun_cache keqb kzero vzero hv c ops] = CacheSource.grun from gstate_of c with the size function
   stored in c.

   STILL OUTSIDE: the sync.Mutex field (skipped; C09), that the interface value New stores is the
   very pointer LRU() allocated (object identity: values only), the heap under the store (the heapq
   model, tied to heapq.go by C05/C06), the float-free but unbounded Z for int64 (C08_int64_all_limits). *)
From Coq Require Import ZArith List Bool.
Import ListNotations.
Set Warnings "-notation-overridden".
From Mds Require Import Common.FnRt.
From Mds Require Import Heapq.HeapqModel Cache.CacheSpec Cache.CacheModel.
From Mds Require Import Gen.CacheIdx GenTie.LruTieBase GenTie.CacheTieCompose GenTie.CacheSource GenTie.CacheTieNew.
Local Open Scope Z_scope.

(* WithStore / WithSize / OnEvict return the receiver's fields with exactly their own field
   replaced (a copy: the receiver is a value); sizeFunc / onEvictFunc return the configured function
   or the default (size 1 / no event), never nil. *)
Theorem C08_config_methods_source :
  forall (K V Ev St : Type) (c : N.Config K V St Ev) (s : option St) (sz : option (V -> Z)) (cb : option (K -> V -> list Ev)),
    N.WithStore c s = N.mk_Config s (N.Config_sizeOf c) (N.Config_onEvict c) /\
    N.WithSize c sz = N.mk_Config (N.Config_store c) sz (N.Config_onEvict c) /\
    N.OnEvict c cb = N.mk_Config (N.Config_store c) (N.Config_sizeOf c) cb /\
    N.sizeFunc c = Some (size_or_one (N.Config_sizeOf c)) /\
    N.onEvictFunc c = Some (cb_or_nop (N.Config_onEvict c)).
Proof. exact @config_methods_source. Qed.
Print Assumptions C08_config_methods_source.
Example C08_config_methods_source_ex :
  let c := N.OnEvict (N.WithSize (N.WithStore (N.mk_Config None None None) (Some 7%nat)) (Some (fun v : Z => v + 1))) (Some (fun (k v : Z) => [(k, v)])) in
  N.Config_store c = Some 7%nat /\ option_map (fun f => f 4) (N.sizeFunc c) = Some 5 /\
  option_map (fun f => f 1 2) (N.onEvictFunc c) = Some [(1, 2)] /\
  option_map (fun f => f 4) (N.sizeFunc (N.mk_Config (@None nat) (@None (Z -> Z)) (@None (Z -> Z -> list unit)))) = Some 1.
Proof. cbv zeta. repeat split; reflexivity. Qed.

(* LRU() returns a Config whose store is an lruStore with an empty present map, the queue
   heapq.New(comparePrio) returns (after Update installed literal 0) and clock 0 -- field by field
   the model's lru_new -- and whose sizeOf and onEvict are nil. *)
Theorem C08_LRU_is_source :
  forall (K V Ev : Type),
    @gen_LRU K V Ev =
    N.mk_Config (Some (N.mk_lruStore (present (lru_new K V)) (access (lru_new K V)) (clock (lru_new K V)))) None None.
Proof. exact @LRU_is_source. Qed.
Print Assumptions C08_LRU_is_source.
Example C08_LRU_is_source_ex :
  option_map (fun s => (N.lruStore_present s, data (N.lruStore_access s), N.lruStore_clock s)) (N.Config_store (@gen_LRU Z Z unit))
  = Some ([], [], 0).
Proof. reflexivity. Qed.

(* New(lim, cfg) for EVERY limit and EVERY configuration (any store type): limit <= 0 (the
   generated condition) panics with New's first message whatever the store; otherwise a nil store
   panics with the second; otherwise the cache holds exactly cfg's store, size 0, count 0, limit lim,
   the configured size function or func(V) int64 { return 1 }, the configured callback or func(K, V) {}. *)
Theorem C08_new_is_source :
  forall (K V Ev St : Type) (lim : Z) (cfg : N.Config K V St Ev),
    N.New lim cfg =
    if CacheIdx.new_bad_limit lim then FnRt.Panic (FnRt.PMsg "cache: limit must be positive")
    else match N.Config_store cfg with
         | None => FnRt.Panic (FnRt.PMsg "cache: no store implementation")
         | Some s => FnRt.Ok (N.mk_Cache (Some s) 0 lim 0 (Some (size_or_one (N.Config_sizeOf cfg))) (Some (cb_or_nop (N.Config_onEvict cfg))))
         end.
Proof. exact @new_is_source. Qed.
Print Assumptions C08_new_is_source.
Example C08_new_is_source_ex :
  N.New 0 (N.mk_Config (@None nat) (@None (Z -> Z)) (@None (Z -> Z -> list unit))) = FnRt.Panic (FnRt.PMsg "cache: limit must be positive") /\
  N.New 3 (N.mk_Config (@None nat) (@None (Z -> Z)) (@None (Z -> Z -> list unit))) = FnRt.Panic (FnRt.PMsg "cache: no store implementation") /\
  (match N.New 3 (N.mk_Config (Some 5%nat) (@None (Z -> Z)) (@None (Z -> Z -> list unit))) with
   | FnRt.Ok c => (N.Cache_store c, N.Cache_size c, N.Cache_limit c, N.Cache_count c) = (Some 5%nat, 0, 3, 0)
   | _ => False end).
Proof. repeat split; reflexivity. Qed.

(* The start state: the generated New(lim, LRU().WithSize(sz).OnEvict(cb)), projected onto the
   fields the generated methods work on, IS the model's cache_new lim (for every lim: the model's
   PBadLimit is New's first message), and the functions it stores are sz / cb or the defaults. *)
Theorem C08_init_is_source :
  forall (K V Ev : Type) (lim : Z) (sz : option (V -> Z)) (cb : option (K -> V -> list Ev)),
    FnRt.bind (gen_new lim sz cb) (fun c => FnRt.Ok (gstate_of c, N.Cache_sizeOf c, N.Cache_onEvict c))
    = embf (fun c => (Some (grep c), Some (size_or_one sz), Some (cb_or_nop cb))) (cache_new K V lim).
Proof. exact @init_is_source. Qed.
Print Assumptions C08_init_is_source.
Example C08_init_is_source_ex :
  (match @gen_new Z Z unit 2 None None with FnRt.Ok c => gstate_of c = Some (ginit 2) | _ => False end) /\
  @gen_new Z Z unit (-1) None None = FnRt.Panic (FnRt.PMsg "cache: limit must be positive").
Proof. split; reflexivity. Qed.

(* New's two documented panics on the composed configuration: a non-positive limit (whatever the
   configuration), and a store set back to nil with WithStore (or never set). *)
Theorem C08_new_panics_source :
  forall (K V Ev St : Type) (lim : Z) (sz : option (V -> Z)) (cb : option (K -> V -> list Ev)),
    (forall cfg : N.Config K V St Ev, lim <= 0 -> N.New lim cfg = FnRt.Panic (FnRt.PMsg "cache: limit must be positive")) /\
    (0 < lim ->
     N.New lim (N.mk_Config (@None St) sz cb) = FnRt.Panic (FnRt.PMsg "cache: no store implementation") /\
     N.New lim (N.WithStore (N.OnEvict (N.WithSize gen_LRU sz) cb) None) = FnRt.Panic (FnRt.PMsg "cache: no store implementation")).
Proof.
  intros K V Ev St lim sz cb. split.
  - intros cfg Hl. exact (init_bad_limit St lim cfg Hl).
  - intros Hl. exact (init_no_store St lim sz cb Hl).
Qed.
Print Assumptions C08_new_panics_source.
Example C08_new_panics_source_ex :
  N.New 4 (N.WithStore (@gen_LRU Z Z unit) None) = FnRt.Panic (FnRt.PMsg "cache: no store implementation").
Proof. reflexivity. Qed.

(* C08_refines_S1_source from the GENERATED constructor: for every key type with decidable
   equality, every optional size function that is >= 0 (None = entries count 1), every optional
   callback, every limit > 0, every heap variant and every history: New returns a cache c0, no call
   of the generated methods run from c0 panics or runs out of fuel, and results and callback logs
   are accepted by S1 (as C08_refines_S1_source; missing: that the victims are the least recently
   used, see C08_lru_source_init). *)
Theorem C08_refines_S1_source_init :
  forall (K V Ev : Type) (keqb : K -> K -> bool),
    (forall a b, keqb a b = true <-> a = b) ->
  forall (kzero : K) (vzero : V) (sz : option (V -> Z)) (cb : option (K -> V -> list Ev)),
    (forall v, 0 <= size_or_one sz v) ->
  forall (hv : variant) (lim : Z) (ops : list (op K V)),
    0 < lim ->
    exists c0 obs,
      gen_new lim sz cb = FnRt.Ok c0 /\
      grun_cache keqb kzero vzero hv c0 ops = map FnRt.Ok obs /\
      s1_accepts K V keqb vzero (size_or_one sz) lim [] ops obs.
Proof. exact refines_S1_source_init. Qed.
Print Assumptions C08_refines_S1_source_init.
Example C08_refines_S1_source_init_ex :
  match @gen_new Z Z (Z * Z) 2 None (Some (fun k v => [(k, v)])) with
  | FnRt.Ok c0 =>
    grun_cache Z.eqb 0 0 pinned c0 [OPut 1 10; OPut 2 20; OGet 1; OPut 3 30; OHas 2; OLen]
    = map FnRt.Ok [(RBool true, []); (RBool true, []); (RGet 10 true, []); (RBool true, [(2, 20)]); (RBool false, []); (RNum 2, [])] /\
    emitted c0 [(2, 20)] = [(2, 20)]
  | _ => False
  end.
Proof. vm_compute. split; reflexivity. Qed.

(* C08_lru_source from the generated constructor: the code as it is (a heap whose pop never sifts
   up), every history on which the F2 trigger never fires: exactly the reference LRU S2. *)
Theorem C08_lru_source_init :
  forall (K V Ev : Type) (keqb : K -> K -> bool),
    (forall a b, keqb a b = true <-> a = b) ->
  forall (kzero : K) (vzero : V) (sz : option (V -> Z)) (cb : option (K -> V -> list Ev)),
  forall (hv : variant), pop_no_siftup hv = true ->
  forall (lim : Z) (ops : list (op K V)),
    0 < lim ->
    run_new_safe K V keqb kzero vzero (size_or_one sz) hv lim ops = true ->
    exists c0,
      gen_new lim sz cb = FnRt.Ok c0 /\
      grun_cache keqb kzero vzero hv c0 ops = map FnRt.Ok (s2_run K V keqb vzero (size_or_one sz) lim [] ops).
Proof. exact lru_source_init. Qed.
Print Assumptions C08_lru_source_init.
Example C08_lru_source_init_ex :
  let h := [OPut 0 10; OPut 1 11; OPut 2 12; OGet 0; OPut 3 13; OHas 1; ORemove 2; OPut 4 14] in
  run_new_safe Z Z Z.eqb 0 0 (fun _ => 1) pinned 3 h = true /\
  match @gen_new Z Z unit 3 None None with
  | FnRt.Ok c0 => grun_cache Z.eqb 0 0 pinned c0 h = map FnRt.Ok (s2_run Z Z Z.eqb 0 (fun _ => 1) 3 [] h)
  | _ => False
  end.
Proof. cbv zeta. split; vm_compute; reflexivity. Qed.

(* LRU() with the GENERATED comparePrio handed to heapq.New: the same Config, the queue empty, and
   the queue's comparison function answers like the model's compare_prio on every pair.  (The
   history theorems take the model's function VALUE: identifying the two would need function
   extensionality, which is not assumed.) *)
Theorem C08_LRU_generated_cmp_source :
  forall (K V Ev : Type),
    exists q : queue (prio K V),
      @gen_LRU_gcmp K V Ev = N.mk_Config (Some (N.mk_lruStore [] q 0)) None None /\
      data q = [] /\ (forall a b : prio K V, qcmp q a b = compare_prio K V a b).
Proof. exact @LRU_generated_cmp_source. Qed.
Print Assumptions C08_LRU_generated_cmp_source.
Example C08_LRU_generated_cmp_source_ex :
  option_map (fun s => qcmp (N.lruStore_access s) (Build_prio Z Z 3 0 0) (Build_prio Z Z 5 1 1)) (N.Config_store (@gen_LRU_gcmp Z Z unit)) = Some (-1).
Proof. reflexivity. Qed.

(* C08_lru_settled_source and C08_refines_S2_over_repaired_heap_source from the generated constructor. *)
Theorem C08_lru_settled_source_init :
  forall (K V Ev : Type) (keqb : K -> K -> bool),
    (forall a b, keqb a b = true <-> a = b) ->
  forall (kzero : K) (vzero : V) (sz : option (V -> Z)) (cb : option (K -> V -> list Ev)),
  forall (hv : variant), pop_no_siftup hv = true ->
  forall (lim : Z) (ops : list (op K V)),
    0 < lim ->
    settled K V keqb vzero (size_or_one sz) lim true [] ops = true ->
    exists c0,
      gen_new lim sz cb = FnRt.Ok c0 /\
      grun_cache keqb kzero vzero hv c0 ops = map FnRt.Ok (s2_run K V keqb vzero (size_or_one sz) lim [] ops).
Proof. exact lru_settled_source_init. Qed.
Print Assumptions C08_lru_settled_source_init.
Example C08_lru_settled_source_init_ex :
  settled Z Z Z.eqb 0 (fun _ => 1) 2 true [] [OPut 1 10; OPut 2 20; OGet 1; OPut 3 30; OGet 2] = true /\
  match @gen_new Z Z unit 2 None None with
  | FnRt.Ok c0 => grun_cache Z.eqb 0 0 pinned c0 [OPut 1 10; OPut 2 20; OGet 1; OPut 3 30; OGet 2]
                  = map FnRt.Ok [(RBool true, []); (RBool true, []); (RGet 10 true, []); (RBool true, [(2, 20)]); (RGet 0 false, [])]
  | _ => False
  end.
Proof. split; vm_compute; reflexivity. Qed.

Theorem C08_refines_S2_over_repaired_heap_source_init :
  forall (K V Ev : Type) (keqb : K -> K -> bool),
    (forall a b, keqb a b = true <-> a = b) ->
  forall (kzero : K) (vzero : V) (sz : option (V -> Z)) (cb : option (K -> V -> list Ev)),
  forall (lim : Z) (ops : list (op K V)),
    0 < lim ->
    exists c0,
      gen_new lim sz cb = FnRt.Ok c0 /\
      grun_cache keqb kzero vzero repaired c0 ops = map FnRt.Ok (s2_run K V keqb vzero (size_or_one sz) lim [] ops).
Proof. exact refines_S2_repaired_source_init. Qed.
Print Assumptions C08_refines_S2_over_repaired_heap_source_init.
Example C08_refines_S2_over_repaired_heap_source_init_ex :
  match @gen_new Z Z unit 7 (Some (fun _ => 1)) None with
  | FnRt.Ok c0 => nth 14 (grun_cache Z.eqb 0 0 repaired c0 CacheWitness.f2_history) FnRt.OutOfFuel = FnRt.Ok (RBool true, [(5, 15)])
  | _ => False
  end.
Proof. vm_compute. reflexivity. Qed.
