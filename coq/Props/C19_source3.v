(* C19 at source level: whole histories through the GENERATED distinct.go.  Only statements; the
   definitions and proofs are in GenTie/DistinctSource.v.

   Reading guide.  The machine's state is the generated record [DN.Counter T (list Z)] (buf = the
   map, cap, p, rng = the words the random source will still return).  [gstep eqb c (OAdd v o)] calls
   the function generated from Counter.Add on the fields of c, with the functions generated from
   mapset.go as the methods of c.buf and [gord eqb c v o] as the order of `range c.buf`: the order
   the model's validated oracle [dorder] decodes o to (o = None: list order).  [gstep eqb c OReset]
   calls the generated Reset.  [gobserve eqb c] calls the generated Len and then the generated Count.
   [grun_obs eqb c ops] = the list of (Len, Count, p, words drawn) after every operation and the final
   Counter, or the first failure.  [enc cap s ws] = the Counter whose fields are the model state s,
   the capacity and the stream; [emb] maps the model's result to the machine's (NoWords -> the
   tie's PNoWords, BadOracle -> FnRt's PBadOrder).  [words_ok ws]: every word is in 0..2^64-1.
   [D.cvm_single_halving_pass] = the F8 switch as read from the source (true: `if`, one pass).

   The order [dorder] decodes any oracle to is proved to be an enumeration of the buffer
   (GenTie/DistinctSource.v, dorder_valid), so the order check of the generated code accepts it and
   the statements are equalities for every oracle; an oracle the model rejects (BadOracle) is the
   generated code's PBadOrder.
   STILL OUTSIDE: ChaCha8 and crypto/rand (the stream is an input), Go's int width for cap/Len,
   object identity of the map, the mutex, the expectation theorems (C19_unbiased, C19_real_bias: they
   live in the expectation monad, which no generated function is run in). *)
From Coq Require Import ZArith List Bool.
Import ListNotations.
From Mds Require Import Common.FnRt GenTie.DistinctTie GenTie.DistinctTieNew GenTie.DistinctSource.
From Mds Require Distinct.DistinctModel Distinct.DistinctSpec Distinct.DistinctProofs.
Local Open Scope Z_scope.

(* One step of the generated machine is the model's step, in every state satisfying the model's
   invariant (duplicate-free buffer, p = MaxUint64 >> k) and on every in-range stream; the words
   left are in range again. *)
Theorem C19_step_is_source :
  forall (T : Type) (eqb : T -> T -> bool), (forall x y : T, eqb x y = true <-> x = y) ->
  forall (cap : Z) (fuel : nat) (s : D.st T) (ws : list Z) (o : D.op T),
    DP.Inv T s -> words_ok ws ->
    (forall (s' : D.st T) (ws' : list Z),
       D.step T eqb D.cvm_single_halving_pass fuel cap s ws o = D.ROk s' ws' -> words_ok ws') /\
    gstep eqb (enc cap s ws) o = emb cap (D.step T eqb D.cvm_single_halving_pass fuel cap s ws o).
Proof. exact @step_is_source. Qed.
Print Assumptions C19_step_is_source.

(* Whole histories from the Counter the generated NewCounter returns, for every behaviour of
   crypto/rand.Read that succeeds, every seed-to-stream function with in-range words, every size and
   every list of operations: the observations (generated Len, generated Count, p, words drawn after
   every operation) and the final Counter are those of the model's run_obs from D.init. *)
Theorem C19_history_source :
  forall (T : Type) (eqb : T -> T -> bool), (forall x y : T, eqb x y = true <-> x = y) ->
  forall (crand_Read : list Z -> list Z * Z * bool) (stream : list Z -> list Z) (size : Z) (fuel : nat)
         (ops : list (D.op T)),
    seed_err crand_Read = false ->
    words_ok (stream (seed_bytes crand_Read)) ->
    exists c0 : DN.Counter T (list Z),
      DN.NewCounter crand_Read stream size = Ok c0 /\
      grun_obs eqb c0 ops =
      (fst (D.run_obs T eqb D.cvm_single_halving_pass fuel size (D.init T) (stream (seed_bytes crand_Read)) ops),
       emb size (snd (D.run_obs T eqb D.cvm_single_halving_pass fuel size (D.init T) (stream (seed_bytes crand_Read)) ops))).
Proof. exact @history_source_new. Qed.
Print Assumptions C19_history_source.

(* from any state satisfying the invariant (not only the constructor's) *)
Theorem C19_history_source_inv :
  forall (T : Type) (eqb : T -> T -> bool), (forall x y : T, eqb x y = true <-> x = y) ->
  forall (cap : Z) (fuel : nat) (ops : list (D.op T)) (s : D.st T) (ws : list Z),
    DP.Inv T s -> words_ok ws ->
    grun_obs eqb (enc cap s ws) ops =
    (fst (D.run_obs T eqb D.cvm_single_halving_pass fuel cap s ws ops),
     emb cap (snd (D.run_obs T eqb D.cvm_single_halving_pass fuel cap s ws ops))).
Proof. exact @history_source. Qed.
Print Assumptions C19_history_source_inv.

(* Non-vacuity: size 2, the stream [MaxUint64; 0; 5; 7], Add 1, Add 2, Add 3 with an oracle, Reset,
   Add 4, run THROUGH THE GENERATED FUNCTIONS: two halving passes, then the reset; and the same
   observations from the model. *)
Example C19_history_source_ex :
  let ws := [D.maxu; 0; 5; 7] in
  let ops := [D.OAdd 1 None; D.OAdd 2 None; D.OAdd 3 (Some [3]); D.OReset; D.OAdd 4 None] in
  match @DN.NewCounter Z (list Z) (fun s => (s, 32, false)) (fun _ => ws) 2 with
  | Ok c0 =>
    grun_obs Z.eqb c0 ops =
    ([(1, 1, 18446744073709551615, 0); (2, 4, 9223372036854775807, 1); (2, 8, 4611686018427387903, 2);
      (0, 0, 18446744073709551615, 0); (1, 1, 18446744073709551615, 0)],
     Ok (DN.mk_Counter (Some [(4, tt)]) 2 18446744073709551615 [7])) /\
    grun_obs Z.eqb c0 ops =
    (fst (D.run_obs Z Z.eqb true 0 2 (D.init Z) ws ops), emb 2 (snd (D.run_obs Z Z.eqb true 0 2 (D.init Z) ws ops)))
  | _ => False
  end.
Proof. vm_compute. split; reflexivity. Qed.

(* the same history as a named statement of GenTie/DistinctSource.v (computation only, no tie used) *)
Theorem C19_history_witness_source :
  let ws := [D.maxu; 0; 5; 7] in
  let ops := [D.OAdd 1 None; D.OAdd 2 None; D.OAdd 3 (Some [3]); D.OReset; D.OAdd 4 None] in
  exists c0, @DN.NewCounter Z (list Z) (fun s => (s, 32, false)) (fun _ => ws) 2 = Ok c0 /\
    grun_obs Z.eqb c0 ops =
    ([(1, 1, 18446744073709551615, 0); (2, 4, 9223372036854775807, 1); (2, 8, 4611686018427387903, 2);
      (0, 0, 18446744073709551615, 0); (1, 1, 18446744073709551615, 0)],
     Ok (DN.mk_Counter (Some [(4, tt)]) 2 18446744073709551615 [7])).
Proof. exact history_witness_source. Qed.
Print Assumptions C19_history_witness_source.

(* failures: an oracle the model rejects (7 is not in the buffer: BadOracle) stops the machine with
   the generated order check's PBadOrder, an exhausted stream with the tie's PNoWords *)
Example C19_history_source_stops_ex :
  let c0 := DN.mk_Counter (Some []) 2 18446744073709551615 [D.maxu; 0; 5] in
  snd (grun_obs Z.eqb c0 [D.OAdd 1 None; D.OAdd 2 (Some [7])]) = Panic PBadOrder /\
  snd (grun_obs Z.eqb c0 [D.OAdd 1 None; D.OAdd 2 None; D.OAdd 3 None; D.OAdd 4 None]) = Panic PNoWords.
Proof. vm_compute. split; reflexivity. Qed.

(* ---- the model-level C19 theorems read on the generated machine: the history is run from the
   Counter the generated NewCounter returned ([gnew]) and ended in the Counter c; the conclusions
   are about what the GENERATED Len and Count answer on c. *)

(* C19_count_shape: p = MaxUint64 >> k and Count = Len * 2^k mod 2^64 for some k *)
Theorem C19_count_shape_source :
  forall (T : Type) (eqb : T -> T -> bool), (forall x y : T, eqb x y = true <-> x = y) ->
  forall (crand_Read : list Z -> list Z * Z * bool) (stream : list Z -> list Z) (size : Z) (ops : list (D.op T))
         (c0 : DN.Counter T (list Z)) (obs : list (Z * Z * Z * Z)) (c : DN.Counter T (list Z)),
    words_ok (stream (seed_bytes crand_Read)) ->
    gnew crand_Read stream size = Ok c0 ->
    grun_obs eqb c0 ops = (obs, Ok c) ->
    exists (k : nat) (l n : Z),
      gobserve eqb c = Ok (l, n, DN.Counter_p c, c) /\
      DN.Counter_p c = Z.shiftr D.maxu (Z.of_nat k) /\ n = (l * 2 ^ Z.of_nat k) mod D.two64.
Proof. exact @count_shape_source. Qed.
Print Assumptions C19_count_shape_source.

(* C19_exact: fewer distinct values than the size since construction / the last Reset: the generated
   Len and Count answer exactly their number, p is MaxUint64, the keys of the map are the values seen *)
Theorem C19_exact_source :
  forall (T : Type) (eqb : T -> T -> bool), (forall x y : T, eqb x y = true <-> x = y) ->
  forall (crand_Read : list Z -> list Z * Z * bool) (stream : list Z -> list Z) (size : Z) (ops : list (D.op T))
         (c0 : DN.Counter T (list Z)) (obs : list (Z * Z * Z * Z)) (c : DN.Counter T (list Z)),
    words_ok (stream (seed_bytes crand_Read)) ->
    gnew crand_Read stream size = Ok c0 ->
    grun_obs eqb c0 ops = (obs, Ok c) ->
    size <= D.two64 ->
    Z.of_nat (DS.distinct T eqb ops) < size ->
    gobserve eqb c = Ok (Z.of_nat (DS.distinct T eqb ops), Z.of_nat (DS.distinct T eqb ops), D.maxu, c) /\
    keys (DN.Counter_buf c) = DS.seen T eqb ops.
Proof. exact @exact_source. Qed.
Print Assumptions C19_exact_source.

Example C19_exact_source_ex :
  let ops := [D.OAdd 7 None; D.OAdd 7 None; D.OAdd 5 None; D.OAdd 7 None; D.OAdd 9 None; D.OAdd 5 None] in
  match gnew (T := Z) (fun s => (s, 32, false)) (fun _ => []) 4 with
  | Ok c0 => match grun_obs Z.eqb c0 ops with
             | (_, Ok c) => gobserve Z.eqb c = Ok (3, 3, D.maxu, c) /\ Z.of_nat (DS.distinct Z Z.eqb ops) = 3
             | _ => False
             end
  | _ => False
  end.
Proof. vm_compute. split; reflexivity. Qed.

(* C19_len_partial (known finding F8: the unconditional bound Len <= size is FALSE of the pinned
   code, C19_len_refuted_source): Len < size as long as every halving pass so far dropped an element.
   The hypothesis is the model theorem's, stated on the model's run from the same stream. *)
Theorem C19_len_partial_source :
  forall (T : Type) (eqb : T -> T -> bool), (forall x y : T, eqb x y = true <-> x = y) ->
  forall (crand_Read : list Z -> list Z * Z * bool) (stream : list Z -> list Z) (size : Z) (ops : list (D.op T))
         (c0 : DN.Counter T (list Z)) (obs : list (Z * Z * Z * Z)) (c : DN.Counter T (list Z)),
    words_ok (stream (seed_bytes crand_Read)) ->
    gnew crand_Read stream size = Ok c0 ->
    grun_obs eqb c0 ops = (obs, Ok c) ->
    1 <= size ->
    DP.every_pass_dropped T eqb true 0 size (stream (seed_bytes crand_Read)) ops ->
    exists l n : Z, gobserve eqb c = Ok (l, n, DN.Counter_p c, c) /\ l < size.
Proof. exact @len_partial_source. Qed.
Print Assumptions C19_len_partial_source.

(* F8 through the generated code: NewCounter(2), the words [MaxUint64; 0; MaxUint64], Add 1, Add 2,
   Add 3: the generated Len answers 3 on a Counter of capacity 2. *)
Theorem C19_len_refuted_source :
  exists (ws : list Z) (ops : list (D.op Z)) (c0 : DN.Counter Z (list Z)) (obs : list (Z * Z * Z * Z))
         (c : DN.Counter Z (list Z)) (l n : Z),
    DN.NewCounter (fun s : list Z => (s, 32, false)) (fun _ : list Z => ws) 2 = Ok c0 /\
    grun_obs Z.eqb c0 ops = (obs, Ok c) /\
    gobserve Z.eqb c = Ok (l, n, DN.Counter_p c, c) /\ l = 3 /\ DN.Counter_cap c = 2.
Proof. exact len_refuted_source. Qed.
Print Assumptions C19_len_refuted_source.
