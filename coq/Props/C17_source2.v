(* Supplementary source-level statements for slice/slice.go (outside the text of property C17):
   the exported functions that had no tie to the generated code before.  Only statements; proofs
   in GenTie/SliceTieMore.v.

   Reading guide.  [FnSlice.Reverse] is the function generated from slice.Reverse in
   /repo/slice/slice.go (one statement: slices.Reverse(vs), the standard function a function
   argument); [FnSlicesStd.Reverse] is generated from the installed GOROOT/src/slices/slices.go.
   [reverse_impl] (Slice/SliceUtilMoreModel.v) mirrors that loop by hand; [emb] maps the model's
   result type into the generated code's. *)
From Coq Require Import ZArith List Bool.
Import ListNotations.
From Mds Require Import Common.FnRt.
From Mds Require Gen.FnSlice Gen.FnSlicesStd Gen.FnSliceIter.
From Mds Require Import Slice.SliceUtilMoreModel Slice.SliceUtilExtraModel.
From Mds Require Import GenTie.SliceTieBase GenTie.SliceTieMore.
Local Open Scope Z_scope.

(* slice.Reverse composed with the generated slices.Reverse returns exactly what the model's
   reverse_impl returns, for every element type, every list and fuel above its length. *)
Theorem C17_reverse_is_source : forall (T : Type) (vs : list T) (fuel : nat),
  (fuel > length vs)%nat ->
  FnSlice.Reverse vs (fun s => FnSlicesStd.Reverse s fuel) = emb (reverse_impl vs).
Proof. exact (@reverse_is_source). Qed.
Print Assumptions C17_reverse_is_source.

(* ... and that is the reversed list: same length, no panic, in place (the parameter's new
   elements are the result); reversing twice gives the argument back. *)
Theorem C17_reverse_source_spec : forall (T : Type) (vs : list T) (fuel : nat),
  (fuel > length vs)%nat ->
  FnSlice.Reverse vs (fun s => FnSlicesStd.Reverse s fuel) = Ok (rev vs).
Proof. exact (@reverse_source_spec). Qed.
Print Assumptions C17_reverse_source_spec.

Example C17_reverse_source_ex :
  FnSlice.Reverse [1; 2; 3; 4; 5] (fun s => FnSlicesStd.Reverse s 6) = Ok [5; 4; 3; 2; 1]
  /\ FnSlice.Reverse [1; 2; 3; 4] (fun s => FnSlicesStd.Reverse s 5) = Ok [4; 3; 2; 1]
  /\ reverse_impl [1; 2; 3; 4] = SliceUtilModel.Ok [4; 3; 2; 1].
Proof. vm_compute. repeat split. Qed.

(* Select(vs, f) run against an arbitrary consumer.  [FnSliceIter.Select] is generated from the
   closure Select returns, as one function of (vs, f) and the consumer: yield threads a state of
   any type S and answers what Go's yield returns (false = the range loop was left).  For every
   consumer [yieldT], every test f, every list, start state and fuel above the length, the
   consumer's final state is the one the model's select_loop reaches (which values it was handed,
   in which order, and where it stopped the iteration). *)
Theorem C17_select_is_source :
  forall (T S : Type) (yieldT : S -> T -> S * bool) (f : T -> bool) (vs : list T) (s : S) (fuel : nat),
    (fuel > length vs)%nat ->
    FnSliceIter.Select vs f (gyield yieldT) s fuel = Ok (fst (select_loop yieldT f vs s 0)).
Proof. exact (@select_is_source). Qed.
Print Assumptions C17_select_is_source.

(* the consumer `for x := range Select(vs, even) { out = append(out, x); if len(out) == 2 { break } }` *)
Example C17_select_source_ex :
  FnSliceIter.Select [1; 2; 3; 4; 5; 6] Z.even (gyield (take_consumer 2)) ([], 0) 7%nat = Ok ([2; 4], 2)
  /\ FnSliceIter.Select [1; 2; 3; 4; 5; 6] Z.even (gyield (take_consumer 0)) ([], 0) 7%nat = Ok ([2; 4; 6], 3).
Proof. vm_compute. repeat split. Qed.
