(* Supplementary source-level statements for slice/slice.go (outside the text of property C17):
   the exported functions that had no tie to the generated code before.  Only statements; proofs
   in GenTie/SliceTieMore.v.

   Reading guide.  [FnSlice.Reverse] is the function generated from slice.Reverse in
   /repo/slice/slice.go (one statement: slices.Reverse(vs), the standard function a function
   argument); [FnSlicesStd.Reverse] is generated from the installed GOROOT/src/slices/slices.go.
   [reverse_impl] (Slice/SliceUtilMoreModel.v) mirrors that loop by hand; [emb] maps the model's
   result type into the generated code's. *)
From Coq Require Import ZArith List Bool.
Import ListNotations.
From Mds Require Import Common.FnRt.
From Mds Require Gen.FnSlice Gen.FnSlicesStd Gen.FnSliceIter.
From Mds Require Import Slice.SliceUtilMoreModel Slice.SliceUtilExtraModel.
From Mds Require Import GenTie.SliceTieBase GenTie.SliceTieMore.
Local Open Scope Z_scope.

(* slice.Reverse composed with the generated slices.Reverse returns exactly what the model's
   reverse_impl returns, for every element type, every list and fuel above its length. *)
Theorem C17_reverse_is_source : forall (T : Type) (vs : list T) (fuel : nat),
  (fuel > length vs)%nat ->
  FnSlice.Reverse vs (fun s => FnSlicesStd.Reverse s fuel) = emb (reverse_impl vs).
Proof. exact (@reverse_is_source). Qed.
Print Assumptions C17_reverse_is_source.

(* ... and that is the reversed list: same length, no panic, in place (the parameter's new
   elements are the result); reversing twice gives the argument back. *)
Theorem C17_reverse_source_spec : forall (T : Type) (vs : list T) (fuel : nat),
  (fuel > length vs)%nat ->
  FnSlice.Reverse vs (fun s => FnSlicesStd.Reverse s fuel) = Ok (rev vs).
Proof. exact (@reverse_source_spec). Qed.
Print Assumptions C17_reverse_source_spec.

Example C17_reverse_source_ex :
  FnSlice.Reverse [1; 2; 3; 4; 5] (fun s => FnSlicesStd.Reverse s 6) = Ok [5; 4; 3; 2; 1]
  /\ FnSlice.Reverse [1; 2; 3; 4] (fun s => FnSlicesStd.Reverse s 5) = Ok [4; 3; 2; 1]
  /\ reverse_impl [1; 2; 3; 4] = SliceUtilModel.Ok [4; 3; 2; 1].
Proof. vm_compute. repeat split. Qed.

(* Select(vs, f) run against an arbitrary consumer.  [FnSliceIter.Select] is generated from the
   closure Select returns, as one function of (vs, f) and the consumer: yield threads a state of
   any type S and answers what Go's yield returns (false = the range loop was left).  For every
   consumer [yieldT], every test f, every list, start state and fuel above the length, the
   consumer's final state is the one the model's select_loop reaches (which values it was handed,
   in which order, and where it stopped the iteration). *)
Theorem C17_select_is_source :
  forall (T S : Type) (yieldT : S -> T -> S * bool) (f : T -> bool) (vs : list T) (s : S) (fuel : nat),
    (fuel > length vs)%nat ->
    FnSliceIter.Select vs f (gyield yieldT) s fuel = Ok (fst (select_loop yieldT f vs s 0)).
Proof. exact (@select_is_source). Qed.
Print Assumptions C17_select_is_source.

(* the consumer `for x := range Select(vs, even) { out = append(out, x); if len(out) == 2 { break } }` *)
Example C17_select_source_ex :
  FnSliceIter.Select [1; 2; 3; 4; 5; 6] Z.even (gyield (take_consumer 2)) ([], 0) 7%nat = Ok ([2; 4], 2)
  /\ FnSliceIter.Select [1; 2; 3; 4; 5; 6] Z.even (gyield (take_consumer 0)) ([], 0) 7%nat = Ok ([2; 4; 6], 3).
Proof. vm_compute. repeat split. Qed.

(* Dedup(vs) = slices.Compact(vs).  [FnSlice.Dedup] is generated from the one-statement body; the
   standard function is a function argument that gets the argument's elements and view and
   answers the result's view and the new elements.  slices.Compact itself is NOT translated (its
   s2 := s[k:] aliases s): [compact_impl] is a hand copy of the go1.23 loop, [g_compact] that model
   as the external function.  What is tied to /repo is the wrapper: Dedup hands vs over and
   returns what Compact returns, nothing else. *)
Theorem C17_dedup_hands_over :
  forall (T : Type) (vs : list T) (vs_v : view) (compact : list T -> view -> res (view * list T)),
    FnSlice.Dedup vs vs_v compact = compact vs vs_v.
Proof. exact (@dedup_hands_over). Qed.
Print Assumptions C17_dedup_hands_over.

Theorem C17_dedup_is_source :
  forall (T : Type) (eqb : T -> T -> bool) (zero : T) (vs : list T) (v : SliceUtilModel.view),
    FnSlice.Dedup vs (vw v) (g_compact eqb zero)
    = embf (fun ws : SliceUtilModel.view * list T => (vw (fst ws), snd ws)) (dedup_view eqb zero vs v).
Proof. exact (@dedup_is_source). Qed.
Print Assumptions C17_dedup_is_source.

(* what the doc comment says, for every equality test eqb (no law needed), on a view that is the
   whole argument: the result is the PREFIX of the same array (same offset, same capacity) whose
   elements are those that differ from their predecessor -- the first element of every run, in
   order --, the slots behind it are zeroed, the array keeps its length, no panic. *)
Theorem C17_dedup_source_spec :
  forall (T : Type) (eqb : T -> T -> bool) (zero : T) (vs : list T) (v : SliceUtilModel.view),
    SliceUtilModel.vlen v = zlen vs -> SliceUtilModel.vlen v <= SliceUtilModel.vcap v ->
    FnSlice.Dedup vs (vw v) (g_compact eqb zero)
    = Ok (mkView (SliceUtilModel.voff v) (zlen (dedup_spec eqb vs)) (SliceUtilModel.vcap v),
          dedup_spec eqb vs ++ repeat zero (length vs - length (dedup_spec eqb vs))).
Proof. exact (@dedup_source_spec). Qed.
Print Assumptions C17_dedup_source_spec.

Example C17_dedup_source_ex :
  FnSlice.Dedup [1; 1; 2; 2; 2; 3; 1; 1] (mkView 4 8 10) (g_compact Z.eqb 0)
    = Ok (mkView 4 4 10, [1; 2; 3; 1; 0; 0; 0; 0])
  /\ dedup_spec Z.eqb [1; 1; 2; 2; 2; 3; 1; 1] = [1; 2; 3; 1]
  /\ FnSlice.Dedup [5; 6] (mkView 0 2 2) (g_compact Z.eqb 0) = Ok (mkView 0 2 2, [5; 6]).
Proof. vm_compute. repeat split. Qed.
