(* C03 at the level of the GENERATED code: cursors OBTAINED from the generated Tree.Cursor(key),
   Tree.Root and Cursor.Clone (tied in GenTie/StreeTieRest.v), on tree i of the multi-tree states
   of Props/C01_source2.v.  Extends Props/C03_source.v, where the start cursor was any represented
   cursor or the hand-written [groot_cursor].  Only statements, each closed by [exact] of a lemma
   proved in GenTie/StreeSource2Cursor.v.

   Vocabulary: a *Cursor RESULT of the generated code is a [go_vres G.Cursor]: VNil (nil), VNew v
   (a new struct, c.path = G.Cursor_path v), VRecv (the receiver pointer itself);
   [vdec self r] = the (nil flag, path) pair the generated Cursor methods take, given the
   receiver's own pair; [crun], [cobserve], [follows], [obs_spec], [pos] as in Props/C03_source.v;
   [mexec], [minit], [mref_exec], [mop] as in Props/C01_source2.v (histories with Clone).

   NOT covered: that moving a cursor leaves its Clone where it was (a path is a list VALUE in this
   representation: C03_clone_independent and the correspondence run keep that part); New.
   Assumed: the comparator laws. *)
From Coq Require Import ZArith List Lia.
Import ListNotations.
From Mds Require Import Common.FnRt Common.FnHeap GenTie.StreeTieBase GenTie.StreeSep GenTie.StreeTieCursor
  GenTie.StreeTieRest GenTie.StreeSource GenTie.StreeSourceCursor GenTie.StreeSource2 GenTie.StreeSource2Cursor.
From Mds Require Import Stree.StreeSpec Stree.CursorSpec.
From Mds Require Stree.CursorProofs Stree.HeightModel Props.C01_source Props.C01_source2.
Local Open Scope Z_scope.

(* Tree.Cursor(key) on tree i of any reached state (Ls = the reference's list of that tree):
   the generated function succeeds; its result is nil EXACTLY when Ls holds no key equivalent to
   key; otherwise it is a new cursor for which the generated Valid answers true and the generated
   Key answers the STORED representative x, which is Ls[ix p0] for the start position p0; and from
   it every sequence of the seven moves runs without panic or fuel exhaustion, through positions
   that follow the moves, the generated observers reporting at the start and after every move
   what the positions say (as C03_history_source). *)
Theorem C03_cursor_lookup_source : forall (T : Type) (cmp : T -> T -> Z), total_preorder cmp ->
  forall (limit : Z -> Z -> Z) (zero : T) (b : Z) (h0 : list (G.node T)) (ops : list (mop T))
         (i : nat) (g : G.Tree T) (key : T),
  let st := mexec zero (minit cmp limit b h0) ops in
  let fuel := fuel_for (G.Tree_size g) in
  nth_error (m_trees st) i = Some g ->
  exists Ls r, nth_error (mref_exec zero cmp [[]] ops) i = Some Ls /\
    G.Tree_Cursor (G.Tree_root g) (G.Tree_compare g) key (m_heap st) fuel = Ok r /\
    match s_get cmp key Ls with
    | None => r = VNil
    | Some x =>
      exists ps p0, r = VNew (G.mk_Cursor ps) /\
        G.Cursor_Valid false ps = Ok true /\ G.Cursor_Key false ps (m_heap st) zero = Ok x /\
        nth_error Ls (ix p0) = Some x /\
        forall ms : list CM.move, exists pss bs,
          crun (m_heap st) false ps ms fuel = Ok pss /\
          follows (length Ls) (Some p0) ms bs /\
          Forall2 (fun ps' p => exists o, cobserve zero (m_heap st) false ps' fuel = Ok o /\
                                          obs_spec zero Ls p o)
                  (ps :: pss) (Some p0 :: bs)
    end.
Proof. exact @cursor_lookup_source. Qed.
Print Assumptions C03_cursor_lookup_source.

(* The same on ANY heap whose root address represents a search tree on a tree-shaped region. *)
Theorem C03_cursor_lookup_heap_source : forall (T : Type) (zero : T) (cmp : T -> T -> Z), total_preorder cmp ->
  forall (h : list (G.node T)) (root : option nat) (t : SM.tree T) (F : list nat) (key : T) (fuel : nat),
  trepr h root t F -> sorted cmp (SM.inorder t) -> (fuel > 2 * depth t + 1)%nat ->
  exists r, G.Tree_Cursor root cmp key h fuel = Ok r /\
    match s_get cmp key (SM.inorder t) with
    | None => r = VNil
    | Some x =>
      exists ps p0, r = VNew (G.mk_Cursor ps) /\
        G.Cursor_Valid false ps = Ok true /\ G.Cursor_Key false ps h zero = Ok x /\
        nth_error (SM.inorder t) (ix p0) = Some x /\
        forall ms : list CM.move, exists pss bs,
          crun h false ps ms fuel = Ok pss /\
          follows (length (SM.inorder t)) (Some p0) ms bs /\
          Forall2 (fun ps' p => exists o, cobserve zero h false ps' fuel = Ok o /\
                                          obs_spec zero (SM.inorder t) p o)
                  (ps :: pss) (Some p0 :: bs)
    end.
Proof. exact @cursor_lookup. Qed.
Print Assumptions C03_cursor_lookup_heap_source.

(* Tree.Root on tree i of any reached state, through the GENERATED function (C03_moves_source had
   its two lines written out by hand): nil exactly for the empty set; otherwise the start position
   spans all of Ls; every move sequence runs and observes like the reference positions. *)
Theorem C03_root_source : forall (T : Type) (cmp : T -> T -> Z), total_preorder cmp ->
  forall (limit : Z -> Z -> Z) (zero : T) (b : Z) (h0 : list (G.node T)) (ops : list (mop T))
         (i : nat) (g : G.Tree T) (self : bool * list (option nat)) (ms : list CM.move),
  let st := mexec zero (minit cmp limit b h0) ops in
  let fuel := fuel_for (G.Tree_size g) in
  let n := fst (vdec self (G.Tree_Root (G.Tree_root g))) in
  let ps := snd (vdec self (G.Tree_Root (G.Tree_root g))) in
  nth_error (m_trees st) i = Some g ->
  exists Ls, nth_error (mref_exec zero cmp [[]] ops) i = Some Ls /\
    (G.Tree_Root (G.Tree_root g) = VNil <-> Ls = []) /\
    exists pss p0 bs,
      crun (m_heap st) n ps ms fuel = Ok pss /\
      match Ls with
      | [] => p0 = None
      | _ :: _ => exists q, p0 = Some q /\ lo q = O /\ hi q = length Ls
      end /\
      follows (length Ls) p0 ms bs /\
      Forall2 (fun ps' p => exists o, cobserve zero (m_heap st) n ps' fuel = Ok o /\ obs_spec zero Ls p o)
              (ps :: pss) (p0 :: bs).
Proof. exact @cursor_root_source. Qed.
Print Assumptions C03_root_source.

(* Cursor.Clone of any represented cursor (in particular of every cursor the theorems above and
   C03_history_source speak of): the generated function succeeds and its result decodes to the
   SAME (nil flag, path) pair as the receiver -- hence the same moves and observations --; it is
   the receiver pointer itself exactly when the generated Valid answers false. *)
Theorem C03_cursor_clone_source : forall (T : Type) (h : list (G.node T)) (root : option nat)
  (c : CM.cursor) (n : bool) (ps : list (option nat)),
  crepr h root c n ps ->
  exists r, G.Cursor_Clone n ps = Ok r /\ vdec (n, ps) r = (n, ps) /\
            (r = VRecv <-> G.Cursor_Valid n ps = Ok false).
Proof. exact @cursor_clone. Qed.
Print Assumptions C03_cursor_clone_source.

(* ---- the machine runs: tree 1 of the final state of Props/C01_source2.v (a clone that was changed
        after cloning: keys 1, 2, 3, 4 on cells 6, 5, 4, 7) ---- *)
Definition src_st2 : mst (Z * Z) := mexec (0,0) C01_source2.src_init2 C01_source2.src_ops2.
Definition src_g1 : G.Tree (Z * Z) :=
  nth 1 (m_trees src_st2) (G.mk_Tree None 0 C01_source.src_cmp (fun x => x) 0 0).

Example C03_cursor_lookup_source_ex :
  total_preorder C01_source.src_cmp /\ nth_error (m_trees src_st2) 1 = Some src_g1 /\
  G.Tree_Cursor (G.Tree_root src_g1) (G.Tree_compare src_g1) (2,0) (m_heap src_st2) (fuel_for (G.Tree_size src_g1))
    = Ok (VNew (G.mk_Cursor [Some 4; Some 5]%nat)) /\
  s_get C01_source.src_cmp (2,0) [(1,1); (2,9); (3,3); (4,4)] = Some (2,9) /\
  G.Cursor_Key false [Some 4; Some 5]%nat (m_heap src_st2) (0,0) = Ok (2,9) /\
  G.Tree_Cursor (G.Tree_root src_g1) (G.Tree_compare src_g1) (7,0) (m_heap src_st2) (fuel_for (G.Tree_size src_g1))
    = Ok VNil /\
  s_get C01_source.src_cmp (7,0) [(1,1); (2,9); (3,3); (4,4)] = None /\
  crun (m_heap src_st2) false [Some 4; Some 5]%nat [CM.MNext; CM.MNext; CM.MNext; CM.MPrev] (fuel_for (G.Tree_size src_g1))
    = Ok [[Some 4]; [Some 4; Some 7]; []; []]%nat.
Proof. split; [exact C01_source.src_cmp_preorder|]. vm_compute. repeat split. Qed.

Example C03_cursor_lookup_heap_source_ex : (fuel_for (G.Tree_size src_g1) > 2 * 4 + 1)%nat.
Proof. vm_compute. lia. Qed.

Example C03_root_source_ex :
  G.Tree_Root (G.Tree_root src_g1) = VNew (G.mk_Cursor [Some 4%nat]) /\
  vdec (true, []) (G.Tree_Root (G.Tree_root src_g1)) = (false, [Some 4%nat]) /\
  cobserve (0,0) (m_heap src_st2) false [Some 4%nat] (fuel_for (G.Tree_size src_g1)) =
    Ok (CM.mkObs true (3,3) true true true true false [(1,1); (2,9); (3,3); (4,4)]) /\
  G.Tree_Root (G.Tree_root (nth 2 (m_trees src_st2) src_g1)) = VNil.
Proof. vm_compute. repeat split. Qed.

Example C03_cursor_clone_source_ex :
  crepr (m_heap src_st2) (G.Tree_root src_g1) (CM.CAt [CM.L]) false [Some 4; Some 5]%nat /\
  G.Cursor_Clone false [Some 4; Some 5]%nat = Ok (VNew (G.mk_Cursor [Some 4; Some 5]%nat)) /\
  G.Cursor_Clone false [] = Ok VRecv /\ G.Cursor_Clone true [] = Ok VRecv.
Proof.
  split; [|vm_compute; repeat split].
  vm_compute. apply cr_at. eapply pp_cons; [reflexivity|]. apply pp_nil.
Qed.
