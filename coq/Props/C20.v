(* C20 -- byte and string helpers agree with their naive definitions on every input.
   Only statements, each closed by [exact] of a lemma proved in Mbits/ or Mstr/. *)
From Coq Require Import ZArith List Bool Lia.
Import ListNotations.
From Mds Require Import Mbits.BytesBase Mbits.MbitsModel Mbits.MbitsSpec Mbits.MbitsProofs.
From Mds Require Import Mstr.MstrModel Mstr.MstrSpec Mstr.MstrProofsTrunc.
Local Open Scope Z_scope.

(* mbits.Zero on the slice mem[off : off+n], for every memory, every offset (alignment) and every
   length: the result is a normal return (no panic, and no 8-byte access that leaves the slice:
   the model would answer Fault), the memory afterwards is the old one with exactly the bytes of
   the slice set to zero -- everything before and behind it unchanged -- and the value is n. *)
Theorem C20_zero : forall (m : list Z) (off n : Z), slice_ok m off n ->
  zero m off n = Ok (cleared m off n, n).
Proof. exact zero_correct. Qed.
Print Assumptions C20_zero.
Example C20_zero_ex :
  slice_ok [165; 1; 0; 2; 3; 4; 5; 6; 7; 8; 9; 10; 11; 165; 165] 1 12 /\
  zero [165; 1; 0; 2; 3; 4; 5; 6; 7; 8; 9; 10; 11; 165; 165] 1 12
  = Ok ([165; 0; 0; 0; 0; 0; 0; 0; 0; 0; 0; 0; 0; 165; 165], 12).
Proof. split; [unfold slice_ok; cbn; lia | vm_compute; reflexivity]. Qed.

(* mbits.LeadingZeroes / TrailingZeroes on the slice mem[off : off+n] of a memory of bytes: a
   normal return (no panic, no word load that leaves the slice) whose value is the byte-by-byte
   count of zero bytes at the front / at the back of the slice; for every offset and length. *)
Theorem C20_leading_zeroes : forall (m : list Z) (off n : Z), slice_ok m off n -> bytes_ok m ->
  leading_zeroes m off n = Ok (count_leading (window m off n)).
Proof. exact leading_zeroes_correct. Qed.
Print Assumptions C20_leading_zeroes.

Theorem C20_trailing_zeroes : forall (m : list Z) (off n : Z), slice_ok m off n -> bytes_ok m ->
  trailing_zeroes m off n = Ok (count_trailing (window m off n)).
Proof. exact trailing_zeroes_correct. Qed.
Print Assumptions C20_trailing_zeroes.

Example C20_counts_ex :
  let m := [255; 0; 0; 0; 0; 0; 0; 0; 0; 0; 7; 0; 0; 0; 0; 0; 0; 0; 0; 0; 0; 255] in
  slice_ok m 1 20 /\ bytes_ok m /\
  leading_zeroes m 1 20 = Ok 9 /\ trailing_zeroes m 1 20 = Ok 10 /\
  count_leading (window m 1 20) = 9 /\ count_trailing (window m 1 20) = 10.
Proof.
  cbv zeta. split; [unfold slice_ok; cbn; lia|].
  split; [unfold bytes_ok; repeat constructor; lia|].
  repeat split; vm_compute; reflexivity.
Qed.

(* mstr.Trunc(s, n) for every byte string s and every n >= 0: a normal return whose value is a
   prefix of s of at most n bytes, and s itself when n >= len(s). *)
Theorem C20_trunc_prefix : forall (s : list Z) (n : Z), 0 <= n ->
  exists r, trunc s n = Ok r /\ is_prefix r s /\ zlen r <= n /\ (zlen s <= n -> r = s).
Proof. exact trunc_prefix. Qed.
Print Assumptions C20_trunc_prefix.

(* ... and when s is valid UTF-8 (RFC 3629: no overlongs, no surrogates, nothing above U+10FFFF)
   the result is valid UTF-8, and when s is longer than n it is at most 4 bytes (one encoded
   character) shorter than n. *)
Theorem C20_trunc_utf8 : forall (s : list Z) (n : Z), valid_utf8 s -> 0 <= n ->
  exists r, trunc s n = Ok r /\ valid_utf8 r /\ (n < zlen s -> n - 4 <= zlen r).
Proof. exact trunc_utf8. Qed.
Print Assumptions C20_trunc_utf8.

(* the decision procedure the driver evaluates on the implementation's inputs and outputs is
   exactly the RFC 3629 predicate of the two theorems above *)
Theorem C20_valid_utf8_decidable : forall s : list Z, valid_utf8b s = true <-> valid_utf8 s.
Proof. exact valid_utf8b_iff. Qed.
Print Assumptions C20_valid_utf8_decidable.

(* "a" U+00E9 U+20AC U+1F600 "b", cut in the middle of the 4-byte character *)
Example C20_trunc_ex :
  let s := [97; 195; 169; 226; 130; 172; 240; 159; 152; 128; 98] in
  valid_utf8 s /\ trunc s 8 = Ok [97; 195; 169; 226; 130; 172] /\ trunc s 6 = Ok [97; 195; 169] /\ trunc s 11 = Ok s.
Proof.
  cbv zeta. split; [apply valid_utf8b_sound; vm_compute; reflexivity|].
  repeat split; vm_compute; reflexivity.
Qed.

(* ---------------------------------------------------------------- mstr.CompareNatural *)
From Mds Require Import Mstr.MstrProofsNat Mstr.MstrProofsZeros.

(* The order laws, for ALL byte strings (no bound on the digit runs: Go's int overflow is in the
   model, [compare_natural] wraps the accumulator of parseInt to 64 bits).

   CompareNatural(a, b) on all strings is a normal return whose value is the comparison of the
   token keys of a and b with every digit run read through a 64-bit accumulator ([wkey]):
   maximal digit runs as numbers, every other byte as itself, compared lexicographically with a
   proper prefix first; tokens of the same kind by value; a number against a byte: at the first
   token the byte decides (below '0' it sorts before every number, otherwise after), at any later
   token the number sorts first. *)
Theorem C20_compare_all_strings : forall a b : list Z,
  compare_natural a b = Ok (key_cmp (wkey a) (wkey b)).
Proof. exact compare_natural_wkey. Qed.
Print Assumptions C20_compare_all_strings.

(* hence, with no hypothesis: result in {-1, 0, 1} *)
Theorem C20_compare_range : forall a b : list Z,
  exists c, compare_natural a b = Ok c /\ (c = -1 \/ c = 0 \/ c = 1).
Proof. exact compare_natural_range. Qed.
Print Assumptions C20_compare_range.

(* antisymmetric: cmp(b, a) = - cmp(a, b) *)
Theorem C20_compare_antisym : forall a b : list Z,
  exists c, compare_natural a b = Ok c /\ compare_natural b a = Ok (- c).
Proof. exact compare_natural_antisym. Qed.
Print Assumptions C20_compare_antisym.

(* transitive: a <= b and b <= c give a <= c, and a ~ c only if a ~ b ~ c *)
Theorem C20_compare_trans : forall a b c : list Z,
  exists x y z, compare_natural a b = Ok x /\ compare_natural b c = Ok y /\ compare_natural a c = Ok z /\
    (x <= 0 -> y <= 0 -> z <= 0) /\ (x <= 0 -> y <= 0 -> z = 0 -> x = 0 /\ y = 0).
Proof. exact compare_natural_trans. Qed.
Print Assumptions C20_compare_trans.

(* The numeric reading, on the exact domain where a 64-bit int holds every run: [runs_fit s] =
   every maximal digit run of s spells a number below 2^63 (leading zeros do not count).  There
   the value is the comparison of the keys with the runs as mathematical numbers. *)
Theorem C20_compare_natural_key : forall a b : list Z, runs_fit a -> runs_fit b ->
  compare_natural a b = Ok (key_cmp (key a) (key b)).
Proof. exact compare_natural_key. Qed.
Print Assumptions C20_compare_natural_key.

(* the bound of the property text ("runs short enough not to overflow int"): at most 18 digits
   per run is inside that domain *)
Theorem C20_short_runs_fit : forall s : list Z, short_runs s -> runs_fit s.
Proof. exact short_runs_fit. Qed.
Print Assumptions C20_short_runs_fit.

(* 0 exactly when the token keys coincide: the same bytes outside digit runs and digit runs of the
   same numeric value *)
Theorem C20_compare_zero : forall a b : list Z, runs_fit a -> runs_fit b ->
  (compare_natural a b = Ok 0 <-> key a = key b).
Proof. exact compare_natural_zero. Qed.
Print Assumptions C20_compare_zero.

(* ... which is: equal up to leading zeros of digit runs.  [normal_form s] is s with the leading
   zeros of every maximal digit run removed (a run of zeros becoming "0"); that equal keys mean
   equal normal forms is the uniqueness of decimal notation (Mstr/MstrProofsZeros.v). *)
Theorem C20_compare_zero_leading_zeros : forall a b : list Z, runs_fit a -> runs_fit b ->
  (compare_natural a b = Ok 0 <-> normal_form a = normal_form b).
Proof. exact compare_natural_zero_nf. Qed.
Print Assumptions C20_compare_zero_leading_zeros.

(* numeric on digit runs: two non-empty strings of digits whose values fit an int compare as
   their values (any number of leading zeros) *)
Theorem C20_compare_numeric : forall a b : list Z, a <> [] -> b <> [] ->
  forallb digit a = true -> forallb digit b = true -> dec_val a < 2 ^ 63 -> dec_val b < 2 ^ 63 ->
  compare_natural a b = Ok (sgn_cmp (dec_val a) (dec_val b)).
Proof. exact compare_natural_numeric. Qed.
Print Assumptions C20_compare_numeric.

(* Beyond that domain the numeric reading and the "0 exactly for ..." clause are FALSE of the code
   as it stands (its doc comment states no bound): 2^64 = "18446744073709551616" compares equal to
   "0", and 2^63 = "9223372036854775808" (19 digits, the smallest run that does not fit) compares
   below "1".  [compare_natural_wide] is the same model with an accumulator that cannot overflow
   (the only difference: [int_of false] instead of [int_of true] in parseInt); it is the key order
   on ALL strings, and agrees with the code on the domain. *)
Theorem C20_compare_overflow_refuted :
  compare_natural two64 [48] = Ok 0 /\ normal_form two64 <> normal_form [48] /\ key two64 <> key [48] /\
  compare_natural_wide two64 [48] = Ok 1 /\
  compare_natural two63 [49] = Ok (-1) /\ dec_val two63 > dec_val [49] /\
  compare_natural_wide two63 [49] = Ok 1 /\
  ~ runs_fit two63 /\ ~ runs_fit two64.
Proof. exact overflow_refuted. Qed.
Print Assumptions C20_compare_overflow_refuted.

Theorem C20_compare_wide_variant : forall a b : list Z,
  compare_natural_wide a b = Ok (key_cmp (key a) (key b)) /\
  (runs_fit a -> runs_fit b -> compare_natural a b = compare_natural_wide a b).
Proof. exact compare_natural_wide_variant. Qed.
Print Assumptions C20_compare_wide_variant.

(* "a2b" < "a12b" < "a12c", "a007" ~ "a7", "12" < "a", "/" < "12"; a 25-digit run with 22 leading
   zeros is inside the domain (and not [short_runs]); 2^63 - 1 against 2^63 - 2 is decided correctly *)
Example C20_compare_ex :
  runs_fit [97; 50; 98] /\ runs_fit [97; 49; 50; 98] /\
  compare_natural [97; 50; 98] [97; 49; 50; 98] = Ok (-1) /\
  compare_natural [97; 49; 50; 98] [97; 49; 50; 99] = Ok (-1) /\
  compare_natural [97; 48; 48; 55] [97; 55] = Ok 0 /\ key [97; 48; 48; 55] = key [97; 55] /\
  normal_form [97; 48; 48; 55; 47; 48; 48; 48] = [97; 55; 47; 48] /\
  compare_natural [49; 50] [97] = Ok (-1) /\ compare_natural [47] [49; 50] = Ok (-1) /\
  (let z := repeat 48 22 ++ [49; 50; 51] in runs_fit z /\ ~ short_runs z /\ compare_natural z [49; 50; 52] = Ok (-1)) /\
  (let m := [57;50;50;51;51;55;50;48;51;54;56;53;52;55;55;53;56;48] in
   runs_fit (m ++ [55]) /\ compare_natural (m ++ [55]) (m ++ [54]) = Ok 1 /\ wkey (m ++ [56]) <> key (m ++ [56])).
Proof.
  unfold runs_fit, short_runs. cbv zeta.
  repeat split; try (vm_compute; reflexivity); intros H; vm_compute in H; discriminate.
Qed.

(* ================================================================ SUPPLEMENTARY
   Not part of the text of C20: the two remaining exported functions of package mstr, Lines and
   Split (wrappers around strings.Split / strings.TrimSuffix, which are modelled by hand from the
   standard library's documentation and tied to the real ones by the correspondence runs only). *)
From Mds Require Import Mstr.MstrLinesModel Mstr.MstrLinesProofs.

(* Lines of the empty string is nil; for a non-empty s: a non-nil, non-empty list of newline-free
   strings which, joined by newlines, give s without one trailing newline *)
Theorem C20supp_lines : lines [] = Ok Nil /\ forall s : list Z, s <> [] ->
  exists ls, lines s = Ok (Strs ls) /\ ls <> [] /\ join [10] ls = trim_suffix s [10] /\
    Forall (fun l => ~ In 10 l) ls.
Proof. exact lines_all. Qed.
Print Assumptions C20supp_lines.

(* Split of the empty string is nil; for non-empty s and sep: a non-nil, non-empty list which
   joined by sep gives s (for a one-byte sep no piece contains it); with the empty separator:
   pieces of 1 to 4 bytes whose concatenation is s *)
Theorem C20supp_split : (forall sep, split [] sep = Ok Nil) /\
  (forall s sep : list Z, s <> [] -> sep <> [] ->
     exists ps, split s sep = Ok (Strs ps) /\ ps <> [] /\ join sep ps = s /\
       (forall c, sep = [c] -> Forall (fun p => ~ In c p) ps)) /\
  (forall s : list Z, s <> [] ->
     exists ps, split s [] = Ok (Strs ps) /\ concat ps = s /\ Forall (fun p => (1 <= length p <= 4)%nat) ps).
Proof. exact split_all. Qed.
Print Assumptions C20supp_split.

(* a LF LF b LF -> [a; empty; b];  LF -> [empty];  a,b,,c split on the comma;  aaa split on aa =
   [empty; a];  a U+00E9 0xFF exploded = [a; U+00E9; 0xFF] *)
Example C20supp_ex :
  lines [97; 10; 10; 98; 10] = Ok (Strs [[97]; []; [98]]) /\ lines [10] = Ok (Strs [[]]) /\
  split [97; 44; 98; 44; 44; 99] [44] = Ok (Strs [[97]; [98]; []; [99]]) /\
  split [97; 97; 97] [97; 97] = Ok (Strs [[]; [97]]) /\
  split [97; 195; 169; 255] [] = Ok (Strs [[97]; [195; 169]; [255]]).
Proof. repeat split; vm_compute; reflexivity. Qed.
