(* C20 -- byte and string helpers agree with their naive definitions on every input.
   Only statements, each closed by [exact] of a lemma proved in Mbits/ or Mstr/. *)
From Coq Require Import ZArith List Bool Lia.
Import ListNotations.
From Mds Require Import Mbits.BytesBase Mbits.MbitsModel Mbits.MbitsSpec Mbits.MbitsProofs.
Local Open Scope Z_scope.

(* mbits.Zero on the slice mem[off : off+n], for every memory, every offset (alignment) and every
   length: the result is a normal return (no panic, and no 8-byte access that leaves the slice:
   the model would answer Fault), the memory afterwards is the old one with exactly the bytes of
   the slice set to zero -- everything before and behind it unchanged -- and the value is n. *)
Theorem C20_zero : forall (m : list Z) (off n : Z), slice_ok m off n ->
  zero m off n = Ok (cleared m off n, n).
Proof. exact zero_correct. Qed.
Print Assumptions C20_zero.
Example C20_zero_ex :
  slice_ok [165; 1; 0; 2; 3; 4; 5; 6; 7; 8; 9; 10; 11; 165; 165] 1 12 /\
  zero [165; 1; 0; 2; 3; 4; 5; 6; 7; 8; 9; 10; 11; 165; 165] 1 12
  = Ok ([165; 0; 0; 0; 0; 0; 0; 0; 0; 0; 0; 0; 0; 165; 165], 12).
Proof. split; [unfold slice_ok; cbn; lia | vm_compute; reflexivity]. Qed.
