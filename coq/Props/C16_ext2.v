(* C16 -- which observation lists does the extended reference accept?  Only statements; the proofs
   are in Shell/ShellProofsExtUnique.v.

   C16_sessions_ext says the model's observations are accepted; that the reference refuses wrong
   ones was shown by examples.  Here it is a theorem, with its exact limits.  The reference does
   not compare every field ([lat o m]: o and m are equal up to)
     - the flag of an Err observation (the known latitude: Err while scanning with input left),
     - the Text reported with a Next that returns false,
     - the Text reported after Scanner.Split / Each,
   and in the last two the reference remembers the reported text instead of computing it, so an
   accepted list may carry a wrong Text there (Example below).  Everything else is pinned. *)
From Coq Require Import NArith List Bool.
Import ListNotations.
From Mds Require Import Gen.ShellTable Shell.ShellModel Shell.ShellSpec Shell.ShellSession Shell.ShellSessionExt
  Shell.ShellProofsExt Shell.ShellProofsExtUnique.
Local Open Scope N_scope.

(* an accepted observation list is the model's, or the two share a prefix and then differ, at one
   call, only in a field the reference leaves open *)
Theorem C16_sessions_ext_unique : forall (s : list N) (ops : list sc_ope) (outs : list sc_oute),
  session_ok_ext s ops outs = true ->
  outs = run_ext s (new_ext s) ops \/
  exists (pre : list sc_oute) (o m : sc_oute) (t1 t2 : list sc_oute),
    outs = pre ++ o :: t1 /\ run_ext s (new_ext s) ops = pre ++ m :: t2 /\ lat o m /\ o <> m.
Proof. exact session_ext_unique. Qed.
Print Assumptions C16_sessions_ext_unique.

(* with no Err, no Next-false, no Split and no Each observation in it, exactly ONE list is accepted *)
Theorem C16_sessions_ext_unique_strict : forall (s : list N) (ops : list sc_ope) (outs : list sc_oute),
  session_ok_ext s ops outs = true -> forallb pinned_out outs = true ->
  outs = run_ext s (new_ext s) ops.
Proof. exact session_ext_unique_strict. Qed.
Print Assumptions C16_sessions_ext_unique_strict.

(* one call: two accepted observations in the same reference state are equal and lead to the same
   state, or differ in an open field *)
Theorem C16_ref_step_ext_functional :
  forall (s0 : list N) (r : ref_ext) (op : sc_ope) (o m : sc_oute) (r1 r2 : ref_ext),
    ref_step_ext s0 r op o = Some r1 -> ref_step_ext s0 r op m = Some r2 ->
    (o = m /\ r1 = r2) \/ lat o m.
Proof. exact ref_step_ext_functional. Qed.
Print Assumptions C16_ref_step_ext_functional.

(* Non-vacuity.  Input "ab cd": Next (takes "ab" and the blank), Rest with one byte read, Text, a read of
   up to two more bytes, Rest again:
   the strict theorem applies (every observation pinned) and any change to the list is refused.
   And the open fields are real: after the input has run out, Next = false is accepted with ANY
   text, provided the following Text observation repeats it; the model's text there is the last
   word; a text that is not repeated is refused. *)
Example C16_sessions_ext_unique_ex :
  let s := [97; 98; 32; 99; 100] in
  let ops := [EOp XNext; ERestPart 1; EText; EReadMore 2; EOp XRest] in
  let outs := run_ext s (new_ext s) ops in
  outs = [EROut (XRNext true [97; 98] true); ERPart [99]; ERText [] false; ERMore [100]; EROut (XRRest [])] /\
  forallb pinned_out outs = true /\ session_ok_ext s ops outs = true /\
  session_ok_ext s ops [EROut (XRNext true [97; 98] true); ERPart [99]; ERText [] false; ERMore []; EROut (XRRest [100])] = false /\
  (let ops2 := [EOp XNext; EOp XNext; EText] in
   run_ext [97] (new_ext [97]) ops2
     = [EROut (XRNext true [97] true); EROut (XRNext false [97] true); ERText [97] true] /\
   session_ok_ext [97] ops2 [EROut (XRNext true [97] true); EROut (XRNext false [120; 121] true); ERText [120; 121] true] = true /\
   session_ok_ext [97] ops2 [EROut (XRNext true [97] true); EROut (XRNext false [120; 121] true); ERText [97] true] = false).
Proof. vm_compute. repeat split. Qed.
