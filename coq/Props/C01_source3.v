(* C01 / C02 at the level of the GENERATED code, STARTING FROM THE GENERATED CONSTRUCTOR: stree.New
   as the heap backend of the function translator regenerates it on every run (Gen/FnStree.v; tie
   GenTie/StreeTieNew.v, histories GenTie/StreeSourceNew.v).  Only statements, each closed by
   [exact] of a lemma proved there.

   Vocabulary (on top of Props/C01_source.v):
   [G.New β compare keys limitFunc srt cpt h fuel]   the generated New; its three foreign calls are
                     arguments: limitFunc (the package's own, float arithmetic: Gen/FnStreeNew.v,
                     Props/C02_source3.v), srt = slices.SortFunc and cpt = slices.CompactFunc, each
                     handed the pointer list and the comparison closure of the source (which reads
                     the keys THROUGH the pointers in the heap);
   [sort_contract srt]     ASSUMED of slices.SortFunc: on a callback that answers the total preorder
                     cmp on the keys of the elements, it returns a sorted PERMUTATION (stability is
                     not assumed: the code does not rely on it, the surviving representative of a
                     class is the runtime's choice);
   [compact_contract cpt]  ASSUMED of slices.CompactFunc: it returns [compact_spec eq l]: elements
                     equal (eq(element, immediate predecessor)) to their predecessor dropped, the
                     first of each run kept;
   [gnew b keys h0]  New run on the heap h0 with len(keys)+1 units of fuel;
   [grun_tree tr h ops]    a history of the generated methods on the object New returned: they are
                     handed the FIELDS of the record (tr.compare, tr.limit, tr.β; root/size/max are
                     the state);
   [sorted_dedup cmp keys l]   l is strictly ascending, made of given keys, and holds one key of
                     every equivalence class of keys.
   Nothing of package slices is translated: the two contracts are the trusted reading of its
   documentation (both are shown satisfiable below). *)
From Coq Require Import ZArith List Lia Permutation Sorted.
Import ListNotations.
From Mds Require Import Common.FnRt GenTie.StreeTieBase GenTie.StreeSep GenTie.StreeSource
  GenTie.StreeTieNew GenTie.StreeSourceNew.
From Mds Require Import Stree.StreeSpec.
From Mds Require Stree.HeightModel.
Local Open Scope Z_scope.

(* The constructor tie: for every total-preorder comparison, every function handed in as limitFunc,
   SortFunc/CompactFunc with the two contracts, β in 0..1000, every key list, every initial heap and
   fuel > len(keys): an oracle value picks exists that the MODEL's New accepts, and the generated New
   returns the record {root; β; compare; limitFunc β; size; max} with size, max and β the model's,
   on a heap where root represents the model's root (the balanced tree of the kept keys) as a
   tree-shaped region of cells allocated by New; what must NOT change: the cells of h0. *)
Theorem C01_new_is_source : forall (T : Type) (cmp : T -> T -> Z), total_preorder cmp ->
  forall (limitFunc : Z -> Z -> Z)
    (srt : list (option nat) -> (unit -> option nat -> option nat -> res (Z * unit)) -> res (list (option nat)))
    (cpt : list (option nat) -> (unit -> option nat -> option nat -> res (bool * unit)) -> res (list (option nat))),
  @sort_contract T srt -> compact_contract cpt ->
  forall (b : Z) (keys : list T) (h0 : list (G.node T)) (fuel : nat),
  0 <= b <= 1000 -> (fuel > length keys)%nat ->
  exists (picks : list nat) (t : SM.Tree T) (rt : option nat) (h' : list (G.node T)),
    SM.New cmp b keys picks = SM.Ok t /\
    G.New b cmp keys limitFunc srt cpt h0 fuel =
      Ok (G.mk_Tree rt b cmp (limitFunc b) (SM.tsize t) (SM.maxsize t), h') /\
    SM.beta t = b /\
    exists F, trepr h' rt (SM.root t) F /\ (forall k, In k F -> (length h0 <= k)%nat) /\ frame h0 h' [].
Proof. exact @new_is_source. Qed.
Print Assumptions C01_new_is_source.

(* "New panics if β < 0 or β > 1000": the generated New answers the panic of the source with its
   message (before anything is allocated), the model answers Panic; no contract needed. *)
Theorem C01_new_panics_source : forall (T : Type) (cmp : T -> T -> Z) (limitFunc : Z -> Z -> Z)
    (srt : list (option nat) -> (unit -> option nat -> option nat -> res (Z * unit)) -> res (list (option nat)))
    (cpt : list (option nat) -> (unit -> option nat -> option nat -> res (bool * unit)) -> res (list (option nat)))
    (b : Z) (keys : list T) (picks : list nat) (h0 : list (G.node T)) (fuel : nat),
  b < 0 \/ 1000 < b ->
  G.New b cmp keys limitFunc srt cpt h0 fuel = Panic (PMsg "β out of range") /\
  SM.New cmp b keys picks = SM.Panic.
Proof. exact @new_panics_source. Qed.
Print Assumptions C01_new_panics_source.

(* C01 from the generated constructor: New(β, cmp, keys...) succeeds, its size and max fields are the
   number of kept keys, no cell of h0 changed, and EVERY history of
   Add/Replace/Remove/Clear/Get/Min/Max/Len/IsEmpty/Inorder/InorderAfter on the object it returned
   answers what the sorted-list reference answers when started from l, a sorted de-duplication of
   the keys; no step panics or runs out of fuel. *)
Theorem C01_history_source_new : forall (T : Type) (cmp : T -> T -> Z), total_preorder cmp ->
  forall (limitFunc : Z -> Z -> Z)
    (srt : list (option nat) -> (unit -> option nat -> option nat -> res (Z * unit)) -> res (list (option nat)))
    (cpt : list (option nat) -> (unit -> option nat -> option nat -> res (bool * unit)) -> res (list (option nat))),
  @sort_contract T srt -> compact_contract cpt ->
  forall (zero : T) (b : Z) (keys : list T) (h0 : list (G.node T)) (ops : list (sop T)), 0 <= b <= 1000 ->
  exists (tr : G.Tree T) (h : list (G.node T)) (l : list T),
    gnew cmp limitFunc srt cpt b keys h0 = Ok (tr, h) /\ sorted_dedup cmp keys l /\
    G.Tree_size tr = Z.of_nat (length l) /\ G.Tree_max tr = Z.of_nat (length l) /\ G.Tree_β tr = b /\
    frame h0 h [] /\
    grun_tree zero tr h ops = ref_run cmp zero l ops /\
    Forall (fun x => (forall k, x <> GPanic k) /\ x <> GFuel) (grun_tree zero tr h ops).
Proof. exact @history_source_new. Qed.
Print Assumptions C01_history_source_new.

(* ---- non-vacuity: the contracts hold of an insertion sort / the compaction driven by the
        callback; New runs: keys with two duplicates (by key), β = 250, a foreign cell in the heap ---- *)
Definition s3_cmp (a b : Z * Z) : Z := fst a - fst b.
Lemma s3_cmp_preorder : total_preorder s3_cmp.
Proof.
  constructor; unfold s3_cmp; intros.
  - rewrite <- Z.sgn_opp. f_equal. lia.
  - lia.
Qed.
Definition s3_junk : G.node (Z * Z) := G.mk_node (99, 99) (Some 0%nat) None.
Definition s3_keys : list (Z * Z) := [(5,0); (3,1); (8,2); (3,3); (1,4); (5,5); (9,6)].

Example C01_history_source_new_ex :
  total_preorder s3_cmp /\ @sort_contract (Z * Z) sort_cb /\ compact_contract compact_cb /\
  match gnew s3_cmp HeightModel.limit_exact sort_cb compact_cb 250 s3_keys [s3_junk] with
  | Ok (tr, h) =>
    G.Tree_size tr = 5 /\ G.Tree_max tr = 5 /\ G.Tree_root tr = Some 1%nat /\ length h = 8%nat /\
    nth_error h 0 = Some s3_junk /\
    grun_tree (0,0) tr h [SInorder None; SAdd (4,7); SAdd (3,8); SRemove (9,0); SLen; SInorder None] =
      [GList [(1,4); (3,1); (5,0); (8,2); (9,6)]; GBool true; GBool false; GBool true; GInt 5;
       GList [(1,4); (3,1); (4,7); (5,0); (8,2)]]
  | _ => False
  end.
Proof.
  split; [exact s3_cmp_preorder|]. split; [exact sort_contract_ex|]. split; [exact compact_contract_ex|].
  vm_compute. repeat split.
Qed.

Example C01_new_panics_source_ex :
  G.New 1001 s3_cmp s3_keys HeightModel.limit_exact sort_cb compact_cb [s3_junk] 8 = Panic (PMsg "β out of range").
Proof. reflexivity. Qed.
