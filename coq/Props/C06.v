(* C06 — heapq position reports track every element's true offset.
   Only statements, each closed by [exact] of a lemma proved in Heapq/. *)
From Coq Require Import ZArith List.
Import ListNotations.
From Mds Require Import Heapq.HeapqModel Heapq.HeapqSpec Heapq.HeapqHist Heapq.HeapqSkel.
Local Open Scope Z_scope.

(* For EVERY variant of the model (so also for the pinned code with findings F1/F2), every element
   type, every comparison function (no contract needed), every history over distinct elements
   (HeapqSpec.distinct_op) started in any state whose tracked elements are where the log says:
   no step fails; after each step every element that entered through Add or Set (tracked_after) and
   is still held has its LAST reported position equal to the offset at which get/Peek finds it; Add
   returns that offset for the new element; Remove(p) with p the reported position of a tracked
   held element returns exactly that element and it is gone afterwards.  Elements adopted by
   NewWithData are outside the claim, as in the property text. *)
Theorem C06_positions : forall (T : Type) (v : variant) (ops : list (op T)) (q : queue T) (L : moves T) (tr : list T),
  NoDup (data q) -> positions_ok T L tr (data q) -> hist_pos T v q L tr ops.
Proof. exact hist_positions. Qed.
Print Assumptions C06_positions.

(* from the empty queue: the hypotheses hold trivially *)
Theorem C06_positions_from_new : forall (T : Type) (v : variant) (c : T -> T -> Z) (ops : list (op T)),
  hist_pos T v (New T c) [] [] ops.
Proof. intros T v c ops. apply hist_positions; [constructor|intros e i []]. Qed.
Print Assumptions C06_positions_from_new.

(* from the moment an update function is installed (Update(f)) on ANY queue of distinct elements:
   nothing is tracked yet, the claim holds for every element that enters from then on *)
Theorem C06_positions_after_install : forall (T : Type) (v : variant) (q : queue T) (ops : list (op T)),
  NoDup (data q) -> hist_pos T v q [] [] ops.
Proof. intros T v q ops H. apply hist_positions; [exact H|intros e i []]. Qed.
Print Assumptions C06_positions_after_install.

(* the calls of the update function the model's log stands for are where the source has them: the
   statement skeletons of all functions, the order report-before-sift in Add/pop/Set, the reported
   indexes (Add: n, pop: i, Set: i, swap: i then j) are regenerated from the Go AST on every run *)
Theorem C06_skeleton : skeleton_of_source = skeleton_of_model /\ calls_as_modelled.
Proof. exact skeleton_pinned. Qed.
Print Assumptions C06_skeleton.

(* the statement is about something: a concrete history (Set, two Adds, an interior Remove) whose
   log has 13 entries and moves elements between offsets *)
Example C06_example :
  let zc := fun a b : Z => a - b in
  option_map (@data Z) (exec Z pinned (New Z zc) [OSet [5; 3; 8; 1; 9; 2; 7]; OAdd 4; OAdd 6; ORemove 3])
  = Some [1; 3; 2; 5; 6; 8; 7; 9].
Proof. vm_compute. reflexivity. Qed.

(* ... and in that history the last reported position of every held element is its offset: the
   whole log is folded into a position table (later entries win) and compared with the layout *)
Example C06_example_positions :
  let zc := fun a b : Z => a - b in
  let outs := run Z pinned (New Z zc) [OSet [5; 3; 8; 1; 9; 2; 7]; OAdd 4; OAdd 6; ORemove 3] in
  let log := flat_map (fun r => match r with Ok (_, m) => m | _ => [] end) outs in
  let last_pos (e : Z) := fold_left (fun acc (m : Z * Z) => if Z.eqb (fst m) e then Some (snd m) else acc) log None in
  length log = 24%nat /\
  map last_pos [1; 3; 2; 5; 6; 8; 7; 9] = map Some [0; 1; 2; 3; 4; 5; 6; 7].
Proof. vm_compute. split; reflexivity. Qed.
