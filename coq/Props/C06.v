(* C06 — heapq position reports track every element's true offset.
   Only statements, each closed by [exact] of a lemma proved in Heapq/. *)
From Coq Require Import ZArith List.
Import ListNotations.
From Mds Require Import Heapq.HeapqModel Heapq.HeapqSpec Heapq.HeapqHist.
Local Open Scope Z_scope.

(* For EVERY variant of the model (so also for the pinned code with findings F1/F2), every element
   type, every comparison function (no contract needed), every history over distinct elements
   (HeapqSpec.distinct_op) started in any state whose tracked elements are where the log says:
   no step fails; after each step every element that entered through Add or Set (tracked_after) and
   is still held has its LAST reported position equal to the offset at which get/Peek finds it; Add
   returns that offset for the new element; Remove(p) with p the reported position of a tracked
   held element returns exactly that element and it is gone afterwards.  Elements adopted by
   NewWithData are outside the claim, as in the property text. *)
Theorem C06_positions : forall (T : Type) (v : variant) (ops : list (op T)) (q : queue T) (L : moves T) (tr : list T),
  NoDup (data q) -> positions_ok T L tr (data q) -> hist_pos T v q L tr ops.
Proof. exact hist_positions. Qed.
Print Assumptions C06_positions.

(* from the empty queue: the hypotheses hold trivially *)
Theorem C06_positions_from_new : forall (T : Type) (v : variant) (c : T -> T -> Z) (ops : list (op T)),
  hist_pos T v (New T c) [] [] ops.
Proof. intros T v c ops. apply hist_positions; [constructor|intros e i []]. Qed.
Print Assumptions C06_positions_from_new.

(* the statement is about something: a concrete history (Set, two Adds, an interior Remove) whose
   log has 13 entries and moves elements between offsets *)
Example C06_example :
  let zc := fun a b : Z => a - b in
  option_map (@data Z) (exec Z pinned (New Z zc) [OSet [5; 3; 8; 1; 9; 2; 7]; OAdd 4; OAdd 6; ORemove 3])
  = Some [1; 3; 2; 5; 6; 8; 7; 9].
Proof. vm_compute. reflexivity. Qed.
