(* C05 — heapq.Queue always yields a minimum element; contents are conserved.
   Only statements, each closed by [exact] of a lemma proved in Heapq/.
   [variant] carries the known findings F1 (pushUp's parent index) and F2 (pop never sifts up) as
   switches; [pinned] is the code as it is, [repaired] both repaired, [current_variant] is read
   from Gen/HeapqIdx.v on every run. *)
From Coq Require Import ZArith List Permutation Sorted.
Import ListNotations.
From Mds Require Import Heapq.HeapqModel Heapq.HeapqSpec Heapq.HeapqHist.
Local Open Scope Z_scope.

(* Contents, for EVERY variant, every element type, every comparison function (no contract), every
   history from every state: no step fails (no index panic inside the package, no fuel exhaustion);
   after Add the contents are a permutation of the new element plus the old contents and Add's
   result is the offset of the new element; Pop/Remove(i) return what was at offset 0/i and the
   old contents are a permutation of that element plus the new contents; Remove/Peek out of range
   and Pop on empty change nothing; Set/NewWithData hold a permutation of their argument; Reorder
   permutes; Clear/New empty; Peek/Front/Len/IsEmpty/Each answer from the layout and change nothing;
   the comparison changes only through Reorder/New/NewWithData. *)
Theorem C05_conservation : forall (T : Type) (v : variant) (ops : list (op T)) (q : queue T),
  hist T (fun _ _ => True) (fun q o r m q' => conserved T q o r m q' /\ cmp_kept T q o q') v q ops.
Proof. exact hist_conserved. Qed.
Print Assumptions C05_conservation.

Example C05_conservation_example :
  run Z pinned (New Z (fun a b => a - b)) [OAdd 5; OAdd 3; OAdd 3; OPop; ORemove 1; OLen]
  = [Ok (RIdx 0, [(5, 0)]); Ok (RIdx 0, [(3, 1); (5, 1); (3, 0)]); Ok (RIdx 1, [(3, 2); (5, 2); (3, 1)]);
     Ok (RVal (Some 3), [(5, 0); (3, 0); (5, 1)]); Ok (RVal (Some 5), [(5, 1)]); Ok (RNum 1, [])].
Proof. vm_compute. reflexivity. Qed.

(* Remove(i) returns the element Peek(i) showed (same answer, including "none" and the panic). *)
Theorem C05_remove_returns_peek : forall (T : Type) (v : variant) (q : queue T) (i : Z), exists q' r m,
  step T v q (ORemove i) = Ok (q', (r, m)) /\ step T v q (OPeek i) = Ok (q, (r, [])).
Proof. exact remove_returns_peek. Qed.
Print Assumptions C05_remove_returns_peek.

(* Front shows what Pop returns. *)
Theorem C05_pop_returns_front : forall (T : Type) (v : variant) (q : queue T), exists q' r m,
  step T v q OPop = Ok (q', (r, m)) /\ step T v q OFront = Ok (q, (r, [])).
Proof. exact pop_returns_front. Qed.
Print Assumptions C05_pop_returns_front.
