(* C05 — heapq.Queue always yields a minimum element; contents are conserved.
   Only statements, each closed by [exact] of a lemma proved in Heapq/.
   [variant] carries the known findings F1 (pushUp's parent index) and F2 (pop never sifts up) as
   switches; [pinned] is the code as it is, [repaired] both repaired, [current_variant] is read
   from Gen/HeapqIdx.v on every run. *)
From Coq Require Import ZArith List Permutation Sorted.
Import ListNotations.
From Mds Require Import Heapq.HeapqModel Heapq.HeapqSpec Heapq.HeapqHist Heapq.HeapqOrder Heapq.HeapqRepaired
  Heapq.HeapqTriggerSpec Heapq.HeapqTriggers Heapq.HeapqSkel Heapq.HeapqInst Heapq.HeapqInstProofs Heapq.HeapqInt.
Local Open Scope Z_scope.

(* Contents, for EVERY variant, every element type, every comparison function (no contract), every
   history from every state: no step fails (no index panic inside the package, no fuel exhaustion);
   after Add the contents are a permutation of the new element plus the old contents and Add's
   result is the offset of the new element; Pop/Remove(i) return what was at offset 0/i and the
   old contents are a permutation of that element plus the new contents; Remove/Peek out of range
   and Pop on empty change nothing; Set/NewWithData hold a permutation of their argument; Reorder
   permutes; Clear/New empty; Peek/Front/Len/IsEmpty/Each answer from the layout and change nothing;
   the comparison changes only through Reorder/New/NewWithData. *)
Theorem C05_conservation : forall (T : Type) (v : variant) (ops : list (op T)) (q : queue T),
  hist T (fun _ _ => True) (fun q o r m q' => conserved T q o r m q' /\ cmp_kept T q o q') v q ops.
Proof. exact hist_conserved. Qed.
Print Assumptions C05_conservation.

Example C05_conservation_example :
  run Z pinned (New Z (fun a b => a - b)) [OAdd 5; OAdd 3; OAdd 3; OPop; ORemove 1; OLen]
  = [Ok (RIdx 0, [(5, 0)]); Ok (RIdx 0, [(3, 1); (5, 1); (3, 0)]); Ok (RIdx 1, [(3, 2); (5, 2); (3, 1)]);
     Ok (RVal (Some 3), [(5, 0); (3, 0); (5, 1)]); Ok (RVal (Some 5), [(5, 1)]); Ok (RNum 1, [])].
Proof. vm_compute. reflexivity. Qed.

(* Remove(i) returns the element Peek(i) showed (same answer, including "none" and the panic). *)
Theorem C05_remove_returns_peek : forall (T : Type) (v : variant) (q : queue T) (i : Z), exists q' r m,
  step T v q (ORemove i) = Ok (q', (r, m)) /\ step T v q (OPeek i) = Ok (q, (r, [])).
Proof. exact remove_returns_peek. Qed.
Print Assumptions C05_remove_returns_peek.

(* Front shows what Pop returns. *)
Theorem C05_pop_returns_front : forall (T : Type) (v : variant) (q : queue T), exists q' r m,
  step T v q OPop = Ok (q', (r, m)) /\ step T v q OFront = Ok (q, (r, [])).
Proof. exact pop_returns_front. Qed.
Print Assumptions C05_pop_returns_front.

(* heapq.Sort leaves its argument a sorted permutation of the input: every variant (so the pinned
   code too: Sort never calls pushUp and only removes at the root), every comparison satisfying the
   contract, every input list; no failure. *)
Theorem C05_sort : forall (T : Type) (v : variant) (c : T -> T -> Z) (vs : list T), total_preorder T c ->
  exists r, Sort T v c vs = Ok r /\ Permutation r vs /\ Sorted (fun a b => c a b <= 0) r.
Proof. exact sort_sorted_permutation. Qed.
Print Assumptions C05_sort.

Example C05_sort_example : Sort Z pinned zcmp [5; 3; 9; 1; 1; 7; 2] = Ok [1; 1; 2; 3; 5; 7; 9] /\ total_preorder Z zcmp.
Proof. split; [vm_compute; reflexivity|exact zcmp_total_preorder]. Qed.

(* C05, order, FULL STRENGTH — under the repaired switches (parent (i-1)/2; pop also sifts up):
   for every element type, every history whose comparison functions satisfy the contract, started
   from any valid heap (in particular the empty queue): no step fails, the heap invariant is kept,
   and Front and Pop answer with an element minimal under the current comparison among those held. *)
Theorem C05_full_repaired : forall (T : Type) (v : variant),
  parent_halves v = false -> pop_no_siftup v = false ->
  forall (ops : list (op T)) (q : queue T), inv T q -> hist T (fun _ o => op_wf T o) (min_answer T) v q ops.
Proof. exact hist_min_repaired. Qed.
Print Assumptions C05_full_repaired.

(* ... hence draining yields a non-decreasing sequence *)
Theorem C05_drain_sorted_repaired : forall (T : Type) (v : variant),
  parent_halves v = false -> pop_no_siftup v = false ->
  forall (n : nat) (q : queue T), inv T q ->
  Sorted (fun a b => qcmp q a b <= 0) (pop_values T (run T v q (repeat OPop n))).
Proof. exact drain_sorted. Qed.
Print Assumptions C05_drain_sorted_repaired.

Example C05_full_repaired_example :
  inv Z (New Z zcmp) /\
  pop_values Z (run Z repaired (New Z zcmp) ([OAdd 8; OAdd 6; OAdd 7; OAdd 18; OAdd 13; OAdd 19; OAdd 15; ORemove 4] ++ repeat OPop 7))
  = [13; 6; 7; 8; 15; 18; 19].
Proof. split; [split; [exact zcmp_total_preorder|apply HeapqHeap.heap_ok_nil]|vm_compute; reflexivity]. Qed.

(* The same statement is FALSE of the pinned variant (C05_min_refuted_F1/_F2 below).  What is
   proved for EVERY variant, hence for the code as it is, is the statement for every operation
   OUTSIDE THE TRIGGERS of the two findings (HeapqTriggerSpec.v):
     Add(x) at offset n = Len is outside the F1 trigger when  n <= 2,  or n + 1 is a power of two
       (n = 3, 7, 15, ...: pushUp meets only odd indexes, where i/2 is the parent),  or x is neither
       below data[n/2] nor below its true parent data[(n-1)/2] (it stays where it was appended);
       [or the variant has the parent repaired];
     Remove(i) is outside the F2 trigger when  i <= 0,  or i >= Len - 1,  or the last element (the
       one moved into slot i) is not below data[(i-1)/2], the parent of slot i
       [or the variant has both switches repaired];
     Pop, Front, Peek, Set, Reorder, Clear, New, NewWithData, Len, IsEmpty, Each: always.
   First form: from EVERY state, EVERY history (comparison functions keeping New's contract), no
   guard: no step fails; Set/Reorder/Clear/New/NewWithData leave the queue ordered whatever it was;
   a queue of at most one element is ordered; and from an ordered queue an operation outside the
   triggers answers Front/Pop with a minimal held element and leaves the queue ordered.  So Front/Pop
   are minimal wherever no trigger has occurred since the last reset. *)
Theorem C05_min_since_reset : forall (T : Type) (v : variant) (ops : list (op T)) (q : queue T),
  total_preorder T (qcmp q) -> hist_since_reset T v q ops.
Proof. exact hist_since_reset_all. Qed.
Print Assumptions C05_min_since_reset.

(* Second form (guarded): every history all of whose operations are outside the triggers. *)
Theorem C05_min_partial : forall (T : Type) (v : variant) (ops : list (op T)) (q : queue T), inv T q ->
  hist T (fun q o => op_wf T o /\ outside_triggers T v q o) (min_answer T) v q ops.
Proof. exact hist_min_outside_triggers. Qed.
Print Assumptions C05_min_partial.

(* the guard admits: Adds at offsets 0, 1, 2, 3, an in-order Add at offset 4 (9 is not below
   data[2] = 5 nor below data[1] = 2), a Remove(3) whose moved element 9 is not below data[1] *)
Example C05_min_partial_example :
  let q := {| data := [1; 2; 5; 3]; qcmp := zcmp |} in
  pop_values Z (run Z pinned (New Z zcmp) [OAdd 5; OAdd 3; OAdd 2; OAdd 1; OAdd 9; ORemove 3; OPop; OPop; OPop; OPop]) = [3; 1; 2; 5; 9] /\
  option_map (@data Z) (exec Z pinned (New Z zcmp) [OAdd 5; OAdd 3; OAdd 2; OAdd 1]) = Some (data q) /\
  inv Z q /\ add_outside_F1 Z pinned q 9 /\ ~ (len (data q) <= 2) /\
  remove_outside_F2 Z pinned {| data := [1; 2; 5; 3; 9]; qcmp := zcmp |} 3.
Proof.
  split; [vm_compute; reflexivity|]. split; [vm_compute; reflexivity|].
  split; [split; [exact zcmp_total_preorder|]|].
  { apply heap_okb_true. vm_compute. reflexivity. }
  split; [|split; [vm_compute; intros H; apply H; reflexivity|]].
  - right. right. right. intros a b Ha Hb. vm_compute in Ha, Hb. inversion Ha; inversion Hb; subst.
    split; vm_compute; discriminate.
  - right. right. right. split; [reflexivity|]. intros last par Ha Hb. vm_compute in Ha, Hb.
    inversion Ha; inversion Hb; subst. vm_compute. discriminate.
Qed.

(* ... hence a drain of an ordered queue is non-decreasing under EVERY variant (the code as it is):
   in particular after Set/Reorder/NewWithData, or after any history outside the triggers *)
Theorem C05_drain_sorted_ordered : forall (T : Type) (v : variant) (n : nat) (q : queue T), inv T q ->
  Sorted (fun a b => qcmp q a b <= 0) (pop_values T (run T v q (repeat OPop n))).
Proof. exact drain_sorted_any. Qed.
Print Assumptions C05_drain_sorted_ordered.

Example C05_drain_sorted_ordered_example :
  pop_values Z (run Z pinned (New Z zcmp) (OSet [5; 3; 8; 1; 9; 2; 7; 3] :: repeat OPop 9)) = [1; 2; 3; 3; 5; 7; 8; 9].
Proof. vm_compute. reflexivity. Qed.

(* The F2 condition cannot be weakened: under a pop that never sifts up (the pinned code), Remove(i)
   on an ordered queue leaves it ordered IF AND ONLY IF it is outside the trigger. *)
Theorem C05_F2_trigger_exact : forall (T : Type) (v : variant) (q : queue T) (i : Z) (q' : queue T) (r : out T) (m : moves T),
  pop_no_siftup v = true -> inv T q -> 0 <= i < len (data q) ->
  step T v q (ORemove i) = Ok (q', (r, m)) -> (ordered T q' <-> remove_outside_F2 T v q i).
Proof. exact remove_F2_exact. Qed.
Print Assumptions C05_F2_trigger_exact.

(* The index part of the F1 condition cannot be weakened (offsets up to 30): at each offset other
   than 0, 1, 2, 3, 7, 15 the table holds an ordered queue l of that length (Set(l) keeps it) and an
   element x such that the pinned Add(x) loses heap order (f1_breaks). *)
Theorem C05_F1_trigger_exact_small :
  map (fun w => len (fst w)) f1_witnesses = [4; 5; 6; 8; 9; 10; 11; 12; 13; 14; 16; 17; 18; 19; 20; 21; 22; 23; 24; 25; 26; 27; 28; 29; 30] /\
  map (fun w => add_index_safeb (len (fst w))) f1_witnesses = repeat false 25 /\
  map add_index_safeb [0; 1; 2; 3; 7; 15] = repeat true 6 /\
  Forall (f1_breaks pinned) f1_witnesses.
Proof. exact add_F1_exact_small. Qed.
Print Assumptions C05_F1_trigger_exact_small.

(* The pinned switches refute the full statement.  F1 (only Adds and root Pops, so only pushUp's
   parent index is involved): after the history the queue holds [15;13;18;18;19] and Pop answers 15
   although 13 is held.  F2 (no Add at all: Set, one interior Remove, Pops): the queue holds
   [4;3;7;6] and Pop answers 4 although 3 is held. *)
Theorem C05_min_refuted_F1 : pop_not_minimal pinned f1_history 15 13.
Proof. exact f1_refutes. Qed.
Print Assumptions C05_min_refuted_F1.

Theorem C05_min_refuted_F2 : pop_not_minimal pinned f2_history 4 3.
Proof. exact f2_refutes. Qed.
Print Assumptions C05_min_refuted_F2.

(* ... and with both switches repaired the model answers the same histories correctly *)
Example C05_refuted_histories_repaired :
  pop_values Z (run Z repaired (New Z zcmp) (f1_history ++ [OPop])) = [6; 7; 8; 13] /\
  pop_values Z (run Z repaired (New Z zcmp) (f2_history ++ [OPop])) = [5; 1; 2; 3].
Proof. split; [exact f1_repaired_ok|exact f2_repaired_ok]. Qed.

(* The hand-written control skeleton of the model is the one of the source: for each of the 19
   functions of heapq.go its statement skeleton (regenerated from the Go AST on every run) is the
   one the model was transcribed from, and the statement orders / call arguments the model depends
   on are as modelled (HeapqSkel.v).  An added guard, an early return, a dropped or reordered
   statement stops the build here. *)
Theorem C05_skeleton : skeleton_of_source = skeleton_of_model /\ calls_as_modelled.
Proof. exact skeleton_pinned. Qed.
Print Assumptions C05_skeleton.

(* The eight comparison functions of the correspondence runs satisfy New's contract, so the order
   theorems above apply to every generated history. *)
Theorem C05_harness_comparators_lawful : forall code : Z, total_preorder elt (ccmp code).
Proof. exact ccmp_total_preorder. Qed.
Print Assumptions C05_harness_comparators_lawful.

(* Machine integers: the model computes on Z.  heapq.go does arithmetic on ints only to form slice
   indexes (Gen: lchild, lchild_next, rchild, parent, pop_last, set_start, heapify_start_*, the loop
   steps); no caller-supplied int is negated, added or multiplied (Peek/Remove only compare).  For
   a queue of fewer than 2^62 elements every such value fits in int64, so Go computes what Z
   computes; at 2^62+1 elements (zero-size element types only) 2*i+1 leaves the range
   (HeapqInt.index_arithmetic_overflows_at_2_62; the real Set panics there, notes/C05-audit.md).
   All theorems of C05/C06 are about queues of fewer than 2^62 elements. *)
Theorem C05_index_arithmetic_in_range : forall len i : Z, 0 <= i < len -> len <= 2 ^ 62 ->
  0 <= Gen.HeapqIdx.lchild i <= int_max /\ 0 <= Gen.HeapqIdx.lchild_next i <= int_max /\
  (forall lc, 0 <= lc < len -> 0 <= Gen.HeapqIdx.rchild lc <= int_max) /\
  0 <= Gen.HeapqIdx.parent i <= int_max /\
  -1 <= Gen.HeapqIdx.pop_last len <= int_max /\ -1 <= Gen.HeapqIdx.set_start len <= int_max /\
  -1 <= Gen.HeapqIdx.set_next i <= int_max /\
  0 <= Gen.HeapqIdx.heapify_start_new len <= int_max /\ 0 <= Gen.HeapqIdx.heapify_start_reorder len <= int_max /\
  -1 <= Gen.HeapqIdx.heapify_next_new i <= int_max /\ -1 <= Gen.HeapqIdx.heapify_next_reorder i <= int_max.
Proof. exact index_arithmetic_in_range. Qed.
Print Assumptions C05_index_arithmetic_in_range.

(* ... and beyond the bound the statement is FALSE at Go's int width (known finding F14): the
   generated child index 2*i+1 of i = 2^62, evaluated in 64-bit two's complement, is negative;
   Set on 2^62+1 elements of a zero-size type (the comparison is constantly 0, nothing is ever
   swapped, see HeapqInst.zset) reads q.data[-9223372036854775807] in its first pushDown, while with
   unbounded integers it finishes; at exactly 2^62 elements nothing wraps. *)
Theorem C05_int64_refuted_beyond_bound :
  wrap64 (Gen.HeapqIdx.lchild (2 ^ 62)) = -9223372036854775807 /\
  zset64 (2 ^ 62 + 1) = ZIndexPanic (-9223372036854775807) /\
  zset_ideal (2 ^ 62 + 1) = ZOk (2 ^ 62 + 1) /\
  zset64 (2 ^ 62) = ZOk (2 ^ 62).
Proof. exact int64_refuted_beyond_bound. Qed.
Print Assumptions C05_int64_refuted_beyond_bound.
