(* C05 — heapq.Queue always yields a minimum element; contents are conserved.
   Only statements, each closed by [exact] of a lemma proved in Heapq/.
   [variant] carries the known findings F1 (pushUp's parent index) and F2 (pop never sifts up) as
   switches; [pinned] is the code as it is, [repaired] both repaired, [current_variant] is read
   from Gen/HeapqIdx.v on every run. *)
From Coq Require Import ZArith List Permutation Sorted.
Import ListNotations.
From Mds Require Import Heapq.HeapqModel Heapq.HeapqSpec Heapq.HeapqHist Heapq.HeapqOrder Heapq.HeapqRepaired.
Local Open Scope Z_scope.

(* Contents, for EVERY variant, every element type, every comparison function (no contract), every
   history from every state: no step fails (no index panic inside the package, no fuel exhaustion);
   after Add the contents are a permutation of the new element plus the old contents and Add's
   result is the offset of the new element; Pop/Remove(i) return what was at offset 0/i and the
   old contents are a permutation of that element plus the new contents; Remove/Peek out of range
   and Pop on empty change nothing; Set/NewWithData hold a permutation of their argument; Reorder
   permutes; Clear/New empty; Peek/Front/Len/IsEmpty/Each answer from the layout and change nothing;
   the comparison changes only through Reorder/New/NewWithData. *)
Theorem C05_conservation : forall (T : Type) (v : variant) (ops : list (op T)) (q : queue T),
  hist T (fun _ _ => True) (fun q o r m q' => conserved T q o r m q' /\ cmp_kept T q o q') v q ops.
Proof. exact hist_conserved. Qed.
Print Assumptions C05_conservation.

Example C05_conservation_example :
  run Z pinned (New Z (fun a b => a - b)) [OAdd 5; OAdd 3; OAdd 3; OPop; ORemove 1; OLen]
  = [Ok (RIdx 0, [(5, 0)]); Ok (RIdx 0, [(3, 1); (5, 1); (3, 0)]); Ok (RIdx 1, [(3, 2); (5, 2); (3, 1)]);
     Ok (RVal (Some 3), [(5, 0); (3, 0); (5, 1)]); Ok (RVal (Some 5), [(5, 1)]); Ok (RNum 1, [])].
Proof. vm_compute. reflexivity. Qed.

(* Remove(i) returns the element Peek(i) showed (same answer, including "none" and the panic). *)
Theorem C05_remove_returns_peek : forall (T : Type) (v : variant) (q : queue T) (i : Z), exists q' r m,
  step T v q (ORemove i) = Ok (q', (r, m)) /\ step T v q (OPeek i) = Ok (q, (r, [])).
Proof. exact remove_returns_peek. Qed.
Print Assumptions C05_remove_returns_peek.

(* Front shows what Pop returns. *)
Theorem C05_pop_returns_front : forall (T : Type) (v : variant) (q : queue T), exists q' r m,
  step T v q OPop = Ok (q', (r, m)) /\ step T v q OFront = Ok (q, (r, [])).
Proof. exact pop_returns_front. Qed.
Print Assumptions C05_pop_returns_front.

(* heapq.Sort leaves its argument a sorted permutation of the input: every variant (so the pinned
   code too: Sort never calls pushUp and only removes at the root), every comparison satisfying the
   contract, every input list; no failure. *)
Theorem C05_sort : forall (T : Type) (v : variant) (c : T -> T -> Z) (vs : list T), total_preorder T c ->
  exists r, Sort T v c vs = Ok r /\ Permutation r vs /\ Sorted (fun a b => c a b <= 0) r.
Proof. exact sort_sorted_permutation. Qed.
Print Assumptions C05_sort.

Example C05_sort_example : Sort Z pinned zcmp [5; 3; 9; 1; 1; 7; 2] = Ok [1; 1; 2; 3; 5; 7; 9] /\ total_preorder Z zcmp.
Proof. split; [vm_compute; reflexivity|exact zcmp_total_preorder]. Qed.

(* C05, order, FULL STRENGTH — under the repaired switches (parent (i-1)/2; pop also sifts up):
   for every element type, every history whose comparison functions satisfy the contract, started
   from any valid heap (in particular the empty queue): no step fails, the heap invariant is kept,
   and Front and Pop answer with an element minimal under the current comparison among those held. *)
Theorem C05_full_repaired : forall (T : Type) (v : variant),
  parent_halves v = false -> pop_no_siftup v = false ->
  forall (ops : list (op T)) (q : queue T), inv T q -> hist T (fun _ o => op_wf T o) (min_answer T) v q ops.
Proof. exact hist_min_repaired. Qed.
Print Assumptions C05_full_repaired.

(* ... hence draining yields a non-decreasing sequence *)
Theorem C05_drain_sorted_repaired : forall (T : Type) (v : variant),
  parent_halves v = false -> pop_no_siftup v = false ->
  forall (n : nat) (q : queue T), inv T q ->
  Sorted (fun a b => qcmp q a b <= 0) (pop_values T (run T v q (repeat OPop n))).
Proof. exact drain_sorted. Qed.
Print Assumptions C05_drain_sorted_repaired.

Example C05_full_repaired_example :
  inv Z (New Z zcmp) /\
  pop_values Z (run Z repaired (New Z zcmp) ([OAdd 8; OAdd 6; OAdd 7; OAdd 18; OAdd 13; OAdd 19; OAdd 15; ORemove 4] ++ repeat OPop 7))
  = [13; 6; 7; 8; 15; 18; 19].
Proof. split; [split; [exact zcmp_total_preorder|apply HeapqHeap.heap_ok_nil]|vm_compute; reflexivity]. Qed.

(* The same statement is FALSE of the pinned variant (C05_min_refuted_F1/_F2 below).  What is
   proved for EVERY variant, hence for the code as it is: the statement for histories that only ever
   sift down (HeapqSpec.down_only: Add only into an empty queue, Remove only at the root or out of
   range; Set, Reorder, NewWithData, Clear, New, Pop, Front, Peek, Len, IsEmpty, Each unrestricted). *)
Theorem C05_min_partial : forall (T : Type) (v : variant) (ops : list (op T)) (q : queue T), inv T q ->
  hist T (fun q o => op_wf T o /\ down_only T q o) (min_answer T) v q ops.
Proof. exact hist_min_down_only. Qed.
Print Assumptions C05_min_partial.

Example C05_min_partial_example :
  pop_values Z (run Z pinned (New Z zcmp) [OSet [5; 3; 8; 1; 9; 2; 7]; OPop; OReorder (fun a b => zcmp b a); OPop; OFront])
  = [1; 9; 8].
Proof. vm_compute. reflexivity. Qed.

(* The pinned switches refute the full statement.  F1 (only Adds and root Pops, so only pushUp's
   parent index is involved): after the history the queue holds [15;13;18;18;19] and Pop answers 15
   although 13 is held.  F2 (no Add at all: Set, one interior Remove, Pops): the queue holds
   [4;3;7;6] and Pop answers 4 although 3 is held. *)
Theorem C05_min_refuted_F1 : pop_not_minimal pinned f1_history 15 13.
Proof. exact f1_refutes. Qed.
Print Assumptions C05_min_refuted_F1.

Theorem C05_min_refuted_F2 : pop_not_minimal pinned f2_history 4 3.
Proof. exact f2_refutes. Qed.
Print Assumptions C05_min_refuted_F2.

(* ... and with both switches repaired the model answers the same histories correctly *)
Example C05_refuted_histories_repaired :
  pop_values Z (run Z repaired (New Z zcmp) (f1_history ++ [OPop])) = [6; 7; 8; 13] /\
  pop_values Z (run Z repaired (New Z zcmp) (f2_history ++ [OPop])) = [5; 1; 2; 3].
Proof. split; [exact f1_repaired_ok|exact f2_repaired_ok]. Qed.
