(* C16 — shell.Split/Scanner tokenize by POSIX quoting rules.
   Only statements, each closed by [exact] of a lemma of Shell/ShellFinal.v.  The functions are
   those of Shell/ShellModel.v, assembled from the transducer table, byte classes, Complete's state
   set, Next's end-of-input rule, the initial/Rest states AND the control skeleton (what each action
   of Next's switch does with the byte, that Next tests the error latch, clears the token and
   records the read error, what Rest and Reset assign, that Split resets its pooled scanner)
   regenerated from shell/shell.go (Gen/ShellTable.v).  Shell/ShellSkel.v proves that model equal to a
   readable statement-by-statement transcription, over which Shell/ShellProofs16.v and
   Shell/ShellProofsX.v are carried out.
   The reference ([ref_split], [skip_sep], [word], [session_ok], [ref_rest], [tok_outs]) is
   written from the standard in Shell/ShellSpec.v and Shell/ShellSession.v and never mentions the
   table.  Reader fragmentation (bufio) is not in the model: correspondence only. *)
From Coq Require Import NArith List.
Import ListNotations.
From Mds Require Import Gen.ShellTable Shell.ShellModel Shell.ShellSpec Shell.ShellSession Shell.ShellFinal.
Local Open Scope N_scope.

(* Split(s) never panics and returns exactly the fields and the completeness flag of the
   reference tokenizer, for every byte string. *)
Theorem C16_ref : forall s : list N, split s = Some (ref_split s).
Proof. exact split_ref. Qed.
Print Assumptions C16_ref.

(* a b<backslash><space>c <dq>d<backslash><dq>e<dq> <sq>f   (the last quote is left open) *)
Example C16_ref_ex :
  split [97; 32; 98; 92; 32; 99; 32; 34; 100; 92; 34; 101; 34; 32; 39; 102]
  = Some ([[97]; [98; 32; 99]; [100; 34; 101]; [102]], false).
Proof. vm_compute. reflexivity. Qed.

(* Agreement with a POSIX shell on inputs free of other metacharacters and of unquoted newlines.
   [posix_words] (ShellSpec.v; the transcription of XCU 2.2 that C15 uses) accepts a text exactly
   when it has no unquoted special character (so no unquoted newline either), no open quote and no
   dangling backslash, and then returns the words the shell obtains.  For every such text without
   dollar and backquote -- the two characters that stay special inside double quotes, where the
   package keeps the backslash of an escaped dollar while the shell removes it, see the example --
   Split returns exactly those words and reports the input complete.  (bin/dash-shell compares both
   Split and posix_words with /bin/dash and bash --posix on all short strings.) *)
Theorem C16_posix_agree : forall (s : list N) (ws : list (list N)),
  Forall no_dollar s -> posix_words s = Some ws -> split s = Some (ws, true).
Proof. exact split_posix. Qed.
Print Assumptions C16_posix_agree.

Example C16_posix_agree_ex :
  (* a <sq>b c<sq> <dq>d<backslash><dq>e<dq> f<backslash><space>g <backslash><newline> h<backslash><newline>i *)
  posix_words [97; 32; 39; 98; 32; 99; 39; 32; 34; 100; 92; 34; 101; 34; 32; 102; 92; 32; 103; 32; 92; 10; 32; 104; 92; 10; 105]
  = Some [[97]; [98; 32; 99]; [100; 34; 101]; [102; 32; 103]; [104; 105]]
  /\ Forall no_dollar [97; 32; 39; 98; 32; 99; 39; 32; 34; 100; 92; 34; 101; 34; 32; 102; 92; 32; 103; 32; 92; 10; 32; 104; 92; 10; 105]
  (* where the hypothesis is needed: <dq><backslash>$x<dq> is $x to a shell, <backslash>$x to Split *)
  /\ posix_words [34; 92; 36; 120; 34] = Some [[36; 120]]
  /\ split [34; 92; 36; 120; 34] = Some ([[92; 36; 120]], true).
Proof. vm_compute. repeat split; try reflexivity; repeat constructor; discriminate. Qed.

(* ... whatever state the pooled scanner that Split takes was left in (Split resets it). *)
Theorem C16_ref_pooled : forall (sc : scanner) (s : list N), split_from sc s = Some (ref_split s).
Proof. exact split_ref_pooled. Qed.
Print Assumptions C16_ref_pooled.

Example C16_ref_pooled_ex :
  split_from {| inp := [120; 34; 121]; st := stSingle; cur := [122]; eof := true |} [97; 32; 39; 98]
  = Some ([[97]; [98]], false).
Proof. vm_compute. reflexivity. Qed.

(* Whole sessions: for every input and EVERY sequence of Next/Rest calls on a new Scanner, the
   observations (Next's result, Text, Complete after each Next; the bytes read from Rest) are
   accepted by the reference session checker: words and their Complete flags are the
   reference's, Next stays false with unchanged Text/Complete once it was false, Rest yields
   exactly the reference's unconsumed input and kills the scanner. *)
Theorem C16_session : forall (s : list N) (ops : list sc_op),
  session_ok s ops (run_ops (new_scanner s) ops) = true.
Proof. exact session_ref. Qed.
Print Assumptions C16_session.

Example C16_session_ex :   (* a <sq>b  with  Next Next Next Rest Next *)
  run_ops (new_scanner [97; 32; 39; 98]) [ONext; ONext; ONext; ORest; ONext]
  = [RNext true [97] true; RNext true [98] false; RNext false [98] false; RRest []; RNext false [] false]
  /\ session_ok [97; 32; 39; 98] [ONext; ONext; ONext; ORest; ONext]
       [RNext true [97] true; RNext true [98] false; RNext false [98] false; RRest []; RNext false [] false] = true
  /\ session_ok [97; 32; 39; 98] [ONext; ONext; ONext]
       [RNext true [97] true; RNext true [98] true; RNext false [98] true] = false.
Proof. vm_compute. auto. Qed.

(* The same over the whole API: for every input and EVERY sequence of Next, Rest, Err, Reset (to a
   fresh reader of the same input), Scanner.Split and Each (the callback returning false at its
   first, second, ... call, or never) the observations are accepted by [session_okx]
   (ShellSession.v, written with the reference tokenizer only): Scanner.Split and an Each that is not
   stopped return all remaining reference words and leave the scanner at its end with Complete =
   the flag of the last word; an Each stopped at its k-th call has passed exactly the next k words and
   leaves the scanner where k calls of Next leave it (so a following Rest returns the reference's
   remainder); Err is nil while input remains and io.EOF once Next has returned false or Rest was
   called; Reset starts a new session whatever happened before.  Sessions of Next/Rest alone are the
   special case [C16_sessionx_basic]. *)
Theorem C16_sessionx : forall (s : list N) (ops : list sc_opx),
  session_okx s ops (run_opsx s (new_scanner s) ops) = true.
Proof. exact sessionx_ref. Qed.
Print Assumptions C16_sessionx.

Theorem C16_sessionx_no_panic : forall (s : list N) (ops : list sc_opx), ~ In XRPanic (run_opsx s (new_scanner s) ops).
Proof. exact sessionx_no_panic. Qed.
Print Assumptions C16_sessionx_no_panic.

Theorem C16_sessionx_basic : forall (s0 : list N) (ops : list sc_op) (sc : scanner),
  run_opsx s0 sc (map xop ops) = map xout (run_ops sc ops).
Proof. exact run_opsx_basic. Qed.
Print Assumptions C16_sessionx_basic.

Example C16_sessionx_ex :   (* a <sq>b c<sq> d   with  Each-stopped-at-1, Err, Split, Err, Next, Reset, Each-stopped-at-2, Rest *)
  run_opsx [97; 32; 39; 98; 32; 99; 39; 32; 100] (new_scanner [97; 32; 39; 98; 32; 99; 39; 32; 100])
    [XEach 1; XErr; XSplit; XErr; XNext; XReset; XEach 2; XRest]
  = [XREach [[97]] [97] true; XRErr false; XRSplit [[98; 32; 99]; [100]] [100] true; XRErr true;
     XRNext false [100] true; XRReset; XREach [[97]; [98; 32; 99]] [98; 32; 99] true; XRRest [100]]
  /\ session_okx [97; 32; 39; 98] [XSplit] [XRSplit [[97]; [98]] [98] true] = false      (* open quote: Complete must be false *)
  /\ session_okx [97; 32; 98] [XEach 1; XRest] [XREach [[97]] [97] true; XRRest []] = false. (* Rest after a stopped Each must be b *)
Proof. vm_compute. auto. Qed.

(* no call of a session panics (the table covers every state/class pair that can be reached) *)
Theorem C16_no_panic : forall (s : list N) (ops : list sc_op), ~ In RPanic (run_ops (new_scanner s) ops).
Proof. exact session_no_panic. Qed.
Print Assumptions C16_no_panic.

(* Stops permanently: from ANY scanner state, once Next has returned false every later Next
   returns false, with Text and Complete unchanged. *)
Theorem C16_sticky : forall sc sc' : scanner, next sc = Some (sc', false) ->
  forall n, run_ops sc' (repeat ONext n) = repeat (RNext false (text sc') (complete sc')) n.
Proof. exact next_sticky. Qed.
Print Assumptions C16_sticky.

Example C16_sticky_ex :
  run_ops (new_scanner [97; 32]) [ONext; ONext; ONext; ONext]
  = [RNext true [97] true; RNext false [] true; RNext false [] true; RNext false [] true].
Proof. vm_compute. reflexivity. Qed.

(* Rest after k calls of Next returns exactly the input the reference tokenizer has not consumed
   after k words ([ref_rest k s]: the bytes following the separator that ended the k-th word);
   every later Next is false with empty Text and Complete false, every later Rest is empty. *)
Theorem C16_rest : forall (s : list N) (k : nat) (ops : list sc_op),
  run_ops (new_scanner s) (repeat ONext k ++ ORest :: ops) =
  run_ops (new_scanner s) (repeat ONext k) ++ RRest (ref_rest k s) :: map dead ops.
Proof. exact rest_after_k. Qed.
Print Assumptions C16_rest.

(* ... and that remainder is a suffix of the input: consumed ++ Rest = input, where the consumed
   prefix ALONE already yields the same k observations (tokens, Complete flags, end of input):
   nothing the k calls reported depends on the bytes Rest hands back, and nothing is lost. *)
Theorem C16_rest_consumed : forall (s : list N) (k : nat), exists consumed,
  s = consumed ++ ref_rest k s /\
  run_ops (new_scanner consumed) (repeat ONext k) = run_ops (new_scanner s) (repeat ONext k).
Proof. exact rest_consumed. Qed.
Print Assumptions C16_rest_consumed.

Example C16_rest_consumed_ex :   (* a<backslash><space>b<space> is what the first Next consumed *)
  [97; 92; 32; 98; 32; 32; 99; 32; 100] = [97; 92; 32; 98; 32] ++ ref_rest 1 [97; 92; 32; 98; 32; 32; 99; 32; 100]
  /\ run_ops (new_scanner [97; 92; 32; 98; 32]) [ONext] = [RNext true [97; 32; 98] true].
Proof. vm_compute. auto. Qed.

(* The same in terms of the model's scanner: k calls of Next never panic; the scanner they leave
   holds an unread input [inp sc] such that (bytes consumed so far) ++ inp sc = input, that unread
   input is the reference's [ref_rest k s], and Rest returns exactly it and kills the scanner. *)
Theorem C16_rest_model : forall (s : list N) (k : nat), exists sc consumed,
  run_sc (new_scanner s) (repeat ONext k) = Some sc /\
  s = consumed ++ inp sc /\ inp sc = ref_rest k s /\
  forall ops, run_ops sc (ORest :: ops) = RRest (inp sc) :: map dead ops.
Proof. exact rest_model. Qed.
Print Assumptions C16_rest_model.

(* from ANY scanner state, Rest hands back the whole unread input and kills the scanner *)
Theorem C16_rest_any : forall (sc : scanner) (ops : list sc_op),
  run_ops sc (ORest :: ops) = RRest (inp sc) :: map dead ops.
Proof. exact rest_then_dead. Qed.
Print Assumptions C16_rest_any.

Example C16_rest_ex :    (* a<backslash><space>b<space><space>c<space>d : after one Next, Rest is <space>c<space>d (one separator consumed) *)
  run_ops (new_scanner [97; 92; 32; 98; 32; 32; 99; 32; 100]) [ONext; ORest; ONext; ORest]
  = [RNext true [97; 32; 98] true; RRest [32; 99; 32; 100]; RNext false [] false; RRest []]
  /\ ref_rest 1 [97; 92; 32; 98; 32; 32; 99; 32; 100] = [32; 99; 32; 100].
Proof. vm_compute. auto. Qed.

(* Tokens and Complete: n successive Next calls report the reference's fields in order, each
   with Complete = true except the last, whose Complete is the reference's flag (the final token
   closed its quotes); after them Next is false for ever, with one unchanging Text and
   Complete still equal to that flag. *)
Theorem C16_complete : forall s : list N, exists t, forall n,
  run_ops (new_scanner s) (repeat ONext n) =
  firstn n (tok_outs (fst (ref_split s)) (snd (ref_split s)) ++ repeat (RNext false t (snd (ref_split s))) n).
Proof. exact next_tokens. Qed.
Print Assumptions C16_complete.

Example C16_complete_ex :   (* x <dq>y   : the last word never closes its quote *)
  ref_split [120; 32; 34; 121] = ([[120]; [121]], false) /\
  run_ops (new_scanner [120; 32; 34; 121]) (repeat ONext 4)
  = [RNext true [120] true; RNext true [121] false; RNext false [121] false; RNext false [121] false].
Proof. vm_compute. auto. Qed.
