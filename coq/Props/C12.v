(* C12 — LCS, LIS and LNDS return optimal subsequences.
   Only statements, each closed by [exact] of a lemma proved elsewhere. *)
From Coq Require Import ZArith List Bool.
Import ListNotations.
From Mds Require Import Slice.Subseq Slice.LcsModel Slice.LcsProofs.

(* LCSFunc under any equivalence: a result is always returned (no panic, fuel suffices); it is a
   common subsequence (up to eqb) of both arguments; no common subsequence is longer. *)
Theorem C12_lcs_optimal :
  forall (T : Type) (eqb : T -> T -> bool),
    (forall x, eqb x x = true) ->
    (forall x y, eqb x y = true -> eqb y x = true) ->
    (forall x y z, eqb x y = true -> eqb y z = true -> eqb x z = true) ->
    forall l r : list T, exists s,
      lcs_func T eqb l r = Some s /\ CommonSubseq eqb s l r /\
      forall t, CommonSubseq eqb t l r -> (length t <= length s)%nat.
Proof. exact lcs_func_is_optimum. Qed.
Print Assumptions C12_lcs_optimal.

Example C12_lcs_optimal_witness :
  lcs_func Z Z.eqb [1; 2; 2; 3; 1; 2]%Z [2; 1; 2; 1; 3]%Z = Some [2; 1; 2]%Z
  /\ (forall x, Z.eqb x x = true)
  /\ (forall x y, Z.eqb x y = true -> Z.eqb y x = true)
  /\ (forall x y z, Z.eqb x y = true -> Z.eqb y z = true -> Z.eqb x z = true).
Proof.
  split; [vm_compute; reflexivity|]. repeat split; intros.
  - apply Z.eqb_refl.
  - now rewrite Z.eqb_sym.
  - apply Z.eqb_eq in H, H0. subst. apply Z.eqb_refl.
Qed.

(* Which elements are returned, for any test at all: exact elements of the shorter input (first
   argument on equal lengths), each matching the other input under eqb in order; nil result
   exactly on an empty input. *)
Theorem C12_lcs_exact_side :
  forall (T : Type) (eqb : T -> T -> bool) (l r s : list T),
    lcs_func T eqb l r = Some s ->
    (let (xs, ys) := lcs_swap T l r in Subseq s xs /\ SubseqB eqb s ys)
    /\ (lcs_is_nil T l r = true -> s = []).
Proof.
  intros T eqb l r s H. split; [exact (lcs_func_exact T eqb l r s H)|].
  intros Hn. pose proof (lcs_func_nil T eqb l r Hn) as E. congruence.
Qed.
Print Assumptions C12_lcs_exact_side.

Example C12_lcs_exact_side_witness :
  (* keys compared modulo 10: the result carries the elements of the shorter input *)
  let eqb := fun a b : Z => Z.eqb (a mod 10) (b mod 10) in
  lcs_func Z eqb [11; 22; 13]%Z [21; 31; 42; 52]%Z = Some [11; 22]%Z
  /\ lcs_swap Z [11; 22; 13]%Z [21; 31; 42; 52]%Z = ([11; 22; 13], [21; 31; 42; 52])%Z.
Proof. vm_compute. split; reflexivity. Qed.
