(* C12 — LCS, LIS and LNDS return optimal subsequences.
   Only statements, each closed by [exact] of a lemma proved elsewhere. *)
From Coq Require Import ZArith List Bool Lia.
Import ListNotations.
From Mds Require Import Slice.Subseq Slice.LcsModel Slice.LcsProofs.
From Mds Require Import Slice.LisModel Slice.LisSpec Slice.LisProofs.
From Mds Require Import Slice.LcsSpec Slice.LcsSpecProofs Slice.LisSpecProofs.

(* LCSFunc under any equivalence: a result is always returned (no panic, fuel suffices); it is a
   common subsequence (up to eqb) of both arguments; no common subsequence is longer. *)
Theorem C12_lcs_optimal :
  forall (T : Type) (eqb : T -> T -> bool),
    (forall x, eqb x x = true) ->
    (forall x y, eqb x y = true -> eqb y x = true) ->
    (forall x y z, eqb x y = true -> eqb y z = true -> eqb x z = true) ->
    forall l r : list T, exists s,
      lcs_func T eqb l r = Some s /\ CommonSubseq eqb s l r /\
      forall t, CommonSubseq eqb t l r -> (length t <= length s)%nat.
Proof. exact lcs_func_is_optimum. Qed.
Print Assumptions C12_lcs_optimal.

(* (an input whose longest common subsequence is unique, so the example does not depend on the
   tie rule) *)
Example C12_lcs_optimal_witness :
  lcs_func Z Z.eqb [1; 2; 2; 3]%Z [2; 2; 1; 3]%Z = Some [2; 2; 3]%Z
  /\ (forall x, Z.eqb x x = true)
  /\ (forall x y, Z.eqb x y = true -> Z.eqb y x = true)
  /\ (forall x y z, Z.eqb x y = true -> Z.eqb y z = true -> Z.eqb x z = true).
Proof.
  split; [vm_compute; reflexivity|]. repeat split; intros.
  - apply Z.eqb_refl.
  - now rewrite Z.eqb_sym.
  - apply Z.eqb_eq in H, H0. subst. apply Z.eqb_refl.
Qed.

(* Which elements are returned, for any test at all: exact elements of the shorter input (first
   argument on equal lengths), each matching the other input under eqb in order; nil result
   exactly on an empty input. *)
Theorem C12_lcs_exact_side :
  forall (T : Type) (eqb : T -> T -> bool) (l r s : list T),
    lcs_func T eqb l r = Some s ->
    (let (xs, ys) := lcs_swap T l r in Subseq s xs /\ SubseqB eqb s ys)
    /\ (lcs_is_nil T l r = true -> s = []).
Proof.
  intros T eqb l r s H. split; [exact (lcs_func_exact T eqb l r s H)|].
  intros Hn. pose proof (lcs_func_nil T eqb l r Hn) as E. congruence.
Qed.
Print Assumptions C12_lcs_exact_side.

Example C12_lcs_exact_side_witness :
  (* keys compared modulo 10: the result carries the elements of the shorter input *)
  let eqb := fun a b : Z => Z.eqb (a mod 10) (b mod 10) in
  lcs_func Z eqb [11; 22; 13]%Z [21; 31; 42; 52]%Z = Some [11; 22]%Z
  /\ lcs_swap Z [11; 22; 13]%Z [21; 31; 42; 52]%Z = ([11; 22; 13], [21; 31; 42; 52])%Z.
Proof. vm_compute. split; reflexivity. Qed.

(* ---------------- LNDS / LIS ---------------- *)

(* [ordered_b T cmp strict s]: every element of s is followed by one that compares greater
   (strict = true: cmp u v < 0) resp. not smaller (strict = false: cmp u v <= 0).
   Assumed of cmp: a three-way comparison of a total preorder -- swapping the arguments flips
   the sign of the result, and "<= 0" is transitive.  Any magnitudes are allowed. *)

(* LNDSFunc: a result is always returned (no panic, fuel suffices); it is a subsequence of the
   input, non-decreasing, and no non-decreasing subsequence of the input is longer. *)
Theorem C12_lnds_optimal :
  forall (T : Type) (cmp : T -> T -> Z),
    (forall a b, Z.sgn (cmp b a) = - Z.sgn (cmp a b))%Z ->
    (forall a b c, cmp a b <= 0 -> cmp b c <= 0 -> cmp a c <= 0)%Z ->
    forall vs : list T, exists s,
      lnds_func T cmp vs = Some s /\ Subseq s vs /\ ordered_b T cmp false s = true /\
      forall t, Subseq t vs -> ordered_b T cmp false t = true -> (length t <= length s)%nat.
Proof. exact lnds_func_optimal. Qed.
Print Assumptions C12_lnds_optimal.

Example C12_lnds_optimal_witness :
  lnds_func Z Z.sub [3; 1; 2; 2; 5; 4; 4; 1; 6]%Z = Some [1; 2; 2; 4; 4; 6]%Z
  /\ (forall a b, Z.sgn (b - a) = - Z.sgn (a - b))%Z
  /\ (forall a b c, a - b <= 0 -> b - c <= 0 -> a - c <= 0)%Z.
Proof.
  split; [vm_compute; reflexivity|]. split; intros.
  - rewrite <- Z.sgn_opp. f_equal. lia.
  - lia.
Qed.

(* LISFunc: the same with strictly increasing. *)
Theorem C12_lis_optimal :
  forall (T : Type) (cmp : T -> T -> Z),
    (forall a b, Z.sgn (cmp b a) = - Z.sgn (cmp a b))%Z ->
    (forall a b c, cmp a b <= 0 -> cmp b c <= 0 -> cmp a c <= 0)%Z ->
    forall vs : list T, exists s,
      lis_func T cmp vs = Some s /\ Subseq s vs /\ ordered_b T cmp true s = true /\
      forall t, Subseq t vs -> ordered_b T cmp true t = true -> (length t <= length s)%nat.
Proof. exact lis_func_optimal. Qed.
Print Assumptions C12_lis_optimal.

Example C12_lis_optimal_witness :
  (* reversed comparison: the longest strictly DEcreasing subsequence *)
  let cmp := fun a b : Z => (b - a)%Z in
  lis_func Z cmp [3; 1; 2; 2; 5; 4; 4; 1; 6]%Z = Some [5; 4; 1]%Z
  /\ (forall a b, Z.sgn (cmp b a) = - Z.sgn (cmp a b))%Z
  /\ (forall a b c, cmp a b <= 0 -> cmp b c <= 0 -> cmp a c <= 0)%Z.
Proof.
  cbv zeta. split; [vm_compute; reflexivity|]. split; intros.
  - rewrite <- Z.sgn_opp. f_equal. lia.
  - lia.
Qed.

(* ---------------- the independent reference ---------------- *)
(* The OCaml driver judges the implementation's own outputs with [subseq_b], [ordered_b],
   [lcs_len_ref] and [lis_len_ref] (LcsSpec.v, LisSpec.v: a length-only table, a quadratic
   table).  These theorems say that the reference means "the optimum" and that the models'
   results have exactly that length -- the wording of the property. *)

Theorem C12_lcs_length_is_reference :
  forall (T : Type) (eqb : T -> T -> bool),
    (forall x, eqb x x = true) ->
    (forall x y, eqb x y = true -> eqb y x = true) ->
    (forall x y z, eqb x y = true -> eqb y z = true -> eqb x z = true) ->
    forall l r s, lcs_func T eqb l r = Some s -> length s = lcs_len_ref T eqb l r.
Proof. exact lcs_func_length_is_ref. Qed.
Print Assumptions C12_lcs_length_is_reference.

Example C12_lcs_length_is_reference_witness :
  lcs_func Z Z.eqb [1; 2; 2; 3]%Z [2; 2; 1; 3]%Z = Some [2; 2; 3]%Z
  /\ lcs_len_ref Z Z.eqb [1; 2; 2; 3]%Z [2; 2; 1; 3]%Z = 3%nat.
Proof. vm_compute. split; reflexivity. Qed.

Theorem C12_lnds_length_is_reference :
  forall (T : Type) (cmp : T -> T -> Z),
    (forall a b, Z.sgn (cmp b a) = - Z.sgn (cmp a b))%Z ->
    (forall a b c, cmp a b <= 0 -> cmp b c <= 0 -> cmp a c <= 0)%Z ->
    forall vs s, lnds_func T cmp vs = Some s -> length s = lis_len_ref T cmp false vs.
Proof. exact lnds_func_length_is_ref. Qed.
Print Assumptions C12_lnds_length_is_reference.

Example C12_lnds_length_is_reference_witness :
  lis_len_ref Z Z.sub false [3; 1; 2; 2; 5; 4; 4; 1; 6]%Z = 6%nat.
Proof. vm_compute. reflexivity. Qed.

Theorem C12_lis_length_is_reference :
  forall (T : Type) (cmp : T -> T -> Z),
    (forall a b, Z.sgn (cmp b a) = - Z.sgn (cmp a b))%Z ->
    (forall a b c, cmp a b <= 0 -> cmp b c <= 0 -> cmp a c <= 0)%Z ->
    forall vs s, lis_func T cmp vs = Some s -> length s = lis_len_ref T cmp true vs.
Proof. exact lis_func_length_is_ref. Qed.
Print Assumptions C12_lis_length_is_reference.

Example C12_lis_length_is_reference_witness :
  lis_len_ref Z Z.sub true [3; 1; 2; 2; 5; 4; 4; 1; 6]%Z = 4%nat.
Proof. vm_compute. reflexivity. Qed.

(* What the reference functions compute, with no law on eqb / cmp at all: the greedy test decides
   "subsequence up to eqb"; lcs_len_ref is the largest length of an exact subsequence of l that
   matches a subsequence of r; lis_len_ref is the largest length of an ordered subsequence. *)
Theorem C12_reference_meaning :
  (forall (T : Type) (eqb : T -> T -> bool) s l,
      subseq_b T eqb s l = true <-> SubseqB eqb s l)
  /\ (forall (T : Type) (eqb : T -> T -> bool) l r,
      (exists u, Subseq u l /\ SubseqB eqb u r /\ length u = lcs_len_ref T eqb l r) /\
      (forall u, Subseq u l -> SubseqB eqb u r -> (length u <= lcs_len_ref T eqb l r)%nat))
  /\ (forall (T : Type) (cmp : T -> T -> Z) (strict : bool) vs,
      (exists t, Subseq t vs /\ ordered_b T cmp strict t = true
                 /\ length t = lis_len_ref T cmp strict vs) /\
      (forall t, Subseq t vs -> ordered_b T cmp strict t = true ->
                 (length t <= lis_len_ref T cmp strict vs)%nat)).
Proof.
  split; [exact subseq_b_iff|]. split; [exact lcs_len_ref_optimal | exact lis_len_ref_optimal].
Qed.
Print Assumptions C12_reference_meaning.

Example C12_reference_meaning_witness :
  subseq_b Z Z.eqb [2; 3]%Z [1; 2; 2; 3]%Z = true /\ subseq_b Z Z.eqb [3; 2]%Z [1; 2; 2; 3]%Z = false.
Proof. vm_compute. split; reflexivity. Qed.
