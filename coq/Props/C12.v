(* C12 — LCS, LIS and LNDS return optimal subsequences.
   Only statements, each closed by [exact] of a lemma proved elsewhere. *)
From Coq Require Import ZArith List Bool Lia.
Import ListNotations.
From Mds Require Import Slice.Subseq Slice.LcsModel Slice.LcsProofs.
From Mds Require Import Slice.LisModel Slice.LisSpec Slice.LisProofs.
From Mds Require Import Slice.LcsSpec Slice.LcsSpecProofs Slice.LisSpecProofs.
From Mds Require Gen.LisIdx.

(* LCSFunc under any equivalence: a result is always returned (no panic, fuel suffices); it is a
   common subsequence (up to eqb) of both arguments; no common subsequence is longer. *)
Theorem C12_lcs_optimal :
  forall (T : Type) (eqb : T -> T -> bool),
    (forall x, eqb x x = true) ->
    (forall x y, eqb x y = true -> eqb y x = true) ->
    (forall x y z, eqb x y = true -> eqb y z = true -> eqb x z = true) ->
    forall l r : list T, exists s,
      lcs_func T eqb l r = Some s /\ CommonSubseq eqb s l r /\
      forall t, CommonSubseq eqb t l r -> (length t <= length s)%nat.
Proof. exact lcs_func_is_optimum. Qed.
Print Assumptions C12_lcs_optimal.

(* (an input whose longest common subsequence is unique, so the example does not depend on the
   tie rule) *)
Example C12_lcs_optimal_witness :
  lcs_func Z Z.eqb [1; 2; 2; 3]%Z [2; 2; 1; 3]%Z = Some [2; 2; 3]%Z
  /\ (forall x, Z.eqb x x = true)
  /\ (forall x y, Z.eqb x y = true -> Z.eqb y x = true)
  /\ (forall x y z, Z.eqb x y = true -> Z.eqb y z = true -> Z.eqb x z = true).
Proof.
  split; [vm_compute; reflexivity|]. repeat split; intros.
  - apply Z.eqb_refl.
  - now rewrite Z.eqb_sym.
  - apply Z.eqb_eq in H, H0. subst. apply Z.eqb_refl.
Qed.

(* Which elements are returned, for any test at all: exact elements of the shorter input (first
   argument on equal lengths), each matching the other input under eqb in order; nil result
   exactly on an empty input. *)
Theorem C12_lcs_exact_side :
  forall (T : Type) (eqb : T -> T -> bool) (l r s : list T),
    lcs_func T eqb l r = Some s ->
    (let (xs, ys) := lcs_swap T l r in Subseq s xs /\ SubseqB eqb s ys)
    /\ (lcs_is_nil T l r = true -> s = []).
Proof.
  intros T eqb l r s H. split; [exact (lcs_func_exact T eqb l r s H)|].
  intros Hn. pose proof (lcs_func_nil T eqb l r Hn) as E. congruence.
Qed.
Print Assumptions C12_lcs_exact_side.

Example C12_lcs_exact_side_witness :
  (* keys compared modulo 10: the result carries the elements of the shorter input *)
  let eqb := fun a b : Z => Z.eqb (a mod 10) (b mod 10) in
  lcs_func Z eqb [11; 22; 13]%Z [21; 31; 42; 52]%Z = Some [11; 22]%Z
  /\ lcs_swap Z [11; 22; 13]%Z [21; 31; 42; 52]%Z = ([11; 22; 13], [21; 31; 42; 52])%Z.
Proof. vm_compute. split; reflexivity. Qed.

(* LCSFunc with ANY boolean test, no law at all (== on floats is not reflexive at NaN; a test
   need not be symmetric): a result is always returned; it is an element-identical subsequence of
   the shorter input xs (the first argument on equal lengths), matches a subsequence of the other
   input ys under the test called as eqb x y (x from xs: the argument order of the code), nothing
   with these two properties is longer, and its length is the reference optimum of (xs, ys). *)
Theorem C12_lcs_any_test :
  forall (T : Type) (eqb : T -> T -> bool) (l r : list T), exists s,
    lcs_func T eqb l r = Some s /\
    let (xs, ys) := lcs_swap T l r in
    Subseq s xs /\ SubseqB eqb s ys /\
    (forall u, Subseq u xs -> SubseqB eqb u ys -> (length u <= length s)%nat) /\
    length s = lcs_len_ref T eqb xs ys.
Proof. exact lcs_func_any_test. Qed.
Print Assumptions C12_lcs_any_test.

Example C12_lcs_any_test_witness :
  (* an asymmetric test (x <= y), called with the elements of the shorter (here: first) input on
     the left; and a test that is not reflexive at 9 (as == at NaN).  (With the arguments
     exchanged, [5;1;4;2] [3;6;0], the code swaps them back and returns the same [3;0].) *)
  lcs_func Z Z.leb [3; 6; 0]%Z [5; 1; 4; 2]%Z = Some [3; 0]%Z
  /\ lcs_func Z (fun a b => Z.eqb a b && negb (Z.eqb a 9)) [9; 1; 9; 2]%Z [9; 9; 1; 2; 7]%Z = Some [1; 2]%Z.
Proof. vm_compute. repeat split; reflexivity. Qed.

(* ---------------- LNDS / LIS ---------------- *)

(* [ordered_b T cmp strict s]: every element of s is followed by one that compares greater
   (strict = true: cmp u v < 0) resp. not smaller (strict = false: cmp u v <= 0).
   Assumed of cmp: a three-way comparison of a total preorder -- swapping the arguments flips
   the sign of the result, and "<= 0" is transitive.  Any magnitudes are allowed. *)

(* LNDSFunc: a result is always returned (no panic, fuel suffices); it is a subsequence of the
   input, non-decreasing, and no non-decreasing subsequence of the input is longer. *)
Theorem C12_lnds_optimal :
  forall (T : Type) (cmp : T -> T -> Z),
    (forall a b, Z.sgn (cmp b a) = - Z.sgn (cmp a b))%Z ->
    (forall a b c, cmp a b <= 0 -> cmp b c <= 0 -> cmp a c <= 0)%Z ->
    forall vs : list T, exists s,
      lnds_func T cmp vs = Some s /\ Subseq s vs /\ ordered_b T cmp false s = true /\
      forall t, Subseq t vs -> ordered_b T cmp false t = true -> (length t <= length s)%nat.
Proof. exact lnds_func_optimal. Qed.
Print Assumptions C12_lnds_optimal.

Example C12_lnds_optimal_witness :
  lnds_func Z Z.sub [3; 1; 2; 2; 5; 4; 4; 1; 6]%Z = Some [1; 2; 2; 4; 4; 6]%Z
  /\ (forall a b, Z.sgn (b - a) = - Z.sgn (a - b))%Z
  /\ (forall a b c, a - b <= 0 -> b - c <= 0 -> a - c <= 0)%Z.
Proof.
  split; [vm_compute; reflexivity|]. split; intros.
  - rewrite <- Z.sgn_opp. f_equal. lia.
  - lia.
Qed.

(* LISFunc: the same with strictly increasing. *)
Theorem C12_lis_optimal :
  forall (T : Type) (cmp : T -> T -> Z),
    (forall a b, Z.sgn (cmp b a) = - Z.sgn (cmp a b))%Z ->
    (forall a b c, cmp a b <= 0 -> cmp b c <= 0 -> cmp a c <= 0)%Z ->
    forall vs : list T, exists s,
      lis_func T cmp vs = Some s /\ Subseq s vs /\ ordered_b T cmp true s = true /\
      forall t, Subseq t vs -> ordered_b T cmp true t = true -> (length t <= length s)%nat.
Proof. exact lis_func_optimal. Qed.
Print Assumptions C12_lis_optimal.

Example C12_lis_optimal_witness :
  (* reversed comparison: the longest strictly DEcreasing subsequence *)
  let cmp := fun a b : Z => (b - a)%Z in
  lis_func Z cmp [3; 1; 2; 2; 5; 4; 4; 1; 6]%Z = Some [5; 4; 1]%Z
  /\ (forall a b, Z.sgn (cmp b a) = - Z.sgn (cmp a b))%Z
  /\ (forall a b c, cmp a b <= 0 -> cmp b c <= 0 -> cmp a c <= 0)%Z.
Proof.
  cbv zeta. split; [vm_compute; reflexivity|]. split; intros.
  - rewrite <- Z.sgn_opp. f_equal. lia.
  - lia.
Qed.

(* LISFunc calls slices.BinarySearchFunc of the standard library, which is not part of the
   repository.  [lis_func_std impl] is the model of LISFunc over an arbitrary implementation
   [impl] of that search (a function of the comparison results cmp(x[0],t), cmp(x[1],t), ...).
   For EVERY impl that meets the documented contract -- on a slice sorted with respect to cmp it
   returns the smallest index i with cmp(x[i],t) >= 0, or len(x) -- LISFunc is optimal, and
   returns exactly what [lis_func] (built on a copy of the go1.23 loop, the model replayed against
   the real package) returns.  So the particular standard-library implementation cannot matter. *)
Theorem C12_lis_optimal_any_stdlib :
  forall (T : Type) (cmp : T -> T -> Z),
    (forall a b, Z.sgn (cmp b a) = - Z.sgn (cmp a b))%Z ->
    (forall a b c, cmp a b <= 0 -> cmp b c <= 0 -> cmp a c <= 0)%Z ->
    forall impl : list Z -> option Z, bsf_meets_contract impl ->
    forall vs : list T, exists s,
      lis_func_std T cmp impl vs = Some s /\ Subseq s vs /\ ordered_b T cmp true s = true /\
      forall t, Subseq t vs -> ordered_b T cmp true t = true -> (length t <= length s)%nat.
Proof. exact lis_func_std_optimal. Qed.
Print Assumptions C12_lis_optimal_any_stdlib.

Example C12_lis_optimal_any_stdlib_witness :
  (* a linear scan meets the contract; so does the go1.23 loop run on the comparison results *)
  let scan := fun ks => Some (Z.of_nat (first_nonneg ks)) in
  bsf_meets_contract scan /\ bsf_meets_contract go123_on_keys
  /\ lis_func_std Z Z.sub scan [3; 1; 2; 2; 5; 4; 4; 1; 6]%Z = Some [1; 2; 4; 6]%Z
  /\ go123_on_keys [-3; -1; 0; 0; 2]%Z = Some 2%Z.
Proof.
  cbv zeta. split; [exact linear_scan_meets_contract|]. split; [exact go123_meets_contract|].
  vm_compute. split; reflexivity.
Qed.

Theorem C12_lis_stdlib_irrelevant :
  forall (T : Type) (cmp : T -> T -> Z),
    (forall a b, Z.sgn (cmp b a) = - Z.sgn (cmp a b))%Z ->
    (forall a b c, cmp a b <= 0 -> cmp b c <= 0 -> cmp a c <= 0)%Z ->
    forall impl : list Z -> option Z, bsf_meets_contract impl ->
    forall vs : list T, lis_func_std T cmp impl vs = lis_func T cmp vs.
Proof. exact lis_func_std_same. Qed.
Print Assumptions C12_lis_stdlib_irrelevant.

Example C12_lis_stdlib_irrelevant_witness :
  lis_func_std Z Z.sub (fun ks => Some (Z.of_nat (first_nonneg ks))) [3; 1; 2; 2; 5; 4; 4; 1; 6]%Z
  = lis_func Z Z.sub [3; 1; 2; 2; 5; 4; 4; 1; 6]%Z
  /\ lis_func Z Z.sub [3; 1; 2; 2; 5; 4; 4; 1; 6]%Z = Some [1; 2; 4; 6]%Z.
Proof. vm_compute. split; reflexivity. Qed.

(* Unsigned midpoint arithmetic of the two binary searches cannot wrap for any slice length an
   int can hold, so modelling machine ints by Z loses nothing there. *)
Theorem C12_search_mid_in_range :
  forall low high n : Z,
    (0 <= low -> low < high -> high <= n -> n < 2 ^ 63 ->
     0 <= low + high < 2 ^ 64 /\
     low <= Gen.LisIdx.bis_mid low high < high /\
     low <= Z.shiftr (low + high) 1 < high)%Z.
Proof. exact search_mid_in_range. Qed.
Print Assumptions C12_search_mid_in_range.

Example C12_search_mid_in_range_witness :
  (Gen.LisIdx.bis_mid (2 ^ 63 - 2) (2 ^ 63 - 1) = 2 ^ 63 - 2)%Z.
Proof. vm_compute. reflexivity. Qed.

(* ---------------- the independent reference ---------------- *)
(* The OCaml driver judges the implementation's own outputs with [subseq_b], [ordered_b],
   [lcs_len_ref] and [lis_len_ref] (LcsSpec.v, LisSpec.v: a length-only table, a quadratic
   table).  These theorems say that the reference means "the optimum" and that the models'
   results have exactly that length -- the wording of the property. *)

Theorem C12_lcs_length_is_reference :
  forall (T : Type) (eqb : T -> T -> bool),
    (forall x, eqb x x = true) ->
    (forall x y, eqb x y = true -> eqb y x = true) ->
    (forall x y z, eqb x y = true -> eqb y z = true -> eqb x z = true) ->
    forall l r s, lcs_func T eqb l r = Some s -> length s = lcs_len_ref T eqb l r.
Proof. exact lcs_func_length_is_ref. Qed.
Print Assumptions C12_lcs_length_is_reference.

Example C12_lcs_length_is_reference_witness :
  lcs_func Z Z.eqb [1; 2; 2; 3]%Z [2; 2; 1; 3]%Z = Some [2; 2; 3]%Z
  /\ lcs_len_ref Z Z.eqb [1; 2; 2; 3]%Z [2; 2; 1; 3]%Z = 3%nat.
Proof. vm_compute. split; reflexivity. Qed.

Theorem C12_lnds_length_is_reference :
  forall (T : Type) (cmp : T -> T -> Z),
    (forall a b, Z.sgn (cmp b a) = - Z.sgn (cmp a b))%Z ->
    (forall a b c, cmp a b <= 0 -> cmp b c <= 0 -> cmp a c <= 0)%Z ->
    forall vs s, lnds_func T cmp vs = Some s -> length s = lis_len_ref T cmp false vs.
Proof. exact lnds_func_length_is_ref. Qed.
Print Assumptions C12_lnds_length_is_reference.

Example C12_lnds_length_is_reference_witness :
  lis_len_ref Z Z.sub false [3; 1; 2; 2; 5; 4; 4; 1; 6]%Z = 6%nat.
Proof. vm_compute. reflexivity. Qed.

Theorem C12_lis_length_is_reference :
  forall (T : Type) (cmp : T -> T -> Z),
    (forall a b, Z.sgn (cmp b a) = - Z.sgn (cmp a b))%Z ->
    (forall a b c, cmp a b <= 0 -> cmp b c <= 0 -> cmp a c <= 0)%Z ->
    forall vs s, lis_func T cmp vs = Some s -> length s = lis_len_ref T cmp true vs.
Proof. exact lis_func_length_is_ref. Qed.
Print Assumptions C12_lis_length_is_reference.

Example C12_lis_length_is_reference_witness :
  lis_len_ref Z Z.sub true [3; 1; 2; 2; 5; 4; 4; 1; 6]%Z = 4%nat.
Proof. vm_compute. reflexivity. Qed.

(* What the reference functions compute, with no law on eqb / cmp at all: the greedy test decides
   "subsequence up to eqb"; lcs_len_ref is the largest length of an exact subsequence of l that
   matches a subsequence of r; lis_len_ref is the largest length of an ordered subsequence. *)
Theorem C12_reference_meaning :
  (forall (T : Type) (eqb : T -> T -> bool) s l,
      subseq_b T eqb s l = true <-> SubseqB eqb s l)
  /\ (forall (T : Type) (eqb : T -> T -> bool) l r,
      (exists u, Subseq u l /\ SubseqB eqb u r /\ length u = lcs_len_ref T eqb l r) /\
      (forall u, Subseq u l -> SubseqB eqb u r -> (length u <= lcs_len_ref T eqb l r)%nat))
  /\ (forall (T : Type) (cmp : T -> T -> Z) (strict : bool) vs,
      (exists t, Subseq t vs /\ ordered_b T cmp strict t = true
                 /\ length t = lis_len_ref T cmp strict vs) /\
      (forall t, Subseq t vs -> ordered_b T cmp strict t = true ->
                 (length t <= lis_len_ref T cmp strict vs)%nat)).
Proof.
  split; [exact subseq_b_iff|]. split; [exact lcs_len_ref_optimal | exact lis_len_ref_optimal].
Qed.
Print Assumptions C12_reference_meaning.

Example C12_reference_meaning_witness :
  subseq_b Z Z.eqb [2; 3]%Z [1; 2; 2; 3]%Z = true /\ subseq_b Z Z.eqb [3; 2]%Z [1; 2; 2; 3]%Z = false.
Proof. vm_compute. split; reflexivity. Qed.
