(* C10 (ring) at source level -- the history statements of Props/C10_ring.v re-stated for a state
   machine whose operations call the FUNCTIONS GENERATED from ring/ring.go by the heap backend of the
   function translator (Gen/FnRing.v, regenerated on every run).  Only statements; the proofs
   (GenTie/RingSource.v) assemble the 14 ties C10_ring_*_is_source and compose them with the
   model-level simulation (RingProofs.step_sim) and with C10_ring_refinement / C10_ring_no_hang.

   Reading guide.  [grun zero g ops]: state = the generated heap [g : list (FnRing.Ring T)] (cells
   mk_Ring Value prev next in allocation order; *Ring = option nat, None = nil); the model's ops
   (handles nil or addresses) and outs.  Every op calls the generated function of that name on the
   heap: New, Of, Ring_Join, Ring_Pop return the new heap; Ring_Next, Ring_Prev, Ring_At, Ring_Peek,
   Ring_Len, Ring_IsEmpty only read it; OEach r lim runs Ring_Each with the state-threading callback
   that records each value and answers false on its lim-th call (its state IS the visited
   sequence).  Fuel: New n + 1, Of len + 1, At/Peek heap size + 2, Len/Each heap size + 1.  Handles
   that were never handed out are answered RFault without a call (as in the model).  Go's nil
   dereference panic is the output RPanic, fuel exhaustion RFuel; after a failed call the state is
   the heap before the call.

   COVERED: all eleven operations of the model's histories (New, Of, Join, Pop, Next, Prev, At,
   Peek, Len, Each, IsEmpty), from the empty heap.  NOT COVERED: Ring.String (fmt; not translated);
   the heap at the moment of a panic (the generated functions do not return it; the model keeps it:
   both represent the same abstract state on reachable heaps, which is what the proof uses); Go's
   int width (C10_ring_at_int64, C10_ring_new_counter_in_range are model-level). *)
From Coq Require Import ZArith List Bool.
Import ListNotations.
From Mds Require Import Ring.RingBase Ring.RingSpec Ring.RingProofsRep.
From Mds Require Import GenTie.RingTieBase GenTie.RingSource.
From Mds Require Ring.RingProofs Gen.FnRing.

(* Refinement over histories: for every element type, every zero value and EVERY list of
   operations, starting from the empty heap, the outputs of the GENERATED functions -- returned
   handles, values, lengths, enumerations, nil-dereference panics -- are exactly those of the
   abstract cyclic sequences.  No hypothesis, as C10_ring_refinement. *)
Theorem C10_ring_refinement_source : forall (T : Type) (zero : T) (ops : list (op T)),
  grun zero [] ops = a_run T zero (a_empty T zero) ops.
Proof. exact @refinement_source. Qed.
Print Assumptions C10_ring_refinement_source.

(* the history of C10_ring_refinement_ex through the generated functions *)
Example C10_ring_refinement_source_ex :
  grun 0 []
    [OOf [11;12;13;14]; OOf [21;22]; OJoin (Some 1) (Some 4); OEach (Some 0) 0; OLen (Some 5);
     OJoin (Some 0) (Some 4); OEach (Some 0) 0; OEach (Some 3) 0; OPop (Some 4); OEach (Some 0) 0;
     OAt (Some 0) (-1); OPeek (Some 0) 2; OPrev (Some 0); ONext None; OEach (Some 3) 2; ONew 2; OIsEmpty (Some 6); OLen (Some 9)]
  = [RPtr (Some 0); RPtr (Some 4); RPtr (Some 0); REach [11;12;13;14;21;22]; RLen 6;
     RPtr (Some 3); REach [11;21;22]; REach [12;13;14]; RPtr (Some 4); REach [11;22];
     RPtr (Some 5); RPeek 0 false; RPtr (Some 5); RPanic; REach [12;13]; RPtr (Some 6); RBool false; RFault].
Proof. vm_compute. reflexivity. Qed.

(* No generated call of any history exhausts its fuel. *)
Theorem C10_ring_no_hang_source : forall (T : Type) (zero : T) (ops : list (op T)),
  ~ In RFuel (grun zero [] ops).
Proof. exact no_hang_source. Qed.
Print Assumptions C10_ring_no_hang_source.

(* The generated heap reached by any history is (the encoding of) a heap represented by the abstract
   state reached by the same history (Rep: the abstract cycles partition the allocated cells, each
   is linked by next and, backwards, by prev, closing on itself; values agree). *)
Theorem C10_ring_wellformed_source : forall (T : Type) (zero : T) (ops : list (op T)),
  exists h', grun_heap zero [] ops = henc h' /\
             Rep T h' (RingProofs.a_run_state T zero (a_empty T zero) ops).
Proof. exact @wellformed_source. Qed.
Print Assumptions C10_ring_wellformed_source.
Example C10_ring_wellformed_source_ex :
  grun_heap 0 [] [OOf [1;2;3]; OOf [4;5]; OJoin (Some 2) (Some 3); OPop (Some 0)]
  = [FnRing.mk_Ring 1 (Some 0) (Some 0); FnRing.mk_Ring 3 (Some 4) (Some 2); FnRing.mk_Ring 2 (Some 1) (Some 3);
     FnRing.mk_Ring 4 (Some 2) (Some 4); FnRing.mk_Ring 5 (Some 3) (Some 1)].
Proof. vm_compute. reflexivity. Qed.

(* On every history from the empty heap the generated functions answer exactly as the model does
   (C10_ring_refinement and its source-level twin composed). *)
Theorem C10_ring_run_is_source : forall (T : Type) (zero : T) (ops : list (op T)),
  grun zero [] ops = RingModel.run T zero empty_heap ops.
Proof. exact run_is_source. Qed.
Print Assumptions C10_ring_run_is_source.
Example C10_ring_run_is_source_ex :
  RingModel.run nat 0 empty_heap [ONew 3; OJoin (Some 0) (Some 1); OLen (Some 0); OLen (Some 2)] = [RPtr (Some 0); RPtr (Some 2); RLen 2; RLen 1].
Proof. vm_compute. reflexivity. Qed.

(* One step against the MODEL's step, for EVERY heap (well-formed or not) and every operation: the
   same output; the model's new heap after a call that succeeded, the heap before the call after
   one that failed -- provided the model's own loop budget did not run out. *)
Theorem C10_ring_step_is_source : forall (T : Type) (zero : T) (h : heap T) (o : op T),
  snd (RingModel.step T zero h o) <> RFuel ->
  snd (gstep zero (henc h) o) = snd (RingModel.step T zero h o) /\
  fst (gstep zero (henc h) o) = henc (if failed (snd (RingModel.step T zero h o)) then h else fst (RingModel.step T zero h o)).
Proof. exact @gstep_agrees. Qed.
Print Assumptions C10_ring_step_is_source.
(* an ill-formed heap: cell 0 points to nil; Join runs into the nil dereference after its first stores *)
Example C10_ring_step_is_source_ex :
  let h := [mkCell 7 None (Some 1); mkCell 8 (Some 0) None] in
  gstep 0 (henc h) (OJoin (Some 0) (Some 1)) = (henc h, RPtr None) /\
  gstep 0 (henc h) (OJoin (Some 1) (Some 0)) = (henc h, RPanic).
Proof. split; vm_compute; reflexivity. Qed.
