(* C07 -- queue.Queue is a faithful double-ended queue across wrap-around and growth.
   Only statements, each closed by [exact] of a lemma proved in Queue/QueueProofs.v.

   Reading guide.  Queue/QueueModel.v: the Go code statement by statement on {vs; head; n}
   (index arithmetic from Gen/QueueIdx.v), [step]/[run]/[exec] over histories; results are
   Ok / Panic kind / BadOracle (there is no fuel, hence no fuel-exhaustion result at all).
   Queue/QueueSpec.v: the reference -- a plain list -- [spec_step]/[spec_run]/[spec_exec], and
   [oracles_ok cap cnt ops]: every Add/Push that finds the ring full carries an oracle c > cap
   (append's contract), where (cap, cnt) evolve by [cap_next]. *)
From Coq Require Import ZArith List Lia.
Import ListNotations.
From Mds Require Import Queue.QueueModel Queue.QueueSpec Queue.QueueProofs.
Local Open Scope Z_scope.

(* For every element type, every initial configuration (zero value, New, NewSize k with k >= 0),
   every history of Add, Push, Pop, PopLast, Clear, Len, IsEmpty, Front, Peek k (any k), Each
   (stopped after any number of calls), Slice, and every choice of growth capacities that respects
   append's contract: every output of the ring-buffer model -- return values, ok flags, and all
   observations -- equals the output of the plain-list reference; in particular no step panics. *)
Theorem C07_history : forall (T : Type) (zero : T) (i : init) (ops : list (op T)),
  init_ok i -> oracles_ok T (init_cap i) 0 ops ->
  run_init T zero i ops = map Ok (spec_run T zero [] ops).
Proof. exact history. Qed.
Print Assumptions C07_history.
(* NewSize(3); Push wraps head below 0; Add fills to exactly full with head = 2; Push must rotate
   and regrow (oracle 7); Add/PopLast/Pop around the new ring; Peek(-1), Peek(-5), Each, Slice. *)
Example C07_history_ex :
  let ops := [OPush 1 0; OAdd 2 0; OAdd 3 0; OPush 4 7; OLen; OPeek (-1); OPeek (-5); OPopLast;
              OAdd 5 0; OPop; OFront; OEach 1; OSlice; OIsEmpty] in
  (init_ok (ISize 3) /\ oracles_ok Z (init_cap (ISize 3)) 0 ops) /\
  run_init Z 0 (ISize 3) ops =
    [Ok RUnit; Ok RUnit; Ok RUnit; Ok RUnit; Ok (RInt 4); Ok (RVal 3 true); Ok (RVal 0 false);
     Ok (RVal 3 true); Ok RUnit; Ok (RVal 4 true); Ok (RElem 1); Ok (RList [1; 2]);
     Ok (RList [1; 2; 5]); Ok (RBool false)] /\
  exec_init Z 0 (ISize 3) (firstn 4 ops) = Ok {| vs := [1; 2; 3; 4; 0; 0; 4]; head := 6; n := 4 |}.
Proof. cbv zeta. split; [split; [vm_compute; discriminate|cbn; lia]|]. split; vm_compute; reflexivity. Qed.

(* Whatever the oracle values are (valid or not): the outputs are a prefix of the reference's
   outputs, followed by a single BadOracle exactly when a growth step was handed a capacity that
   does not exceed the old length. *)
Theorem C07_history_any_oracle : forall (T : Type) (zero : T) (i : init) (ops : list (op T)),
  init_ok i ->
  exists k, run_init T zero i ops =
    map Ok (firstn k (spec_run T zero [] ops)) ++ (if (k <? length ops)%nat then [BadOracle] else []).
Proof. exact history_any_oracle. Qed.
Print Assumptions C07_history_any_oracle.
Example C07_history_any_oracle_ex :
  run_init Z 0 IZero [OAdd 1 1; OAdd 2 1; OLen] = [Ok RUnit; BadOracle] /\
  run_init Z 0 IZero [OAdd 1 1; OAdd 2 5; OLen] = [Ok RUnit; Ok RUnit; Ok (RInt 2)].
Proof. split; vm_compute; reflexivity. Qed.

(* No panic (index, division by zero, Rotate offset, make) in any history, whatever the oracles. *)
Theorem C07_no_panic : forall (T : Type) (zero : T) (i : init) (ops : list (op T)) (pk : panic_kind),
  init_ok i -> ~ In (Panic pk) (run_init T zero i ops).
Proof. exact no_panic. Qed.
Print Assumptions C07_no_panic.
(* the hypothesis is needed: NewSize(-1) panics in make *)
Example C07_no_panic_ex : init_ok (ISize 2) /\ run_init Z 0 (ISize (-1)) [OLen] = [Panic PMakeLen].
Proof. split; [vm_compute; discriminate|vm_compute; reflexivity]. Qed.

(* In every state a history leads to: Each with an arbitrary stateful callback calls it on the
   reference sequence in order until it answers false, and Peek at every offset agrees with the
   reference (this is "for all k" as a universally quantified statement, not as an op). *)
Theorem C07_each_peek_any : forall (T : Type) (zero : T) (i : init) (ops : list (op T))
    (A : Type) (f : A -> T -> A * bool) (a : A),
  init_ok i -> oracles_ok T (init_cap i) 0 ops ->
  exists q, exec_init T zero i ops = Ok q /\
    each T A f q a = Ok (spec_each T f (spec_exec T zero [] ops) a) /\
    (forall k, peek T zero q k = Ok (spec_peek T zero (spec_exec T zero [] ops) k)).
Proof. exact each_any_callback. Qed.
Print Assumptions C07_each_peek_any.
Example C07_each_peek_any_ex :
  spec_exec Z 0 [] [OAdd 1 1; OAdd 2 2; OPush 3 4; OPop] = [1; 2] /\
  each Z Z (fun s x => (s + x, true)) {| vs := [1; 2; 0; 3]; head := 0; n := 2 |} 10 = Ok 13.
Proof. split; vm_compute; reflexivity. Qed.

(* Peek(k) with k outside [-n, n) is (zero, false) -- in every state, even an ill-formed one. *)
Theorem C07_peek_out_of_range : forall (T : Type) (zero : T) (q : queue T) (k : Z),
  k < - n q \/ k >= n q -> peek T zero q k = Ok (zero, false).
Proof. exact peek_out_of_range. Qed.
Print Assumptions C07_peek_out_of_range.
Example C07_peek_out_of_range_ex :
  peek Z 0 {| vs := [7; 8; 9]; head := 2; n := 2 |} (-3) = Ok (0, false) /\
  peek Z 0 {| vs := [7; 8; 9]; head := 2; n := 2 |} (-2) = Ok (9, true).
Proof. vm_compute. split; reflexivity. Qed.

(* Every state a history leads to (whatever the oracles) satisfies the ring invariant that the
   hook values head/n/len(vs) are compared against; head is reset to 0 whenever the queue empties. *)
Theorem C07_ring_invariant : forall (T : Type) (zero : T) (i : init) (ops : list (op T)) (q : queue T),
  init_ok i -> exec_init T zero i ops = Ok q ->
  0 <= n q <= zlen T (vs q) /\ 0 <= head q /\ (head q < zlen T (vs q) \/ head q = 0) /\ (n q = 0 -> head q = 0).
Proof. exact reachable_inv. Qed.
Print Assumptions C07_ring_invariant.
Example C07_ring_invariant_ex :
  exec_init Z 0 (ISize 2) [OPush 1 0; OPop] = Ok {| vs := [0; 1]; head := 0; n := 0 |}.
Proof. vm_compute. reflexivity. Qed.

(* Observers do not change the state. *)
Theorem C07_observers_pure : forall (T : Type) (zero : T) (q q' : queue T) (o : op T) (r : out T),
  is_observer T o = true -> step T zero q o = Ok (q', r) -> q' = q.
Proof. intros T zero q q' o r. exact (observers_pure T zero q o q' r). Qed.
Print Assumptions C07_observers_pure.
Example C07_observers_pure_ex :
  step Z 0 {| vs := [7; 8; 9]; head := 2; n := 2 |} OSlice = Ok ({| vs := [7; 8; 9]; head := 2; n := 2 |}, RList [9; 7]).
Proof. vm_compute. reflexivity. Qed.
