(* C07 -- queue.Queue is a faithful double-ended queue across wrap-around and growth.
   Only statements, each closed by [exact] of a lemma proved in Queue/QueueProofs*.v.

   Reading guide.  Queue/QueueModel.v: the Go code statement by statement on {vs; head; n}
   (index arithmetic from Gen/QueueIdx.v), [step]/[run]/[exec] over histories; results are
   QOk / QPanic kind / BadOracle / RotateFuel.  The regrowth step calls the loop model of
   slice.Rotate of the C17 slice (Slice/SliceUtilModel.rotate_impl: sliceCheck, gcd, cycle chasing),
   whose fuel exhaustion would show as RotateFuel.  Every model function takes the int width as
   its first argument: [idw] = unbounded integers, [wrap64] = Go's 64-bit int (every +, -, unary -
   reduced to [-2^63, 2^63)); [run_init64] = [run_init wrap64] is what is replayed against the code.
   Queue/QueueSpec.v: the reference -- a plain list -- [spec_step]/[spec_run]/[spec_exec];
   [oracles_ok cap cnt ops]: every Add/Push that finds the ring full carries an oracle c > cap
   (append's contract), where (cap, cnt) evolve by [cap_next]; [init_ok]: NewSize's argument is
   >= 0 (for a negative one the constructor panics: C07_newsize_negative); [ops_small]: growth
   capacities <= 2^62 = [cap_bound] and Peek offsets are ints. *)
From Coq Require Import ZArith List Lia.
Import ListNotations.
From Mds Require Import Queue.QueueModel Queue.QueueSpec Queue.QueueProofs Queue.QueueProofsInt.
From Mds Require Import Queue.QueueUnitModel Queue.QueueUnitProofs.
Local Open Scope Z_scope.

(* For every element type, every initial configuration (zero value, New, NewSize k with k >= 0),
   every history of Add, Push, Pop, PopLast, Clear, Len, IsEmpty, Front, Peek k (any k), Each
   (stopped after any number of calls), Slice, and every choice of growth capacities that respects
   append's contract: every output of the ring-buffer model -- return values, ok flags, and all
   observations -- equals the output of the plain-list reference; in particular no step panics and
   Rotate's loop never runs out of fuel.  Integers unbounded (see C07_history64 for Go's int). *)
Theorem C07_history : forall (T : Type) (zero : T) (i : init) (ops : list (op T)),
  init_ok i -> oracles_ok T (init_cap i) 0 ops ->
  run_init idw T zero i ops = map QOk (spec_run T zero [] ops).
Proof. exact history. Qed.
Print Assumptions C07_history.
(* NewSize(3); Push wraps head below 0; Add fills to exactly full with head = 2; Push must rotate
   (the real cycle-chasing loop: gcd(1,3) = 1 cycle of 3 stores) and regrow (oracle 7);
   Add/PopLast/Pop around the new ring; Peek(-1), Peek(-5), Each, Slice. *)
Example C07_history_ex :
  let ops := [OPush 1 0; OAdd 2 0; OAdd 3 0; OPush 4 7; OLen; OPeek (-1); OPeek (-5); OPopLast;
              OAdd 5 0; OPop; OFront; OEach 1; OSlice; OIsEmpty] in
  (init_ok (ISize 3) /\ oracles_ok Z (init_cap (ISize 3)) 0 ops) /\
  run_init idw Z 0 (ISize 3) ops =
    [QOk RUnit; QOk RUnit; QOk RUnit; QOk RUnit; QOk (RInt 4); QOk (RVal 3 true); QOk (RVal 0 false);
     QOk (RVal 3 true); QOk RUnit; QOk (RVal 4 true); QOk (RElem 1); QOk (RList [1; 2]);
     QOk (RList [1; 2; 5]); QOk (RBool false)] /\
  exec_init idw Z 0 (ISize 3) (firstn 3 ops) = QOk {| vs := [2; 3; 1]; head := 2; n := 3 |} /\
  exec_init idw Z 0 (ISize 3) (firstn 4 ops) = QOk {| vs := [1; 2; 3; 4; 0; 0; 4]; head := 6; n := 4 |}.
Proof. cbv zeta. split; [split; [vm_compute; discriminate|cbn; lia]|]. repeat split; vm_compute; reflexivity. Qed.

(* The same at Go's int width: for every history in which the buffer never exceeds 2^62 slots
   (initial size and growth capacities <= 2^62 -- true of every element type of non-zero size,
   whose slices cannot exceed 2^48 elements) and Peek's argument is an int, the 64-bit model --
   the one replayed against the real package -- produces the reference outputs.  Peek(math.MinInt)
   is covered: [ops_small] allows every k in [-2^63, 2^63). *)
Theorem C07_history64 : forall (T : Type) (zero : T) (i : init) (ops : list (op T)),
  init_ok i -> init_cap i <= cap_bound -> ops_small T ops -> oracles_ok T (init_cap i) 0 ops ->
  run_init64 T zero i ops = map QOk (spec_run T zero [] ops).
Proof. exact history64. Qed.
Print Assumptions C07_history64.
Example C07_history64_ex :
  let ops := [OAdd 1 1; OAdd 2 2; OAdd 3 4; OPop; OAdd 4 0; OAdd 5 0; OPush 6 9;
              OPeek (-9223372036854775808); OPeek (-9223372036854775807); OPeek 9223372036854775807;
              OPeek (-5); OPeek (-6); OSlice] in
  (ops_small Z ops /\ oracles_ok Z 0 0 ops) /\
  run_init64 Z 0 IZero ops =
    [QOk RUnit; QOk RUnit; QOk RUnit; QOk (RVal 1 true); QOk RUnit; QOk RUnit; QOk RUnit;
     QOk (RVal 0 false); QOk (RVal 0 false); QOk (RVal 0 false);
     QOk (RVal 6 true); QOk (RVal 0 false); QOk (RList [6; 2; 3; 4; 5])].
Proof.
  cbv zeta. split; [split|vm_compute; reflexivity].
  - unfold ops_small. repeat (apply Forall_cons; [cbn [op_small]; unfold cap_bound; try lia; exact I|]). apply Forall_nil.
  - cbn; lia.
Qed.

(* Both widths agree on whole histories whatever the oracles are (valid or not), under the same bound. *)
Theorem C07_width : forall (T : Type) (zero : T) (i : init) (ops : list (op T)),
  init_ok i -> init_cap i <= cap_bound -> ops_small T ops ->
  run_init wrap64 T zero i ops = run_init idw T zero i ops.
Proof. exact history_width. Qed.
Print Assumptions C07_width.
Example C07_width_ex : cap_bound = 2 ^ 62 /\ wrap64 (9223372036854775807 + 1) = - 9223372036854775808 /\ wrap64 (-5) = -5.
Proof. repeat split. Qed.

(* slice.Rotate's own arithmetic (sliceCheck's i += n, the loop's (i + k) % len) is in Z in the
   model at both widths.  Through the C17 slice's 64-bit re-statement of Rotate: the call Add and
   Push make in any reachable state of fewer than 2^62 slots, with the offset -head computed in
   64 bits, gives exactly what the model's call gives. *)
Theorem C07_rotate_width : forall (T : Type) (q : queue T),
  (0 <= n q <= zlen T (vs q) /\ 0 <= head q /\ (head q < zlen T (vs q) \/ head q = 0) /\ (n q = 0 -> head q = 0)) ->
  zlen T (vs q) < cap_bound ->
  Slice.SliceUtilProofsInt.rotate_impl64 (vs q) (wrap64 (Gen.QueueIdx.add_rot_k (head q)))
    = Slice.SliceUtilModel.rotate_impl (vs q) (idw (Gen.QueueIdx.add_rot_k (head q))) /\
  Slice.SliceUtilProofsInt.rotate_impl64 (vs q) (wrap64 (Gen.QueueIdx.push_rot_k (head q)))
    = Slice.SliceUtilModel.rotate_impl (vs q) (idw (Gen.QueueIdx.push_rot_k (head q))).
Proof. exact rotate_call_width. Qed.
Print Assumptions C07_rotate_width.
Example C07_rotate_width_ex :
  Slice.SliceUtilProofsInt.rotate_impl64 [5; 6; 1; 2; 3; 4] (wrap64 (Gen.QueueIdx.add_rot_k 2)) = Slice.SliceUtilModel.Ok [1; 2; 3; 4; 5; 6].
Proof. vm_compute. reflexivity. Qed.

(* Without the bound C07_history64 is FALSE -- a defect of queue.Add's `pos := q.head + q.n` for
   zero-size element types: on a ring of N = 2^63-1 slots (queue.NewSize[struct{}](math.MaxInt)
   succeeds), Push puts head at N-1, Add wraps correctly to slot 0, and the next Add computes
   N-1+2 = 2^63 -> -2^63, which is not >= len, so the store panics; with unbounded integers (and
   for the reference) all three succeed.  The real package panics exactly so (notes/C07-audit.md).
   Peek's (head+k) % len and PopLast's head+n-1 overflow in the same way (C07_unit_model_ex). *)
Theorem C07_int64_refuted : forall (T : Type) (zero : T) (N : Z) (v : T),
  N = 9223372036854775807 ->
  run_init wrap64 T zero (ISize N) [OPush v 0; OAdd v 0; OAdd v 0] = [QOk RUnit; QOk RUnit; QPanic PIndex] /\
  run_init idw T zero (ISize N) [OPush v 0; OAdd v 0; OAdd v 0] = [QOk RUnit; QOk RUnit; QOk RUnit].
Proof. intros T zero N v H. exact (width_bound_needed T zero N H v). Qed.
Print Assumptions C07_int64_refuted.
(* the arithmetic of the witness, on the generated expressions *)
Example C07_int64_refuted_ex :
  let N := 9223372036854775807 in
  init_ok (ISize N) /\
  wrap64 (Gen.QueueIdx.add_pos (N - 1) 2) = - 9223372036854775808 /\
  Gen.QueueIdx.add_wrap_cond (- 9223372036854775808) N = false.
Proof. cbv zeta. split; [vm_compute; discriminate|split; reflexivity]. Qed.

(* The zero-size element type.  Queue/QueueUnitModel.v is the model with every buffer replaced by
   its length (all elements are tt); it is what replays queue.Queue[struct{}] histories, whose
   buffers can be 2^63-1 slots long.  It is not a second, independent transcription to be trusted:
   at every width, from every initial configuration, on every history, its outputs are the main
   model's outputs on unit elements with the element values dropped. *)
Theorem C07_unit_model : forall (w : Z -> Z) (i : init) (ops : list (op unit)),
  map (rmap oshape) (run_init w unit tt i ops) = urun_init w i ops.
Proof. exact unit_model_is_the_model. Qed.
Print Assumptions C07_unit_model.
(* F11 by computation: the witness of C07_int64_refuted on the length-only model, at both widths,
   and (through C07_unit_model) on the main model for unit elements; one slot lower the third
   operation is still fine and the fourth fails. *)
Example C07_unit_model_ex :
  let N := 9223372036854775807 in
  urun_init wrap64 (ISize N) [OPush tt 0; OAdd tt 0; OAdd tt 0] = [QOk UUnit; QOk UUnit; QPanic PIndex] /\
  urun_init idw (ISize N) [OPush tt 0; OAdd tt 0; OAdd tt 0; OLen] = [QOk UUnit; QOk UUnit; QOk UUnit; QOk (UInt 3)] /\
  urun_init wrap64 (ISize (N - 1)) [OPush tt 0; OAdd tt 0; OAdd tt 0; OAdd tt 0] = [QOk UUnit; QOk UUnit; QOk UUnit; QPanic PIndex] /\
  map (rmap oshape) (run_init wrap64 unit tt (ISize N) [OPush tt 0; OAdd tt 0; OAdd tt 0]) = [QOk UUnit; QOk UUnit; QPanic PIndex] /\
  (* the same overflow in Peek and PopLast, without Add panicking first: Add, Add, then Push wraps
     head to N-1, so head + n = 2^63 + 1 *)
  urun_init wrap64 (ISize N) [OAdd tt 0; OAdd tt 0; OPush tt 0; OLen; OPeek 1; OPeek 2]
    = [QOk UUnit; QOk UUnit; QOk UUnit; QOk (UInt 3); QOk (UVal true); QPanic PIndex] /\
  urun_init wrap64 (ISize N) [OAdd tt 0; OAdd tt 0; OPush tt 0; OPopLast] = [QOk UUnit; QOk UUnit; QOk UUnit; QPanic PIndex] /\
  urun_init idw (ISize N) [OAdd tt 0; OAdd tt 0; OPush tt 0; OPeek 2; OPopLast]
    = [QOk UUnit; QOk UUnit; QOk UUnit; QOk (UVal true); QOk (UVal true)] /\
  urun_init wrap64 (ISize 3) [OPush tt 0; OAdd tt 0; OAdd tt 0; OPush tt 4; OSlice; OPeek (-4); OPeek (-5)]
    = [QOk UUnit; QOk UUnit; QOk UUnit; QOk UUnit; QOk (UList 4); QOk (UVal true); QOk (UVal false)].
Proof.
  cbv zeta. split; [vm_compute; reflexivity|]. split; [vm_compute; reflexivity|].
  split; [vm_compute; reflexivity|]. split; [|repeat split; vm_compute; reflexivity].
  (* never evaluate the main model here: its buffer would be a list of 2^63-1 elements *)
  rewrite C07_unit_model. vm_compute. reflexivity.
Qed.

(* NewSize(k) with k < 0 -- the documentation ("storage pre-allocated for n items") says nothing
   about it: the constructor itself panics in make, at either width; no queue comes into being,
   so there is no history to speak of.  Together with init_ok this covers every int argument. *)
Theorem C07_newsize_negative : forall (T : Type) (zero : T) (w : Z -> Z) (k : Z) (ops : list (op T)),
  k < 0 -> run_init w T zero (ISize k) ops = [QPanic PMakeLen].
Proof. intros T zero w k ops. exact (newsize_negative T zero w k ops). Qed.
Print Assumptions C07_newsize_negative.
Example C07_newsize_negative_ex :
  run_init64 Z 0 (ISize (-1)) [OAdd 1 1] = [QPanic PMakeLen] /\
  run_init64 Z 0 (ISize (-9223372036854775808)) [] = [QPanic PMakeLen] /\
  run_init64 Z 0 (ISize 0) [OAdd 1 1] = [QOk RUnit].
Proof. repeat split; vm_compute; reflexivity. Qed.

(* Whatever the oracle values are (valid or not): the outputs are a prefix of the reference's
   outputs, followed by a single BadOracle exactly when a growth step was handed a capacity that
   does not exceed the old length. *)
Theorem C07_history_any_oracle : forall (T : Type) (zero : T) (i : init) (ops : list (op T)),
  init_ok i ->
  exists k, run_init idw T zero i ops =
    map QOk (firstn k (spec_run T zero [] ops)) ++ (if (k <? length ops)%nat then [BadOracle] else []).
Proof. exact history_any_oracle. Qed.
Print Assumptions C07_history_any_oracle.
Example C07_history_any_oracle_ex :
  run_init idw Z 0 IZero [OAdd 1 1; OAdd 2 1; OLen] = [QOk RUnit; BadOracle] /\
  run_init idw Z 0 IZero [OAdd 1 1; OAdd 2 5; OLen] = [QOk RUnit; QOk RUnit; QOk (RInt 2)].
Proof. split; vm_compute; reflexivity. Qed.

(* No panic (index, division by zero, Rotate offset, make) and no exhaustion of the fuel of
   slice.Rotate's inner loop in any history, whatever the oracles. *)
Theorem C07_no_panic : forall (T : Type) (zero : T) (i : init) (ops : list (op T)) (pk : panic_kind),
  init_ok i -> ~ In (QPanic pk) (run_init idw T zero i ops) /\ ~ In RotateFuel (run_init idw T zero i ops).
Proof. intros T zero i ops pk H. split; [exact (no_panic T zero i ops pk H)|exact (no_fuel T zero i ops H)]. Qed.
Print Assumptions C07_no_panic.
(* the hypothesis is needed: NewSize(-1) panics in make; and the panics are real results of the
   model: Rotate with an offset beyond the length, a store beyond the buffer *)
Example C07_no_panic_ex :
  init_ok (ISize 2) /\ run_init idw Z 0 (ISize (-1)) [OLen] = [QPanic PMakeLen] /\
  rotate_go Z [1; 2; 3] 4 = QPanic PRotate /\ rotate_go Z [1; 2; 3; 4; 5; 6] (-4) = QOk [5; 6; 1; 2; 3; 4] /\
  add idw Z 0 {| vs := [1; 2]; head := 3; n := 5 |} 9 0 = QPanic PRotate.
Proof. split; [vm_compute; discriminate|repeat split; vm_compute; reflexivity]. Qed.

(* In every state a history leads to: Each with an arbitrary stateful callback calls it on the
   reference sequence in order until it answers false, and Peek at every offset agrees with the
   reference (this is "for all k" as a universally quantified statement, not as an op). *)
Theorem C07_each_peek_any : forall (T : Type) (zero : T) (i : init) (ops : list (op T))
    (A : Type) (f : A -> T -> A * bool) (a : A),
  init_ok i -> oracles_ok T (init_cap i) 0 ops ->
  exists q, exec_init idw T zero i ops = QOk q /\
    each idw T A f q a = QOk (spec_each T f (spec_exec T zero [] ops) a) /\
    (forall k, peek idw T zero q k = QOk (spec_peek T zero (spec_exec T zero [] ops) k)).
Proof. exact each_any_callback. Qed.
Print Assumptions C07_each_peek_any.
Example C07_each_peek_any_ex :
  spec_exec Z 0 [] [OAdd 1 1; OAdd 2 2; OPush 3 4; OPop] = [1; 2] /\
  each idw Z Z (fun s x => (s + x, true)) {| vs := [1; 2; 0; 3]; head := 0; n := 2 |} 10 = QOk 13 /\
  each idw Z Z (fun s x => (s + x, negb (x =? 7))) {| vs := [7; 8; 9]; head := 2; n := 3 |} 0 = QOk 16.
Proof. repeat split; vm_compute; reflexivity. Qed.

(* Peek(k) with k outside [-n, n) is (zero, false) -- in every state, even an ill-formed one. *)
Theorem C07_peek_out_of_range : forall (T : Type) (zero : T) (q : queue T) (k : Z),
  k < - n q \/ k >= n q -> peek idw T zero q k = QOk (zero, false).
Proof. exact peek_out_of_range. Qed.
Print Assumptions C07_peek_out_of_range.
Example C07_peek_out_of_range_ex :
  peek idw Z 0 {| vs := [7; 8; 9]; head := 2; n := 2 |} (-3) = QOk (0, false) /\
  peek idw Z 0 {| vs := [7; 8; 9]; head := 2; n := 2 |} (-2) = QOk (9, true).
Proof. vm_compute. split; reflexivity. Qed.

(* Every state a history leads to (whatever the oracles) satisfies the ring invariant that the
   hook values head/n/len(vs) are compared against; head is reset to 0 whenever the queue empties. *)
Theorem C07_ring_invariant : forall (T : Type) (zero : T) (i : init) (ops : list (op T)) (q : queue T),
  init_ok i -> exec_init idw T zero i ops = QOk q ->
  0 <= n q <= zlen T (vs q) /\ 0 <= head q /\ (head q < zlen T (vs q) \/ head q = 0) /\ (n q = 0 -> head q = 0).
Proof. exact reachable_inv. Qed.
Print Assumptions C07_ring_invariant.
Example C07_ring_invariant_ex :
  exec_init idw Z 0 (ISize 2) [OPush 1 0; OPop] = QOk {| vs := [0; 1]; head := 0; n := 0 |}.
Proof. vm_compute. reflexivity. Qed.

(* Observers do not change the state. *)
Theorem C07_observers_pure : forall (T : Type) (zero : T) (q q' : queue T) (o : op T) (r : out T),
  is_observer T o = true -> step idw T zero q o = QOk (q', r) -> q' = q.
Proof. intros T zero q q' o r. exact (observers_pure T zero q o q' r). Qed.
Print Assumptions C07_observers_pure.
Example C07_observers_pure_ex :
  step idw Z 0 {| vs := [7; 8; 9]; head := 2; n := 2 |} OSlice = QOk ({| vs := [7; 8; 9]; head := 2; n := 2 |}, RList [9; 7]).
Proof. vm_compute. reflexivity. Qed.
