(* C07 -- queue.Queue is a faithful double-ended queue across wrap-around and growth.
   Only statements, each closed by [exact] of a lemma proved in Queue/QueueProofs.v. *)
From Coq Require Import ZArith List.
Import ListNotations.
From Mds Require Import Queue.QueueModel Queue.QueueSpec Queue.QueueProofs.
Local Open Scope Z_scope.

(* Peek(k) with k outside [-n, n) is (zero, false) -- in every state, for every element type. *)
Theorem C07_peek_out_of_range : forall (T : Type) (zero : T) (q : queue T) (k : Z),
  k < - n q \/ k >= n q -> peek T zero q k = Ok (zero, false).
Proof. exact peek_out_of_range. Qed.
Print Assumptions C07_peek_out_of_range.
Example C07_peek_out_of_range_ex :
  peek Z 0 {| vs := [7; 8; 9]; head := 2; n := 2 |} (-3) = Ok (0, false) /\
  peek Z 0 {| vs := [7; 8; 9]; head := 2; n := 2 |} (-2) = Ok (9, true).
Proof. vm_compute. split; reflexivity. Qed.
