(* C14 / C13 at source level, second part: the two dispatchers through which a caller reaches the
   formatters -- Diff.Format (mdiff.go) and Patch.Format (reader.go).  Only statements;
   proofs in GenTie/MdiffFmtTieDispatch.v and Mdiff/FormatDispatchProofs.v.

   Reading guide.  [D.Diff_Format] / [R.Patch_Format] are the functions generated from the two
   one-line bodies `return f(w, d.Chunks, fi)` / `return f(w, p.Chunks, p.FileInfo)`; the
   FormatFunc is a function argument that is handed the writer, the chunk addresses and the file
   info and hands back (error, writer).  [diff_format] / [patch_format] (Mdiff/FormatDispatch.v)
   are the model's dispatchers over [format_func] = info -> chunks -> bytes.  [gff_ok h fuel gf mf e]:
   the generated-level function gf appends, for every chunk list held in the heap h, what the model
   formatter mf gives, and answers the error e.  [g_of k] / [ff_of k], k in FUnified, FContext,
   FNormal: the function GENERATED from that formatter of format.go / the model's formatter.
   [cells h ads cs]: the heap holds the chunks cs at the addresses ads; [dfienc]/[rfienc]: a
   model file info as the record of mdiff.go's / reader.go's generated file; [dfi]/[rfi]: those
   records read as format.go's (same Go type, one copy of the record per generated file). *)
From Coq Require Import ZArith NArith List Bool.
Import ListNotations.
From Mds Require Import Mdiff.MdiffModel Mdiff.FormatModel Mdiff.ReaderModel Mdiff.FormatSpec Mdiff.ApplySpec
  Mdiff.ReaderNormalProofs Mdiff.FormatDispatch Mdiff.FormatDispatchProofs.
From Mds Require Import Common.FnRt Common.FnHeap Common.FnText GenTie.MdiffFmtTieBase GenTie.MdiffFmtTieUnified
  GenTie.MdiffFmtTieDispatch.
Local Open Scope Z_scope.

(* Diff.Format with ANY FormatFunc that implements a model formatter writes exactly what the
   model's dispatcher gives for that formatter -- the receiver's chunk list, the caller's file
   info, nothing of its own -- and returns the formatter's error. *)
Theorem C14_Diff_Format_is_source :
  forall (cnt : sink -> list Z -> Z) (er : sink -> list Z -> go_xerr) (time : Type)
         (h : list G.Chunk) (fuel : nat)
         (gf : sink -> list (option nat) -> option (G.FileInfo time) -> res (go_xerr * sink))
         (mf : format_func time) (e : go_xerr) (ads : list (option nat)) (d : diff line) (w : sink)
         (fi : option (file_info time)),
    gff_ok time h fuel gf mf e ->
    chunks_fuel fuel (Chunks d) -> cells h ads (Chunks d) ->
    D.Diff_Format ads w (fun w ch fi => gf w ch (option_map dfi fi)) (option_map dfienc fi)
    = Ok (e, w ++ zb (diff_format d mf fi)).
Proof. intros cnt er. exact (Diff_Format_is_source). Qed.
Print Assumptions C14_Diff_Format_is_source.

(* the same for Patch.Format: the receiver's chunk list and the receiver's STORED file info *)
Theorem C14_Patch_Format_is_source :
  forall (time : Type) (h : list G.Chunk) (fuel : nat)
         (gf : sink -> list (option nat) -> option (G.FileInfo time) -> res (go_xerr * sink))
         (mf : format_func time) (e : go_xerr) (ads : list (option nat)) (p : patch time) (w : sink),
    gff_ok time h fuel gf mf e ->
    chunks_fuel fuel (p_chunks p) -> cells h ads (p_chunks p) ->
    R.Patch_Format (option_map rfienc (p_info p)) ads w (fun w ch fi => gf w ch (option_map rfi fi))
    = Ok (e, w ++ zb (patch_format p mf)).
Proof. exact (Patch_Format_is_source). Qed.
Print Assumptions C14_Patch_Format_is_source.

(* composed with the functions generated from Unified / Context / Normal (C14_*_is_source): for
   every sink writer, every abstract time with IsZero/Format answering like the model's, every
   heap, chunk list in it and fuel above every list length, d.Format(w, mdiff.Unified, fi) etc.
   leave the sink at w ++ the model's bytes and return nil. *)
Theorem C14_Diff_Format_formatters_is_source :
  forall (cnt : sink -> list Z -> Z) (er : sink -> list Z -> go_xerr) (time : Type)
         (time_is_zero : time -> bool) (format_time : time -> bytes)
         (IsZero : time -> res bool) (Format : time -> list Z -> res (list Z)),
    (forall ts, IsZero ts = Ok (time_is_zero ts)) ->
    (forall ts, Format ts default_time_format = Ok (zb (format_time ts))) ->
  forall (k : fmt_kind) (h : list G.Chunk) (fuel : nat) (ads : list (option nat)) (d : diff line) (w : sink)
         (fi : option (file_info time)),
    chunks_fuel fuel (Chunks d) -> cells h ads (Chunks d) ->
    D.Diff_Format ads w (fun w ch fi => g_of cnt er time IsZero Format k h fuel w ch (option_map dfi fi))
                  (option_map dfienc fi)
    = Ok (None, w ++ zb (diff_format d (ff_of time time_is_zero format_time k) fi)).
Proof. exact Diff_Format_formatters_is_source. Qed.
Print Assumptions C14_Diff_Format_formatters_is_source.

Theorem C14_Patch_Format_formatters_is_source :
  forall (cnt : sink -> list Z -> Z) (er : sink -> list Z -> go_xerr) (time : Type)
         (time_is_zero : time -> bool) (format_time : time -> bytes)
         (IsZero : time -> res bool) (Format : time -> list Z -> res (list Z)),
    (forall ts, IsZero ts = Ok (time_is_zero ts)) ->
    (forall ts, Format ts default_time_format = Ok (zb (format_time ts))) ->
  forall (k : fmt_kind) (h : list G.Chunk) (fuel : nat) (ads : list (option nat)) (p : patch time) (w : sink),
    chunks_fuel fuel (p_chunks p) -> cells h ads (p_chunks p) ->
    R.Patch_Format (option_map rfienc (p_info p)) ads w
                   (fun w ch fi => g_of cnt er time IsZero Format k h fuel w ch (option_map rfi fi))
    = Ok (None, w ++ zb (patch_format p (ff_of time time_is_zero format_time k))).
Proof. exact Patch_Format_formatters_is_source. Qed.
Print Assumptions C14_Patch_Format_formatters_is_source.

(* the model's dispatchers agree with how the C14 theorems apply the formatters: C14_normal_apply
   read through Diff.Format, and Read(Diff.Format(Normal)) re-formatted by Patch.Format(Normal) *)
Theorem C14_dispatch_normal_apply :
  forall (time : Type) (d : diff line) (fi : option (file_info time)),
    patch_ok (Left d) (Right d) (Chunks d) -> normal_ok (Chunks d) -> lines_nf (Chunks d) ->
    apply_normal (Left d) (split_lines (diff_format d ff_normal fi)) = Some (Right d).
Proof. exact diff_format_normal_apply. Qed.
Print Assumptions C14_dispatch_normal_apply.

Theorem C14_dispatch_format_read_format_normal :
  forall (time : Type) (d : diff line) (fi : option (file_info time)),
    normal_ok (Chunks d) -> lines_nf (Chunks d) ->
    exists cs', read_normal (diff_format d ff_normal fi) = ROk cs' /\
                patch_format (mkPatch (@None (file_info time)) cs') ff_normal = diff_format d ff_normal fi.
Proof. exact format_read_format_normal. Qed.
Print Assumptions C14_dispatch_format_read_format_normal.

(* non-vacuity: a one-chunk diff ("b" replaced by "c" at line 2) in a heap of one cell, a writer
   that appends, time := unit; the generated Diff.Format and Patch.Format with the generated
   Normal / Unified write the expected text *)
Definition ex2_c : chunk line := mkChunk [mkEdit Replace [[98]%N] [[99]%N]] 2 3 2 3.
Definition ex2_d : diff line := mkDiff [[97]; [98]]%N [[97]; [99]]%N [ex2_c] [].
Definition ex2_W := sink_write (fun _ _ => 0) (fun _ _ => None).
Definition ex2_g k := g_of (fun _ _ => 0) (fun _ _ => None) unit (fun _ => Ok true) (fun _ _ => Ok []) k [henc ex2_c] 5%nat.
Example C14_dispatch_source_ex :
  cells [henc ex2_c] [Some 0%nat] (Chunks ex2_d) /\ chunks_fuel 5 (Chunks ex2_d) /\
  D.Diff_Format [Some 0%nat] [] (fun w ch fi => ex2_g FNormal w ch (option_map dfi fi)) None
    = Ok (None, zb (diff_format ex2_d (@ff_normal unit) None)) /\
  zb (diff_format ex2_d (@ff_normal unit) None) = [50; 99; 50; 10; 60; 32; 98; 10; 45; 45; 45; 10; 62; 32; 99; 10] /\
  R.Patch_Format (Some (rfienc (mkFileInfo [120]%N [121]%N tt tt))) [Some 0%nat] []
                 (fun w ch fi => ex2_g FUnified w ch (option_map rfi fi))
    = Ok (None, zb (patch_format (mkPatch (Some (mkFileInfo [120]%N [121]%N tt tt)) [ex2_c])
                                 (ff_unified (fun _ : unit => true) (fun _ => []) pinned))).
Proof.
  split; [repeat constructor|]. split; [unfold chunks_fuel, chunk_fuel, edit_fuel; simpl; repeat constructor|].
  vm_compute. repeat split.
Qed.
