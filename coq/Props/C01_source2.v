(* C01 at the level of the GENERATED code, SEVERAL trees: histories with Tree.Clone.  Extends
   Props/C01_source.v (single tree) by the functions tied in round 6 (GenTie/StreeTieRest.v):
   Tree.Clone and Tree.InorderAfter as the generated METHOD.  Only statements, each closed by
   [exact] of a lemma proved in GenTie/StreeSource2Sim.v.

   Vocabulary (GenTie/StreeSource2.v, definitions only; GenTie/StreeSource.v):
   [mst T]          ONE node heap and the list of Tree RECORDS (G.Tree: root, β, compare, limit,
                    size, max) in order of creation;
   [minit cmp limit b h0]   one empty tree (root nil, size 0, max 0, compare = cmp, limit = limit b,
                    β = b: what New(β, cmp) builds without keys) on an ARBITRARY heap h0;
   [mop]            MClone i = the generated Tree_Clone on tree i (the record it returns becomes
                    the next tree, the heap it returns the new heap);  MOn i o = the op o
                    (Add | Replace | Remove | Clear | Get | Min | Max | Len | IsEmpty | Inorder |
                    InorderAfter) of Props/C01_source.v on tree i, every argument taken from the
                    fields of record i, root/size/max written back; InorderAfter calls the
                    generated method Tree_InorderAfter (key and the iterator's yield).  An op that
                    names an index no tree has makes no call and answers [None];
   [mstep], [mrun], [mexec]   one call / all outputs / the final state;
   [mref_run], [mref_exec]    the same history on one strictly ascending LIST per tree (Clone
                    copies the list; everything else is [ref_step] of Props/C01_source.v);
   [mtarget o]      the tree an op may change: Some i for MOn i _, None for MClone _;
   [hreach h p x d], [hkeys h n p], [trepr], [frame]   as in Props/C01_source.v.

   API subset: every Tree method that is translated, now INCLUDING Clone.  NOT covered (not
   translated): New (variadic keys, slices.SortFunc/CompactFunc with closures, float arithmetic
   in limitFunc), String; so every tree of a history is the initial empty one or a Clone.
   Assumed: the comparator laws ([total_preorder]); machine ints unbounded.  The β field is
   arbitrary here (the range check on β is New's, which is not part of these histories). *)
From Coq Require Import ZArith List Lia.
Import ListNotations.
From Mds Require Import Common.FnRt GenTie.StreeTieBase GenTie.StreeSep GenTie.StreeSource
  GenTie.StreeSource2 GenTie.StreeSource2Sim.
From Mds Require Import Stree.StreeSpec.
From Mds Require Stree.HeightModel Props.C01_source.
Local Open Scope Z_scope.

(* C01 for the generated code over any number of trees: for every total-preorder comparator,
   every depth-limit function, every β field, every initial heap and every history of
   Clone/Add/Replace/Remove/Clear/Get/Min/Max/Len/IsEmpty/Inorder/InorderAfter over the trees
   created by Clone from the one that starts empty: the outputs of the generated functions equal
   the reference's (one sorted list per tree, Clone copies the list), element for element, and
   no call panics or runs out of fuel.  Since later outputs of BOTH copies are compared, this is
   the observable half of "operations on the clone do not affect t" and vice versa. *)
Theorem C01_history_source_clone : forall (T : Type) (cmp : T -> T -> Z), total_preorder cmp ->
  forall (limit : Z -> Z -> Z) (zero : T) (b : Z) (h0 : list (G.node T)) (ops : list (mop T)),
  mrun zero (minit cmp limit b h0) ops = mref_run zero cmp [[]] ops /\
  Forall (fun x => forall y, x = Some y -> (forall k, y <> GPanic k) /\ y <> GFuel)
         (mrun zero (minit cmp limit b h0) ops).
Proof. exact @history_source_clone. Qed.
Print Assumptions C01_history_source_clone.

(* The physical half, in terms of the generated state only: after any history, one more call
   o leaves every tree j other than its target with the same record, and every cell reachable from
   that record's root holds what it held (its tree-shaped region represents the same tree before
   and after); Clone has no target: it changes NO existing tree, not even its receiver; the cells
   reachable from the root of the record Clone returns are all NEW (beyond the old heap), so a
   clone shares no node with any older tree.  The heap only grows. *)
Theorem C01_clone_independence_source : forall (T : Type) (cmp : T -> T -> Z), total_preorder cmp ->
  forall (limit : Z -> Z -> Z) (zero : T) (b : Z) (h0 : list (G.node T)) (ops : list (mop T)) (o : mop T),
  let st := mexec zero (minit cmp limit b h0) ops in
  let st' := fst (mstep zero st o) in
  (length (m_heap st) <= length (m_heap st'))%nat /\
  (forall j g, mtarget o <> Some j -> nth_error (m_trees st) j = Some g ->
     nth_error (m_trees st') j = Some g /\
     (forall a d, hreach (m_heap st) (G.Tree_root g) a d -> nth_error (m_heap st') a = nth_error (m_heap st) a) /\
     exists t F, trepr (m_heap st) (G.Tree_root g) t F /\ trepr (m_heap st') (G.Tree_root g) t F) /\
  (forall i g', o = MClone i -> nth_error (m_trees st') (length (m_trees st)) = Some g' ->
     forall a d, hreach (m_heap st') (G.Tree_root g') a d -> (length (m_heap st) <= a)%nat).
Proof. exact @clone_independence_source. Qed.
Print Assumptions C01_clone_independence_source.

(* The final state of a history: as many Tree records as the reference has lists; record i has
   the run's compare/limit/β, its size field is the length of the reference's list i, and the
   cells reachable from its root hold exactly that list, left to right, on a tree-shaped region
   of cells allocated by the history; no cell is reachable from the roots of two different
   trees; no cell of the initial heap changed. *)
Theorem C01_final_state_source_clone : forall (T : Type) (cmp : T -> T -> Z), total_preorder cmp ->
  forall (limit : Z -> Z -> Z) (zero : T) (b : Z) (h0 : list (G.node T)) (ops : list (mop T)),
  let st := mexec zero (minit cmp limit b h0) ops in
  let Ls := mref_exec zero cmp [[]] ops in
  length (m_trees st) = length Ls /\ frame h0 (m_heap st) [] /\
  (forall i g, nth_error (m_trees st) i = Some g ->
     exists l, nth_error Ls i = Some l /\
       hkeys (m_heap st) (length (m_heap st)) (G.Tree_root g) = Some l /\
       G.Tree_size g = Z.of_nat (length l) /\
       G.Tree_compare g = cmp /\ G.Tree_limit g = limit b /\ G.Tree_β g = b /\
       exists t F, trepr (m_heap st) (G.Tree_root g) t F /\ SM.inorder t = l /\
                   forall k, In k F -> (length h0 <= k < length (m_heap st))%nat) /\
  (forall i j gi gj a di dj, i <> j ->
     nth_error (m_trees st) i = Some gi -> nth_error (m_trees st) j = Some gj ->
     hreach (m_heap st) (G.Tree_root gi) a di -> ~ hreach (m_heap st) (G.Tree_root gj) a dj).
Proof. exact @final_state_source_clone. Qed.
Print Assumptions C01_final_state_source_clone.

(* ---- the machine runs: pairs compared by key, β = 250, the exact limit, a heap that already
        holds a foreign (cyclic) cell; tree 1 = Clone of tree 0 after three Adds, then both are
        changed; tree 2 = Clone of tree 1, then cleared; ops on trees 5 and 7 name no tree ---- *)
Definition src_ops2 : list (mop (Z * Z)) :=
  [MOn 0 (SAdd (1,1)); MOn 0 (SAdd (2,2)); MOn 0 (SAdd (3,3)); MClone 0;
   MOn 1 (SAdd (4,4)); MOn 0 (SRemove (2,0)); MOn 1 (SReplace (2,9));
   MOn 0 (SInorder None); MOn 1 (SInorder None); MClone 1; MOn 2 SClear;
   MOn 1 (SInorderAfter (2,0) None); MOn 2 SLen; MOn 5 SLen; MClone 7; MOn 0 SLen; MOn 1 SLen].

Definition src_init2 : mst (Z * Z) :=
  minit C01_source.src_cmp HeightModel.limit_exact 250 [C01_source.src_junk].

Example C01_history_source_clone_ex :
  total_preorder C01_source.src_cmp /\
  mrun (0,0) src_init2 src_ops2 =
  [Some (GBool true); Some (GBool true); Some (GBool true); Some GUnit;
   Some (GBool true); Some (GBool true); Some (GBool false);
   Some (GList [(1,1); (3,3)]); Some (GList [(1,1); (2,9); (3,3); (4,4)]); Some GUnit; Some GUnit;
   Some (GList [(2,9); (3,3); (4,4)]); Some (GInt 0); None; None; Some (GInt 2); Some (GInt 4)] /\
  mref_exec (0,0) C01_source.src_cmp [[]] src_ops2 = [[(1,1); (3,3)]; [(1,1); (2,9); (3,3); (4,4)]; []].
Proof. split; [exact C01_source.src_cmp_preorder|]. vm_compute. split; reflexivity. Qed.

(* the state after the history: tree 0 on cells 1,3; tree 1 on cells 4,5,6,7 (allocated by the
   first Clone and the Add on the clone); tree 2 empty (its four cells 10..13, allocated by the
   second Clone, are garbage after Clear); the foreign cell 0 untouched *)
Example C01_final_state_source_clone_ex :
  let st := mexec (0,0) src_init2 src_ops2 in
  map (fun g => (G.Tree_root g, G.Tree_size g, G.Tree_max g, G.Tree_β g)) (m_trees st) =
    [(Some 1%nat, 2, 3, 250); (Some 4%nat, 4, 4, 250); (None, 0, 0, 250)] /\
  length (m_heap st) = 14%nat /\ nth_error (m_heap st) 0 = Some C01_source.src_junk /\
  hkeys (m_heap st) 14 (Some 1%nat) = Some [(1,1); (3,3)] /\
  hkeys (m_heap st) 14 (Some 4%nat) = Some [(1,1); (2,9); (3,3); (4,4)].
Proof. vm_compute. repeat split. Qed.

(* the step "Remove 2 from tree 0" (the sixth call) leaves the clone's root record and cells alone *)
Example C01_clone_independence_source_ex :
  let st := mexec (0,0) src_init2 (firstn 5 src_ops2) in
  let st' := fst (mstep (0,0) st (MOn 0 (SRemove (2,0)))) in
  mtarget (MOn 0 (SRemove (2,0)) : mop (Z * Z)) <> Some 1%nat /\
  option_map G.Tree_root (nth_error (m_trees st) 1) = Some (Some 4%nat) /\
  option_map G.Tree_root (nth_error (m_trees st') 1) = Some (Some 4%nat) /\
  hreach (m_heap st) (Some 4%nat) 5%nat 1 /\
  nth_error (m_heap st') 5 = nth_error (m_heap st) 5 /\
  (* the target's own cell 1 (key 1, right child 2 before, 3 after) did change *)
  option_map G.Tree_root (nth_error (m_trees st) 0) = Some (Some 1%nat) /\
  nth_error (m_heap st') 1 <> nth_error (m_heap st) 1.
Proof.
  vm_compute. split; [discriminate|]. split; [reflexivity|]. split; [reflexivity|]. split.
  - eapply hreach_left; [reflexivity|]. eapply hreach_here. reflexivity.
  - split; [reflexivity|]. split; [reflexivity|discriminate].
Qed.
