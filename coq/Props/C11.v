(* C11 — slice.EditScript returns a valid, minimal, canonical edit script.
   Only statements, each closed by [exact] of a lemma proved elsewhere
   (Slice/EditSpecProofs.v, Slice/EditProofs.v). *)
From Coq Require Import ZArith List Bool.
Import ListNotations.
From Mds Require Import Slice.Subseq Slice.EditModel Slice.EditSpecProofs.

(* The executable checker the driver runs on the implementation's output decides the
   specification [Valid], whenever [same] decides identity of elements. *)
Theorem C11_checker_decides_valid :
  forall (T : Type) (eqb same : T -> T -> bool),
    (forall a b, same a b = true <-> a = b) ->
    forall es l r, valid_edits_gen eqb same l r es = true <-> Valid eqb l r es.
Proof. exact valid_edits_gen_iff. Qed.
Print Assumptions C11_checker_decides_valid.

Example C11_checker_decides_valid_ex :
  valid_edits_gen Nat.eqb Nat.eqb [1; 2; 3] [1; 4; 3]
    [mkEdit Emit [1] []; mkEdit Replace [2] [4]; mkEdit Emit [3] []] = true.
Proof. vm_compute. reflexivity. Qed.

(* Every valid script exhibits a common subsequence as long as what it keeps. *)
Theorem C11_valid_script_common_subseq :
  forall (T : Type) (eqb : T -> T -> bool) es l r,
    Valid eqb l r es ->
    exists c, length c = kept es /\ Subseq c l /\ SubseqB eqb c r.
Proof. exact Valid_common_subseq. Qed.
Print Assumptions C11_valid_script_common_subseq.

Example C11_valid_script_common_subseq_ex :
  Valid Nat.eqb [1; 2; 3] [1; 4; 3] [mkEdit Emit [1] []; mkEdit Replace [2] [4]; mkEdit Emit [3] []].
Proof. apply (valid_edits_gen_iff nat Nat.eqb Nat.eqb PeanoNat.Nat.eqb_eq). vm_compute. reflexivity. Qed.
