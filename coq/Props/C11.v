(* C11 — slice.EditScript / editScriptFunc returns a valid, minimal, canonical edit script.
   Only statements, each closed by [exact] of a lemma proved elsewhere
   (Slice/EditSpecProofs.v, Slice/EditProofs.v, Slice/EditTheorems.v).

   Reading guide.  [edit_script_run eqb lhs rhs] is the statement-by-statement model of
   editScriptFunc(eq, lhs, rhs) (LCSFunc's model, then the loop), with result EOk es | EPanic
   (an index or slice bound out of range) | EOutOfFuel; [edit_script_func] is the script it
   returns.  [Valid eqb l r es] (Slice/EditSpec.v): executing es consumes l and produces r, each
   X/Y being the very span at the current offset (l = X e ++ l'), the elements of an Emit being
   equivalent position by position to the span of rhs.  [expand lhs es] reads the empty script
   as the single Emit of all of lhs (the documented convention).  [kept] counts emitted
   elements; [cost] = removed + inserted elements.  [Exec eqb l r es] is the most general
   reading of a script: ANY sequence of Emit/Drop/Copy/Replace edits that consumes l and
   produces r (not necessarily canonical, unused fields ignored); [Valid] => [Exec].
   [edit_script_run_cap eqb lx rx lhs rhs] is the same model run on inputs whose backing arrays
   continue with lx / rx beyond their lengths (Go checks slice bounds against cap, not len);
   [edit_script_run] is the instance without spare capacity.  All theorems hold for every
   element type and every PARTIAL equivalence eqb (symmetric, transitive -- not necessarily
   reflexive): that is what == is on every comparable Go type, floating-point NaN included
   (NaN == NaN is false; such elements are related to nothing, never kept, always dropped /
   copied).  Only C11_executes wants reflexivity (to say the output equals rhs up to eqb). *)
From Coq Require Import ZArith List Bool PeanoNat.
Import ListNotations.
From Mds Require Import Gen.EditIdx Slice.Subseq Slice.LcsModel Slice.EditModel Slice.EditSpecProofs
     Slice.EditProofs Slice.EditCapProofs Slice.EditTheorems.

(* ---- the whole property in one statement ------------------------------------------------ *)

(* For all lhs rhs: LCSFunc returns some L, a common subsequence (up to eqb) that no common
   subsequence exceeds in length (C12); editScriptFunc returns normally (no index / slice
   bound out of range, no loop out of fuel) some es -- the same es whatever the spare capacity
   of the two inputs holds; es is valid; it keeps exactly |L| elements, and no executable script
   whatsoever (any sequence of edits consuming lhs and producing rhs) keeps more or changes
   fewer elements; it is canonical (no empty edit, adjacent edits differ in kind, no Drop next
   to a Copy) and moreover Emit / non-Emit edits strictly alternate; and it is empty exactly
   when lhs and rhs are equal under eqb. *)
Theorem C11_edit_script :
  forall (T : Type) (eqb : T -> T -> bool),
    (forall x y, eqb x y = true -> eqb y x = true) ->
    (forall x y z, eqb x y = true -> eqb y z = true -> eqb x z = true) ->
    forall lhs rhs,
    exists L es,
      lcs_func T eqb lhs rhs = Some L /\
      CommonSubseq eqb L lhs rhs /\
      (forall t, CommonSubseq eqb t lhs rhs -> (length t <= length L)%nat) /\
      (forall lx rx, edit_script_run_cap eqb lx rx lhs rhs = EOk es) /\
      ValidScript eqb lhs rhs es /\
      kept (expand lhs es) = length L /\
      (forall es', Exec eqb lhs rhs es' ->
                   (kept es' <= kept (expand lhs es))%nat /\
                   (cost (expand lhs es) <= cost es')%nat) /\
      canonical es = true /\ alternating es = true /\
      (es = [] <-> EqLists eqb lhs rhs).
Proof. exact edit_script_full_spec. Qed.
Print Assumptions C11_edit_script.

(* the hypotheses are satisfiable, on a non-trivial instance: an equivalence that is not
   equality (elements are key/payload pairs compared by key), repeated keys on both sides *)
Definition key_eqb (a b : nat * nat) : bool := Nat.eqb (fst a) (fst b).
Lemma key_refl : forall x, key_eqb x x = true.
Proof. intros x. apply Nat.eqb_refl. Qed.
Lemma key_sym : forall x y, key_eqb x y = true -> key_eqb y x = true.
Proof. unfold key_eqb. intros x y H. apply Nat.eqb_eq in H. rewrite H. apply Nat.eqb_refl. Qed.
Lemma key_trans : forall x y z, key_eqb x y = true -> key_eqb y z = true -> key_eqb x z = true.
Proof. unfold key_eqb. intros x y z H1 H2. apply Nat.eqb_eq in H1. now rewrite H1. Qed.

(* ... and on a partial equivalence that is not reflexive: equality except that 9 is related to
   nothing, not even itself (as NaN under ==) *)
Definition nan_eqb (a b : nat) : bool := Nat.eqb a b && negb (Nat.eqb a 9).
Lemma nan_sym : forall x y, nan_eqb x y = true -> nan_eqb y x = true.
Proof.
  unfold nan_eqb. intros x y H. apply andb_true_iff in H. destruct H as [H1 H2].
  apply Nat.eqb_eq in H1. subst y. now rewrite Nat.eqb_refl.
Qed.
Lemma nan_trans : forall x y z, nan_eqb x y = true -> nan_eqb y z = true -> nan_eqb x z = true.
Proof.
  unfold nan_eqb. intros x y z H H'. apply andb_true_iff in H. destruct H as [H1 H2].
  apply Nat.eqb_eq in H1. now subst y.
Qed.

Example C11_edit_script_nan_ex :
  nan_eqb 9 9 = false /\
  edit_script_run_cap nan_eqb [9] [9; 9] [9; 1; 2; 9; 3] [9; 1; 9; 3]
  = EOk [mkEdit Replace [9] [9]; mkEdit Emit [1] []; mkEdit Replace [2; 9] [9]; mkEdit Emit [3] []] /\
  edit_script_func nan_eqb [1; 9] [1; 9] = [mkEdit Emit [1] []; mkEdit Replace [9] [9]].
Proof. vm_compute. repeat split. Qed.

Example C11_edit_script_ex :
  edit_script_run_cap key_eqb [(9,9); (9,9)] [(1,3)]
    [(1,0); (2,0); (1,1); (3,0); (1,2)] [(1,7); (1,8); (4,7); (1,9); (2,7)]
  = EOk [mkEdit Emit [(1,0)] []; mkEdit Drop [(2,0)] []; mkEdit Emit [(1,1)] [];
         mkEdit Replace [(3,0)] [(4,7)]; mkEdit Emit [(1,2)] []; mkEdit Copy [] [(2,7)]].
Proof. vm_compute. reflexivity. Qed.

(* ---- the clauses one by one -------------------------------------------------------------- *)

(* no index ever out of range, no slice bound out of range, no loop out of fuel *)
Theorem C11_no_panic :
  forall (T : Type) (eqb : T -> T -> bool),
    (forall x y, eqb x y = true -> eqb y x = true) ->
    (forall x y z, eqb x y = true -> eqb y z = true -> eqb x z = true) ->
    forall lhs rhs, edit_script_run eqb lhs rhs = EOk (edit_script_func eqb lhs rhs).
Proof. exact edit_script_run_ok_per. Qed.
Print Assumptions C11_no_panic.

(* the precondition matters: under an irreflexive relation the real code (and the model)
   index out of range *)
Example C11_no_panic_ex : edit_script_run Nat.ltb [0] [1; 1] = EPanic.
Proof. vm_compute. reflexivity. Qed.

(* Capacity (Go checks the bounds of s[lo:hi] against cap(s)).  For ANY eq function, lawful or
   not: if the run on inputs without spare capacity returns normally, the run on the same
   inputs with any spare capacity lx, rx returns the same -- a slice expression that passes the
   stricter check against len never reaches what lies behind the slice. *)
Theorem C11_capacity_monotone :
  forall (T : Type) (eqb : T -> T -> bool) lx rx lhs rhs es,
    edit_script_run eqb lhs rhs = EOk es -> edit_script_run_cap eqb lx rx lhs rhs = EOk es.
Proof. exact edit_script_run_cap_mono. Qed.
Print Assumptions C11_capacity_monotone.

(* the hypothesis is satisfiable (stated so that it does not depend on which of several longest
   common subsequences LCSFunc picks); and an index past len panics however large cap is (an
   index is checked against len): the irreflexive < again *)
Example C11_capacity_monotone_ex :
  (exists es, es <> [] /\
     edit_script_run key_eqb [(1,0); (2,0); (1,1)] [(1,7); (1,8); (4,7)] = EOk es /\
     edit_script_run_cap key_eqb [(1,5); (4,5)] [(2,6)] [(1,0); (2,0); (1,1)] [(1,7); (1,8); (4,7)] = EOk es) /\
  edit_script_run_cap Nat.ltb [9; 9; 9] [9; 9; 9] [0] [1; 1] = EPanic.
Proof. vm_compute. split; [|reflexivity]. eexists. repeat split. discriminate. Qed.

(* for an equivalence: whatever the spare capacity holds, the script of the theorems below *)
Theorem C11_any_capacity :
  forall (T : Type) (eqb : T -> T -> bool),
    (forall x y, eqb x y = true -> eqb y x = true) ->
    (forall x y z, eqb x y = true -> eqb y z = true -> eqb x z = true) ->
    forall lx rx lhs rhs,
      edit_script_run_cap eqb lx rx lhs rhs = EOk (edit_script_func eqb lhs rhs).
Proof. exact edit_script_run_cap_indep_per. Qed.
Print Assumptions C11_any_capacity.

Example C11_any_capacity_ex :
  edit_script_run_cap Nat.eqb [2; 3] [3] [0; 1; 2] [0; 2; 3] =
  EOk [mkEdit Emit [0] []; mkEdit Drop [1] []; mkEdit Emit [2] []; mkEdit Copy [] [3]].
Proof. vm_compute. reflexivity. Qed.

(* executing the edits consumes lhs and produces rhs, X/Y the spans at the current offsets *)
Theorem C11_valid :
  forall (T : Type) (eqb : T -> T -> bool),
    (forall x y, eqb x y = true -> eqb y x = true) ->
    (forall x y z, eqb x y = true -> eqb y z = true -> eqb x z = true) ->
    forall lhs rhs, ValidScript eqb lhs rhs (edit_script_func eqb lhs rhs).
Proof. exact edit_script_valid_per. Qed.
Print Assumptions C11_valid.

Example C11_valid_ex :
  valid_script_gen key_eqb (fun a b => Nat.eqb (fst a) (fst b) && Nat.eqb (snd a) (snd b))
    [(1,0); (2,0); (1,1); (3,0); (1,2)] [(1,7); (1,8); (4,7); (1,9); (2,7)]
    (edit_script_func key_eqb [(1,0); (2,0); (1,1); (3,0); (1,2)] [(1,7); (1,8); (4,7); (1,9); (2,7)])
  = true.
Proof. vm_compute. reflexivity. Qed.

(* read as an execution, for a partial equivalence: what is consumed is lhs; what is output is
   rhs, position by position the very element (Copy / Replace) or an equivalent one (Emit) *)
Theorem C11_executes_per :
  forall (T : Type) (eqb : T -> T -> bool),
    (forall x y, eqb x y = true -> eqb y x = true) ->
    (forall x y z, eqb x y = true -> eqb y z = true -> eqb x z = true) ->
    forall lhs rhs,
      let es := expand lhs (edit_script_func eqb lhs rhs) in
      consumed es = lhs /\ Forall2 (fun a b => a = b \/ eqb a b = true) (produced es) rhs.
Proof. exact edit_script_exec_per. Qed.
Print Assumptions C11_executes_per.

Example C11_executes_per_ex :
  produced (expand [9; 1; 2; 9; 3] (edit_script_func nan_eqb [9; 1; 2; 9; 3] [9; 1; 9; 3])) = [9; 1; 9; 3].
Proof. vm_compute. reflexivity. Qed.

(* the same for an equivalence: what is consumed is lhs, what is output is rhs up to eqb *)
Theorem C11_executes :
  forall (T : Type) (eqb : T -> T -> bool),
    (forall x, eqb x x = true) ->
    (forall x y, eqb x y = true -> eqb y x = true) ->
    (forall x y z, eqb x y = true -> eqb y z = true -> eqb x z = true) ->
    forall lhs rhs,
      let es := expand lhs (edit_script_func eqb lhs rhs) in
      consumed es = lhs /\ EqLists eqb (produced es) rhs.
Proof. exact edit_script_exec. Qed.
Print Assumptions C11_executes.

(* the public EditScript on a comparable type (eq is ==): the output is rhs itself, and the
   script is empty exactly when lhs = rhs *)
Theorem C11_executes_exact :
  forall (T : Type) (eqb : T -> T -> bool),
    (forall a b, eqb a b = true <-> a = b) ->
    forall lhs rhs,
      let es := expand lhs (edit_script_func eqb lhs rhs) in
      consumed es = lhs /\ produced es = rhs.
Proof. exact edit_script_exec_exact. Qed.
Print Assumptions C11_executes_exact.

Example C11_executes_exact_ex :
  produced (expand [1; 2; 3; 4; 5] (edit_script_func Nat.eqb [1; 2; 3; 4; 5] [1; 3; 3; 5; 6; 7]))
  = [1; 3; 3; 5; 6; 7].
Proof. vm_compute. reflexivity. Qed.

(* the number of kept elements is the length of what LCSFunc returns ... *)
Theorem C11_kept_is_lcs_length :
  forall (T : Type) (eqb : T -> T -> bool),
    (forall x y, eqb x y = true -> eqb y x = true) ->
    (forall x y z, eqb x y = true -> eqb y z = true -> eqb x z = true) ->
    forall lhs rhs,
    exists L, lcs_func T eqb lhs rhs = Some L /\
              kept (expand lhs (edit_script_func eqb lhs rhs)) = length L.
Proof. exact edit_script_kept_per. Qed.
Print Assumptions C11_kept_is_lcs_length.

(* ... and no valid script keeps more (so none is shorter) *)
Theorem C11_minimal :
  forall (T : Type) (eqb : T -> T -> bool),
    (forall x y, eqb x y = true -> eqb y x = true) ->
    (forall x y z, eqb x y = true -> eqb y z = true -> eqb x z = true) ->
    forall lhs rhs es',
      Valid eqb lhs rhs es' ->
      (kept es' <= kept (expand lhs (edit_script_func eqb lhs rhs)))%nat.
Proof. exact edit_script_minimal_per. Qed.
Print Assumptions C11_minimal.

Example C11_minimal_ex :
  kept (expand [0; 1; 0; 1] (edit_script_func Nat.eqb [0; 1; 0; 1] [1; 0; 1; 0])) = 3.
Proof. vm_compute. reflexivity. Qed.

(* the same against the most general class of scripts: ANY sequence of Emit / Drop / Copy /
   Replace edits that consumes lhs and produces rhs -- canonical or not, with empty edits,
   unfused Drop+Copy, adjacent edits of one kind, whatever the unused fields hold *)
Theorem C11_minimal_general :
  forall (T : Type) (eqb : T -> T -> bool),
    (forall x y, eqb x y = true -> eqb y x = true) ->
    (forall x y z, eqb x y = true -> eqb y z = true -> eqb x z = true) ->
    forall lhs rhs es',
      Exec eqb lhs rhs es' ->
      (kept es' <= kept (expand lhs (edit_script_func eqb lhs rhs)))%nat.
Proof. exact edit_script_minimal_exec_per. Qed.
Print Assumptions C11_minimal_general.

(* Exec accepts non-canonical scripts that Valid / canonical reject *)
Example C11_minimal_general_ex :
  let es' := [mkEdit Drop [] [9]; mkEdit Emit [1] []; mkEdit Drop [2] []; mkEdit Drop [3] [];
              mkEdit Copy [7] [4]; mkEdit Copy [] []; mkEdit Emit [5] [8]] in
  Exec Nat.eqb [1; 2; 3; 5] [1; 4; 5] es' /\ canonical es' = false /\
  valid_edits Nat.eqb [1; 2; 3; 5] [1; 4; 5] es' = false /\
  kept es' = 2%nat /\ kept (expand [1; 2; 3; 5] (edit_script_func Nat.eqb [1; 2; 3; 5] [1; 4; 5])) = 2%nat.
Proof.
  cbv zeta. split; [|vm_compute; auto].
  cbn. exists [1; 2; 3; 5]. split; [reflexivity|].
  exists [2; 3; 5], [1], [4; 5]. repeat split; [repeat constructor|].
  exists [3; 5]. split; [reflexivity|]. exists [5]. split; [reflexivity|].
  exists [5]. split; [reflexivity|]. exists [5]. split; [reflexivity|].
  exists [], [5], []. repeat split. repeat constructor.
Qed.

(* "so no shorter script exists", as the size of the change: no executable script removes +
   inserts fewer elements (cost = |lhs| + |rhs| - 2 kept for every executable script) *)
Theorem C11_least_cost :
  forall (T : Type) (eqb : T -> T -> bool),
    (forall x y, eqb x y = true -> eqb y x = true) ->
    (forall x y z, eqb x y = true -> eqb y z = true -> eqb x z = true) ->
    forall lhs rhs es',
      Exec eqb lhs rhs es' ->
      (cost (expand lhs (edit_script_func eqb lhs rhs)) <= cost es')%nat.
Proof. exact edit_script_least_cost_per. Qed.
Print Assumptions C11_least_cost.

Example C11_least_cost_ex :
  cost (expand [0; 1; 0; 1] (edit_script_func Nat.eqb [0; 1; 0; 1] [1; 0; 1; 0])) = 2%nat /\
  cost [mkEdit Replace [0; 1; 0; 1] [1; 0; 1; 0]] = 8%nat.
Proof. vm_compute. auto. Qed.

(* canonical form *)
Theorem C11_canonical :
  forall (T : Type) (eqb : T -> T -> bool),
    (forall x y, eqb x y = true -> eqb y x = true) ->
    (forall x y z, eqb x y = true -> eqb y z = true -> eqb x z = true) ->
    forall lhs rhs,
      canonical (edit_script_func eqb lhs rhs) = true /\
      alternating (edit_script_func eqb lhs rhs) = true.
Proof. exact edit_script_canonical_per. Qed.
Print Assumptions C11_canonical.

(* the predicate is not vacuous: it rejects an unfused Drop+Copy and two adjacent Emits *)
Example C11_canonical_ex :
  canonical [mkEdit Drop [1] []; mkEdit Copy [] [2]] = false /\
  canonical [mkEdit Emit [1] []; mkEdit Emit [2] []] = false /\
  canonical [mkEdit Emit [1] []; mkEdit Drop [] []] = false /\
  canonical (edit_script_func Nat.eqb [1; 2] [1; 3]) = true.
Proof. vm_compute. auto. Qed.

(* empty exactly when the inputs are equal *)
Theorem C11_empty_iff :
  forall (T : Type) (eqb : T -> T -> bool),
    (forall x y, eqb x y = true -> eqb y x = true) ->
    (forall x y z, eqb x y = true -> eqb y z = true -> eqb x z = true) ->
    forall lhs rhs, edit_script_func eqb lhs rhs = [] <-> EqLists eqb lhs rhs.
Proof. exact edit_script_empty_iff_per. Qed.
Print Assumptions C11_empty_iff.

Theorem C11_empty_iff_eq :
  forall (T : Type) (eqb : T -> T -> bool),
    (forall a b, eqb a b = true <-> a = b) ->
    forall lhs rhs, edit_script_func eqb lhs rhs = [] <-> lhs = rhs.
Proof. exact edit_script_empty_iff_eq. Qed.
Print Assumptions C11_empty_iff_eq.

Example C11_empty_iff_ex :
  edit_script_func key_eqb [(1,0); (2,0)] [(1,5); (2,6)] = [] /\
  edit_script_func Nat.eqb [1; 2] [1; 2; 2] <> [].
Proof. split; vm_compute; [reflexivity | discriminate]. Qed.

(* the public EditScript passes equal(a, b) = (a == b), read off the source (Gen: es_equal, on
   machine ints): it decides equality, the hypothesis of the two _exact / _eq theorems *)
Theorem C11_public_eq_is_equality : forall a b, es_equal a b = true <-> a = b.
Proof. exact es_equal_decides. Qed.
Print Assumptions C11_public_eq_is_equality.

Example C11_public_eq_is_equality_ex :
  edit_script_func es_equal [1; 2; 3]%Z [1; 3; 4]%Z
  = [mkEdit Emit [1]%Z []; mkEdit Drop [2]%Z []; mkEdit Emit [3]%Z []; mkEdit Copy [] [4]%Z].
Proof. vm_compute. reflexivity. Qed.

(* ---- about the specification and the checker --------------------------------------------- *)

(* The executable checker the driver runs on the implementation's output decides [Valid],
   whenever [same] decides identity of elements. *)
Theorem C11_checker_decides_valid :
  forall (T : Type) (eqb same : T -> T -> bool),
    (forall a b, same a b = true <-> a = b) ->
    forall es l r, valid_edits_gen eqb same l r es = true <-> Valid eqb l r es.
Proof. exact valid_edits_gen_iff. Qed.
Print Assumptions C11_checker_decides_valid.

Example C11_checker_decides_valid_ex :
  valid_edits_gen Nat.eqb Nat.eqb [1; 2; 3] [1; 4; 3]
    [mkEdit Emit [1] []; mkEdit Replace [2] [4]; mkEdit Emit [3] []] = true /\
  valid_edits_gen Nat.eqb Nat.eqb [1; 2; 3] [1; 4; 3]
    [mkEdit Emit [1] []; mkEdit Replace [2] [4]; mkEdit Emit [2] []] = false.
Proof. vm_compute. auto. Qed.

(* Every valid script exhibits a common subsequence as long as what it keeps (the bridge from
   C12's "no common subsequence is longer" to "no script keeps more"). *)
Theorem C11_valid_script_common_subseq :
  forall (T : Type) (eqb : T -> T -> bool) es l r,
    Valid eqb l r es ->
    exists c, length c = kept es /\ Subseq c l /\ SubseqB eqb c r.
Proof. exact Valid_common_subseq. Qed.
Print Assumptions C11_valid_script_common_subseq.

(* Valid is Exec with the unused fields empty: every Valid script is executable ... *)
Theorem C11_valid_is_exec :
  forall (T : Type) (eqb : T -> T -> bool) es l r, Valid eqb l r es -> Exec eqb l r es.
Proof. exact Valid_Exec. Qed.
Print Assumptions C11_valid_is_exec.

(* ... and every executable script changes |l| + |r| - 2 kept elements *)
Theorem C11_exec_cost :
  forall (T : Type) (eqb : T -> T -> bool) es l r,
    Exec eqb l r es -> (cost es + 2 * kept es = length l + length r)%nat.
Proof. exact Exec_cost. Qed.
Print Assumptions C11_exec_cost.

(* valid scripts compose (used by the mdiff slice, C13) *)
Theorem C11_valid_app :
  forall (T : Type) (eqb : T -> T -> bool) es1 l1 r1 es2 l2 r2,
    Valid eqb l1 r1 es1 -> Valid eqb l2 r2 es2 -> Valid eqb (l1 ++ l2) (r1 ++ r2) (es1 ++ es2).
Proof. exact Valid_app. Qed.
Print Assumptions C11_valid_app.
