(* C10 (ring part) -- ring.Ring: Of/New/Join/Pop rearrange elements into exactly the documented
   cycles; At/Peek/Len/Each report positions within the current cycle.
   Only statements, each closed by [exact] of a lemma proved in Ring/RingProofs*.v. *)
From Coq Require Import ZArith List.
Import ListNotations.
From Mds Require Import Ring.RingModel.
