(* C10 (ring part) -- ring.Ring: Of/New/Join/Pop rearrange elements into exactly the documented
   cycles (nothing lost or duplicated, Next and Prev mutually inverse); At/Peek/Len/Each report
   positions within the current cycle.
   Only statements, each closed by [exact] of a lemma proved in Ring/RingProofs*.v.

   Model: Ring/RingModel.v ([run]: a history of operations on a heap of (Value, prev, next) cells,
   mirroring ring.go; branch conditions, counter arithmetic, the right-hand side of every pointer
   assignment and every returned pointer from Gen/RingIdx.v).  All names below ([run], [join],
   [pop], [at_], ...) are those of Ring/RingModel.v; the proofs go through Ring/RingProofsTie.v
   (model = the hand-expanded functions of Ring/RingPlain.v).
   Reference: Ring/RingSpec.v ([a_run]: a set of disjoint cyclic sequences of element names plus
   the value of every name; each operation is the picture of the Go doc comment on lists). *)
From Coq Require Import ZArith List Permutation Lia.
Import ListNotations.
From Mds Require Import Ring.RingBase Ring.RingModel Ring.RingSpec Ring.RingProofsBase Ring.RingProofsRep
  Ring.RingProofs Ring.RingProofsPictures Ring.RingProofsInt.
From Mds Require Import Ring.RingProofsTie.   (* last: its [run_heap] is the model's *)
From Mds Require Import Gen.RingIdx.

(* Refinement over histories: for every element type, every zero value and EVERY list of
   operations (New, Of, Join, Pop, Next, Prev, At, Peek, Len, Each with a callback stopping at any
   call, IsEmpty; handles nil or any element handed out so far), starting from the empty heap, the
   model's outputs -- returned handles, values, lengths, enumerations, nil-dereference panics --
   are exactly those of the abstract cyclic sequences. *)
Theorem C10_ring_refinement : forall (T : Type) (zero : T) (ops : list (op T)),
  run T zero empty_heap ops = a_run T zero (a_empty T zero) ops.
Proof. exact m_refinement. Qed.
Print Assumptions C10_ring_refinement.

Example C10_ring_refinement_ex :
  run nat 0 empty_heap
    [OOf [11;12;13;14]; OOf [21;22]; OJoin (Some 1) (Some 4); OEach (Some 0) 0; OLen (Some 5);
     OJoin (Some 0) (Some 4); OEach (Some 0) 0; OEach (Some 3) 0; OPop (Some 4); OEach (Some 0) 0;
     OAt (Some 0) (-1); OPeek (Some 0) 2; OPrev (Some 0); ONext None]
  = [RPtr (Some 0); RPtr (Some 4); RPtr (Some 0); REach [11;12;13;14;21;22]; RLen 6;
     RPtr (Some 3); REach [11;21;22]; REach [12;13;14]; RPtr (Some 4); REach [11;22];
     RPtr (Some 5); RPeek 0 false; RPtr (Some 5); RPanic].
Proof. vm_compute. reflexivity. Qed.

(* No operation of any history exhausts its loop budget: scan (Len, Each), At/Peek and New
   terminate on every reachable heap. *)
Theorem C10_ring_no_hang : forall (T : Type) (zero : T) (ops : list (op T)),
  ~ In RFuel (run T zero empty_heap ops).
Proof. exact m_no_hang. Qed.
Print Assumptions C10_ring_no_hang.

(* The heap reached by any history is represented by the abstract state reached by the same
   history (Rep: the abstract cycles partition the allocated cells, each is linked in the heap by
   next and, backwards, by prev, closing on itself; values agree). *)
Theorem C10_ring_wellformed : forall (T : Type) (zero : T) (ops : list (op T)),
  Rep T (run_heap T zero empty_heap ops) (a_run_state T zero (a_empty T zero) ops).
Proof. exact m_reachable_rep. Qed.
Print Assumptions C10_ring_wellformed.

(* Next and Prev are mutually inverse on every cell of every reachable heap. *)
Theorem C10_ring_links_inverse : forall (T : Type) (zero : T) (ops : list (op T)) (a : addr),
  let h := run_heap T zero empty_heap ops in
  a < size h ->
  (exists b, b < size h /\ nx T h a = Some b /\ pv T h b = Some a) /\
  (exists c, c < size h /\ pv T h a = Some c /\ nx T h c = Some a).
Proof. exact m_links_inverse. Qed.
Print Assumptions C10_ring_links_inverse.

Example C10_ring_links_inverse_ex :
  let h := run_heap nat 0 empty_heap [OOf [1;2;3]; OOf [4;5]; OJoin (Some 2) (Some 3); OPop (Some 0)] in
  size h = 5 /\ nx nat h 2 = Some 3 /\ pv nat h 3 = Some 2 /\ nx nat h 0 = Some 0.
Proof. vm_compute. auto. Qed.

(* Nothing lost or duplicated: after any history the abstract cycles are non-empty and together
   contain every name handed out exactly once. *)
Theorem C10_ring_partition : forall (T : Type) (zero : T) (ops : list (op T)),
  let st := a_run_state T zero (a_empty T zero) ops in
  Permutation (concat (cycles st)) (seq 0 (acount st)) /\ Forall (fun c => c <> []) (cycles st).
Proof. exact ring_partition. Qed.
Print Assumptions C10_ring_partition.

Example C10_ring_partition_ex :
  cycles (a_run_state nat 0 (a_empty nat 0) [OOf [1;2;3]; OOf [4;5]; OJoin (Some 2) (Some 3); OPop (Some 0)])
  = [[0]; [2; 3; 4; 1]].
Proof. vm_compute. reflexivity. Qed.

(* ---- the documented pictures as single steps ----
   On a heap represented by an abstract state whose first cycle is listed from the handle r (any
   representation can be brought to this form: C10_ring_rep_rotate / C10_ring_rep_permute), each
   operation returns what the Go doc comment says and leaves a heap represented by the documented
   cycles; [others], all values and the number of elements are unchanged. *)

(* different rings [r A], [s B]  ->  [r s B A]; returns r2 (r itself when r is alone) *)
Theorem C10_ring_join_different : forall (T : Type) (h : heap T) vals n (r : addr) A (s : addr) B others,
  Rep T h (mkA ((r :: A) :: (s :: B) :: others) vals n) ->
  exists h', join (Some r) (Some s) h = (h', Ok (Some (hd r A))) /\
             Rep T h' (mkA ((r :: s :: B ++ A) :: others) vals n).
Proof. exact m_join_different. Qed.
Print Assumptions C10_ring_join_different.

(* same ring [r x L1 s L2]  ->  [r s L2] and the cut-out [x L1]; returns x *)
Theorem C10_ring_join_same : forall (T : Type) (h : heap T) vals n (r x : addr) L1 (s : addr) L2 others,
  Rep T h (mkA ((r :: (x :: L1) ++ s :: L2) :: others) vals n) ->
  exists h', join (Some r) (Some s) h = (h', Ok (Some x)) /\
             Rep T h' (mkA ((r :: s :: L2) :: (x :: L1) :: others) vals n).
Proof. exact m_join_same. Qed.
Print Assumptions C10_ring_join_same.

(* s = r or s = r.next: nil, and the heap is untouched *)
Theorem C10_ring_join_nothing_between : forall (T : Type) (h : heap T) st (r s : addr),
  Rep T h st -> r < size h -> (s = r \/ nx T h r = Some s) ->
  join (Some r) (Some s) h = (h, Ok None).
Proof. exact m_join_nothing_between. Qed.
Print Assumptions C10_ring_join_nothing_between.

(* Pop: [r y t] -> [r] and [y t]; returns r *)
Theorem C10_ring_pop : forall (T : Type) (h : heap T) vals n (r y : addr) t others,
  Rep T h (mkA ((r :: y :: t) :: others) vals n) ->
  exists h', pop (Some r) h = (h', Ok (Some r)) /\
             Rep T h' (mkA ([r] :: (y :: t) :: others) vals n).
Proof. exact m_pop. Qed.
Print Assumptions C10_ring_pop.

(* At/Peek n: the element at offset n of the cycle read from r (backwards for n < 0), none when
   |n| >= length; Len: the length; Each: the values in cycle order, up to the call on which the
   callback returns false; Next/Prev: the neighbours.  The heap is unchanged. *)
Theorem C10_ring_observers : forall (T : Type) (zero : T) (h : heap T) vals n (r : addr) t others k lim,
  Rep T h (mkA ((r :: t) :: others) vals n) ->
  at_ (Some r) k h = (h, Ok (offset (r :: t) k)) /\
  peek T zero (Some r) k h =
    (h, Ok (match offset (r :: t) k with Some x => (vals x, true) | None => (zero, false) end)) /\
  len (Some r) h = (h, Ok (Z.of_nat (length (r :: t)))) /\
  each (Some r) lim h = (h, Ok (map vals (match lim with O => r :: t | _ => firstn lim (r :: t) end))) /\
  next_of (Some r) h = (h, Ok (Some (hd r t))) /\
  prev_of (Some r) h = (h, Ok (Some (last t r))).
Proof. exact m_observers. Qed.
Print Assumptions C10_ring_observers.

Theorem C10_ring_rep_rotate : forall (T : Type) (h : heap T) l1 x l2 others vals n,
  Rep T h (mkA ((l1 ++ x :: l2) :: others) vals n) -> Rep T h (mkA ((x :: l2 ++ l1) :: others) vals n).
Proof. exact rep_rotate. Qed.
Print Assumptions C10_ring_rep_rotate.

Theorem C10_ring_rep_permute : forall (T : Type) (h : heap T) cs cs' vals n,
  Permutation cs cs' -> Rep T h (mkA cs vals n) -> Rep T h (mkA cs' vals n).
Proof. exact rep_permute. Qed.
Print Assumptions C10_ring_rep_permute.

(* the hypotheses are satisfiable: the heap built by Of 1 2 3 4; Of 5 6 is represented by the
   state the reference computes, whose cycles are [[4;5]; [0;3;2;1]] *)
Example C10_ring_pictures_ex :
  let ops := [OOf [1;2;3;4]; OOf [5;6]] in
  cycles (a_run_state nat 0 (a_empty nat 0) ops) = [[4;5]; [0;3;2;1]] /\
  Rep nat (run_heap nat 0 empty_heap ops) (a_run_state nat 0 (a_empty nat 0) ops).
Proof. split; [vm_compute; reflexivity|apply C10_ring_wellformed]. Qed.

(* ---- machine ints in At/Peek ----
   The model counts the offset in unbounded Z, the Go code in a 64-bit int.  For EVERY offset in
   [-2^63, 2^63) -- the minimum int included -- on every heap and for every receiver, the loop run
   with 64-bit wrap-around arithmetic on the counter (at64, peek64) is the loop of the model: the
   offset is moved toward zero and never negated, so no counter value leaves the int64 range. *)
Theorem C10_ring_at_int64 : forall (T : Type) (zero : T) (r : ptr) (n : Z) (h : heap T),
  int64 n -> at64 r n h = at_ r n h /\ peek64 T zero r n h = peek T zero r n h.
Proof. exact m_at_width. Qed.
Print Assumptions C10_ring_at_int64.

(* one iteration of At's loop from an in-range non-zero counter gives an in-range counter that is
   zero or has the same sign (so the same step applies again): by induction every counter value
   of every run from an int64 offset is an int64 *)
Theorem C10_ring_at_counter_in_range : forall n : Z, int64 n -> at_more n = true ->
  let step := if at_neg n then at_step_back else at_step_fwd in
  int64 (at_dec n step) /\ (at_dec n step = 0%Z \/ at_neg (at_dec n step) = at_neg n).
Proof. exact at_counter_in_range. Qed.
Print Assumptions C10_ring_at_counter_in_range.

(* the minimum int is an int64, and At/Peek with it on the ring Of 1 2 3 give nil / (zero, false) *)
Example C10_ring_at_int64_ex :
  int64 (- 2 ^ 63) /\
  let h := run_heap nat 0 empty_heap [OOf [1;2;3]] in
  run nat 0 h [OAt (Some 0) (- 2 ^ 63); OPeek (Some 0) (- 2 ^ 63); OAt (Some 0) (- 2 ^ 63 + 1);
               OAt (Some 0) (2 ^ 63 - 1); OAt (Some 0) (-2); OAt (Some 0) 2]
  = [RPtr None; RPeek 0 false; RPtr None; RPtr None; RPtr (Some 2); RPtr (Some 1)].
Proof. split; [unfold int64; rewrite pow63; lia|vm_compute; reflexivity]. Qed.

(* ---- New and Of at the edges ----
   New(n) for every n <= 0 (down to the minimum int) and Of() with no values return nil and leave
   the heap untouched. *)
Theorem C10_ring_new_nonpos : forall (T : Type) (zero : T) (n : Z) (h : heap T), (n <= 0)%Z ->
  new T zero n h = (h, Ok None) /\ of T zero [] h = (h, Ok None).
Proof. exact m_new_nonpos. Qed.
Print Assumptions C10_ring_new_nonpos.

(* New's counter: from an int64 argument n > 0 the loop only ever holds counters in [1, n]
   (stated on the condition and the decrement generated from ring.go), so New is insensitive to
   the width of int; the loop runs n-1 times (C10_ring_no_hang: the budget n is never exhausted). *)
Theorem C10_ring_new_counter_in_range : forall n : Z, int64 n -> new_nonpos n = false -> new_more n = true ->
  int64 (new_dec n) /\ new_nonpos (new_dec n) = false /\ (1 <= new_dec n < n)%Z.
Proof. exact new_counter_in_range. Qed.
Print Assumptions C10_ring_new_counter_in_range.

Example C10_ring_new_edges_ex :
  run nat 0 empty_heap [ONew (- 2 ^ 63); ONew 0; OOf []; OLen None; OEach None 0; OIsEmpty None;
                        ONew 1; OLen (Some 0); ONew 3; OLen (Some 1); OIsEmpty (Some 1)]
  = [RPtr None; RPtr None; RPtr None; RLen 0; REach []; RBool true;
     RPtr (Some 0); RLen 1; RPtr (Some 1); RLen 3; RBool false].
Proof. vm_compute. reflexivity. Qed.

(* Pop on a ring of exactly two elements (the two neighbours of r are the same element) *)
Example C10_ring_pop_two_ex :
  run nat 0 empty_heap [OOf [1;2]; OPop (Some 0); OLen (Some 0); OLen (Some 1); ONext (Some 1); OPrev (Some 1);
                        ONext (Some 0); OJoin (Some 0) (Some 1); OEach (Some 1) 0]
  = [RPtr (Some 0); RPtr (Some 0); RLen 1; RLen 1; RPtr (Some 1); RPtr (Some 1);
     RPtr (Some 0); RPtr (Some 0); REach [2; 1]].
Proof. vm_compute. reflexivity. Qed.
